"""Check driver: regenerate models from /repo, build the proof obligations, audit axioms, run the
correspondence, replay known findings, search for a failing input when something broke, write evidence.
See DESIGN.md section 4."""
import glob
import os
import sys
import re
import json
import time
import fcntl
import random
import hashlib
import subprocess
import traceback

ROOT = os.path.dirname(os.path.dirname(os.path.abspath(__file__)))
COQ = os.path.join(ROOT, 'coq')
GEN = os.path.join(COQ, 'gen')
BUILD = os.path.join(ROOT, 'build')
EVID = os.path.join(ROOT, 'evidence')
REPO = os.environ.get('XFAB_REPO', '/repo')

AXIOM_WHITELIST = {
    'ClassicalDedekindReals.sig_forall_dec',
    'ClassicalDedekindReals.sig_not_dec',
    'FunctionalExtensionality.functional_extensionality_dep',
    'Classical_Prop.classic',
}
# primitive integer / float specifications used by the Interval tactic (declared by Coq's stdlib)
AXIOM_PREFIX_OK = ('PrimInt63.', 'PrimFloat.', 'Uint63.', 'FloatAxioms.', 'Sint63.', 'FloatOps.', 'PrimString.',
                   'Coq.Numbers.Cyclic.Int63.', 'Coq.Floats.', 'SpecFloat.')

FORBIDDEN = re.compile(r'\b(Admitted|admit|Axiom|Axioms|Parameter|Parameters|Conjecture|Hypothesis|Hypotheses|'
                       r'Unset\s+Guard|bypass_check|type-in-type|impredicative-set|Admit\s+Obligations)\b')


def write_if_changed(path, text):
    os.makedirs(os.path.dirname(path), exist_ok=True)
    try:
        if open(path).read() == text:
            return False
    except IOError:
        pass
    tmp = path + '.tmp%d' % os.getpid()
    open(tmp, 'w').write(text)
    os.replace(tmp, path)
    return True


class Lock(object):
    def __enter__(self):
        os.makedirs(BUILD, exist_ok=True)
        self.f = open(os.path.join(BUILD, '.lock'), 'w')
        fcntl.flock(self.f, fcntl.LOCK_EX)
        return self

    def __exit__(self, *a):
        fcntl.flock(self.f, fcntl.LOCK_UN)
        self.f.close()


def sh(cmd, timeout, cwd=None):
    t0 = time.time()
    try:
        p = subprocess.run(cmd, shell=True, cwd=cwd, stdout=subprocess.PIPE, stderr=subprocess.STDOUT,
                           timeout=timeout, universal_newlines=True, errors='replace')
        return p.returncode, p.stdout, time.time() - t0
    except subprocess.TimeoutExpired as e:
        out = e.stdout or ''
        if isinstance(out, bytes):
            out = out.decode('utf8', 'replace')
        return 124, out + '\n*** timeout after %ds' % timeout, time.time() - t0


class Broken(object):
    """something that no longer checks: a translator refusal, a proof obligation, a correspondence"""

    def __init__(self, kind, what, detail=''):
        self.kind, self.what, self.detail = kind, what, detail

    def as_dict(self):
        return {'kind': self.kind, 'what': self.what, 'detail': self.detail[-4000:]}


class Ctx(object):
    def __init__(self, pid, tier, seed):
        self.pid, self.tier, self.seed = pid, tier, seed
        self.rng = random.Random(int(hashlib.sha256(('%s/%d' % (pid, seed)).encode()).hexdigest()[:12], 16))
        self.t0 = time.time()
        self.broken = []          # list of Broken
        self.gen = None           # result of regeneration (tracers, tables)
        self.theorems = []        # names of property theorems that were checked
        self.axioms = set()
        self.cov = {'evaluations': 0, 'distinct_nontrivial': 0, 'samples': [], 'disagreements_checked': 0}
        self.distinct = set()
        self.dist = {}            # input distribution histogram
        self.notes = []
        self.known = []           # KNOWN-FINDING lines printed
        self.known_gone = []

    @property
    def quick(self):
        return self.tier == 'quick'

    def n(self, quick, thorough):
        return quick if self.tier == 'quick' else thorough

    def count(self, key, nontrivial=True, sample=None, hist=None):
        """record one evaluated case"""
        self.cov['evaluations'] += 1
        if nontrivial and key not in self.distinct:
            self.distinct.add(key)
        if sample is not None and len(self.cov['samples']) < 12:
            self.cov['samples'].append(sample)
        if hist:
            self.dist[hist] = self.dist.get(hist, 0) + 1


# ---------------------------------------------------------------------------------------------------
def regenerate(ctx, want):
    """want: set of generator names ('trace', 'tables', 'ast', 'checks').  Returns dict; records Broken on refusal."""
    sys.path.insert(0, REPO)
    res = {}
    if 'trace' in want:
        from . import trace
        try:
            res['trace'] = trace.generate(GEN, write_if_changed)
        except Exception as e:
            ctx.broken.append(Broken('translator', 'T1 tracer refused: %s' % e, traceback.format_exc()))
    if 'tables' in want:
        from . import tables
        try:
            res['tables'] = tables.generate(GEN, write_if_changed)
        except Exception as e:
            ctx.broken.append(Broken('translator', 'T2 table extractor refused: %s' % e, traceback.format_exc()))
    if 'checks' in want:
        from . import checksgen
        try:
            res['checks'] = checksgen.generate(GEN, write_if_changed, REPO)
        except Exception as e:
            ctx.broken.append(Broken('translator', 'T3c translator of xfab/checks.py and the guard sites refused: %s' % e, traceback.format_exc()))
    if 'ast' in want:
        from . import pyast
        try:
            res['ast'] = pyast.generate(GEN, write_if_changed)
        except Exception as e:
            ctx.broken.append(Broken('translator', 'T3 AST translator refused: %s' % e, traceback.format_exc()))
    return res


def coq_makefile():
    rc, out, _ = sh('./mk.sh', 120, cwd=COQ)
    if rc != 0:
        raise RuntimeError('mk.sh failed: ' + out)


THEOREM_RE = re.compile(r'^\s*(?:Theorem|Lemma|Example|Corollary)\s+(\w+)', re.M)


def enclosing_lemma(path, line):
    try:
        src = open(path).read().split('\n')
    except IOError:
        return None
    for i in range(min(line, len(src)) - 1, -1, -1):
        m = THEOREM_RE.match(src[i])
        if m:
            return m.group(1)
    return None


def build(ctx, targets, timeout):
    """make the given .vo targets (relative to coq/).  The props files are always recompiled so that
    Print Assumptions is printed on this run.  Returns log text."""
    coq_makefile()
    for t in targets:
        if t.startswith('props/'):
            for ext in ('', 'k', 's'):
                try:
                    os.remove(os.path.join(COQ, t + ext))
                except OSError:
                    pass
    rc, out, wall = sh('make -k -j16 %s' % ' '.join(targets), timeout, cwd=COQ)
    ctx.notes.append('build %s: rc=%d %.1fs' % (' '.join(targets), rc, wall))
    if rc != 0:
        # find failing files / lemmas
        found = False
        for m in re.finditer(r'File "\./([^"]+)", line (\d+), characters [^\n]*\n((?:(?!File ")[^\n]*\n){0,12})', out):
            f, ln, msg = m.group(1), int(m.group(2)), m.group(3)
            if 'Error' not in msg:
                continue
            lem = enclosing_lemma(os.path.join(COQ, f), ln)
            kind = 'correspondence' if os.path.basename(f).startswith('Corr_') else 'obligation'
            ctx.broken.append(Broken(kind, '%s:%d %s' % (f, ln, lem or '?'), msg))
            found = True
        if not found:
            ctx.broken.append(Broken('obligation', 'build failed (rc=%d)' % rc, out[-3000:]))
    return out


def audit(ctx, prop_files, log):
    """forbidden vernacular anywhere in the development; axioms of every property theorem"""
    for dirpath, _, files in os.walk(COQ):
        for fn in files:
            if fn.endswith('.v'):
                p = os.path.join(dirpath, fn)
                txt = open(p).read()
                txt_nc = re.sub(r'\(\*.*?\*\)', '', txt, flags=re.S)
                m = FORBIDDEN.search(txt_nc)
                if m and not (m.group(1) in ('Hypothesis', 'Hypotheses') and _inside_section(txt_nc, m.start())):
                    ctx.broken.append(Broken('audit', 'forbidden vernacular %r in %s' % (m.group(1), os.path.relpath(p, COQ))))
    # theorems in the props files and their Print Assumptions
    names = []
    for pf in prop_files:
        src = open(os.path.join(COQ, pf)).read()
        src_nc = re.sub(r'\(\*.*?\*\)', '', src, flags=re.S)
        th = re.findall(r'^\s*Theorem\s+(\w+)', src_nc, re.M)
        pa = re.findall(r'^\s*Print Assumptions\s+(\w+)\s*\.', src_nc, re.M)
        for t in th:
            if t not in pa:
                ctx.broken.append(Broken('audit', 'theorem %s has no Print Assumptions' % t))
        # proofs in props files must be 'exact <lemma>.' only
        for m in re.finditer(r'Proof\.(.*?)Qed\.', src_nc, re.S):
            body = m.group(1).strip()
            if not re.match(r'^exact\s+[^;]+\.$', body, re.S) or re.search(r'\.\s+\S', body):
                ctx.broken.append(Broken('audit', 'non-trivial proof script in %s: %s' % (pf, body[:80])))
        names += th
    ctx.theorems = names
    # parse axioms from log
    axioms = set()
    closed = 0
    for blk in re.split(r'\n(?=Axioms:|Closed under the global context)', '\n' + log):
        if blk.startswith('Closed under the global context'):
            closed += 1
        elif blk.startswith('Axioms:'):
            body = blk[len('Axioms:'):]
            cut = re.search(r'^(File "|make|Error|COQC|COQDEP|In environment|\*\*\*)', body, re.M)
            if cut:
                body = body[:cut.start()]
            for m in re.finditer(r'^([A-Za-z_][\w\.]*)\s*(?::|$)', body, re.M):
                axioms.add(m.group(1))
    ctx.axioms = axioms
    for a in sorted(axioms):
        if a in AXIOM_WHITELIST or a.startswith(AXIOM_PREFIX_OK):
            continue
        ctx.broken.append(Broken('audit', 'axiom outside the whitelist: %s' % a))
    return names


def _inside_section(txt, pos):
    before = txt[:pos]
    return len(re.findall(r'^\s*Section\s+\w+', before, re.M)) > len(re.findall(r'^\s*End\s+\w+', before, re.M))


# ---------------------------------------------------------------------------------------------------
def load_known(pid):
    p = os.path.join(ROOT, 'known_findings.json')
    try:
        data = json.load(open(p))
    except IOError:
        return []
    return [e for e in data.get('findings', []) if e.get('property') == pid]


def write_replay(ctx, payload):
    d = os.path.join(BUILD, 'replay')
    os.makedirs(d, exist_ok=True)
    k = 0
    while os.path.exists(os.path.join(d, '%s-%d.json' % (ctx.pid, k))):
        k += 1
    p = os.path.join(d, '%s-%d.json' % (ctx.pid, k))
    json.dump(payload, open(p, 'w'), indent=1, default=str)
    return p


def write_evidence(ctx, spec, violations):
    cov = dict(ctx.cov)
    cov['distinct_nontrivial'] = len(ctx.distinct)
    nob = len(ctx.theorems)
    failed = len([b for b in ctx.broken if b.kind in ('obligation', 'audit', 'translator')])
    cov['obligations'] = max(nob, 1)
    cov['discharged'] = nob if failed == 0 else max(nob - failed, 0)
    cov['checker_cmd'] = 'cd /verif/coq && ./mk.sh && make -j16 %s  (coqc 8.16.1, full .vo build; thorough adds coqchk -o)' % ' '.join(p + 'o' for p in spec['props'])
    cov['trusted_base'] = spec.get('trusted', []) + ['axioms used: ' + (', '.join(sorted(ctx.axioms)) or 'none (closed under the global context)')]
    cov['rule'] = spec.get('rule', '')
    if getattr(ctx, 'history_fns', None):
        cov['rule'] += (' History replays (vlib/history.py): %s called after in-place overwriting of the same argument objects, after a call with arguments within 1e-12..1e-5 '
                        'of the present ones, after the caller scribbled over a returned array, and interleaved with unrelated calls; each compared with a freshly reloaded module.' % ', '.join(ctx.history_fns))
    cov['theorems'] = ctx.theorems
    cov['input_distribution'] = ctx.dist
    cov['broken'] = [b.as_dict() for b in ctx.broken]
    cov['known_findings_reproduced'] = ctx.known
    cov['known_findings_no_longer_reproduce'] = ctx.known_gone
    cov['notes'] = ctx.notes
    if spec.get('exhaustive'):
        cov['exhaustive'] = True
    ev = {'property_id': ctx.pid, 'tier': ctx.tier, 'seed': ctx.seed, 'level': 'proof', 'coverage': cov,
          'assumptions': spec.get('assumptions', []), 'wall_s': round(time.time() - ctx.t0, 2),
          'violations': violations}
    os.makedirs(EVID, exist_ok=True)
    p = os.path.join(EVID, '%s.json' % ctx.pid)
    tmp = p + '.tmp'
    json.dump(ev, open(tmp, 'w'), indent=1, default=str)
    os.replace(tmp, p)


def run(pid, tier, seed, spec):
    """spec: dict(target, props, want, correspond(ctx), search(ctx) -> list of failures, replay_known(ctx, entry))"""
    ctx = Ctx(pid, tier, seed)
    os.environ['PYTHONHASHSEED'] = '0'
    with Lock():
        ctx.gen = regenerate(ctx, spec.get('want', {'trace'}))
        if spec.get('pre_build'):
            try:
                spec['pre_build'](ctx)
            except Exception as e:
                ctx.broken.append(Broken('correspondence', 'pre-build generator failed: %s' % e, traceback.format_exc()))
        log = build(ctx, [p + 'o' for p in spec['props']] + spec.get('extra_targets', []), spec.get('timeout', 1500))
        audit(ctx, spec['props'], log)
        if spec.get('finding_props'):
            # theorems that characterise the behaviour of an OPEN known finding ("what the defective code returns"): they are proof obligations only
            # while the finding exists.  If they stop compiling (somebody repaired the code) that is not an alarm; it is reported in the evidence.
            sub = Ctx(pid, tier, seed)
            log2 = build(sub, [p + 'o' for p in spec['finding_props']], spec.get('timeout', 1500))
            if sub.broken:
                ctx.notes.append('known-finding theorems no longer compile (finding repaired or model changed; not an alarm): ' + '; '.join(b.what for b in sub.broken))
                ctx.known_theorems_gone = [b.what for b in sub.broken]
            else:
                main_thms, main_ax = list(ctx.theorems), set(ctx.axioms)
                audit(ctx, spec['finding_props'], log2)
                ctx.theorems = main_thms + ctx.theorems
                ctx.axioms = main_ax | set(ctx.axioms)
        if tier == 'thorough' and not ctx.broken and spec.get('coqchk', True):
            mods = ' '.join('XV.' + p[:-2].replace('/', '.') for p in spec['props'])
            # the Interval library and what it depends on (Flocq, Coquelicot, mathcomp, parts of the stdlib) are loaded without re-checking
            # (re-checking them takes > 30 min per property); everything else in the closure of the property files is re-checked
            rc, out, wall = sh('coqchk -silent -o -bytecode-compiler yes -admit Interval.Tactic -Q . XV %s' % mods, 3000, cwd=COQ)
            ctx.notes.append('coqchk (independent re-check of the compiled closure, Interval library admitted) rc=%d %.0fs' % (rc, wall))
            m = re.search(r'\* Axioms:(.*?)\n\s*\n\s*\*', out, re.S)
            if m:
                ctx.notes.append('coqchk axioms/opaque module fields: ' + ', '.join(x.strip() for x in m.group(1).split('\n') if x.strip()))
            if rc != 0:
                ctx.broken.append(Broken('obligation', 'coqchk failed', out[-3000:]))
    # correspondence (model vs implementation)
    if spec.get('correspond'):
        try:
            spec['correspond'](ctx)
        except Exception as e:
            ctx.broken.append(Broken('correspondence', 'harness error: %s: %s' % (type(e).__name__, e), traceback.format_exc()))
    # known findings: replay each
    known = load_known(pid)
    open_known = [e for e in known if e.get('status') == 'open']
    for e in open_known:
        try:
            still = spec['replay_known'](ctx, e)
        except Exception as ex:
            still = None
            ctx.notes.append('replay of %s raised %s' % (e.get('id'), ex))
        if still:
            line = 'KNOWN-FINDING: property=%s %s' % (pid, e['what'])
            print(line)
            ctx.known.append(e['id'])
        else:
            ctx.known_gone.append(e['id'])
    violations = 0
    # search for failing inputs: always in thorough; in quick only if something broke
    failures = []
    if spec.get('search') and (ctx.broken or spec.get('always_search', True)):
        try:
            failures = spec['search'](ctx) or []
        except Exception as e:
            ctx.broken.append(Broken('search', 'search harness error: %s: %s' % (type(e).__name__, e), traceback.format_exc()))
    failures = list(failures) + history_failures(ctx, spec)
    new_failures = []
    for f in failures:
        matched = None
        for e in open_known:
            if spec.get('match_known') and spec['match_known'](f, e):
                matched = e
                break
        if matched is None:
            new_failures.append(f)
    if new_failures:
        f = new_failures[0]
        p = write_replay(ctx, {'property': pid, 'tier': tier, 'seed': seed, 'failure': f, 'all_failures': new_failures[:20],
                               'broken': [b.as_dict() for b in ctx.broken]})
        print('VIOLATION property=%s replay=%s' % (pid, p))
        violations = len(new_failures)
    elif ctx.broken:
        p = write_replay(ctx, {'property': pid, 'tier': tier, 'seed': seed, 'failure': None,
                               'no_longer_checks': [b.as_dict() for b in ctx.broken]})
        for b in ctx.broken[:8]:
            print('BROKEN %s: %s' % (b.kind, b.what))
        print('VIOLATION property=%s replay=%s no-failing-input-found' % (pid, p))
        violations = 1
    write_evidence(ctx, spec, violations)
    print('%s %s: theorems=%d evaluations=%d distinct=%d known=%d broken=%d wall=%.1fs' % (
        pid, tier, len(ctx.theorems), ctx.cov['evaluations'], len(ctx.distinct), len(ctx.known), len(ctx.broken),
        time.time() - ctx.t0))
    return 1 if violations else 0


def history_failures(ctx, spec):
    """history-independence replays of the property's pure API functions (vlib/history.py): always run, after the search so that its random stream is unchanged"""
    try:
        from . import history, histentries
        entries = spec.get('history') or histentries.ENTRIES.get(ctx.pid)
        if not entries:
            return []
        ctx.history_fns = sorted(set(e['mod'].split('.')[-1] + '.' + e['fn'] for e in entries))
        return history.run(ctx, entries)
    except Exception as e:
        ctx.broken.append(Broken('search', 'history harness error: %s: %s' % (type(e).__name__, e), traceback.format_exc()))
        return []


def replay(pid, spec, path):
    """re-execute a recorded violation against the current /repo: the property's search harness is run again with the recorded seed and tier
    (in its deeper mode if obligations were broken when the file was written) and the recorded failing input is looked up among the failures.
    exit 1 if it fails again, 0 if it no longer does.  A file written for 'no-failing-input-found' names the obligations; replaying it re-runs the check."""
    data = json.load(open(path))
    print(json.dumps(data.get('failure') or data.get('no_longer_checks'), indent=1, default=str)[:3000])
    tier, seed = data.get('tier', 'quick'), int(data.get('seed', 0) or 0)
    if not data.get('failure'):
        return run(pid, tier, seed, spec)
    ctx = Ctx(pid, tier, seed)
    os.environ['PYTHONHASHSEED'] = '0'
    with Lock():
        if data.get('broken'):
            ctx.broken = [Broken(b.get('kind', 'obligation'), b.get('what', ''), '') for b in data['broken']]
        fails = list(spec['search'](ctx) or []) + history_failures(ctx, spec)
    want = data['failure']
    key = lambda f: (f.get('replay'), f.get('class'), f.get('what'))
    same = [f for f in fails if key(f) == key(want)] or [f for f in fails if f.get('class') == want.get('class') and f.get('what') == want.get('what')]
    if same:
        print('REPRODUCED property=%s: %s' % (pid, same[0].get('replay') or same[0].get('what')))
        return 1
    print('not reproduced on the current tree (property=%s; %d other failure(s) found by the same search)' % (pid, len(fails)))
    return 0


SETUP_WANT = {'trace', 'tables', 'ast', 'checks'}


def setup():
    """build everything that does not depend on the property being checked (libraries, generated models,
    all proofs) so that later checks are incremental"""
    ctx = Ctx('setup', 'quick', 0)
    with Lock():
        regenerate(ctx, SETUP_WANT)
        for f in glob.glob(os.path.join(GEN, 'Corr_*')):      # per-check correspondence files are rewritten by their own check; stale ones must not break setup
            os.remove(f)
        coq_makefile()
        rc, out, wall = sh('make -k -j16', 3600, cwd=COQ)
        print(out[-2000:])
        print('setup: make rc=%d %.0fs; translator problems: %s' % (rc, wall, [b.what for b in ctx.broken]))
    return 0

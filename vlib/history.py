"""History independence of the pure API functions.

Every property about a value ("for every cell ... sintl equals ...") quantifies over inputs, hence over every call history that ends with that
input: a function whose result for an input depends on what was called before, on the identity of the argument objects, or on what the caller
did to a previously returned object, violates it for at least one of the two histories.  The randomised searches build fresh argument objects
for every case and can never see such a dependence, so this module replays each registered function under histories that a stateless tester
does not produce and compares the result with the one a pristine interpreter state gives (the xfab modules are re-executed with
importlib.reload before every reference evaluation, which resets all module-level state):

  inplace-near / inplace-far : f(a) ; the SAME argument objects are overwritten in place with the values of b ; f(objs)      vs  fresh f(b)
  consecutive-near           : f(a) ; f(b) on fresh objects with b within 1e-12 .. 1e-5 (relative) of a                       vs  fresh f(b)
  result-scribbled           : r = f(a) ; every ndarray inside r is overwritten ; f(a) again                                  vs  fresh f(a)
  interleaved                : f(a) ; f(c) for an unrelated c ; f(b) with b near a                                            vs  fresh f(b)

  spelling                   : the same values spelled differently - integral values as python ints / integer arrays / numpy integer scalars,
                               arrays as nested lists or tuples, scalars as numpy scalars                                                      vs  f on floats / float64 arrays
                               (a spelling the function does not accept at all - it raises where the float call does not - is recorded, not reported)

Results are compared with the tolerance of the property (default 1e-9 relative to the size of the result; an exception must be the same
exception type).  A difference is reported as a failing input whose replay is the call history."""
import importlib
import math
import sys
import numpy as np

RELOAD_ORDER = ['xfab.checks', 'xfab.tools', 'xfab.laue', 'xfab.symmetry', 'xfab.sg', 'xfab.atomlib', 'xfab.structure', 'xfab.detector', 'xfab.parameters']


class Fixed(object):
    """an argument that is passed as it is and never perturbed (hkl lists, names, integers)"""
    def __init__(self, v):
        self.v = v


class Atoms(object):
    """a list of atom descriptions (dicts) -> objects with attributes; in-place histories keep the objects and overwrite their attributes"""
    def __init__(self, dicts):
        self.dicts = dicts


class _AtomObj(object):
    pass


def pristine(mods):
    """re-execute the xfab modules: module-level caches, memo tables and switches return to their import-time state"""
    import warnings
    with warnings.catch_warnings():
        warnings.simplefilter('ignore')
        for name in RELOAD_ORDER:
            if name in sys.modules and (name == 'xfab.checks' or name in mods or name in ('xfab.tools', 'xfab.sg') and 'xfab.structure' in mods):
                importlib.reload(sys.modules[name])


def build1(v):
    if isinstance(v, Fixed):
        return v.v
    if isinstance(v, Atoms):
        out = []
        for d in v.dicts:
            o = _AtomObj()
            assign_atom(o, d)
            out.append(o)
        return out
    if isinstance(v, (list, tuple)):
        return np.array(v, dtype=float)
    return v


def assign_atom(o, d):
    for k, x in d.items():
        setattr(o, k, np.array(x, float) if k == 'pos' else (list(x) if isinstance(x, (list, tuple)) else x))


def build(a):
    return [build1(v) for v in a]


def assign(objs, b):
    """overwrite the argument objects in place with the values of b (scalars and Fixed are replaced)"""
    out = []
    for o, v in zip(objs, b):
        if isinstance(o, np.ndarray) and isinstance(v, (list, tuple)) and np.shape(v) == o.shape:
            o[...] = np.array(v, float)
            out.append(o)
        elif isinstance(v, Atoms) and isinstance(o, list) and len(o) == len(v.dicts):
            for x, d in zip(o, v.dicts):
                assign_atom(x, d)
            out.append(o)
        else:
            out.append(build1(v))
    return out


def perturb(rng, a, delta, which=None):
    """b = a with the float content moved by a relative/absolute delta (all float arguments, or only one of them)"""
    idx = [i for i, v in enumerate(a) if isinstance(v, float) or isinstance(v, (list, tuple)) or isinstance(v, Atoms)]
    if which == 'one' and idx:
        idx = [rng.choice(idx)]

    def p(x):
        if isinstance(x, (list, tuple)):
            return [p(y) for y in x]
        if isinstance(x, float):
            return x * (1 + delta * rng.uniform(0.3, 1)) + (delta * 1e-3 * rng.uniform(-1, 1) if x == 0 else 0.0)
        return x
    b = list(a)
    for i in idx:
        if isinstance(a[i], Atoms):
            b[i] = Atoms([{k: p(x) if k in ('pos', 'adp', 'occ') else x for k, x in d.items()} for d in a[i].dicts])
        else:
            b[i] = p(a[i])
    return b


def call(entry, objs):
    f = getattr(sys.modules.get(entry['mod']) or importlib.import_module(entry['mod']), entry['fn'])
    try:
        if entry.get('checks') is not None:
            import xfab
            xfab.CHECKS.activated = entry['checks']
        kw = entry.get('kw')
        r = f(*objs, **kw) if kw else f(*objs)
        return ('ok', entry['post'](r) if entry.get('post') else r)
    except Exception as e:           # noqa
        return ('exc', type(e).__name__)


def scribble(r):
    n = 0
    if isinstance(r, np.ndarray) and r.dtype.kind in 'fiuc' and r.flags.writeable:
        r[...] = 7.25 if r.dtype.kind != 'c' else 7.25 + 1j
        return 1
    if isinstance(r, (list, tuple)):
        for x in r:
            n += scribble(x)
    return n


def differs(x, y, tol):
    """None if the two results agree, else a short description"""
    if x[0] != y[0]:
        return '%s vs %s' % (show(x), show(y))
    if x[0] == 'exc':
        return None if x[1] == y[1] else '%s vs %s' % (x[1], y[1])
    return diff_val(x[1], y[1], tol)


def diff_val(u, v, tol):
    if u is None or v is None or isinstance(u, (str, bytes, bool)) or isinstance(v, (str, bytes, bool)):
        return None if (u is None and v is None) or (type(u) == type(v) and u == v) else '%r vs %r' % (u, v)
    if isinstance(u, (list, tuple)) and isinstance(v, (list, tuple)) and (len(u) != len(v) or any(isinstance(x, (list, tuple, np.ndarray, str)) or x is None for x in u)):
        if len(u) != len(v):
            return 'length %d vs %d' % (len(u), len(v))
        for x, y in zip(u, v):
            d = diff_val(x, y, tol)
            if d:
                return d
        return None
    try:
        a, b = np.asarray(u), np.asarray(v)
        if a.dtype.kind not in 'fiucb' or b.dtype.kind not in 'fiucb':
            return None if repr(u) == repr(v) else '%r vs %r' % (u, v)
        a, b = a.astype(complex), b.astype(complex)
    except Exception:
        return None if repr(u) == repr(v) else '%r vs %r' % (u, v)
    if a.shape != b.shape:
        return 'shape %r vs %r' % (a.shape, b.shape)
    if a.size == 0:
        return None
    na, nb = np.isnan(a), np.isnan(b)
    if (na != nb).any():
        return 'NaN pattern differs'
    fin = ~na
    ia, ib = np.isinf(a) & fin, np.isinf(b) & fin
    if (ia != ib).any() or (a[ia] != b[ib]).any():
        return 'infinities differ'
    fin &= ~ia
    if not fin.any():
        return None
    scale = 1.0 + float(np.max(np.abs(b[fin])))
    err = float(np.max(np.abs(a[fin] - b[fin])))
    return None if err <= tol * scale else 'max difference %.3g (scale %.3g)' % (err, scale)


def show(x, n=160):
    if x[0] == 'exc':
        return 'raises ' + x[1]
    if isinstance(x[1], (str, type(None))):
        return repr(x[1])
    try:
        return np.array2string(np.asarray(x[1]), precision=9, threshold=12).replace('\n', ' ')[:n]
    except Exception:
        return ' '.join(repr(x[1]).split())[:n]


def plain(a):
    out = []
    for v in a:
        if isinstance(v, Fixed):
            out.append(v.v if isinstance(v.v, (int, float, str, list, type(None))) else repr(v.v))
        elif isinstance(v, Atoms):
            out.append(v.dicts)
        else:
            out.append(v)
    return out


def integralise(rng, a):
    """a with a random non-empty subset of its float arguments rounded to integral values (still floats); returns (a', chosen indices)"""
    idx = [i for i, v in enumerate(a) if isinstance(v, float) or isinstance(v, (list, tuple))]
    if not idx:
        return list(a), []
    chosen = [i for i in idx if rng.random() < 0.6] or [rng.choice(idx)]

    def r(x):
        if isinstance(x, (list, tuple)):
            return [r(y) for y in x]
        return float(round(x)) if isinstance(x, float) else x
    return [r(v) if i in chosen else v for i, v in enumerate(a)], chosen


SMALL_DTYPES = [np.uint8, np.int8, np.int16, np.uint16, np.int32, np.uint32, np.float32, np.float16]


def small_dtype(v, pick):
    """a narrow numpy dtype that holds the integral value(s) v exactly (chosen by the index `pick`), or None"""
    flat = np.asarray(v, float).reshape(-1)
    k = pick if isinstance(pick, int) else 0
    for j in range(len(SMALL_DTYPES)):
        dt = SMALL_DTYPES[(k + j) % len(SMALL_DTYPES)]
        try:
            with np.errstate(all='ignore'):
                if np.array_equal(np.asarray(flat, dtype=float).astype(dt).astype(float), flat) and (dt not in (np.uint8, np.uint16, np.uint32) or flat.min() >= 0):
                    return dt
        except Exception:
            pass
    return None


def spell(a, chosen, variant, layout_mask=None):
    """argument objects for the values a in one of the spellings 0 (reference: floats, C-ordered float64 arrays), 1 (ints / integer arrays), 2 (lists, numpy scalars),
    3 (tuples), 4 (Fortran-ordered arrays), 5 (transposed / negative-stride views)"""
    def conv(x, f):
        return [conv(y, f) for y in x] if isinstance(x, (list, tuple)) else f(x)

    def tup(x):
        return tuple(tup(y) for y in x) if isinstance(x, (list, tuple)) else x
    out = []
    for i, v in enumerate(a):
        if isinstance(v, (Fixed, Atoms)) or not isinstance(v, (float, list, tuple)):
            out.append(build1(v))
        elif isinstance(v, float):
            integral = i in chosen
            if variant == 6:
                dt = small_dtype(v, layout_mask) if integral else None
                out.append(dt(v) if dt is not None else float(v))
            else:
                out.append([float(v), int(v) if integral else float(v), (np.int64(int(v)) if integral else np.float64(v)), np.float64(v), float(v), float(v)][variant])
        else:
            integral = i in chosen
            if variant == 0:
                out.append(np.array(v, dtype=float))
            elif variant == 1:
                out.append(np.array(v, dtype=int) if integral else np.array(v, dtype=float))
            elif variant == 2:
                out.append(conv(v, int) if integral else conv(v, float))
            elif variant == 3:
                out.append(tup(conv(v, float)))
            elif variant == 6:
                out.append(np.array(v, dtype=small_dtype(v, layout_mask)) if integral and small_dtype(v, layout_mask) is not None else np.array(v, dtype=float))
            else:
                # memory layouts, chosen per argument (variant 4: Fortran order for the arguments picked by the mask, variant 5: transposed / negative-stride views)
                w = np.array(v, dtype=float)
                if layout_mask is not None and not layout_mask[i]:
                    out.append(w)
                elif variant == 4:
                    out.append(np.asfortranarray(w))
                else:
                    out.append(np.ascontiguousarray(w.T).T if w.ndim == 2 else w[::-1].copy()[::-1])
    return out


SPELLINGS = {1: 'integral values as python ints / integer arrays', 2: 'arrays as nested lists, scalars as numpy scalars', 3: 'arrays as tuples, scalars as numpy float64',
             4: 'arrays in Fortran (column-major) memory order', 5: 'arrays as transposed / negative-stride views',
             6: 'integral values in a narrow numpy dtype (uint8 / int8 / int16 / uint16 / int32 / uint32 / float32 / float16)'}


DELTAS = [1e-12, 1e-10, 1e-9, 1e-8, 1e-7, 1e-6, 3e-6, 8e-6, 3e-5, 1e-3, 0.05, 0.5]
MODES = ['inplace-near', 'inplace-near', 'inplace-far', 'consecutive-near', 'consecutive-near', 'result-scribbled', 'interleaved', 'spelling', 'spelling']


def run(ctx, entries):
    """returns a list of failures (same format as the search harnesses)"""
    rng = ctx.rng
    fails, seen = [], set()
    import xfab
    saved_checks = xfab.CHECKS.activated
    for entry in entries:
        mods = set([entry['mod']] + list(entry.get('mods', [])))
        tol = entry.get('tol', 1e-9)
        ntr = entry.get('n', (14, 60))
        for trial in range(ctx.n(*ntr) * 9 // 7):
            mode = MODES[trial % len(MODES)] if trial < 2 * len(MODES) else rng.choice(MODES)
            a = entry['gen'](rng)
            delta = rng.choice(DELTAS[:9]) if rng.random() < 0.8 else rng.choice(DELTAS)
            near = entry.get('near') or (lambda r, x, d: perturb(r, x, d, r.choice([None, 'one'])))
            steps = []
            pristine(mods)                     # start every history from a clean state as well: histories are independent of each other
            if mode == 'spelling':
              for sub in range(6):
                a2, chosen = integralise(rng, a) if sub else (list(a), [])
                pristine(mods)
                ref = call(entry, spell(a2, chosen, 0))
                arr_pos = [i for i, v in enumerate(a2) if isinstance(v, (list, tuple))]
                plans = [(1, None), (2, None), (3, None)]      # variant 6 (narrow numpy dtypes) is not used: see DESIGN.md section 8
                for variant in (4, 5):
                    # memory layouts: every non-empty subset of the array arguments (at most three of them), the others stay C-ordered
                    pos = arr_pos[:3]
                    for bits in range(1, 2 ** len(pos)):
                        sel = set(p_ for j, p_ in enumerate(pos) if bits >> j & 1)
                        plans.append((variant, [(i in sel) for i in range(max(len(a2), 1))]))
                for variant, mask in plans:
                      if variant in (1, 6) and not chosen:
                          continue
                      pristine(mods)
                      got = call(entry, spell(a2, chosen, variant, mask))
                      ctx.count(('hist', entry['mod'], entry['fn'], trial, variant), hist='history:%s.%s:spelling' % (entry['mod'].split('.')[-1], entry['fn']))
                      if got[0] == 'exc' and (ref[0] == 'ok' or got[1] != ref[1]):      # the spelling is not accepted (or fails earlier for its own reason): recorded, not reported
                          ctx.dist['spelling not accepted:%s.%s:%s' % (entry['mod'].split('.')[-1], entry['fn'], got[1])] = ctx.dist.get('spelling not accepted:%s.%s:%s' % (entry['mod'].split('.')[-1], entry['fn'], got[1]), 0) + 1
                          continue
                      d = differs(got, ref, tol)
                      key = (entry['mod'], entry['fn'], 'spelling')
                      if d and key not in seen:
                          seen.add(key)
                          what = ('%s.%s depends on how its arguments are spelled (%s): %r gives %s, the same values as floats / float64 arrays give %s (%s)'
                                  % (entry['mod'], entry['fn'], SPELLINGS[variant] + ('' if not isinstance(mask, list) else ' (arguments %s only)' % [i for i in range(len(a2)) if mask[i]]), spell(a2, chosen, variant, mask), show(got), show(ref), d))
                          fails.append({'class': 'history:spelling', 'fn': entry['mod'] + '.' + entry['fn'], 'mode': 'spelling', 'a': plain(a2), 'integral_args': chosen, 'variant': SPELLINGS[variant],
                                        'got': show(got, 400), 'fresh': show(ref, 400), 'what': what, 'replay': what})
                continue
            if mode.startswith('inplace'):
                b = near(rng, a, delta) if mode == 'inplace-near' else entry['gen'](rng)
                objs = build(a)
                r0 = call(entry, objs)
                objs = assign(objs, b)
                got = call(entry, objs)
                steps = ['%s(*a) -> %s' % (entry['fn'], show(r0)), 'the same argument objects overwritten in place with b', '%s(*objs)' % entry['fn']]
            elif mode == 'consecutive-near':
                b = near(rng, a, delta)
                r0 = call(entry, build(a))
                got = call(entry, build(b))
                steps = ['%s(*a) -> %s' % (entry['fn'], show(r0)), '%s(*b) on fresh objects' % entry['fn']]
            elif mode == 'result-scribbled':
                b = a
                r0 = call(entry, build(a))
                if r0[0] != 'ok' or not scribble(r0[1]):
                    ctx.count(('hist', entry['mod'], entry['fn'], trial), hist='history:%s:no-array-result' % entry['fn'])
                    continue
                got = call(entry, build(b))
                steps = ['r = %s(*a)' % entry['fn'], 'every array inside r overwritten by the caller', '%s(*a) again on fresh objects' % entry['fn']]
            else:
                b = near(rng, a, delta)
                c = entry['gen'](rng)
                call(entry, build(a))
                call(entry, build(c))
                got = call(entry, build(b))
                steps = ['%s(*a)' % entry['fn'], '%s(*c)' % entry['fn'], '%s(*b)' % entry['fn']]
            pristine(mods)
            ref = call(entry, build(b))
            ctx.count(('hist', entry['mod'], entry['fn'], trial), hist='history:%s.%s:%s' % (entry['mod'].split('.')[-1], entry['fn'], mode),
                      sample={'history': mode, 'fn': entry['mod'] + '.' + entry['fn']} if trial == 0 and len(ctx.cov['samples']) < 10 else None)
            d = differs(got, ref, tol)
            key = (entry['mod'], entry['fn'], mode.split('-')[0])
            if d and key not in seen:
                seen.add(key)
                what = ('%s.%s depends on the call history (%s): after [%s] it returns %s, a fresh interpreter state returns %s for the same argument values (%s)'
                        % (entry['mod'], entry['fn'], mode, '; '.join(steps), show(got), show(ref), d))
                fails.append({'class': 'history:' + mode, 'fn': entry['mod'] + '.' + entry['fn'], 'mode': mode, 'a': plain(a), 'b': plain(b), 'delta': delta if 'near' in mode or mode == 'interleaved' else None,
                              'got': show(got, 400), 'fresh': show(ref, 400), 'what': what, 'replay': what})
    pristine(set(RELOAD_ORDER))
    xfab.CHECKS.activated = saved_checks
    return fails


INT_DTYPES = [np.int8, np.uint8, np.int16, np.uint16, np.int32, np.uint32, np.int64]


def narrow_int_replays(ctx, label, f, values, tol=1e-9):
    """deterministic: f(dt(v)) for every narrow numpy integer type dt that holds the integer v must equal f(float(v)).  Used only for functions whose expression
    promotes its argument to float64 (w * pi / 360, eta * pi / 180, -b * s * s): there an integer-typed argument is just another spelling of the same number.
    (Functions that hand their argument straight to numpy.cos / numpy.radians compute in float16 / float32 for 8- / 16-bit integers on the unchanged tree as
    well; those are outside this replay, see DESIGN.md section 8.)"""
    fails = []
    for v in values:
        ref = ('ok', f(float(v)))
        for dt in INT_DTYPES:
            info = np.iinfo(dt)
            if not (info.min <= v <= info.max):
                continue
            ctx.count(('narrow', label, v, dt.__name__), hist='search:%s:narrow integer dtypes' % label)
            try:
                got = ('ok', f(dt(v)))
            except Exception as e:
                got = ('exc', type(e).__name__)
            d = differs(got, ref, tol)
            if d:
                what = '%s with the argument numpy.%s(%d) gives %s, with %r it gives %s (%s)' % (label, dt.__name__, v, show(got), float(v), show(ref), d)
                fails.append({'class': 'spelling:narrow-int', 'fn': label, 'value': v, 'dtype': dt.__name__, 'what': what, 'replay': what})
                return fails
    return fails

"""History independence of the pure API functions.

Every property about a value ("for every cell ... sintl equals ...") quantifies over inputs, hence over every call history that ends with that
input: a function whose result for an input depends on what was called before, on the identity of the argument objects, or on what the caller
did to a previously returned object, violates it for at least one of the two histories.  The randomised searches build fresh argument objects
for every case and can never see such a dependence, so this module replays each registered function under histories that a stateless tester
does not produce and compares the result with the one a pristine interpreter state gives (the xfab modules are re-executed with
importlib.reload before every reference evaluation, which resets all module-level state):

  inplace-near / inplace-far : f(a) ; the SAME argument objects are overwritten in place with the values of b ; f(objs)      vs  fresh f(b)
  consecutive-near           : f(a) ; f(b) on fresh objects with b within 1e-12 .. 1e-5 (relative) of a                       vs  fresh f(b)
  result-scribbled           : r = f(a) ; every ndarray inside r is overwritten ; f(a) again                                  vs  fresh f(a)
  interleaved                : f(a) ; f(c) for an unrelated c ; f(b) with b near a                                            vs  fresh f(b)

Results are compared with the tolerance of the property (default 1e-9 relative to the size of the result; an exception must be the same
exception type).  A difference is reported as a failing input whose replay is the call history."""
import importlib
import math
import sys
import numpy as np

RELOAD_ORDER = ['xfab.checks', 'xfab.tools', 'xfab.laue', 'xfab.symmetry', 'xfab.sg', 'xfab.atomlib', 'xfab.structure', 'xfab.detector', 'xfab.parameters']


class Fixed(object):
    """an argument that is passed as it is and never perturbed (hkl lists, names, integers)"""
    def __init__(self, v):
        self.v = v


class Atoms(object):
    """a list of atom descriptions (dicts) -> objects with attributes; in-place histories keep the objects and overwrite their attributes"""
    def __init__(self, dicts):
        self.dicts = dicts


class _AtomObj(object):
    pass


def pristine(mods):
    """re-execute the xfab modules: module-level caches, memo tables and switches return to their import-time state"""
    import warnings
    with warnings.catch_warnings():
        warnings.simplefilter('ignore')
        for name in RELOAD_ORDER:
            if name in sys.modules and (name == 'xfab.checks' or name in mods or name in ('xfab.tools', 'xfab.sg') and 'xfab.structure' in mods):
                importlib.reload(sys.modules[name])


def build1(v):
    if isinstance(v, Fixed):
        return v.v
    if isinstance(v, Atoms):
        out = []
        for d in v.dicts:
            o = _AtomObj()
            assign_atom(o, d)
            out.append(o)
        return out
    if isinstance(v, (list, tuple)):
        return np.array(v, dtype=float)
    return v


def assign_atom(o, d):
    for k, x in d.items():
        setattr(o, k, np.array(x, float) if k == 'pos' else (list(x) if isinstance(x, (list, tuple)) else x))


def build(a):
    return [build1(v) for v in a]


def assign(objs, b):
    """overwrite the argument objects in place with the values of b (scalars and Fixed are replaced)"""
    out = []
    for o, v in zip(objs, b):
        if isinstance(o, np.ndarray) and isinstance(v, (list, tuple)) and np.shape(v) == o.shape:
            o[...] = np.array(v, float)
            out.append(o)
        elif isinstance(v, Atoms) and isinstance(o, list) and len(o) == len(v.dicts):
            for x, d in zip(o, v.dicts):
                assign_atom(x, d)
            out.append(o)
        else:
            out.append(build1(v))
    return out


def perturb(rng, a, delta, which=None):
    """b = a with the float content moved by a relative/absolute delta (all float arguments, or only one of them)"""
    idx = [i for i, v in enumerate(a) if isinstance(v, float) or isinstance(v, (list, tuple)) or isinstance(v, Atoms)]
    if which == 'one' and idx:
        idx = [rng.choice(idx)]

    def p(x):
        if isinstance(x, (list, tuple)):
            return [p(y) for y in x]
        if isinstance(x, float):
            return x * (1 + delta * rng.uniform(0.3, 1)) + (delta * 1e-3 * rng.uniform(-1, 1) if x == 0 else 0.0)
        return x
    b = list(a)
    for i in idx:
        if isinstance(a[i], Atoms):
            b[i] = Atoms([{k: p(x) if k in ('pos', 'adp', 'occ') else x for k, x in d.items()} for d in a[i].dicts])
        else:
            b[i] = p(a[i])
    return b


def call(entry, objs):
    f = getattr(sys.modules.get(entry['mod']) or importlib.import_module(entry['mod']), entry['fn'])
    try:
        if entry.get('checks') is not None:
            import xfab
            xfab.CHECKS.activated = entry['checks']
        kw = entry.get('kw')
        r = f(*objs, **kw) if kw else f(*objs)
        return ('ok', entry['post'](r) if entry.get('post') else r)
    except Exception as e:           # noqa
        return ('exc', type(e).__name__)


def scribble(r):
    n = 0
    if isinstance(r, np.ndarray) and r.dtype.kind in 'fiuc' and r.flags.writeable:
        r[...] = 7.25 if r.dtype.kind != 'c' else 7.25 + 1j
        return 1
    if isinstance(r, (list, tuple)):
        for x in r:
            n += scribble(x)
    return n


def differs(x, y, tol):
    """None if the two results agree, else a short description"""
    if x[0] != y[0]:
        return '%s vs %s' % (show(x), show(y))
    if x[0] == 'exc':
        return None if x[1] == y[1] else '%s vs %s' % (x[1], y[1])
    return diff_val(x[1], y[1], tol)


def diff_val(u, v, tol):
    if u is None or v is None or isinstance(u, (str, bytes, bool)) or isinstance(v, (str, bytes, bool)):
        return None if (u is None and v is None) or (type(u) == type(v) and u == v) else '%r vs %r' % (u, v)
    if isinstance(u, (list, tuple)) and isinstance(v, (list, tuple)) and (len(u) != len(v) or any(isinstance(x, (list, tuple, np.ndarray, str)) or x is None for x in u)):
        if len(u) != len(v):
            return 'length %d vs %d' % (len(u), len(v))
        for x, y in zip(u, v):
            d = diff_val(x, y, tol)
            if d:
                return d
        return None
    try:
        a, b = np.asarray(u), np.asarray(v)
        if a.dtype.kind not in 'fiucb' or b.dtype.kind not in 'fiucb':
            return None if repr(u) == repr(v) else '%r vs %r' % (u, v)
        a, b = a.astype(complex), b.astype(complex)
    except Exception:
        return None if repr(u) == repr(v) else '%r vs %r' % (u, v)
    if a.shape != b.shape:
        return 'shape %r vs %r' % (a.shape, b.shape)
    if a.size == 0:
        return None
    na, nb = np.isnan(a), np.isnan(b)
    if (na != nb).any():
        return 'NaN pattern differs'
    fin = ~na
    ia, ib = np.isinf(a) & fin, np.isinf(b) & fin
    if (ia != ib).any() or (a[ia] != b[ib]).any():
        return 'infinities differ'
    fin &= ~ia
    if not fin.any():
        return None
    scale = 1.0 + float(np.max(np.abs(b[fin])))
    err = float(np.max(np.abs(a[fin] - b[fin])))
    return None if err <= tol * scale else 'max difference %.3g (scale %.3g)' % (err, scale)


def show(x, n=160):
    if x[0] == 'exc':
        return 'raises ' + x[1]
    if isinstance(x[1], (str, type(None))):
        return repr(x[1])
    try:
        return np.array2string(np.asarray(x[1]), precision=9, threshold=12).replace('\n', ' ')[:n]
    except Exception:
        return ' '.join(repr(x[1]).split())[:n]


def plain(a):
    out = []
    for v in a:
        if isinstance(v, Fixed):
            out.append(v.v if isinstance(v.v, (int, float, str, list, type(None))) else repr(v.v))
        elif isinstance(v, Atoms):
            out.append(v.dicts)
        else:
            out.append(v)
    return out


DELTAS = [1e-12, 1e-10, 1e-9, 1e-8, 1e-7, 1e-6, 3e-6, 8e-6, 3e-5, 1e-3, 0.05, 0.5]
MODES = ['inplace-near', 'inplace-near', 'inplace-far', 'consecutive-near', 'consecutive-near', 'result-scribbled', 'interleaved']


def run(ctx, entries):
    """returns a list of failures (same format as the search harnesses)"""
    rng = ctx.rng
    fails, seen = [], set()
    import xfab
    saved_checks = xfab.CHECKS.activated
    for entry in entries:
        mods = set([entry['mod']] + list(entry.get('mods', [])))
        tol = entry.get('tol', 1e-9)
        ntr = entry.get('n', (14, 60))
        for trial in range(ctx.n(*ntr)):
            mode = MODES[trial % len(MODES)] if trial < 2 * len(MODES) else rng.choice(MODES)
            a = entry['gen'](rng)
            delta = rng.choice(DELTAS[:9]) if rng.random() < 0.8 else rng.choice(DELTAS)
            near = entry.get('near') or (lambda r, x, d: perturb(r, x, d, r.choice([None, 'one'])))
            steps = []
            pristine(mods)                     # start every history from a clean state as well: histories are independent of each other
            if mode.startswith('inplace'):
                b = near(rng, a, delta) if mode == 'inplace-near' else entry['gen'](rng)
                objs = build(a)
                r0 = call(entry, objs)
                objs = assign(objs, b)
                got = call(entry, objs)
                steps = ['%s(*a) -> %s' % (entry['fn'], show(r0)), 'the same argument objects overwritten in place with b', '%s(*objs)' % entry['fn']]
            elif mode == 'consecutive-near':
                b = near(rng, a, delta)
                r0 = call(entry, build(a))
                got = call(entry, build(b))
                steps = ['%s(*a) -> %s' % (entry['fn'], show(r0)), '%s(*b) on fresh objects' % entry['fn']]
            elif mode == 'result-scribbled':
                b = a
                r0 = call(entry, build(a))
                if r0[0] != 'ok' or not scribble(r0[1]):
                    ctx.count(('hist', entry['mod'], entry['fn'], trial), hist='history:%s:no-array-result' % entry['fn'])
                    continue
                got = call(entry, build(b))
                steps = ['r = %s(*a)' % entry['fn'], 'every array inside r overwritten by the caller', '%s(*a) again on fresh objects' % entry['fn']]
            else:
                b = near(rng, a, delta)
                c = entry['gen'](rng)
                call(entry, build(a))
                call(entry, build(c))
                got = call(entry, build(b))
                steps = ['%s(*a)' % entry['fn'], '%s(*c)' % entry['fn'], '%s(*b)' % entry['fn']]
            pristine(mods)
            ref = call(entry, build(b))
            ctx.count(('hist', entry['mod'], entry['fn'], trial), hist='history:%s.%s:%s' % (entry['mod'].split('.')[-1], entry['fn'], mode),
                      sample={'history': mode, 'fn': entry['mod'] + '.' + entry['fn']} if trial == 0 and len(ctx.cov['samples']) < 10 else None)
            d = differs(got, ref, tol)
            key = (entry['mod'], entry['fn'], mode.split('-')[0])
            if d and key not in seen:
                seen.add(key)
                what = ('%s.%s depends on the call history (%s): after [%s] it returns %s, a fresh interpreter state returns %s for the same argument values (%s)'
                        % (entry['mod'], entry['fn'], mode, '; '.join(steps), show(got), show(ref), d))
                fails.append({'class': 'history:' + mode, 'fn': entry['mod'] + '.' + entry['fn'], 'mode': mode, 'a': plain(a), 'b': plain(b), 'delta': delta if 'near' in mode or mode == 'interleaved' else None,
                              'got': show(got, 400), 'fresh': show(ref, 400), 'what': what, 'replay': what})
    pristine(set(RELOAD_ORDER))
    xfab.CHECKS.activated = saved_checks
    return fails

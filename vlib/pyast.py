"""T3 - fail-closed translator from a small structured subset of Python (read with the ast module from /repo's
current sources) to executable Gallina.  Used for the integer / boolean control code: sysabs, sysabs_unique (tools and
laue) and the image flips of detector.py.  Anything outside the subset raises AstRefused."""
import ast
import os
import textwrap

REPO = os.environ.get('XFAB_REPO', '/repo')


class AstRefused(Exception):
    pass


# per function: argument types and result type; 'image' = list (list A)
SIGS = {
    'sysabs_unique': (['hkl:zlist', 'syscond:zlist'], 'Z'),
    'sysabs': (['hkl:zlist', 'syscond:zlist', 'crystal_system:string', 'cell_choice:string'], 'Z'),
    'trans_orientation': (['img:image', 'o11:Z', 'o12:Z', 'o21:Z', 'o22:Z', 'flipdir:string'], 'image'),
    'image_flipping': (['img:image', 'o11:Z', 'o12:Z', 'o21:Z', 'o22:Z', 'flipdir:string'], 'image'),
}
COQTY = {'zlist': 'list Z', 'Z': 'Z', 'string': 'string', 'image': 'list (list A)'}
IMG_OPS = {'transpose': 'img_transpose', 'fliplr': 'img_fliplr', 'flipud': 'img_flipud'}


class Fn(object):
    def __init__(self, prefix, node, np_alias, known):
        self.prefix, self.node, self.np_alias, self.known = prefix, node, np_alias, known
        self.name = node.name
        self.argspec, self.ret = SIGS[self.name]
        self.args = [a.split(':') for a in self.argspec]
        pyargs = [a.arg for a in node.args.args]
        if pyargs != [a for a, _ in self.args]:
            raise AstRefused('%s: parameters %r, expected %r' % (self.name, pyargs, [a for a, _ in self.args]))
        self.partial = any(isinstance(n, ast.Raise) for n in ast.walk(node))
        self.types = dict((a, t) for a, t in self.args)

    # ---- expressions -------------------------------------------------------------------------------------
    def expr(self, e, env):
        """returns (coq text, type)"""
        if isinstance(e, ast.Constant):
            if isinstance(e.value, bool):
                return ('true' if e.value else 'false'), 'bool'
            if isinstance(e.value, int):
                return ('(%d)' % e.value if e.value < 0 else '%d' % e.value), 'Z'
            if isinstance(e.value, str):
                if '"' in e.value:
                    raise AstRefused('string literal with quote')
                return '"%s"%%string' % e.value, 'string'
            raise AstRefused('constant %r' % (e.value,))
        if isinstance(e, ast.Name):
            if e.id not in env:
                raise AstRefused('%s: read of unbound or possibly unbound variable %s' % (self.name, e.id))
            if env[e.id] == 'tainted':
                raise AstRefused('%s: variable %s may be unassigned here' % (self.name, e.id))
            return 'v_' + e.id, env[e.id]
        if isinstance(e, ast.UnaryOp):
            x, t = self.expr(e.operand, env)
            if isinstance(e.op, ast.USub) and t == 'Z':
                return '(- %s)' % x, 'Z'
            if isinstance(e.op, ast.Not) and t == 'bool':
                return '(negb %s)' % x, 'bool'
            raise AstRefused('unary op')
        if isinstance(e, ast.BinOp):
            a, ta = self.expr(e.left, env)
            b, tb = self.expr(e.right, env)
            if ta != 'Z' or tb != 'Z':
                raise AstRefused('%s: arithmetic on %s, %s' % (self.name, ta, tb))
            op = {ast.Add: '+', ast.Sub: '-', ast.Mult: '*', ast.Mod: 'mod'}.get(type(e.op))
            if op is None:
                raise AstRefused('binary op %s' % type(e.op).__name__)
            return '(%s %s %s)' % (a, op, b), 'Z'
        if isinstance(e, ast.BoolOp):
            parts = [self.expr(v, env) for v in e.values]
            if any(t != 'bool' for _, t in parts):
                raise AstRefused('bool op on non-bool')
            op = ' && ' if isinstance(e.op, ast.And) else ' || '
            return '(' + op.join(p for p, _ in parts) + ')', 'bool'
        if isinstance(e, ast.Compare):
            if len(e.ops) != 1:
                raise AstRefused('chained comparison')
            a, ta = self.expr(e.left, env)
            b, tb = self.expr(e.comparators[0], env)
            if ta != tb:
                raise AstRefused('%s: comparison of %s with %s' % (self.name, ta, tb))
            op = type(e.ops[0])
            if ta == 'Z':
                m = {ast.Eq: '(%s =? %s)', ast.NotEq: '(negb (%s =? %s))', ast.Lt: '(%s <? %s)', ast.LtE: '(%s <=? %s)',
                     ast.Gt: '(%s >? %s)', ast.GtE: '(%s >=? %s)'}.get(op)
            elif ta == 'string':
                m = {ast.Eq: '(String.eqb %s %s)', ast.NotEq: '(negb (String.eqb %s %s))'}.get(op)
            else:
                m = None
            if m is None:
                raise AstRefused('comparison %s on %s' % (op.__name__, ta))
            return m % (a, b), 'bool'
        if isinstance(e, ast.Subscript):
            base, tb = self.expr(e.value, env)
            idx = e.slice
            if tb != 'zlist' or not isinstance(idx, ast.Constant) or not isinstance(idx.value, int) or idx.value < 0:
                raise AstRefused('%s: subscript' % self.name)
            return '(nth %d %s 0)' % (idx.value, base), 'Z'
        if isinstance(e, ast.List):
            parts = [self.expr(v, env) for v in e.elts]
            if any(t != 'Z' for _, t in parts):
                raise AstRefused('list of non-integers')
            return '[' + '; '.join(p for p, _ in parts) + ']', 'zlist'
        if isinstance(e, ast.Call):
            f = e.func
            if e.keywords:
                raise AstRefused('keyword arguments in call')
            args = [self.expr(a, env) for a in e.args]
            if isinstance(f, ast.Name) and f.id == 'abs' and len(args) == 1 and args[0][1] == 'Z':
                return '(Z.abs %s)' % args[0][0], 'Z'
            if isinstance(f, ast.Name) and f.id in self.known:
                callee = self.known[f.id]
                if callee.partial:
                    raise AstRefused('call of a partial function')
                if [t for _, t in args] != [t for _, t in callee.args]:
                    raise AstRefused('%s: call of %s with types %r' % (self.name, f.id, [t for _, t in args]))
                return '(%s%s %s)' % (self.prefix, f.id, ' '.join(a for a, _ in args)), {'Z': 'Z'}[callee.ret]
            if (isinstance(f, ast.Attribute) and isinstance(f.value, ast.Name) and f.value.id == self.np_alias
                    and f.attr in IMG_OPS and len(args) == 1 and args[0][1] == 'image'):
                return '(%s %s)' % (IMG_OPS[f.attr], args[0][0]), 'image'
            raise AstRefused('%s: call %s' % (self.name, ast.dump(f)[:80]))
        raise AstRefused('%s: expression %s' % (self.name, type(e).__name__))

    # ---- statements --------------------------------------------------------------------------------------
    @staticmethod
    def _exits(stmts):
        return any(isinstance(n, (ast.Return, ast.Raise)) for s in stmts for n in ast.walk(s))

    @staticmethod
    def _assigned(stmts):
        out = []
        for s in stmts:
            for n in ast.walk(s):
                if isinstance(n, ast.Assign):
                    for t in n.targets:
                        if isinstance(t, ast.Name) and t.id not in out:
                            out.append(t.id)
        return out

    def block(self, stmts, env, ind):
        """translate a statement list to a term of the function's result type (option-wrapped if partial)"""
        if not stmts:
            raise AstRefused('%s: control reaches the end of the function without return' % self.name)
        s, rest = stmts[0], stmts[1:]
        pad = ' ' * ind
        if isinstance(s, ast.Expr) and isinstance(s.value, ast.Constant) and isinstance(s.value.value, str):
            return self.block(rest, env, ind)       # docstring
        if isinstance(s, ast.Return):
            v, t = self.expr(s.value, env)
            if t != {'Z': 'Z', 'image': 'image'}[self.ret]:
                raise AstRefused('%s: returns %s' % (self.name, t))
            return pad + ('Some %s' % v if self.partial else v)
        if isinstance(s, ast.Raise):
            exc = s.exc
            if not (isinstance(exc, ast.Call) and isinstance(exc.func, ast.Name) and exc.func.id == 'ValueError'):
                raise AstRefused('%s: raise of something other than ValueError' % self.name)
            return pad + 'None'
        if isinstance(s, ast.Assign) and len(s.targets) == 1 and isinstance(s.targets[0], ast.Tuple):
            # (h, k, l) = hkl : unpack a list of integers (the model reads missing entries as 0; callers pass 3 entries)
            names = s.targets[0].elts
            v, t = self.expr(s.value, env)
            if t != 'zlist' or not all(isinstance(x, ast.Name) for x in names):
                raise AstRefused('%s: tuple assignment' % self.name)
            env2 = dict(env)
            txt = ''
            for i, x in enumerate(names):
                env2[x.id] = 'Z'
                txt += pad + 'let v_%s := nth %d %s 0 in\n' % (x.id, i, v)
            return txt + self.block(rest, env2, ind)
        if isinstance(s, ast.Assign):
            if len(s.targets) != 1 or not isinstance(s.targets[0], ast.Name):
                raise AstRefused('%s: assignment target' % self.name)
            v, t = self.expr(s.value, env)
            name = s.targets[0].id
            if name in env and env[name] not in (t, 'tainted'):
                raise AstRefused('%s: variable %s changes type' % (self.name, name))
            env2 = dict(env)
            env2[name] = t
            return pad + 'let v_%s := %s in\n' % (name, v) + self.block(rest, env2, ind)
        if isinstance(s, ast.If):
            c, tc = self.expr(s.test, env)
            if tc != 'bool':
                raise AstRefused('%s: condition of type %s' % (self.name, tc))
            if self._exits(s.body) or self._exits(s.orelse):
                return (pad + 'if %s then\n' % c + self.block(list(s.body) + rest, dict(env), ind + 2) + '\n' + pad + 'else\n'
                        + self.block(list(s.orelse) + rest, dict(env), ind + 2))
            vs = self._assigned(list(s.body) + list(s.orelse))
            if not vs:
                return self.block(rest, env, ind)
            tb, envb = self.branch(s.body, env, vs, ind + 2)
            te, enve = self.branch(s.orelse, env, vs, ind + 2)
            env2 = dict(env)
            pre = ''
            for v in vs:
                ta, tb_ = envb.get(v), enve.get(v)
                if ta is not None and tb_ is not None and ta == tb_ and ta != 'tainted':
                    env2[v] = ta
                else:
                    env2[v] = 'tainted'
            pat = 'v_' + vs[0] if len(vs) == 1 else "'(" + ', '.join('v_' + v for v in vs) + ')'
            return (pad + 'let %s :=\n' % pat + pad + '  if %s then\n' % c + tb + '\n' + pad + '  else\n' + te + '\n' + pad + 'in\n'
                    + self.block(rest, env2, ind))
        raise AstRefused('%s: statement %s' % (self.name, type(s).__name__))

    def branch(self, stmts, env, vs, ind):
        """a branch without exits: returns (term producing the tuple of vs, env at the end)"""
        pad = ' ' * ind
        env = dict(env)
        lines = []
        # straight-line / nested ifs only
        text = self._branch_rec(list(stmts), env, vs, ind)
        return text

    def _branch_rec(self, stmts, env, vs, ind):
        pad = ' ' * ind

        def final(env):
            parts = []
            for v in vs:
                if v in env and env[v] != 'tainted':
                    parts.append('v_' + v)
                else:
                    parts.append(self.default(v))       # never read afterwards unless assigned again (tainted)
            return pad + ('(' + ', '.join(parts) + ')' if len(parts) > 1 else parts[0]), env
        if not stmts:
            return final(env)
        s, rest = stmts[0], stmts[1:]
        if isinstance(s, ast.Assign):
            if len(s.targets) != 1 or not isinstance(s.targets[0], ast.Name):
                raise AstRefused('%s: assignment target' % self.name)
            v, t = self.expr(s.value, env)
            name = s.targets[0].id
            if name in env and env[name] not in (t, 'tainted'):
                raise AstRefused('%s: variable %s changes type' % (self.name, name))
            env2 = dict(env)
            env2[name] = t
            txt, envf = self._branch_rec(rest, env2, vs, ind)
            return pad + 'let v_%s := %s in\n' % (name, v) + txt, envf
        if isinstance(s, ast.If):
            c, tc = self.expr(s.test, env)
            if tc != 'bool':
                raise AstRefused('condition type')
            ws = self._assigned(list(s.body) + list(s.orelse))
            if not ws:
                return self._branch_rec(rest, env, vs, ind)
            tb, envb = self._branch_rec(list(s.body), dict(env), ws, ind + 4)
            te, enve = self._branch_rec(list(s.orelse), dict(env), ws, ind + 4)
            env2 = dict(env)
            for v in ws:
                ta, tb_ = envb.get(v), enve.get(v)
                env2[v] = ta if (ta is not None and ta == tb_ and ta != 'tainted') else 'tainted'
            pat = 'v_' + ws[0] if len(ws) == 1 else "'(" + ', '.join('v_' + v for v in ws) + ')'
            txt, envf = self._branch_rec(rest, env2, vs, ind)
            return (pad + 'let %s :=\n' % pat + pad + '  if %s then\n' % c + tb + '\n' + pad + '  else\n' + te + '\n' + pad + 'in\n' + txt), envf
        if isinstance(s, ast.Pass):
            return self._branch_rec(rest, env, vs, ind)
        raise AstRefused('%s: statement %s inside a branch' % (self.name, type(s).__name__))

    def default(self, v):
        return '0'      # placeholder for a variable that is unassigned on this path; reads of it are refused (tainted)

    def emit(self):
        env = dict((a, t) for a, t in self.args)
        body = self.block(list(self.node.body), env, 2)
        params = ' '.join('(v_%s : %s)' % (a, COQTY[t]) for a, t in self.args)
        ret = COQTY[{'Z': 'Z', 'image': 'image'}[self.ret]]
        if self.partial:
            ret = 'option (%s)' % ret
        poly = '{A : Type} ' if any(t == 'image' for _, t in self.args) else ''
        return 'Definition %s%s %s%s : %s :=\n%s.\n' % (self.prefix, self.name, poly, params, ret, body)


HEAD = '''(* GENERATED by /verif/vlib/pyast.py from /repo/xfab/%s.py on every run - do not edit, not committed *)
From Coq Require Import ZArith List Bool String.
From XV Require Import ImgLib.
Import ListNotations.
Open Scope Z_scope.

'''


def translate(modfile, prefix, names, np_alias):
    src = open(os.path.join(REPO, 'xfab', modfile + '.py')).read()
    tree = ast.parse(src)
    nodes = dict((n.name, n) for n in tree.body if isinstance(n, ast.FunctionDef))
    known = {}
    out = []
    for nm in names:
        if nm not in nodes:
            raise AstRefused('%s.%s not found' % (modfile, nm))
        fn = Fn(prefix, nodes[nm], np_alias, known)
        out.append('(* xfab.%s.%s *)\n' % (modfile, nm) + fn.emit())
        known[nm] = fn
    return HEAD % modfile + '\n'.join(out)


def generate(outdir, write):
    res = {}
    for modfile, prefix, names, alias in (('tools', 'ast_tools_', ['sysabs_unique', 'sysabs'], 'n'),
                                          ('laue', 'ast_laue_', ['sysabs_unique', 'sysabs'], 'np'),
                                          ('detector', 'ast_detector_', ['trans_orientation', 'image_flipping'], 'n')):
        text = translate(modfile, prefix, names, alias)
        write('%s/Ast_%s.v' % (outdir, modfile), text)
        res[modfile] = text
    return res


if __name__ == '__main__':
    import sys
    for k, v in generate('/tmp/astgen', lambda p, t: (os.makedirs(os.path.dirname(p), exist_ok=True), open(p, 'w').write(t))).items():
        print(k, len(v))

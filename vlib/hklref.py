"""Independent oracle for C05/C06: brute-force enumeration of reflections from the operator tables and the metric."""
import math
import itertools
import numpy as np


def recip_metric(cell):
    a, b, c, al, be, ga = cell
    ca, cb, cg = (math.cos(math.radians(x)) for x in (al, be, ga))
    G = np.array([[a * a, a * b * cg, a * c * cb], [a * b * cg, b * b, b * c * ca], [a * c * cb, b * c * ca, c * c]])
    return np.linalg.inv(G)


def ops_int(s):
    R = np.rint(np.asarray(s.rot)).astype(int)
    t = np.rint(np.asarray(s.trans, float) * 12).astype(int) % 12
    return R, t


def extinct(h, R, t):
    """h row vector; extinct iff some op has hR = h and h.t not integer"""
    h = np.asarray(h, int)
    for Ri, ti in zip(R, t):
        if np.array_equal(h.dot(Ri), h) and (int(h.dot(ti)) % 12) != 0:
            return True
    return False


def conforming_cell(rng, csys, choice, orthogonal_metric_ok=True):
    r = lambda lo, hi: round(rng.uniform(lo, hi), 3)
    a, b, c = r(4, 9), r(4, 9), r(4, 9)
    if csys == 'triclinic':
        if rng.random() < 0.3:
            return [a, b, c, 90.0, 90.0, 90.0]
        while True:
            ang = [r(75, 105) for _ in range(3)]
            ca, cb, cg = (math.cos(math.radians(x)) for x in ang)
            if 1 - ca * ca - cb * cb - cg * cg + 2 * ca * cb * cg > 0.3:
                return [a, b, c] + ang
    if csys == 'monoclinic':
        return [a, b, c, 90.0, 90.0 if rng.random() < 0.3 else r(91, 110), 90.0]
    if csys == 'orthorhombic':
        return [a, b, c, 90.0, 90.0, 90.0]
    if csys == 'tetragonal':
        return [a, a, c, 90.0, 90.0, 90.0]
    if csys == 'cubic':
        return [a, a, a, 90.0, 90.0, 90.0]
    if csys == 'hexagonal' or (csys == 'trigonal' and choice != 'rhombohedral'):
        return [a, a, c, 90.0, 90.0, 120.0]
    al = r(55, 88)
    return [a, a, a, al, al, al]


def shell(rng, cell, Gs):
    """bounds placed away from every lattice point's sintl (relative 1e-6)"""
    hmax = 12
    big = []
    lo_t = rng.choice([0.0, 0.0, rng.uniform(0.02, 0.12)])
    hi_t = rng.uniform(0.18, 0.34) * (6.0 / max(cell[:3])) ** 0 
    rngh = range(-hmax, hmax + 1)
    vals = []
    for h in itertools.product(range(-6, 7), repeat=3):
        if any(h):
            v = 0.5 * math.sqrt(np.array(h).dot(Gs).dot(h))
            if v < 0.5:
                vals.append(v)
    vals = np.array(sorted(set(np.round(vals, 12))))

    def clear(x):
        return x <= 0 or np.min(np.abs(vals - x)) > 1e-6 * max(x, 1e-3)
    while not clear(hi_t):
        hi_t += 1.37e-5
    while not clear(lo_t):
        lo_t += 1.37e-5
    return lo_t, hi_t


def expected_all(s, cell, lo, hi):
    """all hkl != 0 in the shell not extinguished by the group's own operations"""
    Gs = recip_metric(cell)
    R, t = ops_int(s)
    # bound on each index by Cauchy-Schwarz in the reciprocal metric: |h_i| <= sqrt((G*^-1)_ii) sqrt(h G* h) = 2 hi a_i
    Gi = np.linalg.inv(Gs)
    hm = [int(math.ceil(2 * hi * math.sqrt(Gi[i, i]) * (1 + 1e-9))) + 1 for i in range(3)]
    out = []
    for h in itertools.product(*[range(-m, m + 1) for m in hm]):
        if not any(h):
            continue
        v = 0.5 * math.sqrt(max(0.0, np.array(h).dot(Gs).dot(h)))
        if lo < v <= hi and not extinct(h, R, t):
            out.append(h)
    return set(out)


def laue_orbit(h, R, nuniq):
    h = np.asarray(h, int)
    o = set()
    for Ri in R[:nuniq]:
        g = h.dot(Ri)
        o.add(tuple(int(x) for x in g))
        o.add(tuple(int(-x) for x in g))
    return o

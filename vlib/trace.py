"""T1 driver: trace the closed-form xfab functions and write coq/gen/Gen_<module>.v

Usage (from check driver): trace.generate(outdir) -> dict of traced functions (for validation)
"""
import sys
import importlib
import inspect
import builtins
import numpy as _np

from . import sym as S
from .sym import Sym, TraceRefused

RESERVED = {'at', 'as', 'in', 'if', 'fix', 'fun', 'let', 'end', 'Type', 'Set', 'Prop', 'R', 'PI',
            'exp', 'cos', 'sin', 'sqrt', 'atan', 'acos', 'asin', 'U', 'B', 'I', 'a', 'b', 'c', 'e'}

# ---- signatures -------------------------------------------------------------------------------------
SIG_TL = [
    ('cell_volume', ['V6'], 'R'),
    ('cell_invert', ['V6'], 'V6'),
    ('form_b_mat', ['V6'], 'M3'),
    ('form_a_mat', ['V6'], 'M3'),
    ('form_a_mat_inv', ['V6'], 'M3'),
    ('a_to_cell', ['M3'], 'V6'),
    ('b_to_cell', ['M3'], 'V6'),
    ('sintl', ['V6', 'V3'], 'R'),
    ('tth', ['V6', 'V3', 'R'], 'R'),
    ('tth2', ['V3', 'R'], 'R'),
    ('ubi_to_cell', ['M3'], 'V6'),
    ('ubi_to_u', ['M3'], 'M3'),
    ('b_to_epsilon', ['M3', 'V6'], 'V6'),
    ('epsilon_to_b', ['V6', 'V6'], 'M3'),
    ('b_to_epsilon_old', ['M3', 'V6'], 'V6'),
    ('epsilon_to_b_old', ['V6', 'V6'], 'M3'),
    ('ubi_to_u_and_eps', ['M3', 'V6'], ('M3', 'V6')),
    ('u_to_ubi', ['M3', 'V6'], 'M3'),
    ('ub_to_u_b', ['M3'], ('M3', 'M3')),
    ('ubi_to_u_b', ['M3'], ('M3', 'M3')),
    ('euler_to_u', ['R', 'R', 'R'], 'M3'),
    ('_arctan2', ['R', 'R'], 'R'),
    ('u_to_euler', ['M3'], 'V3'),
    ('u_to_rod', ['M3'], 'V3'),
    ('ubi_to_rod', ['M3'], 'V3'),
    ('rod_to_u', ['V3'], 'M3'),
    ('form_omega_mat', ['R'], 'M3'),
    ('form_omega_mat_general', ['R', 'R', 'R'], 'M3'),
    ('quart_to_omega', ['R', 'R', 'R'], 'M3'),
    ('detect_tilt', ['R', 'R', 'R'], 'M3'),
    ('find_omega_general', ['V3', 'R', 'R', 'R'], ('LR', 'LR')),
    ('find_omega_quart', ['V3', 'R', 'R', 'R'], ('LR', 'LR')),
    ('find_omega_wedge', ['V3', 'R', 'R'], ('LR', 'LR')),
    ('find_omega', ['V3', 'R'], 'LR'),
]

SIG_DET = [
    ('det_coor', ['V3'] + ['R'] * 7 + ['M3', 'R', 'R', 'R'], 'V2'),
    ('det_coor2', ['R'] * 7 + ['M3', 'R', 'R', 'R'], 'V2'),
    ('det_v', ['V3'] + ['R'] * 7 + ['M3', 'R', 'R', 'R'], 'V3'),
    ('detector_to_lab', ['R'] * 7 + ['M3'], 'V3'),
    ('detyz_to_eta_and_radpix', ['V2', 'R', 'R'], 'V2'),
    ('eta_and_radpix_to_detyz', ['R', 'R', 'R', 'R'], 'V2'),
]

ORIENTATIONS = [(1, 0, 0, 1), (-1, 0, 0, 1), (1, 0, 0, -1), (-1, 0, 0, -1),
                (0, 1, 1, 0), (0, -1, -1, 0), (0, -1, 1, 0), (0, 1, -1, 0)]


class NumpyProxy(object):
    """forwards to numpy except for the listed shims (DESIGN 2.1)"""

    def __init__(self, real):
        object.__setattr__(self, '_real', real)
        object.__setattr__(self, 'linalg', LinalgProxy(real.linalg))
        object.__setattr__(self, 'pi', S.PI)

    def __getattr__(self, name):
        return getattr(self._real, name)

    @staticmethod
    def zeros(shape, dtype=None):
        a = _np.empty(shape, dtype=object)
        a.fill(S.const(0))
        return a

    def _elementwise(self, name, coqname, x):
        if not S.has_sym(x) and not (isinstance(x, _np.ndarray) and x.dtype == object):
            return getattr(self._real, name)(x)
        if isinstance(x, Sym):
            return S.fn(coqname, x)
        arr = _np.asarray(x, dtype=object)
        out = _np.empty(arr.shape, dtype=object)
        for idx in _np.ndindex(arr.shape):
            out[idx] = S.fn(coqname, S.lift(arr[idx]))
        return out

    def arccos(self, x):
        return self._elementwise('arccos', 'acos', x)

    def arcsin(self, x):
        return self._elementwise('arcsin', 'asin', x)

    @staticmethod
    def empty(shape, dtype=None):
        return _np.empty(shape, dtype=object)

    @staticmethod
    def eye(n, m=None):
        m = n if m is None else m
        a = _np.empty((n, m), dtype=object)
        for i in range(n):
            for j in range(m):
                a[i, j] = S.const(1 if i == j else 0)
        return a

    @staticmethod
    def asarray(x, dtype=None):
        if S.has_sym(x):
            return _np.asarray(x, dtype=object)
        return _np.asarray(x, dtype)

    @staticmethod
    def clip(x, lo, hi):
        if not (S.has_sym(x) or S.has_sym(lo) or S.has_sym(hi)):
            return _np.clip(x, lo, hi)
        arr = _np.asarray(x, dtype=object)
        out = _np.empty(arr.shape, dtype=object)
        for idx in _np.ndindex(arr.shape):
            v = arr[idx]
            lo_i = lo[idx] if isinstance(lo, _np.ndarray) and lo.shape == arr.shape else lo
            hi_i = hi[idx] if isinstance(hi, _np.ndarray) and hi.shape == arr.shape else hi
            # numpy.clip = minimum(maximum(x, lo), hi)
            if S.lift(v) < S.lift(lo_i):
                v = lo_i
            if S.lift(hi_i) < S.lift(v):
                v = hi_i
            out[idx] = S.lift(v)
        return out

    @staticmethod
    def max(x):
        arr = _np.asarray(x, dtype=object).reshape(-1)
        m = arr[0]
        for v in arr[1:]:
            if S.lift(m) < S.lift(v):
                m = v
        return m


class LinalgProxy(object):
    def __init__(self, real):
        self._real = real

    def __getattr__(self, name):
        return getattr(self._real, name)

    def inv(self, m):
        if not S.has_sym(m):
            return self._real.inv(m)
        arg = S.struct('M3', S.flatten(m, 'M3'))
        call = Sym('call', 'minv', arg)
        return S.pack([Sym('proj', call, 'M3', i) for i in range(9)], 'M3')

    def det(self, m):
        if not S.has_sym(m):
            return self._real.det(m)
        return Sym('call', 'mdet', S.struct('M3', S.flatten(m, 'M3')))

    def norm(self, v, axis=None):
        if not S.has_sym(v):
            return self._real.norm(v, axis=axis)
        arr = _np.asarray(v, dtype=object)
        if arr.ndim != 1:
            raise TraceRefused('norm of non-vector')
        tot = S.const(0)
        for x in arr:
            tot = tot + S.lift(x) * S.lift(x)
        return S.fn('sqrt', tot)

    def qr(self, m):
        if not S.has_sym(m):
            return self._real.qr(m)
        call = Sym('call', 'qr_oracle', S.struct('M3', S.flatten(m, 'M3')))
        q = S.pack([Sym('proj', Sym('tproj', call, 0, 2), 'M3', i) for i in range(9)], 'M3')
        r = S.pack([Sym('proj', Sym('tproj', call, 1, 2), 'M3', i) for i in range(9)], 'M3')
        return (q, r)


def _float_shim(x):
    if isinstance(x, Sym):
        return x
    return builtins.float(x)


def _degrees_shim(x):
    if isinstance(x, Sym):
        return x * 180 / S.PI
    import math
    return math.degrees(x)


class Traced(object):
    def __init__(self, modname, pyname, coqname, argtys, outty, argnames, fixed=None):
        self.modname, self.pyname, self.coqname = modname, pyname, coqname
        self.argtys, self.outty, self.argnames = argtys, outty, argnames
        self.fixed = fixed or {}
        self.tree = None
        self.partial = False
        self.npaths = 0
        self.nnodes = 0


def _from_value(val, ty):
    """Sym struct -> python value as the real function would return it"""
    if ty == 'R':
        return val
    return S.pack([Sym('proj', val, ty, i) for i in range(S.NCOMP[ty])], ty)


class ModuleTracer(object):
    def __init__(self, modname, prefix, sigs, np_alias, patches=None, extra_defs=None):
        self.modname, self.prefix, self.sigs, self.np_alias = modname, prefix, sigs, np_alias
        self.mod = importlib.import_module(modname)
        self.patches = patches or {}
        self.extra_defs = extra_defs or {}
        self.traced = {}    # pyname -> Traced
        self.order = []
        self.orig = {}
        self._optnames = {}

    # -- interception wrapper for already-traced callees
    def _wrapper(self, tr, orig):
        def w(*args, **kw):
            if kw or not S.has_sym(args):
                return orig(*args, **kw)
            if len(args) != len(tr.argtys):
                raise TraceRefused('call of %s with %d args' % (tr.pyname, len(args)))
            argsyms = [S.struct(t, S.flatten(a, t)) for a, t in zip(args, tr.argtys)]
            call = Sym('call', tr.coqname, *argsyms)
            oty = tr.outty
            if 'LR' in (oty if isinstance(oty, tuple) else (oty,)):
                raise TraceRefused('call of list-valued %s' % tr.pyname)
            if tr.partial:
                name = self._optnames.setdefault(call.id, 'r%d' % (len(self._optnames) + 1))
                ok = S.Tracer.current.decide('match', (call, name))
                if not ok:
                    raise S._Abort(tr.pyname)
                base = Sym('optval', name)
            else:
                base = call
            if isinstance(oty, tuple):
                n = len(oty)
                return tuple(_from_value(Sym('tproj', base, k, n), t) for k, t in enumerate(oty))
            v = _from_value(base, oty)
            if oty == 'V6':
                return list(v)
            return v
        w.__name__ = tr.pyname
        return w

    def enter(self):
        """install the shims in the traced module (kept until exit, so that later tracers calling into this
        module see symbolic-safe code and emit calls to the already generated definitions)"""
        mod = self.mod
        self._saved_np = getattr(mod, self.np_alias)
        self._saved = {}
        setattr(mod, self.np_alias, NumpyProxy(self._saved_np))
        shims = [('float', _float_shim), ('degrees', _degrees_shim)]
        shims += list(self.patches.items()) + list(self.extra_defs.items())
        for nm, shim in shims:
            self._saved[nm] = mod.__dict__.get(nm, None)
            mod.__dict__[nm] = shim

    def exit(self):
        mod = self.mod
        setattr(mod, self.np_alias, self._saved_np)
        for nm, v in self._saved.items():
            if v is None:
                mod.__dict__.pop(nm, None)
            else:
                mod.__dict__[nm] = v
        for pyname, f in self.orig.items():
            mod.__dict__[pyname] = f

    def trace(self):
        mod = self.mod
        for entry in self.sigs:
            pyname, argtys, outty = entry[:3]
            fixed = entry[3] if len(entry) > 3 else None
            coqsuffix = entry[4] if len(entry) > 4 else ''
            f = self.orig.get(pyname) or getattr(mod, pyname)
            self.orig.setdefault(pyname, f)
            params = [p for p in inspect.signature(f).parameters]
            if fixed:
                params = [p for p in params if p not in fixed]
            params = params[:len(argtys)]
            argnames = [(p + '_' if p in RESERVED else p) for p in params]
            tr = Traced(self.modname, pyname, self.prefix + pyname.lstrip('_') + coqsuffix, argtys, outty,
                        argnames, fixed)
            tr.pynames = params
            self._trace_one(tr, f)
            key = pyname + coqsuffix
            self.traced[key] = tr
            self.order.append(key)
            if not fixed and pyname not in self.extra_defs:
                mod.__dict__[pyname] = self._wrapper(tr, f)
        return self.traced

    def trace_all(self):
        session([self])
        return self.traced

    def _trace_one(self, tr, f):
        self._optnames = {}
        inputs = [S.input_value(n, t) for n, t in zip(tr.argnames, tr.argtys)]
        outtys = tr.outty if isinstance(tr.outty, tuple) else (tr.outty,)

        def run():
            try:
                kw = dict(tr.fixed)
                for pn, x in zip(tr.pynames, inputs):
                    kw[pn] = _np.array(x, dtype=object) if isinstance(x, _np.ndarray) else x
                res = f(**kw)
            except (ValueError, AssertionError, ZeroDivisionError) as e:
                return S.Err(type(e).__name__)
            except (TraceRefused, S._Abort):
                raise
            except Exception as e:   # anything else: not understood -> fail closed
                raise TraceRefused('%s.%s raised %s: %s' % (tr.modname, tr.pyname, type(e).__name__, e))
            if res is None:
                return S.Err('returned None')
            if not isinstance(tr.outty, tuple):
                res = (res,)
            if len(res) != len(outtys):
                raise TraceRefused('%s: result arity' % tr.pyname)
            return S.Leaf([S.flatten(v, t) for v, t in zip(res, outtys)])

        tree, paths = S.explore(run)
        tr.tree = tree
        tr.npaths = len(paths)
        tr.partial = S.tree_has_err(tree)
        tr.nnodes = _tree_size(tree)

    def emit(self):
        out = []
        for key in self.order:
            tr = self.traced[key]
            params = ' '.join('(%s : %s)' % (n, t) for n, t in zip(tr.argnames, tr.argtys))
            body = S.def_body_to_coq(tr.tree, tr.outty, tr.partial)
            out.append('(* %s.%s%s : %d path(s), %d DAG nodes *)' % (
                tr.modname, tr.pyname, (' ' + repr(tr.fixed)) if tr.fixed else '', tr.npaths, tr.nnodes))
            out.append('Definition %s %s : %s :=\n%s.\n' % (
                tr.coqname, params, S.coq_type(tr.outty, tr.partial), body))
        return '\n'.join(out)

    # ---- numeric evaluation of the emitted model ---------------------------------------------------
    def callenv(self):
        env = {'minv': _np.linalg.inv, 'mdet': _np.linalg.det,
               'qr_oracle': lambda m: tuple(_np.linalg.qr(m))}
        for other in ALL_TRACERS:
            if other is not self:
                for key, tr in other.traced.items():
                    env[tr.coqname] = other._evaluator(tr)
        for key, tr in self.traced.items():
            env[tr.coqname] = self._evaluator(tr)
        return env

    def _evaluator(self, tr):
        def ev(*args):
            env = dict(zip(tr.argnames, args))
            kind, val = S.eval_tree(tr.tree, tr.outty, env, self._callenv_cached())
            if kind == 'err':
                return None
            return val
        return ev

    def _callenv_cached(self):
        if not hasattr(self, '_ce'):
            self._ce = self.callenv()
        return self._ce

    def eval_model(self, key, *args):
        tr = self.traced[key]
        env = dict(zip(tr.argnames, args))
        return S.eval_tree(tr.tree, tr.outty, env, self._callenv_cached())


def _tree_size(tree):
    seen = set()

    def walk_sym(x):
        if not isinstance(x, Sym) or x.id in seen:
            return
        seen.add(x.id)
        for a in x.args:
            walk_sym(a)

    def walk(t):
        if isinstance(t, S.Leaf):
            for comps in t.comps:
                for c in comps:
                    walk_sym(c)
        elif isinstance(t, S.If):
            walk_sym(t.cond[1])
            walk_sym(t.cond[2])
            walk(t.t)
            walk(t.f)
        elif isinstance(t, S.Match):
            walk_sym(t.call[0])
            walk(t.some)
            walk(t.none)
    walk(tree)
    return len(seen)


HEADER = """(* GENERATED by /verif/vlib/trace.py from /repo/xfab/%s.py on every run - do not edit, not committed *)
From Coq Require Import Reals List.
From XV Require Import RealLib Mat3 Atan2.
Import ListNotations.
Open Scope R_scope.

Section Gen.
Variable qr_oracle : M3 -> M3 * M3.

"""


def detector_sigs():
    sigs = list(SIG_DET)
    for k, o in enumerate(ORIENTATIONS):
        fixed = dict(o11=o[0], o12=o[1], o21=o[2], o22=o[3])
        sigs.append(('detyz_to_xy', ['V2', 'R', 'R'], 'V2', fixed, '_o%d' % k))
        sigs.append(('xy_to_detyz', ['V2', 'R', 'R'], 'V2', fixed, '_o%d' % k))
    return sigs


class _FFTable(object):
    """stands for atomlib.formfactor during tracing: the entry of any element is nine symbolic reals"""

    def __init__(self, syms):
        self.syms = syms

    def __getitem__(self, key):
        return list(self.syms)


class _AtomlibProxy(object):
    def __init__(self):
        self.formfactor = None


def structure_tracer():
    import xfab.structure as st
    proxy = _AtomlibProxy()

    def FormFactor_coeffs(a1, a2, a3, a4, b1, b2, b3, b4, c, stl):
        proxy.formfactor = _FFTable([a1, a2, a3, a4, b1, b2, b3, b4, c])
        return st.FormFactor('X', stl)
    class NsymInt(int):
        """the integer 1 for range(), the symbol nsymop in arithmetic"""
        pass

    class _Atom(object):
        pass

    class _SgProxy(object):
        stub = None

        def sg(self, sgname=None, sgno=None, cell_choice='standard'):
            return self.stub
    sgproxy = _SgProxy()

    def _sf_term(kind, hkl, ucell, rot, trans, pos, adp, occ, multi, nsymop, f, fp, fpp, with_disper=True):
        one = NsymInt(1)
        one._sym = nsymop
        stub = _Atom()
        stub.nsymop = one
        r = _np.empty((1, 3, 3), dtype=object)
        r[0] = _np.asarray(rot, dtype=object)
        tt = _np.empty((1, 3), dtype=object)
        tt[0] = _np.asarray(trans, dtype=object)
        stub.rot, stub.trans = r, tt
        sgproxy.stub = stub
        a = _Atom()
        a.adp_type, a.adp, a.atomtype, a.pos, a.occ, a.symmulti = kind, adp, 'X', _np.asarray(pos, dtype=object), occ, multi
        saved = st.FormFactor
        st.FormFactor = lambda atomtype, stl: f
        try:
            out = st.StructureFactor(_np.asarray(hkl, dtype=object), ucell, 'anything', [a], {'X': [fp, fpp]} if with_disper else None)
        finally:
            st.FormFactor = saved
        return _np.array([out[0], out[1]], dtype=object)

    def sf_term_uiso(hkl, ucell, rot, trans, pos, U, occ, multi, nsymop, f, fp, fpp):
        return _sf_term('Uiso', hkl, ucell, rot, trans, pos, U, occ, multi, nsymop, f, fp, fpp)

    def sf_term_uani(hkl, ucell, rot, trans, pos, adp, occ, multi, nsymop, f, fp, fpp):
        return _sf_term('Uani', hkl, ucell, rot, trans, pos, list(adp), occ, multi, nsymop, f, fp, fpp)

    def sf_term_noadp(hkl, ucell, rot, trans, pos, occ, multi, nsymop, f, fp, fpp):
        return _sf_term(None, hkl, ucell, rot, trans, pos, 0.0, occ, multi, nsymop, f, fp, fpp)

    def sf_term_nodisp(hkl, ucell, rot, trans, pos, U, occ, multi, nsymop, f):
        return _sf_term('Uiso', hkl, ucell, rot, trans, pos, U, occ, multi, nsymop, f, 0.0, 0.0, with_disper=False)
    def _sf_general(hkl, ucell, ops, atomspecs, disper, nsymop):
        """StructureFactor itself on a symbolic structure: ops = [(rot, trans)], atomspecs = [(type, kind, adp, pos, occ, multi, f)]"""
        cnt = NsymInt(len(ops))
        cnt._sym = nsymop
        stub = _Atom()
        stub.nsymop = cnt
        r = _np.empty((len(ops), 3, 3), dtype=object)
        tt = _np.empty((len(ops), 3), dtype=object)
        for i, (ro, tr) in enumerate(ops):
            r[i] = _np.asarray(ro, dtype=object)
            tt[i] = _np.asarray(tr, dtype=object)
        stub.rot, stub.trans = r, tt
        sgproxy.stub = stub
        atoms, ff = [], {}
        for (typ, kind, adp, pos, occ, multi, f) in atomspecs:
            a = _Atom()
            a.adp_type, a.adp, a.atomtype, a.pos, a.occ, a.symmulti = kind, adp, typ, _np.asarray(pos, dtype=object), occ, multi
            atoms.append(a)
            ff[typ] = f
        saved = st.FormFactor
        st.FormFactor = lambda atomtype, stl: ff[atomtype]
        try:
            out = st.StructureFactor(_np.asarray(hkl, dtype=object), ucell, 'anything', atoms, disper)
        finally:
            st.FormFactor = saved
        return _np.array([out[0], out[1]], dtype=object)

    def sf_two_atoms(hkl, ucell, rot, trans, pos1, pos2, U1, occ1, occ2, multi1, multi2, nsymop, f1, f2, fp, fpp):
        """two atoms, one operation; the dispersion table has an entry for the first type and None for the second (listed after it)"""
        return _sf_general(hkl, ucell, [(rot, trans)], [('X', 'Uiso', U1, pos1, occ1, multi1, f1), ('Y', None, 0.0, pos2, occ2, multi2, f2)],
                           {'X': [fp, fpp], 'Y': None}, nsymop)

    def sf_two_ops(hkl, ucell, rot1, trans1, rot2, trans2, pos, adp, occ, multi, nsymop, f, fp, fpp):
        """one anisotropic atom, two operations"""
        return _sf_general(hkl, ucell, [(rot1, trans1), (rot2, trans2)], [('X', 'Uani', list(adp), pos, occ, multi, f)], {'X': [fp, fpp]}, nsymop)
    sigs = [('FormFactor_coeffs', ['R'] * 10, 'R'),
            ('Uij2betaij', ['V6', 'V6'], 'M3'),
            ('sf_term_uiso', ['V3', 'V6', 'M3', 'V3', 'V3', 'R', 'R', 'R', 'R', 'R', 'R', 'R'], 'V2'),
            ('sf_term_uani', ['V3', 'V6', 'M3', 'V3', 'V3', 'V6', 'R', 'R', 'R', 'R', 'R', 'R'], 'V2'),
            ('sf_term_noadp', ['V3', 'V6', 'M3', 'V3', 'V3', 'R', 'R', 'R', 'R', 'R', 'R'], 'V2'),
            ('sf_term_nodisp', ['V3', 'V6', 'M3', 'V3', 'V3', 'R', 'R', 'R', 'R', 'R'], 'V2'),
            ('sf_two_atoms', ['V3', 'V6', 'M3', 'V3', 'V3', 'V3'] + ['R'] * 10, 'V2'),
            ('sf_two_ops', ['V3', 'V6', 'M3', 'V3', 'M3', 'V3', 'V3', 'V6'] + ['R'] * 6, 'V2')]
    return ModuleTracer('xfab.structure', 'structure_', sigs, 'n', patches={'atomlib': proxy, 'sg': sgproxy},
                        extra_defs={'FormFactor_coeffs': FormFactor_coeffs, 'sf_term_uiso': sf_term_uiso, 'sf_term_uani': sf_term_uani,
                                    'sf_term_noadp': sf_term_noadp, 'sf_term_nodisp': sf_term_nodisp,
                                    'sf_two_atoms': sf_two_atoms, 'sf_two_ops': sf_two_ops})


def symmetry_tracer():
    import xfab.symmetry as sy

    def Umis_one(umat_1, umat_2, rot):
        """Umis for a one-element symmetry list containing the (symbolic) rotation rot: the angle column"""
        saved = sy.ROTATIONS
        r = _np.empty((1, 3, 3), dtype=object)
        r[0] = _np.asarray(rot, dtype=object)
        sy.ROTATIONS = [None, r]
        try:
            return sy.Umis(umat_1, umat_2, 1)[0, 1]
        finally:
            sy.ROTATIONS = saved
    sigs = [('Umis_one', ['M3', 'M3', 'M3'], 'R')]
    return ModuleTracer('xfab.symmetry', 'symmetry_', sigs, 'np', extra_defs={'Umis_one': Umis_one})


def make_tracers():
    return [
        ModuleTracer('xfab.tools', 'tools_', SIG_TL, 'n'),
        ModuleTracer('xfab.laue', 'laue_', SIG_TL, 'np'),
        ModuleTracer('xfab.detector', 'detector_', detector_sigs(), 'n'),
        structure_tracer(),
        symmetry_tracer(),
    ]


ALL_TRACERS = []


def session(tracers):
    ALL_TRACERS[:] = list(tracers)
    import xfab
    old_checks = xfab.CHECKS._run_checks
    xfab.CHECKS._run_checks = False
    entered = []
    try:
        for mt in tracers:
            mt.enter()
            entered.append(mt)
        for mt in tracers:
            mt.trace()
    finally:
        for mt in reversed(entered):
            mt.exit()
        xfab.CHECKS._run_checks = old_checks


def generate(outdir, write):
    """trace everything; write(path, text) writes only if changed.  Returns {modname: ModuleTracer}"""
    res = {}
    tracers = make_tracers()
    session(tracers)
    for mt in tracers:
        short = mt.modname.split('.')[-1]
        hdr = HEADER % short
        if short in ('structure', 'detector', 'symmetry'):
            hdr = hdr.replace('From XV Require Import RealLib Mat3 Atan2.', 'From XV Require Import RealLib Mat3 Atan2 Gen_tools.')
        text = hdr + mt.emit() + '\nEnd Gen.\n'
        write('%s/Gen_%s.v' % (outdir, short), text)
        res[short] = mt
    return res


if __name__ == '__main__':
    import os
    out = sys.argv[1] if len(sys.argv) > 1 else '/tmp/gen'
    os.makedirs(out, exist_ok=True)

    def w(p, t):
        open(p, 'w').write(t)
    r = generate(out, w)
    for k, mt in r.items():
        for key in mt.order:
            tr = mt.traced[key]
            print(k, key, 'paths', tr.npaths, 'nodes', tr.nnodes, 'partial', tr.partial)

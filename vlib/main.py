import os
import sys
import json
import importlib


def main(argv):
    if not argv:
        print('usage: check <id>|setup|all [--tier quick|thorough] [--replay file]')
        return 2
    pid = argv[0]
    tier = os.environ.get('VERIF_TIER', 'quick')
    replay = None
    i = 1
    while i < len(argv):
        if argv[i] == '--tier':
            tier = argv[i + 1]
            i += 2
        elif argv[i] == '--replay':
            replay = argv[i + 1]
            i += 2
        else:
            i += 1
    seed = int(os.environ.get('VERIF_SEED', '0') or 0)
    from . import driver
    if pid == 'setup':
        return driver.setup()
    if replay:
        mod = importlib.import_module('vlib.props.' + pid.lower())
        return driver.replay(pid, mod.SPEC, replay)
    mod = importlib.import_module('vlib.props.' + pid.lower())
    return driver.run(pid, tier, seed, mod.SPEC)


if __name__ == '__main__':
    sys.exit(main(sys.argv[1:]))

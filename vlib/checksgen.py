"""T3c - translator for xfab/checks.py and the guard sites (fail closed).

Reads the AST of xfab/checks.py and of every function of tools.py / laue.py / symmetry.py and emits gen/Gen_checks.v:
  gen_check_rotation, gen_check_euler, gen_check_ubi   the three predicates, with the tolerances that stand in the source (exact decimal rationals;
                                                       numpy.allclose defaults rtol = 1e-5, atol = 1e-8 where the call gives none)
  gen_assign, gen_initial_state                        the setter of CHECKS.activated
  gen_guard_sites                                      every `if CHECKS.activated: checks.<check>(<expr>)` statement, as "module.function:check(expr)"
Any other program shape is refused (the check then reports a broken translator obligation and searches for a failing input).
proofs/P20_tie.v proves that these generated definitions coincide with the hand model model/Checks.v the C20 theorems are stated about."""
import ast
import os
from fractions import Fraction


class Refuse(Exception):
    pass


def dump(node):
    return ast.dump(node, annotate_fields=False)


def expr(src):
    return dump(ast.parse(src, mode='eval').body)


def strip_doc(body):
    if body and isinstance(body[0], ast.Expr) and isinstance(getattr(body[0], 'value', None), ast.Constant) and isinstance(body[0].value.value, str):
        return body[1:]
    return body


def rat(v):
    if isinstance(v, bool) or not isinstance(v, (int, float)):
        raise Refuse('tolerance is not a numeric literal: %r' % (v,))
    f = Fraction(repr(v))
    return '(%d / %d)' % (f.numerator, f.denominator)


def raises_value_error(stmts):
    return (len(stmts) == 1 and isinstance(stmts[0], ast.Raise) and isinstance(stmts[0].exc, ast.Call)
            and dump(stmts[0].exc.func) == expr('ValueError'))


def allclose_call(test, a_src, b_srcs):
    """test must be `not np.allclose(<a>, <b>[, rtol=..][, atol=..])`; returns (rtol, atol) as Coq rationals"""
    if not (isinstance(test, ast.UnaryOp) and isinstance(test.op, ast.Not) and isinstance(test.operand, ast.Call)):
        raise Refuse('expected `if not np.allclose(...)`')
    c = test.operand
    if dump(c.func) != expr('np.allclose') or len(c.args) != 2:
        raise Refuse('expected np.allclose with two positional arguments')
    if dump(c.args[0]) != expr(a_src) or dump(c.args[1]) not in [expr(b) for b in b_srcs]:
        raise Refuse('np.allclose compares %s with %s, expected %s with %s' % (ast.unparse(c.args[0]), ast.unparse(c.args[1]), a_src, b_srcs[0]))
    tol = {'rtol': 1e-05, 'atol': 1e-08}
    for kw in c.keywords:
        if kw.arg not in tol or not isinstance(kw.value, ast.Constant):
            raise Refuse('unexpected keyword %r of np.allclose' % kw.arg)
        tol[kw.arg] = kw.value.value
    return rat(tol['rtol']), rat(tol['atol'])


def translate_checks(tree):
    funcs = {n.name: n for n in tree.body if isinstance(n, ast.FunctionDef)}
    out = []
    # rotation
    f = funcs.get('_check_rotation_matrix')
    if f is None or [a.arg for a in f.args.args] != ['U']:
        raise Refuse('_check_rotation_matrix(U) not found')
    body = strip_doc(f.body)
    if len(body) != 2 or not all(isinstance(s, ast.If) and not s.orelse and raises_value_error(s.body) for s in body):
        raise Refuse('_check_rotation_matrix: expected two `if not np.allclose(...): raise ValueError` statements')
    r1, a1 = allclose_call(body[0].test, 'np.dot(U.T, U)', ['np.eye(3, 3)', 'np.eye(3)'])
    r2, a2 = allclose_call(body[1].test, 'np.linalg.det(U)', ['1.0', '1'])
    out.append('Definition gen_check_rotation (U : M3) : Prop :=\n  allclose_I %s %s (mmul (mtrans U) U) /\\ close %s %s (mdet U) 1.' % (r1, a1, r2, a2))
    # euler
    f = funcs.get('_check_euler_angles')
    if f is None or [a.arg for a in f.args.args] != ['phi1', 'PHI', 'phi2']:
        raise Refuse('_check_euler_angles(phi1, PHI, phi2) not found')
    body = strip_doc(f.body)
    if len(body) != 3:
        raise Refuse('_check_euler_angles: expected three range tests')
    for s, nm in zip(body, ['phi1', 'PHI', 'phi2']):
        ok = (isinstance(s, ast.If) and not s.orelse and raises_value_error(s.body) and isinstance(s.test, ast.UnaryOp) and isinstance(s.test.op, ast.Not)
              and dump(s.test.operand) in (expr('0<=%s<=np.pi*2' % nm), expr('0<=%s<=2*np.pi' % nm)))
        if not ok:
            raise Refuse('_check_euler_angles: the test for %s is not `if not (0 <= %s <= np.pi*2): raise ValueError`' % (nm, nm))
    out.append('Definition gen_check_euler (p1 P p2 : R) : Prop := 0 <= p1 <= PI * 2 /\\ 0 <= P <= PI * 2 /\\ 0 <= p2 <= PI * 2.')
    # ubi
    f = funcs.get('_check_ubi_matrix')
    if f is None or [a.arg for a in f.args.args] != ['ubi']:
        raise Refuse('_check_ubi_matrix(ubi) not found')
    body = strip_doc(f.body)
    ok = (len(body) == 1 and isinstance(body[0], ast.If) and not body[0].orelse and raises_value_error(body[0].body)
          and dump(body[0].test) == expr('np.dot(ubi[2,:], np.cross(ubi[0,:],ubi[1,:]))<0'))
    if not ok:
        raise Refuse('_check_ubi_matrix: expected `if np.dot(ubi[2,:], np.cross(ubi[0,:], ubi[1,:])) < 0: raise ValueError`')
    out.append('Definition gen_check_ubi (A : M3) : Prop := ~ (vdot (mrow2 A) (vcross (mrow0 A) (mrow1 A)) < 0).')
    # the switch
    cls = [n for n in tree.body if isinstance(n, ast.ClassDef) and n.name == '_checkState']
    if len(cls) != 1:
        raise Refuse('class _checkState not found')
    meth = {}
    for n in cls[0].body:
        if isinstance(n, ast.FunctionDef):
            meth.setdefault(n.name, []).append(n)
    init = meth.get('__init__', [None])[0]
    if init is None or [dump(s) for s in strip_doc(init.body)] != [dump(ast.parse('self._run_checks = True').body[0])]:
        raise Refuse('_checkState.__init__ is not `self._run_checks = True`')
    acts = meth.get('activated', [])
    if len(acts) != 2:
        raise Refuse('_checkState.activated: expected a property and its setter')
    getter = [n for n in acts if [dump(d) for d in n.decorator_list] == [expr('property')]]
    setter = [n for n in acts if [dump(d) for d in n.decorator_list] == [expr('activated.setter')]]
    if len(getter) != 1 or len(setter) != 1:
        raise Refuse('_checkState.activated: decorators are not @property / @activated.setter')
    if [dump(s) for s in strip_doc(getter[0].body)] != [dump(ast.parse('return self._run_checks and __debug__').body[0])]:
        raise Refuse('_checkState.activated getter is not `return self._run_checks and __debug__`')
    want = ast.parse('if value is not True and value is not False:\n    raise ValueError("x")\nelse:\n    self._run_checks = value').body[0]
    sb = strip_doc(setter[0].body)
    ok = (len(sb) == 1 and isinstance(sb[0], ast.If) and dump(sb[0].test) == dump(want.test) and raises_value_error(sb[0].body)
          and [dump(s) for s in sb[0].orelse] == [dump(s) for s in want.orelse])
    if not ok:
        raise Refuse('_checkState.activated setter is not `if value is not True and value is not False: raise ValueError else: self._run_checks = value`')
    out.append('Definition gen_initial_state : bool := true.')
    out.append('Definition gen_assign (state : bool) (v : pyval) : bool * outcome :=\n  match v with PyTrue => (true, Done) | PyFalse => (false, Done) | _ => (state, ValueError) end.')
    return out


CHECK_NAMES = ('_check_rotation_matrix', '_check_euler_angles', '_check_ubi_matrix')


def guard_sites(repo):
    """every statement `if CHECKS.activated: checks.<name>(<args>)` (one or several calls in the body, no else) inside a function of the three modules"""
    sites = []
    for mod in ('tools', 'laue', 'symmetry'):
        tree = ast.parse(open(os.path.join(repo, 'xfab', mod + '.py')).read())
        for fn in [n for n in tree.body if isinstance(n, ast.FunctionDef)]:
            for node in ast.walk(fn):
                mentions = [n for n in ast.walk(node) if isinstance(n, ast.Attribute) and n.attr in CHECK_NAMES] if isinstance(node, (ast.If, ast.Expr, ast.Assign)) else []
                if isinstance(node, ast.If) and dump(node.test) == expr('CHECKS.activated'):
                    if node.orelse:
                        raise Refuse('%s.%s: `if CHECKS.activated` with an else branch' % (mod, fn.name))
                    for s in node.body:
                        ok = (isinstance(s, ast.Expr) and isinstance(s.value, ast.Call) and isinstance(s.value.func, ast.Attribute)
                              and dump(s.value.func.value) == expr('checks') and s.value.func.attr in CHECK_NAMES and not s.value.keywords)
                        if not ok:
                            raise Refuse('%s.%s: statement under `if CHECKS.activated` is not a call of a check: %s' % (mod, fn.name, ast.unparse(s)))
                        sites.append('%s.%s:%s(%s)' % (mod, fn.name, s.value.func.attr, ', '.join(ast.unparse(a) for a in s.value.args)))
                elif isinstance(node, ast.If) and any(isinstance(n, ast.Attribute) and n.attr == 'activated' for n in ast.walk(node.test)):
                    raise Refuse('%s.%s: a condition mentions CHECKS.activated in another form: %s' % (mod, fn.name, ast.unparse(node.test)))
            # a check called outside an `if CHECKS.activated` statement would run also while the switch is off
            guarded = set()
            for node in ast.walk(fn):
                if isinstance(node, ast.If) and dump(node.test) == expr('CHECKS.activated'):
                    for n in ast.walk(node):
                        guarded.add(id(n))
            for n in ast.walk(fn):
                if isinstance(n, ast.Attribute) and n.attr in CHECK_NAMES and id(n) not in guarded:
                    raise Refuse('%s.%s: %s is used outside an `if CHECKS.activated:` statement' % (mod, fn.name, n.attr))
    return sorted(sites)


def generate(outdir, write, repo='/repo'):
    tree = ast.parse(open(os.path.join(repo, 'xfab', 'checks.py')).read())
    defs = translate_checks(tree)
    sites = guard_sites(repo)
    text = ('(* GENERATED on every run by vlib/checksgen.py from xfab/checks.py and the guard sites of xfab/tools.py, laue.py, symmetry.py *)\n'
            'From Coq Require Import Reals List String.\nFrom XV Require Import RealLib Mat3 Checks.\nImport ListNotations.\nOpen Scope R_scope.\n\n'
            + '\n'.join(defs) + '\n\nOpen Scope string_scope.\nDefinition gen_guard_sites : list string :=\n  [' + ';\n   '.join('"%s"' % s.replace('"', "'") for s in sites) + '].\n')
    write(os.path.join(outdir, 'Gen_checks.v'), text)
    return {'sites': sites}

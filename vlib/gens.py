"""input generators and comparison helpers shared by the property modules (everything from ctx.rng)"""
import math
import numpy as np


def gram(al, be, ga):
    ca, cb, cg = (math.cos(math.radians(x)) for x in (al, be, ga))
    return 1 - ca * ca - cb * cb - cg * cg + 2 * ca * cb * cg


def valid_cell(rng, oblique=True):
    """a,b,c in [1,20]; angles in [35,145], one draw in five anywhere in [5,175] (or near 90); Gram determinant >= 0.02"""
    while True:
        a, b, c = (round(rng.uniform(1, 20), 3) for _ in range(3))
        if oblique and rng.random() < 0.2:
            # strongly oblique: any angles in (5, 175) that keep the Gram determinant above the property's bound
            al, be, ga = (round(rng.uniform(5, 175), 2) for _ in range(3))
        elif oblique:
            al, be, ga = (round(rng.uniform(35, 145), 2) for _ in range(3))
        else:
            al, be, ga = (round(rng.uniform(80, 100), 2) for _ in range(3))
        if gram(al, be, ga) >= 0.02:
            return [a, b, c, al, be, ga]


def special_cell(rng):
    """cells with some angles exactly 90 / 60 / 120 and some equal lengths (monoclinic in every setting, hexagonal, ...)"""
    while True:
        a, b, c = (round(rng.uniform(1, 20), 3) for _ in range(3))
        if rng.random() < 0.3:
            b = a
        if rng.random() < 0.2:
            c = a
        ang = [rng.choice([90.0, 90.0, 60.0, 120.0, round(rng.uniform(35, 145), 2)]) for _ in range(3)]
        if rng.random() < 0.12:
            ang = [90.0, 90.0, rng.choice([90.0, 90.0, 120.0])]       # orthogonal / hexagonal metric (then, three times in ten, sheared by a tiny amount below)
        if rng.random() < 0.3:
            # almost special: angles 1e-9 .. 5e-4 degrees away from 90 / 60 / 120, axes equal to within 1e-9 .. 1e-4 (slightly sheared / strained high-symmetry cells)
            ang = [x + rng.choice([-1, 1]) * 10 ** rng.uniform(-9, -3.3) if x in (90.0, 60.0, 120.0) and rng.random() < 0.9 else x for x in ang]
            if b == a:
                b = a * (1 + rng.choice([-1, 1]) * 10 ** rng.uniform(-9, -4))
            if c == a:
                c = a * (1 + rng.choice([-1, 1]) * 10 ** rng.uniform(-9, -4))
        if gram(*ang) >= 0.02:
            return [a, b, c] + ang


def metric(cell):
    a, b, c, al, be, ga = cell
    ca, cb, cg = (math.cos(math.radians(x)) for x in (al, be, ga))
    return np.array([[a * a, a * b * cg, a * c * cb], [a * b * cg, b * b, b * c * ca], [a * c * cb, b * c * ca, c * c]])


def rotation(rng, kind=None):
    """uniform random rotation (quaternion method) or special cases"""
    kind = kind or rng.choice(['uniform'] * 6 + ['axis', 'euler_small', 'euler_pi'])
    if kind == 'axis':
        perm = rng.choice([(0, 1, 2), (1, 2, 0), (2, 0, 1), (0, 2, 1), (2, 1, 0), (1, 0, 2)])
        m = np.zeros((3, 3))
        for i, j in enumerate(perm):
            m[i, j] = rng.choice([-1, 1])
        if np.linalg.det(m) < 0:
            m[0] = -m[0]
        return m
    if kind in ('euler_small', 'euler_pi'):
        p1, p2 = rng.uniform(0, 2 * math.pi), rng.uniform(0, 2 * math.pi)
        d = 10 ** rng.uniform(-12, -3)
        P = d if kind == 'euler_small' else math.pi - d
        return euler(p1, P, p2)
    while True:
        q = np.array([rng.gauss(0, 1) for _ in range(4)])
        nq = np.linalg.norm(q)
        if nq > 1e-3:
            break
    w, x, y, z = q / nq
    return np.array([[1 - 2 * (y * y + z * z), 2 * (x * y - z * w), 2 * (x * z + y * w)],
                     [2 * (x * y + z * w), 1 - 2 * (x * x + z * z), 2 * (y * z - x * w)],
                     [2 * (x * z - y * w), 2 * (y * z + x * w), 1 - 2 * (x * x + y * y)]])


def Rx(t):
    c, s = math.cos(t), math.sin(t)
    return np.array([[1, 0, 0], [0, c, -s], [0, s, c]])


def Ry(t):
    c, s = math.cos(t), math.sin(t)
    return np.array([[c, 0, s], [0, 1, 0], [-s, 0, c]])


def Rz(t):
    c, s = math.cos(t), math.sin(t)
    return np.array([[c, -s, 0], [s, c, 0], [0, 0, 1]])


def euler(p1, P, p2):
    return Rz(p1).dot(Rx(P)).dot(Rz(p2))


def hkl(rng, hmax=8):
    while True:
        h = [rng.randint(-hmax, hmax) for _ in range(3)]
        if any(h):
            return h


def close(a, b, rtol=1e-9, atol=1e-11):
    a = np.asarray(a, dtype=float)
    b = np.asarray(b, dtype=float)
    if a.shape != b.shape:
        return False
    return bool(np.all(np.abs(a - b) <= atol + rtol * np.maximum(np.abs(a), np.abs(b))))


def maxerr(a, b):
    return float(np.max(np.abs(np.asarray(a, dtype=float) - np.asarray(b, dtype=float))))

"""Registered functions for the history-independence replays (vlib/history.py), per property"""
import math
import numpy as np
from . import gens as G
from .history import Fixed, Atoms, perturb


def _cell(rng):
    return [float(x) for x in (G.valid_cell(rng) if rng.random() < 0.7 else G.special_cell(rng))]


def _hkl(rng):
    return Fixed([int(x) for x in G.hkl(rng)])


def _U(rng):
    return G.rotation(rng).tolist()


def _small_rot(rng, d):
    ax = np.array([rng.gauss(0, 1) for _ in range(3)])
    ax /= np.linalg.norm(ax)
    K = np.array([[0, -ax[2], ax[1]], [ax[2], 0, -ax[0]], [-ax[1], ax[0], 0]])
    return np.eye(3) + math.sin(d) * K + (1 - math.cos(d)) * K.dot(K)


def near_rot(idx, invalid=0.2):
    """near variant for argument lists containing rotation matrices at the positions idx: valid rotations stay valid (four times in five)"""
    def f(rng, a, d):
        if rng.random() < invalid and invalid > 0.2:
            d = rng.choice([1e-3, 0.02, 0.3])
        b = perturb(rng, [x if i not in idx else Fixed(x) for i, x in enumerate(a)], d, rng.choice([None, 'one']))
        b = [a[i] if i in idx else x for i, x in enumerate(b)]
        for i in idx:
            if rng.random() >= invalid:
                b[i] = _small_rot(rng, d).dot(np.array(a[i])).tolist()
            elif rng.random() < 0.3:
                b[i] = (np.array(a[i]) * np.array([1, 1, -1])).tolist()       # improper
            else:                       # the caller's matrix drifts away from a rotation (what the input checks are for)
                b[i] = (np.array(a[i]) * (1 + d) + d * np.array([[0, 1, 0], [0, 0, 0], [0, 0, 0]])).tolist()
        return b
    return f


def _ubi(rng, two_pi=False):
    U, cell = G.rotation(rng), _cell(rng)
    from xfab import tools
    return np.linalg.inv(U.dot(tools.form_b_mat(cell) / (2 * math.pi))).tolist()


def _amat(rng):
    """upper triangular with positive diagonal, as form_a_mat / form_b_mat return (entries of order 1..10 so that rounding to integers keeps it valid most of the time)"""
    a = [[rng.uniform(2, 9), rng.uniform(-3, 3), rng.uniform(-3, 3)], [0.0, rng.uniform(2, 9), rng.uniform(-3, 3)], [0.0, 0.0, rng.uniform(2, 9)]]
    return a


def _eps(rng):
    return [rng.uniform(-0.1, 0.1) for _ in range(6)]


def both(fn, gen, **kw):
    return [dict(mod='xfab.tools', fn=fn, gen=gen, **kw), dict(mod='xfab.laue', fn=fn, gen=gen, **kw)]


def _gvec(rng):
    g = np.array([rng.gauss(0, 1) for _ in range(3)])
    return (g / np.linalg.norm(g) * rng.uniform(0.05, 2.0)).tolist()


def _atoms(rng, cell, n=None, kinds=('Uiso', 'Uani', None)):
    from . import sfref as SF
    at = SF.random_atoms(rng, cell, n or rng.randint(1, 3), kinds=kinds)
    return Atoms([dict(label=a.label, atomtype=a.atomtype, pos=[float(x) for x in a.pos], adp_type=a.adp_type,
                       adp=([float(x) for x in a.adp] if isinstance(a.adp, (list, tuple, np.ndarray)) else float(a.adp)), occ=float(a.occ), symmulti=rng.choice([1, 2, 4])) for a in at])


def _sf_args(rng):
    from . import hklref as HR
    from xfab import sg
    no = rng.choice([1, 2, 14, 19, 62, 88, 148, 167, 194, 225])
    s = sg.sg(sgno=no)
    cell = [float(x) for x in HR.conforming_cell(rng, s.crystal_system, s.cell_choice)]
    return [_hkl(rng), cell, Fixed(s.name), _atoms(rng, cell), Fixed(None)]


def _sf_near(rng, a, d):
    """same atoms, neighbouring cell that still conforms (lengths scaled together), or perturbed atoms"""
    b = list(a)
    if rng.random() < 0.6:
        s = 1 + d * rng.uniform(0.3, 1) * rng.choice([1, 30, 3000])
        b[1] = [x * s for x in a[1][:3]] + list(a[1][3:])
    else:
        b = perturb(rng, a, d)
        b[1] = a[1]
    return b


def _sf_far(rng):
    return _sf_args(rng)


ELEMENTS = ['H', 'C', 'N', 'O', 'S', 'FE', 'CU', 'AG', 'AU', 'CL', 'NA', 'U', 'SI', 'CA']


ENTRIES = {
    'C01': both('sintl', lambda r: [_cell(r), _hkl(r)]) + both('form_b_mat', lambda r: [_cell(r)]) + both('form_a_mat', lambda r: [_cell(r)])
           + both('cell_invert', lambda r: [_cell(r)]) + both('cell_volume', lambda r: [_cell(r)]) + both('tth', lambda r: [_cell(r), _hkl(r), r.uniform(0.1, 1.5)])
           + both('form_a_mat_inv', lambda r: [_cell(r)]) + both('a_to_cell', lambda r: [_amat(r)]) + both('b_to_cell', lambda r: [_amat(r)]),
    'C02': both('u_to_ubi', lambda r: [_U(r), _cell(r)], near=near_rot({0})) + both('ubi_to_u', lambda r: [_ubi(r)]) + both('ubi_to_cell', lambda r: [_ubi(r)])
           + both('ubi_to_u_b', lambda r: [_ubi(r)]) + both('ubi_to_rod', lambda r: [_ubi(r)]) + both('ub_to_u_b', lambda r: [np.linalg.inv(np.array(_ubi(r))).tolist()]),
    'C03': both('form_omega_mat_general', lambda r: [r.uniform(-7, 7), r.uniform(-1, 1) * r.choice([1, 1e-3, 1e-8]), r.uniform(-1, 1) * r.choice([1, 1e-3, 1e-8])])
           + both('form_omega_mat', lambda r: [r.uniform(-7, 7)]) + both('euler_to_u', lambda r: [r.uniform(0, 2 * math.pi), r.uniform(0, 2 * math.pi), r.uniform(0, 2 * math.pi)])
           + both('u_to_euler', lambda r: [_U(r)], near=near_rot({0})) + both('rod_to_u', lambda r: [[r.gauss(0, 1) for _ in range(3)]]) + both('u_to_rod', lambda r: [_U(r)], near=near_rot({0}))
           + both('quart_to_omega', lambda r: [r.uniform(-180, 180), r.uniform(-0.3, 0.3), r.uniform(-0.3, 0.3)]) + both('detect_tilt', lambda r: [r.uniform(-0.5, 0.5), r.uniform(-0.5, 0.5), r.uniform(-0.5, 0.5)]),
    'C08': [dict(mod='xfab.structure', fn='StructureFactor', gen=_sf_args, near=_sf_near, tol=1e-9, n=(20, 80)),
            dict(mod='xfab.structure', fn='Uij2betaij', gen=lambda r: [[r.uniform(0.001, 0.05) for _ in range(6)], _cell(r)])],
    'C09': both('find_omega_general', lambda r: [_gvec(r), r.uniform(0.02, 2.5), r.uniform(-0.3, 0.3), r.uniform(-0.3, 0.3)])
           + both('find_omega_quart', lambda r: [_gvec(r), r.uniform(0.02, 2.5), r.uniform(-0.3, 0.3), r.uniform(-0.3, 0.3)])
           + both('find_omega_wedge', lambda r: [_gvec(r), r.uniform(0.02, 2.5), r.uniform(-0.5, 0.5)]) + both('find_omega', lambda r: [_gvec(r), r.uniform(0.02, 2.5)]),
    'C10': [dict(mod='xfab.detector', fn='det_coor2', gen=lambda r: [r.uniform(0.01, 1.2), r.uniform(0, 2 * math.pi), r.uniform(5e4, 5e5), 50.0, 50.0, r.uniform(0, 2048), r.uniform(0, 2048),
                                                                       G.euler(r.uniform(-.1, .1), r.uniform(-.1, .1), r.uniform(-.1, .1)).tolist(), r.uniform(-500, 500), r.uniform(-500, 500), r.uniform(-500, 500)]),
            dict(mod='xfab.detector', fn='detector_to_lab', gen=lambda r: [r.uniform(0, 2048), r.uniform(0, 2048), r.uniform(5e4, 5e5), 50.0, 50.0, r.uniform(0, 2048), r.uniform(0, 2048),
                                                                             G.euler(r.uniform(-.1, .1), r.uniform(-.1, .1), r.uniform(-.1, .1)).tolist()])],
    'C12': [dict(mod='xfab.symmetry', fn='Umis', gen=lambda r: [_U(r), _U(r), Fixed(r.randint(1, 7))], near=near_rot({0, 1}), n=(28, 100)),
            dict(mod='xfab.symmetry', fn='add_rot', gen=lambda r: [_U(r), Fixed(r.randint(1, 7))], near=near_rot({0})),
            dict(mod='xfab.symmetry', fn='rotations', gen=lambda r: [Fixed(r.randint(1, 7))]),
            dict(mod='xfab.symmetry', fn='permutations', gen=lambda r: [Fixed(r.randint(1, 7))])],
    'C13': both('epsilon_to_b', lambda r: [_eps(r), _cell(r)], n=(21, 80)) + both('b_to_epsilon', lambda r: [np.linalg.inv(np.array(_ubi(r))).tolist(), _cell(r)], n=(21, 80))
           + both('epsilon_to_b_old', lambda r: [_eps(r), _cell(r)]) + both('b_to_epsilon_old', lambda r: [np.triu(np.linalg.inv(np.array(_ubi(r)))).tolist(), _cell(r)])
           + both('ubi_to_u_and_eps', lambda r: [_ubi(r), _cell(r)], n=(21, 80)),
    'C16': [dict(mod='xfab.structure', fn='FormFactor', gen=lambda r: [Fixed(r.choice(ELEMENTS)), r.uniform(0, 2)],
                 near=lambda r, a, d: [a[0], a[1] + d * r.choice([1, 10, 100]) * r.uniform(0.3, 1)], n=(28, 120))],
    'C18': both('reduce_cell', lambda r: [_cell(r)], n=(7, 21)),
    'C20': [dict(mod=m, fn=f, gen=g, near=near_rot({0}, 0.6), checks=True, n=(14, 40))
            for m in ('xfab.tools', 'xfab.laue') for f, g in (('u_to_euler', lambda r: [_U(r)]), ('u_to_rod', lambda r: [_U(r)]), ('u_to_ubi', lambda r: [_U(r), _cell(r)]))]
           + [dict(mod='xfab.symmetry', fn='Umis', gen=lambda r: [_U(r), _U(r), Fixed(r.randint(1, 7))], near=near_rot({0, 1}, 0.6), checks=True, n=(14, 40))],
}


def _sg_post(o):
    return [o.name, o.no, o.crystal_system, o.nsymop, o.nuniq, o.Laue, o.cell_choice, np.array(o.rot, float), np.array(o.trans, float), np.array(o.syscond, float)]


def _rows_post(r):
    a = np.asarray(r, float)
    return a[np.lexsort(a.T[::-1])] if a.size else a


def _hkl_args(rng):
    from . import hklref as HR
    from xfab import sg
    no = rng.choice([2, 14, 19, 62, 88, 139, 148, 167, 176, 194, 205, 225])
    ch = 'rhombohedral' if (no in (148, 167) and rng.random() < 0.5) else 'standard'
    s = sg.sg(sgno=no, cell_choice=ch)
    cell = [float(x) for x in HR.conforming_cell(rng, s.crystal_system, s.cell_choice)]
    return [cell, 0.0, float(round(rng.uniform(0.18, 0.3) * 5.0 / max(cell[:3]) + 0.08, 4)), Fixed(None), Fixed(no), Fixed(ch)]


def _hkl_near(rng, a, d):
    """neighbouring conforming cell (all lengths scaled together) or a slightly different cut-off"""
    b = list(a)
    if rng.random() < 0.6:
        sc = 1 + min(0.05, d * rng.uniform(0.3, 1) * rng.choice([1, 100, 10000]))
        b[0] = [x * sc for x in a[0][:3]] + list(a[0][3:])
    else:
        b[2] = a[2] * (1 + min(0.05, d * rng.choice([1, 100, 10000])))
    return b


def _pos(rng):
    return [rng.choice([0.0, 0.25, 0.5, 1.0 / 3, 2.0 / 3, 0.125, 0.75, round(rng.uniform(0, 1), 4)]) for _ in range(3)]


ENTRIES['C04'] = [dict(mod='xfab.sg', fn='sg', gen=lambda r: [Fixed(r.randint(1, 230)), Fixed(None), Fixed(r.choice(['standard', 'rhombohedral']))], post=_sg_post, n=(14, 60)),
                  dict(mod='xfab.sg', fn='sg', gen=lambda r: [Fixed(None), Fixed(r.choice(['P21/c', 'R-3', 'R-3r', 'R3c', 'R3cr', 'Fm-3m', 'P6122', 'r -3 c', 'I41/amd', 'C2/c', 'P-1']))], post=_sg_post, n=(14, 60))]
ENTRIES['C05'] = both('genhkl_all', _hkl_args, near=_hkl_near, post=_rows_post, n=(7, 28))
ENTRIES['C06'] = both('genhkl_unique', _hkl_args, near=_hkl_near, post=_rows_post, n=(7, 28))
ENTRIES['C07'] = [ENTRIES['C08'][0]]
ENTRIES['C10'] = ENTRIES['C10'] + [dict(mod='xfab.detector', fn='det_coor', gen=lambda r: [[r.uniform(-1, 1), r.uniform(-3, 3), r.uniform(-3, 3)], r.uniform(0.6, 0.999), r.uniform(0.1, 1.0), r.uniform(5e4, 5e5), 50.0, 50.0,
                                                                                              r.uniform(0, 2048), r.uniform(0, 2048), G.euler(r.uniform(-.1, .1), r.uniform(-.1, .1), r.uniform(-.1, .1)).tolist(),
                                                                                              r.uniform(-500, 500), r.uniform(-500, 500), r.uniform(-500, 500)])]
ENTRIES['C11'] = [dict(mod='xfab.detector', fn='eta_and_radpix_to_detyz', gen=lambda r: [r.uniform(0, 360), r.uniform(1, 1500), r.choice([0.0, r.uniform(-100, 2100)]), r.choice([0.0, r.uniform(-100, 2100)])]),
                  dict(mod='xfab.detector', fn='detyz_to_eta_and_radpix', gen=lambda r: [[r.uniform(0, 2048), r.uniform(0, 2048)], r.uniform(-100, 2100), r.uniform(-100, 2100)]),
                  dict(mod='xfab.detector', fn='xy_to_detyz', gen=lambda r: [[r.uniform(0, 1000), r.uniform(0, 1500)]] + [Fixed(x) for x in r.choice([(1, 0, 0, 1), (-1, 0, 0, 1), (0, 1, 1, 0), (0, -1, 1, 0), (0, -1, -1, 0)])] + [Fixed(1501), Fixed(1001)]),
                  dict(mod='xfab.detector', fn='detyz_to_xy', gen=lambda r: [[r.uniform(0, 1000), r.uniform(0, 1000)]] + [Fixed(x) for x in r.choice([(1, 0, 0, 1), (-1, 0, 0, 1), (0, 1, 1, 0), (0, -1, 1, 0), (0, -1, -1, 0)])] + [Fixed(1501), Fixed(1001)])]
ENTRIES['C15'] = [dict(mod='xfab.structure', fn='multiplicity', gen=lambda r: [_pos(r), Fixed(None), Fixed(r.choice([2, 14, 62, 88, 148, 152, 167, 176, 194, 225, 227])), Fixed(r.choice(['standard', 'rhombohedral']))], n=(14, 60)),
                  dict(mod='xfab.structure', fn='multiplicity', gen=lambda r: [_pos(r), Fixed(r.choice(['P21/c', 'R-3', 'R-3r', 'R3c', 'R3cr', 'Fm-3m', 'P6122', 'I41/amd', 'Cmca']))], n=(14, 60))]
ENTRIES['C14'] = [e for e in ENTRIES['C01'] + ENTRIES['C02'] + ENTRIES['C13'] if e['fn'] in ('sintl', 'form_b_mat', 'u_to_ubi', 'ubi_to_u_b', 'epsilon_to_b', 'b_to_epsilon', 'ubi_to_u_and_eps')]

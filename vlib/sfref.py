"""Independent oracle for C07/C08: the structure factor as an explicit sum over the unit-cell contents"""
import math
import numpy as np
from . import hklref as HR

ELEMENTS = ['H', 'C', 'N', 'O', 'S', 'FE', 'CU', 'AG', 'AU', 'CL', 'NA']


class Atom(object):
    def __init__(self, **kw):
        self.__dict__.update(kw)


def formfac(el, stl):
    from xfab import atomlib
    d = atomlib.formfactor[el]
    return sum(d[i] * math.exp(-d[i + 4] * stl * stl) for i in range(4)) + d[8]


def beta_from_uani(u, cell):
    """beta_ij = 2 pi^2 a*_i a*_j U_ij"""
    Gs = HR.recip_metric(cell)
    ast = np.sqrt(np.diag(Gs))
    U = np.array([[u[0], u[5], u[4]], [u[5], u[1], u[3]], [u[4], u[3], u[2]]])
    return 2 * math.pi ** 2 * np.outer(ast, ast) * U


def explicit_sf(hkl, cell, s, atoms, disper):
    """sum over every atom of the cell: the orbit of each asymmetric-unit atom (distinct sites, weight occ), with the operation's own rotation of the ADP tensor"""
    h = np.array(hkl, float)
    Gs = HR.recip_metric(cell)
    stl = 0.5 * math.sqrt(max(0.0, h.dot(Gs).dot(h)))
    R = np.rint(np.asarray(s.rot)).astype(int)
    t = np.rint(np.asarray(s.trans, float) * 12) / 12.0
    F = 0j
    for a in atoms:
        f = formfac(a.atomtype, stl)
        fp, fpp = (0.0, 0.0)
        if disper is not None and disper.get(a.atomtype) is not None:
            fp, fpp = disper[a.atomtype]
        sites = {}
        for Ri, ti in zip(R, t):
            r = Ri.dot(a.pos) + ti
            key = tuple(np.round(np.mod(r, 1.0), 6) % 1.0)
            if key in sites:
                continue
            if a.adp_type == 'Uiso':
                dw = math.exp(-8 * math.pi ** 2 * a.adp * stl * stl)
            elif a.adp_type == 'Uani':
                b = beta_from_uani(a.adp, cell)
                dw = math.exp(-h.dot(Ri.dot(b).dot(Ri.T)).dot(h))
            else:
                dw = 1.0
            sites[key] = a.occ * (f + fp + 1j * fpp) * dw * np.exp(2j * math.pi * h.dot(r))
        F += sum(sites.values())
    return F


def random_atoms(rng, cell, n, kinds=('Uiso', 'Uani', None), special=None, s=None):
    atoms = []
    for i in range(n):
        kind = rng.choice(kinds)
        pos = np.array([rng.uniform(0.03, 0.97) for _ in range(3)])
        if special is not None and rng.random() < special:
            pos = np.array([rng.choice([0.0, 0.25, 0.5, 1.0 / 3, 2.0 / 3, 0.125, 0.75]) for _ in range(3)])
        if kind == 'Uiso':
            adp = rng.uniform(0.005, 0.06)
        elif kind == 'Uani':
            # positive definite U in the cell's reciprocal metric sense: build from a random SPD matrix
            M = np.array([[rng.gauss(0, 1) for _ in range(3)] for _ in range(3)])
            Um = 0.01 * (M.dot(M.T) + 0.5 * np.eye(3))
            adp = [Um[0, 0], Um[1, 1], Um[2, 2], Um[1, 2], Um[0, 2], Um[0, 1]]
            k = rng.random()
            if k < 0.12:        # structured tensors: no cross terms (atoms on mirror planes), equal diagonal, one cross term only
                adp = [adp[0], adp[1], adp[2], 0.0, 0.0, 0.0]
            elif k < 0.24:
                adp = [adp[0], adp[0], adp[0], 0.0, 0.0, 0.0]
            elif k < 0.3:
                adp = [adp[0] + 0.02, adp[1] + 0.02, adp[2] + 0.02, 0.0, 0.0, rng.choice([-1, 1]) * 0.01]
            elif k < 0.38:      # very large, strongly anisotropic displacement: one operator image is damped to nothing while others are not
                big = [rng.uniform(0.3, 0.7), 0.004, 0.004]
                rng.shuffle(big)
                adp = big + [0.0, 0.0, 0.0]
        else:
            adp = 0.0
        atoms.append(Atom(label='A%d' % i, atomtype=rng.choice(ELEMENTS), pos=pos, adp_type=kind, adp=adp, occ=round(rng.uniform(0.2, 1.0), 3), symmulti=None))
    return atoms


def set_multiplicities(atoms, s):
    R = np.rint(np.asarray(s.rot)).astype(int)
    t = np.rint(np.asarray(s.trans, float) * 12) / 12.0
    for a in atoms:
        pts = set()
        for Ri, ti in zip(R, t):
            pts.add(tuple(np.round(np.mod(Ri.dot(a.pos) + ti, 1.0), 6) % 1.0))
        a.symmulti = len(pts)

"""Shared machinery for C05 / C06: cases with an exact integer reciprocal metric, the Coq correspondence file for the
traversal model, and the brute-force search harness."""
import math
import itertools
import numpy as np
from . import driver as D
from . import hklref as HR


def int_metric(rng, csys, choice):
    """integer matrix K conforming to the crystal system; true reciprocal metric = K / S"""
    r = lambda lo, hi: rng.randint(lo, hi)
    if csys == 'cubic':
        k = r(6, 14)
        K = [[k, 0, 0], [0, k, 0], [0, 0, k]]
    elif csys == 'tetragonal':
        k, k3 = r(6, 14), r(5, 16)
        K = [[k, 0, 0], [0, k, 0], [0, 0, k3]]
    elif csys == 'orthorhombic':
        K = [[r(5, 14), 0, 0], [0, r(5, 14), 0], [0, 0, r(5, 14)]]
    elif csys == 'hexagonal' or (csys == 'trigonal' and choice != 'rhombohedral'):
        k, k3 = r(4, 9), r(5, 16)
        K = [[2 * k, k, 0], [k, 2 * k, 0], [0, 0, k3]]
    elif csys == 'trigonal':
        k = r(8, 14)
        m = rng.choice([x for x in range(-3, 5) if x != 0])
        K = [[k, m, m], [m, k, m], [m, m, k]]
    elif csys == 'monoclinic':
        m = rng.choice([0, 0, r(-3, 3)])
        K = [[r(6, 14), 0, m], [0, r(6, 14), 0], [m, 0, r(6, 14)]]
    else:
        while True:
            if rng.random() < 0.35:
                o = [0, 0, 0]
            else:
                o = [r(-3, 3) for _ in range(3)]
            K = [[r(6, 14), o[0], o[1]], [o[0], r(6, 14), o[2]], [o[1], o[2], r(6, 14)]]
            if np.all(np.linalg.eigvalsh(np.array(K, float)) > 2.0):
                break
    return K


def cell_of(K, S):
    Gs = np.array(K, float) / S
    G = np.linalg.inv(Gs)
    a, b, c = (math.sqrt(G[i, i]) for i in range(3))
    al = math.degrees(math.acos(G[1, 2] / b / c))
    be = math.degrees(math.acos(G[0, 2] / a / c))
    ga = math.degrees(math.acos(G[0, 1] / a / b))
    # snap angles that are exactly 90 / 120 in exact arithmetic
    sn = lambda x: 90.0 if abs(x - 90) < 1e-9 else (120.0 if abs(x - 120) < 1e-9 else x)
    return [a, b, c, sn(al), sn(be), sn(ga)]


def directed_metric(rng, csys, choice, kind):
    """integer reciprocal metrics for directed cases (orthogonal / hexagonal-axes systems only):
       'high'    : one short reciprocal axis, so that the shell reaches indices >= 10 along it;
       'neardeg' : nearly equal axes (relative difference ~1e-6), so that inequivalent reflections are separated by < 1e-6 in sin(theta)/lambda"""
    r = lambda lo, hi: rng.randint(lo, hi)
    if kind == 'index256':
        # indices beyond 256 along one axis (a reciprocal axis more than a hundred times shorter than the others), thin shell (see make_directed_case)
        big = r(9000, 14000)
        if csys == 'orthorhombic':
            d = [big, big + r(50, 900), 1]
            rng.shuffle(d)
            return [[d[0], 0, 0], [0, d[1], 0], [0, 0, d[2]]], min(x for x in d if x > 1) + 70000
        if csys == 'tetragonal':
            return [[big, 0, 0], [0, big, 0], [0, 0, 1]], big + 70000
        if csys == 'monoclinic':
            return rng.choice([([[big, 0, 0], [0, 1, 0], [0, 0, big + r(50, 900)]], big + 70000), ([[1, 0, 0], [0, big + r(50, 900), 0], [0, 0, big]], big + 70000)])
        return None, None
    if kind == 'veryhigh':
        # one very short reciprocal axis (c ~ 100 x the others): indices beyond 100 along it while the other two stay at 0, +-1
        big = r(2500, 4000)
        if csys == 'cubic' or csys == 'triclinic':
            return None, None
        if csys in ('hexagonal', 'trigonal') and choice != 'rhombohedral':
            return [[2 * big, big, 0], [big, 2 * big, 0], [0, 0, 1]], 2 * big + 11500
        if csys == 'tetragonal':
            return [[big, 0, 0], [0, big, 0], [0, 0, 1]], big + 11500
        if csys == 'orthorhombic':
            d = [big, big + r(50, 900), 1]
            rng.shuffle(d)
            return [[d[0], 0, 0], [0, d[1], 0], [0, 0, d[2]]], min(x for x in d if x > 1) + 11500
        if csys == 'monoclinic':
            return rng.choice([([[big, 0, 0], [0, 1, 0], [0, 0, big + r(50, 900)]], big + 11500), ([[big, 0, 0], [0, big + r(50, 900), 0], [0, 0, 1]], big + 11500)])
        return None, None
    if kind == 'high':
        if csys == 'cubic':
            return [[1, 0, 0], [0, 1, 0], [0, 0, 1]], 100
        if csys == 'tetragonal':
            return rng.choice([([[12, 0, 0], [0, 12, 0], [0, 0, 1]], 110), ([[1, 0, 0], [0, 1, 0], [0, 0, 9]], 110)])
        if csys == 'orthorhombic':
            d = [r(9, 14), r(9, 14), 1]
            rng.shuffle(d)
            return [[d[0], 0, 0], [0, d[1], 0], [0, 0, d[2]]], 115
        if csys in ('hexagonal', 'trigonal') and choice != 'rhombohedral':
            return rng.choice([([[16, 8, 0], [8, 16, 0], [0, 0, 1]], 125), ([[2, 1, 0], [1, 2, 0], [0, 0, 14]], 150)])
        if csys == 'monoclinic':
            return [[r(9, 14), 0, 0], [0, 1, 0], [0, 0, r(9, 14)]], 115
        return [[r(9, 14), 0, 0], [0, r(9, 14), 0], [0, 0, 1]], 115
    base = 100000 * r(6, 12)
    if csys == 'tetragonal':
        return [[base, 0, 0], [0, base, 0], [0, 0, base + 1]], 9 * base + 5
    if csys == 'orthorhombic':
        return [[base, 0, 0], [0, base + 1, 0], [0, 0, base + 2]], 9 * base + 50
    if csys in ('hexagonal', 'trigonal') and choice != 'rhombohedral':
        return [[2 * base, base, 0], [base, 2 * base, 0], [0, 0, 2 * base + 1]], 14 * base + 5
    return None, None


def make_directed_case(rng, s, kind):
    K, M = directed_metric(rng, s.crystal_system, s.cell_choice, kind)
    if K is None:
        return None
    S = 400.0 if kind == 'high' else (40000.0 if kind == 'veryhigh' else (400000.0 if kind == 'index256' else 400.0 * 100000))
    m = M - 9000 if kind == 'index256' else None
    return dict(K=K, S=S, cell=cell_of(K, S), M=M, m=m, lo=0.0 if m is None else 0.5 * math.sqrt((m + 0.5) / S), hi=0.5 * math.sqrt((M + 0.5) / S), scaled=False, kind=kind)


def call_forms(s, no, ch):
    """the ways a caller can name the setting: by number and setting, by the name the table reports (R...r selects the rhombohedral setting itself),
    and by the plain name together with the setting"""
    plain = s.name[:-1] if (s.cell_choice == 'rhombohedral' and s.name.lower().endswith('r')) else s.name
    padded = ' ' + ' '.join(s.name).swapcase() + '\t'        # the same symbol with blanks between and around its characters and the other letter case
    return [('sgno=%d, cell_choice=%r' % (no, ch), dict(sgno=no, cell_choice=ch)), ('sgname=%r' % s.name, dict(sgname=s.name)),
            ('sgname=%r, cell_choice=%r' % (plain, ch), dict(sgname=plain, cell_choice=ch)), ('sgname=%r' % padded, dict(sgname=padded))]


def plan(k, s, no, ch, case, tools, laue):
    """which (module, call form) pairs a search case is run with: one of each in rotation; both modules for the directed cases; every combination
    for one rhombohedral case in three"""
    forms = call_forms(s, no, ch)
    if s.cell_choice == 'rhombohedral' and k % 3 == 0:
        return [(m, f) for m in (tools, laue) for f in forms]
    if case.get('kind') == 'huge':
        return [((tools, laue)[k % 2], forms[0])]      # one module (they alternate with the seed); the thorough tier's other seeds cover the second
    if case.get('kind'):
        return [(tools, forms[k % 4]), (laue, forms[(k + 1) % 4])]
    return [((tools, laue)[k % 2], forms[(k // 2) % 4])]


def make_case(rng, s):
    K = int_metric(rng, s.crystal_system, s.cell_choice)
    S = 400.0
    cell = cell_of(K, S)
    qs = sorted(set(int(np.array(h).dot(np.array(K)).dot(h)) for h in itertools.product(range(-6, 7), repeat=3) if any(h)))
    M = rng.choice([q for q in qs if 30 <= q <= 110] or qs[-5:])
    m = rng.choice([None, None, rng.choice([q for q in qs if q < M // 2] or [qs[0]])])
    hi = 0.5 * math.sqrt((M + 0.5) / S)
    lo = 0.0 if m is None else 0.5 * math.sqrt((m + 0.5) / S)
    scaled = (s.Laue == '-3' and s.cell_choice == 'rhombohedral')
    if s.cell_choice == 'rhombohedral' and rng.random() < 0.5:
        # larger shells for the rhombohedral traversals (where the 1.1 look-ahead matters)
        big = [q for q in qs if 150 <= q <= 420]
        if big:
            M = rng.choice(big)
            hi = 0.5 * math.sqrt((M + 0.5) / S)
    return dict(K=K, S=S, cell=cell, M=M, m=m, lo=lo, hi=hi, scaled=scaled)


def coq_params(case):
    K = case['K']
    G = 'mkMet %d %d %d %s %s %s' % (200 * K[0][0], 200 * K[1][1], 200 * K[2][2], z(200 * K[0][1]), z(200 * K[0][2]), z(200 * K[1][2]))
    Tmin = 0 if case['m'] is None else 200 * case['m'] + 100
    Tmax = 200 * case['M'] + 100
    Tterm = 242 * case['M'] + 121 if case['scaled'] else Tmax
    return G, Tmin, Tmax, Tterm


def z(v):
    return '(%d)' % v if v < 0 else '%d' % v


def hkl_list(rows):
    return '[' + '; '.join('(%s, %s, %s)' % (z(int(a)), z(int(b)), z(int(c))) for a, b, c in rows) + ']'


def rows_of(arr):
    arr = np.asarray(arr, float)
    if arr.size == 0:
        return []
    out = []
    for r in arr[:, :3]:
        ri = np.rint(r)
        if np.max(np.abs(r - ri)) > 0:
            raise ValueError('non-integer index %r' % (r,))
        out.append(tuple(int(x) for x in ri))
    return out


def correspondence(ctx, which, fname):
    """model (evaluated in Coq) vs tools/laue genhkl_unique and genhkl_all on the same cases; written to gen/<fname>.v"""
    from xfab import sg, tools, laue
    tb = ctx.gen.get('tables')
    if not tb:
        return
    rng = ctx.rng
    sets = tb['settings']
    idx = list(range(len(sets)))
    if ctx.quick:
        idx = sorted(rng.sample(idx, 90) + [i for i, r in enumerate(sets) if r['choice'] == 'rhombohedral'])
    lines = []
    for i in idx:
        r = sets[i]
        ch = 'rhombohedral' if r['choice'] == 'rhombohedral' else 'standard'
        s = sg.sg(sgno=r['no'], cell_choice=ch)
        nrep = ctx.n(1, 3) * (12 if (r['choice'] == 'rhombohedral' and r['laue'] == '-3') else (4 if r['choice'] == 'rhombohedral' else 1))
        cases_i = [make_case(rng, s) for rep in range(nrep)]
        if ch == 'standard' and rng.random() < (0.05 if ctx.quick else 0.2):
            # directed: one short reciprocal axis (indices >= 10) / nearly degenerate axes
            dc = make_directed_case(rng, s, rng.choice(['high', 'neardeg']))
            if dc is not None:
                cases_i.append(dc)
        for rep, case in enumerate(cases_i):
            mod = tools if (i + rep) % 2 == 0 else laue
            G, Tmin, Tmax, Tterm = coq_params(case)
            try:
                if which == 'unique':
                    got = rows_of(mod.genhkl_unique(case['cell'], case['lo'], case['hi'], sgno=r['no'], cell_choice=ch))
                    fn = 'base_model'
                else:
                    got = rows_of(mod.genhkl_all(case['cell'], case['lo'], case['hi'], sgno=r['no'], cell_choice=ch))
                    fn = 'all_model'
            except Exception as e:
                ctx.broken.append(D.Broken('correspondence', 'genhkl_%s raised %s on sgno %d' % (which, type(e).__name__, r['no']), repr(case)))
                continue
            # the same rows as a multiset, and - in the order the implementation returned them - the same sequence of sort keys q(h) as the model's sorted rows
            lines.append('(let m := %s ast_laue_sysabs segm_laue 80 (%s) %s %s %s (nth %d all_settings dflt) in same m %s && keyseq_ok (%s) m %s)' % (
                fn, G, z(Tmin), z(Tmax), z(Tterm), i, hkl_list(sorted(got)), G, hkl_list(got)))
            ctx.count(('corr', which, i, rep), hist='corr:%s:%s%s' % (which, r['csys'], (':' + case['kind']) if case.get('kind') else ''),
                      sample={'sgno': r['no'], 'cell_choice': ch, 'cell': case['cell'], 'sintlmin': case['lo'], 'sintlmax': case['hi'], 'rows': len(got)} if len(lines) == 1 else None)
            ctx.cov['disagreements_checked'] += 1
    text = ('(* GENERATED on every run: the traversal model evaluated in Coq against genhkl_%s *)\n'
            'From Coq Require Import ZArith List Bool String.\nFrom XV Require Import SGroup HklModel Traverse HklSort Tab_segm Ast_laue Tab_sg_all.\nImport ListNotations.\nOpen Scope Z_scope.\n'
            'Definition dflt : sgrec := mkSg 0 EmptyString EmptyString EmptyString EmptyString 0 0 [] [] [].\n'
            'Definition hle (a b : hkl) : bool := let \'(x, y, z) := a in let \'(x\', y\', z\') := b in\n'
            '  (x <? x\') || ((x =? x\') && ((y <? y\') || ((y =? y\') && (z <=? z\')))).\n'
            'Fixpoint ins (a : hkl) (l : list hkl) : list hkl := match l with [] => [a] | b :: r => if hle a b then a :: l else b :: ins a r end.\n'
            'Definition sort (l : list hkl) : list hkl := fold_right ins [] l.\n'
            '(* equal as multisets (the implementation\'s rows are given sorted) *)\n'
            'Definition same (m : option (list hkl)) (e : list hkl) : bool := match m with Some l => list_eqb hkl_eqb (sort l) e | None => false end.\n'
            'Goal forallb (fun b => b) [\n%s\n] = true.\nProof. vm_compute. reflexivity. Qed.\n' % (which, ';\n'.join(lines)))
    D.write_if_changed(D.GEN + '/%s.v' % fname, text)


# ---- search: the property stated against the implementation with a brute-force oracle ---------------------------------
def search_cases(ctx):
    from xfab import sg
    rng = ctx.rng
    out = []
    for no in range(1, 231):
        for ch in ('standard', 'rhombohedral'):
            s = sg.sg(sgno=no, cell_choice=ch)
            if ch == 'rhombohedral' and s.cell_choice != 'rhombohedral':
                continue
            if ctx.quick and not ctx.broken and rng.random() < 0.6 and s.cell_choice != 'rhombohedral' and no > 15 and no not in (146, 148):
                continue
            for rep in range(ctx.n(1, 3) + (2 if no <= 15 else 0) + (2 if ctx.broken else 0) + (6 if s.cell_choice == 'rhombohedral' else 0)):
                out.append((no, ch, s, make_case(rng, s)))
    # directed cases: high indices (>= 10 along one axis) and nearly degenerate axes, one group per crystal system in the quick tier
    by_sys = {}
    for no in range(1, 231):
        s = sg.sg(sgno=no)
        if s.cell_choice != 'rhombohedral':
            by_sys.setdefault(s.crystal_system, []).append((no, s))
    for csys, lst in sorted(by_sys.items()):
        picks = lst if (ctx.broken or not ctx.quick) and len(lst) <= 80 else rng.sample(lst, min(len(lst), 2 if ctx.quick else 12))
        for no, s in picks:
            for kind in ('high', 'neardeg', 'veryhigh', 'index256'):
                c = make_directed_case(rng, s, kind)
                if c is not None:
                    out.append((no, 'standard', s, c))
    # one very large reflection list (more than 65536 rows in the asymmetric unit, more than 131072 in all): P-1 with an orthogonal metric
    s2 = sg.sg(sgno=2)
    a, b, c = round(rng.uniform(32.5, 33.5), 3), round(rng.uniform(33.6, 34.6), 3), round(rng.uniform(34.7, 35.7), 3)
    hi = 0.5
    for _ in range(50):
        # keep the bound 1e-7 (relative) away from every axial and low-order reflection's sin(theta)/lambda; a generic cell has no other lattice point that close
        stl = [0.5 * math.sqrt((h / a) ** 2 + (k / b) ** 2 + (l / c) ** 2) for h in range(0, 36) for k in range(0, 37) for l in range(0, 38)]
        if min(abs(x - hi) for x in stl) > 1e-7 * hi:
            break
        hi -= 1.37e-5
    out.append((2, 'standard', s2, dict(K=[[1, 0, 0], [0, 1, 0], [0, 0, 1]], S=1.0, cell=[a, b, c, 90.0, 90.0, 90.0], M=None, m=None, lo=0.0, hi=hi, scaled=False, kind='huge')))
    if ctx.broken or not ctx.quick:
        # directed sweep: Laue -3 on rhombohedral axes (the only place where the 1.1 look-ahead factor acts), acute cells, large shells
        for no in (146, 148):
            s = sg.sg(sgno=no, cell_choice='rhombohedral')
            for rep in range(60 if ctx.broken else 20):
                k = rng.randint(8, 14)
                m = rng.randint(-3, -1)          # negative reciprocal off-diagonal = acute direct angle
                K = [[k, m, m], [m, k, m], [m, m, k]]
                S = 400.0
                cell = cell_of(K, S)
                qs = sorted(set(int(np.array(h).dot(np.array(K)).dot(h)) for h in itertools.product(range(-7, 8), repeat=3) if any(h)))
                M = rng.choice([q for q in qs if 200 <= q <= 500])
                out.append((no, 'rhombohedral', s, dict(K=K, S=S, cell=cell, M=M, m=None, lo=0.0, hi=0.5 * math.sqrt((M + 0.5) / S), scaled=True)))
    return out


def oblique(case):
    K = case['K']
    return any(K[i][j] != 0 for i in range(3) for j in range(3) if i != j)


def sysabs_box_mismatches(H=4):
    """directed search used when the sysabs obligation is broken: python sysabs vs extinction by the operators on a box"""
    from xfab import sg, tools
    out = []
    rngb = range(-H, H + 1)
    for no in range(1, 231):
        for ch in ('standard', 'rhombohedral'):
            s = sg.sg(sgno=no, cell_choice=ch)
            if ch == 'rhombohedral' and s.cell_choice != 'rhombohedral':
                continue
            R, t = HR.ops_int(s)
            Rl = [tuple(map(int, r.reshape(-1))) for r in R]
            tl = [tuple(map(int, x)) for x in t]
            sc = [int(x) for x in s.syscond]
            for h in itertools.product(rngb, repeat=3):
                if not any(h):
                    continue
                ext = False
                for r, tt in zip(Rl, tl):
                    g = (h[0] * r[0] + h[1] * r[3] + h[2] * r[6], h[0] * r[1] + h[1] * r[4] + h[2] * r[7], h[0] * r[2] + h[1] * r[5] + h[2] * r[8])
                    if g == h and (h[0] * tt[0] + h[1] * tt[1] + h[2] * tt[2]) % 12:
                        ext = True
                        break
                absent = tools.sysabs(list(h), sc, s.crystal_system, s.cell_choice) != 0
                if absent and not ext:
                    out.append((no, ch, h, 'absent by sysabs but not extinguished by any operation'))
                    break
                # the converse only has to hold for the representative the traversal visits; it is checked through genhkl_all below
    return out


def boundary_cases(ctx):
    """directed cases for 'sintlmin exclusive, sintlmax inclusive': the bound is the module's own sintl of a point h0 of the traversal's cone
       (the very point the code evaluates, so the two floats are bit-identical); monotone systems only, where the clean tree is complete"""
    from xfab import sg
    from . import tables
    rng = ctx.rng
    tabs, _ = tables.extract_segm('laue')
    segs_of = {}
    for laue, rh, segs in tabs:
        if rh is not True:
            segs_of[laue] = segs
    out = []
    cand = [no for no in range(16, 231) if no not in range(143, 168)]
    for no in (cand if (ctx.broken or not ctx.quick) else rng.sample(cand, 24)):
        s = sg.sg(sgno=no)
        if s.Laue not in ('mmm', '4/mmm', '4/m', 'm-3m', 'm-3', '6/mmm', '6/m'):
            continue
        K = int_metric(rng, s.crystal_system, s.cell_choice)
        cell = cell_of(K, 400.0)
        R, t = HR.ops_int(s)
        for _try in range(30):
            seg = rng.choice(segs_of[s.Laue])
            c0, d1, d2, d3 = [np.array(v) for v in seg]
            h0 = tuple(int(x) for x in (c0 + rng.randint(0, 3) * d1 + rng.randint(0, 3) * d2 + rng.randint(0, 3) * d3))
            if any(h0) and not HR.extinct(h0, R, t):
                out.append((no, s, K, cell, h0))
                break
    return out

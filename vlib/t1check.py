"""Validation of the T1 translator on this run: (1) the traced DAG evaluated in double precision against the
real function run with the real numpy on the same inputs; (2) a sample of those cases re-evaluated INSIDE Coq on
the emitted text with certified interval arithmetic (Corr_*.v, tactic `interval`)."""
import os
import math
import numpy as np
from fractions import Fraction
from . import sym as S
from . import driver as D


def _tolist(v):
    if isinstance(v, tuple):
        return [_tolist(x) for x in v]
    return np.asarray(v, dtype=float).reshape(-1).tolist()


def numeric(ctx, mt, key, args_list, label=None, rtol=1e-9, atol=1e-11):
    """mt: ModuleTracer; key: traced function key; args_list: list of python argument tuples.
    Returns list of (args, impl_value) for the cases where both sides produced a value."""
    import xfab
    tr = mt.traced[key]
    f = mt.orig.get(tr.pyname) or getattr(mt.mod, tr.pyname)
    out = []
    old = xfab.CHECKS._run_checks
    xfab.CHECKS._run_checks = False
    try:
        for args in args_list:
            kw = dict(tr.fixed)
            for pn, a in zip(tr.pynames, args):
                kw[pn] = a
            try:
                impl = ('ok', f(**kw))
            except (ValueError, AssertionError, ZeroDivisionError) as e:
                impl = ('err', type(e).__name__)
            margs = [np.asarray(a, dtype=float) if not np.isscalar(a) else float(a) for a in args]
            try:
                model = mt.eval_model(key, *margs)
            except (ValueError, ZeroDivisionError) as e:   # math domain error inside the model evaluation
                model = ('err', 'model:' + type(e).__name__)
            ctx.count((mt.modname, key, repr(args)), sample={'fn': '%s.%s' % (mt.modname, tr.pyname), 'args': _jsonable(args)} if len(out) < 1 else None,
                      hist='T1:%s' % key)
            ctx.cov['disagreements_checked'] += 1
            if impl[0] != model[0]:
                ctx.broken.append(D.Broken('correspondence', 'T1 model of %s.%s disagrees on error behaviour' % (mt.modname, tr.pyname),
                                           'args=%r impl=%r model=%r' % (args, impl, model)))
                continue
            if impl[0] == 'err':
                continue
            a, b = _tolist(impl[1]), _tolist(model[1])
            if not _close(a, b, rtol, atol):
                ctx.broken.append(D.Broken('correspondence', 'T1 model of %s.%s disagrees numerically' % (mt.modname, tr.pyname),
                                           'args=%r impl=%r model=%r' % (args, a, b)))
                continue
            out.append((args, impl[1]))
    finally:
        xfab.CHECKS._run_checks = old
    return out


def _close(a, b, rtol, atol):
    if isinstance(a, list) and a and isinstance(a[0], list):
        return len(a) == len(b) and all(_close(x, y, rtol, atol) for x, y in zip(a, b))
    a, b = np.asarray(a, dtype=float), np.asarray(b, dtype=float)
    if a.shape != b.shape:
        return False
    return bool(np.all(np.abs(a - b) <= atol + rtol * np.maximum(np.abs(a), np.abs(b))))


def _jsonable(x):
    if isinstance(x, (tuple, list)):
        return [_jsonable(y) for y in x]
    if isinstance(x, np.ndarray):
        return x.tolist()
    if isinstance(x, (np.floating, np.integer)):
        return x.item()
    return x


# ---- in-Coq evaluation ---------------------------------------------------------------------------
def q(x):
    """python float/int -> exact Coq rational literal (decimal repr semantics as in the tracer)"""
    fr = Fraction(repr(float(x))) if not isinstance(x, int) else Fraction(x)
    return S.q_to_coq(fr)


def coq_value(a, ty):
    if ty == 'R':
        return q(a)
    flat = np.asarray(a, dtype=float).reshape(-1)
    return '(%s %s)' % (S.MK[ty], ' '.join(q(v) for v in flat))


def interval_goals(mt, key, cases, eps=1e-9, maxgoals=6):
    """cases: [(args, impl_value)] -> list of Coq Goal texts bounding |gen_f args - impl| component-wise"""
    tr = mt.traced[key]
    goals = []
    for args, val in cases:
        call = '(%s %s)' % (tr.coqname, ' '.join(coq_value(a, t) for a, t in zip(args, tr.argtys)))
        tys = tr.outty if isinstance(tr.outty, tuple) else (tr.outty,)
        vals = val if isinstance(tr.outty, tuple) else (val,)
        if len(tys) != 1 or tr.partial or tys[0] == 'LR':
            continue
        ty = tys[0]
        flat = np.asarray(vals[0], dtype=float).reshape(-1)
        for i, v in enumerate(flat):
            term = call if ty == 'R' else '(%s %s)' % (S.PROJ[ty][i], call)
            bound = float(max(eps, eps * abs(float(v))))
            goals.append('Goal Rabs (%s - %s) <= %s.\nProof. %s interval with (i_prec 90). Qed.\n'
                         % (term, q(float(v)), S.q_to_coq(Fraction(repr(bound))), '%UNFOLD%'))
            if len(goals) >= maxgoals:
                return goals
    return goals

"""T1 - symbolic tracer.

The real xfab function is executed by CPython and the real numpy on object-dtype arrays whose
elements are `Sym` nodes (hash-consed expression DAG).  Comparisons on a Sym are branch points:
the function is re-run depth-first over an explicit decision stack and the result is a decision
tree  If(cond, t, f) | Match(call, some, none) | Leaf(value) | Err(kind).

Everything the tracer does not understand raises TraceRefused -> the run fails closed.
"""
from fractions import Fraction
import builtins
import math
import numpy as _np


class TraceRefused(Exception):
    pass


class _Abort(Exception):
    """internal: a partial callee 'raised' on this path"""


_INTERN = {}
_COUNTER = [0]


def _key(a):
    if isinstance(a, Sym):
        return ('s', a.id)
    return ('c', a)


class Sym(object):
    __slots__ = ('op', 'args', 'id')

    def __new__(cls, op, *args):
        k = (op,) + tuple(_key(a) for a in args)
        s = _INTERN.get(k)
        if s is None:
            s = object.__new__(cls)
            s.op = op
            s.args = args
            _COUNTER[0] += 1
            s.id = _COUNTER[0]
            _INTERN[k] = s
        return s

    # ---- arithmetic ---------------------------------------------------------------------
    def __add__(self, o):
        if isinstance(o, _np.ndarray):
            return NotImplemented
        return add(self, lift(o))

    def __radd__(self, o):
        return add(lift(o), self)

    def __sub__(self, o):
        if isinstance(o, _np.ndarray):
            return NotImplemented
        return sub(self, lift(o))

    def __rsub__(self, o):
        return sub(lift(o), self)

    def __mul__(self, o):
        if isinstance(o, _np.ndarray):
            return NotImplemented
        return mul(self, lift(o))

    def __rmul__(self, o):
        return mul(lift(o), self)

    def __truediv__(self, o):
        if isinstance(o, _np.ndarray):
            return NotImplemented
        return div(self, lift(o))

    def __rtruediv__(self, o):
        return div(lift(o), self)

    def __neg__(self):
        return neg(self)

    def __pos__(self):
        return self

    def __abs__(self):
        return fn('Rabs', self)

    def __pow__(self, e):
        if isinstance(e, Sym) and e.op == 'const':
            e = e.args[0]
        if isinstance(e, (_np.integer,)):
            e = int(e)
        if isinstance(e, float) and e == int(e):
            e = int(e)
        if isinstance(e, Fraction) and e.denominator == 1:
            e = int(e)
        if not isinstance(e, int) or e < 0:
            raise TraceRefused('unsupported exponent %r' % (e,))
        if self.op == 'const':
            return const(self.args[0] ** e)
        if e == 0:
            return const(1)
        if e == 1:
            return self
        return Sym('pow', self, e)

    def __rpow__(self, b):
        raise TraceRefused('Sym exponent')

    # ---- methods numpy's object loops call ------------------------------------------------
    def cos(self):
        return fn('cos', self)

    def sin(self):
        return fn('sin', self)

    def sqrt(self):
        return fn('sqrt', self)

    def arccos(self):
        return fn('acos', self)

    def arcsin(self):
        return fn('asin', self)

    def arctan(self):
        return fn('atan', self)

    def exp(self):
        return fn('exp', self)

    def arctan2(self, x):
        return Sym('atan2', self, lift(x))

    def conjugate(self):
        return self

    # ---- comparisons: branch points ---------------------------------------------------------
    def __lt__(self, o):
        return Cond('lt', self, lift(o))

    def __le__(self, o):
        return Cond('le', self, lift(o))

    def __gt__(self, o):
        return Cond('lt', lift(o), self)

    def __ge__(self, o):
        return Cond('le', lift(o), self)

    def __eq__(self, o):
        if not isinstance(o, (Sym, int, float, Fraction, _np.number)):
            return NotImplemented
        return Cond('eq', self, lift(o))

    def __ne__(self, o):
        if not isinstance(o, (Sym, int, float, Fraction, _np.number)):
            return NotImplemented
        return Cond('ne', self, lift(o))

    def __hash__(self):
        return self.id

    def __float__(self):
        raise TraceRefused('float(Sym)')

    def __int__(self):
        raise TraceRefused('int(Sym)')

    def __index__(self):
        raise TraceRefused('Sym used as index')

    def __bool__(self):
        raise TraceRefused('truth value of Sym')

    def __repr__(self):
        return 'Sym<%s>' % to_coq(self)


def const(q):
    return Sym('const', Fraction(q))


PI = Sym('PI')


def lift(x):
    if isinstance(x, Sym):
        return x
    if hasattr(x, '_sym'):
        return x._sym
    if isinstance(x, bool):
        raise TraceRefused('bool in arithmetic')
    if isinstance(x, (int, _np.integer)):
        return const(int(x))
    if isinstance(x, Fraction):
        return const(x)
    if isinstance(x, (float, _np.floating)):
        x = float(x)
        if x != x or x in (float('inf'), float('-inf')):
            raise TraceRefused('non-finite float')
        return const(Fraction(repr(x)))  # decimal literal semantics: 1e-8 -> 1/10^8
    if isinstance(x, _np.ndarray) and x.shape == ():
        return lift(x.item())
    raise TraceRefused('cannot lift %r' % (type(x),))


def isc(s):
    return s.op == 'const'


def add(a, b):
    if isc(a) and isc(b):
        return const(a.args[0] + b.args[0])
    if isc(a) and a.args[0] == 0:
        return b
    if isc(b) and b.args[0] == 0:
        return a
    if b.op == 'neg':
        return sub(a, b.args[0])
    return Sym('add', a, b)


def sub(a, b):
    if isc(a) and isc(b):
        return const(a.args[0] - b.args[0])
    if isc(b) and b.args[0] == 0:
        return a
    if isc(a) and a.args[0] == 0:
        return neg(b)
    if b.op == 'neg':
        return add(a, b.args[0])
    return Sym('sub', a, b)


def neg(a):
    if isc(a):
        return const(-a.args[0])
    if a.op == 'neg':
        return a.args[0]
    return Sym('neg', a)


def mul(a, b):
    if isc(a) and isc(b):
        return const(a.args[0] * b.args[0])
    for x, y in ((a, b), (b, a)):
        if isc(x):
            if x.args[0] == 0:
                return const(0)
            if x.args[0] == 1:
                return y
            if x.args[0] == -1:
                return neg(y)
    return Sym('mul', a, b)


def div(a, b):
    if isc(b):
        if b.args[0] == 0:
            raise TraceRefused('division by literal zero')
        if isc(a):
            return const(a.args[0] / b.args[0])
        if b.args[0] == 1:
            return a
    if isc(a) and a.args[0] == 0:
        return const(0)
    return Sym('div', a, b)


def fn(name, a):
    a = lift(a)
    if isc(a):
        v = a.args[0]
        if name in ('cos', 'exp') and v == 0:
            return const(1)
        if name in ('sin', 'sqrt', 'atan', 'asin') and v == 0:
            return const(0)
        if name == 'sqrt' and v == 1:
            return const(1)
        if name == 'Rabs':
            return const(abs(v))
    return Sym(name, a)


# ---- structured values -----------------------------------------------------------------------
# types: 'R', 'V2', 'V3', 'V6', 'M3', 'LR' (list R), tuple of types
NCOMP = {'R': 1, 'V2': 2, 'V3': 3, 'V6': 6, 'M3': 9}
MK = {'V2': 'mkV2', 'V3': 'mkV3', 'V6': 'mkV6', 'M3': 'mkM3'}
PROJ = {'V2': ['p0', 'p1'],
        'V3': ['vx', 'vy', 'vz'],
        'V6': ['c0', 'c1', 'c2', 'c3', 'c4', 'c5'],
        'M3': ['m00', 'm01', 'm02', 'm10', 'm11', 'm12', 'm20', 'm21', 'm22']}


def input_value(name, ty):
    """python value (Sym / object ndarray) standing for the Coq variable `name : ty`"""
    if ty == 'R':
        return Sym('var', name)
    comps = [Sym('proj', Sym('var', name), ty, i) for i in range(NCOMP[ty])]
    return pack(comps, ty)


def pack(comps, ty):
    if ty == 'R':
        return comps[0]
    a = _np.empty(NCOMP[ty], dtype=object)
    for i, c in enumerate(comps):
        a[i] = c
    if ty == 'M3':
        a = a.reshape(3, 3)
    return a


def flatten(val, ty):
    """python value -> list of Sym components according to type ty"""
    if ty == 'R':
        if isinstance(val, _np.ndarray):
            if val.size != 1:
                raise TraceRefused('expected scalar, got shape %r' % (val.shape,))
            val = val.reshape(-1)[0]
        return [lift(val)]
    if ty == 'LR':
        arr = _np.asarray(val, dtype=object).reshape(-1)
        return [lift(x) for x in arr]
    arr = _np.asarray(val, dtype=object)
    if arr.size != NCOMP[ty]:
        raise TraceRefused('expected %s, got shape %r' % (ty, arr.shape))
    if ty == 'M3' and arr.shape != (3, 3):
        raise TraceRefused('expected 3x3, got %r' % (arr.shape,))
    return [lift(x) for x in arr.reshape(-1)]


def has_sym(v):
    if isinstance(v, Sym):
        return True
    if isinstance(v, _np.ndarray):
        if v.dtype != object:
            return False
        return any(isinstance(x, Sym) for x in v.reshape(-1))
    if isinstance(v, (list, tuple)):
        return any(has_sym(x) for x in v)
    return False


# ---- conditions and the decision stack ---------------------------------------------------------
def _pkey(payload):
    return tuple((x.id if isinstance(x, Sym) else x) for x in payload)


class Tracer(object):
    current = None

    def __init__(self):
        self.preset = []     # decisions to replay
        self.taken = []      # [(kind, payload, decision)]

    def decide(self, kind, payload):
        # re-use an earlier decision on the same atom
        pk = _pkey(payload)
        for (k, p, d) in self.taken:
            if k == kind and _pkey(p) == pk:
                return d
        i = len(self.taken)
        d = self.preset[i] if i < len(self.preset) else True
        self.taken.append((kind, payload, d))
        if len(self.taken) > 60:
            raise TraceRefused('too many branch points on one path')
        return d


class Cond(object):
    __slots__ = ('rel', 'a', 'b')

    def __init__(self, rel, a, b):
        self.rel, self.a, self.b = rel, a, b

    def __bool__(self):
        a, b, rel = self.a, self.b, self.rel
        if isc(a) and isc(b):
            x, y = a.args[0], b.args[0]
            return {'lt': x < y, 'le': x <= y, 'eq': x == y, 'ne': x != y}[rel]
        t = Tracer.current
        if t is None:
            raise TraceRefused('comparison on Sym outside a trace')
        if rel == 'ne':
            return not t.decide('cond', ('eq', a, b))
        return t.decide('cond', (rel, a, b))

    def __and__(self, o):
        return bool(self) and bool(o)

    def __or__(self, o):
        return bool(self) or bool(o)

    def __invert__(self):
        return not bool(self)


# ---- decision trees --------------------------------------------------------------------------------
class Leaf(object):
    def __init__(self, comps):
        self.comps = comps   # nested: list of (ty, [Sym]) per output


class Err(object):
    def __init__(self, kind):
        self.kind = kind


class If(object):
    def __init__(self, cond, t, f):
        self.cond, self.t, self.f = cond, t, f


class Match(object):
    def __init__(self, call, some, none):
        self.call, self.some, self.none = call, some, none


def explore(run):
    """run() executes the function once under Tracer.current; returns Leaf/Err.
    Returns (tree, paths)"""
    paths = []
    preset = []
    while True:
        t = Tracer()
        t.preset = list(preset)
        Tracer.current = t
        try:
            try:
                res = run()
            except _Abort as e:
                res = Err('callee:' + str(e))
        finally:
            Tracer.current = None
        paths.append((list(t.taken), res))
        if len(paths) > 400:
            raise TraceRefused('too many paths')
        # backtrack
        dec = [d for (_, _, d) in t.taken]
        while dec and dec[-1] is False:
            dec.pop()
        if not dec:
            break
        dec[-1] = False
        preset = dec
    return build_tree(paths, 0), paths


def build_tree(paths, depth):
    if len(paths) == 1 and len(paths[0][0]) == depth:
        return paths[0][1]
    kind, payload, _ = paths[0][0][depth]
    for p in paths:
        if len(p[0]) <= depth or p[0][depth][0] != kind or _pkey(p[0][depth][1]) != _pkey(payload):
            raise TraceRefused('inconsistent decision tree')
    yes = [p for p in paths if p[0][depth][2]]
    no = [p for p in paths if not p[0][depth][2]]
    ty = build_tree(yes, depth + 1) if yes else Err('unreachable')
    tn = build_tree(no, depth + 1) if no else Err('unreachable')
    if kind == 'cond':
        return If(payload, ty, tn)
    return Match(payload, ty, tn)


# ---- Coq printing -----------------------------------------------------------------------------------
def q_to_coq(q):
    q = Fraction(q)
    if q < 0:
        return '(- %s)' % q_to_coq(-q)
    if q.denominator == 1:
        return '%d' % q.numerator
    return '(%d / %d)' % (q.numerator, q.denominator)


BIN = {'add': '+', 'sub': '-', 'mul': '*', 'div': '/'}


def to_coq(s, names=None):
    """expression -> Coq term (over R).  names: dict id -> let-bound name"""
    memo = {}

    def go(x):
        if names is not None and x.id in names:
            return names[x.id]
        r = memo.get(x.id)
        if r is None:
            r = memo[x.id] = go1(x)
        return r

    def go1(x):
        op = x.op
        if op == 'const':
            return q_to_coq(x.args[0])
        if op == 'PI':
            return 'PI'
        if op == 'var':
            return x.args[0]
        if op == 'proj':
            base, ty, i = x.args
            return '(%s %s)' % (PROJ[ty][i], go(base))
        if op in BIN:
            return '(%s %s %s)' % (go(x.args[0]), BIN[op], go(x.args[1]))
        if op == 'neg':
            return '(- %s)' % go(x.args[0])
        if op == 'pow':
            return '(%s ^ %d)' % (go(x.args[0]), x.args[1])
        if op == 'atan2':
            return '(atan2 %s %s)' % (go(x.args[0]), go(x.args[1]))
        if op in ('cos', 'sin', 'sqrt', 'acos', 'asin', 'atan', 'exp', 'Rabs'):
            return '(%s %s)' % (op, go(x.args[0]))
        if op == 'struct':        # struct(ty, comps...)
            ty = x.args[0]
            comps = x.args[1:]
            whole = whole_var(comps, ty)
            if whole is not None:
                return go(whole)
            return '(%s %s)' % (MK[ty], ' '.join(go(c) for c in comps))
        if op == 'call':          # call(fname, args...) ; args are struct/scalar Sym
            return '(%s %s)' % (x.args[0], ' '.join(go(a) for a in x.args[1:]))
        if op == 'tproj':         # tuple projection tproj(base, k, n)
            base, k, n = x.args
            t = go(base)
            for _ in range(n - 1 - k):
                t = '(fst %s)' % t
            if k > 0:
                t = '(snd %s)' % t
            return t
        if op == 'optval':        # value of a successful partial call, bound by a match
            return x.args[0]
        raise TraceRefused('cannot print op %s' % op)

    return go(s)


def whole_var(comps, ty):
    """if comps are exactly the projections 0..n-1 of one value of type ty return that value"""
    base = None
    for i, c in enumerate(comps):
        if c.op != 'proj' or c.args[1] != ty or c.args[2] != i:
            return None
        if base is None:
            base = c.args[0]
        elif base is not c.args[0]:
            return None
    return base


def struct(ty, comps):
    if ty == 'R':
        return comps[0]
    return Sym('struct', ty, *comps)


def cond_to_coq(c, names=None):
    rel, a, b = c
    A, B = to_coq(a, names), to_coq(b, names)
    if rel == 'lt':
        return 'Rlt_dec %s %s' % (A, B)
    if rel == 'le':
        return 'Rle_dec %s %s' % (A, B)
    if rel == 'eq':
        return 'Req_EM_T %s %s' % (A, B)
    raise TraceRefused(rel)


def coq_type(ty, partial=False):
    if isinstance(ty, tuple):
        s = '(' + ' * '.join(coq_type(t) for t in ty) + ')'
    elif ty == 'LR':
        s = '(list R)'
    else:
        s = ty
    return 'option ' + s if partial else s


def leaf_to_coq(leaf, ty, names=None):
    def one(t, comps):
        if t == 'R':
            return to_coq(comps[0], names)
        if t == 'LR':
            return '[' + '; '.join(to_coq(c, names) for c in comps) + ']'
        return to_coq(struct(t, comps), names)
    if isinstance(ty, tuple):
        return '(' + ', '.join(one(t, c) for t, c in zip(ty, leaf.comps)) + ')'
    return one(ty, leaf.comps[0])


def tree_has_err(tree):
    if isinstance(tree, Err):
        return True
    if isinstance(tree, Leaf):
        return False
    if isinstance(tree, If):
        return tree_has_err(tree.t) or tree_has_err(tree.f)
    return True  # Match => partial


def _tree_syms(tree, acc):
    if isinstance(tree, Leaf):
        for comps in tree.comps:
            acc.extend(comps)
    elif isinstance(tree, If):
        acc.append(tree.cond[1])
        acc.append(tree.cond[2])
        _tree_syms(tree.t, acc)
        _tree_syms(tree.f, acc)
    elif isinstance(tree, Match):
        acc.append(tree.call[0])
        _tree_syms(tree.some, acc)
        _tree_syms(tree.none, acc)


_TRIVIAL = ('const', 'PI', 'var', 'proj', 'optval', 'tproj')


def shared_nodes(tree):
    """nodes referenced more than once (by distinct parents or roots), worth a let"""
    roots = []
    _tree_syms(tree, roots)
    refs = {}
    nodes = {}
    hasopt = {}
    sizes = {}

    def visit(x):
        if x.id in nodes:
            return
        nodes[x.id] = x
        ho = x.op == 'optval'
        sz = 1
        for a in x.args:
            if isinstance(a, Sym):
                visit(a)
                refs[a.id] = refs.get(a.id, 0) + 1
                ho = ho or hasopt[a.id]
                sz += sizes[a.id]
        hasopt[x.id] = ho
        sizes[x.id] = sz
    for r in roots:
        visit(r)
        refs[r.id] = refs.get(r.id, 0) + 1
    out = [nodes[i] for i in sorted(nodes) if refs.get(i, 0) >= 2 and nodes[i].op not in _TRIVIAL
           and not hasopt[i] and sizes[i] >= 4
           and not (nodes[i].op == 'struct' and whole_var(nodes[i].args[1:], nodes[i].args[0]) is not None)]
    return out


def def_body_to_coq(tree, ty, partial):
    shared = shared_nodes(tree)
    names = {}
    lines = []
    for k, node in enumerate(shared):
        # print the node itself with the names bound so far
        txt = to_coq(node, names)
        names[node.id] = 't%d' % (k + 1)
        lines.append('  let t%d := %s in' % (k + 1, txt))
    return '\n'.join(lines + [tree_to_coq(tree, ty, partial, '  ', names)])


def tree_to_coq(tree, ty, partial, ind='  ', names=None):
    if isinstance(tree, Leaf):
        s = leaf_to_coq(tree, ty, names)
        return ind + ('Some ' + s if partial else s)
    if isinstance(tree, Err):
        if not partial:
            raise TraceRefused('Err in total function')
        return ind + 'None (* %s *)' % tree.kind
    if isinstance(tree, If):
        return (ind + 'if %s then\n' % cond_to_coq(tree.cond, names)
                + tree_to_coq(tree.t, ty, partial, ind + '  ', names)
                + '\n' + ind + 'else\n' + tree_to_coq(tree.f, ty, partial, ind + '  ', names))
    if isinstance(tree, Match):
        call, var = tree.call
        return (ind + 'match %s with\n' % to_coq(call, names) + ind + '| Some %s =>\n' % var
                + tree_to_coq(tree.some, ty, partial, ind + '    ', names) + '\n' + ind + '| None =>\n'
                + tree_to_coq(tree.none, ty, partial, ind + '    ', names) + '\n' + ind + 'end')
    raise TraceRefused('bad tree')


# ---- numeric evaluation of trees (translator validation) --------------------------------------------
def _atan2(y, x):
    return math.atan2(y, x)


def eval_sym(s, env, callenv, memo=None):
    if memo is None:
        memo = {}

    def go(x):
        r = memo.get(x.id)
        if r is None:
            r = memo[x.id] = go1(x)
        return r

    def go1(x):
        op = x.op
        if op == 'const':
            return float(x.args[0])
        if op == 'PI':
            return math.pi
        if op == 'var':
            return env[x.args[0]]
        if op == 'optval':
            return env[x.args[0]]
        if op == 'proj':
            base, ty, i = x.args
            v = go(base)
            return _np.asarray(v, dtype=float).reshape(-1)[i]
        if op == 'add':
            return go(x.args[0]) + go(x.args[1])
        if op == 'sub':
            return go(x.args[0]) - go(x.args[1])
        if op == 'mul':
            return go(x.args[0]) * go(x.args[1])
        if op == 'div':
            return go(x.args[0]) / go(x.args[1])
        if op == 'neg':
            return -go(x.args[0])
        if op == 'pow':
            return go(x.args[0]) ** x.args[1]
        if op == 'atan2':
            return math.atan2(go(x.args[0]), go(x.args[1]))
        if op == 'Rabs':
            return abs(go(x.args[0]))
        if op in ('cos', 'sin', 'sqrt', 'acos', 'asin', 'atan', 'exp'):
            v = go(x.args[0])
            if op in ('acos', 'asin'):
                v = max(-1.0, min(1.0, v)) if abs(v) < 1 + 1e-9 else v
            return getattr(math, op)(v)
        if op == 'struct':
            ty = x.args[0]
            a = _np.array([go(c) for c in x.args[1:]], dtype=float)
            return a.reshape(3, 3) if ty == 'M3' else a
        if op == 'call':
            return callenv[x.args[0]](*[go(a) for a in x.args[1:]])
        if op == 'tproj':
            base, k, n = x.args
            return go(base)[k]
        raise TraceRefused('eval op %s' % op)

    return go(s)


def eval_cond(c, env, callenv):
    rel, a, b = c
    x, y = eval_sym(a, env, callenv), eval_sym(b, env, callenv)
    return {'lt': x < y, 'le': x <= y, 'eq': x == y}[rel]


def eval_tree(tree, ty, env, callenv):
    """returns ('ok', value) or ('err', kind)"""
    while True:
        if isinstance(tree, Leaf):
            outs = []
            tys = ty if isinstance(ty, tuple) else (ty,)
            for t, comps in zip(tys, tree.comps):
                vals = [eval_sym(c, env, callenv) for c in comps]
                if t == 'R':
                    outs.append(vals[0])
                elif t == 'M3':
                    outs.append(_np.array(vals, dtype=float).reshape(3, 3))
                else:
                    outs.append(_np.array(vals, dtype=float))
            return ('ok', tuple(outs) if isinstance(ty, tuple) else outs[0])
        if isinstance(tree, Err):
            return ('err', tree.kind)
        if isinstance(tree, If):
            tree = tree.t if eval_cond(tree.cond, env, callenv) else tree.f
            continue
        if isinstance(tree, Match):
            call, var = tree.call
            r = eval_sym(call, env, callenv)
            if r is None:
                tree = tree.none
            else:
                env = dict(env)
                env[var] = r
                tree = tree.some
            continue
        raise TraceRefused('bad tree')


def size(s):
    seen = set()

    def go(x):
        if not isinstance(x, Sym) or x.id in seen:
            return
        seen.add(x.id)
        for a in x.args:
            go(a)
    go(s)
    return len(seen)

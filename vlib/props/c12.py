"""C12 - lattice symmetry operators and Umis"""
import math
import itertools
import numpy as np
from .. import gens as G
from .. import t1check as T
from .. import driver as D

ORDERS = {1: 1, 2: 2, 3: 4, 4: 8, 5: 6, 6: 12, 7: 24}
CELLS = {1: lambda r: G.valid_cell(r), 2: lambda r: [r.uniform(3, 9), r.uniform(3, 9), r.uniform(3, 9), 90, r.uniform(92, 125), 90],
         3: lambda r: [r.uniform(3, 9), r.uniform(3, 9), r.uniform(3, 9), 90, 90, 90],
         4: lambda r: (lambda a: [a, a, r.uniform(3, 9), 90, 90, 90])(r.uniform(3, 9)),
         5: lambda r: (lambda a: [a, a, r.uniform(3, 9), 90, 90, 120])(r.uniform(3, 9)),
         6: lambda r: (lambda a: [a, a, r.uniform(3, 9), 90, 90, 120])(r.uniform(3, 9)),
         7: lambda r: (lambda a: [a, a, a, 90, 90, 90])(r.uniform(3, 9))}


def pre_build(ctx):
    tr = ctx.gen.get('trace')
    tb = ctx.gen.get('tables')
    if tr:
        mt = tr['symmetry']
        from xfab import symmetry
        args = []
        for _ in range(ctx.n(60, 600)):
            k = ctx.rng.randint(1, 7)
            R = symmetry.rotations(k)
            args.append((G.rotation(ctx.rng), G.rotation(ctx.rng), R[ctx.rng.randrange(len(R))]))
        # real Umis with the full list vs the traced one-operator model
        import xfab
        old = xfab.CHECKS.activated
        xfab.CHECKS.activated = False
        try:
            for U1, U2, Rm in args:
                kind, val = mt.eval_model('Umis_one', U1, U2, Rm)
                k = [kk for kk in range(1, 8) if any(np.array_equal(Rm, x) for x in symmetry.ROTATIONS[kk])][0]
                idx = [i for i, x in enumerate(symmetry.ROTATIONS[k]) if np.array_equal(Rm, x)][0]
                impl = symmetry.Umis(U1, U2, k)
                ctx.count(('umis', U1.tobytes(), U2.tobytes(), k, idx), hist='T1:Umis system %d' % k,
                          sample={'crystal_system': k, 'operator': idx, 'angle': float(impl[idx, 1])} if len(ctx.cov['samples']) < 2 else None)
                ctx.cov['disagreements_checked'] += 1
                if kind != 'ok' or abs(val - impl[idx, 1]) > 1e-6 or impl[idx, 0] != idx or impl.shape != (len(symmetry.ROTATIONS[k]), 2):
                    ctx.broken.append(D.Broken('correspondence', 'traced Umis model disagrees with Umis', 'k=%d idx=%d impl=%r model=%r' % (k, idx, impl[idx].tolist(), val)))
        finally:
            xfab.CHECKS.activated = old
    if tb and 'sym' in tb:
        # T2 validation inside Coq: checksums of the emitted tables
        sym = tb['sym']
        cs = lambda tab: [sum((i + 1) * v for i, v in enumerate([x for m in T_ for x in m])) % 1000003 for T_ in tab]
        pz = cs(sym['perms'])
        rz = cs([[[2 * p + 7 * q for p, q in m] for m in T_] for T_ in sym['rots']])
        text = ('(* GENERATED on every run *)\nFrom Coq Require Import ZArith List.\nFrom XV Require Import Tab_sym.\nImport ListNotations.\nOpen Scope Z_scope.\n'
                'Definition cs (l : list Z) : Z := (snd (fold_left (fun \'(i, acc) v => (i + 1, acc + i * v)) l (1, 0))) mod 1000003.\n'
                'Goal map (fun T => cs (List.concat T)) perm_tab = [%s].\nProof. vm_compute. reflexivity. Qed.\n'
                'Goal map (fun T => cs (List.concat (map (map (fun \'(p, q) => 2 * p + 7 * q)) T))) rot_tab = [%s].\nProof. vm_compute. reflexivity. Qed.\n'
                % ('; '.join(map(str, pz)), '; '.join(map(str, rz))))
        D.write_if_changed(D.GEN + '/Corr_C12.v', text)


def check_system(k, symmetry, tools, rng):
    P = np.asarray(symmetry.permutations(k), float)
    R = np.asarray(symmetry.rotations(k), float)
    n = ORDERS[k]
    if len(P) != n or len(R) != n:
        return 'order of system %d is %d/%d, expected %d' % (k, len(P), len(R), n)
    if np.max(np.abs(P - np.rint(P))) > 0 or any(abs(abs(round(np.linalg.det(p))) - 1) > 0 for p in P):
        return 'permutations(%d) not integer unimodular' % k
    for nm, Gm in (('permutations', P), ('rotations', R)):
        for a in Gm:
            if not any(np.allclose(a.dot(b), np.eye(3), atol=1e-12) for b in Gm):
                return '%s(%d): an operator has no inverse in the set' % (nm, k)
            for b in Gm:
                if not any(np.allclose(a.dot(b), c, atol=1e-12) for c in Gm):
                    return '%s(%d) not closed' % (nm, k)
        for i, j in itertools.combinations(range(n), 2):
            if np.allclose(Gm[i], Gm[j], atol=1e-12):
                return '%s(%d) has duplicates' % (nm, k)
    for r in R:
        if np.max(np.abs(r.T.dot(r) - np.eye(3))) > 1e-12 or abs(np.linalg.det(r) - 1) > 1e-12:
            return 'rotations(%d) contains a matrix that is not a proper rotation' % k
    if not np.allclose(np.asarray(symmetry.ROTATIONS[k], float), R, atol=1e-14):
        return 'ROTATIONS[%d] != rotations(%d)' % (k, k)
    for _ in range(3):
        c = CELLS[k](rng)
        B = tools.form_b_mat(c)
        for i in range(n):
            if np.max(np.abs(R[i].dot(B).dot(P[i]) - B)) > 1e-9 * np.max(np.abs(B)):
                return 'rot[%d].B.perm[%d] != B for system %d, cell %r' % (i, i, k, c)
    # second call gives the same tables (no hidden state)
    if not np.array_equal(np.asarray(symmetry.permutations(k)), P) or not np.allclose(np.asarray(symmetry.rotations(k)), R, atol=0):
        return 'permutations/rotations(%d) differ between successive calls' % k
    return None


def ang(U1, U2, Rm):
    t = (np.trace(U1.T.dot(U2).dot(Rm.T)) - 1) / 2
    return math.degrees(math.acos(min(1.0, max(-1.0, t))))


def ang_accurate(U1, U2, r):
    """rotation angle (degrees) of U1'.U2.r' from atan2(|antisymmetric part|, trace): accurate also next to 0 and 180 degrees"""
    M = U1.T.dot(U2).dot(np.asarray(r, float).T)
    A = 0.5 * (M - M.T)
    sn = math.sqrt(A[2, 1] ** 2 + A[0, 2] ** 2 + A[1, 0] ** 2)
    cs = 0.5 * (np.trace(M) - 1.0)
    if sn < 1e-4 and cs < 0:
        # next to 180 degrees the antisymmetric part is tiny: use the symmetric part, M + I = 2 n n' (1 - cos) + ..., |sin| = sn is still the accurate small quantity
        return math.degrees(math.pi - math.asin(min(1.0, sn)))
    return math.degrees(math.atan2(sn, cs))


def search(ctx):
    from xfab import symmetry, tools
    import xfab
    fails = []
    old = xfab.CHECKS.activated
    xfab.CHECKS.activated = False
    try:
        for k in range(1, 8):
            try:
                why = check_system(k, symmetry, tools, ctx.rng)
            except Exception as e:
                why = 'raised %s: %s' % (type(e).__name__, e)
            ctx.count(('sys', k), hist='search:systems', sample={'crystal_system': k} if k == 6 else None)
            if why:
                fails.append({'crystal_system': k, 'what': why, 'replay': why})
        for i in range(ctx.n(150, 3000)):
            k = ctx.rng.randint(1, 7)
            R = np.asarray(symmetry.rotations(k), float)
            U1, U2, Q = G.rotation(ctx.rng), G.rotation(ctx.rng), G.rotation(ctx.rng, 'uniform')
            j = ctx.rng.randrange(len(R))
            tol_row = 1e-6
            if i % 6 == 5:
                # nearly equal (or nearly symmetry-related) orientations: U2 = U1.g.dR with a rotation dR of 1e-6 .. 1e-4 rad about a general axis.  Every two-fold operator
                # then gives an angle within 0.006 degrees of 180, each at its own distance; arccos loses half the digits there, hence the wider tolerance for these rows
                ax = np.array([ctx.rng.gauss(0, 1) for _ in range(3)])
                ax /= np.linalg.norm(ax)
                d = 10 ** ctx.rng.uniform(-6, -4)
                Kx = np.array([[0, -ax[2], ax[1]], [ax[2], 0, -ax[0]], [-ax[1], ax[0], 0]])
                dR = np.eye(3) + math.sin(d) * Kx + (1 - math.cos(d)) * Kx.dot(Kx)
                U2 = U1.dot(R[ctx.rng.randrange(len(R))].T).dot(dR)
                tol_row = 2e-5
            why = None
            try:
                m = symmetry.Umis(U1, U2, k)
                base = sorted(m[:, 1])
                exp = [ang(U1, U2, r) for r in R] if tol_row == 1e-6 else [ang_accurate(U1, U2, r) for r in R]
                if m.shape != (len(R), 2) or list(m[:, 0]) != list(range(len(R))):
                    why = 'Umis does not return one row per operator'
                elif np.max(np.abs(m[:, 1] - exp)) > tol_row:
                    why = 'Umis angle k is not the rotation angle of U1\'.U2.rot[k]\''
                elif np.min(m[:, 1]) < 0 or np.max(m[:, 1]) > 180:
                    why = 'angle outside [0,180]'
                else:
                    for nm, a, b in (('U2 -> U2.rot[j]', U1, U2.dot(R[j])), ('U1 -> U1.rot[j]', U1.dot(R[j]), U2), ('swap', U2, U1), ('common rotation', Q.dot(U1), Q.dot(U2))):
                        if np.max(np.abs(np.array(sorted(symmetry.Umis(a, b, k)[:, 1])) - base)) > 1e-5:
                            why = 'multiset of angles changes under ' + nm
                            break
                    if why is None and np.min(symmetry.Umis(U1, U1, k)[:, 1]) > 1e-5:
                        why = 'Umis(U,U) does not contain 0'
            except Exception as e:
                why = 'raised %s: %s' % (type(e).__name__, e)
            ctx.count(('umis', i), hist='search:Umis system %d' % k)
            if why:
                fails.append({'crystal_system': k, 'U1': U1.tolist(), 'U2': U2.tolist(), 'j': j, 'what': why, 'replay': why})
                if len(fails) > 8:
                    break
    finally:
        xfab.CHECKS.activated = old
    return fails


SPEC = dict(
    props=['props/C12.v'], want={'trace', 'tables'}, extra_targets=['gen/Corr_C12.vo'], pre_build=pre_build, search=search,
    replay_known=lambda ctx, e: False, exhaustive=True,
    rule='tables: all 7 crystal systems, all pairs of operators, exhaustively inside Coq over Q(sqrt 3) (exact). Umis: theorems for all pairs of matrices; '
         'correspondence of the traced one-operator model against Umis with the real operator lists; search: group axioms, pairing on random conforming '
         'cells, repeated calls, the four invariances on random rotations. distinct by (system) / (case index).',
    trusted=['Coq kernel + vm_compute; R axioms for the Umis theorems', 'T2 extractor incl. exact recognition of (p + q sqrt3)/2 entries (checksummed in Coq)',
             'T1 tracer for Umis (one symbolic operator)', 'lib/SymGroup.v: b_basis = spanning set of conforming B matrices'],
    assumptions=['floats modelled by reals / Q(sqrt 3)'],
)

MANIFEST = dict(
    text='Exact finite decision in Coq over Q(sqrt 3) for all 7 systems (orders, integer unimodular permutations, proper rotations, both groups, the '
         'rot[i].B.perm[i] = B pairing on a spanning set, ROTATIONS = rotations()), and theorems over R: Umis angle k is the rotation angle of '
         'U1\'.U2.rot[k]\' in [0,180]; the multiset of angles is invariant under symmetry-equivalent U1 or U2, swapping and a common rotation; Umis(U,U) contains 0 '
         '- instantiated for every system through index-permutation tables computed in the kernel. rot[i].B.perm[i] = B is proved for the regenerated '
         'form_b_mat of every cell conforming to the crystal system (B identified by Cholesky uniqueness, then linearity over the spanning set).',
    design_ref='DESIGN.md section 5 C12',
    note='Trusted: Coq kernel, vm_compute, R axioms, T1/T2 translators, b_basis. Monoclinic conforming cells are the b-unique setting.',
    technique='Coq vm_compute over Q(sqrt 3) tables + proofs over R transported by a ring homomorphism',
)

"""C18 - reduce_cell returns a primitive cell of the same lattice"""
import math
import itertools
import numpy as np
from .. import gens as G
from .. import driver as D
from .. import t1check as T


def metric(cell):
    return G.metric(cell)


def same_lattice(G1, G2, tol=1e-6):
    """is there an integer unimodular N with N' G1 N = G2 ?  search over the short vectors of G1"""
    d = np.sqrt(np.diag(G2))
    # candidate columns: integer vectors n with n'G1 n = G2_ii
    w = np.linalg.eigvalsh(G1)
    cand = [[], [], []]
    R = [int(math.ceil(math.sqrt(G2[i, i] / w[0]))) + 1 for i in range(3)]
    for i in range(3):
        r = R[i]
        for n in itertools.product(range(-r, r + 1), repeat=3):
            v = np.array(n)
            if abs(v.dot(G1).dot(v) - G2[i, i]) < tol * max(1, G2[i, i]):
                cand[i].append(v)
    for a in cand[0]:
        for b in cand[1]:
            if abs(a.dot(G1).dot(b) - G2[0, 1]) > tol * max(1, abs(G2[0, 1]), d[0] * d[1]):
                continue
            for c in cand[2]:
                if abs(a.dot(G1).dot(c) - G2[0, 2]) > tol * max(1, d[0] * d[2]) or abs(b.dot(G1).dot(c) - G2[1, 2]) > tol * max(1, d[1] * d[2]):
                    continue
                if abs(abs(np.linalg.det(np.array([a, b, c]))) - 1) < 1e-9:
                    return True
    return False


def niggli_like_cells(rng):
    """reduced cells and the same lattices in a random unimodular change of basis (entries within the default search range)"""
    kind = rng.random()
    if kind < 0.12:
        # cubic / tetragonal lattices in a non-reduced setting: many of these cells have one right angle and two supplementary ones
        a = rng.uniform(3, 9)
        base = [a, a, rng.choice([a, a * rng.uniform(1.05, 1.6)]), 90.0, 90.0, 90.0]
        while True:
            N = np.array([[rng.randint(-1, 1) for _ in range(3)] for _ in range(3)])
            if abs(round(np.linalg.det(N))) == 1 and not np.array_equal(np.abs(N), np.eye(3)):
                break
        from xfab import tools
        cell = [float(x) for x in tools.a_to_cell(tools.form_a_mat(base).dot(N))]
        cell = cell[:3] + [float(round(x, 9)) for x in cell[3:]]
        if G.gram(*cell[3:]) >= 0.02:
            return base, cell, N
    if kind < 0.3:
        a, b, c = sorted(rng.uniform(3, 9) for _ in range(3))
        base = [a, b, c, 90.0, 90.0, 90.0]
    elif kind < 0.5:
        a, c = rng.uniform(3, 6), rng.uniform(6.5, 12)
        base = [a, a, c, 90.0, 90.0, 120.0]
    else:
        a, b, c = sorted(rng.uniform(4, 9) for _ in range(3))
        base = [a, b, c, rng.uniform(78, 90), rng.uniform(78, 90), rng.uniform(78, 90)]
    if rng.random() < 0.5:
        return base, base, np.eye(3, dtype=int)
    while True:
        N = np.array([[rng.randint(-1, 1) for _ in range(3)] for _ in range(3)])
        if abs(round(np.linalg.det(N))) == 1:
            break
    from xfab import tools
    A = tools.form_a_mat(base).dot(N)
    cell = list(tools.a_to_cell(A))
    if G.gram(*cell[3:]) < 0.02 or min(cell[3:]) < 20 or max(cell[3:]) > 160:
        return base, base, np.eye(3, dtype=int)
    return base, cell, N


def supplementary_cell(rng):
    """one right angle and two supplementary ones (cos alpha + cos beta + cos gamma = 0 without being orthogonal): special settings of centred / high-symmetry lattices"""
    th = float(rng.choice([60, 70, 75, 80, 100, 110, 120, round(rng.uniform(55, 125), 1)]))
    ang = [90.0, th, 180.0 - th]
    rng.shuffle(ang)
    return [round(rng.uniform(3, 9), 3) for _ in range(3)] + ang


def f10_signature(cell, red):
    """is the returned cell the one the open finding F10 describes?  F10: the selected lattice vectors A.n_i are stored as rows and read back as columns, so the returned
    metric is A N N' A' (N integer unimodular) instead of N' A' A N.  N N' is then an integer matrix of determinant 1."""
    from xfab import tools
    A = np.asarray(tools.form_a_mat(cell), float)
    Ai = np.linalg.inv(A)
    S = Ai.dot(metric(red)).dot(Ai.T)
    return bool(np.max(np.abs(S - np.rint(S))) < 1e-5 and abs(np.linalg.det(np.rint(S)) - 1) < 1e-9)


def classify(cell):
    ortho = all(abs(x - 90.0) < 1e-9 for x in cell[3:])
    return 'orthogonal' if ortho else 'non-orthogonal'


def search(ctx):
    from xfab import tools, laue
    fails = []
    seen = set()
    for i in range(ctx.n(60, 600)):
        base, cell, N = niggli_like_cells(ctx.rng)
        if i % 8 == 5:
            base, cell = None, supplementary_cell(ctx.rng)
        for modname, mod in (('tools', tools), ('laue', laue)):
            why, cls = None, None
            try:
                red = np.asarray(mod.reduce_cell(cell), float)
                if not np.all(np.isfinite(red)) or min(red[:3]) <= 0:
                    why, cls = 'reduce_cell returned a degenerate cell %r' % (red.tolist(),), 'degenerate'
                else:
                    V0, V1 = mod.cell_volume(cell), mod.cell_volume(red)
                    if abs(V1 - V0) > 1e-6 * V0:
                        why, cls = 'volume changes from %.6f to %.6f' % (V0, V1), 'volume'
                    elif not same_lattice(metric(cell), metric(red)):
                        why, cls = 'returned cell %r is not a basis of the input lattice' % ([round(float(x), 4) for x in red],), 'lattice:' + classify(cell)
                        if cls == 'lattice:non-orthogonal' and not f10_signature(cell, red):
                            cls = 'lattice:non-orthogonal:not the transposed-basis cell of F10'
                    elif base is not None:
                        # built from the shortest non-coplanar vectors: sum of squared lengths equals that of the known reduced cell
                        if abs(sum(x * x for x in red[:3]) - sum(x * x for x in base[:3])) > 1e-6 * sum(x * x for x in base[:3]):
                            why, cls = 'not the shortest vectors: lengths %r, reduced cell has %r' % (red[:3].tolist(), base[:3]), 'shortest'
            except Exception as e:
                why, cls = 'raised %s: %s' % (type(e).__name__, e), 'exc'
            ctx.count(('r', modname, i), hist='search:%s:%s%s' % (modname, classify(cell), ':supplementary angles' if abs(sum(math.cos(math.radians(x)) for x in cell[3:])) < 1e-9 and classify(cell) != 'orthogonal' else ''), sample={'module': modname, 'cell': [float(x) for x in cell]} if i == 0 else None)
            if why and (modname, cls) not in seen:
                seen.add((modname, cls))
                fails.append({'module': modname, 'cell': [float(x) for x in cell], 'class': cls, 'what': why, 'replay': '%s.reduce_cell(%r): %s' % (modname, [float(x) for x in cell], why)})
    # grid of special lengths and angles (30, 45, 60, 90, 120, 135, 150 degrees; small integer lengths): coincidences between lattice vectors and Cartesian directions.
    # Volume must be preserved whatever basis is returned (also by the transposed-basis cells of finding F10).
    lens, angs = [3.0, 4.0, 5.0, 6.0, 10.0], [30.0, 45.0, 60.0, 90.0, 120.0, 135.0, 150.0]
    grid = [[a, b, c, al, be, ga] for a in lens for b in lens for c in lens for al in angs for be in angs for ga in angs if G.gram(al, be, ga) >= 0.02]
    for cell in ctx.rng.sample(grid, ctx.n(700, 6000)):
        for modname, mod in (('tools', tools), ('laue', laue)):
            try:
                red = np.asarray(mod.reduce_cell(cell), float)
                ctx.count(('grid', modname, tuple(cell)), hist='search:%s:special grid' % modname)
                V0 = mod.cell_volume(cell)
                ok = np.all(np.isfinite(red)) and min(red[:3]) > 0 and G.gram(*red[3:]) > 0 and abs(mod.cell_volume(red) - V0) <= 1e-6 * V0
                if not ok and (modname, 'gridvolume') not in seen:
                    seen.add((modname, 'gridvolume'))
                    why = 'volume changes from %.6f to %r (returned cell %r)' % (V0, (mod.cell_volume(red) if np.all(np.isfinite(red)) and G.gram(*red[3:]) > 0 else None), [round(float(x), 4) for x in red])
                    fails.append({'module': modname, 'cell': cell, 'class': 'volume', 'what': why, 'replay': '%s.reduce_cell(%r): %s' % (modname, cell, why)})
            except Exception as e:
                if (modname, 'gridexc') not in seen:
                    seen.add((modname, 'gridexc'))
                    fails.append({'module': modname, 'cell': cell, 'class': 'exc', 'what': 'raised %s: %s' % (type(e).__name__, e), 'replay': '%s.reduce_cell(%r)' % (modname, cell)})
    # needle-shaped lattices (2*v1 must not be taken as the second vector) and obtuse triclinic results
    for cell in ([2.0, 9.0, 11.0, 90.0, 90.0, 90.0], [2.5, 8.0, 8.5, 90.0, 90.0, 90.0], [3.0, 7.5, 16.0, 90.0, 90.0, 90.0], [3.0, 3.5, 350.0, 90.0, 90.0, 90.0],
                 [3.073, 5.323, 989.6, 90.0, 90.0, 90.0], [0.31, 0.35, 0.4, 90.0, 90.0, 90.0], [300.0, 350.0, 4000.0, 90.0, 90.0, 90.0], [2.0, 250.0, 2.5, 90.0, 90.0, 90.0], [900.0, 3.0, 4.0, 90.0, 90.0, 90.0]):
        for modname, mod in (('tools', tools), ('laue', laue)):
            try:
                red = np.asarray(mod.reduce_cell(cell), float)
                ctx.count(('needle', modname, tuple(cell)), hist='search:needle')
                if not np.all(np.isfinite(red)) or abs(mod.cell_volume(red) - mod.cell_volume(cell)) > 1e-6 * mod.cell_volume(cell):
                    if (modname, 'needle') not in seen:
                        seen.add((modname, 'needle'))
                        fails.append({'module': modname, 'cell': cell, 'class': 'volume', 'what': 'needle-shaped cell %r reduced to %r' % (cell, red.tolist()), 'replay': 'needle'})
                elif (max(abs(x - y) for x, y in zip(sorted(red[:3]), sorted(cell[:3]))) > 1e-6 * max(cell[:3]) or max(abs(x - 90.0) for x in red[3:]) > 1e-6) and (modname, 'needle-lattice') not in seen:
                    # the reduced basis of an orthogonal lattice with distinct axis lengths is the three axes themselves
                    seen.add((modname, 'needle-lattice'))
                    fails.append({'module': modname, 'cell': cell, 'class': 'lattice:orthogonal', 'what': 'orthogonal cell %r reduced to %r, which is not a basis of the same lattice' % (cell, [round(float(x), 4) for x in red]), 'replay': 'needle'})
            except Exception as e:
                fails.append({'module': modname, 'cell': cell, 'class': 'exc', 'what': 'raised %s' % type(e).__name__, 'replay': 'needle'})
    return fails


def replay_known(ctx, e):
    from xfab import tools
    cell = e['input']['cell']
    red = np.asarray(tools.reduce_cell(cell), float)
    return not same_lattice(metric(cell), metric(red))


def match_known(f, e):
    return e.get('id') == 'F10' and f.get('class') == 'lattice:non-orthogonal'


SPEC = dict(
    props=['props/C18.v'], want={'trace'}, search=search, replay_known=replay_known, match_known=match_known,
    rule='theorems: all matrices A, N (algebraic facts about what a_to_cell returns for a row-stored basis). Search: reduced cells (orthorhombic, hexagonal, triclinic '
         'with acute angles) and the same lattices after a random unimodular change of basis with entries in {-1,0,1}, both modules; volume, lattice equivalence '
         '(explicit search for the integer unimodular matrix), shortest-vector sum, needle-shaped cells. distinct by (module, case).',
    trusted=['Coq kernel; R axioms', 'T1 tracer (a_to_cell)', 'no Coq model of the vector search loop of reduce_cell: that part is decided on the implementation only'],
    assumptions=['floats modelled by reals'],
)

MANIFEST = dict(
    text='Partial. Coq: for three lattice vectors stored as rows of M = (A N)\', the cell returned by the generated a_to_cell has metric M\'M (proved), the lattice they '
         'span has metric M M\' = N\'(A\'A)N (proved), both have determinant det(N)^2 det(A\'A) (same volume iff N unimodular), and M\'M differs from M M\' in general '
         '(rational witness): this is known finding F10. Same-lattice, volume and shortest-vector statements are decided numerically on the implementation; the '
         'vector search loop (argsort with ties) has no Coq model.',
    design_ref='DESIGN.md section 5 C18',
    note='Trusted: Coq kernel, R axioms, T1 tracer. The enumeration/sorting loop of reduce_cell is not modelled.',
    technique='Coq algebraic lemmas over R on the generated a_to_cell + numeric lattice-equivalence search; known finding',
)

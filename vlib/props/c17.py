"""C17 - CIF and PDB ingestion reproduces what the file states"""
import os
import re
import math
import tempfile
import numpy as np
from .. import driver as D

EIGHT_PI2 = 8 * math.pi ** 2
PDB_SYMBOLS = None


def cs(s):
    return '(' + ''.join('String (Ascii.ascii_of_nat %d) (' % ord(c) for c in s) + 'EmptyString' + ')' * len(s) + ')'


def pre_build(ctx):
    """model/Ingest.v evaluated in Coq against the Python expressions it transcribes, on random ASCII strings"""
    rng = ctx.rng
    alpha = 'P21/c-13 mnab()0.5e \t\n'
    lines = []
    for _ in range(ctx.n(150, 1500)):
        s = ''.join(rng.choice(alpha) for _ in range(rng.randint(0, 14)))
        i = s.find('(')
        tu = s if i == -1 else s[:i]
        toks = s.split()
        sg = ''.join(t.lower() for t in toks if t != '1')
        a, b = rng.randint(0, 10), rng.randint(0, 16)
        lines.append('(String.eqb (take_until_paren %s) %s && String.eqb (pdb_sg %s) %s && String.eqb (strip_ws %s) %s && String.eqb (slice %d %d %s) %s && String.eqb (upper_str %s) %s)' % (
            cs(s), cs(tu), cs(s), cs(sg), cs(s), cs(re.sub(r"\s+", "", s)), a, b, cs(s), cs(s[a:b]), cs(s), cs(s.upper())))
        ctx.count(('str', s), hist='corr:string models', sample={'string': s, 'take_until_paren': tu, 'pdb_sg': sg} if len(lines) == 3 else None)
        ctx.cov['disagreements_checked'] += 1
    text = ('(* GENERATED on every run *)\nFrom Coq Require Import List Bool Ascii String.\nFrom XV Require Import SGroup Ingest.\nImport ListNotations.\n'
            'Goal forallb (fun b => b) [\n%s\n] = true.\nProof. vm_compute. reflexivity. Qed.\n' % ';\n'.join(lines))
    D.write_if_changed(D.GEN + '/Corr_C17.v', text)


def fmt_esd(rng, v, nd):
    s = '%.*f' % (nd, v)
    if rng.random() < 0.12 and float(s) != 0:
        # the same rounded value in exponent notation (e or E, with or without sign and leading zero); an esd, if any, follows the exponent
        m, e = ('%.*e' % (nd + 3, float(s))).split('e')
        m = m.rstrip('0').rstrip('.') if '.' in m else m
        s = m + rng.choice(['e', 'E']) + rng.choice(['%+03d' % int(e), '%d' % int(e), '%+d' % int(e)])
    if rng.random() < 0.5:
        s += '(%d)' % rng.randint(1, 99)
    return s


def gen_record(rng, names):
    from xfab import sg
    name = rng.choice(names)
    cell = [round(rng.uniform(3, 20), 4) for _ in range(3)] + [round(rng.uniform(60, 120), 3) for _ in range(3)]
    atoms = []
    els = ['C', 'N', 'O', 'FE', 'S', 'CL', 'NA', 'AU']
    for i in range(rng.randint(1, 12)):
        el = rng.choice(els)
        kind = rng.choice(['Uiso', 'Uani', 'Biso', 'Bani'])
        a = dict(label='%s%d' % (el.capitalize(), i + 1), el=el, pos=[round(rng.uniform(-0.2, 1.2), 5) for _ in range(3)], kind=kind,
                 occ=round(rng.uniform(0.05, 1.0), 3), mult=rng.choice([1, 2, 3, 4, 6, 8, 12, 24]))
        if kind in ('Uiso', 'Biso'):
            a['adp'] = round(rng.uniform(0.005, 0.2 if kind == 'Uiso' else 8.0), 5)
        elif kind in ('Uani', 'Bani'):
            a['adp'] = [round(rng.uniform(-0.02, 0.09) * (1 if kind == 'Uani' else 40), 5) for _ in range(6)]   # order 11,22,33,23,13,12
        atoms.append(a)
    if rng.random() < 0.25:
        for a in atoms:
            a['kind'] = None
    return dict(name=name, cell=cell, atoms=atoms)


def write_cif(rng, rec, path, with_occ, mult_key, with_types, with_global):
    L = []
    if with_global:
        L += ['data_global', "_audit_creation_method 'verif'", '']
    L += ['data_test', '_cell_length_a %s' % fmt_esd(rng, rec['cell'][0], 4), '_cell_length_b %s' % fmt_esd(rng, rec['cell'][1], 4),
          '_cell_length_c %s' % fmt_esd(rng, rec['cell'][2], 4), '_cell_angle_alpha %s' % fmt_esd(rng, rec['cell'][3], 3),
          '_cell_angle_beta %s' % fmt_esd(rng, rec['cell'][4], 3), '_cell_angle_gamma %s' % fmt_esd(rng, rec['cell'][5], 3),
          rec.get('symbol_item') or ("_symmetry_space_group_name_H-M '%s'" % rec['spaced'])]
    disp = {}
    if with_types:
        L += ['loop_', '_atom_type_symbol', '_atom_type_scat_dispersion_real', '_atom_type_scat_dispersion_imag']
        for el in sorted(set(a['el'] for a in rec['atoms'])):
            fp, fpp = round(rng.uniform(-0.5, 0.5), 4), round(rng.uniform(0, 3), 4)
            disp[el] = [fp, fpp]
            L.append('%s %.4f %.4f' % (el.capitalize(), fp, fpp))
    else:
        for a in rec['atoms']:
            disp[a['el']] = None
    noadp = all(a['kind'] is None for a in rec['atoms'])
    L += ['loop_', '_atom_site_label', '_atom_site_type_symbol', '_atom_site_fract_x', '_atom_site_fract_y', '_atom_site_fract_z']
    if not noadp:
        L += ['_atom_site_adp_type', '_atom_site_U_iso_or_equiv', '_atom_site_B_iso_or_equiv']
    if with_occ:
        L.append('_atom_site_occupancy')
    if mult_key:
        L.append(mult_key)
    for a in rec['atoms']:
        kind = a['kind'] if a['kind'] else '.'
        row = [a['label'], a['el'].capitalize()] + [fmt_esd(rng, v, 5) for v in a['pos']]
        if not noadp:
            row.append(kind)
            row.append(fmt_esd(rng, a['adp'], 5) if a['kind'] == 'Uiso' else '.')
            row.append(fmt_esd(rng, a['adp'], 5) if a['kind'] == 'Biso' else '.')
        if with_occ:
            row.append(fmt_esd(rng, a['occ'], 3))
        if mult_key:
            row.append('%d' % a['mult'])
        L.append(' '.join(row))
    ani = [a for a in rec['atoms'] if a['kind'] in ('Uani', 'Bani')]
    if ani:
        for tag, kind in (('U', 'Uani'), ('B', 'Bani')):
            sel = [a for a in ani if a['kind'] == kind]
            if sel:
                L += ['loop_', '_atom_site_aniso_label'] + ['_atom_site_aniso_%s_%s' % (tag, ij) for ij in ('11', '22', '33', '23', '13', '12')]
                for a in sel:
                    L.append(' '.join([a['label']] + [fmt_esd(rng, v, 5) for v in a['adp']]))
    open(path, 'w').write('\n'.join(L) + '\n')
    return disp


def check_cif(rng, names, tmp):
    from xfab import structure
    rec = gen_record(rng, names)
    rec['spaced'] = ' '.join(rec['name']) if rng.random() < 0.5 else rec['name']
    k = rng.random()
    if k < 0.3:
        # other legal spellings of the same data value: tabs / several blanks between the parts, leading or trailing white space inside the quotes, double quotes,
        # a semicolon-delimited text field on its own lines
        parts = list(rec['name'])
        sep = rng.choice(['\t', '  ', ' \t', ' '])
        rec['spaced'] = rng.choice(['', ' ', '\t']) + sep.join(parts) + rng.choice(['', ' ', '\t', '  '])
        form = rng.choice(['single', 'double', 'text'])
        if form == 'single':
            rec['symbol_item'] = "_symmetry_space_group_name_H-M '%s'" % rec['spaced']
        elif form == 'double':
            rec['symbol_item'] = '_symmetry_space_group_name_H-M "%s"' % rec['spaced']
        else:
            rec['spaced'] = rec['spaced'].strip('\t ') or rec['name']
            rec['symbol_item'] = '_symmetry_space_group_name_H-M\n;%s\n;' % rec['spaced']
    # Bani and Uani in one file would need two aniso loops with one label list: keep one anisotropic kind per file
    kinds = set(a['kind'] for a in rec['atoms'] if a['kind'] in ('Uani', 'Bani'))
    if len(kinds) == 2:
        for a in rec['atoms']:
            if a['kind'] == 'Bani':
                a['kind'] = 'Uani'
                a['adp'] = [round(v / 40, 5) for v in a['adp']]
    with_occ, with_types, with_global = rng.random() < 0.6, rng.random() < 0.6, rng.random() < 0.4
    mult_key = rng.choice([None, '_atom_site_symmetry_multiplicity', '_atom_site_symetry_multiplicity'])
    path = os.path.join(tmp, 'c.cif')
    disp = write_cif(rng, rec, path, with_occ, mult_key, with_types, with_global)
    b = structure.build_atomlist()
    b.CIFread(ciffile=path)
    al = b.atomlist
    if [round(x, 6) for x in al.cell] != [round(x, 6) for x in rec['cell']]:
        return 'cell read as %r, file states %r' % (al.cell, rec['cell']), rec
    if al.sgname != rec['name']:
        return 'space group symbol %r, file states %r' % (al.sgname, rec['spaced']), rec
    if len(al.atom) != len(rec['atoms']):
        return '%d atoms read, %d in file' % (len(al.atom), len(rec['atoms'])), rec
    for e, a in zip(al.atom, rec['atoms']):
        if e.label != a['label'] or e.atomtype != a['el']:
            return 'label/element %r/%r, file states %r/%r' % (e.label, e.atomtype, a['label'], a['el']), rec
        if np.max(np.abs(np.array(e.pos) - a['pos'])) > 1e-12:
            return 'position of %s' % a['label'], rec
        exp_occ = a['occ'] if with_occ else 1.0
        if abs(e.occ - exp_occ) > 1e-12:
            return 'occupancy of %s read as %r, file states %r' % (a['label'], e.occ, exp_occ), rec
        if a['kind'] is None:
            if e.adp_type is not None or e.adp != 0.0:
                return 'atom without displacement parameters read as %r %r' % (e.adp_type, e.adp), rec
        elif a['kind'] in ('Uiso', 'Biso'):
            exp = a['adp'] if a['kind'] == 'Uiso' else a['adp'] / EIGHT_PI2
            if e.adp_type != 'Uiso' or abs(e.adp - exp) > 1e-12:
                return 'displacement of %s read as %r %r, file states %s %r' % (a['label'], e.adp_type, e.adp, a['kind'], a['adp']), rec
        else:
            exp = np.array(a['adp']) if a['kind'] == 'Uani' else np.array(a['adp']) / EIGHT_PI2
            if e.adp_type != 'Uani' or np.max(np.abs(np.array(e.adp) - exp)) > 1e-12:
                return 'anisotropic displacement of %s (order 11,22,33,23,13,12)' % a['label'], rec
        if mult_key:
            if e.symmulti != a['mult']:
                return 'multiplicity of %s read as %r, file states %r' % (a['label'], e.symmulti, a['mult']), rec
        else:
            if e.symmulti != structure.multiplicity(a['pos'], sgname=rec['name']):
                return 'computed multiplicity of %s' % a['label'], rec
    for el, v in disp.items():
        got = al.dispersion.get(el, 'missing')
        if v is None:
            if got is not None:
                return 'dispersion of %s should be None, is %r' % (el, got), rec
        elif got == 'missing' or got is None or abs(got[0] - v[0]) > 1e-12 or abs(got[1] - v[1]) > 1e-12:
            return 'dispersion of %s read as %r, file states %r' % (el, got, v), rec
    return None, rec


def pdb_names():
    """PDB-style spellings: Hermann-Mauguin symbols with blanks and '1' place-holders for monoclinic/trigonal"""
    from xfab import sg
    out = []
    for no in range(1, 231):
        s = sg.sg(sgno=no)
        out.append((no, s.name))
    return out


def pdb_spelling(name, csys):
    """'P21/c' -> 'P 1 21/c 1' (monoclinic b), orthorhombic etc. tokens separated; returns (spelling, expected symbol after clean-up)"""
    toks = re.findall(r"[PABCIFR]|-?\d(?:\d)?(?:/[a-z])?|[a-z]|/", name)
    body = name[1:]
    parts = re.findall(r"-?[1-6](?:[1-5])?(?:/[mnabcd])?|[mnabcde]", body)
    if ''.join(parts) != body:
        return None
    if csys == 'monoclinic' and len(parts) == 1:
        sp = [name[0], '1', parts[0], '1']
    else:
        sp = [name[0]] + parts
    return ' '.join(sp), name.lower()


def check_pdb(rng, tmp):
    from xfab import structure, sg
    no = rng.randint(1, 230)
    s = sg.sg(sgno=no)
    r = pdb_spelling(s.name, s.crystal_system)
    if r is None:
        return None, None
    spelling, exp_sym = r
    if len(spelling) > 11:
        return None, None
    cell = [round(rng.uniform(5, 60), 3) for _ in range(3)] + [round(rng.uniform(70, 110), 2) for _ in range(3)]
    from xfab import tools
    A = tools.form_a_mat(cell)
    Sm = np.linalg.inv(A)
    u = [round(rng.uniform(-0.3, 0.3), 5) if rng.random() < 0.4 else 0.0 for _ in range(3)]
    L = ['CRYST1%9.3f%9.3f%9.3f%7.2f%7.2f%7.2f %-11s%4d' % (cell[0], cell[1], cell[2], cell[3], cell[4], cell[5], spelling, 1)]
    Sr = np.round(Sm, 6)
    for i in range(3):
        L.append('SCALE%d    %10.6f%10.6f%10.6f     %10.5f' % (i + 1, Sr[i, 0], Sr[i, 1], Sr[i, 2], u[i]))
    atoms = []
    for i in range(rng.randint(1, 12)):
        el = rng.choice(['C', 'N', 'O', 'S', 'FE', 'ZN'])
        xyz = [round(rng.uniform(-20, 60), 3) for _ in range(3)]
        occ, bf = round(rng.uniform(0.1, 1.0), 2), round(rng.uniform(2, 80), 2)
        name4 = (' ' + el.capitalize() + str(i % 10)).ljust(4)[:4] if len(el) == 1 else (el + str(i % 10)).ljust(4)[:4]
        rectype = 'ATOM  ' if rng.random() < 0.7 else 'HETATM'
        L.append('%s%5d %4s %3s %1s%4d    %8.3f%8.3f%8.3f%6.2f%6.2f          %2s' % (rectype, i + 1, name4, 'ALA', 'A', i + 1, xyz[0], xyz[1], xyz[2], occ, bf, el.rjust(2)))
        atoms.append(dict(label=re.sub(r"\s+", "", name4), el=el, xyz=xyz, occ=occ, b=bf))
    L.append('END')
    path = os.path.join(tmp, 'p.pdb')
    open(path, 'w').write('\n'.join(L) + '\n')
    info = dict(sgno=no, spelling=spelling, cell=cell, natoms=len(atoms))
    b = structure.build_atomlist()
    try:
        b.PDBread(path)
    except Exception as e:
        return 'PDBread raised %s: %s for CRYST1 symbol %r' % (type(e).__name__, e, spelling), info
    al = b.atomlist
    if [round(x, 6) for x in al.cell] != cell:
        return 'cell read as %r' % (al.cell,), info
    if al.sgname != exp_sym:
        return 'symbol read as %r, expected %r from %r' % (al.sgname, exp_sym, spelling), info
    if len(al.atom) != len(atoms):
        return '%d atoms read, %d in file' % (len(al.atom), len(atoms)), info
    for e, a in zip(al.atom, atoms):
        frac = Sr.dot(a['xyz']) + np.array(u)
        if e.label != a['label'] or e.atomtype != a['el']:
            return 'label/element %r/%r, file states %r/%r' % (e.label, e.atomtype, a['label'], a['el']), info
        if np.max(np.abs(np.array(e.pos) - frac)) > 1e-9:
            return 'fractional position is not SCALE . xyz + u', info
        if e.adp_type != 'Uiso' or abs(e.adp - a['b'] / EIGHT_PI2) > 1e-12 or abs(e.occ - a['occ']) > 1e-12:
            return 'B/occupancy of %s' % a['label'], info
        if e.symmulti != structure.multiplicity(frac, sgname=exp_sym):
            return 'computed multiplicity', info
        if al.dispersion.get(a['el'], 'x') is not None:
            return 'dispersion entry for %s should be None' % a['el'], info
    return None, info


def search(ctx):
    from xfab import sg
    fails = []
    seen = set()
    names = [sg.sg(sgno=no).name for no in range(1, 231)]
    tmp = tempfile.mkdtemp(prefix='c17_', dir=D.BUILD)
    try:
        for i in range(ctx.n(120, 1500)):
            try:
                why, rec = check_cif(ctx.rng, names, tmp)
            except Exception as e:
                why, rec = 'CIFread raised %s: %s' % (type(e).__name__, e), None
            ctx.count(('cif', i), hist='search:cif', sample={'sgname': rec['name'], 'atoms': len(rec['atoms'])} if (rec and i == 0) else None)
            if why and ('cif', why[:20]) not in seen:
                seen.add(('cif', why[:20]))
                fails.append({'kind': 'cif', 'what': why, 'record': rec, 'replay': 'CIF: ' + why})
        for i in range(ctx.n(150, 1500)):
            why, info = check_pdb(ctx.rng, tmp)
            if info is None:
                continue
            ctx.count(('pdb', i), hist='search:pdb', sample=info if i < 2 else None)
            if why:
                key = ('pdb', 'P1' if info.get('spelling') == 'P 1' else why[:20])
                if key not in seen:
                    seen.add(key)
                    fails.append({'kind': 'pdb', 'what': why, 'record': info, 'tag': 'pdb_p1' if info.get('spelling') == 'P 1' else None, 'replay': 'PDB: ' + why})
    finally:
        for f in os.listdir(tmp):
            os.remove(os.path.join(tmp, f))
        os.rmdir(tmp)
    return fails


SPEC = dict(
    props=['props/C17.v'], want={'tables'}, extra_targets=['gen/Corr_C17.vo'], pre_build=pre_build, search=search,
    replay_known=lambda ctx, e: False,
    rule='theorems: all ASCII strings (esd stripping, whitespace removal, PDB symbol clean-up). Correspondence: the string models evaluated in Coq on random strings '
         'vs the Python expressions. Search: generated CIF files (any cell, any of the 230 symbols with/without blanks, 1..12 atoms, Uiso/Uani/Biso/Bani/absent, '
         '+-esd, +-occupancy, both multiplicity keys or none, +-atom-type loop, +-global block) and PDB files (all symbols in PDB spelling incl. place-holders, SCALE with '
         'translation, ATOM/HETATM) read by the real readers and compared field by field. distinct by generated file.',
    trusted=['Coq kernel + vm_compute', 'model/Ingest.v tied by in-Coq evaluation', 'PyCifRW and float() are outside the model'],
    assumptions=['one anisotropic kind per generated CIF'],
)

MANIFEST = dict(
    text='Coq theorems over all strings for the text handling (esd in parentheses ignored; symbol whitespace removed and nothing else; PDB symbol = non-"1" tokens '
         'lower-cased in order, via split/join inversion), tied to the code by evaluating the models inside Coq. The file-level statement (every field of generated '
         'CIF/PDB files comes back exactly) is decided on the implementation only: PyCifRW and float() have no formal model here (partial).',
    design_ref='DESIGN.md section 5 C17',
    note='Trusted: Coq kernel, hand string models (correspondence). File-level round trip: differential testing against generated files.',
    technique='Coq proofs by induction on strings about hand models + in-Coq evaluation correspondence; generated-file round trip search',
)

"""C05 - genhkl_all returns exactly the reflections the space group allows in the shell"""
import math
import numpy as np
from .. import driver as D
from .. import hklref as HR
from .. import hklcorr as HC


def pre_build(ctx):
    HC.correspondence(ctx, 'all', 'Corr_C05')


def classify(s, case, missing, extra, dups):
    if extra or dups:
        return 'extra/duplicate'
    tri_mono_oblique = s.crystal_system in ('triclinic', 'monoclinic') and HC.oblique(case)
    if missing and (tri_mono_oblique or (s.cell_choice == 'rhombohedral' and (s.Laue == '-3m' or case['cell'][3] > 90.0))):
        return 'F6'
    return 'missing'


def search(ctx):
    from xfab import tools, laue, sg
    fails = []
    seen = set()
    state = np.random.get_state()
    try:
        cases = HC.search_cases(ctx)
        if ctx.broken:
            # directed: shells that reach low-order axial reflections (00l, h00, 0k0 up to order 6) for every setting
            from xfab import sg as _sg
            for no in range(1, 231):
                for ch in ('standard', 'rhombohedral'):
                    s_ = _sg.sg(sgno=no, cell_choice=ch)
                    if ch == 'rhombohedral' and s_.cell_choice != 'rhombohedral':
                        continue
                    case = HC.make_case(ctx.rng, s_)
                    K = case['K']
                    case['M'] = max(case['M'], 36 * max(K[0][0], K[1][1], K[2][2]) if max(K[0][0], K[1][1], K[2][2]) <= 6 else 16 * max(K[0][0], K[1][1], K[2][2]))
                    case['hi'] = 0.5 * math.sqrt((case['M'] + 0.5) / case['S'])
                    cases.append((no, ch, s_, case))
        for k, (no, ch, s, case) in enumerate(cases):
            exp = HR.expected_all(s, case['cell'], case['lo'], case['hi'])
            for mod, (form, kw) in HC.plan(k, s, no, ch, case, tools, laue):
                np.random.seed(ctx.rng.randrange(2 ** 31))
                why, cls = None, None
                try:
                    got = HC.rows_of(mod.genhkl_all(case['cell'], case['lo'], case['hi'], **kw))
                    gs = set(got)
                    missing, extra, dups = exp - gs, gs - exp, len(got) - len(gs)
                    if missing or extra or dups:
                        cls = classify(s, case, missing, extra, dups)
                        why = 'genhkl_all: %d missing, %d extra, %d repeated (e.g. missing %r extra %r)' % (
                            len(missing), len(extra), dups, sorted(missing)[:2], sorted(extra)[:2])
                    elif k % 7 == 0:
                        np.random.seed(12345)
                        g2 = set(HC.rows_of(mod.genhkl_all(case['cell'], case['lo'], case['hi'], **kw)))
                        if g2 != gs:
                            why, cls = 'genhkl_all differs between RNG states', 'rng'
                except Exception as e:
                    why, cls = 'genhkl_all raised %s: %s' % (type(e).__name__, e), 'exc'
                ctx.count(('all', no, ch, k, mod.__name__, form), hist='search:%s:%s%s' % (s.crystal_system, 'oblique' if HC.oblique(case) else 'orthogonal metric', (':' + case['kind']) if case.get('kind') else ''),
                          sample={'sgno': no, 'cell_choice': ch, 'cell': case['cell'], 'sintlmin': case['lo'], 'sintlmax': case['hi'], 'expected': len(exp)} if no == 62 else None)
                ctx.dist['call form:' + ('number' if 'sgno' in kw else ('name' if len(kw) == 1 else 'name+cell_choice'))] = ctx.dist.get('call form:' + ('number' if 'sgno' in kw else ('name' if len(kw) == 1 else 'name+cell_choice')), 0) + 1
                if why and (cls, s.crystal_system if cls == 'F6' else no) not in seen:
                    seen.add((cls, s.crystal_system if cls == 'F6' else no))
                    fails.append({'sgno': no, 'cell_choice': ch, 'name': s.name, 'cell': case['cell'], 'sintlmin': case['lo'], 'sintlmax': case['hi'],
                                  'module': mod.__name__, 'class': cls, 'what': why, 'replay': '%s.genhkl_all(%r, %r, %r, %s): %s' % (
                                      mod.__name__, case['cell'], case['lo'], case['hi'], form, why)})
        # sintlmin exclusive / sintlmax inclusive at a bound that is the module's own sintl of a traversal point (both modules)
        for kb, (no, s, K, cell, h0) in enumerate(HC.boundary_cases(ctx)):
            for mod in (tools, laue):
                why = None
                try:
                    b = float(mod.sintl(cell, np.array(h0)))
                    inc = set(HC.rows_of(mod.genhkl_all(cell, 0.0, b, sgno=no)))
                    exc = set(HC.rows_of(mod.genhkl_all(cell, b, 1.4 * b, sgno=no)))
                    if tuple(h0) not in inc:
                        why = 'sintlmax is not inclusive: %r missing with sintlmax = its own sintl' % (list(h0),)
                    elif tuple(h0) in exc:
                        why = 'sintlmin is not exclusive: %r listed with sintlmin = its own sintl' % (list(h0),)
                except Exception as e:
                    why = 'raised %s: %s' % (type(e).__name__, e)
                ctx.count(('bound', no, kb, mod.__name__), hist='search:boundary:%s' % s.crystal_system)
                if why and ('bound', mod.__name__) not in seen:
                    seen.add(('bound', mod.__name__))
                    fails.append({'sgno': no, 'cell_choice': 'standard', 'name': s.name, 'cell': cell, 'hkl': list(h0), 'module': mod.__name__, 'class': 'boundary',
                                  'what': why, 'replay': '%s.genhkl_all boundary at sintl(%r), sgno=%d, cell=%r: %s' % (mod.__name__, list(h0), no, cell, why)})
        # R-centred groups: hexagonal and rhombohedral settings give the same reflections under the obverse transformation
        T = np.array([[2, 1, 1], [-1, 1, 1], [-1, -2, 1]]) / 3.0        # a_r = T^t-ish: h_hex = h_rh . M
        Mrh2hex = np.array([[1, -1, 0], [0, 1, -1], [1, 1, 1]])            # rows: a_h = a_r - b_r, b_h = b_r - c_r, c_h = a_r + b_r + c_r (obverse)
        for no in (146, 148, 155, 160, 161, 166, 167):
            a_r, al = 5.0 + ctx.rng.random(), 60.0 + ctx.rng.random() * 25
            cr = [a_r, a_r, a_r, al, al, al]
            ca = math.cos(math.radians(al))
            a_h = a_r * math.sqrt(2 - 2 * ca)
            c_h = a_r * math.sqrt(3 + 6 * ca)
            chx = [a_h, a_h, c_h, 90.0, 90.0, 120.0]
            hi = 0.31
            try:
                Hr = set(HC.rows_of(tools.genhkl_all(cr, 0.0, hi, sgno=no, cell_choice='rhombohedral')))
                Hh = set(HC.rows_of(tools.genhkl_all(chx, 0.0, hi, sgno=no, cell_choice='standard')))
                # (hkl)_hex = (hkl)_rh . P with P = [[1,0,1],[-1,1,1],[0,-1,1]]
                P = np.array([[1, 0, 1], [-1, 1, 1], [0, -1, 1]])
                conv = set(tuple(int(x) for x in np.array(h).dot(P)) for h in Hr)
                ctx.count(('R', no), hist='search:R-centred obverse')
                # restrict to reflections safely inside the shell of both (float cut-offs)
                if conv != Hh:
                    d1, d2 = conv - Hh, Hh - conv
                    G1 = HR.recip_metric(chx)
                    edge = lambda h: abs(0.5 * math.sqrt(np.array(h).dot(G1).dot(h)) - hi) < 1e-6
                    d1 = set(h for h in d1 if not edge(h))
                    d2 = set(h for h in d2 if not edge(h))
                    if (d1 or d2):
                        cls = 'F6' if not d2 or not d1 else 'R'
                        if ('Rset', cls) not in seen:
                            seen.add(('Rset', cls))
                            fails.append({'sgno': no, 'class': 'F6' if cls == 'F6' else 'R', 'cell': cr, 'what': 'hexagonal and rhombohedral settings of group %d give different reflections (%d / %d differ)' % (no, len(d1), len(d2)),
                                          'replay': 'R-centred equivalence sgno=%d' % no})
            except Exception as e:
                fails.append({'sgno': no, 'class': 'exc', 'what': 'R-centred comparison raised %s: %s' % (type(e).__name__, e), 'replay': 'R'})
    finally:
        np.random.set_state(state)
    return fails


def replay_known(ctx, e):
    from xfab import tools
    inp = e['input']
    from xfab import sg
    s = sg.sg(sgno=inp['sgno'], cell_choice=inp['cell_choice'])
    exp = HR.expected_all(s, inp['cell'], inp['sintlmin'], inp['sintlmax'])
    got = set(HC.rows_of(tools.genhkl_all(inp['cell'], inp['sintlmin'], inp['sintlmax'], sgno=inp['sgno'], cell_choice=inp['cell_choice'])))
    return bool(exp - got)


def match_known(f, e):
    return f.get('class') == 'F6' and e.get('id', '').startswith('F6')


SPEC = dict(
    props=['props/C05.v'], want={'tables', 'ast'}, extra_targets=['gen/Corr_C05.vo'], pre_build=pre_build, search=search,
    replay_known=replay_known, match_known=match_known, timeout=2400,
    rule='theorems: all 237 regenerated settings x every hkl in the box [-7,7]^3 on the traversal\'s asymmetric unit (exhaustive on the box, vm_compute); '
         'traversal soundness for all metrics/shells/fuel. Correspondence: traversal+expansion model evaluated in Coq vs genhkl_all on cells with an exact integer '
         'reciprocal metric (shell bounds half-way between lattice values). Search: brute-force enumeration from the operator tables, random conforming cells incl. '
         'orthogonal-metric triclinic/monoclinic, by number and by name, different numpy RNG states, R-centred settings. distinct by (setting, case).',
    trusted=['Coq kernel + vm_compute', 'T2 (tables, segment literals from the AST of genhkl_base), T3 (sysabs)', 'model/Traverse.v, model/HklModel.v: hand models tied by the correspondence',
             'numpy.unique(return_index) on random projections = exact duplicate removal (probability-1 event)'],
    assumptions=['sintlmin >= 0', 'cells in the correspondence have a rational reciprocal metric; shell bounds are >= 1e-3 (relative) away from lattice values'],
)

MANIFEST = dict(
    text='Coq: for all 237 settings, sysabs (AST-translated) says "allowed" exactly when no operation of the group extinguishes the reflection, for every hkl of '
         'the box [-7,7]^3 in the traversal\'s asymmetric unit (finite, exhaustive); the segment tables of tools and laue are identical and unimodular; the traversal '
         'model only outputs allowed reflections inside the shell and inside its segment region (all metrics, unbounded); for all of Z^3 and every setting the Laue images '
         'of the cones cover every non-zero hkl (generated lia proofs); the traversal is complete whenever sin(theta)/lambda does not decrease along the loop directions, '
         'which is proved for every conforming orthorhombic, tetragonal, cubic and hexagonal-axes metric, so that there the model of genhkl_all lists every allowed '
         'reflection of the shell, each exactly once (NoDup); with the real sysabs and shells inside the box [-7,7]^3 the list is characterised by operator extinction '
         'without further hypotheses (extinction constant on Laue orbits of representatives: kernel computation). The model is tied to genhkl_all by evaluation in Coq on every run. '
         'Where the monotonicity fails (oblique triclinic/monoclinic, rhombohedral setting) the implementation does miss reflections: known finding F6.',
    design_ref='DESIGN.md section 5 C05 and section 10',
    note='Trusted: Coq kernel, vm_compute, T2/T3 translators and the generated lia proofs (checked by the kernel), the hand traversal model (correspondence). '
         'Partial: beyond the box [-7,7]^3 the agreement of sysabs with operator extinction and its Laue invariance are hypotheses of the end-to-end theorem.',
    technique='Coq: vm_compute (finite box x all tables) + induction on the fuelled traversal model + generated lia proofs over Z^3 (covering, one per family) '
              '+ correspondence by in-Coq evaluation; brute-force search',
)

"""C02 - U, B, UBI conversions"""
import math
import numpy as np
from .. import gens as G
from .. import t1check as T
from .. import driver as D


def rand_ub(rng):
    """3x3 with det > 0 and condition number < 1e6, incl. cases where numpy's R has negative diagonal entries"""
    while True:
        Q1, Q2 = G.rotation(rng, 'uniform'), G.rotation(rng, 'uniform')
        s = [10 ** rng.uniform(-2.5, 2.5) for _ in range(3)]
        M = Q1.dot(np.diag(s)).dot(Q2)
        if np.linalg.det(M) > 0 and max(s) / min(s) < 1e6:
            # any overall magnitude: the split into a rotation and a triangular factor is scale invariant
            return M * (10.0 ** rng.choice([0, 0, 0, -20, -15, -12, -8, -4, 4, 8, 12, 15, 20]))


def pre_build(ctx):
    tr = ctx.gen.get('trace')
    if not tr:
        return
    rng = ctx.rng
    n = ctx.n(40, 400)
    for short in ('tools', 'laue'):
        mt = tr[short]
        mod = mt.mod
        cases = [(G.rotation(rng), G.valid_cell(rng)) for _ in range(n)]
        T.numeric(ctx, mt, 'u_to_ubi', cases, rtol=1e-8)
        ubis = [(mod.u_to_ubi(U, c),) for U, c in cases]
        T.numeric(ctx, mt, 'ubi_to_cell', ubis, rtol=1e-7, atol=1e-7)
        T.numeric(ctx, mt, 'ubi_to_u', ubis, rtol=1e-7, atol=1e-8)
        T.numeric(ctx, mt, 'ubi_to_u_b', ubis, rtol=1e-7, atol=1e-8)
        ubs = [(rand_ub(rng),) for _ in range(n)]
        T.numeric(ctx, mt, 'ub_to_u_b', ubs, rtol=1e-7, atol=1e-8)
        # the oracle hypotheses about numpy.linalg.qr, on every sample
        neg = 0
        for (M,) in ubs + [(np.linalg.inv(u[0]),) for u in ubis]:
            Q, Rm = np.linalg.qr(M)
            sc = np.max(np.abs(M))
            ok = (np.max(np.abs(Q.T.dot(Q) - np.eye(3))) < 1e-9 and abs(Rm[1, 0]) + abs(Rm[2, 0]) + abs(Rm[2, 1]) < 1e-12 * sc
                  and np.max(np.abs(Q.dot(Rm) - M)) < 1e-9 * sc)
            neg += int(min(np.diag(Rm)) < 0)
            ctx.count(('qr', M.tobytes()), hist='oracle:qr_spec')
            if not ok:
                ctx.broken.append(D.Broken('correspondence', 'numpy.linalg.qr violates the oracle hypotheses qr_spec', repr(M.tolist())))
        ctx.dist['oracle:qr negative diagonal in R'] = ctx.dist.get('oracle:qr negative diagonal in R', 0) + neg


def check(mod, kappa, U, c, h, M):
    B = mod.form_b_mat(c)
    ubi = mod.u_to_ubi(U, c)
    g = U.dot(B).dot(h)
    if G.maxerr(ubi.dot(g), kappa * np.asarray(h, float)) > 1e-7 * max(1, np.max(np.abs(h))):
        return 'UBI.(U.B.hkl) != kappa hkl'
    if G.maxerr(mod.ubi_to_cell(ubi), c) > 1e-6:
        return 'ubi_to_cell(u_to_ubi(U, cell)) != cell'
    if G.maxerr(mod.ubi_to_u(ubi), U) > 1e-7:
        return 'ubi_to_u(u_to_ubi(U, cell)) != U'
    U2, B2 = mod.ubi_to_u_b(ubi)
    if G.maxerr(U2, U) > 1e-7 or G.maxerr(B2, B) > 1e-7 * np.max(np.abs(B)):
        return 'ubi_to_u_b(u_to_ubi(U, cell)) != (U, B)'
    Us, Bs = mod.ub_to_u_b(M)
    sc = np.max(np.abs(M))
    if G.maxerr(Us.dot(Bs), M) > 1e-8 * sc:
        return 'ub_to_u_b: U.B != UB'
    if G.maxerr(Us.T.dot(Us), np.eye(3)) > 1e-8 or abs(np.linalg.det(Us) - 1) > 1e-8:
        return 'ub_to_u_b: U is not a proper rotation'
    if abs(Bs[1, 0]) + abs(Bs[2, 0]) + abs(Bs[2, 1]) > 1e-10 * sc or min(np.diag(Bs)) <= 0:
        return 'ub_to_u_b: B is not upper triangular with positive diagonal'
    if abs(1 + np.trace(U)) > 1e-4 and G.maxerr(mod.ubi_to_rod(ubi), mod.u_to_rod(U)) > 1e-6 * max(1, np.max(np.abs(mod.u_to_rod(U)))):
        return 'ubi_to_rod(ubi) != u_to_rod(U)'
    return None


def search(ctx):
    from xfab import tools, laue
    import xfab
    fails = []
    old = xfab.CHECKS.activated
    xfab.CHECKS.activated = False
    try:
        for modname, mod, kappa in (('tools', tools, 2 * math.pi), ('laue', laue, 1.0)):
            for i in range(ctx.n(300, 5000)):
                U = G.rotation(ctx.rng)
                c = G.valid_cell(ctx.rng, oblique=ctx.rng.random() < 0.8) if i % 3 else G.special_cell(ctx.rng)      # one in three: exact or almost exact 90 / 60 / 120 degree angles, equal axes
                h = G.hkl(ctx.rng)
                M = rand_ub(ctx.rng)
                try:
                    why = check(mod, kappa, U, c, h, M)
                except Exception as e:
                    why = 'raised %s: %s' % (type(e).__name__, e)
                ctx.count(('s', modname, i), hist='search:' + modname, sample={'module': modname, 'U': U.tolist(), 'cell': c, 'hkl': h} if i == 0 else None)
                if why:
                    fails.append({'module': modname, 'U': U.tolist(), 'cell': c, 'hkl': h, 'UB': M.tolist(), 'what': why,
                                  'replay': 'xfab.%s: %s' % (modname, why)})
                    if len(fails) > 10:
                        return fails
    finally:
        xfab.CHECKS.activated = old
    return fails


SPEC = dict(
    props=['props/C02_laue.v', 'props/C02_tools.v'], want={'trace'}, pre_build=pre_build, search=search,
    replay_known=lambda ctx, e: False,
    rule='theorems: all proper rotations U, all valid cells, all real hkl, all matrices with det > 0 (QR as an oracle constrained by qr_spec). '
         'Correspondence: generated models vs implementation on uniform/axis/near-singular rotations x oblique cells, random det>0 matrices with '
         'condition number < 1e6; qr_spec checked on every sample. distinct by (module, function, input).',
    trusted=['Coq kernel; R axioms', 'T1 tracer', 'numpy.linalg.qr modelled as an oracle satisfying qr_spec (checked on samples, counted)',
             'numpy.linalg.inv = adjugate/det'],
    assumptions=['floats modelled by reals'],
)

MANIFEST = dict(
    text='15 Coq theorems for all rotations/cells/hkl: UBI.(U.B.h) = kappa h; ubi_to_cell, ubi_to_u, ubi_to_u_b invert u_to_ubi exactly; '
         'ub_to_u_b returns the unique (rotation, upper-triangular positive-diagonal) factorisation for any QR the oracle may return.',
    design_ref='DESIGN.md section 5 C02',
    note='Trusted: Coq kernel, R axioms, T1 tracer, QR oracle hypotheses (is_orth Q, upper R, QR = UB) validated on every sampled matrix.',
    technique='Coq proof over R of generated model; QR as section-style oracle with explicit hypotheses',
)

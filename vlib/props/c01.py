"""C01 - cell / A / B / volume / sintl share one metric"""
import math
import numpy as np
from .. import gens as G
from .. import t1check as T
from .. import driver as D

FUNCS = ['cell_volume', 'form_a_mat', 'form_b_mat', 'cell_invert', 'a_to_cell', 'b_to_cell', 'sintl', 'form_a_mat_inv']
INTERVAL = ['cell_volume', 'form_a_mat', 'form_b_mat', 'sintl']   # no acos / minv inside: evaluable by `interval`

UNFOLD = ('cbv beta zeta iota delta [%s c0 c1 c2 c3 c4 c5 m00 m01 m02 m10 m11 m12 m20 m21 m22 vx vy vz p0 p1].')

CORR_HEADER = '''(* GENERATED on every run: certified interval evaluation of the generated definitions at the
   inputs on which the implementation was run; values are the implementation's outputs. *)
From Coq Require Import Reals.
From Interval Require Import Tactic.
From XV Require Import RealLib Mat3 Atan2 Cell Gen_laue Gen_tools.
Open Scope R_scope.

'''


def cases(ctx, n):
    out = []
    fixed = [[3, 4, 5, 80, 95, 100], [5, 6, 7, 50, 60, 70], [4, 4, 4, 90, 90, 90], [5, 5, 12, 90, 90, 120], [7.1, 8.2, 9.3, 140, 40, 110.5]]
    for c in fixed:
        if G.gram(*c[3:]) >= 0.02:
            out.append(c)
    while len(out) < n:
        if ctx.rng.random() < 0.3:
            out.append(G.special_cell(ctx.rng))
        else:
            out.append(G.valid_cell(ctx.rng, oblique=ctx.rng.random() < 0.85))
        if ctx.rng.random() < 0.15:
            # any overall size: sub-Angstrom model lattices up to protein / virus cells of thousands of Angstrom (the metric relations are scale free)
            k = 10 ** ctx.rng.uniform(-1.5, 2.7)
            out[-1] = [x * k for x in out[-1][:3]] + list(out[-1][3:])
    return out


def pre_build(ctx):
    """T1 validation (numeric) + emit Corr_C01.v"""
    tr = ctx.gen.get('trace')
    if not tr:
        return
    n = ctx.n(40, 400)
    cells = cases(ctx, n)
    goals = []
    for short in ('tools', 'laue'):
        mt = tr[short]
        impl = mt.mod
        for fn in FUNCS:
            if fn in ('cell_volume', 'form_a_mat', 'form_b_mat', 'cell_invert', 'form_a_mat_inv'):
                args = [(c,) for c in cells]
            elif fn == 'a_to_cell':
                args = [(impl.form_a_mat(c),) for c in cells]
            elif fn == 'b_to_cell':
                args = [(impl.form_b_mat(c),) for c in cells]
            else:
                args = [(c, G.hkl(ctx.rng)) for c in cells]
            ok = T.numeric(ctx, mt, fn, args)
            if fn in INTERVAL:
                names = ' '.join('%s_%s' % (short, f) for f in ('cell_volume', 'form_a_mat', 'form_b_mat', 'sintl'))
                gs = T.interval_goals(mt, fn, ok[:ctx.n(2, 8)], eps=1e-9, maxgoals=ctx.n(6, 30))
                goals += [g.replace('%UNFOLD%', UNFOLD % names) for g in gs]
    ctx.cov['interval_goals'] = len(goals)
    D.write_if_changed(D.GEN + '/Corr_C01.v', CORR_HEADER + '\n'.join(goals))


# ---- search harness: the property stated numerically against the implementation only -------------------------
def check_cell(mod, kappa, c, h):
    """returns None or a description of what fails for this cell (independent oracle: metric from 6 parameters)"""
    Gm = G.metric(c)
    A = mod.form_a_mat(c)
    B = mod.form_b_mat(c)
    tol = 1e-8
    sc = max(1.0, float(np.max(np.abs(Gm))))

    def upper_pos(M):
        return abs(M[1, 0]) + abs(M[2, 0]) + abs(M[2, 1]) < 1e-12 * sc and M[0, 0] > 0 and M[1, 1] > 0 and M[2, 2] > 0
    if not upper_pos(A):
        return 'form_a_mat not upper triangular with positive diagonal'
    if not upper_pos(B):
        return 'form_b_mat not upper triangular with positive diagonal'
    if G.maxerr(A.T.dot(A), Gm) > tol * sc:
        return "A'A != metric"
    if G.maxerr(B.T.dot(B).dot(Gm), kappa ** 2 * np.eye(3)) > 1e-7 * kappa ** 2:
        return "B'B . metric != kappa^2 I"
    V = mod.cell_volume(c)
    if abs(np.linalg.det(A) - V) > tol * abs(V):
        return 'det A != cell_volume'
    if abs(V * V - np.linalg.det(Gm)) > 1e-7 * V * V:
        return 'volume^2 != det metric'
    s = mod.sintl(c, h)
    if abs(s - np.linalg.norm(B.dot(h)) / (2 * kappa)) > tol * max(1, s):
        return 'sintl != |B.hkl|/(2 kappa)'
    if G.maxerr(mod.a_to_cell(A), c) > 1e-6:
        return 'a_to_cell(form_a_mat(cell)) != cell'
    if G.maxerr(mod.b_to_cell(B), c) > 1e-6:
        return 'b_to_cell(form_b_mat(cell)) != cell'
    r = mod.cell_invert(c)
    if G.maxerr(G.metric(r).dot(Gm), np.eye(3)) > 1e-7:
        return 'metric(cell_invert(cell)) is not the inverse metric'
    if G.maxerr(mod.cell_invert(r), c) > 1e-6:
        return 'cell_invert(cell_invert(cell)) != cell'
    if G.maxerr(mod.form_a_mat_inv(c).dot(A), np.eye(3)) > 1e-8:
        return 'form_a_mat_inv . form_a_mat != I'
    return None


def search(ctx):
    from xfab import tools, laue
    fails = []
    n = ctx.n(300, 5000)
    cells = cases(ctx, n)
    for modname, mod, kappa in (('tools', tools, 2 * math.pi), ('laue', laue, 1.0)):
        for c in cells:
            h = G.hkl(ctx.rng)
            try:
                why = check_cell(mod, kappa, c, h)
            except Exception as e:
                why = 'raised %s: %s' % (type(e).__name__, e)
            obl = 'oblique' if max(abs(x - 90) for x in c[3:]) > 15 else 'near-orthogonal'
            ctx.count(('search', modname, tuple(c), tuple(h)), hist='search:%s:%s' % (modname, obl),
                      sample={'module': modname, 'cell': c, 'hkl': h})
            if why:
                fails.append({'module': modname, 'cell': c, 'hkl': h, 'what': why,
                              'replay': 'xfab.%s on cell=%r hkl=%r: %s' % (modname, c, h, why)})
                if len(fails) >= 5:
                    return fails
    return fails


SPEC = dict(
    props=['props/C01_laue.v', 'props/C01_tools.v'], want={'trace'}, extra_targets=['gen/Corr_C01.vo'],
    pre_build=pre_build, search=search, replay_known=lambda ctx, e: False,
    rule='theorems: universally quantified over R (all valid cells, all real hkl). Correspondence cases: valid cells '
         '(5 fixed + random: 30% with angles drawn from {90,60,120,random} and repeated lengths, the rest 85% oblique with angles 35..145 deg; Gram det >= 0.02) x 8 functions x 2 modules; a case is '
         'distinct by (module, function, arguments); search cases distinct by (module, cell, hkl).',
    trusted=['Coq 8.16.1 kernel (vm_compute not used for C01; Interval tactic uses primitive floats/ints)',
             'T1 symbolic tracer vlib/sym.py+trace.py and its numpy shims (pi, zeros, linalg.inv/det/norm, math.degrees), validated numerically and by certified interval evaluation on this run',
             'spec/Cell.v: definition of the metric tensor and of valid_cell',
             'real arithmetic stands for IEEE doubles'],
    assumptions=['floats modelled by R; numpy.linalg.inv = adjugate/determinant',
                 'degrees->radians as x*PI/180 exactly'],
)

MANIFEST = dict(
    text='28 Coq theorems, universally quantified over all valid cells and all real hkl, about definitions regenerated from '
         'tools.py/laue.py on every run by symbolic tracing: A and B upper triangular with positive diagonal, A\'A = metric, '
         '(B\'B).metric = kappa^2 I, det A = V, V^2 = det metric, sintl = |B h|/(2 kappa), a_to_cell/b_to_cell/cell_invert/'
         'form_a_mat_inv are true inverses. An algebraic identity over a 6-dimensional continuum is exactly what a proof settles.',
    design_ref='DESIGN.md section 5 C01',
    note='Trusted: Coq kernel; R axioms of the stdlib (sig_forall_dec, sig_not_dec, functional_extensionality_dep) and, for the '
         'non-vacuity example and the interval correspondence goals, Classical_Prop.classic + primitive int/float specs; the T1 '
         'tracer (validated each run numerically and by certified interval evaluation of the emitted Coq text); floats modelled by reals.',
    technique='Coq proof over R of generated model (field + nsatz); model regenerated by symbolic tracing each run',
)

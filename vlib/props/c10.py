"""C10 - detector pixel lies on the scattered ray"""
import math
import numpy as np
from .. import gens as G
from .. import t1check as T
from .. import driver as D


def case(rng):
    tth = math.radians(rng.uniform(0.5, 60))
    eta = rng.uniform(-math.pi, 2 * math.pi)
    L = 10 ** rng.uniform(1, 3)
    py, pz = 10 ** rng.uniform(-2, -0.3), 10 ** rng.uniform(-2, -0.3)
    y0, z0 = rng.uniform(-500, 2500), rng.uniform(-500, 2500)
    k = rng.random()
    tilts = [rng.uniform(-0.3, 0.3) if rng.random() < 0.85 else 0.0 for _ in range(3)]
    pos = [rng.uniform(-2, 2) if rng.random() < 0.85 else 0.0 for _ in range(3)]
    if rng.random() < 0.12 and (tilts[1] != 0 or tilts[2] != 0):
        # the scattered ray (almost) along the normal of the tilted detector: 2theta and eta taken from the first column of Rx.Ry.Rz, then moved by 0 .. 1e-4 rad
        nrm = G.Rx(tilts[0]).dot(G.Ry(tilts[1])).dot(G.Rz(tilts[2]))[:, 0]
        t0 = math.acos(max(-1.0, min(1.0, nrm[0])))
        if math.radians(0.5) < t0 < math.radians(60):
            d = rng.choice([0.0, 1e-9, 1e-7, 3e-6, 8e-6, 5e-5]) * rng.choice([-1, 1])
            tth = t0 + d
            eta = math.atan2(-nrm[1], nrm[2]) + rng.choice([0.0, d, -d])
    return tth, eta, L, py, pz, y0, z0, tilts, pos


def pre_build(ctx):
    tr = ctx.gen.get('trace')
    if not tr:
        return
    from xfab import tools
    mt = tr['detector']
    n = ctx.n(60, 600)
    a1, a2, a3 = [], [], []
    for _ in range(n):
        tth, eta, L, py, pz, y0, z0, tilts, pos = case(ctx.rng)
        Rt = tools.detect_tilt(*tilts)
        wl = ctx.rng.uniform(0.1, 1.0)
        v = np.array([math.cos(tth), -math.sin(tth) * math.sin(eta), math.sin(tth) * math.cos(eta)])
        Gt = np.array([ctx.rng.uniform(-1, 1), v[1] * 2 * math.pi / wl, v[2] * 2 * math.pi / wl])
        a1.append((Gt, math.cos(tth), wl, L, py, pz, y0, z0, Rt, pos[0], pos[1], pos[2]))
        a2.append((tth, eta, L, py, pz, y0, z0, Rt, pos[0], pos[1], pos[2]))
        a3.append((ctx.rng.uniform(0, 2000), ctx.rng.uniform(0, 2000), L, py, pz, y0, z0, Rt))
    T.numeric(ctx, mt, 'det_coor', a1, rtol=1e-9, atol=1e-7)
    T.numeric(ctx, mt, 'det_coor2', a2, rtol=1e-9, atol=1e-7)
    T.numeric(ctx, mt, 'detector_to_lab', a3, rtol=1e-9, atol=1e-9)


def search(ctx):
    from xfab import detector, tools
    fails = []
    for i in range(ctx.n(500, 10000)):
        tth, eta, L, py, pz, y0, z0, tilts, pos = case(ctx.rng)
        # independent tilt matrix
        Rt_or = G.Rx(tilts[0]).dot(G.Ry(tilts[1])).dot(G.Rz(tilts[2]))
        Rt = tools.detect_tilt(*tilts)
        v = np.array([math.cos(tth), -math.sin(tth) * math.sin(eta), math.sin(tth) * math.cos(eta)])
        wl = 0.5
        Gt = np.array([0.123, v[1] * 2 * math.pi / wl, v[2] * 2 * math.pi / wl])
        why = None
        try:
            p1 = detector.det_coor(Gt, math.cos(tth), wl, L, py, pz, y0, z0, Rt, *pos)
            p2 = detector.det_coor2(tth, eta, L, py, pz, y0, z0, Rt, *pos)
            scale = L / min(py, pz)
            if G.maxerr(p1, p2) > 1e-9 * scale:
                why = 'det_coor and det_coor2 disagree for the same ray'
            else:
                # independent oracle: intersect the ray with the detector plane (normal = first column of the tilt matrix through (L,0,0))
                nrm = Rt_or[:, 0]
                t = nrm.dot(np.array([L, 0, 0]) - np.array(pos)) / nrm.dot(v)
                hit = np.array(pos) + t * v
                lab = np.array(detector.detector_to_lab(p2[0], p2[1], L, py, pz, y0, z0, Rt))
                d = lab - np.array(pos)
                off = np.linalg.norm(np.cross(d, v))
                if off > 1e-8 * L or d.dot(v) <= 0:
                    why = 'detector_to_lab(det_coor2(...)) is not on the forward scattered ray (distance %.3g)' % off
                elif np.linalg.norm(lab - hit) > 1e-7 * L:
                    why = 'pixel is not where the ray meets the tilted detector plane (off by %.3g)' % np.linalg.norm(lab - hit)
        except Exception as e:
            why = 'raised %s: %s' % (type(e).__name__, e)
        nz = sum(1 for x in tilts if x != 0) * 10 + sum(1 for x in pos if x != 0)
        ctx.count(('s', i), hist='search:tilts,offsets nonzero=%02d' % nz,
                  sample={'tth': tth, 'eta': eta, 'L': L, 'py': py, 'pz': pz, 'y0': y0, 'z0': z0, 'tilts': tilts, 'pos': pos} if i == 0 else None)
        if why:
            fails.append({'tth': tth, 'eta': eta, 'L': L, 'py': py, 'pz': pz, 'y0': y0, 'z0': z0, 'tilts': tilts, 'pos': pos, 'what': why,
                          'replay': 'xfab.detector: ' + why})
            if len(fails) > 5:
                break
    return fails


SPEC = dict(
    props=['props/C10.v'], want={'trace'}, pre_build=pre_build, search=search, replay_known=lambda ctx, e: False,
    rule='theorems: all real parameters with a proper rotation as tilt matrix, non-zero pixel sizes, ray not parallel to the detector. '
         'Correspondence: generated det_coor/det_coor2/detector_to_lab vs implementation; search: 2theta in (0.5,60) deg, all eta, tilts in [-0.3,0.3], '
         'L 10..1000, pixel 0.01..0.5, offsets +-2, any beam centre; oracle = ray/plane intersection with an independently built Rx.Ry.Rz. distinct by case index.',
    trusted=['Coq kernel; R axioms', 'T1 tracer'], assumptions=['floats modelled by reals'],
)

MANIFEST = dict(
    text='Coq theorems for all parameters: det_coor = det_coor2 for the same ray; detector_to_lab(det_coor2(...)) = grain position + t.v exactly, with the '
         'code\'s own t, for every proper rotation as tilt matrix (nsatz in the orthonormality ideal); t > 0 under the stated sign conditions; '
         'detect_tilt is a proper rotation (from C03).',
    design_ref='DESIGN.md section 5 C10',
    note='Trusted: Coq kernel, R axioms, T1 tracer. Forward direction on the quantifier box is checked numerically, the theorem gives the sign condition.',
    technique='Coq proof over R of generated model (field + nsatz)',
)

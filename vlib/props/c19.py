"""C19 - parameters survive save/load and follow a dictionary model under any call sequence"""
import os
import math
import struct
import tempfile
from .. import driver as D

NAMES = ['a', 'b', 'cell__a', 'wave-length', 'o11', 'fit-tol', 'name', 'chi', 't_x', 'y-size', 'z_size', 'dist', 'k2']


def rand_value(rng, for_file=False):
    k = rng.random()
    if k < 0.3:
        return rng.choice([0, 1, -1, 7, 2 ** 31, -2 ** 63, 2 ** 63, 9007199254740993, 10 ** 25, 10 ** 400, -(10 ** 309), rng.randint(-10 ** 6, 10 ** 6)])
    if k < 0.6:
        return rng.choice([0.0, -0.0, 1.0, 0.1, 1e-300, 1e300, 5e-324, 2.5e-7, 123456789.123456789, float(rng.randint(-99, 99)) / 7, rng.uniform(-1e6, 1e6), 1e22, 1e16])
    if k < 0.7 and not for_file:
        return rng.choice(['1_0', '+5', '1e5', ' 12 ', '0x10', 'nan', '-inf', '3.', '.5', '1 2'])
    return rng.choice(['abc', 'P21/c', 'file.par', 'x', 'None', 'True', 'tick', '/data/id11', 'O-rings', 'run#3', '#tag', 'a=b;c', '%s', '"q"', 'e',
                       '5.43071(12)', '1.5(2)', '12(3)', 'P2(1)/c', '1.2.3', '1e', 'e5', '1,5', '1.5e+', '3+4j', '0b11', '1/2', '--1', '1.0f', '1e5x', '(1.5)', '1.5()', '2.(3)'])


class Model(object):
    """plain dictionary model"""

    def __init__(self):
        self.d = {}
        self.varylist = []
        self.variable_list = []

    @staticmethod
    def coerce(v):
        if isinstance(v, str):
            try:
                vf = float(v)
            except ValueError:
                return v.strip()
            try:
                return int(v)
            except ValueError:
                return vf
        return v


def same(a, b):
    if type(a) != type(b):
        return False
    if isinstance(a, float):
        return struct.pack('>d', a) == struct.pack('>d', b) or (a != a and b != b)
    return a == b


def run_history(rng, tmpdir, length):
    from xfab import parameters as P
    p = P.parameters()
    m = Model()
    hist = []
    for step in range(length):
        op = rng.choice(['addpar', 'addpar', 'set', 'set_parameters', 'set_varylist', 'set_variable_values', 'update_other', 'update_yourself', 'get', 'saveload'])
        try:
            if op == 'addpar':
                name, val = rng.choice(NAMES), rand_value(rng)
                vary, can = rng.random() < 0.4, rng.random() < 0.7
                hist.append((op, name, repr(val), vary, can))
                p.addpar(P.par(name, val, vary=vary, can_vary=can, stepsize=0.1))
                m.d[name] = val
                if vary and name not in m.varylist:
                    m.varylist.append(name)
                if can and name not in m.variable_list:
                    m.variable_list.append(name)
            elif op == 'set':
                name, val = rng.choice(NAMES), rand_value(rng)
                hist.append((op, name, repr(val)))
                p.set(name, val)
                m.d[name] = val
            elif op == 'set_parameters':
                upd = dict((rng.choice(NAMES), rand_value(rng)) for _ in range(rng.randint(0, 3)))
                hist.append((op, repr(upd)))
                p.set_parameters(dict(upd))
                m.d.update(upd)
                for k in list(m.d):
                    m.d[k] = Model.coerce(m.d[k])
            elif op == 'set_varylist':
                vl = [rng.choice(NAMES) for _ in range(rng.randint(0, 3))] if rng.random() < 0.4 else rng.sample(m.variable_list, min(len(m.variable_list), rng.randint(0, 3)))
                hist.append((op, list(vl)))
                ok = all(v in m.d and v in m.variable_list for v in vl)
                try:
                    p.set_varylist(list(vl))
                    if not ok:
                        return hist, 'set_varylist accepted names that are not variable parameters'
                    m.varylist = list(vl)
                except AssertionError:
                    if ok:
                        return hist, 'set_varylist rejected a valid list'
            elif op == 'set_variable_values':
                n = len(m.varylist) if rng.random() < 0.8 else len(m.varylist) + 1
                vals = [rand_value(rng) for _ in range(n)]
                hist.append((op, repr(vals)))
                try:
                    p.set_variable_values(list(vals))
                    if n != len(m.varylist):
                        return hist, 'set_variable_values accepted a list of the wrong length'
                    for k, v in zip(m.varylist, vals):
                        m.d[k] = v
                except AssertionError:
                    if n == len(m.varylist):
                        return hist, 'set_variable_values rejected a list of the right length'
            elif op in ('update_other', 'update_yourself'):
                class O(object):
                    pass
                o = O()
                attrs = dict((rng.choice([n_ for n_ in NAMES if '-' not in n_]), rand_value(rng)) for _ in range(rng.randint(0, 3)))
                for k, v in attrs.items():
                    setattr(o, k, v)
                hist.append((op, repr(attrs)))
                if op == 'update_other':
                    p.update_other(o)
                    for k in attrs:
                        exp = m.d[k] if k in m.d else attrs[k]
                        if not same(getattr(o, k), exp):
                            return hist, 'update_other did not copy %s' % k
                else:
                    p.update_yourself(o)
                    for k in attrs:
                        if k in m.d:
                            m.d[k] = attrs[k]
            elif op == 'get':
                name = rng.choice(NAMES)
                hist.append((op, name))
                try:
                    v = p.get(name)
                    if name not in m.d or not same(v, m.d[name]):
                        return hist, 'get(%r) = %r, dictionary model has %r' % (name, v, m.d.get(name, '<absent>'))
                except KeyError:
                    if name in m.d:
                        return hist, 'get(%r) raised KeyError' % name
            elif op == 'saveload':
                hist.append((op,))
                fn = os.path.join(tmpdir, 'p.par')
                p.saveparameters(fn)
                q = P.parameters()
                q.loadparameters(fn)
                exp = {}
                for k, v in m.d.items():
                    sv = str(v)
                    if ' ' in sv or '\n' in sv or ' ' in k or sv == '':
                        continue              # not representable in the file format
                    exp[k.replace('-', '_')] = Model.coerce(sv) if isinstance(v, str) else v
                got = q.get_parameters()
                for k, v in exp.items():
                    if k not in got or not same(got[k], v):
                        return hist, 'after save/load %r is %r (%s), was %r (%s)' % (k, got.get(k, '<absent>'), type(got.get(k)).__name__, v, type(v).__name__)
                if set(got) - set(exp) - set(k.replace('-', '_') for k in m.d):
                    return hist, 'save/load invented parameters %r' % (set(got) - set(exp),)
        except Exception as e:
            return hist, 'raised %s: %s' % (type(e).__name__, e)
        # invariants after every step
        gp = p.get_parameters()
        if set(gp) != set(m.d) or any(not same(gp[k], m.d[k]) for k in m.d):
            return hist, 'get_parameters() differs from the dictionary model'
        vv = p.get_variable_values()
        if len(vv) != len(m.varylist) or any(not same(a, m.d[k]) for a, k in zip(vv, m.varylist)):
            return hist, 'get_variable_values() does not follow varylist order'
    return hist, None


def cstr(s):
    return '(' + ''.join('String (Ascii.ascii_of_nat %d) (' % ord(c) for c in s) + 'EmptyString' + ')' * len(s) + ')'


def fbits(f):
    return struct.unpack('>q', struct.pack('>d', f))[0]


def cval(v):
    if isinstance(v, bool):
        raise ValueError
    if isinstance(v, int):
        return '(VInt Z (%d))' % v
    if isinstance(v, float):
        return '(VFloat Z (%d))' % fbits(v)
    return '(VStr Z %s)' % cstr(v)


def pre_build(ctx):
    """the Coq state machine evaluated on random call histories against the real class; Python's float()/int() enter as finite
    tables for exactly the strings that occur (floats are represented by their IEEE bit patterns)"""
    from xfab import parameters as P
    rng = ctx.rng
    cases = []
    strings = set()
    for _ in range(ctx.n(60, 600)):
        p = P.parameters()
        ops = []
        for step in range(rng.randint(1, 30)):
            kind = rng.choice(['addpar', 'addpar', 'set', 'set_parameters', 'set_varylist', 'set_variable_values', 'update_yourself'])
            try:
                if kind == 'addpar':
                    k, v, vy, cv = rng.choice(NAMES), rand_value(rng), rng.random() < 0.4, rng.random() < 0.7
                    p.addpar(P.par(k, v, vary=vy, can_vary=cv))
                    ops.append('Addpar Z %s %s %s %s' % (cstr(k), cval(v), str(vy).lower(), str(cv).lower()))
                elif kind == 'set':
                    k, v = rng.choice(NAMES), rand_value(rng)
                    p.set(k, v)
                    ops.append('SetV Z %s %s' % (cstr(k), cval(v)))
                elif kind == 'set_parameters':
                    upd = [(rng.choice(NAMES), rand_value(rng)) for _ in range(rng.randint(0, 3))]
                    p.set_parameters(dict(upd))
                    # dict(upd) keeps the last value of a repeated key at the position of its first occurrence: same lookups as sequential updates
                    ops.append('SetParameters Z [%s]' % '; '.join('(%s, %s)' % (cstr(k), cval(v)) for k, v in upd))
                elif kind == 'set_varylist':
                    vl = [rng.choice(NAMES) for _ in range(rng.randint(0, 3))] if rng.random() < 0.4 else rng.sample(p.variable_list, min(len(p.variable_list), rng.randint(0, 3)))
                    ops.append('SetVarylist Z [%s]' % '; '.join(cstr(k) for k in vl))
                    try:
                        p.set_varylist(list(vl))
                    except AssertionError:
                        pass
                elif kind == 'set_variable_values':
                    n = len(p.varylist) if rng.random() < 0.8 else len(p.varylist) + 1
                    vals = [rand_value(rng) for _ in range(n)]
                    ops.append('SetVariableValues Z [%s]' % '; '.join(cval(v) for v in vals))
                    try:
                        p.set_variable_values(list(vals))
                    except AssertionError:
                        pass
                else:
                    class O(object):
                        pass
                    o = O()
                    attrs = [(rng.choice([n_ for n_ in NAMES if '-' not in n_]), rand_value(rng)) for _ in range(rng.randint(0, 3))]
                    for k, v in attrs:
                        setattr(o, k, v)
                    p.update_yourself(o)
                    seenk = {}
                    for k, v in attrs:
                        seenk[k] = v
                    ops.append('UpdateYourself Z [%s]' % '; '.join('(%s, %s)' % (cstr(k), cval(v)) for k, v in seenk.items()))
            except OverflowError:
                ops = None
                break
        if ops is None:
            continue
        for d in (p.get_parameters(),):
            for v in d.values():
                if isinstance(v, str):
                    strings.add(v)
        exp = '[%s]' % '; '.join('(%s, %s)' % (cstr(k), ('Some ' + cval(p.get_parameters()[k])) if k in p.get_parameters() else 'None') for k in NAMES)
        cases.append('(([%s]), %s, [%s])' % ('; '.join(ops), exp, '; '.join(cstr(k) for k in p.varylist)))
        ctx.count(('corr', len(cases)), hist='corr:history length %02d+' % (10 * (len(ops) // 10)), sample={'ops': len(ops)} if len(cases) == 1 else None)
        ctx.cov['disagreements_checked'] += 1
    # every string that occurs anywhere as a value may be coerced: tabulate float()/int() for the string literals in the file
    import re as _re
    allstr = set()
    for v in [rand_value(rng) for _ in range(400)] + ['1_0', '+5', '1e5', ' 12 ', '0x10', 'nan', '-inf', '3.', '.5', '1 2', 'abc', 'P21/c', 'file.par', 'x', 'None', 'True', 'tick', '/data/id11', 'O-rings', 'run#3', '#tag', 'a=b;c', '%s', '"q"', 'e']:
        if isinstance(v, str):
            allstr.add(v)
    pf, pi = [], []
    for sv in sorted(allstr):
        try:
            f = float(sv)
            pf.append('(%s, Some (%d))' % (cstr(sv), fbits(f)) if f == f else '(%s, Some (%d))' % (cstr(sv), fbits(float('nan'))))
        except ValueError:
            pf.append('(%s, None)' % cstr(sv))
        try:
            pi.append('(%s, Some (%d))' % (cstr(sv), int(sv)))
        except ValueError:
            pi.append('(%s, None)' % cstr(sv))
    text = ('(* GENERATED on every run: the state-machine model evaluated on call histories run against the real class *)\n'
            'From Coq Require Import ZArith List Bool Ascii String.\nFrom XV Require Import SGroup Ingest Params.\nImport ListNotations.\nOpen Scope Z_scope.\n'
            'Definition tab_f : list (string * option Z) := [%s].\nDefinition tab_i : list (string * option Z) := [%s].\n'
            'Fixpoint tl (t : list (string * option Z)) (s : string) : option Z := match t with [] => None | (k, v) :: r => if String.eqb k s then v else tl r s end.\n'
            'Definition pf := tl tab_f.\nDefinition pi := tl tab_i.\n'
            'Definition veqb (a b : value Z) : bool := match a, b with VInt _ x, VInt _ y => x =? y | VFloat _ x, VFloat _ y => x =? y | VStr _ x, VStr _ y => String.eqb x y | _, _ => false end.\n'
            'Definition oeqb (a b : option (value Z)) : bool := match a, b with Some x, Some y => veqb x y | None, None => true | _, _ => false end.\n'
            'Definition ok (c : list (op Z) * list (string * option (value Z)) * list string) : bool :=\n'
            '  let \'(ops, exp, vl) := c in let s := run Z pf pi ops in\n'
            '  forallb (fun kv => oeqb (get Z s (fst kv)) (snd kv)) exp && list_eqb String.eqb (varylist Z s) vl.\n'
            'Goal forallb ok [\n%s\n] = true.\nProof. vm_compute. reflexivity. Qed.\n' % ('; '.join(pf), '; '.join(pi), ';\n'.join(cases)))
    D.write_if_changed(D.GEN + '/Corr_C19.v', text)


def search(ctx):
    fails = []
    seen = set()
    tmp = tempfile.mkdtemp(prefix='c19_', dir=D.BUILD)
    try:
        for i in range(ctx.n(400, 6000)):
            L = ctx.rng.randint(1, 30)
            hist, why = run_history(ctx.rng, tmp, L)
            ctx.count(('hist', i), hist='search:history length %02d-%02d' % (10 * (L // 10), 10 * (L // 10) + 9), sample={'history': hist[:6]} if i == 0 else None)
            if why and why[:30] not in seen:
                seen.add(why[:30])
                fails.append({'history': hist, 'what': why, 'replay': why})
    finally:
        for f in os.listdir(tmp):
            os.remove(os.path.join(tmp, f))
        os.rmdir(tmp)
    return fails


SPEC = dict(
    props=['props/C19.v'], want=set(), extra_targets=['gen/Corr_C19.vo'], pre_build=pre_build, search=search, replay_known=lambda ctx, e: False,
    rule='theorems: all operation sequences (unbounded length) of the state-machine model; save/load for all well-formed states with abstract float printing. '
         'Correspondence/search: random histories (length 1..30) of addpar, set, set_parameters, set_varylist, set_variable_values, update_other, update_yourself, get, '
         'save+load on the real class against a plain dictionary; values incl. -0.0, denormals, 2^63, 10^25, numeric-looking strings, hyphenated names. distinct by history.',
    trusted=['Coq kernel', 'model/Params.v (hand model, tied by the history correspondence)', 'float printing/parsing as abstract functions with parse(print f) = f'],
    assumptions=['repr/str of a Python float round-trips through float()'],
)

MANIFEST = dict(
    text='Coq: a state-machine model of the parameters class refines a plain dictionary for every finite operation sequence (induction over the sequence): get / '
         'get_parameters return the last value written, get_variable_values follows varylist order, failed assertions leave the state unchanged; save then load gives '
         'back the same mapping for ints, floats (abstract printer with parse o print = id) and space-free non-numeric strings, with hyphens in names mapped to '
         'underscores. Tied to the real class by random histories.',
    design_ref='DESIGN.md section 5 C19',
    note='Trusted: Coq kernel, the hand model (correspondence by random histories), float repr round trip as a hypothesis.',
    technique='Coq refinement proof by induction over operation sequences on a hand model; differential histories against the implementation',
)

"""C14 - tools and laue agree except for the 2 pi convention"""
import math
import inspect
import numpy as np
from .. import gens as G
from .. import driver as D

TWO_PI = 2 * math.pi


def eq(a, b, rtol=1e-9, atol=1e-11):
    if isinstance(a, (tuple, list)) and isinstance(b, (tuple, list)) and len(a) == len(b) and len(a) and not np.isscalar(a[0]):
        return all(eq(x, y, rtol, atol) for x, y in zip(a, b))
    a = np.asarray(a, dtype=float)
    b = np.asarray(b, dtype=float)
    if a.shape != b.shape:
        return False
    return bool(np.all(np.abs(a - b) <= atol + rtol * np.maximum(np.abs(a), np.abs(b))))


def sorted_rows(a):
    a = np.asarray(a, float)
    if a.size == 0:
        return a
    return a[np.lexsort(a.T[::-1])]


def comparisons(rng, tools, laue):
    """yield (function name, tools value, laue value scaled to tools convention or vice versa, comparer)"""
    c = G.valid_cell(rng) if rng.random() < 0.7 else G.special_cell(rng)
    h = G.hkl(rng, 5)
    U = G.rotation(rng)
    e = [round(rng.uniform(-0.1, 0.1), 5) for _ in range(6)]
    r = np.array([rng.gauss(0, 1) for _ in range(3)])
    ang = [rng.uniform(-3, 3) for _ in range(3)]
    tth = math.radians(rng.uniform(0.5, 150))
    gdir = np.array([rng.gauss(0, 1) for _ in range(3)])
    gdir /= np.linalg.norm(gdir)
    gt = gdir * math.sin(tth / 2)
    chi, wedge = rng.uniform(-0.5, 0.5), rng.uniform(-0.5, 0.5)
    Bt, Bl = tools.form_b_mat(c), laue.form_b_mat(c)
    ubi = laue.u_to_ubi(U, c)
    out = []
    A = lambda nm, t, l, **kw: out.append((nm, t, l, kw))
    A('cell_volume', tools.cell_volume(c), laue.cell_volume(c))
    A('cell_invert', tools.cell_invert(c), laue.cell_invert(c))
    A('form_a_mat', tools.form_a_mat(c), laue.form_a_mat(c))
    A('form_a_mat_inv', tools.form_a_mat_inv(c), laue.form_a_mat_inv(c))
    A('form_b_mat', Bt, TWO_PI * Bl)
    A('a_to_cell', tools.a_to_cell(tools.form_a_mat(c)), laue.a_to_cell(laue.form_a_mat(c)), rtol=1e-7, atol=1e-7)
    A('b_to_cell', tools.b_to_cell(Bt), laue.b_to_cell(Bl), rtol=1e-7, atol=1e-7)
    A('sintl', tools.sintl(c, h), laue.sintl(c, h))
    wl = 0.1
    A('tth', tools.tth(c, h, wl), laue.tth(c, h, wl))
    A('tth2', tools.tth2(U.dot(Bt).dot(h), wl), laue.tth2(U.dot(Bl).dot(h), wl))
    A('u_to_ubi', tools.u_to_ubi(U, c), ubi, rtol=1e-8)
    A('ubi_to_cell', tools.ubi_to_cell(ubi), laue.ubi_to_cell(ubi), rtol=1e-8)
    A('ubi_to_u', tools.ubi_to_u(ubi), laue.ubi_to_u(ubi), rtol=1e-7, atol=1e-9)
    tu, tb = tools.ubi_to_u_b(ubi)
    lu, lb = laue.ubi_to_u_b(ubi)
    A('ubi_to_u_b', (tu, tb), (lu, TWO_PI * lb), rtol=1e-7, atol=1e-9)
    M = U.dot(np.diag([10 ** rng.uniform(-2, 2) for _ in range(3)])).dot(G.rotation(rng))
    if np.linalg.det(M) > 0:
        A('ub_to_u_b', tools.ub_to_u_b(M), laue.ub_to_u_b(M), rtol=1e-8)
    if abs(1 + np.trace(U)) > 1e-3:
        A('ubi_to_rod', tools.ubi_to_rod(ubi), laue.ubi_to_rod(ubi), rtol=1e-6, atol=1e-8)
        A('u_to_rod', tools.u_to_rod(U), laue.u_to_rod(U))
    A('rod_to_u', tools.rod_to_u(r), laue.rod_to_u(r))
    A('euler_to_u', tools.euler_to_u(*[abs(x) for x in ang]), laue.euler_to_u(*[abs(x) for x in ang]))
    A('u_to_euler', tools.u_to_euler(U), laue.u_to_euler(U))
    A('_arctan2', tools._arctan2(r[0], r[1]), laue._arctan2(r[0], r[1]))
    A('form_omega_mat', tools.form_omega_mat(ang[0]), laue.form_omega_mat(ang[0]))
    A('form_omega_mat_general', tools.form_omega_mat_general(*ang), laue.form_omega_mat_general(*ang))
    A('quart_to_omega', tools.quart_to_omega(ang[0] * 50, ang[1], ang[2]), laue.quart_to_omega(ang[0] * 50, ang[1], ang[2]))
    A('detect_tilt', tools.detect_tilt(*ang), laue.detect_tilt(*ang))
    Be_t, Be_l = tools.epsilon_to_b(e, c), laue.epsilon_to_b(e, c)
    A('epsilon_to_b', Be_t, TWO_PI * Be_l)
    A('b_to_epsilon', tools.b_to_epsilon(Be_t, c), laue.b_to_epsilon(Be_l, c), atol=1e-9)
    Bo_t, Bo_l = tools.epsilon_to_b_old(e, c), laue.epsilon_to_b_old(e, c)
    A('epsilon_to_b_old', Bo_t, TWO_PI * Bo_l, rtol=1e-7)
    A('b_to_epsilon_old', tools.b_to_epsilon_old(Bo_t, c), laue.b_to_epsilon_old(Bo_l, c), rtol=1e-6, atol=1e-8)
    ubie = np.linalg.inv(U.dot(Be_l))       # UBI matrices are identical in both modules
    A('ubi_to_u_and_eps', tools.ubi_to_u_and_eps(ubie, c), laue.ubi_to_u_and_eps(ubie, c), rtol=1e-6, atol=1e-8, tag='ubi_eps')
    A('find_omega', tools.find_omega(gt, tth), laue.find_omega(gdir * 3.3, tth), rtol=1e-7, atol=1e-9)
    A('find_omega_general', tools.find_omega_general(gt, tth, chi, wedge), laue.find_omega_general(gdir * 3.3, tth, chi, wedge), rtol=1e-7, atol=1e-9)
    A('find_omega_quart', tools.find_omega_quart(gt, tth, chi, wedge), laue.find_omega_quart(gdir * 3.3, tth, chi, wedge), rtol=1e-7, atol=1e-9)
    A('find_omega_wedge', tools.find_omega_wedge(gt, tth, wedge), laue.find_omega_wedge(gdir * 3.3, tth, wedge), rtol=1e-7, atol=1e-9)
    A('reduce_cell', tools.reduce_cell(c), laue.reduce_cell(c), rtol=1e-8)
    return out, dict(cell=c, hkl=h, U=U.tolist(), eps=e, tth=tth, g=gdir.tolist(), chi=chi, wedge=wedge)


def hkl_comparisons(rng, tools, laue, sgs, forced=None):
    from xfab import sg
    from .. import hklcorr as HC
    no = rng.choice(sgs)
    choice = 'standard'
    if forced is None and rng.random() < 0.2:
        no, choice = rng.choice([146, 148, 155, 160, 161, 166, 167]), 'rhombohedral'
    s = sg.sg(sgno=no, cell_choice=choice)
    form, kw = rng.choice(HC.call_forms(s, no, choice))       # by number and setting / by the table's own name / by plain name and setting
    cell = conforming_cell(rng, s.crystal_system, s.cell_choice)
    lo, hi = 0.0, rng.uniform(0.15, 0.35) * 5.0 / cell[0] if cell[0] > 5 else rng.uniform(0.15, 0.3)
    if rng.random() < 0.3 and s.cell_choice != 'rhombohedral':
        # directed: one short reciprocal axis, indices beyond 10 along it
        dc = HC.make_directed_case(rng, s, rng.choice(['high', 'veryhigh', 'index256', 'index256']))
        if dc is not None:
            cell, lo, hi = dc['cell'], dc['lo'], dc['hi']
    if forced is not None:
        cell, lo, hi = forced
    out = []
    out.append(('genhkl_all', sorted_rows(tools.genhkl_all(cell, lo, hi, **kw)), sorted_rows(laue.genhkl_all(cell, lo, hi, **kw)), {}))
    out.append(('genhkl_unique', sorted_rows(tools.genhkl_unique(cell, lo, hi, output_stl=True, **kw)),
                sorted_rows(laue.genhkl_unique(cell, lo, hi, output_stl=True, **kw)), {}))
    import numpy as _np
    flag = rng.choice([False, True, 0, 1, 0.0, _np.False_, _np.True_, _np.int64(0), None])     # the same flag, however it is spelled, must mean the same thing in both modules
    out.append(('genhkl_all', sorted_rows(tools.genhkl_all(cell, lo, hi, output_stl=flag, **kw)), sorted_rows(laue.genhkl_all(cell, lo, hi, output_stl=flag, **kw)), {}))
    out.append(('genhkl_unique', sorted_rows(tools.genhkl_unique(cell, lo, hi, output_stl=flag, **kw)), sorted_rows(laue.genhkl_unique(cell, lo, hi, output_stl=flag, **kw)), {}))
    out.append(('genhkl_base', sorted_rows(tools.genhkl_base(cell, s.syscond, lo, hi, s.crystal_system, s.Laue, s.cell_choice, True)),
                sorted_rows(laue.genhkl_base(cell, s.syscond, lo, hi, s.crystal_system, s.Laue, s.cell_choice, True)), {}))
    out.append(('genhkl', sorted_rows(tools.genhkl(cell, s.syscond, lo, hi, output_stl=True)),
                sorted_rows(laue.genhkl(cell, s.syscond, lo, hi, output_stl=True)), {}))
    for _ in range(30):
        h = [rng.randint(-9, 9) for _ in range(3)]
        out.append(('sysabs', tools.sysabs(h, s.syscond, s.crystal_system), laue.sysabs(h, s.syscond, s.crystal_system), {}))
        out.append(('sysabs_unique', tools.sysabs_unique(h, s.syscond), laue.sysabs_unique(h, s.syscond), {}))
    return out, dict(sgno=no, cell=cell, sintlmax=hi, call=form, output_stl_flag=repr(flag))


def conforming_cell(rng, csys, choice):
    a, b, c = (round(rng.uniform(4, 9), 2) for _ in range(3))
    if csys == 'triclinic':
        return G.valid_cell(rng)[:3] + [round(rng.uniform(70, 110), 1) for _ in range(3)]
    if csys == 'monoclinic':
        return [a, b, c, 90, round(rng.uniform(91, 120), 1), 90]
    if csys == 'orthorhombic':
        return [a, b, c, 90, 90, 90]
    if csys == 'tetragonal':
        return [a, a, c, 90, 90, 90]
    if csys == 'cubic':
        return [a, a, a, 90, 90, 90]
    if csys == 'hexagonal' or (csys == 'trigonal' and choice != 'rhombohedral'):
        return [a, a, c, 90, 90, 120]
    al = round(rng.uniform(50, 110), 1)
    return [a, a, a, al, al, al]


def search(ctx):
    from xfab import tools, laue
    import xfab
    fails = []
    seen = set()
    old = xfab.CHECKS.activated
    xfab.CHECKS.activated = False
    names = set()
    try:
        for i in range(ctx.n(150, 3000)):
            try:
                comps, inp = comparisons(ctx.rng, tools, laue)
            except Exception as ex:
                comps, inp = [('comparison', 0, 1, {'exc': '%s: %s' % (type(ex).__name__, ex)})], {}
            for nm, t, l, kw in comps:
                names.add(nm)
                tag = kw.pop('tag', None)
                exc = kw.pop('exc', None)
                ok = False if exc else eq(t, l, **kw)
                ctx.count(('c', nm, i), hist='search:' + nm, sample=dict(inp, function=nm) if (i == 0 and nm == 'form_b_mat') else None)
                if not ok and nm not in seen:
                    seen.add(nm)
                    fails.append({'function': nm, 'input': inp, 'tag': tag, 'what': exc or 'tools.%s and laue.%s disagree (beyond the 2 pi convention)' % (nm, nm),
                                  'replay': 'tools.%s vs laue.%s' % (nm, nm)})
        sgs = list(range(1, 231))
        # two fixed-shape cases first: indices beyond 256 along a and along b (orthorhombic, thin shell), then the random ones
        from .. import hklcorr as HC
        forced = []
        for axis in (0, 1):
            big = ctx.rng.randint(9000, 14000)
            d = [big, big + ctx.rng.randint(50, 900), big + ctx.rng.randint(50, 900)]
            d[axis] = 1
            K, S, M = [[d[0], 0, 0], [0, d[1], 0], [0, 0, d[2]]], 400000.0, min(x for x in d if x > 1) + 70000
            forced.append((ctx.rng.choice([16, 17, 18, 19, 25, 47]), (HC.cell_of(K, S), 0.5 * math.sqrt((M - 9000 + 0.5) / S), 0.5 * math.sqrt((M + 0.5) / S))))
        for i in range(ctx.n(40, 460)):
            try:
                comps, inp = hkl_comparisons(ctx.rng, tools, laue, sgs) if i >= len(forced) else hkl_comparisons(ctx.rng, tools, laue, [forced[i][0]], forced=forced[i][1])
            except Exception as ex:
                comps, inp = [('genhkl', 0, 1, {'exc': '%s: %s' % (type(ex).__name__, ex)})], {}
            for nm, t, l, kw in comps:
                names.add(nm)
                exc = kw.pop('exc', None)
                ok = False if exc else eq(t, l, rtol=1e-9, atol=1e-12)
                ctx.count(('h', nm, i, ctx.cov['evaluations']), hist='search:' + nm)
                if not ok and nm not in seen:
                    seen.add(nm)
                    fails.append({'function': nm, 'input': inp, 'tag': None, 'what': exc or 'tools.%s and laue.%s disagree' % (nm, nm), 'replay': nm})
        # sysabs / sysabs_unique: every setting x a box of hkl (exhaustive on the box)
        from xfab import sg as _sg
        H = ctx.n(3, 6)
        box = [(h, k, l) for h in range(-H, H + 1) for k in range(-H, H + 1) for l in range(-H, H + 1)]
        for no in range(1, 231):
            for ch in ('standard', 'rhombohedral'):
                s_ = _sg.sg(sgno=no, cell_choice=ch)
                if ch == 'rhombohedral' and s_.cell_choice != 'rhombohedral':
                    continue
                bad = None
                for hkl_ in box:
                    if tools.sysabs(hkl_, s_.syscond, s_.crystal_system, s_.cell_choice) != laue.sysabs(hkl_, s_.syscond, s_.crystal_system, s_.cell_choice) \
                            or tools.sysabs_unique(hkl_, s_.syscond) != laue.sysabs_unique(hkl_, s_.syscond):
                        bad = hkl_
                        break
                ctx.count(('sysabs-box', no, ch), hist='search:sysabs box per setting')
                if bad is not None and 'sysabs' not in seen:
                    seen.add('sysabs')
                    fails.append({'function': 'sysabs', 'input': {'sgno': no, 'cell_choice': ch, 'hkl': list(bad)}, 'tag': None,
                                  'what': 'tools.sysabs and laue.sysabs disagree', 'replay': 'sysabs sgno=%d hkl=%r' % (no, bad)})
    finally:
        xfab.CHECKS.activated = old
    common = sorted(n for n, f in vars(tools).items() if inspect.isfunction(f) and f.__module__ == 'xfab.tools' and n in vars(laue))
    missing = [n for n in common if n not in names]
    ctx.cov['functions_compared'] = sorted(names)
    if missing:
        fails.append({'function': ','.join(missing), 'what': 'common functions not covered by the comparison: %s' % missing, 'tag': None, 'replay': 'coverage'})
    return fails


def replay_known(ctx, e):
    from xfab import tools, laue
    import xfab
    old = xfab.CHECKS.activated
    xfab.CHECKS.activated = False
    try:
        c = e['input']['cell']
        eps = e['input']['eps']
        U = G.Rz(0.3).dot(G.Rx(1.1)).dot(G.Rz(2.0))
        ubi = np.linalg.inv(U.dot(laue.epsilon_to_b(eps, c)))
        return not eq(tools.ubi_to_u_and_eps(ubi, c)[1], laue.ubi_to_u_and_eps(ubi, c)[1], atol=1e-8)
    finally:
        xfab.CHECKS.activated = old


def match_known(f, e):
    return e.get('id') == 'F7b' and f.get('function') == 'ubi_to_u_and_eps'


# functions that are one program in both modules (same AST up to the numpy alias and the docstring) and whose callees inside the module are
# themselves either in this list or related by an exact-equality theorem of C14: equal inputs (and RNG state) then give equal outputs
SOURCE_IDENTICAL = {
    'genhkl': ['sintl', 'sysabs'], 'genhkl_base': ['sintl', 'sysabs'], 'genhkl_unique': ['genhkl_base'], 'genhkl_all': ['genhkl_base'],
    'reduce_cell': ['a_to_cell', 'form_a_mat'], 'ub_to_u_b': [], 'sysabs': ['sysabs_unique'], 'sysabs_unique': [],
}
EXACT_BY_THEOREM = {'sintl', 'a_to_cell', 'form_a_mat', 'sysabs', 'sysabs_unique'}


def _norm_functions(path, alias):
    import ast
    t = ast.parse(open(path).read())
    names = set(n.name for n in t.body if isinstance(n, ast.FunctionDef))
    out = {}
    for n in t.body:
        if isinstance(n, ast.FunctionDef):
            body = n.body
            if body and isinstance(body[0], ast.Expr) and isinstance(getattr(body[0], 'value', None), ast.Constant) and isinstance(body[0].value.value, str):
                n.body = body[1:] or [ast.Pass()]
            calls = set()
            for c in ast.walk(n):
                if isinstance(c, ast.Call) and isinstance(c.func, ast.Name) and c.func.id in names:
                    calls.add(c.func.id)
            out[n.name] = (ast.dump(n, include_attributes=False).replace("Name(id='%s'" % alias, "Name(id='NP'"), calls)
    return out


def pre_build(ctx):
    """source-identity obligations for the functions that are not traced"""
    import os
    repo = os.environ.get('XFAB_REPO', '/repo')
    a = _norm_functions(os.path.join(repo, 'xfab', 'tools.py'), 'n')
    b = _norm_functions(os.path.join(repo, 'xfab', 'laue.py'), 'np')
    for f, callees in sorted(SOURCE_IDENTICAL.items()):
        ctx.count(('srcid', f), hist='source-identity:%s' % f)
        if f not in a or f not in b:
            ctx.broken.append(D.Broken('obligation', 'source identity: %s is missing from tools.py or laue.py' % f, ''))
            continue
        if a[f][0] != b[f][0]:
            ctx.broken.append(D.Broken('obligation', 'source identity: tools.%s and laue.%s are no longer the same program (AST differs beyond the numpy alias and the docstring)' % (f, f), ''))
        for mod, d in (('tools', a), ('laue', b)):
            extra = d[f][1] - set(callees)
            if extra - set(SOURCE_IDENTICAL) - EXACT_BY_THEOREM:
                ctx.broken.append(D.Broken('obligation', 'source identity: %s.%s now calls %s, which is not covered by an equality' % (mod, f, sorted(extra)), ''))


SPEC = dict(
    props=['props/C14.v'], want={'trace', 'ast'}, pre_build=pre_build, search=search, replay_known=replay_known, match_known=match_known,
    rule='theorems relate the two regenerated models for 32 of the 41 common functions over all inputs. Search: all 41 common functions are called in '
         'both modules on the same generated inputs (cells incl. special angles, rotations, strains, g-vectors scaled as tools requires, all 230 groups for '
         'genhkl*/sysabs*) and compared up to the 2 pi convention; coverage of the 41 names is itself checked. distinct by (function, case).',
    trusted=['Coq kernel; R axioms', 'T1 tracer', 'source-identity check (Python ast) for genhkl, genhkl_base, genhkl_unique, genhkl_all, reduce_cell, ub_to_u_b: the same program in both modules over callees that are equal by theorem'],
    assumptions=['floats modelled by reals', 'genhkl*, reduce_cell, ub_to_u_b: identical source + differential execution, no Coq model of their loops in C14'],
)

MANIFEST = dict(
    text='32 Coq theorems, each between the definition regenerated from tools.py and the one regenerated from laue.py (equality, or the documented 2 pi '
         'relation for B matrices / g-vectors / rescaled g in the omega solvers). A one-sided edit of a duplicated function changes one generated file and '
         'breaks its theorem. The remaining common functions (genhkl*, reduce_cell, ub_to_u_b) are the same program in both modules - checked on the AST on every run, an obligation like a theorem - and are also compared by execution over all 230 groups / random cells.',
    design_ref='DESIGN.md section 5 C14',
    note='Trusted: Coq kernel, R axioms, T1 tracer. Exception: ubi_to_u_and_eps (known finding F7).',
    technique='Coq equalities between two regenerated models (reflexivity/field); differential execution for the non-traced functions',
)

"""C16 - form factors: f(0) = Z, positive and decreasing on [0, 2]"""
import math
import numpy as np
from .. import driver as D
from .. import t1check as T
from ..tables import ELEMENTS


def pre_build(ctx):
    tr = ctx.gen.get('trace')
    if not tr:
        return
    mt = tr['structure']
    from xfab import atomlib, structure
    rng = ctx.rng
    # T1 validation of FormFactor: the wrapper used for tracing against the real function on real table rows
    args = []
    els = list(atomlib.formfactor.keys())
    for _ in range(ctx.n(60, 600)):
        el = rng.choice(els)
        s = rng.choice([0.0, 2.0, round(rng.uniform(0, 2), 4)])
        args.append((el, s))
    for el, s in args:
        row = atomlib.formfactor[el]
        impl = structure.FormFactor(el, s)
        kind, model = mt.eval_model('FormFactor_coeffs', *([float(x) for x in row] + [s]))
        ctx.count(('ff', el, s), hist='T1:FormFactor', sample={'element': el, 'stl': s, 'impl': float(impl)})
        ctx.cov['disagreements_checked'] += 1
        if kind != 'ok' or abs(model - impl) > 1e-9 * max(1, abs(impl)):
            ctx.broken.append(D.Broken('correspondence', 'T1 model of structure.FormFactor disagrees', 'el=%s s=%r impl=%r model=%r' % (el, s, impl, model)))
    # interval goals: the emitted Coq text evaluated at table rows equals the implementation
    goals = []
    for el, s in args[:ctx.n(8, 40)]:
        row = atomlib.formfactor[el]
        impl = float(structure.FormFactor(el, s))
        call = '(structure_FormFactor_coeffs %s %s)' % (' '.join(T.q(x) for x in row), T.q(s))
        goals.append('Goal Rabs (%s - %s) <= 1 / 100000000.\nProof. unfold structure_FormFactor_coeffs. interval with (i_prec 90). Qed.\n' % (call, T.q(impl)))
    D.write_if_changed(D.GEN + '/Corr_C16.v', '(* GENERATED on every run *)\nFrom Coq Require Import Reals.\nFrom Interval Require Import Tactic.\n'
                       'From XV Require Import RealLib Mat3 Gen_structure.\nOpen Scope R_scope.\n\n' + '\n'.join(goals))
    ctx.cov['interval_goals'] = len(goals)


def search(ctx):
    from xfab import atomlib, structure
    fails = []
    keys = list(atomlib.formfactor.keys())
    if keys != ELEMENTS:
        fails.append({'what': 'form-factor table keys are not the 94 elements H..Pu', 'keys': keys[:10], 'replay': 'list(atomlib.formfactor)'})
    grid = np.linspace(0, 2, ctx.n(401, 4001))
    for z, el in enumerate(ELEMENTS, 1):
        if el not in atomlib.formfactor:
            continue
        f = np.array([structure.FormFactor(el, s) for s in grid])
        d = atomlib.formfactor[el]
        ctx.count(('el', el), hist='search:elements', sample={'element': el, 'f0': float(f[0])} if el in ('C', 'AU') else None)
        why = None
        if abs(f[0] - z) > 0.1:
            why = 'f(0) = %.4f but Z = %d' % (f[0], z)
        elif np.any(f <= 0):
            why = 'form factor not positive at s = %.3f' % grid[np.argmax(f <= 0)]
        elif np.any(np.diff(f) >= 0):
            why = 'form factor not decreasing near s = %.3f' % grid[np.argmax(np.diff(f) >= 0)]
        elif abs(structure.FormFactor(el, 0.7) - (sum(d[i] * math.exp(-d[i + 4] * 0.49) for i in range(4)) + d[8])) > 1e-9:
            why = 'FormFactor is not sum a_i exp(-b_i s^2) + c'
        if why:
            fails.append({'element': el, 'what': why, 'replay': 'structure.FormFactor(%r, s): %s' % (el, why)})
    # array-valued s (the expression is elementwise): any order, repeated values, 2-d, lists, numpy scalars - each entry must equal the scalar call
    rng = ctx.rng
    seen = set()
    for k in range(ctx.n(60, 600)):
        el = rng.choice(ELEMENTS)
        n = rng.choice([1, 2, 3, 5, 8, 40])
        vals = [rng.choice([0.0, 2.0, round(rng.uniform(0, 2), 3), rng.uniform(0, 2)]) for _ in range(n)]
        kind = rng.choice(['shuffled', 'descending', 'ascending', 'with repeats', '2-d', 'list', 'numpy scalar', 'int zero'])
        if kind == 'descending':
            vals = sorted(set(vals), reverse=True)
        elif kind == 'ascending':
            vals = sorted(set(vals))
        elif kind == 'with repeats':
            vals = vals + vals[:max(1, n // 2)]
            rng.shuffle(vals)
        arg = np.array(vals)
        if kind == '2-d' and len(vals) % 2 == 0 and len(vals) > 1:
            arg = arg.reshape(2, -1)
        elif kind == 'list':
            arg = list(vals)
        elif kind == 'numpy scalar':
            arg = np.float64(vals[0])
        elif kind == 'int zero':
            arg = rng.choice([0, 1, 2, np.int64(1)])
        ctx.count(('arr', k), hist='search:array-valued s:' + kind)
        try:
            exp = np.array([structure.FormFactor(el, float(x)) for x in np.asarray(arg, float).reshape(-1)]).reshape(np.shape(arg))
            got = np.asarray(structure.FormFactor(el, arg), float)
            if got.shape != exp.shape or np.max(np.abs(got - exp)) > 1e-9:
                if ('arr', kind) not in seen:
                    seen.add(('arr', kind))
                    why = 'FormFactor(%r, s) for s = %r (%s) is %r, entry by entry the scalar calls give %r' % (el, arg if not isinstance(arg, np.ndarray) else arg.tolist(), kind, got.tolist(), exp.tolist())
                    fails.append({'element': el, 'what': why[:600], 'class': 'array', 'replay': why[:600]})
        except TypeError:
            ctx.dist['array-valued s not accepted:' + kind] = ctx.dist.get('array-valued s not accepted:' + kind, 0) + 1
    from .. import history as H
    for el in ('H', 'C', 'FE', 'AU', 'U'):
        fails += H.narrow_int_replays(ctx, 'xfab.structure.FormFactor(%r, s)' % el, lambda x, e=el: structure.FormFactor(e, x), [0, 1, 2])
    return fails


def match_known(f, e):
    return e.get('element') is not None and f.get('element') == e.get('element') and e.get('kind') == 'f0' and f.get('what', '').startswith('f(0)')


SPEC = dict(
    props=['props/C16.v'], want={'trace', 'tables'}, extra_targets=['gen/Corr_C16.vo'], pre_build=pre_build, search=search,
    replay_known=lambda ctx, e: False, match_known=match_known, exhaustive=True,
    rule='theorems quantify over all 94 regenerated table rows (finite, exhaustive, integer arithmetic in millionths) and all real s; '
         'monotonicity is analytic from the signs of a_i*b_i, positivity from f(2) > 0 by certified interval arithmetic per row. '
         'Correspondence: FormFactor traced model vs implementation on random (element, s). Search: every element on a grid of [0,2]. '
         'distinct = distinct (element, s) / elements.',
    trusted=['Coq kernel + vm_compute; Interval tactic (primitive floats) for f(2) > 0 and for the correspondence goals',
             'T2 extractor (table literals as exact millionths, fail closed on more decimals), T1 tracer for FormFactor',
             'spec/Elements.v: symbol -> atomic number'],
    assumptions=['table literals taken as exact decimals; doubles modelled by reals'],
)

MANIFEST = dict(
    text='For all 94 regenerated table rows and all real s: FormFactor (generated from structure.py) is the 4-Gaussian+c sum, |f(0)-Z| <= 0.1, '
         'strictly decreasing on s >= 0 (analytic, from a_i*b_i >= 0 decided by computation), positive on [0,2] (f(2)>0 by interval + monotone).',
    design_ref='DESIGN.md section 5 C16',
    note='Trusted: Coq kernel, vm_compute, Interval (Classical_Prop.classic + primitive int/float specs), R axioms; T1/T2 translators; Elements.v.',
    technique='Coq proof: finite table facts by vm_compute + analytic monotonicity lemma over R + interval arithmetic',
)

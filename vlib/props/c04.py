"""C04 - space-group tables are groups consistent with metadata and names"""
import re
import numpy as np
from .. import driver as D

LAUE_ORDER = {'-1': 2, '2/m': 4, 'mmm': 8, '4/m': 8, '4/mmm': 16, '-3': 6, '-3m': 12, '-3m1': 12, '-31m': 12,
              '6/m': 12, '6/mmm': 24, 'm-3': 24, 'm-3m': 48}


def metric_basis(csys, choice):
    E = lambda *idx: sum((np.eye(3)[[i]].T.dot(np.eye(3)[[j]]) for i, j in idx), np.zeros((3, 3)))
    if csys == 'triclinic':
        return [E((0, 0)), E((1, 1)), E((2, 2)), E((0, 1), (1, 0)), E((0, 2), (2, 0)), E((1, 2), (2, 1))]
    if csys == 'monoclinic':
        return [E((0, 0)), E((1, 1)), E((2, 2)), E((0, 2), (2, 0))]
    if csys == 'orthorhombic':
        return [E((0, 0)), E((1, 1)), E((2, 2))]
    if csys == 'tetragonal':
        return [E((0, 0), (1, 1)), E((2, 2))]
    if csys == 'cubic':
        return [np.eye(3)]
    if csys == 'hexagonal' or (csys == 'trigonal' and choice != 'rhombohedral'):
        return [np.array([[2, -1, 0], [-1, 2, 0], [0, 0, 0]], float), E((2, 2))]
    if csys == 'trigonal':
        return [np.eye(3), np.ones((3, 3)) - np.eye(3)]
    return None


def check_group(o):
    """independent numeric statement of the property for one xfab.sg.sg instance; None or what fails"""
    rot = np.asarray(o.rot, float)
    trans = np.asarray(o.trans, float)
    n = len(rot)
    if n != o.nsymop or len(trans) != n:
        return 'number of operations != nsymop'
    t12 = np.rint(trans * 12)
    if np.max(np.abs(trans * 12 - t12)) > 12e-5:
        return 'a translation is not a multiple of 1/12'
    t12 = t12.astype(int) % 12
    R = np.rint(rot).astype(int)
    if np.max(np.abs(rot - R)) > 0:
        return 'non-integer rotation entry'
    key = lambda Rm, t: (tuple(Rm.reshape(-1)), tuple(int(x) % 12 for x in t))
    ops = [key(R[i], t12[i]) for i in range(n)]
    S = set(ops)
    if len(S) != n:
        return 'duplicate operation'
    ident = key(np.eye(3, dtype=int), (0, 0, 0))
    if ident not in S:
        return 'identity missing'
    for i in range(n):
        hasinv = False
        for j in range(n):
            k = key(R[i].dot(R[j]), R[i].dot(t12[j]) + t12[i])
            if k not in S:
                return 'not closed: op %d o op %d' % (i, j)
            if k == ident:
                hasinv = True
        if not hasinv:
            return 'op %d has no inverse' % i
    U = [tuple(R[i].reshape(-1)) for i in range(min(o.nuniq, n))]
    if len(set(U)) != o.nuniq:
        return 'first nuniq rotations not distinct'
    if set(tuple(Rm.reshape(-1)) for Rm in R) != set(U):
        return 'first nuniq rotations are not all the rotations'
    ncen = sum(1 for i in range(n) if (R[i] == np.eye(3, dtype=int)).all())
    if o.nsymop != o.nuniq * ncen:
        return 'nsymop != nuniq x centring translations'
    for Rm in R:
        if abs(round(np.linalg.det(Rm))) != 1:
            return 'rotation with |det| != 1'
    L = set(U) | set(tuple(-x for x in u) for u in U)
    if LAUE_ORDER.get(o.Laue) != len(L):
        return 'Laue class %r has order %r but rotations+inversion give %d' % (o.Laue, LAUE_ORDER.get(o.Laue), len(L))
    basis = metric_basis(o.crystal_system, o.cell_choice)
    if basis is None:
        return 'unknown crystal system %r' % (o.crystal_system,)
    for Gm in basis:
        for Rm in R[:o.nuniq]:
            if np.max(np.abs(Rm.T.dot(Gm).dot(Rm) - Gm)) > 0:
                return 'a rotation does not preserve the metric of a conforming cell'
    if len(np.asarray(o.syscond).reshape(-1)) != 26:
        return 'syscond does not have 26 entries'
    return None


def py_normalise(s):
    return re.sub(r"\s+", "", s).lower()


def search(ctx):
    from xfab import sg
    fails = []
    for no in range(1, 231):
        for ch in ('standard', 'rhombohedral'):
            try:
                o = sg.sg(sgno=no, cell_choice=ch)
                why = check_group(o)
            except Exception as e:
                why = 'raised %s: %s' % (type(e).__name__, e)
            ctx.count(('grp', no, ch), hist='search:groups', sample={'sgno': no, 'cell_choice': ch} if no in (1, 146, 227) else None)
            if why:
                fails.append({'sgno': no, 'cell_choice': ch, 'what': why, 'replay': 'xfab.sg.sg(sgno=%d, cell_choice=%r): %s' % (no, ch, why)})
    # names: every key, with whitespace / case variants; by name == by number
    keys = list(sg.sgdic.keys())
    for k in keys:
        variants = [k, k.upper(), ' ' + ' '.join(k) + '\t', k.capitalize(), '\n'.join(k), k[:1] + ' \n' + k[1:-1] + '\r\n' + k[-1:] + '\n', '\t' + k + '\x0b\x0c']      # every kind of white space re's \\s matches
        for v in variants:
            try:
                a = sg.sg(sgname=v)
                req = 'rhombohedral' if (k[0] == 'r' and k[-1] == 'r') else 'standard'
                b = sg.sg(sgno=a.no, cell_choice=req)
                same = (a.no == b.no and a.name == b.name and a.cell_choice == b.cell_choice and a.nsymop == b.nsymop
                        and np.array_equal(a.rot, b.rot) and np.array_equal(a.trans, b.trans)
                        and np.array_equal(a.syscond, b.syscond) and a.Laue == b.Laue)
                nm = py_normalise(a.name)
                keyok = (k == nm) or (a.cell_choice == 'hexagonal' and k == nm + 'h')
                why = None if (same and keyok) else ('lookup by name %r gives group %s (%s), not the group the key names' % (v, a.name, a.cell_choice))
            except Exception as e:
                why = 'lookup by name %r raised %s: %s' % (v, type(e).__name__, e)
            ctx.count(('name', v), hist='search:names', sample={'sgname': v} if k == 'r-3ch' else None)
            if why:
                fails.append({'sgname': v, 'what': why, 'replay': why})
    # names together with an explicit setting (the call form of genhkl_all / genhkl_unique / multiplicity): the trailing r forces the rhombohedral
    # setting, otherwise the requested setting is used, exactly as for a lookup by number.  (R...h together with 'rhombohedral' is contradictory and not examined.)
    eq = lambda a, b: (a.no == b.no and a.name == b.name and a.cell_choice == b.cell_choice and a.nsymop == b.nsymop and a.nuniq == b.nuniq
                       and np.array_equal(a.rot, b.rot) and np.array_equal(a.trans, b.trans) and np.array_equal(a.syscond, b.syscond) and a.Laue == b.Laue
                       and a.crystal_system == b.crystal_system)
    for k in keys:
        for ch in ('standard', 'rhombohedral'):
            if k[0] == 'r' and k[-1] == 'h' and ch == 'rhombohedral':
                continue
            for form in ('keyword', 'positional'):
                v = k if form == 'keyword' else k.upper()
                try:
                    a = sg.sg(sgname=v, cell_choice=ch) if form == 'keyword' else sg.sg(None, v, ch)
                    req = 'rhombohedral' if (k[0] == 'r' and k[-1] == 'r') else ch
                    b = sg.sg(sgno=a.no, cell_choice=req)
                    why = None if eq(a, b) else ('lookup by name %r with cell_choice=%r gives %s (%s, %d operations), by number %d with cell_choice=%r gives %s (%s, %d operations)'
                                                 % (v, ch, a.name, a.cell_choice, a.nsymop, a.no, req, b.name, b.cell_choice, b.nsymop))
                except Exception as e:
                    why = 'lookup by name %r with cell_choice=%r raised %s: %s' % (v, ch, type(e).__name__, e)
                ctx.count(('name+choice', v, ch, form), hist='search:names with explicit cell_choice', sample={'sgname': v, 'cell_choice': ch} if k == 'r-3' and form == 'keyword' else None)
                if why:
                    fails.append({'sgname': v, 'cell_choice': ch, 'what': why, 'replay': why})
    return fails[:20]


def pre_build(ctx):
    """T2 validation inside Coq: a checksum of every extracted record computed by Python must equal the one Coq
    computes from the emitted text; model of the name normalisation against Python's re.sub/lower."""
    tb = ctx.gen.get('tables')
    if not tb:
        return
    fps = []
    for r in tb['settings']:
        flat = [r['no'], r['nsymop'], r['nuniq']] + r['syscond'] + [x for R in r['rot'] for x in R] + [x for t in r['trans'] for x in t]
        fps.append(sum((i + 1) * v for i, v in enumerate(flat)) % 1000003)
    # strings for the normalisation model
    rng = ctx.rng
    alphabet = 'PpRrCcIiFfAaBb mn-/123456 \t\n\x0b\x0c\r\x1c\x1f_:hHxXzZ'
    strs = []
    for _ in range(ctx.n(200, 2000)):
        s = ''.join(rng.choice(alphabet) for _ in range(rng.randint(0, 12)))
        strs.append(s)
    from ..tables import coq_string

    def cs(s):
        # Coq string literal for arbitrary ASCII incl. control characters: build with String (ascii_of_nat n)
        return '(' + ''.join('String (Ascii.ascii_of_nat %d) (' % ord(c) for c in s) + 'EmptyString' + ')' * len(s) + ')'
    pairs = [(s, py_normalise(s)) for s in strs]
    for s, t in pairs:
        ctx.count(('norm', s), hist='corr:normalise')
        ctx.cov['disagreements_checked'] += 1
    text = ('(* GENERATED on every run *)\nFrom Coq Require Import ZArith List String Ascii.\n'
            'From XV Require Import SGroup Tab_sg_all.\nImport ListNotations.\nOpen Scope Z_scope.\n'
            'Definition fp (r : sgrec) : Z :=\n'
            '  let flat := ([sg_no r; sg_nsymop r; sg_nuniq r] ++ sg_syscond r ++ List.concat (sg_rot r) ++ List.concat (sg_trans r))%%list in\n'
            '  (snd (fold_left (fun '"'"'(i, acc) v => (i + 1, acc + i * v)) flat (1, 0))) mod 1000003.\n'
            'Goal map fp all_settings = [%s].\nProof. vm_compute. reflexivity. Qed.\n'
            'Goal forallb (fun p => String.eqb (sg_normalise (fst p)) (snd p)) [\n%s\n] = true.\nProof. vm_compute. reflexivity. Qed.\n'
            % ('; '.join(str(x) for x in fps), ';\n'.join('(%s, %s)' % (cs(a), cs(b)) for a, b in pairs)))
    D.write_if_changed(D.GEN + '/Corr_C04.v', text)
    ctx.cov['samples'].append({'normalise': pairs[3][0], 'python': pairs[3][1]})


SPEC = dict(
    props=['props/C04.v'], want={'tables'}, extra_targets=['gen/Corr_C04.vo'], pre_build=pre_build, search=search,
    replay_known=lambda ctx, e: False, exhaustive=True,
    rule='exhaustive: all 237 distinct settings (230 numbers x {standard, rhombohedral}) and all 244 dictionary keys are evaluated '
         'inside Coq (vm_compute); the Python search harness re-checks every setting and 4 whitespace/case variants of every key against '
         'the implementation; normalisation model compared with re.sub/lower on random ASCII strings incl. control whitespace. '
         'distinct = distinct (number, setting) / name variants / strings.',
    trusted=['Coq 8.16.1 kernel incl. vm_compute', 'T2 table extractor vlib/tables.py (checksum of every record re-computed in Coq on this run)',
             'lib/SGroup.v: group_ok is the executable meaning of "is a group consistent with its metadata"; metric_basis lists the conforming metric tensors',
             'operations act as x -> R x + t on column vectors (the convention under which the tables are closed)'],
    assumptions=['translations are 6-decimal literals; snapped to the 1/12 grid with tolerance 1e-5 inside Coq',
                 'xfab.sg.sg(sgno, cell_choice) / sg(sgname) is the observation point'],
)

MANIFEST = dict(
    text='Finite domain decided completely inside Coq: forallb group_ok over the 237 regenerated tables (4476 operations) by vm_compute, '
         'lifted with forallb_forall; by-name = by-number for all 244 keys; unbounded whitespace/case invariance of the lookup normal form by induction.',
    design_ref='DESIGN.md section 5 C04',
    note='Trusted: Coq kernel + vm_compute (axiom-free: closed under the global context); T2 extractor (checksummed in Coq each run); '
         'group_ok and metric_basis as the specification.',
    technique='Coq vm_compute over regenerated tables (finite, exhaustive) + induction for name variants',
)

"""C20 - input checks reject exactly the invalid inputs, and only while switched on"""
import math
import numpy as np
from .. import gens as G
from .. import driver as D


def apis(tools, laue, symmetry):
    """(name, kind of argument, callable on the argument)"""
    c = [3.0, 4.0, 5.0, 80.0, 95.0, 100.0]
    out = []
    for nm, mod in (('tools', tools), ('laue', laue)):
        out += [('%s.u_to_euler' % nm, 'U', lambda U, m=mod: m.u_to_euler(U)),
                ('%s.u_to_rod' % nm, 'U', lambda U, m=mod: m.u_to_rod(U)),
                ('%s.u_to_ubi' % nm, 'U', lambda U, m=mod: m.u_to_ubi(U, c)),
                ('%s.euler_to_u' % nm, 'E', lambda e, m=mod: m.euler_to_u(*e)),
                ('%s.ubi_to_u' % nm, 'UBI', lambda ubi, m=mod: m.ubi_to_u(ubi)),
                ('%s.ubi_to_u_and_eps' % nm, 'UBI', lambda ubi, m=mod: m.ubi_to_u_and_eps(ubi, c)),
                ('%s.ub_to_u_b' % nm, 'UB', lambda ub, m=mod: m.ub_to_u_b(ub))]
    out.append(('symmetry.Umis', 'UU', lambda uu: symmetry.Umis(uu[0], uu[1], 7)))
    return out


def rot_like(rng, quality):
    U = G.rotation(rng, 'uniform') if rng.random() < 0.8 else G.rotation(rng)
    if quality == 'exact':
        return U
    if quality == 'float32':
        return U.astype(np.float32).astype(np.float64)
    if quality == 'tiny':
        return U + np.array([[rng.uniform(-1, 1) for _ in range(3)] for _ in range(3)]) * 0.99e-7
    # clearly invalid: perturbation of size 1e-3..1, or improper
    k = rng.random()
    if k < 0.25:
        V = U.copy()
        V[0] = -V[0]
        return V
    if k < 0.4:
        return U * (1 + 10 ** rng.uniform(-3, 0))
    if k < 0.6:
        # unit-length columns (or rows) that are not orthogonal: one of them tilted towards another by 1e-3 .. 1 rad.  U'U has ones on the diagonal and
        # sin(eps) off it, the determinant is cos(eps) = 1 - eps^2/2: only the off-diagonal test can see the small ones
        eps = 10 ** rng.uniform(-3, 0) * (1.05 if rng.random() < 0.5 else 1.0) + 5e-5
        i, j = rng.sample(range(3), 2)
        V = U.copy()
        V[:, i] = math.cos(eps) * U[:, i] + math.sin(eps) * U[:, j]
        return V if rng.random() < 0.5 else V.T
    if k < 0.7:
        V = U.copy()                      # a single element off by 1e-3 .. 1
        V[rng.randrange(3), rng.randrange(3)] += rng.choice([-1, 1]) * 10 ** rng.uniform(-3, 0)
        return V
    E = np.array([[rng.uniform(-1, 1) for _ in range(3)] for _ in range(3)])
    E /= np.max(np.abs(E))
    return U + E * 10 ** rng.uniform(-3, 0)


def make_arg(rng, kind, valid, quality='exact'):
    from xfab import tools
    c = [3.0, 4.0, 5.0, 80.0, 95.0, 100.0]
    if kind == 'U':
        return rot_like(rng, quality if valid else 'bad')
    if kind == 'UU':
        if valid:
            return (rot_like(rng, quality), rot_like(rng, quality))
        k = rng.random()
        if k < 0.25:                       # two improper orthonormal matrices: the defects cancel in U1'.U2
            a, b = rot_like(rng, 'exact').copy(), rot_like(rng, 'exact').copy()
            a[0] = -a[0]
            b[0] = -b[0]
            return (a, b)
        if k < 0.4:                        # a sheared matrix and its inverse transpose
            S = np.eye(3) + np.array([[0, 0.3, 0], [0, 0, 0.2], [0, 0, 0]])
            a = rot_like(rng, 'exact').dot(S)
            return (a, np.linalg.inv(a).T)
        a, b = rot_like(rng, 'exact'), rot_like(rng, 'bad')
        return (a, b) if rng.random() < 0.5 else (b, a)
    if kind == 'E':
        if valid:
            return [rng.choice([0.0, 2 * math.pi, rng.uniform(0, 2 * math.pi)]) for _ in range(3)]
        e = [rng.uniform(0, 2 * math.pi) for _ in range(3)]
        e[rng.randrange(3)] = rng.choice([-1e-3, -1.0, 2 * math.pi + 1e-3, 7.5, -3 * math.pi])
        return e
    if kind == 'UBI':
        U = rot_like(rng, 'exact')
        ubi = np.linalg.inv(U.dot(tools.form_b_mat(c))) * 2 * math.pi
        if not valid:
            ubi = ubi.copy()
            ubi[rng.randrange(3)] *= -1          # left-handed
        return ubi
    if kind == 'UB':
        U = rot_like(rng, 'exact')
        B = tools.form_b_mat(c)
        M = U.dot(B)
        if not valid:
            M = M.copy()
            M[:, 0] = -M[:, 0]                   # negative determinant: no proper rotation factor
        return M


def same_value(a, b):
    if isinstance(a, tuple) and isinstance(b, tuple):
        return len(a) == len(b) and all(same_value(x, y) for x, y in zip(a, b))
    try:
        return np.array_equal(np.asarray(a, dtype=float), np.asarray(b, dtype=float), equal_nan=True)   # NaN (arccos of 1+1e-8 for a near-rotation) is the same value on both sides
    except (TypeError, ValueError):
        return np.array_equal(np.asarray(a), np.asarray(b))


def search(ctx):
    import xfab
    from xfab import tools, laue, symmetry
    rng = ctx.rng
    fails = []
    seen = set()
    A = apis(tools, laue, symmetry)
    orig = xfab.CHECKS.activated

    def fail(tag, info, why):
        if tag not in seen:
            seen.add(tag)
            fails.append(dict(info, what=why, tag=tag[0], replay=why))
    try:
        for h in range(ctx.n(60, 800)):
            xfab.CHECKS.activated = True
            state = True
            hist = []
            for step in range(rng.randint(3, 25)):
                if rng.random() < 0.4:
                    v = rng.choice([True, False, True, False, 0, 1, 'on', None, 1.0, 0.0, [], np.bool_(True), 2])
                    hist.append(('assign', repr(v)))
                    try:
                        xfab.CHECKS.activated = v
                        if v is True or v is False:
                            state = v
                        else:
                            fail(('assign-accept', repr(v)), {'history': hist[-6:]}, 'CHECKS.activated accepted the value %r' % (v,))
                            state = bool(xfab.CHECKS.activated)
                    except ValueError:
                        if v is True or v is False:
                            fail(('assign-reject',), {'history': hist[-6:]}, 'CHECKS.activated rejected %r' % (v,))
                    if xfab.CHECKS.activated is not state:
                        fail(('state',), {'history': hist[-6:]}, 'switch state is %r after the history, last valid value was %r' % (xfab.CHECKS.activated, state))
                        state = xfab.CHECKS.activated
                else:
                    name, kind, f = rng.choice(A)
                    valid = rng.random() < 0.5
                    q = rng.choice(['exact', 'float32', 'tiny']) if kind in ('U', 'UU') else 'exact'
                    x = make_arg(rng, kind, valid, q)
                    hist.append(('call', name, 'valid' if valid else 'invalid', q))
                    ctx.count(('call', h, step), hist='search:%s:%s' % ('on' if state else 'off', ('valid/' + q) if valid else 'invalid'))
                    raised = None
                    try:
                        val = f(x)
                    except ValueError as e:
                        raised = str(e)
                    except Exception as e:
                        raised = None
                        val = ('exc', type(e).__name__)
                    check_err = raised is not None and any(s in raised for s in ('not unitary', 'non unity determinant', 'Euler angle', 'ubi matrix must hold'))
                    if state and not valid and not check_err:
                        fail(('miss', name), {'api': name, 'history': hist[-6:]}, '%s did not raise ValueError for an invalid input while checks are on' % name)
                    if state and valid and check_err:
                        fail(('false-reject', name.split('.')[-1], q), {'api': name, 'quality': q, 'history': hist[-6:]}, '%s rejected a valid input (%s): %s' % (name, q, raised))
                    if not state and check_err:
                        fail(('off-raise', name), {'api': name, 'history': hist[-6:]}, '%s raised a check error while checks are off' % name)
                    if valid and raised is None and state:
                        # same value with checks off
                        xfab.CHECKS.activated = False
                        try:
                            v2 = f(x)
                            if not same_value(val, v2):
                                fail(('value', name), {'api': name}, '%s returns a different value with checks off' % name)
                        except Exception as e:
                            fail(('value', name), {'api': name}, '%s raised %s with checks off on a valid input' % (name, type(e).__name__))
                        xfab.CHECKS.activated = True
            ctx.count(('hist', h), hist='search:histories', sample={'history': hist[:5]} if h == 0 else None)
        # pairs of invalid matrices whose defects cancel in the product U1'.U2 (A.R1 and inv(A)'.R2 with det A = 1; two improper matrices): Umis must reject each argument
        xfab.CHECKS.activated = True
        for k in range(ctx.n(12, 60)):
            R1, R2 = G.rotation(rng, 'uniform'), G.rotation(rng, 'uniform')
            if k % 3 == 2:
                a, b = R1.copy(), R2.copy()
                a[:, 0] = -a[:, 0]
                b[:, 0] = -b[:, 0]
            else:
                Sh = np.eye(3)
                i, j = rng.sample(range(3), 2)
                Sh[i, j] = rng.choice([-1, 1]) * 10 ** rng.uniform(-2.3, 0)
                if k % 3 == 1:
                    Sh = G.rotation(rng, 'uniform').dot(np.diag([1.3, 1 / 1.3, 1.0])).dot(Sh)
                a, b = Sh.dot(R1), np.linalg.inv(Sh).T.dot(R2)
            ctx.count(('pair', k), hist='search:Umis:cancelling invalid pairs')
            try:
                symmetry.Umis(a, b, rng.randint(1, 7))
                fail(('miss', 'Umis pair'), {'api': 'symmetry.Umis', 'U1': a.tolist(), 'U2': b.tolist()},
                     "symmetry.Umis did not raise ValueError although neither argument is a rotation (their defects cancel in U1'.U2)")
            except ValueError:
                pass
            except Exception as e:
                fail(('exc', 'Umis pair'), {'api': 'symmetry.Umis'}, 'symmetry.Umis raised %s on an invalid pair' % type(e).__name__)
    finally:
        xfab.CHECKS._run_checks = bool(orig)
    return fails


def match_known(f, e):
    return False


SPEC = dict(
    props=['props/C20.v'], want={'checks'}, search=search, replay_known=lambda ctx, e: False, match_known=match_known,
    rule='theorems: all assignment sequences to the switch (unbounded), all matrices. Search: histories interleaving assignments of valid and invalid values '
         '(True, False, 0, 1, strings, None, floats, numpy bools) with calls of the 15 guarded APIs on valid inputs (exact, float32-rounded, perturbed by < 1e-7) and on '
         'clearly invalid ones (perturbation 1e-3..1, improper, out-of-range Euler angle, left-handed UBI). distinct by (history, step).',
    trusted=['Coq kernel; R axioms', 'T3c vlib/checksgen.py: AST translator of xfab/checks.py (three predicates with their tolerances, the setter) and of the guard sites in tools.py / laue.py / symmetry.py, fail closed; numpy.allclose(a, b) read as |a - b| <= atol + rtol |b| entrywise with the documented defaults',
             'model/Checks.v: hand model, proved equal to the generated definitions on every run (proofs/P20_tie.v) and exercised by the histories'],
    assumptions=['__debug__ is True (no python -O)'],
)

MANIFEST = dict(
    text='Coq: the switch state after any sequence of assignments is the last valid (True/False) value, invalid assignments raise and change nothing (induction); '
         'a guarded call raises exactly when the switch is on and the check fails, and returns the unguarded value otherwise; the rotation check (allclose predicates '
         'with the code\'s tolerances) accepts every exact proper rotation and rejects every matrix whose U\'U or determinant deviates beyond the tolerance. '
         'The predicates, their tolerances, the setter and the list of sixteen guard sites are regenerated from the source on every run (AST translator) and proved to be the model\'s; '
         'the numeric band (float32-precision, 1e-7 perturbations accepted; 1e-3 rejected, also for unit-length non-orthogonal columns) is exercised on the implementation by call histories.',
    design_ref='DESIGN.md section 5 C20',
    note='Trusted: Coq kernel, R axioms, the AST translator of checks.py / guard sites, numpy.allclose semantics.',
    technique='Coq induction over assignment histories + real-arithmetic lemmas on a model regenerated from the AST of checks.py; differential histories',
)

"""C09 - omega/eta solvers satisfy the diffraction condition; completeness; tth"""
import math
import numpy as np
from .. import gens as G
from .. import t1check as T
from .. import driver as D


def gvec(rng):
    v = np.array([rng.gauss(0, 1) for _ in range(3)])
    k = rng.random()
    if k < 0.1:
        v[2] = 0.0
    elif k < 0.2:
        v[rng.randrange(3)] *= 1e-3
    elif k < 0.35:      # nearly along the rotation axis
        f = 10 ** rng.uniform(-3, -0.5)
        v[0] *= f
        v[1] *= f
    return v / np.linalg.norm(v)


def case(rng):
    if rng.random() < 0.15:
        # just inside the reachable cone: |g_xy| = sin(theta) sqrt(1+m), margin m in [1e-3, 1e-1] (two solutions, far from the 1e-6 tangency band)
        tth = math.radians(rng.uniform(0.5, 30))
        m = 10 ** rng.uniform(-3, -1)
        gxy = math.sin(tth / 2) * math.sqrt(1 + m)
        ph = rng.uniform(0, 2 * math.pi)
        v = np.array([gxy * math.cos(ph), gxy * math.sin(ph), rng.choice([-1, 1]) * math.sqrt(max(0.0, 1 - gxy * gxy))])
        chi = rng.choice([0.0, rng.uniform(-0.5, 0.5)])
        return v, tth, chi, 0.0
    tth = math.radians(rng.uniform(0.5, 150) if rng.random() < 0.7 else rng.uniform(0.5, 12))
    chi = rng.choice([0.0, rng.uniform(-0.5, 0.5), rng.uniform(-0.5, 0.5)])
    wedge = rng.choice([0.0, rng.uniform(-0.5, 0.5), rng.uniform(-0.5, 0.5)])
    return gvec(rng), tth, chi, wedge


def wedge_singular_case(rng, target):
    """a scattering vector for find_omega_wedge whose internal quantity a = cos(wedge)(cos 2theta - 1) + sin(wedge) sin(2theta) cos(eta) equals `target`
    (the solver used to divide by a, defect F14; a = 0 means tan(theta) = tan(wedge) cos(eta)): built forwards from (omega, eta, theta) with the solver's own rotation Ry(-wedge).Rz(omega)"""
    w = rng.uniform(0.05, 0.5) * rng.choice([-1, 1])
    eta = rng.uniform(-1.2, 1.2) if w > 0 else math.pi - rng.uniform(-1.2, 1.2)
    om = rng.uniform(-3, 3)
    afun = lambda th: math.cos(w) * (math.cos(2 * th) - 1) + math.sin(w) * math.sin(2 * th) * math.cos(eta)
    th = math.atan(math.tan(w) * math.cos(eta))
    for _ in range(40):
        d = (afun(th + 1e-7) - afun(th - 1e-7)) / 2e-7
        th -= (afun(th) - target) / d
    glab = np.array([-math.sin(th) ** 2, -math.sin(2 * th) * math.sin(eta) / 2, math.sin(2 * th) * math.cos(eta) / 2])
    g = G.Ry(-w).dot(G.Rz(om)).T.dot(glab)
    return g / np.linalg.norm(g), 2 * th, w


WEDGE_TARGETS = [0.0, 5e-9, -5e-9, 1e-13, 2e-9, -2e-9, -1e-11, 8e-9, 3e-8, 0.0, -1e-7, 1e-6, -1e-5, 1e-15]      # a = 0 was defect F14 (division by a; repaired)


def rot_matrix(solver, mod, om, chi, wedge):
    if solver == 'find_omega':
        return G.Rz(om)
    if solver == 'find_omega_general':
        return G.Rx(chi).dot(G.Ry(wedge)).dot(G.Rz(om))
    if solver == 'find_omega_quart':
        P = G.Rx(chi).dot(G.Ry(wedge))
        return P.dot(G.Rz(om)).dot(P.T)
    if solver == 'find_omega_wedge':
        return G.Ry(-wedge).dot(G.Rz(om))


def n_expected(solver, gdir, tth, chi, wedge):
    """number of omega in (-pi, pi] with x-component of Om(omega).g equal to -sin^2(theta): from the closed form
    A cos w + B sin w = C (independent derivation: first row of the rotation matrix), with a tangency margin"""
    s = math.sin(tth / 2)
    g = s * gdir
    M0 = rot_matrix(solver, None, 0.0, chi, wedge)
    M90 = rot_matrix(solver, None, math.pi / 2, chi, wedge)
    M180 = rot_matrix(solver, None, math.pi, chi, wedge)
    x0, x90, x180 = M0.dot(g)[0], M90.dot(g)[0], M180.dot(g)[0]
    K = 0.5 * (x0 + x180)          # constant part
    A = 0.5 * (x0 - x180)
    B = x90 - K
    C = -s * s - K
    r2 = A * A + B * B
    if r2 == 0:
        return None
    margin = (C * C - r2) / max(r2, 1e-300)
    if abs(margin) < 1e-5:
        return None            # within the tangency exclusion
    return 2 if margin < 0 else 0


def check_solver(modname, mod, solver, gdir, tth, chi, wedge):
    s = math.sin(tth / 2)
    g_in = gdir * (s if modname == 'tools' else 2.7)      # tools asserts |g| = sin(theta); laue rescales itself
    if solver == 'find_omega':
        om = mod.find_omega(g_in, tth)
        eta = None
    elif solver == 'find_omega_wedge':
        om, eta = mod.find_omega_wedge(g_in, tth, wedge)
    else:
        om, eta = getattr(mod, solver)(g_in, tth, chi, wedge)
    om = list(np.asarray(om, float).reshape(-1))
    g = s * gdir
    for k, w in enumerate(om):
        if not (-math.pi - 1e-12 < w <= math.pi + 1e-12):
            return 'omega = %r outside (-pi, pi]' % w
        gt = rot_matrix(solver, mod, w, chi, wedge).dot(g)
        if abs(gt[0] + s * s) > 1e-7 * s:
            return 'x-component of the rotated g is %.6g, not -sin^2(theta) = %.6g' % (gt[0], -s * s)
        if eta is not None:
            e = float(np.asarray(eta, float).reshape(-1)[k])
            if abs(gt[1] + math.sin(tth) * math.sin(e) / 2) > 1e-7 * s or abs(gt[2] - math.sin(tth) * math.cos(e) / 2) > 1e-7 * s:
                return '(y,z) of the rotated g do not match eta = %.6g' % e
    nexp = n_expected(solver, gdir, tth, chi if solver != 'find_omega_wedge' else 0.0, wedge)
    if nexp is not None and solver != 'find_omega_wedge':
        if len(om) != nexp:
            return '%d solutions returned, %d exist' % (len(om), nexp)
        if nexp == 2 and abs(math.remainder(om[0] - om[1], 2 * math.pi)) < 1e-9:
            return 'the two solutions coincide although two distinct ones exist'
    if nexp is not None and solver == 'find_omega_wedge':
        ne2 = n_expected(solver, gdir, tth, 0.0, wedge)
        if ne2 is not None and len(om) != ne2:
            return '%d solutions returned, %d exist' % (len(om), ne2)
    return None


def pre_build(ctx):
    tr = ctx.gen.get('trace')
    if not tr:
        return
    n = ctx.n(40, 400)
    for short in ('tools', 'laue'):
        mt = tr[short]
        cs = [case(ctx.rng) for _ in range(n)]
        sc = lambda g, tth: g * (math.sin(tth / 2) if short == 'tools' else 1.9)
        T.numeric(ctx, mt, 'find_omega_general', [(sc(g, t), t, c, w) for g, t, c, w in cs], rtol=1e-7, atol=1e-9)
        T.numeric(ctx, mt, 'find_omega_quart', [(sc(g, t), t, c, w) for g, t, c, w in cs], rtol=1e-7, atol=1e-9)
        T.numeric(ctx, mt, 'find_omega_wedge', [(sc(g, t), t, w) for g, t, c, w in cs], rtol=1e-7, atol=1e-9)
        T.numeric(ctx, mt, 'find_omega', [(sc(g, t), t) for g, t, c, w in cs], rtol=1e-7, atol=1e-9)
        cells = [G.valid_cell(ctx.rng) for _ in range(n)]
        # tth is defined where lambda * sin(theta)/lambda <= 1 (beyond that numpy returns nan with a warning and the model's asin is undefined): stay inside
        from .. import hklref as HR
        tcases = [(c, G.hkl(ctx.rng, 3), 0.2) for c in cells]
        tcases = [(c, h, wl) for c, h, wl in tcases if wl * 0.5 * math.sqrt(max(0.0, np.array(h).dot(HR.recip_metric(c)).dot(h))) < 0.999]
        T.numeric(ctx, mt, 'tth', tcases, rtol=1e-8)
        T.numeric(ctx, mt, 'tth2', [(np.array([ctx.rng.gauss(0, 1) for _ in range(3)]), 0.2) for c in cells], rtol=1e-8)


def search(ctx):
    from xfab import tools, laue
    import xfab
    fails = []
    seen = set()
    old = xfab.CHECKS.activated
    xfab.CHECKS.activated = False
    try:
        for modname, mod, kappa in (('tools', tools, 2 * math.pi), ('laue', laue, 1.0)):
            for i in range(ctx.n(400, 8000)):
                gdir, tth, chi, wedge = case(ctx.rng)
                for solver in ('find_omega', 'find_omega_general', 'find_omega_quart', 'find_omega_wedge'):
                    try:
                        why = check_solver(modname, mod, solver, gdir, tth, chi, wedge)
                    except Exception as e:
                        why = 'raised %s: %s' % (type(e).__name__, e)
                    both = 'both tilts' if (chi != 0 and wedge != 0) else 'one or no tilt'
                    ctx.count(('s', modname, solver, i), hist='search:%s:%s' % (solver, both),
                              sample={'module': modname, 'solver': solver, 'g': gdir.tolist(), 'tth': tth, 'chi': chi, 'wedge': wedge} if i == 3 and solver == 'find_omega_general' else None)
                    if why and (modname, solver, why[:25]) not in seen:
                        seen.add((modname, solver, why[:25]))
                        fails.append({'module': modname, 'solver': solver, 'g': gdir.tolist(), 'tth': tth, 'chi': chi, 'wedge': wedge, 'what': why,
                                      'replay': 'xfab.%s.%s: %s' % (modname, solver, why)})
                # directed: find_omega_wedge close to its removable singularity a = 0
                if i % 8 == 0:
                    target = WEDGE_TARGETS[(i // 8) % len(WEDGE_TARGETS)]
                    gd, tt, wd = wedge_singular_case(ctx.rng, target)
                    try:
                        why = None if not (0 < tt < math.pi) else check_solver(modname, mod, 'find_omega_wedge', gd, tt, 0.0, wd)
                    except Exception as e:
                        why = 'raised %s: %s' % (type(e).__name__, e)
                    ctx.count(('sing', modname, i), hist='search:find_omega_wedge:near a = 0 (|a| = %.0e)' % abs(target))
                    if why and (modname, 'sing', why[:25]) not in seen:
                        seen.add((modname, 'sing', why[:25]))
                        fails.append({'module': modname, 'solver': 'find_omega_wedge', 'g': gd.tolist(), 'tth': tt, 'chi': 0.0, 'wedge': wd, 'a': target, 'what': why,
                                      'replay': 'xfab.%s.find_omega_wedge near a = %g: %s' % (modname, target, why)})
                # solvers agree where their tilts coincide (zero tilt): same omega set
                if i % 5 == 0:
                    s = math.sin(tth / 2)
                    gi = gdir * (s if modname == 'tools' else 1.0)
                    try:
                        sets = [sorted(np.asarray(mod.find_omega(gi, tth), float).reshape(-1)),
                                sorted(np.asarray(mod.find_omega_general(gi, tth, 0.0, 0.0)[0], float).reshape(-1)),
                                sorted(np.asarray(mod.find_omega_quart(gi, tth, 0.0, 0.0)[0], float).reshape(-1)),
                                sorted(np.asarray(mod.find_omega_wedge(gi, tth, 0.0)[0], float).reshape(-1))]
                        ok = all(len(x) == len(sets[0]) and (len(x) == 0 or G.maxerr(x, sets[0]) < 1e-6) for x in sets)
                        ne = n_expected('find_omega', gdir, tth, 0, 0)
                        if not ok and ne is not None and ('agree', modname) not in seen:
                            seen.add(('agree', modname))
                            fails.append({'module': modname, 'g': gdir.tolist(), 'tth': tth, 'what': 'solvers disagree at zero tilt: %r' % (sets,),
                                          'replay': 'zero-tilt agreement'})
                    except Exception as e:
                        pass
                # tth
                if i % 5 == 1:
                    c = G.valid_cell(ctx.rng)
                    h = G.hkl(ctx.rng, 3)
                    wl = 0.15
                    U = G.rotation(ctx.rng, 'uniform')
                    try:
                        stl = np.linalg.norm(mod.form_b_mat(c).dot(h)) / (2 * kappa)
                        if wl * stl < 1:
                            t1 = mod.tth(c, h, wl)
                            t2 = mod.tth2(U.dot(mod.form_b_mat(c)).dot(h), wl)
                            if abs(t1 - 2 * math.asin(wl * stl)) > 1e-9 or abs(t1 - t2) > 1e-9:
                                if ('tth', modname) not in seen:
                                    seen.add(('tth', modname))
                                    fails.append({'module': modname, 'cell': c, 'hkl': h, 'what': 'tth != 2 asin(lambda sintl) or != tth2(U.B.hkl)', 'replay': 'tth'})
                    except Exception as e:
                        pass
    finally:
        xfab.CHECKS.activated = old
    return fails


def match_known(f, e):
    return False


SPEC = dict(
    props=['props/C09_laue.v', 'props/C09_tools.v'], want={'trace'}, pre_build=pre_build, search=search,
    replay_known=lambda ctx, e: False, match_known=match_known,
    rule='theorems: all g, Bragg angles and tilts (see each statement). Correspondence: generated models of 6 functions x 2 modules. Search: g directions '
         '(incl. in-plane and nearly axis-parallel), 2theta in (0.5,150) deg, chi/wedge in [-0.5,0.5] incl. both non-zero, 4 solvers; diffraction condition '
         'against independently built rotation matrices; solution count against the closed form with a 1e-5 tangency exclusion; zero-tilt agreement; tth. '
         'distinct by (module, solver, case).',
    trusted=['Coq kernel; R axioms', 'T1 tracer', 'lib/Atan2.v: atan2 as numpy documents it'],
    assumptions=['floats modelled by reals'],
)

MANIFEST = dict(
    text='17 Coq theorems over R on the regenerated piecewise solvers (both modules): every (omega, eta) returned by find_omega_general, find_omega_quart and '
         'find_omega_wedge satisfies the diffraction condition under form_omega_mat_general / quart_to_omega / Ry(-wedge).Rz(omega), omega in (-pi, pi], every omega that '
         'meets the x-condition is returned (completeness), 0 / 2 solutions by the sign of the discriminant (|cos eta| > 1 for the wedge solver); find_omega is sound and '
         'in range; tth = 2 asin(lambda sintl) = tth2(U.B.hkl). At zero tilt find_omega_general, find_omega_quart and find_omega_wedge return the same set of omega and contain every omega of find_omega (theorem).',
    design_ref='DESIGN.md section 5 C09 and section 10',
    note='Trusted: Coq kernel, R axioms, T1 tracer, Atan2.v. The wedge theorems need no hypothesis on the code\'s quantity a any more (defect F14, repaired in 66ada13).',
    technique='Coq proof over R of generated piecewise model (atan2 lemmas + nsatz); numeric search on the implementation',
)

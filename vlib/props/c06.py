"""C06 - genhkl_unique lists one reflection per Laue family, sorted by true sintl"""
import math
import numpy as np
from .. import driver as D
from .. import hklref as HR
from .. import hklcorr as HC
from . import c05


def pre_build(ctx):
    HC.correspondence(ctx, 'unique', 'Corr_C06')


def search(ctx):
    from xfab import tools, laue
    fails = []
    seen = set()
    for k, (no, ch, s, case) in enumerate(HC.search_cases(ctx)):
        R, t = HR.ops_int(s)
        exp = HR.expected_all(s, case['cell'], case['lo'], case['hi'])
        fams = {}
        for h in exp:
            fams.setdefault(frozenset(HR.laue_orbit(h, R, s.nuniq)), None)
        for mod, (form, kw) in HC.plan(k, s, no, ch, case, tools, laue):
            kappa = 2 * math.pi if mod is tools else 1.0
            why, cls = None, None
            try:
                U4 = np.asarray(mod.genhkl_unique(case['cell'], case['lo'], case['hi'], output_stl=True, **kw), float)
                U3 = np.asarray(mod.genhkl_unique(case['cell'], case['lo'], case['hi'], **kw), float)
                rows = HC.rows_of(U4)
                B = mod.form_b_mat(case['cell'])
                hit = {}
                bad_extra = 0
                for h in rows:
                    f = frozenset(HR.laue_orbit(h, R, s.nuniq))
                    if f in fams:
                        hit[f] = hit.get(f, 0) + 1
                    else:
                        bad_extra += 1
                missing = [f for f in fams if f not in hit]
                multi = [f for f, c in hit.items() if c > 1]
                if bad_extra or multi:
                    why, cls = 'genhkl_unique: %d rows outside the allowed families, %d families listed more than once' % (bad_extra, len(multi)), 'extra/duplicate'
                elif missing:
                    cls = c05.classify(s, case, missing, [], 0)
                    why = 'genhkl_unique: %d Laue families missing (e.g. %r)' % (len(missing), sorted(missing[0])[:2])
                elif U3.shape != (len(rows), 3) or (len(rows) and not np.array_equal(U3, U4[:, :3])):
                    why, cls = 'output_stl=False does not give the same rows', 'cols'
                elif len(rows):
                    stl = U4[:, 3]
                    true = np.array([np.linalg.norm(B.dot(h)) / (2 * kappa) for h in rows])
                    if np.max(np.abs(stl - true)) > 1e-9:
                        why, cls = 'fourth column is not sin(theta)/lambda of the row', 'stl'
                    elif np.any(np.diff(stl) < -1e-12):
                        why, cls = 'rows not sorted by sin(theta)/lambda', 'sort'
                    elif np.min(stl) <= case['lo'] or np.max(stl) > case['hi']:
                        why, cls = 'a row lies outside sintlmin < stl <= sintlmax', 'shell'
                if why is None and k % 3 == 0:
                    A4 = np.asarray(mod.genhkl_all(case['cell'], case['lo'], case['hi'], output_stl=True, **kw), float)
                    arows = HC.rows_of(A4)
                    union = set()
                    for h in rows:
                        union |= HR.laue_orbit(h, R, s.nuniq)
                    if set(arows) != union or len(arows) != len(set(arows)):
                        why, cls = 'genhkl_all is not the union of the Laue families of genhkl_unique', 'union'
                    elif len(arows) and np.any(np.diff(A4[:, 3]) < -1e-12):
                        why, cls = 'genhkl_all rows not sorted by sin(theta)/lambda', 'sort'
            except Exception as e:
                why, cls = 'raised %s: %s' % (type(e).__name__, e), 'exc'
            ctx.count(('uniq', no, ch, k, mod.__name__, form), hist='search:%s:%s%s' % (s.crystal_system, 'oblique' if HC.oblique(case) else 'orthogonal metric', (':' + case['kind']) if case.get('kind') else ''),
                      sample={'sgno': no, 'cell_choice': ch, 'cell': case['cell'], 'sintlmax': case['hi'], 'families': len(fams)} if no == 62 else None)
            if why and (cls, s.crystal_system if cls == 'F6' else no) not in seen:
                seen.add((cls, s.crystal_system if cls == 'F6' else no))
                fails.append({'sgno': no, 'cell_choice': ch, 'cell': case['cell'], 'sintlmin': case['lo'], 'sintlmax': case['hi'], 'module': mod.__name__,
                              'class': cls, 'what': why, 'replay': '%s.genhkl_unique(%r, %r, %r, %s): %s' % (mod.__name__, case['cell'], case['lo'], case['hi'], form, why)})
    # sintlmin exclusive / sintlmax inclusive, with the bound equal to the module's own sintl of a point the traversal evaluates
    for kb, (no, s, K, cell, h0) in enumerate(HC.boundary_cases(ctx)):
        mod = tools if kb % 2 == 0 else laue
        R, t = HR.ops_int(s)
        fam = HR.laue_orbit(h0, R, s.nuniq)
        why = None
        try:
            b = float(mod.sintl(cell, np.array(h0)))
            inc = set(HC.rows_of(mod.genhkl_unique(cell, 0.0, b, sgno=no)))
            exc = set(HC.rows_of(mod.genhkl_unique(cell, b, 1.4 * b, sgno=no)))
            if not (inc & fam):
                why = 'sintlmax is not inclusive: with sintlmax = sintl(%r) the family of %r is missing' % (list(h0), list(h0))
            elif exc & fam:
                why = 'sintlmin is not exclusive: with sintlmin = sintl(%r) the family of %r is listed' % (list(h0), list(h0))
        except Exception as e:
            why = 'raised %s: %s' % (type(e).__name__, e)
        ctx.count(('bound', no, kb), hist='search:boundary:%s' % s.crystal_system)
        if why and ('bound', mod.__name__) not in seen:
            seen.add(('bound', mod.__name__))
            fails.append({'sgno': no, 'cell_choice': 'standard', 'cell': cell, 'hkl': list(h0), 'module': mod.__name__, 'class': 'boundary', 'what': why,
                          'replay': '%s.genhkl_unique boundary at sintl(%r), sgno=%d, cell=%r: %s' % (mod.__name__, list(h0), no, cell, why)})
    # by name with the default cell_choice (R...r names select the rhombohedral setting themselves)
    from xfab import sg
    for no in (146, 148, 160, 166, 167):
        nm = sg.sg(sgno=no, cell_choice='rhombohedral').name
        cell = [5.3, 5.3, 5.3, 62.0, 62.0, 62.0]
        for mod in (tools, laue):
            try:
                a = set(HC.rows_of(mod.genhkl_unique(cell, 0.0, 0.33, sgname=nm)))
                b = set(HC.rows_of(mod.genhkl_unique(cell, 0.0, 0.33, sgno=no, cell_choice='rhombohedral')))
                ctx.count(('name', no, mod.__name__), hist='search:R names')
                if a != b and ('name', mod.__name__) not in seen:
                    seen.add(('name', mod.__name__))
                    fails.append({'sgno': no, 'class': 'name', 'what': '%s.genhkl_unique by name %r differs from by number with cell_choice=rhombohedral' % (mod.__name__, nm), 'replay': 'by name'})
            except Exception as e:
                if ('nameexc', mod.__name__) not in seen:
                    seen.add(('nameexc', mod.__name__))
                    fails.append({'sgno': no, 'class': 'exc', 'what': '%s.genhkl_unique(sgname=%r) raised %s: %s' % (mod.__name__, nm, type(e).__name__, e), 'replay': 'by name'})
    return fails


def replay_known(ctx, e):
    from xfab import tools, sg
    inp = e['input']
    s = sg.sg(sgno=inp['sgno'], cell_choice=inp['cell_choice'])
    R, t = HR.ops_int(s)
    exp = HR.expected_all(s, inp['cell'], inp['sintlmin'], inp['sintlmax'])
    rows = HC.rows_of(tools.genhkl_unique(inp['cell'], inp['sintlmin'], inp['sintlmax'], sgno=inp['sgno'], cell_choice=inp['cell_choice']))
    covered = set()
    for h in rows:
        covered |= HR.laue_orbit(h, R, s.nuniq)
    return bool(exp - covered)


SPEC = dict(
    props=['props/C06.v'], want={'tables', 'ast'}, extra_targets=['gen/Corr_C06.vo'], pre_build=pre_build, search=search,
    replay_known=replay_known, match_known=c05.match_known, timeout=2400,
    rule='theorems as for C05 (sysabs vs operators on the box, traversal soundness) plus the orbit-expansion lemmas. Correspondence: traversal model evaluated in Coq vs '
         'genhkl_unique (tools and laue alternately). Search: one-per-family against brute-force Laue orbits, sorting, stl column, shell bounds, output_stl on/off, '
         'union relation with genhkl_all, rhombohedral names. distinct by (setting, case).',
    trusted=c05.SPEC['trusted'], assumptions=c05.SPEC['assumptions'],
)

MANIFEST = dict(
    text='Coq: every row of the traversal model is an allowed reflection inside the shell lying in the traversal\'s asymmetric unit; for all of Z^3 and every setting '
         'no two different members of one Laue family lie in the asymmetric unit (generated lia proofs, one goal per group element and pair of segments), so the rows '
         'never contain two members of a family; the Laue images of the cones cover Z^3 minus 0 and the traversal is complete for monotone metrics (see C05), so there is '
         'exactly one row per allowed family in the orthorhombic, tetragonal, cubic and hexagonal-axes systems; the expansion used by genhkl_all lists each image once. '
         'The model is evaluated in Coq against genhkl_unique on every run. Ordering: the sorting step is modelled on the integer key q(h) (model/HklSort.v), proved to give rows with '
         'non-decreasing key that are a permutation of the unsorted rows, and the sequence of keys of the implementation\'s rows, in the order returned, is compared with the model\'s in Coq on every run. '
         'The value of the stl column is checked on the implementation; completeness elsewhere: known finding F6.',
    design_ref='DESIGN.md section 5 C06 and section 10',
    note='Trusted: as C05. Partial: the value of the stl column and the inclusive/exclusive shell bounds are decided by search only; order among rows of equal key is not modelled.',
    technique='Coq: generated lia proofs over Z^3 (fundamental domain) + induction on the traversal model + vm_compute + in-Coq evaluation correspondence; brute-force search',
)

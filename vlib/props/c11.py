"""C11 - detector orientation flips are exact bijections, same for pixels and images"""
import math
import itertools
import numpy as np
from .. import driver as D
from .. import t1check as T

VALID = [(1, 0, 0, 1), (-1, 0, 0, 1), (1, 0, 0, -1), (-1, 0, 0, -1), (0, 1, 1, 0), (0, -1, -1, 0), (0, -1, 1, 0), (0, 1, -1, 0)]
ALL81 = list(itertools.product([-1, 0, 1], repeat=4))


def coq_img(img):
    return '[' + '; '.join('[' + '; '.join(str(int(v)) for v in row) + ']' for row in img) + ']'


def pre_build(ctx):
    """T3 validation: the generated Gallina flips evaluated in Coq on the same images as the implementation"""
    from xfab import detector
    rng = ctx.rng
    cases = []
    shapes = [(1, 1), (1, 3), (3, 1), (2, 3), (3, 2), (4, 4), (2, 5)] + [(rng.randint(1, 8), rng.randint(1, 8)) for _ in range(ctx.n(6, 40))]
    lines = []
    for (m, n) in shapes:
        img = np.arange(m * n).reshape(m, n) + 1
        for o in ALL81 if (m, n) in ((2, 3), (1, 1)) else VALID:
            for d in ('forward', 'inverse'):
                for fname in ('trans_orientation', 'image_flipping'):
                    try:
                        out = getattr(detector, fname)(img.copy(), o[0], o[1], o[2], o[3], d)
                        exp = 'Some ' + coq_img(out)
                    except ValueError:
                        exp = 'None'
                    lines.append('(ast_detector_%s %s %s %s %s %s "%s"%%string, %s)' % (
                        fname, coq_img(img), *['(%d)' % x for x in o], d, exp))
                    ctx.count(('t3', fname, m, n, o, d), hist='T3:%s' % fname,
                              sample={'fn': fname, 'shape': [m, n], 'o': list(o), 'dir': d} if len(ctx.cov['samples']) < 2 else None)
                    ctx.cov['disagreements_checked'] += 1
    eqb = ('Definition oimg_eqb (a b : option (list (list Z))) : bool := match a, b with\n'
           '  | Some x, Some y => list_eqb (list_eqb Z.eqb) x y | None, None => true | _, _ => false end.\n')
    text = ('(* GENERATED on every run: the AST-translated flips evaluated inside Coq vs the implementation *)\n'
            'From Coq Require Import ZArith List Bool String.\nFrom XV Require Import ImgLib SGroup Ast_detector.\nImport ListNotations.\nOpen Scope Z_scope.\n'
            + eqb + 'Goal forallb (fun p => oimg_eqb (fst p) (snd p)) [\n%s\n] = true.\nProof. vm_compute. reflexivity. Qed.\n' % ';\n'.join(lines))
    D.write_if_changed(D.GEN + '/Corr_C11.v', text)
    # T1 validation of the traced coordinate functions
    tr = ctx.gen.get('trace')
    if tr:
        mt = tr['detector']
        for k, o in enumerate(VALID):
            args = []
            for _ in range(ctx.n(10, 80)):
                ny, nz = rng.randint(1, 2048), rng.randint(1, 2048)
                args.append((np.array([rng.uniform(0, nz - 1), rng.uniform(0, ny - 1)]), float(ny), float(nz)))
            T.numeric(ctx, mt, 'xy_to_detyz_o%d' % k, args)
            T.numeric(ctx, mt, 'detyz_to_xy_o%d' % k, args)
        T.numeric(ctx, mt, 'detyz_to_eta_and_radpix', [(np.array([rng.uniform(0, 2000), rng.uniform(0, 2000)]), 1000.0, 1000.0) for _ in range(40)], rtol=1e-8, atol=1e-8)
        T.numeric(ctx, mt, 'eta_and_radpix_to_detyz', [(rng.uniform(0, 360), rng.uniform(1, 900), 1000.0, 1000.0) for _ in range(40)], rtol=1e-8, atol=1e-8)


def search(ctx):
    from xfab import detector
    rng = ctx.rng
    fails = []
    seen = set()

    def fail(tag, info, why):
        if tag not in seen:
            seen.add(tag)
            fails.append(dict(info, what=why, tag=tag, replay=why))
    shapes = [(m, n) for m in range(1, 9) for n in range(1, 9)] if ctx.tier == 'thorough' else \
        [(1, 1), (1, 4), (5, 1), (2, 3), (3, 2), (4, 4), (3, 7), (8, 5)] + [(rng.randint(1, 8), rng.randint(1, 8)) for _ in range(6)]
    shapes += [(rng.randint(9, 60), rng.randint(9, 60)) for _ in range(ctx.n(3, 20))]
    for (nx, ny) in shapes:                      # raw image indexed img[x, y]
        img = np.arange(nx * ny).reshape(nx, ny) + 1
        for o in ALL81:
            valid = o in VALID
            for fname in ('trans_orientation', 'image_flipping'):
                f = getattr(detector, fname)
                ctx.count(('flip', fname, nx, ny, o), hist='search:%s:%s' % (fname, 'valid' if valid else 'invalid'),
                          sample={'fn': fname, 'shape': [nx, ny], 'o': list(o)} if (o == VALID[6] and (nx, ny) == (2, 3)) else None)
                try:
                    fw = f(img.copy(), *o, 'forward')
                    back = f(fw.copy(), *o, 'inverse')
                    if not valid:
                        fail(('accept', fname), {'fn': fname, 'o': list(o), 'shape': [nx, ny]}, '%s accepts the invalid orientation %r' % (fname, o))
                    elif back.shape != img.shape or not np.array_equal(back, img):
                        fail(('inv', fname), {'fn': fname, 'o': list(o), 'shape': [nx, ny]}, '%s inverse does not undo forward for %r on shape %r' % (fname, o, (nx, ny)))
                    elif sorted(fw.reshape(-1)) != sorted(img.reshape(-1)):
                        fail(('bij', fname), {'fn': fname, 'o': list(o), 'shape': [nx, ny]}, '%s is not a bijection of pixels' % fname)
                except ValueError:
                    if valid:
                        fail(('reject', fname), {'fn': fname, 'o': list(o)}, '%s rejects the valid orientation %r' % (fname, o))
                except Exception as e:
                    fail(('exc', fname), {'fn': fname, 'o': list(o)}, '%s raised %s: %s' % (fname, type(e).__name__, e))
            # coordinate maps
            for fname in ('xy_to_detyz', 'detyz_to_xy'):
                try:
                    getattr(detector, fname)(np.array([0.0, 0.0]), *o, ny, nx)
                    if not valid:
                        fail(('accept', fname), {'fn': fname, 'o': list(o)}, '%s accepts the invalid orientation %r' % (fname, o))
                except ValueError:
                    if valid:
                        fail(('reject', fname), {'fn': fname, 'o': list(o)}, '%s rejects the valid orientation %r' % (fname, o))
            if not valid:
                continue
            # the same pixel values held in other memory layouts (column-major, transposed view, strided crop of a larger image, negative strides, float / int32 dtype)
            big = np.zeros((2 * nx + 1, 2 * ny + 1), dtype=img.dtype)
            big[1::2, 1::2] = img
            layouts = {'Fortran order': np.asfortranarray(img), 'transposed view': np.ascontiguousarray(img.T).T, 'strided crop': big[1::2, 1::2],
                       'negative strides': np.ascontiguousarray(img[::-1, ::-1])[::-1, ::-1], 'float64': img.astype(float), 'int32 Fortran': np.asfortranarray(img.astype(np.int32))}
            for fname in ('trans_orientation', 'image_flipping'):
                f = getattr(detector, fname)
                for direction in ('forward', 'inverse'):
                    ref = f(img.copy(), *o, direction)
                    for lname, arr in layouts.items():
                        ctx.count(('layout', fname, nx, ny, o, direction, lname), hist='search:%s:memory layouts' % fname)
                        try:
                            got = f(arr, *o, direction)
                            if got.shape != ref.shape or not np.array_equal(got, ref):
                                fail(('layout', fname), {'fn': fname, 'o': list(o), 'shape': [nx, ny], 'layout': lname},
                                     '%s(%s) of a %s image differs from the result for the same pixel values in a C-ordered array (orientation %r, shape %r)' % (fname, direction, lname, o, (nx, ny)))
                        except Exception as e:
                            fail(('layoutexc', fname), {'fn': fname, 'o': list(o), 'layout': lname}, '%s raised %s on a %s image' % (fname, type(e).__name__, lname))
            # sizes: detz_size = extent along x, dety_size = extent along y
            dety_size, detz_size = ny, nx
            std = detector.trans_orientation(img.copy(), *o, 'forward')
            pts = [(x, y) for x in range(nx) for y in range(ny)] if nx * ny <= 64 else [(rng.randrange(nx), rng.randrange(ny)) for _ in range(30)]
            for (x, y) in pts:
                d = detector.xy_to_detyz(np.array([x, y]), *o, dety_size, detz_size)
                dy, dz = int(round(d[0])), int(round(d[1]))
                ctx.count(('pix', nx, ny, o, x, y), hist='search:pixel map')
                if not (0 <= dy < std.shape[0] and 0 <= dz < std.shape[1]) or std[dy, dz] != img[x, y]:
                    fail(('pixmap',), {'o': list(o), 'shape': [nx, ny], 'xy': [x, y]},
                         'xy_to_detyz(%r) = %r is not where trans_orientation stores that pixel (orientation %r, shape %r)' % ((x, y), d.tolist(), o, (nx, ny)))
                b = detector.detyz_to_xy(d, *o, dety_size, detz_size)
                if np.max(np.abs(np.asarray(b, float) - [x, y])) > 1e-9:
                    fail(('xyinv',), {'o': list(o), 'shape': [nx, ny], 'xy': [x, y]},
                         'detyz_to_xy(xy_to_detyz(%r)) = %r (orientation %r, raw shape %r)' % ((x, y), np.asarray(b).tolist(), o, (nx, ny)))
                # real-valued interior point
                q = np.array([x + rng.random() * 0.999 * (nx - 1 - x), y + rng.random() * 0.999 * (ny - 1 - y)])
                b = detector.xy_to_detyz(detector.detyz_to_xy(q[::-1].copy(), *o, dety_size, detz_size), *o, dety_size, detz_size)
    # eta / radius
    for i in range(ctx.n(300, 5000)):
        cy, cz = rng.uniform(-100, 2100), rng.uniform(-100, 2100)
        if i % 4 == 1:      # special beam centres: on the first row / column of the detector, integer typed, negative zero, at the origin
            cy, cz = rng.choice([(0, cz), (cy, 0), (0.0, cz), (cy, -0.0), (0, 0), (rng.randint(-5, 2048), rng.randint(-5, 2048)), (0, rng.randint(1, 2048)), (rng.randint(1, 2048), 0.0)])
        eta = rng.choice([0.0, 90.0, 180.0, 270.0, 360.0, rng.uniform(0, 360)])
        rad = rng.choice([1.0 + 1e-9, rng.uniform(1.0 + 1e-9, 1500)])   # radius >= 1 pixel; the exact boundary is excluded (float rounding of the radius decides the branch there)
        p = detector.eta_and_radpix_to_detyz(eta, rad, cy, cz)
        e2, r2 = detector.detyz_to_eta_and_radpix(np.asarray(p, float), cy, cz)
        ctx.count(('eta', i), hist='search:eta/radius')
        de = abs((e2 - eta + 180) % 360 - 180)
        if abs(r2 - rad) > 1e-7 * max(1, rad) or de > 1e-5:
            fail(('eta',), {'eta': eta, 'radpix': rad, 'center': [cy, cz]}, 'detyz_to_eta_and_radpix(eta_and_radpix_to_detyz(%r, %r)) = (%r, %r)' % (eta, rad, e2, r2))
        if not (0 <= e2 <= 360):
            fail(('etarange',), {'eta': eta}, 'eta outside [0,360]')
        q = np.array([cy + rng.uniform(-800, 800), cz + rng.uniform(-800, 800)])
        e3, r3 = detector.detyz_to_eta_and_radpix(q, cy, cz)
        if r3 >= 1:
            q2 = detector.eta_and_radpix_to_detyz(e3, r3, cy, cz)
            if np.max(np.abs(np.asarray(q2, float) - q)) > 1e-6:
                fail(('eta2',), {'point': q.tolist()}, 'eta_and_radpix_to_detyz(detyz_to_eta_and_radpix(p)) != p')
    from .. import history as H
    fails += H.narrow_int_replays(ctx, 'xfab.detector.eta_and_radpix_to_detyz(eta, 1000.5, 10.25, 20.75)', lambda e: detector.eta_and_radpix_to_detyz(e, 1000.5, 10.25, 20.75), list(range(0, 361, 7)) + [1, 45, 90, 127, 128, 255, 256])
    fails += H.narrow_int_replays(ctx, 'xfab.detector.eta_and_radpix_to_detyz(33.3, radius, 10.25, 20.75)', lambda r: detector.eta_and_radpix_to_detyz(33.3, r, 10.25, 20.75), [1, 2, 100, 127, 128, 255, 256, 1000, 40000])
    return fails


def match_known(f, e):
    return False


SPEC = dict(
    props=['props/C11.v'], want={'trace', 'ast'}, extra_targets=['gen/Corr_C11.vo'], pre_build=pre_build, search=search,
    replay_known=lambda ctx, e: False, match_known=match_known,
    rule='theorems: every rectangular image of every shape m,n >= 1 (lists of rows over any type), the 8 valid and 73 invalid matrices; coordinate maps over '
         'all real coordinates and sizes >= 1. Correspondence: the AST-translated Gallina evaluated in Coq against the implementation on images of 13+ shapes x '
         '(81 or 8) matrices x 2 directions x 2 functions. Search: all 81 matrices x shapes (every pixel for small shapes), pixel map against trans_orientation, '
         'coordinate round trips, eta/radius round trips. distinct by (function, shape, matrix[, pixel]).',
    trusted=['Coq kernel + vm_compute', 'T3 AST translator vlib/pyast.py (validated by evaluation in Coq on this run)', 'lib/ImgLib.v: numpy transpose/fliplr/flipud as list functions',
             'T1 tracer for the coordinate functions'],
    assumptions=['images are rectangular with both extents >= 1'],
)

MANIFEST = dict(
    text='9 Coq theorems over all image shapes (unbounded): for each of the 8 valid orientation matrices the inverse mode of trans_orientation and of '
         'image_flipping (Gallina regenerated from detector.py by the AST translator) undoes the forward mode exactly; all 73 other matrices over {-1,0,1} are '
         'rejected by both, whatever the image; xy_to_detyz / detyz_to_xy are mutual inverses for every orientation, all real coordinates and all sizes >= 1; '
         'xy_to_detyz(x,y) is the index at which trans_orientation stores pixel (x,y), for every shape and orientation; (dety,detz) <-> (eta,radius) invert for '
         'radius >= 1, eta in [0,360).',
    design_ref='DESIGN.md section 5 C11',
    note='Trusted: Coq kernel, vm_compute, T3/T1 translators, ImgLib definitions of the numpy operations.',
    technique='Coq proof by list induction/extensionality over regenerated Gallina; vm_compute for the 81-matrix enumeration',
)

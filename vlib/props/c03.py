"""C03 - rotation parametrisations"""
import math
import numpy as np
from .. import gens as G
from .. import t1check as T
from .. import driver as D

TWO_PI = 2 * math.pi


def pre_build(ctx):
    tr = ctx.gen.get('trace')
    if not tr:
        return
    rng = ctx.rng
    n = ctx.n(30, 300)
    ang = lambda: rng.choice([0.0, math.pi / 2, math.pi, -1.0, rng.uniform(-7, 7), rng.uniform(-0.5, 0.5)])
    for short in ('tools', 'laue'):
        mt = tr[short]
        T.numeric(ctx, mt, 'euler_to_u', [(ang(), ang(), ang()) for _ in range(n)])
        T.numeric(ctx, mt, 'form_omega_mat', [(ang(),) for _ in range(n)])
        T.numeric(ctx, mt, 'form_omega_mat_general', [(ang(), ang(), ang()) for _ in range(n)])
        T.numeric(ctx, mt, 'quart_to_omega', [(rng.uniform(-400, 400), ang(), ang()) for _ in range(n)])
        T.numeric(ctx, mt, 'detect_tilt', [(ang(), ang(), ang()) for _ in range(n)])
        T.numeric(ctx, mt, 'rod_to_u', [(np.array([rng.gauss(0, 1) for _ in range(3)]) * 10 ** rng.uniform(-3, 3),) for _ in range(n)])
        rots = [G.rotation(rng) for _ in range(n)]
        T.numeric(ctx, mt, 'u_to_rod', [(U,) for U in rots], rtol=1e-7, atol=1e-9)
        T.numeric(ctx, mt, 'u_to_euler', [(U,) for U in rots], rtol=1e-7, atol=1e-7)
        T.numeric(ctx, mt, '_arctan2', [(rng.choice([0.0, 1e-9, -1e-9, rng.gauss(0, 1)]), rng.choice([0.0, 1e-9, -1e-9, rng.gauss(0, 1)])) for _ in range(n)])


def err(A, B):
    return float(np.max(np.abs(np.asarray(A) - np.asarray(B))))


def check_constructors(mod, rng):
    a, b, c = (rng.uniform(-7, 7) for _ in range(3))
    out = []
    pairs = [('euler_to_u', mod.euler_to_u(a, b, c), G.Rz(a).dot(G.Rx(b)).dot(G.Rz(c))),
             ('form_omega_mat', mod.form_omega_mat(a), G.Rz(a)),
             ('form_omega_mat_general', mod.form_omega_mat_general(a, b, c), G.Rx(b).dot(G.Ry(c)).dot(G.Rz(a))),
             ('detect_tilt', mod.detect_tilt(a, b, c), G.Rx(a).dot(G.Ry(b)).dot(G.Rz(c)))]
    w = rng.uniform(-360, 360)
    P = G.Rx(b).dot(G.Ry(c))
    pairs.append(('quart_to_omega', mod.quart_to_omega(w, b, c), P.dot(G.Rz(math.radians(w))).dot(P.T)))
    r = np.array([rng.gauss(0, 1) for _ in range(3)]) * 10 ** rng.uniform(-3, 3)
    nr = np.linalg.norm(r)
    ax = r / nr
    th = 2 * math.atan(nr)
    K = np.array([[0, -ax[2], ax[1]], [ax[2], 0, -ax[0]], [-ax[1], ax[0], 0]])
    active = np.eye(3) + math.sin(th) * K + (1 - math.cos(th)) * K.dot(K)
    pairs.append(('rod_to_u', mod.rod_to_u(r), active.T))
    for nm, got, exp in pairs:
        if err(got, exp) > 1e-9:
            out.append((nm, 'not the documented composition (max err %.2e)' % err(got, exp), {'args': [a, b, c, w] if nm != 'rod_to_u' else r.tolist()}))
        if err(got.T.dot(got), np.eye(3)) > 1e-9 or abs(np.linalg.det(got) - 1) > 1e-9:
            out.append((nm, 'not a proper rotation', {'args': [a, b, c, w]}))
    if nr < 1e3:
        back = mod.u_to_rod(mod.rod_to_u(r))
        if err(back, r) > 1e-6 * max(1, nr * nr):
            out.append(('u_to_rod', 'u_to_rod(rod_to_u(r)) != r', {'r': r.tolist()}))
    return out


def check_inverse(mod, U):
    out = []
    e = mod.u_to_euler(U)
    if not (0 <= e[0] <= TWO_PI and 0 <= e[1] <= math.pi and 0 <= e[2] <= TWO_PI):
        out.append(('u_to_euler', 'angles out of range: %r' % (e.tolist(),)))
    elif err(mod.euler_to_u(*e), U) > 1e-6:
        out.append(('u_to_euler', 'euler_to_u(u_to_euler(U)) differs from U by %.3g' % err(mod.euler_to_u(*e), U)))
    if abs(1 + np.trace(U)) > 1e-5:   # rotation angle not within ~1e-6 rad... of 180 deg
        r = mod.u_to_rod(U)
        if not np.all(np.isfinite(r)) or err(mod.rod_to_u(r), U) > 1e-6:
            out.append(('u_to_rod', 'rod_to_u(u_to_rod(U)) differs from U'))
    return out


def rotations_for_search(ctx, n):
    rng = ctx.rng
    out = []
    for i in range(n):
        k = i % 8
        if k == 0:
            out.append(('uniform', G.rotation(rng, 'uniform')))
        elif k == 1:
            out.append(('axis', G.rotation(rng, 'axis')))
        elif k in (2, 3, 4):
            d = 10 ** rng.uniform(-12, -3)
            P = d if k != 4 else math.pi - d
            out.append(('near-gimbal', G.euler(rng.uniform(0, TWO_PI), P, rng.uniform(0, TWO_PI))))
        elif k == 5:
            out.append(('gimbal', G.euler(rng.uniform(0, TWO_PI), rng.choice([0.0, math.pi]), rng.uniform(0, TWO_PI))))
        elif k == 6:
            d = 10 ** rng.uniform(-8, -5)
            out.append(('band', G.euler(rng.choice([0, math.pi / 2, math.pi, rng.uniform(0, TWO_PI)]), rng.choice([d, math.pi - d]), rng.uniform(0, TWO_PI))))
        else:
            out.append(('uniform', G.rotation(rng, 'uniform')))
    return out


def search(ctx):
    from xfab import tools, laue
    import xfab
    fails = []
    old = xfab.CHECKS.activated
    xfab.CHECKS.activated = False
    try:
        for modname, mod in (('tools', tools), ('laue', laue)):
            for _ in range(ctx.n(200, 3000)):
                try:
                    bad = check_constructors(mod, ctx.rng)
                except Exception as e:
                    bad = [('constructor', 'raised %s: %s' % (type(e).__name__, e), {})]
                ctx.count(('ctor', modname, ctx.cov['evaluations']), hist='search:constructors:' + modname)
                for nm, why, info in bad:
                    fails.append({'module': modname, 'function': nm, 'what': why, 'input': info, 'kind': 'constructor',
                                  'replay': 'xfab.%s.%s: %s' % (modname, nm, why)})
            for kind, U in rotations_for_search(ctx, ctx.n(800, 20000)):
                try:
                    bad = check_inverse(mod, U)
                except Exception as e:
                    bad = [('u_to_euler', 'raised %s: %s' % (type(e).__name__, e))]
                ctx.count(('inv', modname, U.tobytes()), hist='search:inverse:%s:%s' % (modname, kind),
                          sample={'module': modname, 'kind': kind, 'U': U.tolist()} if kind == 'band' else None)
                for nm, why in bad:
                    fails.append({'module': modname, 'function': nm, 'what': why, 'U': U.tolist(), 'kind': kind,
                                  'replay': 'xfab.%s.%s on U=%r: %s' % (modname, nm, U.tolist(), why)})
            if len(fails) > 40:
                break
    finally:
        xfab.CHECKS.activated = old
    from .. import history as H
    for modname, mod in (('tools', tools), ('laue', laue)):
        fails += H.narrow_int_replays(ctx, 'xfab.%s.quart_to_omega(w, 0.1, 0.2)' % modname, lambda w, m=mod: m.quart_to_omega(w, 0.1, 0.2), list(range(-180, 181, 7)) + [1, 90, 127, 128, 255, 256, 359])
    return fails[:40]


def match_known(f, e):
    return False


SPEC = dict(
    props=['props/C03_laue.v', 'props/C03_tools.v'], want={'trace'}, pre_build=pre_build, search=search,
    replay_known=lambda ctx, e: False, match_known=match_known,
    rule='theorems: all real angles / Rodrigues vectors / proper rotations. Correspondence: generated models of 9 functions x 2 modules '
         'vs the implementation on random and special angles. Search: constructors vs independently built Rz/Rx/Ry products and the '
         'axis-angle formula; u_to_euler/u_to_rod inverses on uniform, axis-aligned, gimbal, near-gimbal (1e-12..1e-3) and band (1e-8..1e-5) rotations. '
         'distinct by (module, function, input).',
    trusted=['Coq kernel; R axioms', 'T1 tracer (validated numerically on this run)', 'lib/Mat3.v Rx Ry Rz is_rot as the specification vocabulary'],
    assumptions=['floats modelled by reals; the u_to_euler inverse within 1e-6 is checked numerically on the implementation (search harness), '
                 'not proved: see DESIGN.md C03 (partial)'],
)

MANIFEST = dict(
    text='41 Coq theorems over all real arguments on definitions regenerated from tools.py/laue.py: each constructor equals the documented '
         'composition (Rz Rx Rz; Rx Ry Rz; P Rz P^T; axis-angle facts for Rodrigues incl. passive sense) and is a proper rotation; '
         'u_to_rod/rod_to_u are mutual inverses on SO(3) minus 180-degree rotations; u_to_euler never raises on a rotation, returns angles in '
         '[0,2pi]x[0,pi]x[0,2pi], and euler_to_u(u_to_euler U) is within 1e-6 of U in every entry for EVERY rotation U, whatever branch of the code is '
         'taken (gimbal bands, _arctan2 arguments snapped to an axis, generic); outside the tolerance bands the inverse is exact in both directions.',
    design_ref='DESIGN.md section 5 C03 and section 10',
    note='Trusted: Coq kernel, R axioms, T1 tracer. Floats are modelled by reals.',
    technique='Coq proof over R of generated piecewise model (nsatz in the orthonormality ideal, atan2 lemmas, entrywise perturbation bounds); numeric search on the implementation',
)

"""C08 - the structure factor equals the explicit sum over the unit-cell contents"""
import math
import numpy as np
from .. import driver as D
from .. import hklref as HR
from .. import sfref as SF


def _model_sum(mt, hkl, cell, s, atoms, disper, ff):
    """the Coq-side SF evaluated numerically: the traced per-term functions summed over atoms and operations, with f', f'' looked up per atom"""
    tot = np.zeros(2)
    h = np.array(hkl, float)
    c = np.array(cell, float)
    for a in atoms:
        d = None if disper is None else disper.get(a.atomtype)
        fp, fpp = (0.0, 0.0) if d is None else d
        f = ff(a.atomtype)
        for j in range(s.nsymop):
            common = (h, c, np.asarray(s.rot[j], float), np.asarray(s.trans[j], float), np.asarray(a.pos, float))
            tail = (a.occ, float(a.symmulti), float(s.nsymop), f, fp, fpp)
            if a.adp_type == 'Uiso':
                _, val = mt.eval_model('sf_term_uiso', *common, a.adp, *tail)
            elif a.adp_type == 'Uani':
                _, val = mt.eval_model('sf_term_uani', *common, np.array(a.adp, float), *tail)
            else:
                _, val = mt.eval_model('sf_term_noadp', *common, *tail)
            tot += np.asarray(val, float)
    return tot


def random_disper(rng, atoms):
    """dispersion table: absent, complete, partially None (in both orders), or all None"""
    types = []
    for a in atoms:
        if a.atomtype not in types:
            types.append(a.atomtype)
    mode = rng.choice(['absent', 'complete', 'partial', 'partial', 'allnone'])
    if mode == 'absent':
        return None, mode
    d = {}
    for k, t in enumerate(types):
        ent = [round(rng.uniform(-2, 2), 3), round(rng.uniform(0.1, 4), 3)]
        if mode == 'allnone' or (mode == 'partial' and rng.random() < 0.5):
            ent = None
        d[t] = ent
    if mode == 'partial' and len(types) >= 2:
        # make sure a None type follows a type with an entry, and the reverse, somewhere
        d[types[0]] = [round(rng.uniform(-2, 2), 3), round(rng.uniform(0.1, 4), 3)]
        d[types[-1]] = None
    return d, mode


def symmetrise_uani(a, s, cell):
    """make the tensor of an atom on a special position invariant under its site symmetry (average R beta R' over the stabiliser)"""
    R = np.rint(np.asarray(s.rot)).astype(int)
    t = np.rint(np.asarray(s.trans, float) * 12) / 12.0
    b = SF.beta_from_uani(a.adp, cell)
    acc, n = np.zeros((3, 3)), 0
    for Ri, ti in zip(R, t):
        d = Ri.dot(a.pos) + ti - a.pos
        if np.allclose(d, np.rint(d), atol=1e-6):
            acc += Ri.dot(b).dot(Ri.T)
            n += 1
    b = acc / n
    Gs = HR.recip_metric(cell)
    ast = np.sqrt(np.diag(Gs))
    U = b / (2 * math.pi ** 2 * np.outer(ast, ast))
    a.adp = [U[0, 0], U[1, 1], U[2, 2], U[1, 2], U[0, 2], U[0, 1]]


def make_structure(rng, s, cell, n, special):
    atoms = SF.random_atoms(rng, cell, n, special=special)
    # distinct types so that partial tables are meaningful
    SF.set_multiplicities(atoms, s)
    for a in atoms:
        if a.adp_type == 'Uani' and a.symmulti != s.nsymop:
            symmetrise_uani(a, s, cell)
    return atoms


def pre_build(ctx):
    """correspondence: StructureFactor vs the Coq-side double sum (traced per-term functions, dispersion looked up per atom) on whole structures,
       and T1 validation of the two skeleton traces"""
    tr = ctx.gen.get('trace')
    if not tr:
        return
    from xfab import structure, sg, tools
    mt = tr['structure']
    rng = ctx.rng
    for it in range(ctx.n(40, 300)):
        no = rng.randint(1, 230)
        s = sg.sg(sgno=no)
        cell = HR.conforming_cell(rng, s.crystal_system, s.cell_choice)
        atoms = make_structure(rng, s, cell, rng.randint(2, 4), 0.3)
        disper, mode = random_disper(rng, atoms)
        hkl = [rng.randint(-6, 6) for _ in range(3)]
        stl = tools.sintl(cell, hkl)
        impl = structure.StructureFactor(hkl, cell, s.name, [SF.Atom(**a.__dict__) for a in atoms], disper)
        model = _model_sum(mt, hkl, cell, s, atoms, disper, lambda t: structure.FormFactor(t, stl))
        ctx.count(('corr', it), hist='corr:disper=%s' % mode, sample={'sgno': no, 'hkl': hkl, 'disper': mode} if it < 2 else None)
        ctx.cov['disagreements_checked'] += 1
        sc = max(1.0, abs(impl[0]) + abs(impl[1]))
        if abs(model[0] - impl[0]) > 1e-8 * sc or abs(model[1] - impl[1]) > 1e-8 * sc:
            ctx.broken.append(D.Broken('correspondence', 'StructureFactor != the double sum of the traced summand with per-atom dispersion lookup',
                                       'sgno=%d hkl=%r disper=%r types=%r impl=%r model=%r' % (no, hkl, disper, [a.atomtype for a in atoms], list(impl), model.tolist())))
            break


def search(ctx):
    from xfab import structure, sg
    rng = ctx.rng
    fails, seen = [], set()
    groups = list(range(1, 231))
    if ctx.quick and not ctx.broken:
        groups = sorted(set(rng.sample(groups, 60) + [1, 2, 14, 19, 62, 76, 78, 92, 96, 144, 152, 169, 178, 198, 212, 213, 225, 227]))
    deep = bool(ctx.broken)

    def sf(hkl, cell, name, atoms, disper):
        return complex(*structure.StructureFactor(list(hkl), cell, name, [SF.Atom(**a.__dict__) for a in atoms], disper))

    for no, ch in [(no, 'standard') for no in groups] + [(no, 'rhombohedral') for no in (146, 148, 155, 160, 161, 166, 167)]:
        s = sg.sg(sgno=no, cell_choice=ch)
        name = s.name                   # R...r for the rhombohedral settings
        for rep in range(ctx.n(1, 3) * (2 if deep else 1)):
            cell = HR.conforming_cell(rng, s.crystal_system, s.cell_choice)
            atoms = make_structure(rng, s, cell, rng.randint(1, 4), rng.choice([0.0, 0.5, 1.0]))
            disper, mode = random_disper(rng, atoms)
            tot = sum(a.occ * a.symmulti * (SF.formfac(a.atomtype, 0.0) + 4.5) for a in atoms)
            tol = 1e-6 * max(1.0, tot) * 12
            for q in range(ctx.n(3, 8)):
                h = [rng.randint(-7, 7) for _ in range(3)] if q else [0, 0, 0]
                why, cls = None, None
                try:
                    F = sf(h, cell, name, atoms, disper)
                    Fx = complex(SF.explicit_sf(h, cell, s, atoms, disper))
                    if abs(F - Fx) > tol:
                        why, cls = 'F = %r differs from the explicit unit-cell sum %r (|diff| %.3g, scale %.3g); dispersion table %s' % (F, Fx, abs(F - Fx), tot, mode), 'explicit:' + mode
                    if why is None:
                        # lattice shift of one atom
                        k = rng.randrange(len(atoms))
                        L = np.array([rng.randint(-2, 2) for _ in range(3)], float)
                        atoms2 = [SF.Atom(**a.__dict__) for a in atoms]
                        atoms2[k].pos = atoms[k].pos + L
                        F2 = sf(h, cell, name, atoms2, disper)
                        if abs(F2 - F) > tol:
                            why, cls = 'shifting atom %d by the lattice vector %r changes F by %.3g' % (k, L.tolist(), abs(F2 - F)), 'shift'
                    if why is None:
                        # linear in occupancy: scale one atom, F changes by (sc-1) x that atom's own contribution
                        k = rng.randrange(len(atoms))
                        sc = rng.choice([0.0, 0.5, 2.0])
                        Fk = sf(h, cell, name, [atoms[k]], disper)
                        atoms2 = [SF.Atom(**a.__dict__) for a in atoms]
                        atoms2[k].occ = atoms[k].occ * sc
                        F2 = sf(h, cell, name, atoms2, disper)
                        if abs(F2 - (F + (sc - 1) * Fk)) > tol:
                            why, cls = 'not linear in the occupancy of atom %d (factor %g)' % (k, sc), 'occ'
                    if why is None:
                        # Uiso vs the equivalent Uani
                        Gs = HR.recip_metric(cell)
                        ast = np.sqrt(np.diag(Gs))
                        cosang = Gs / np.outer(ast, ast)
                        atoms2 = [SF.Atom(**a.__dict__) for a in atoms]
                        changed = False
                        for a in atoms2:
                            if a.adp_type == 'Uiso':
                                U = a.adp
                                a.adp_type, a.adp = 'Uani', [U, U, U, U * cosang[1, 2], U * cosang[0, 2], U * cosang[0, 1]]
                                changed = True
                        if changed:
                            F2 = sf(h, cell, name, atoms2, disper)
                            if abs(F2 - F) > tol:
                                why, cls = 'isotropic U and the equivalent anisotropic tensor give different F (|diff| %.3g)' % abs(F2 - F), 'isoani'
                    if why is None and not any(h):
                        atoms2 = [SF.Atom(**a.__dict__) for a in atoms]
                        for a in atoms2:
                            a.adp_type, a.adp = rng.choice([('Uiso', 0.0), ('Uani', [0.0] * 6), (None, 0.0)])
                        F0 = sf(h, cell, name, atoms2, disper)
                        exp = 0j
                        for a in atoms2:
                            dd = None if disper is None else disper.get(a.atomtype)
                            fp, fpp = (0.0, 0.0) if dd is None else dd
                            exp += a.occ * a.symmulti * (SF.formfac(a.atomtype, 0.0) + fp + 1j * fpp)
                        if abs(F0 - exp) > tol:
                            why, cls = 'F(000) with zero displacement = %r, expected %r' % (F0, exp), 'f000:' + mode
                except Exception as e:
                    why, cls = 'raised %s: %s' % (type(e).__name__, e), 'exc'
                nspecial = sum(1 for a in atoms if a.symmulti != s.nsymop)
                ctx.count(('sf', no, ch, rep, q), hist='search:disper=%s special=%s' % (mode, 'yes' if nspecial else 'no'),
                          sample={'sgname': name, 'hkl': h, 'natoms': len(atoms), 'disper': mode} if no == 14 and q == 1 else None)
                if why and (cls, no if len(fails) < 3 else 0) not in seen:
                    seen.add((cls, no if len(fails) < 3 else 0))
                    fails.append({'sgno': no, 'sgname': name, 'cell': cell, 'hkl': list(h), 'class': cls, 'what': why, 'disper': disper,
                                  'atoms': [dict(pos=np.asarray(a.pos).tolist(), adp_type=a.adp_type, adp=(a.adp if not isinstance(a.adp, list) else list(map(float, a.adp))),
                                                 occ=a.occ, atomtype=a.atomtype, symmulti=a.symmulti) for a in atoms],
                                  'replay': 'StructureFactor sg=%s hkl=%r: %s' % (name, list(h), why)})
    # large structures (more than 256 and more than 512 atoms; non-uniform occupancies, mixed displacement types): the sum runs over every atom whatever their number
    for n_atoms, no in ((257, 2), (300, 4), (520, 1), (64, 19), (129, 14)):
        s = sg.sg(sgno=no)
        cell = HR.conforming_cell(rng, s.crystal_system, s.cell_choice)
        atoms = make_structure(rng, s, cell, n_atoms, 0.0)
        for a in atoms:
            a.occ = round(rng.uniform(0.05, 1.0), 3)
        disper, mode = random_disper(rng, atoms)
        tot = sum(a.occ * a.symmulti * (SF.formfac(a.atomtype, 0.0) + 4.5) for a in atoms)
        tol = 1e-6 * max(1.0, tot) * 12
        for h in ([0, 0, 0], [1, 0, 0], [rng.randint(-4, 4) for _ in range(3)]):
            ctx.count(('large', n_atoms, tuple(h)), hist='search:large structure (%d atoms)' % n_atoms)
            try:
                F = sf(h, cell, s.name, atoms, disper)
                Fx = complex(SF.explicit_sf(h, cell, s, atoms, disper))
                why = None if abs(F - Fx) <= tol else 'F = %r differs from the explicit unit-cell sum %r for a structure of %d atoms (|diff| %.3g, scale %.3g)' % (F, Fx, n_atoms, abs(F - Fx), tot)
            except Exception as e:
                why = 'raised %s: %s' % (type(e).__name__, e)
            if why and ('large', n_atoms) not in seen:
                seen.add(('large', n_atoms))
                fails.append({'sgno': no, 'sgname': s.name, 'cell': cell, 'hkl': list(h), 'class': 'large', 'what': why, 'natoms': n_atoms,
                              'replay': 'StructureFactor sg=%s hkl=%r with %d atoms: %s' % (s.name, list(h), n_atoms, why)})
    return fails


SPEC = dict(
    props=['props/C08.v'], want={'trace', 'tables'}, pre_build=pre_build, search=search, replay_known=lambda ctx, e: False, timeout=2400,
    rule='theorems: any operation list that is a group modulo lattice translations (every table: finite kernel computation), any atom list, integer hkl. '
         'Correspondence: StructureFactor on whole random structures (general and special positions, dispersion table absent / complete / partially None / all None) vs '
         'the Coq-side double sum evaluated numerically. Search: groups by name, 1..4 atoms (special positions with their site multiplicity and site-symmetric tensors), '
         'hkl incl. 000; explicit unit-cell-sum oracle, lattice shift, occupancy linearity, Uiso vs equivalent Uani, F(000). distinct by (group, structure, hkl).',
    trusted=['Coq kernel; R axioms', 'T1 tracer (summand traced with a symbolic one-operation group; two skeleton traces: two atoms with a partially None dispersion table, two operations)',
             'proofs/P07_gen.v SF: the double sum for arbitrary list lengths is a hand skeleton; the traced two-atom and two-operation runs are proved equal to it, longer structures by the correspondence',
             'T2 table extractor (operation lists; translations snapped to twelfths as in C04)', 'vm_compute for the per-setting group check (gen/P07_sg_NN.v)'],
    assumptions=['translations snapped to twelfths in the theorems; floats modelled by reals', 'Req_EM_T (decidable equality of reals, from the R axioms) to compare fractional coordinates'],
)

MANIFEST = dict(
    text='Coq theorems: for an operation list that is a group modulo the lattice (proved for every regenerated table by a kernel computation), the images of a position '
         'fall into classes of equal size (orbit-stabiliser), so the code\'s occ*symmulti/nsymop weighting makes StructureFactor equal to the explicit sum over the distinct '
         'sites of the cell; lattice-shift invariance, additivity and linearity in occupancy, Uiso = equivalent Uani, F(000). The summand and two loop skeletons are '
         'regenerated from structure.py on every run; whole structures are tied by a numeric correspondence; an explicit-sum oracle searches for failing inputs.',
    design_ref='DESIGN.md section 5 C08',
    note='Trusted: Coq kernel, R axioms, T1 tracer, the summation skeleton beyond two atoms/operations (correspondence), table extractor.',
    technique='Coq proof over R: orbit-stabiliser counting on lists + generated summand; in-kernel finite group check of the tables; numeric search with explicit-sum oracle',
)

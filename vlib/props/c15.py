"""C15 - site multiplicity equals the orbit size"""
import math
import numpy as np
from fractions import Fraction as F
from .. import driver as D

GRID = [F(0), F(1, 8), F(1, 6), F(1, 4), F(1, 3), F(3, 8), F(1, 2), F(5, 8), F(2, 3), F(3, 4), F(5, 6), F(7, 8)]


def ops_exact(s):
    """operations with translations snapped to twelfths (exact rationals)"""
    out = []
    for R, t in zip(np.asarray(s.rot), np.asarray(s.trans)):
        Ri = [[int(round(v)) for v in row] for row in R]
        tt = [F(int(round(float(v) * 12)), 12) for v in t]
        out.append((Ri, tt))
    return out


def orbit_size_exact(ops, pos):
    pts = set()
    for R, t in ops:
        q = tuple((sum(R[i][j] * pos[j] for j in range(3)) + t[i]) % 1 for i in range(3))
        pts.add(q)
    return len(pts)


def stabiliser_size(ops, pos):
    n = 0
    for R, t in ops:
        if all((sum(R[i][j] * pos[j] for j in range(3)) + t[i] - pos[i]) % 1 == 0 for i in range(3)):
            n += 1
    return n


def orbit_size_generic(ops, fam, z):
    """positions a*x + b with generic x (linear forms); fam gives (a, b) per coordinate, z fixed rational"""
    pts = set()
    for R, t in ops:
        q = []
        for i in range(3):
            a = sum(R[i][j] * fam[j][0] for j in range(3))
            b = (sum(R[i][j] * fam[j][1] for j in range(3)) + t[i]) % 1
            q.append((a, b))
        pts.add(tuple(q))
    return len(pts)


def settings():
    from xfab import sg
    out = []
    for no in range(1, 231):
        for ch in ('standard', 'rhombohedral'):
            s = sg.sg(sgno=no, cell_choice=ch)
            if ch == 'rhombohedral' and s.cell_choice != 'rhombohedral':
                continue
            out.append((no, ch, s))
    return out


def pre_build(ctx):
    """correspondence: the Coq model evaluated on sampled (setting, position in 24ths) pairs against structure.multiplicity"""
    from xfab import structure
    tb = ctx.gen.get('tables')
    if not tb:
        return
    rng = ctx.rng
    sets = tb['settings']
    cases = []
    for _ in range(ctx.n(150, 1500)):
        i = rng.randrange(len(sets))
        r = sets[i]
        if r['nsymop'] > 96 and rng.random() < 0.7:
            continue
        p = [rng.choice([0, 3, 4, 6, 8, 9, 12, 15, 16, 18, 20, 21]) + 24 * rng.choice([0, 0, 0, -1, 1, 2]) for _ in range(3)]
        if rng.random() < 0.2:
            p = [rng.randint(-30, 50) for _ in range(3)]
        ch = 'rhombohedral' if r['choice'] == 'rhombohedral' else 'standard'
        got = structure.multiplicity(np.array([x / 24.0 for x in p]), sgno=r['no'], cell_choice=ch)
        cases.append((i, p, int(got)))
        ctx.count(('corr', i, tuple(p)), hist='corr:model vs multiplicity', sample={'sgno': r['no'], 'cell_choice': ch, 'pos24': p, 'impl': int(got)} if len(cases) == 1 else None)
        ctx.cov['disagreements_checked'] += 1
    z = lambda v: '(%d)' % v if v < 0 else '%d' % v
    body = ';\n'.join('(%d%%nat, (%s, %s, %s), Some %d%%nat)' % (i, z(p[0]), z(p[1]), z(p[2]), g) for i, p, g in cases)
    text = ('(* GENERATED on every run *)\nFrom Coq Require Import ZArith List Bool.\nFrom XV Require Import SGroup Mult Tab_sg_all.\nImport ListNotations.\nOpen Scope Z_scope.\n'
            'Definition dflt : sgrec := mkSg 0 EmptyString EmptyString EmptyString EmptyString 0 0 [] [] [].\n'
            'Definition same (a b : option nat) : bool := match a, b with Some x, Some y => Nat.eqb x y | None, None => true | _, _ => false end.\n'
            'Goal forallb (fun c => let \'(i, p, e) := c in same (model_mult (nth i all_settings dflt) p) e) [\n%s\n] = true.\nProof. vm_compute. reflexivity. Qed.\n' % body)
    D.write_if_changed(D.GEN + '/Corr_C15.v', text.replace('From Coq Require Import ZArith List Bool.', 'From Coq Require Import ZArith List Bool String.'))


def search(ctx):
    from xfab import structure, sg
    rng = ctx.rng
    fails = []
    seen = set()
    allset = settings()
    npos = ctx.n(14, 126)
    for no, ch, s in allset:
        ops = ops_exact(s)
        for k in range(npos):
            kind = k % 7
            spell = None
            if kind == 6:
                # lattice points, spelled with integers (lists, tuples, integer arrays, booleans) as well as floats
                ipos = [rng.randint(-2, 2) for _ in range(3)] if rng.random() < 0.6 else [rng.randint(0, 1) for _ in range(3)]
                pos = [F(x) for x in ipos]
                exp = orbit_size_exact(ops, pos)
                fpos = list(ipos)
                spell = rng.choice(['int list', 'int tuple', 'int array', 'float array', 'bool list'] if all(x in (0, 1) for x in ipos) else ['int list', 'int tuple', 'int array', 'float array'])
                label = 'lattice point:' + spell
                kind = 0
            elif kind <= 2:
                pos = [rng.choice(GRID) for _ in range(3)]
                exp = orbit_size_exact(ops, pos)
                shift = [rng.randint(-2, 2) if kind == 2 else 0 for _ in range(3)]
                fpos = [float(p) + sh for p, sh in zip(pos, shift)]
                label = 'grid' + ('+lattice shift' if kind == 2 else '')
            else:
                x = F(rng.choice([1237, 2711, 3119, 4421]), 10007)          # generic x
                z = rng.choice(GRID)
                fam = {3: [(1, 0), (1, 0)], 4: [(1, 0), (2, 0)], 5: [(1, 0), (-1, 0)]}[kind]
                famz = fam + [(0, z)]
                exp = orbit_size_generic(ops, famz, z)
                pos = [fam[0][0] * x, fam[1][0] * x, z]
                fpos = [float(p) for p in pos]
                label = {3: 'x,x,z', 4: 'x,2x,z', 5: 'x,-x,z'}[kind]
            got = None
            why = None
            arg = {None: lambda: np.array(fpos), 'int list': lambda: [int(x) for x in fpos], 'int tuple': lambda: tuple(int(x) for x in fpos), 'int array': lambda: np.array(fpos, dtype=int),
                   'float array': lambda: np.array(fpos, dtype=float), 'bool list': lambda: [bool(x) for x in fpos]}[spell]
            if spell is None and k % 5 == 3:
                arg = rng.choice([lambda: list(fpos), lambda: tuple(fpos)])
            try:
                got = structure.multiplicity(arg(), sgno=no, cell_choice=ch)
                if k % 4 == 0:
                    g2 = structure.multiplicity(arg(), sgname=s.name)
                    if g2 != got:
                        why = 'by name gives %r, by number %r' % (g2, got)
            except Exception as e:
                why = 'raised %s: %s' % (type(e).__name__, e)
            ctx.count(('m', no, ch, tuple(fpos)), hist='search:' + label,
                      sample={'sgno': no, 'cell_choice': ch, 'position': fpos, 'expected': exp} if (no == 194 and k == 0) else None)
            if why is None and got != exp:
                why = 'multiplicity = %r, orbit has %d points' % (got, exp)
            if why is None and kind <= 2 and got * stabiliser_size(ops, pos) != len(ops):
                why = 'multiplicity %r x site-symmetry order %d != nsymop %d' % (got, stabiliser_size(ops, pos), len(ops))
            if why and (no, ch) not in seen:
                seen.add((no, ch))
                fails.append({'sgno': no, 'cell_choice': ch, 'name': s.name, 'position': fpos, 'expected': exp, 'got': got, 'what': why,
                              'replay': 'structure.multiplicity(%r, sgno=%d, cell_choice=%r): %s' % (arg(), no, ch, why)})
    # the eighths and sixths sub-grids in full for the diamond-glide groups and two more face-centred cubic groups (the special positions of Fd-3, Fd-3m, Fd-3c lie there;
    # 192 operations, many coinciding images): every point, not a sample
    from xfab import sg as _sg
    sub = [(a, b, c) for g in ([F(1, 8), F(3, 8), F(5, 8), F(7, 8)], [F(1, 6), F(1, 3), F(2, 3), F(5, 6)]) for a in g for b in g for c in g]
    big = [203, 227, 228] + rng.sample([196, 202, 209, 210, 216, 219, 225, 226], 2 if ctx.quick else 8)
    for no in big:
        s_ = _sg.sg(sgno=no)
        ops = ops_exact(s_)
        for pos in (sub if (no in (203, 227, 228) or not ctx.quick) else rng.sample(sub, 24)):
            exp = orbit_size_exact(ops, list(pos))
            fpos = [float(x) for x in pos]
            ctx.count(('sub', no, tuple(fpos)), hist='search:eighths/sixths sub-grid, F-centred cubic')
            try:
                got = structure.multiplicity(np.array(fpos), sgno=no)
                why = None if got == exp else 'multiplicity = %r, orbit has %d points' % (got, exp)
            except Exception as e:
                why = 'raised %s: %s' % (type(e).__name__, e)
            if why and (no, 'sub') not in seen:
                seen.add((no, 'sub'))
                fails.append({'sgno': no, 'cell_choice': 'standard', 'name': s_.name, 'position': fpos, 'expected': exp, 'what': why,
                              'replay': 'structure.multiplicity(%r, sgno=%d): %s' % (fpos, no, why)})
        # state must not leak between calls: both settings of an R group in sequence
    for no in (146, 148, 155, 160, 161, 166, 167):
        try:
            a = structure.multiplicity(np.array([0.1234, 0.2711, 0.3119]), sgname=sg.sg(sgno=no, cell_choice='rhombohedral').name)
            b = structure.multiplicity(np.array([0.1234, 0.2711, 0.3119]), sgname=sg.sg(sgno=no).name)
            c = structure.multiplicity(np.array([0.1234, 0.2711, 0.3119]), sgno=no)
            ea = len(sg.sg(sgno=no, cell_choice='rhombohedral').rot)
            eb = len(sg.sg(sgno=no).rot)
            ctx.count(('seq', no), hist='search:R-group call sequences')
            if (a, b, c) != (ea, eb, eb):
                fails.append({'sgno': no, 'what': 'call sequence rhombohedral name / hexagonal name / number gives %r, expected %r' % ((a, b, c), (ea, eb, eb)),
                              'replay': 'sequence on R group %d' % no})
        except Exception as e:
            fails.append({'sgno': no, 'what': 'raised %s: %s' % (type(e).__name__, e), 'replay': 'sequence'})
    return fails[:30]


def match_known(f, e):
    return False


SPEC = dict(
    props=['props/C15.v'], want={'tables'}, extra_targets=['gen/Corr_C15.vo'], pre_build=pre_build, search=search, replay_known=lambda ctx, e: False, match_known=match_known,
    rule='theorem: every setting whose table passes the bounds check, every position in 24ths (a superset of the property grid). Correspondence: the Coq model '
         'evaluated on sampled (setting, position) pairs against structure.multiplicity. Search: all 237 settings x grid positions (float, also lattice-shifted) '
         'and the x,x,z / x,2x,z / x,-x,z families with generic x against an exact rational orbit count; by name and by number; R-group call sequences. '
         'distinct by (setting, position).',
    trusted=['Coq kernel + vm_compute', 'T2 extractor', 'model/Mult.v: hand model of the loop in structure.multiplicity (tied by the correspondence on this run)'],
    assumptions=['positions in the theorem are exact multiples of 1/24; float positions and generic-x families are covered by the search harness only'],
)

MANIFEST = dict(
    text='Coq theorem for all 237 regenerated tables and ALL positions in 24ths (not only the 12^3 grid): the hand model of the multiplicity loop (images R x + t '
         'with the literal 6-digit translations, pairwise comparison with the 1e-5 tolerance) returns exactly the number of distinct points of the orbit modulo '
         'lattice translations; proved by a general dedup lemma plus an arithmetic lemma (tolerance vs the 1/24 grid), not by enumeration.',
    design_ref='DESIGN.md section 5 C15',
    note='Trusted: Coq kernel, T2 extractor, the hand model (correspondence: model evaluated in Coq vs implementation). Generic-x families and float inputs: numeric search with an exact rational oracle.',
    technique='Coq proof (induction on the loop + lia arithmetic) about a hand model tied by correspondence; finite table precondition by vm_compute',
)

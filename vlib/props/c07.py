"""C07 - structure factors transform correctly under the space-group operations"""
import math
import numpy as np
from .. import driver as D
from .. import hklref as HR
from .. import sfref as SF
from .. import t1check as T


def pre_build(ctx):
    """T1 validation of the traced summand against StructureFactor on one-atom structures in P1 (one operation) and against the per-term recomputation"""
    tr = ctx.gen.get('trace')
    if not tr:
        return
    from xfab import structure, sg
    mt = tr['structure']
    rng = ctx.rng
    for _ in range(ctx.n(40, 400)):
        no = rng.randint(1, 230)
        s = sg.sg(sgno=no)
        cell = HR.conforming_cell(rng, s.crystal_system, s.cell_choice)
        atoms = SF.random_atoms(rng, cell, 1)
        a = atoms[0]
        a.symmulti = rng.choice([1, 2, 4, s.nsymop])
        hkl = [rng.randint(-6, 6) for _ in range(3)]
        disper = {a.atomtype: [rng.uniform(-1, 1), rng.uniform(0, 2)]}
        impl = structure.StructureFactor(hkl, cell, s.name, atoms, disper)
        stl = None
        tot = np.zeros(2)
        for j in range(s.nsymop):
            f = structure.FormFactor(a.atomtype, __import__('xfab').tools.sintl(cell, hkl))
            common = (np.array(hkl, float), np.array(cell, float), np.asarray(s.rot[j], float), np.asarray(s.trans[j], float), np.asarray(a.pos, float))
            if a.adp_type == 'Uiso':
                kind, val = mt.eval_model('sf_term_uiso', *common, a.adp, a.occ, float(a.symmulti), float(s.nsymop), f, disper[a.atomtype][0], disper[a.atomtype][1])
            elif a.adp_type == 'Uani':
                kind, val = mt.eval_model('sf_term_uani', *common, np.array(a.adp, float), a.occ, float(a.symmulti), float(s.nsymop), f, disper[a.atomtype][0], disper[a.atomtype][1])
            else:
                kind, val = mt.eval_model('sf_term_noadp', *common, a.occ, float(a.symmulti), float(s.nsymop), f, disper[a.atomtype][0], disper[a.atomtype][1])
            tot += np.asarray(val, float)
        ctx.count(('t1', no, tuple(hkl)), hist='T1:sf_term:%s' % a.adp_type, sample={'sgno': no, 'hkl': hkl, 'adp_type': a.adp_type} if len(ctx.cov['samples']) < 2 else None)
        ctx.cov['disagreements_checked'] += 1
        sc = max(1.0, abs(impl[0]) + abs(impl[1]))
        if abs(tot[0] - impl[0]) > 1e-8 * sc or abs(tot[1] - impl[1]) > 1e-8 * sc:
            ctx.broken.append(D.Broken('correspondence', 'sum of the traced summand over the operations != StructureFactor', 'sgno=%d hkl=%r adp=%s impl=%r model=%r' % (no, hkl, a.adp_type, impl, tot.tolist())))


def search(ctx):
    from xfab import structure, sg
    rng = ctx.rng
    fails = []
    seen = set()
    groups = list(range(1, 231))
    if ctx.quick:
        groups = sorted(set(rng.sample(groups, 70) + [1, 2, 14, 19, 70, 75, 76, 88, 92, 141, 143, 152, 168, 178, 194, 198, 203, 212, 225, 227]))
    if ctx.broken:
        groups = list(range(1, 231))
    settings = [(no, 'standard') for no in groups] + [(no, 'rhombohedral') for no in (146, 148, 155, 160, 161, 166, 167)]

    def draw_hkl():
        """uniform in the box, or (one draw in three) from the zones and rows on which glide planes and screw axes act"""
        h, k, l = (rng.randint(-8, 8) for _ in range(3))
        if rng.random() < 0.35:
            h, k, l = rng.choice([(h, -2 * h, l), (-2 * k, k, l), (h, h, l), (h, -h, l), (h, 0, l), (0, k, l), (h, k, 0), (h, h, h), (0, 0, l), (h, 0, 0), (0, k, 0),
                                  (h, k, -h - k), (h, l, l), (h, k, h), (h, -h, 0), (h, h, 0)])
            if max(abs(h), abs(k), abs(l)) > 8:
                h, k, l = h // 2, k // 2, l
        return np.array([h, k, l])
    for no, ch in settings:
        s = sg.sg(sgno=no, cell_choice=ch)
        name = s.name                       # R...r for the rhombohedral settings
        cell = HR.conforming_cell(rng, s.crystal_system, s.cell_choice)
        R, t12 = HR.ops_int(s)
        for rep in range(ctx.n(1, 3)):
            kinds = rng.choice([('Uiso',), ('Uani',), ('Uiso', 'Uani', None)])
            atoms = SF.random_atoms(rng, cell, rng.randint(1, 4), kinds=kinds)
            extreme = rng.random() < 0.25
            if extreme:
                # very large displacement along one axis only (h.beta.h of several tens for one image of the atom, a few tenths for another): every image still counts
                kinds = ('Uani',)
                atoms = SF.random_atoms(rng, cell, rng.randint(1, 2), kinds=kinds)
                for a in atoms:
                    big = [rng.uniform(0.35, 0.8), 0.004, 0.004]
                    rng.shuffle(big)
                    a.adp = big + [0.0, 0.0, 0.0]
            for a in atoms:
                a.symmulti = s.nsymop         # general positions
            tot = sum(a.occ * SF.formfac(a.atomtype, 0.0) for a in atoms) * s.nsymop
            tol = 1e-6 * max(1.0, tot) * 12   # six-digit thirds: phase errors ~ 2 pi |h| 3.4e-7
            deep = bool(ctx.broken)
            for q in range(ctx.n(10, 30) * (3 if deep else 1)):
                h = draw_hkl()
                if extreme and q % 2 == 0:
                    h = np.array(rng.choice([(8, 0, 1), (0, 8, 1), (1, 0, 8), (8, 1, 0), (1, 8, 0), (0, 1, 8), (7, 7, 1), (8, -8, 1)])) * rng.choice([1, -1])
                for _try in range(20):          # prefer reflections that are not extinct: an extinct one only tests F = 0
                    if any(h) and not HR.extinct(h, R, t12):
                        break
                    h = draw_hkl()
                # operations: a random one plus up to three whose phase h.t is not an integer (the informative ones)
                ks = [rng.randrange(s.nsymop)]
                nonint = [j for j in range(s.nsymop) if int(h.dot(t12[j])) % 12 != 0]
                rng.shuffle(nonint)
                ks += nonint[:(6 if deep else 3)]
                why, cls, k = None, None, ks[0]
                try:
                    F = complex(*structure.StructureFactor(list(h), cell, name, atoms, None))
                    for k in ks:
                        hR = h.dot(R[k])
                        FR = complex(*structure.StructureFactor([int(x) for x in hR], cell, name, atoms, None))
                        ph = np.exp(-2j * math.pi * h.dot(t12[k]) / 12.0)
                        if abs(FR - F * ph) > tol:
                            why, cls = 'F(hR) != F(h) exp(-2 pi i h.t) for operation %d: |diff| = %.3g (scale %.3g)' % (k, abs(FR - F * ph), tot), 'phase:' + ('uani' if any(a.adp_type == 'Uani' for a in atoms) else 'iso')
                            break
                    if why is None and HR.extinct(h, R, t12) and abs(F) > tol:
                        why, cls = 'extinct reflection %r has |F| = %.3g' % (h.tolist(), abs(F)), 'extinct'
                    elif why is None:
                        Fm = complex(*structure.StructureFactor([int(-x) for x in h], cell, name, atoms, None))
                        if abs(Fm - F.conjugate()) > tol:
                            why, cls = 'F(-h) is not the conjugate of F(h) without dispersion', 'friedel'
                    if why is None:
                        # the value itself: explicit sum over the orbit (independent oracle; general positions)
                        Fx = SF.explicit_sf(list(h), cell, s, atoms, None)
                        if abs(F - Fx) > tol:
                            why, cls = 'F differs from the explicit sum over the orbit: |diff| = %.3g (scale %.3g)' % (abs(F - Fx), tot), 'value'
                except Exception as e:
                    why, cls = 'raised %s: %s' % (type(e).__name__, e), 'exc'
                ctx.count(('sf', no, ch, rep, q), hist='search:%s' % ('+'.join(str(x) for x in kinds)), sample={'sgname': name, 'hkl': h.tolist(), 'natoms': len(atoms)} if no == 14 and q == 0 else None)
                if why and (cls, (no, ch) if cls != 'phase:uani' else 0) not in seen:
                    seen.add((cls, (no, ch) if cls != 'phase:uani' else 0))
                    fails.append({'sgno': no, 'sgname': name, 'cell': cell, 'hkl': h.tolist(), 'op': k, 'class': cls, 'what': why,
                                  'atoms': [dict(pos=a.pos.tolist(), adp_type=a.adp_type, adp=(a.adp if not isinstance(a.adp, list) else list(map(float, a.adp))), occ=a.occ, atomtype=a.atomtype) for a in atoms],
                                  'replay': 'StructureFactor sg=%s hkl=%r: %s' % (name, h.tolist(), why)})
    return fails


SPEC = dict(
    props=['props/C07.v'], want={'trace', 'tables'}, pre_build=pre_build, search=search, replay_known=lambda ctx, e: False, timeout=2400,
    rule='theorems: any operation list that is closed under left multiplication modulo lattice translations (every table, by C04), any atom list, integer hkl. '
         'Correspondence: the traced summand summed over the operations vs StructureFactor. Search: groups by name, 1..4 general-position atoms with Uiso / positive '
         'definite Uani / no ADP, hkl in [-8,8]^3, a random operation each; tolerance scaled by the total scattering power and the 6-digit rounding of thirds. '
         'distinct by (group, structure, hkl).',
    trusted=['Coq kernel; R axioms', 'T1 tracer (summand traced with a symbolic one-operation group)', 'proofs/P07_gen.v SF: the double sum over atoms and operations around the traced summand (hand skeleton of the two loops, validated by the correspondence)', 'T2 table extractor (operation lists; translations snapped to twelfths as in C04)', 'vm_compute for the per-setting closure check (gen/P07_sg_NN.v)'],
    assumptions=['translations snapped to twelfths in the theorems; floats modelled by reals'],
)

MANIFEST = dict(
    text='Coq theorems about the summand regenerated from StructureFactor (traced with a symbolic operation) and a hand skeleton of the double sum: for an operation '
         'list closed under left composition modulo lattice translations, F(hR_k) = F(h) exp(-2 pi i h.t_k) for isotropic, anisotropic (R beta R\') and absent '
         'displacement parameters; hence equal moduli for equivalent reflections, F = 0 for extinct ones, and Friedel\'s law without dispersion.',
    design_ref='DESIGN.md section 5 C07',
    note='Trusted: Coq kernel, R axioms, T1 tracer, the summation skeleton (correspondence). The closure hypothesis is discharged for the tables by C04 (finite check).',
    technique='Coq proof over R: re-indexing of a finite sum by a permutation + generated summand; numeric search with explicit-sum oracle',
)

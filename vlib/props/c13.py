"""C13 - strain <-> B; ubi_to_u_and_eps"""
import math
import numpy as np
from .. import gens as G
from .. import t1check as T
from .. import driver as D


def strain(rng, scale=0.1):
    if rng.random() < 0.3:
        # structured strains of any size down to 1e-9: hydrostatic, uniaxial, normal components only, shear only, a single component
        m = 10 ** rng.uniform(-9, math.log10(scale)) * rng.choice([-1, 1])
        kind = rng.choice(['hydrostatic', 'uniaxial', 'normal', 'shear', 'single'])
        if kind == 'hydrostatic':
            return [m, m, m, 0.0, 0.0, 0.0]
        if kind == 'uniaxial':
            e = [0.0] * 6
            e[rng.randrange(3)] = m
            return e
        if kind == 'normal':
            return [m * rng.uniform(0.2, 1) * rng.choice([-1, 1]) for _ in range(3)] + [0.0, 0.0, 0.0]
        if kind == 'shear':
            return [0.0, 0.0, 0.0] + [m * rng.uniform(0.2, 1) for _ in range(3)]
        e = [0.0] * 6
        e[rng.randrange(6)] = m
        return e
    return [round(rng.uniform(-scale, scale), 5) for _ in range(6)]


def cancelling_case(rng, mod):
    """a strain whose shear component (almost) cancels the obliquity term of the reference cell, so that an off-diagonal element of the strained B passes through
    zero: located by bisection on the module's own epsilon_to_b, then placed 1e-12 .. 1e-5 (relative) beside the root"""
    for _ in range(20):
        c = G.valid_cell(rng, oblique=False)
        e = [round(rng.uniform(-0.05, 0.05), 5) for _ in range(6)]
        idx, (i, j) = rng.choice([(1, (0, 1)), (4, (1, 2)), (2, (0, 2))])

        def f(x):
            e2 = list(e)
            e2[idx] = x
            return float(np.asarray(mod.epsilon_to_b(e2, c))[i, j])
        lo, hi = -0.1, 0.1
        flo, fhi = f(lo), f(hi)
        if not (flo * fhi < 0):
            continue
        for _it in range(70):
            mid = 0.5 * (lo + hi)
            fm = f(mid)
            if fm == 0:
                lo = hi = mid
                break
            if fm * flo < 0:
                hi = mid
            else:
                lo, flo = mid, fm
        x = 0.5 * (lo + hi)
        e[idx] = x * (1 + rng.choice([-1, 1]) * 10 ** rng.uniform(-12, -5.3)) if x != 0 else 10 ** rng.uniform(-12, -6)
        return c, e
    return G.valid_cell(rng, oblique=False), strain(rng)


def pre_build(ctx):
    tr = ctx.gen.get('trace')
    if not tr:
        return
    rng = ctx.rng
    n = ctx.n(40, 400)
    for short in ('tools', 'laue'):
        mt = tr[short]
        mod = mt.mod
        cs = [(strain(rng), G.valid_cell(rng)) for _ in range(n)]
        T.numeric(ctx, mt, 'epsilon_to_b', cs, rtol=1e-8)
        T.numeric(ctx, mt, 'epsilon_to_b_old', cs, rtol=1e-7, atol=1e-9)
        bs = [(mod.epsilon_to_b(e, c), c) for e, c in cs]
        T.numeric(ctx, mt, 'b_to_epsilon', bs, rtol=1e-7, atol=1e-9)
        T.numeric(ctx, mt, 'b_to_epsilon_old', bs, rtol=1e-6, atol=1e-8)
        ub = [(np.linalg.inv(G.rotation(rng).dot(B)) * (2 * math.pi if short == 'tools' else 1.0), c) for B, c in bs]
        T.numeric(ctx, mt, 'ubi_to_u_and_eps', ub, rtol=1e-6, atol=1e-8)


def eps_oracle(B0, B):
    M = B0.dot(np.linalg.inv(B))
    S = 0.5 * (M + M.T) - np.eye(3)
    return [S[0, 0], S[0, 1], S[0, 2], S[1, 1], S[1, 2], S[2, 2]]


def check(mod, kappa, U, c, e):
    B0 = mod.form_b_mat(c)
    B = mod.epsilon_to_b(e, c)
    if abs(B[1, 0]) + abs(B[2, 0]) + abs(B[2, 1]) > 1e-12 * np.max(np.abs(B)):
        return 'epsilon_to_b: B is not upper triangular', None
    if G.maxerr(mod.b_to_epsilon(B, c), e) > 1e-9:
        return 'b_to_epsilon(epsilon_to_b(eps)) != eps', None
    if G.maxerr(mod.b_to_epsilon(B, c), eps_oracle(B0, B)) > 1e-9:
        return 'b_to_epsilon(B) != sym(B0 inv(B)) - I', None
    if G.maxerr(mod.epsilon_to_b(mod.b_to_epsilon(B, c), c), B) > 1e-9 * np.max(np.abs(B)):
        return 'epsilon_to_b(b_to_epsilon(B)) != B', None
    if G.maxerr(mod.epsilon_to_b([0] * 6, c), B0) > 1e-9 * np.max(np.abs(B0)):
        return 'zero strain does not give the unstrained B', None
    Bo = mod.epsilon_to_b_old(e, c)
    if G.maxerr(mod.b_to_epsilon_old(Bo, c), e) > 1e-7:
        return 'b_to_epsilon_old(epsilon_to_b_old(eps)) != eps', None
    if G.maxerr(mod.epsilon_to_b_old(mod.b_to_epsilon_old(B, c), c), B) > 1e-7 * np.max(np.abs(B)):
        return 'epsilon_to_b_old(b_to_epsilon_old(B)) != B', None
    if G.maxerr(mod.epsilon_to_b_old([0] * 6, c), B0) > 1e-7 * np.max(np.abs(B0)):
        return 'zero strain (old) does not give the unstrained B', None
    # UBI in the module's own convention, as u_to_ubi builds it: kappa * inv(U.B)
    ubi = kappa * np.linalg.inv(U.dot(B))
    U2, e2 = mod.ubi_to_u_and_eps(ubi, c)
    if G.maxerr(U2, U) > 1e-7:
        return 'ubi_to_u_and_eps does not return U', 'ubi_u'
    if G.maxerr(e2, e) > 1e-7:
        return 'ubi_to_u_and_eps does not return the strain (max error %.3g)' % G.maxerr(e2, e), 'ubi_eps'
    return None, None


def search(ctx):
    from xfab import tools, laue
    import xfab
    fails = []
    seen = set()
    old = xfab.CHECKS.activated
    xfab.CHECKS.activated = False
    try:
        for modname, mod, kappa in (('tools', tools, 2 * math.pi), ('laue', laue, 1.0)):
            for i in range(ctx.n(300, 5000)):
                U = G.rotation(ctx.rng)
                c = G.valid_cell(ctx.rng, oblique=ctx.rng.random() < 0.8) if ctx.rng.random() < 0.8 else G.special_cell(ctx.rng)
                e = strain(ctx.rng) if i % 7 else [0.0] * 6
                if i % 9 == 4:
                    c, e = cancelling_case(ctx.rng, mod)
                try:
                    why, tag = check(mod, kappa, U, c, e)
                except Exception as ex:
                    why, tag = 'raised %s: %s' % (type(ex).__name__, ex), None
                if (not why or tag == 'ubi_eps') and i % 4 == 0:
                    # a second call with a cell differing in the 5th decimal (lattice-parameter refinement loop): no state may leak
                    c2 = [x + 2e-5 for x in c[:3]] + [x + 2e-5 for x in c[3:]]
                    try:
                        why2, tag2 = check(mod, kappa, U, c2, e)
                        if why2 and tag2 != 'ubi_eps':
                            why, tag = 'after a call with a nearly identical cell: ' + why2, tag2
                            c = c2
                    except Exception as ex:
                        why, tag = 'raised %s: %s' % (type(ex).__name__, ex), None
                ctx.count(('s', modname, i), hist='search:' + modname, sample={'module': modname, 'cell': c, 'eps': e} if i == 1 else None)
                if why and (modname, why[:30]) not in seen:
                    seen.add((modname, why[:30]))
                    fails.append({'module': modname, 'U': U.tolist(), 'cell': c, 'eps': e, 'what': why, 'tag': tag,
                                  'replay': 'xfab.%s: %s' % (modname, why)})
    finally:
        xfab.CHECKS.activated = old
    return fails


def replay_known(ctx, e):
    """F7: tools.ubi_to_u_and_eps on a UBI in tools' own convention"""
    from xfab import tools
    import xfab
    old = xfab.CHECKS.activated
    xfab.CHECKS.activated = False
    try:
        c = e['input']['cell']
        eps = e['input']['eps']
        U = G.Rz(0.3).dot(G.Rx(1.1)).dot(G.Rz(2.0))
        B = tools.epsilon_to_b(eps, c)
        ubi = 2 * math.pi * np.linalg.inv(U.dot(B))
        U2, e2 = tools.ubi_to_u_and_eps(ubi, c)
        return G.maxerr(e2, eps) > 1e-6
    finally:
        xfab.CHECKS.activated = old


def match_known(f, e):
    return e.get('id') == 'F7' and f.get('module') == 'tools' and f.get('tag') == 'ubi_eps'


SPEC = dict(
    props=['props/C13_laue.v', 'props/C13_tools.v'], finding_props=['props/C13_findings.v'], want={'trace'}, pre_build=pre_build, search=search,
    replay_known=replay_known, match_known=match_known,
    rule='theorems: all valid cells, all strains with e_ii > -1, all rotations. Correspondence: generated models of 5 functions x 2 modules vs '
         'implementation on random strains |e| <= 0.1 and oblique cells. Search: round trips, the definition sym(B0 inv(B)) - I, zero strain, '
         'ubi_to_u_and_eps on UBIs in the module convention. distinct by (module, index).',
    trusted=['Coq kernel; R axioms', 'T1 tracer', 'numpy.linalg.inv = adjugate/det'],
    assumptions=['floats modelled by reals'],
)

MANIFEST = dict(
    text='19 Coq theorems: epsilon_to_b / b_to_epsilon are exact mutual inverses (both modules), the strain is sym(B0 inv(B)) - I, zero strain gives B0, '
         'the _old pair round-trips (both modules), every invertible matrix has a valid cell with metric A\'A, and laue.ubi_to_u_and_eps returns (U, eps) for '
         'UBI = inv(U.B_eps). tools.ubi_to_u_and_eps is a known finding (F7, missing 2 pi): proved to return (U, 2 pi (eps + I) - I), which is never eps.',
    design_ref='DESIGN.md section 5 C13 and section 10',
    note='Trusted: Coq kernel, R axioms, T1 tracer.',
    technique='Coq proof over R of generated model (field, Cholesky uniqueness); known finding F7 proved as a refutation and replayed on the implementation',
)

(* Complex numbers as pairs of reals, finite sums, and the phase factor cis.  Hand-written library. *)
From Coq Require Import Reals Lra List Permutation ZArith.
From XV Require Import RealLib Mat3.
Import ListNotations.
Open Scope R_scope.

Definition C := (R * R)%type.
Definition c0 : C := (0, 0).
Definition c1 : C := (1, 0).
Definition cadd (a b : C) : C := (fst a + fst b, snd a + snd b).
Definition cmul (a b : C) : C := (fst a * fst b - snd a * snd b, fst a * snd b + snd a * fst b).
Definition cscale (r : R) (a : C) : C := (r * fst a, r * snd a).
Definition cconj (a : C) : C := (fst a, - snd a).
Definition cis (t : R) : C := (cos t, sin t).
Definition csum (l : list C) : C := fold_right cadd c0 l.
Definition cnorm2 (a : C) : R := fst a * fst a + snd a * snd a.

Lemma C_ext (a b : C) : fst a = fst b -> snd a = snd b -> a = b.
Proof. destruct a, b; cbn; intros; subst; reflexivity. Qed.
Ltac cring := intros; apply C_ext; unfold cadd, cmul, cscale, cconj, c0, c1; cbn [fst snd]; ring.

Lemma cmul_comm a b : cmul a b = cmul b a. Proof. cring. Qed.
Lemma cmul_assoc a b c : cmul (cmul a b) c = cmul a (cmul b c). Proof. cring. Qed.
Lemma cmul_1_l a : cmul c1 a = a. Proof. cring. Qed.
Lemma cmul_cadd a b c : cmul a (cadd b c) = cadd (cmul a b) (cmul a c). Proof. cring. Qed.
Lemma cmul_c0 a : cmul a c0 = c0. Proof. cring. Qed.
Lemma cscale_cmul r a b : cscale r (cmul a b) = cmul a (cscale r b). Proof. cring. Qed.
Lemma cscale_cmul_l r a b : cscale r (cmul a b) = cmul (cscale r a) b. Proof. cring. Qed.
Lemma cadd_comm a b : cadd a b = cadd b a. Proof. cring. Qed.
Lemma cadd_assoc a b c : cadd (cadd a b) c = cadd a (cadd b c). Proof. cring. Qed.
Lemma cadd_0_r a : cadd a c0 = a. Proof. cring. Qed.

Lemma cis_add a b : cis (a + b) = cmul (cis a) (cis b).
Proof. unfold cis, cmul; cbn [fst snd]. rewrite cos_plus, sin_plus. apply C_ext; cbn [fst snd]; ring. Qed.
Lemma cis_0 : cis 0 = c1.
Proof. unfold cis, c1. rewrite cos_0, sin_0. reflexivity. Qed.
Lemma cis_neg a : cis (- a) = cconj (cis a).
Proof. unfold cis, cconj; cbn [fst snd]. rewrite cos_neg, sin_neg. reflexivity. Qed.
Lemma cis_norm a : cnorm2 (cis a) = 1.
Proof. unfold cnorm2, cis; cbn [fst snd]. pose proof (sc1 a). lra. Qed.

Lemma cis_2PI_nat n : cis (2 * PI * INR n) = c1.
Proof.
  unfold cis, c1. replace (2 * PI * INR n) with (0 + 2 * INR n * PI) by ring.
  rewrite cos_period, sin_period, cos_0, sin_0. reflexivity.
Qed.
Lemma IZR_pos_INR p : IZR (Z.pos p) = INR (Pos.to_nat p).
Proof. rewrite INR_IZR_INZ, positive_nat_Z. reflexivity. Qed.
Lemma cis_2PI_Z z : cis (2 * PI * IZR z) = c1.
Proof.
  destruct z as [|p|p].
  - replace (2 * PI * 0) with 0 by ring. apply cis_0.
  - rewrite (IZR_pos_INR p). apply cis_2PI_nat.
  - replace (IZR (Z.neg p)) with (- IZR (Z.pos p)) by (rewrite <- opp_IZR; reflexivity).
    replace (2 * PI * - IZR (Z.pos p)) with (- (2 * PI * IZR (Z.pos p))) by ring.
    rewrite cis_neg, (IZR_pos_INR p), cis_2PI_nat. unfold cconj, c1; cbn. f_equal. ring.
Qed.

Lemma csum_nil : csum [] = c0. Proof. reflexivity. Qed.
Lemma csum_cons a l : csum (a :: l) = cadd a (csum l). Proof. reflexivity. Qed.
Lemma cadd_0_l a : cadd c0 a = a. Proof. cring. Qed.
Lemma csum_app l1 l2 : csum (l1 ++ l2) = cadd (csum l1) (csum l2).
Proof.
  induction l1 as [|a l IH]; [rewrite csum_nil, cadd_0_l; reflexivity|].
  rewrite <- app_comm_cons, !csum_cons, IH, cadd_assoc. reflexivity.
Qed.
Lemma csum_perm l1 l2 : Permutation l1 l2 -> csum l1 = csum l2.
Proof.
  induction 1; rewrite ?csum_cons; try congruence.
  rewrite <- !cadd_assoc, (cadd_comm y x). reflexivity.
Qed.
Lemma csum_map_cmul {A} c (f : A -> C) l : csum (map (fun a => cmul c (f a)) l) = cmul c (csum (map f l)).
Proof. induction l as [|a l IH]; cbn [map]; [rewrite csum_nil, cmul_c0; reflexivity|]. rewrite !csum_cons, IH, cmul_cadd. reflexivity. Qed.
Lemma cscale_cadd r a b : cscale r (cadd a b) = cadd (cscale r a) (cscale r b). Proof. cring. Qed.
Lemma cscale_c0 r : cscale r c0 = c0. Proof. cring. Qed.
Lemma csum_map_cscale {A} r (f : A -> C) l : csum (map (fun a => cscale r (f a)) l) = cscale r (csum (map f l)).
Proof. induction l as [|a l IH]; cbn [map]; [rewrite csum_nil, cscale_c0; reflexivity|]. rewrite !csum_cons, IH, cscale_cadd. reflexivity. Qed.
Lemma cconj_cadd a b : cconj (cadd a b) = cadd (cconj a) (cconj b). Proof. cring. Qed.
Lemma cconj_c0 : cconj c0 = c0. Proof. cring. Qed.
Lemma csum_map_conj {A} (f : A -> C) l : csum (map (fun a => cconj (f a)) l) = cconj (csum (map f l)).
Proof. induction l as [|a l IH]; cbn [map]; [rewrite csum_nil, cconj_c0; reflexivity|]. rewrite !csum_cons, IH, cconj_cadd. reflexivity. Qed.

(* row vector times matrix *)
Definition rowmul (h : V3) (Rm : M3) : V3 := mvmul (mtrans Rm) h.
Lemma dot_rowmul h Rm v : vdot (rowmul h Rm) v = vdot h (mvmul Rm v).
Proof. destruct h, Rm, v. unfold rowmul, vdot, mvmul, mtrans; cbn. ring. Qed.
Lemma rowmul_mmul h A B : rowmul (rowmul h A) B = rowmul h (mmul A B).
Proof. unfold rowmul. rewrite mtrans_mmul, mvmul_mmul. reflexivity. Qed.

Definition int_vec (v : V3) : Prop := exists a b c : Z, v = mkV3 (IZR a) (IZR b) (IZR c).
Lemma int_dot u v : int_vec u -> int_vec v -> exists z : Z, vdot u v = IZR z.
Proof.
  intros (a & b & c & ->) (a' & b' & c' & ->). exists (a * a' + b * b' + c * c')%Z.
  unfold vdot; cbn. rewrite !plus_IZR, !mult_IZR. reflexivity.
Qed.

(* Sums over a list grouped by a key: counting lemmas used for the explicit unit-cell sum (C08).
   dd keeps the last occurrence of every key; cnt k l is the number of members with key k. *)
From Coq Require Import Reals List Bool Permutation Lia Lra.
From XV Require Import Cplx.
Import ListNotations.

Section Keyed.
Variables A K : Type.
Variable key : A -> K.
Variable eqb : K -> K -> bool.
Hypothesis eqb_spec : forall a b, eqb a b = true <-> a = b.

Definition cnt (k : K) (l : list A) : nat := length (filter (fun p => eqb (key p) k) l).
Definition inb (k : K) (l : list A) : bool := existsb (fun p => eqb (key p) k) l.
Fixpoint dd (l : list A) : list A :=
  match l with [] => [] | a :: r => if inb (key a) r then dd r else a :: dd r end.

Lemma eqb_refl k : eqb k k = true. Proof. apply eqb_spec; reflexivity. Qed.
Lemma eqb_false a b : a <> b -> eqb a b = false.
Proof. intros H. destruct (eqb a b) eqn:E; [apply eqb_spec in E; contradiction | reflexivity]. Qed.
Lemma eqb_sym a b : eqb a b = eqb b a.
Proof.
  destruct (eqb a b) eqn:E1, (eqb b a) eqn:E2; try reflexivity.
  - apply eqb_spec in E1. subst. rewrite eqb_refl in E2. discriminate.
  - apply eqb_spec in E2. subst. rewrite eqb_refl in E1. discriminate.
Qed.

Lemma cnt_cons k a l : cnt k (a :: l) = ((if eqb (key a) k then 1 else 0) + cnt k l)%nat.
Proof. unfold cnt; cbn [filter]. destruct (eqb (key a) k); reflexivity. Qed.

Lemma inb_false_cnt k l : inb k l = false -> cnt k l = 0%nat.
Proof.
  induction l as [|a r IH]; [reflexivity|]. unfold inb; cbn [existsb]. intros H. apply orb_false_iff in H. destruct H as [H1 H2].
  rewrite cnt_cons, H1. cbn. apply IH. exact H2.
Qed.
Lemma inb_In k l : inb k l = true -> exists p, In p l /\ key p = k.
Proof. unfold inb. intros H. apply existsb_exists in H. destruct H as (p & Hp & E). apply eqb_spec in E. eauto. Qed.
Lemma In_inb p l : In p l -> inb (key p) l = true.
Proof. intros H. unfold inb. apply existsb_exists. exists p. split; [exact H | apply eqb_refl]. Qed.

Lemma dd_incl l r : In r (dd l) -> In r l.
Proof.
  induction l as [|a l IH]; cbn [dd]; [tauto|]. destruct (inb (key a) l).
  - intros H. right. apply IH; exact H.
  - intros [H|H]; [left; exact H | right; apply IH; exact H].
Qed.
Lemma inb_dd k l : inb k (dd l) = inb k l.
Proof.
  induction l as [|a l IH]; [reflexivity|]. cbn [dd]. destruct (inb (key a) l) eqn:E.
  - rewrite IH. unfold inb at 2; cbn [existsb]. fold (inb k l). destruct (eqb (key a) k) eqn:E2; [|reflexivity].
    apply eqb_spec in E2. subst. rewrite E. reflexivity.
  - unfold inb; cbn [existsb]. fold (inb k (dd l)) (inb k l). rewrite IH. reflexivity.
Qed.
Lemma cnt_dd k l : inb k l = true -> cnt k (dd l) = 1%nat.
Proof.
  induction l as [|a l IH]; [discriminate|]. intros H. cbn [dd]. destruct (inb (key a) l) eqn:E.
  - apply IH. unfold inb in H; cbn [existsb] in H. fold (inb k l) in H. destruct (eqb (key a) k) eqn:E2; [|exact H].
    apply eqb_spec in E2. subst. exact E.
  - rewrite cnt_cons. unfold inb in H; cbn [existsb] in H. fold (inb k l) in H. destruct (eqb (key a) k) eqn:E2.
    + apply eqb_spec in E2. subst. rewrite inb_false_cnt; [reflexivity | rewrite inb_dd; exact E].
    + cbn in H. cbn. apply IH; exact H.
Qed.

Lemma cnt_perm k l l' : Permutation l l' -> cnt k l = cnt k l'.
Proof.
  induction 1 as [|a l l' _ IH|a b l|l1 l2 l3 _ IH1 _ IH2]; [reflexivity| | |congruence].
  - rewrite !cnt_cons, IH. reflexivity.
  - rewrite !cnt_cons. lia.
Qed.

(* grouping a sum *)
Variable T : A -> C.

Lemma csum_delta a d : (forall r, In r d -> key r = key a -> T r = T a) ->
  csum (map (fun r => cscale (INR (if eqb (key a) (key r) then 1 else 0)) (T r)) d) = cscale (INR (cnt (key a) d)) (T a).
Proof.
  induction d as [|r d IH]; intros H.
  - unfold cnt; cbn [map filter length INR csum fold_right]. apply C_ext; unfold cscale, c0; cbn [fst snd]; ring.
  - cbn [map]. rewrite csum_cons, IH by (intros; apply H; [right|]; assumption). rewrite cnt_cons.
    rewrite (eqb_sym (key r) (key a)). destruct (eqb (key a) (key r)) eqn:E.
    + apply eqb_spec in E. rewrite (H r (or_introl eq_refl) (eq_sym E)).
      rewrite plus_INR. apply C_ext; unfold cscale, cadd; cbn [fst snd]; ring.
    + cbn [Nat.add]. apply C_ext; unfold cscale, cadd; cbn [fst snd INR]; ring.
Qed.

Lemma csum_dd l : (forall p q, In p l -> In q l -> key p = key q -> T p = T q) ->
  csum (map T l) = csum (map (fun r => cscale (INR (cnt (key r) l)) (T r)) (dd l)).
Proof.
  induction l as [|a l IH]; intros H; [reflexivity|].
  assert (H' : forall p q, In p l -> In q l -> key p = key q -> T p = T q) by (intros; apply H; try right; assumption).
  cbn [map dd]. rewrite csum_cons, (IH H'). destruct (inb (key a) l) eqn:E.
  - transitivity (cadd (csum (map (fun r => cscale (INR (if eqb (key a) (key r) then 1 else 0)) (T r)) (dd l)))
                       (csum (map (fun r => cscale (INR (cnt (key r) l)) (T r)) (dd l)))).
    + rewrite csum_delta.
      * rewrite cnt_dd by exact E. f_equal. apply C_ext; unfold cscale; cbn [fst snd INR]; ring.
      * intros r Hr Hk. apply H; [right; apply dd_incl; exact Hr | left; reflexivity | exact Hk].
    + clear. induction (dd l) as [|r d IHd]; [cbn; apply C_ext; unfold cadd, c0; cbn; ring|].
      cbn [map]. rewrite !csum_cons, <- IHd, cnt_cons, plus_INR.
      generalize (INR (if eqb (key a) (key r) then 1%nat else 0%nat)); intros x.
      set (SA := csum (map _ d)). set (SB := csum (map _ d)). set (n := INR (cnt (key r) l)).
      apply C_ext; unfold cscale, cadd; cbn [fst snd]. ring. ring.
  - cbn [map]. rewrite csum_cons, cnt_cons, eqb_refl, (inb_false_cnt _ _ E). f_equal.
    + apply C_ext; unfold cscale; cbn [fst snd INR Nat.add]; ring.
    + f_equal. apply map_ext_in. intros r Hr. rewrite cnt_cons.
      destruct (eqb (key a) (key r)) eqn:E2; [|reflexivity].
      apply eqb_spec in E2. rewrite E2 in E. rewrite (In_inb r l (dd_incl _ _ Hr)) in E. discriminate.
Qed.

Lemma csum_uniform l m : (forall p q, In p l -> In q l -> key p = key q -> T p = T q) ->
  (forall p, In p l -> cnt (key p) l = m) -> csum (map T l) = cscale (INR m) (csum (map T (dd l))).
Proof.
  intros H Hm. rewrite (csum_dd l H), <- csum_map_cscale. f_equal. apply map_ext_in. intros r Hr.
  rewrite (Hm r (dd_incl _ _ Hr)). reflexivity.
Qed.
End Keyed.

(* the size of the list is m times the number of distinct keys *)
Lemma length_uniform A K (key : A -> K) eqb (eqb_spec : forall a b, eqb a b = true <-> a = b) l m :
  (forall p, In p l -> cnt A K key eqb (key p) l = m) -> INR (length l) = (INR m * INR (length (dd A K key eqb l)))%R.
Proof.
  intros Hm.
  pose proof (csum_uniform A K key eqb eqb_spec (fun _ => c1) l m (fun _ _ _ _ _ => eq_refl) Hm) as E.
  assert (S : forall (l : list A), csum (map (fun _ => c1) l) = (INR (length l), 0%R)).
  { clear. induction l as [|a l IH]; [reflexivity|]. cbn [map length]. rewrite csum_cons, IH, S_INR.
    apply C_ext; unfold cadd, c1; cbn [fst snd]; ring. }
  rewrite !S in E. unfold cscale in E; cbn [fst snd] in E. injection E as E _. exact E.
Qed.

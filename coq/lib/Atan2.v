(* atan2 as numpy documents it (quadrant-corrected atan of y/x), over R.
   Idealisation: R has no signed zero, so numpy's arctan2(-0.0, x<0) = -pi is not modelled. *)
From Coq Require Import Reals Lra Psatz.
From XV Require Import RealLib.
Open Scope R_scope.

Definition atan2 (y x : R) : R :=
  if Rlt_dec 0 x then atan (y / x)
  else if Rlt_dec x 0 then (if Rle_dec 0 y then atan (y / x) + PI else atan (y / x) - PI)
  else if Rlt_dec 0 y then PI / 2
  else if Rlt_dec y 0 then - (PI / 2)
  else 0.

Lemma atan2_range y x : - PI < atan2 y x <= PI.
Proof.
  unfold atan2. pose proof PI_RGT_0 as P.
  destruct (Rlt_dec 0 x) as [Hx|Hx].
  - pose proof (atan_bound (y / x)). lra.
  - destruct (Rlt_dec x 0) as [Hx'|Hx'].
    + destruct (Rle_dec 0 y) as [Hy|Hy].
      * assert (y / x <= 0).
        { unfold Rdiv. replace 0 with (y * 0) by ring. apply Rmult_le_compat_l; [lra|].
          left. apply Rinv_lt_0_compat; lra. }
        assert (atan (y / x) <= 0).
        { destruct (Req_dec (y / x) 0) as [->|N]; [rewrite atan_0; lra|].
          left. rewrite <- atan_0. apply atan_increasing. lra. }
        pose proof (atan_bound (y / x)). lra.
      * assert (0 < y / x).
        { unfold Rdiv. replace (y * / x) with ((- y) * (- / x)) by ring.
          apply Rmult_lt_0_compat; [lra|]. apply Ropp_0_gt_lt_contravar. apply Rinv_lt_0_compat; lra. }
        assert (0 < atan (y / x)) by (rewrite <- atan_0; apply atan_increasing; lra).
        pose proof (atan_bound (y / x)). lra.
    + destruct (Rlt_dec 0 y); [lra|]. destruct (Rlt_dec y 0); lra.
Qed.

Lemma sqrt_1_sq_div y x : 0 < x -> sqrt (1 + (y / x)²) = sqrt (x * x + y * y) / x.
Proof.
  intros Hx. unfold Rsqr.
  replace (1 + y / x * (y / x)) with ((x * x + y * y) / (x * x)) by (field; lra).
  rewrite sqrt_div_alt by nra. rewrite sqrt_square by lra. reflexivity.
Qed.

Lemma sqrt_1_sq_div_neg y x : x < 0 -> sqrt (1 + (y / x)²) = sqrt (x * x + y * y) / (- x).
Proof.
  intros Hx. replace (y / x) with ((- y) / (- x)) by (field; lra).
  rewrite sqrt_1_sq_div by lra. f_equal. f_equal. ring.
Qed.

Lemma hyp_pos x y : x <> 0 \/ y <> 0 -> 0 < sqrt (x * x + y * y).
Proof. intros H. apply sqrt_lt_R0. destruct H; nra. Qed.

Lemma cos_atan2 y x : x <> 0 \/ y <> 0 -> cos (atan2 y x) = x / sqrt (x * x + y * y).
Proof.
  intros H. pose proof (hyp_pos x y H) as Hr. unfold atan2.
  destruct (Rlt_dec 0 x) as [Hx|Hx].
  - rewrite cos_atan, sqrt_1_sq_div by lra. field. split; lra.
  - destruct (Rlt_dec x 0) as [Hx'|Hx'].
    + destruct (Rle_dec 0 y) as [Hy|Hy].
      * rewrite Rtrigo_facts.cos_pi_plus || rewrite cos_plus, cos_PI, sin_PI.
        all: rewrite ?cos_atan, ?sqrt_1_sq_div_neg by lra; field; split; lra.
      * rewrite cos_minus, cos_PI, sin_PI.
        rewrite ?cos_atan, ?sqrt_1_sq_div_neg by lra; field; split; lra.
    + assert (x = 0) by lra. subst x.
      destruct (Rlt_dec 0 y); [rewrite cos_PI2; field; lra|].
      destruct (Rlt_dec y 0); [rewrite cos_neg, cos_PI2; field; lra|]. lra.
Qed.

Lemma sin_atan2 y x : x <> 0 \/ y <> 0 -> sin (atan2 y x) = y / sqrt (x * x + y * y).
Proof.
  intros H. pose proof (hyp_pos x y H) as Hr. unfold atan2.
  destruct (Rlt_dec 0 x) as [Hx|Hx].
  - rewrite sin_atan, sqrt_1_sq_div by lra. field. split; lra.
  - destruct (Rlt_dec x 0) as [Hx'|Hx'].
    + destruct (Rle_dec 0 y) as [Hy|Hy].
      * rewrite sin_plus, cos_PI, sin_PI.
        rewrite ?sin_atan, ?sqrt_1_sq_div_neg by lra; field; split; lra.
      * rewrite sin_minus, cos_PI, sin_PI.
        rewrite ?sin_atan, ?sqrt_1_sq_div_neg by lra; field; split; lra.
    + assert (x = 0) by lra. subst x.
      destruct (Rlt_dec 0 y) as [Hy|Hy].
      * rewrite sin_PI2. replace (0 * 0 + y * y) with (y * y) by ring. rewrite sqrt_square by lra. field; lra.
      * destruct (Rlt_dec y 0) as [Hy'|Hy']; [|lra].
        rewrite sin_neg, sin_PI2. replace (0 * 0 + y * y) with ((- y) * (- y)) by ring.
        rewrite sqrt_square by lra. field; lra.
Qed.

(* when the arguments already are a (cos, sin) pair *)
Lemma cos_atan2_unit s c : s * s + c * c = 1 -> cos (atan2 s c) = c.
Proof.
  intros H. rewrite cos_atan2 by (destruct (Req_dec c 0); [right; nra | left; assumption]).
  replace (c * c + s * s) with 1 by lra. rewrite sqrt_1. field.
Qed.
Lemma sin_atan2_unit s c : s * s + c * c = 1 -> sin (atan2 s c) = s.
Proof.
  intros H. rewrite sin_atan2 by (destruct (Req_dec c 0); [right; nra | left; assumption]).
  replace (c * c + s * s) with 1 by lra. rewrite sqrt_1. field.
Qed.

(* (cos, sin) is injective on (-PI, PI] *)
Lemma cos_sin_inj a b :
  - PI < a <= PI -> - PI < b <= PI -> cos a = cos b -> sin a = sin b -> a = b.
Proof.
  intros Ha Hb Hc Hs. pose proof PI_RGT_0 as P.
  assert (E : cos (a - b) = 1) by (rewrite cos_minus, Hc, Hs; generalize (sin2_cos2 b); unfold Rsqr; lra).
  (* a - b in (-2PI, 2PI) with cos = 1 -> a - b = 0 *)
  destruct (Rtotal_order (a - b) 0) as [L|[Z|G]]; [exfalso | lra | exfalso].
  - assert (0 < b - a < 2 * PI) by lra.
    assert (cos (b - a) = 1) by (rewrite <- E; replace (b - a) with (- (a - b)) by ring; apply cos_neg).
    destruct (Rle_dec (b - a) PI).
    + assert (cos (b - a) < cos 0) by (apply cos_decreasing_1; lra). rewrite cos_0 in *. lra.
    + assert (cos (b - a) < cos (2 * PI)) by (apply cos_increasing_1; lra). rewrite cos_2PI in *. lra.
  - assert (0 < a - b < 2 * PI) by lra.
    destruct (Rle_dec (a - b) PI).
    + assert (cos (a - b) < cos 0) by (apply cos_decreasing_1; lra). rewrite cos_0 in *. lra.
    + assert (cos (a - b) < cos (2 * PI)) by (apply cos_increasing_1; lra). rewrite cos_2PI in *. lra.
Qed.

Lemma atan2_cos_sin t : - PI < t <= PI -> atan2 (sin t) (cos t) = t.
Proof.
  intros Ht. apply cos_sin_inj; [apply atan2_range | exact Ht | |].
  - apply cos_atan2_unit. generalize (sin2_cos2 t); unfold Rsqr; lra.
  - apply sin_atan2_unit. generalize (sin2_cos2 t); unfold Rsqr; lra.
Qed.

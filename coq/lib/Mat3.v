(* 3x3 real matrices, vectors, rotations.  Hand-written library (no generated content). *)
From Coq Require Import Reals Lra Lia Psatz.
Open Scope R_scope.

Record V2 := mkV2 { p0 : R; p1 : R }.
Record V3 := mkV3 { vx : R; vy : R; vz : R }.
Record V6 := mkV6 { c0 : R; c1 : R; c2 : R; c3 : R; c4 : R; c5 : R }.
Record M3 := mkM3 { m00 : R; m01 : R; m02 : R;
                    m10 : R; m11 : R; m12 : R;
                    m20 : R; m21 : R; m22 : R }.

Lemma V2_ext u v : p0 u = p0 v -> p1 u = p1 v -> u = v.
Proof. destruct u, v; cbn; intros; subst; reflexivity. Qed.
Lemma V3_ext u v : vx u = vx v -> vy u = vy v -> vz u = vz v -> u = v.
Proof. destruct u, v; cbn; intros; subst; reflexivity. Qed.
Lemma V6_ext u v : c0 u = c0 v -> c1 u = c1 v -> c2 u = c2 v -> c3 u = c3 v -> c4 u = c4 v -> c5 u = c5 v -> u = v.
Proof. destruct u, v; cbn; intros; subst; reflexivity. Qed.
Lemma M3_ext A B :
  m00 A = m00 B -> m01 A = m01 B -> m02 A = m02 B ->
  m10 A = m10 B -> m11 A = m11 B -> m12 A = m12 B ->
  m20 A = m20 B -> m21 A = m21 B -> m22 A = m22 B -> A = B.
Proof. destruct A, B; cbn; intros; subst; reflexivity. Qed.

Definition mI : M3 := mkM3 1 0 0 0 1 0 0 0 1.
Definition mZ : M3 := mkM3 0 0 0 0 0 0 0 0 0.

Definition mmul (A B : M3) : M3 :=
  mkM3 (m00 A * m00 B + m01 A * m10 B + m02 A * m20 B)
       (m00 A * m01 B + m01 A * m11 B + m02 A * m21 B)
       (m00 A * m02 B + m01 A * m12 B + m02 A * m22 B)
       (m10 A * m00 B + m11 A * m10 B + m12 A * m20 B)
       (m10 A * m01 B + m11 A * m11 B + m12 A * m21 B)
       (m10 A * m02 B + m11 A * m12 B + m12 A * m22 B)
       (m20 A * m00 B + m21 A * m10 B + m22 A * m20 B)
       (m20 A * m01 B + m21 A * m11 B + m22 A * m21 B)
       (m20 A * m02 B + m21 A * m12 B + m22 A * m22 B).

Definition mtrans (A : M3) : M3 :=
  mkM3 (m00 A) (m10 A) (m20 A) (m01 A) (m11 A) (m21 A) (m02 A) (m12 A) (m22 A).

Definition mscale (k : R) (A : M3) : M3 :=
  mkM3 (k * m00 A) (k * m01 A) (k * m02 A) (k * m10 A) (k * m11 A) (k * m12 A)
       (k * m20 A) (k * m21 A) (k * m22 A).

Definition madd (A B : M3) : M3 :=
  mkM3 (m00 A + m00 B) (m01 A + m01 B) (m02 A + m02 B) (m10 A + m10 B) (m11 A + m11 B) (m12 A + m12 B)
       (m20 A + m20 B) (m21 A + m21 B) (m22 A + m22 B).

Definition msub (A B : M3) : M3 :=
  mkM3 (m00 A - m00 B) (m01 A - m01 B) (m02 A - m02 B) (m10 A - m10 B) (m11 A - m11 B) (m12 A - m12 B)
       (m20 A - m20 B) (m21 A - m21 B) (m22 A - m22 B).

Definition mdet (A : M3) : R :=
  m00 A * (m11 A * m22 A - m12 A * m21 A)
  - m01 A * (m10 A * m22 A - m12 A * m20 A)
  + m02 A * (m10 A * m21 A - m11 A * m20 A).

Definition madj (A : M3) : M3 :=
  mkM3 (m11 A * m22 A - m12 A * m21 A) (m02 A * m21 A - m01 A * m22 A) (m01 A * m12 A - m02 A * m11 A)
       (m12 A * m20 A - m10 A * m22 A) (m00 A * m22 A - m02 A * m20 A) (m02 A * m10 A - m00 A * m12 A)
       (m10 A * m21 A - m11 A * m20 A) (m01 A * m20 A - m00 A * m21 A) (m00 A * m11 A - m01 A * m10 A).

(* numpy.linalg.inv is modelled by its exact mathematical meaning *)
Definition minv (A : M3) : M3 := mscale (/ mdet A) (madj A).

Definition mvmul (A : M3) (v : V3) : V3 :=
  mkV3 (m00 A * vx v + m01 A * vy v + m02 A * vz v)
       (m10 A * vx v + m11 A * vy v + m12 A * vz v)
       (m20 A * vx v + m21 A * vy v + m22 A * vz v).

Definition vdot (u v : V3) : R := vx u * vx v + vy u * vy v + vz u * vz v.
Definition vcross (u v : V3) : V3 :=
  mkV3 (vy u * vz v - vz u * vy v) (vz u * vx v - vx u * vz v) (vx u * vy v - vy u * vx v).
Definition vscale (k : R) (v : V3) : V3 := mkV3 (k * vx v) (k * vy v) (k * vz v).
Definition vadd (u v : V3) : V3 := mkV3 (vx u + vx v) (vy u + vy v) (vz u + vz v).
Definition vsub (u v : V3) : V3 := mkV3 (vx u - vx v) (vy u - vy v) (vz u - vz v).
Definition vnorm2 (v : V3) : R := vdot v v.
Definition vnorm (v : V3) : R := sqrt (vnorm2 v).
Definition mtrace (A : M3) : R := m00 A + m11 A + m22 A.
Definition mrow0 (A : M3) := mkV3 (m00 A) (m01 A) (m02 A).
Definition mrow1 (A : M3) := mkV3 (m10 A) (m11 A) (m12 A).
Definition mrow2 (A : M3) := mkV3 (m20 A) (m21 A) (m22 A).
Definition mcol0 (A : M3) := mkV3 (m00 A) (m10 A) (m20 A).
Definition mcol1 (A : M3) := mkV3 (m01 A) (m11 A) (m21 A).
Definition mcol2 (A : M3) := mkV3 (m02 A) (m12 A) (m22 A).

Definition is_orth (U : M3) : Prop := mmul (mtrans U) U = mI.
Definition is_rot (U : M3) : Prop := mmul (mtrans U) U = mI /\ mdet U = 1.
Definition upper (A : M3) : Prop := m10 A = 0 /\ m20 A = 0 /\ m21 A = 0.
Definition upper_posdiag (A : M3) : Prop := upper A /\ 0 < m00 A /\ 0 < m11 A /\ 0 < m22 A.

Definition Rx (t : R) : M3 := mkM3 1 0 0 0 (cos t) (- sin t) 0 (sin t) (cos t).
Definition Ry (t : R) : M3 := mkM3 (cos t) 0 (sin t) 0 1 0 (- sin t) 0 (cos t).
Definition Rz (t : R) : M3 := mkM3 (cos t) (- sin t) 0 (sin t) (cos t) 0 0 0 1.

Ltac destr_all :=
  repeat match goal with
         | A : M3 |- _ => destruct A
         | v : V3 |- _ => destruct v
         | v : V6 |- _ => destruct v
         | v : V2 |- _ => destruct v
         end.

Ltac munfold :=
  unfold is_rot, is_orth, upper_posdiag, upper, minv, mmul, mtrans, mscale, madd, msub, mdet, madj, mvmul,
    vnorm, vnorm2, vdot, vcross, vscale, vadd, vsub, mtrace, mI, mZ,
    mrow0, mrow1, mrow2, mcol0, mcol1, mcol2 in *;
  cbn [m00 m01 m02 m10 m11 m12 m20 m21 m22 vx vy vz c0 c1 c2 c3 c4 c5 p0 p1] in *.

Ltac mat_ring := intros; destr_all; munfold; f_equal; ring.

Lemma mmul_assoc A B C : mmul (mmul A B) C = mmul A (mmul B C).
Proof. mat_ring. Qed.
Lemma mmul_I_l A : mmul mI A = A.
Proof. mat_ring. Qed.
Lemma mmul_I_r A : mmul A mI = A.
Proof. mat_ring. Qed.
Lemma mtrans_mmul A B : mtrans (mmul A B) = mmul (mtrans B) (mtrans A).
Proof. mat_ring. Qed.
Lemma mtrans_invol A : mtrans (mtrans A) = A.
Proof. mat_ring. Qed.
Lemma mtrans_I : mtrans mI = mI.
Proof. reflexivity. Qed.
Lemma mdet_mmul A B : mdet (mmul A B) = mdet A * mdet B.
Proof. intros; destr_all; munfold; ring. Qed.
Lemma mdet_mtrans A : mdet (mtrans A) = mdet A.
Proof. intros; destr_all; munfold; ring. Qed.
Lemma mdet_I : mdet mI = 1.
Proof. munfold; ring. Qed.
Lemma mdet_mscale k A : mdet (mscale k A) = k * k * k * mdet A.
Proof. intros; destr_all; munfold; ring. Qed.
Lemma mmul_mscale_l k A B : mmul (mscale k A) B = mscale k (mmul A B).
Proof. mat_ring. Qed.
Lemma mmul_mscale_r k A B : mmul A (mscale k B) = mscale k (mmul A B).
Proof. mat_ring. Qed.
Lemma mscale_mscale k l A : mscale k (mscale l A) = mscale (k * l) A.
Proof. mat_ring. Qed.
Lemma mscale_1 A : mscale 1 A = A.
Proof. mat_ring. Qed.
Lemma mtrans_mscale k A : mtrans (mscale k A) = mscale k (mtrans A).
Proof. mat_ring. Qed.
Lemma mvmul_mmul A B v : mvmul (mmul A B) v = mvmul A (mvmul B v).
Proof. intros; destr_all; munfold; f_equal; ring. Qed.
Lemma mvmul_I v : mvmul mI v = v.
Proof. intros; destr_all; munfold; f_equal; ring. Qed.
Lemma mvmul_mscale k A v : mvmul (mscale k A) v = vscale k (mvmul A v).
Proof. intros; destr_all; munfold; f_equal; ring. Qed.

Lemma madj_l A : mmul (madj A) A = mscale (mdet A) mI.
Proof. mat_ring. Qed.
Lemma madj_r A : mmul A (madj A) = mscale (mdet A) mI.
Proof. mat_ring. Qed.

Lemma minv_l A : mdet A <> 0 -> mmul (minv A) A = mI.
Proof.
  intros H. unfold minv. rewrite mmul_mscale_l, madj_l, mscale_mscale.
  replace (/ mdet A * mdet A) with 1 by (field; exact H). apply mscale_1.
Qed.
Lemma minv_r A : mdet A <> 0 -> mmul A (minv A) = mI.
Proof.
  intros H. unfold minv. rewrite mmul_mscale_r, madj_r, mscale_mscale.
  replace (/ mdet A * mdet A) with 1 by (field; exact H). apply mscale_1.
Qed.

Lemma mmul_I_det A B : mmul A B = mI -> mdet A <> 0 /\ mdet B <> 0.
Proof.
  intros H. assert (E : mdet A * mdet B = 1) by (rewrite <- mdet_mmul, H; apply mdet_I).
  split; intro Z; rewrite Z in E; lra.
Qed.

Lemma minv_unique_r A B : mmul A B = mI -> B = minv A.
Proof.
  intros H. destruct (mmul_I_det _ _ H) as [HA _].
  rewrite <- (mmul_I_l B), <- (minv_l A HA), mmul_assoc, H, mmul_I_r. reflexivity.
Qed.
Lemma minv_unique_l A B : mmul B A = mI -> B = minv A.
Proof.
  intros H. destruct (mmul_I_det _ _ H) as [_ HA].
  rewrite <- (mmul_I_r B), <- (minv_r A HA), <- mmul_assoc, H, mmul_I_l. reflexivity.
Qed.
Lemma mmul_I_comm A B : mmul A B = mI -> mmul B A = mI.
Proof.
  intros H. destruct (mmul_I_det _ _ H) as [HA _].
  rewrite (minv_unique_r _ _ H). apply minv_l; exact HA.
Qed.
Lemma minv_mmul A B : mdet A <> 0 -> mdet B <> 0 -> minv (mmul A B) = mmul (minv B) (minv A).
Proof.
  intros HA HB. symmetry. apply minv_unique_r.
  rewrite mmul_assoc, <- (mmul_assoc B), (minv_r B HB), mmul_I_l. apply minv_r; exact HA.
Qed.
Lemma minv_invol A : mdet A <> 0 -> minv (minv A) = A.
Proof. intros HA. symmetry. apply minv_unique_r. apply minv_l; exact HA. Qed.
Lemma mdet_minv A : mdet A <> 0 -> mdet (minv A) = / mdet A.
Proof.
  intros HA. assert (E : mdet (minv A) * mdet A = 1) by (rewrite <- mdet_mmul, minv_l by exact HA; apply mdet_I).
  apply (Rmult_eq_reg_r (mdet A)); [|exact HA]. rewrite E. field; exact HA.
Qed.
Lemma minv_mscale k A : k <> 0 -> mdet A <> 0 -> minv (mscale k A) = mscale (/ k) (minv A).
Proof.
  intros Hk HA. symmetry. apply minv_unique_r.
  rewrite mmul_mscale_l, mmul_mscale_r, mscale_mscale, minv_r by exact HA.
  replace (k * / k) with 1 by (field; exact Hk). apply mscale_1.
Qed.
Lemma minv_mtrans A : minv (mtrans A) = mtrans (minv A).
Proof. unfold minv. rewrite mdet_mtrans, mtrans_mscale. f_equal. mat_ring. Qed.
Lemma minv_I : minv mI = mI.
Proof. symmetry; apply minv_unique_r; apply mmul_I_l. Qed.

(* rotations *)
Lemma rot_I : is_rot mI.
Proof. split; [apply mmul_I_l | apply mdet_I]. Qed.
Lemma rot_UUt U : is_rot U -> mmul U (mtrans U) = mI.
Proof. intros [H _]. apply mmul_I_comm; exact H. Qed.
Lemma rot_mmul U V : is_rot U -> is_rot V -> is_rot (mmul U V).
Proof.
  intros [HU DU] [HV DV]. split.
  - rewrite mtrans_mmul, mmul_assoc, <- (mmul_assoc (mtrans U)), HU, mmul_I_l. exact HV.
  - rewrite mdet_mmul, DU, DV; ring.
Qed.
Lemma rot_mtrans U : is_rot U -> is_rot (mtrans U).
Proof.
  intros H. split; [rewrite mtrans_invol; apply rot_UUt; exact H | rewrite mdet_mtrans; apply H].
Qed.
Lemma rot_minv U : is_rot U -> minv U = mtrans U.
Proof. intros [H _]. symmetry. apply minv_unique_l. exact H. Qed.
Lemma rot_det_nz U : is_rot U -> mdet U <> 0.
Proof. intros [_ D]; rewrite D; lra. Qed.

Lemma sc1 t : sin t * sin t + cos t * cos t = 1.
Proof. generalize (sin2_cos2 t); unfold Rsqr; tauto. Qed.

Lemma rot_Rx t : is_rot (Rx t).
Proof. pose proof (sc1 t) as H. split; unfold Rx; munfold; [f_equal|]; nra. Qed.
Lemma rot_Ry t : is_rot (Ry t).
Proof. pose proof (sc1 t) as H. split; unfold Ry; munfold; [f_equal|]; nra. Qed.
Lemma rot_Rz t : is_rot (Rz t).
Proof. pose proof (sc1 t) as H. split; unfold Rz; munfold; [f_equal|]; nra. Qed.

(* a rotation preserves norms *)
Lemma rot_vnorm2 U v : is_rot U -> vnorm2 (mvmul U v) = vnorm2 v.
Proof.
  intros [H _]. destruct U as [a b c d e f g h i], v as [x y z]. munfold.
  injection H as E0 E1 E2 E3 E4 E5 E6 E7 E8.
  transitivity ((a * a + d * d + g * g) * (x * x) + (b * b + e * e + h * h) * (y * y)
                + (c * c + f * f + i * i) * (z * z)
                + 2 * (a * b + d * e + g * h) * (x * y)
                + 2 * (a * c + d * f + g * i) * (x * z)
                + 2 * (b * c + e * f + h * i) * (y * z)); [ring|].
  rewrite E0, E1, E2, E4, E5, E8. ring.
Qed.

(* uniqueness of the upper-triangular positive-diagonal (Cholesky) factor *)
Lemma sq_pos_inj x y : 0 < x -> 0 < y -> x * x = y * y -> x = y.
Proof. intros; nra. Qed.

Lemma chol_unique B C :
  upper_posdiag B -> upper_posdiag C -> mmul (mtrans B) B = mmul (mtrans C) C -> B = C.
Proof.
  intros [[B1 [B2 B3]] [Bp0 [Bp1 Bp2]]] [[C1 [C2 C3]] [Cp0 [Cp1 Cp2]]] H.
  destruct B as [b00 b01 b02 b10 b11 b12 b20 b21 b22], C as [d00 d01 d02 d10 d11 d12 d20 d21 d22].
  munfold. subst. injection H as E0 E1 E2 E3 E4 E5 E6 E7 E8.
  assert (A0 : b00 = d00) by (apply sq_pos_inj; try assumption; lra).
  subst d00.
  assert (A1 : b01 = d01) by (apply (Rmult_eq_reg_l b00); [lra | lra]).
  assert (A2 : b02 = d02) by (apply (Rmult_eq_reg_l b00); [lra | lra]).
  subst d01 d02.
  assert (A3 : b11 = d11) by (apply sq_pos_inj; try assumption; lra).
  subst d11.
  assert (A4 : b12 = d12) by (apply (Rmult_eq_reg_l b11); [lra | lra]).
  subst d12.
  assert (A5 : b22 = d22) by (apply sq_pos_inj; try assumption; lra).
  subst d22. reflexivity.
Qed.

Lemma upper_posdiag_det B : upper_posdiag B -> 0 < mdet B.
Proof.
  intros [[B1 [B2 B3]] [Bp0 [Bp1 Bp2]]]. destruct B as [a b c d e f g h i]. munfold. subst.
  replace (_ - _ + _) with (a * (e * i)) by ring.
  apply Rmult_lt_0_compat; [assumption | apply Rmult_lt_0_compat; assumption].
Qed.

(* U1 B1 = U2 B2 with rotations U and upper/posdiag B  ->  equal factors *)
Lemma qr_unique U1 B1 U2 B2 :
  is_rot U1 -> is_rot U2 -> upper_posdiag B1 -> upper_posdiag B2 ->
  mmul U1 B1 = mmul U2 B2 -> U1 = U2 /\ B1 = B2.
Proof.
  intros R1 R2 P1 P2 H.
  assert (EB : B1 = B2).
  { apply chol_unique; try assumption.
    transitivity (mmul (mtrans (mmul U1 B1)) (mmul U1 B1)).
    - rewrite mtrans_mmul, mmul_assoc, <- (mmul_assoc (mtrans U1)). destruct R1 as [-> _]. rewrite mmul_I_l; reflexivity.
    - rewrite H, mtrans_mmul, mmul_assoc, <- (mmul_assoc (mtrans U2)). destruct R2 as [-> _]. rewrite mmul_I_l; reflexivity. }
  split; [|exact EB]. subst B2.
  assert (D : mdet B1 <> 0) by (generalize (upper_posdiag_det _ P1); lra).
  rewrite <- (mmul_I_r U1), <- (mmul_I_r U2), <- (minv_r B1 D), <- !mmul_assoc, H. reflexivity.
Qed.

Lemma vnorm2_nonneg v : 0 <= vnorm2 v.
Proof. destruct v as [x y z]; munfold. nra. Qed.

(* fast goal-only normalisation of matrix expressions (cbv restricted to the matrix vocabulary) *)
Ltac mcbv :=
  cbv beta iota zeta delta [is_rot is_orth upper_posdiag upper minv mmul mtrans mscale madd msub mdet madj mvmul
    vnorm vnorm2 vdot vcross vscale vadd vsub mtrace mI mZ mrow0 mrow1 mrow2 mcol0 mcol1 mcol2 Rx Ry Rz
    m00 m01 m02 m10 m11 m12 m20 m21 m22 vx vy vz c0 c1 c2 c3 c4 c5 p0 p1].

(* The field Q(sqrt 3) as pairs of rationals, 3x3 matrices over it, and the embedding into R.  Hand-written library. *)
From Coq Require Import QArith Qreals Reals Lra List Bool.
From XV Require Import RealLib Mat3.
Import ListNotations.

Definition qs := (Q * Q)%type.     (* (a, b) stands for a + b sqrt 3 *)
Definition qs0 : qs := (0, 0)%Q.
Definition qs1 : qs := (1, 0)%Q.
Definition qadd (x y : qs) : qs := (Qred (fst x + fst y), Qred (snd x + snd y))%Q.
Definition qmul (x y : qs) : qs :=
  (Qred (fst x * fst y + 3 * (snd x * snd y)), Qred (fst x * snd y + snd x * fst y))%Q.
Definition qopp (x : qs) : qs := (Qred (- fst x), Qred (- snd x))%Q.
Definition qeqb (x y : qs) : bool := Qeq_bool (fst x) (fst y) && Qeq_bool (snd x) (snd y).
Definition of_half (pq : Z * Z) : qs := (Qred (fst pq # 2), Qred (snd pq # 2)).
Definition of_Z (z : Z) : qs := (inject_Z z, 0%Q).

Open Scope R_scope.
Definition toR (x : qs) : R := Q2R (fst x) + Q2R (snd x) * sqrt 3.

Lemma sqrt3_sq : sqrt 3 * sqrt 3 = 3.
Proof. apply sqrt_sqrt; lra. Qed.

Lemma Q2R_red q : Q2R (Qred q) = Q2R q.
Proof. apply Qeq_eqR. apply Qred_correct. Qed.

Lemma toR_add x y : toR (qadd x y) = toR x + toR y.
Proof. unfold toR, qadd; cbn [fst snd]. rewrite !Q2R_red, !Q2R_plus. ring. Qed.
Lemma toR_mul x y : toR (qmul x y) = toR x * toR y.
Proof.
  unfold toR, qmul; cbn [fst snd]. rewrite !Q2R_red, !Q2R_plus, !Q2R_mult.
  replace (Q2R 3) with 3 by (unfold Q2R; cbn; lra).
  pose proof sqrt3_sq as S. set (s := sqrt 3) in *. clearbody s.
  transitivity (Q2R (fst x) * Q2R (fst y) + Q2R (snd x) * Q2R (snd y) * (s * s)
                + (Q2R (fst x) * Q2R (snd y) + Q2R (snd x) * Q2R (fst y)) * s); [rewrite S; ring | ring].
Qed.
Lemma toR_opp x : toR (qopp x) = - toR x.
Proof. unfold toR, qopp; cbn [fst snd]. rewrite !Q2R_red, !Q2R_opp. ring. Qed.
Lemma toR_0 : toR qs0 = 0.
Proof. unfold toR, qs0, Q2R; cbn. lra. Qed.
Lemma toR_1 : toR qs1 = 1.
Proof. unfold toR, qs1, Q2R; cbn. lra. Qed.
Lemma toR_eqb x y : qeqb x y = true -> toR x = toR y.
Proof.
  unfold qeqb. intros H. apply andb_prop in H. destruct H as [H1 H2].
  apply Qeq_bool_eq in H1. apply Qeq_bool_eq in H2. unfold toR. rewrite (Qeq_eqR _ _ H1), (Qeq_eqR _ _ H2). reflexivity.
Qed.

(* matrices *)
Record qm := mkqm { q00 : qs; q01 : qs; q02 : qs; q10 : qs; q11 : qs; q12 : qs; q20 : qs; q21 : qs; q22 : qs }.
Definition qmI : qm := mkqm qs1 qs0 qs0 qs0 qs1 qs0 qs0 qs0 qs1.
Definition dot3 a b c d e f : qs := qadd (qadd (qmul a d) (qmul b e)) (qmul c f).
Definition qmmul (A B : qm) : qm :=
  mkqm (dot3 (q00 A) (q01 A) (q02 A) (q00 B) (q10 B) (q20 B)) (dot3 (q00 A) (q01 A) (q02 A) (q01 B) (q11 B) (q21 B))
       (dot3 (q00 A) (q01 A) (q02 A) (q02 B) (q12 B) (q22 B))
       (dot3 (q10 A) (q11 A) (q12 A) (q00 B) (q10 B) (q20 B)) (dot3 (q10 A) (q11 A) (q12 A) (q01 B) (q11 B) (q21 B))
       (dot3 (q10 A) (q11 A) (q12 A) (q02 B) (q12 B) (q22 B))
       (dot3 (q20 A) (q21 A) (q22 A) (q00 B) (q10 B) (q20 B)) (dot3 (q20 A) (q21 A) (q22 A) (q01 B) (q11 B) (q21 B))
       (dot3 (q20 A) (q21 A) (q22 A) (q02 B) (q12 B) (q22 B)).
Definition qmtrans (A : qm) : qm := mkqm (q00 A) (q10 A) (q20 A) (q01 A) (q11 A) (q21 A) (q02 A) (q12 A) (q22 A).
Definition qmeqb (A B : qm) : bool :=
  qeqb (q00 A) (q00 B) && qeqb (q01 A) (q01 B) && qeqb (q02 A) (q02 B) && qeqb (q10 A) (q10 B) && qeqb (q11 A) (q11 B)
  && qeqb (q12 A) (q12 B) && qeqb (q20 A) (q20 B) && qeqb (q21 A) (q21 B) && qeqb (q22 A) (q22 B).
Definition qsub (x y : qs) := qadd x (qopp y).
Definition qmdet (A : qm) : qs :=
  qadd (qsub (qmul (q00 A) (qsub (qmul (q11 A) (q22 A)) (qmul (q12 A) (q21 A))))
             (qmul (q01 A) (qsub (qmul (q10 A) (q22 A)) (qmul (q12 A) (q20 A)))))
       (qmul (q02 A) (qsub (qmul (q10 A) (q21 A)) (qmul (q11 A) (q20 A)))).

Definition toRm (A : qm) : M3 :=
  mkM3 (toR (q00 A)) (toR (q01 A)) (toR (q02 A)) (toR (q10 A)) (toR (q11 A)) (toR (q12 A)) (toR (q20 A)) (toR (q21 A)) (toR (q22 A)).

Lemma toRm_mmul A B : toRm (qmmul A B) = mmul (toRm A) (toRm B).
Proof. destruct A, B. unfold toRm, qmmul, mmul, dot3; cbn. rewrite !toR_add, !toR_mul. reflexivity. Qed.
Lemma toRm_trans A : toRm (qmtrans A) = mtrans (toRm A).
Proof. destruct A. reflexivity. Qed.
Lemma toRm_I : toRm qmI = mI.
Proof. unfold toRm, qmI, mI; cbn. rewrite toR_0, toR_1. reflexivity. Qed.
Lemma toRm_eqb A B : qmeqb A B = true -> toRm A = toRm B.
Proof.
  unfold qmeqb. intros H. do 8 (apply andb_prop in H; destruct H as [H ?]).
  unfold toRm. f_equal; apply toR_eqb; assumption.
Qed.
Lemma toR_det A : toR (qmdet A) = mdet (toRm A).
Proof. destruct A. unfold qmdet, qsub, mdet, toRm; cbn. rewrite ?toR_add, ?toR_opp, ?toR_mul, ?toR_add, ?toR_opp, ?toR_mul. ring. Qed.

Definition qm_of_list (l : list (Z * Z)) : option qm :=
  match map of_half l with
  | [a; b; c; d; e; f; g; h; i] => Some (mkqm a b c d e f g h i)
  | _ => None
  end.
Definition qm_of_Zlist (l : list Z) : option qm :=
  match map of_Z l with
  | [a; b; c; d; e; f; g; h; i] => Some (mkqm a b c d e f g h i)
  | _ => None
  end.

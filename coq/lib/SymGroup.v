(* Lattice symmetry operator tables (xfab.symmetry): executable checks over Q(sqrt 3).  Hand-written; no proofs. *)
From Coq Require Import QArith ZArith List Bool Arith.
From XV Require Import QS3.
Import ListNotations.

Fixpoint all_some {A} (l : list (option A)) : option (list A) :=
  match l with
  | [] => Some []
  | Some x :: r => match all_some r with Some r' => Some (x :: r') | None => None end
  | None :: _ => None
  end.

Definition perms_of (k : nat) (tab : list (list (list Z))) : option (list qm) := all_some (map qm_of_Zlist (nth (k - 1) tab [])).
Definition rots_of (k : nat) (tab : list (list (list (Z * Z)))) : option (list qm) := all_some (map qm_of_list (nth (k - 1) tab [])).

Definition sys_order (k : nat) : nat := nth (k - 1) [1; 2; 4; 8; 6; 12; 24]%nat 0%nat.

Fixpoint index_of (x : qm) (l : list qm) : option nat :=
  match l with
  | [] => None
  | y :: r => if qmeqb x y then Some 0%nat else match index_of x r with Some i => Some (S i) | None => None end
  end.

Fixpoint nodupb (l : list qm) : bool :=
  match l with
  | [] => true
  | x :: r => negb (existsb (qmeqb x) r) && nodupb r
  end.

Definition is_group (G : list qm) : bool :=
  existsb (qmeqb qmI) G
  && forallb (fun a => forallb (fun b => existsb (qmeqb (qmmul a b)) G) G) G
  && forallb (fun a => existsb (fun b => qmeqb (qmmul a b) qmI) G) G
  && nodupb G.

Definition qsm1 : qs := qopp qs1.
Definition unimodular (P : qm) : bool := qeqb (qmdet P) qs1 || qeqb (qmdet P) qsm1.
Definition proper_rot (R : qm) : bool := qmeqb (qmmul (qmtrans R) R) qmI && qeqb (qmdet R) qs1.

Definition E (i j : nat) : qm :=
  let e (r c : nat) := if (Nat.eqb r i && Nat.eqb c j)%bool then qs1 else qs0 in
  (mkqm (e 0 0) (e 0 1) (e 0 2) (e 1 0) (e 1 1) (e 1 2) (e 2 0) (e 2 1) (e 2 2))%nat.
Definition qmadd (A B : qm) : qm :=
  mkqm (qadd (q00 A) (q00 B)) (qadd (q01 A) (q01 B)) (qadd (q02 A) (q02 B)) (qadd (q10 A) (q10 B)) (qadd (q11 A) (q11 B))
       (qadd (q12 A) (q12 B)) (qadd (q20 A) (q20 B)) (qadd (q21 A) (q21 B)) (qadd (q22 A) (q22 B)).
Definition half : qs := ((1 # 2)%Q, 0%Q).
Definition hsqrt3 : qs := (0%Q, (1 # 2)%Q).
(* B of [a,a,c,90,90,120] = a* M1 + c* E22 with gamma* = 60 deg *)
Definition M1hex : qm := mkqm qs1 half qs0 qs0 hsqrt3 qs0 qs0 qs0 qs0.

(* a spanning set of the B matrices of cells conforming to crystal system k *)
Definition b_basis (k : nat) : list qm :=
  match k with
  | 1 => [E 0 0; E 0 1; E 0 2; E 1 1; E 1 2; E 2 2]
  | 2 => [E 0 0; E 0 2; E 1 1; E 2 2]
  | 3 => [E 0 0; E 1 1; E 2 2]
  | 4 => [qmadd (E 0 0) (E 1 1); E 2 2]
  | 5 => [M1hex; E 2 2]
  | 6 => [M1hex; E 2 2]
  | 7 => [qmI]
  | _ => []
  end%nat.

Fixpoint forallb2 {A B} (f : A -> B -> bool) (l1 : list A) (l2 : list B) : bool :=
  match l1, l2 with
  | [], [] => true
  | x :: r1, y :: r2 => f x y && forallb2 f r1 r2
  | _, _ => false
  end.

Definition is_perm (l : list nat) (n : nat) : bool :=
  Nat.eqb (length l) n && forallb (fun i => existsb (Nat.eqb i) l) (seq 0 n).

(* index tables: where right / left multiplication by the j-th operator and transposition send each operator *)
Definition right_idx (G : list qm) (Gj : qm) : option (list nat) := all_some (map (fun R => index_of (qmmul R (qmtrans Gj)) G) G).
Definition left_idx (G : list qm) (Gj : qm) : option (list nat) := all_some (map (fun R => index_of (qmmul Gj R) G) G).
Definition trans_idx (G : list qm) : option (list nat) := all_some (map (fun R => index_of (qmtrans R) G) G).

Definition idx_ok (o : option (list nat)) (n : nat) : bool :=
  match o with Some l => is_perm l n | None => false end.

Definition sym_ok (k : nat) (ptab : list (list (list Z))) (rtab ctab : list (list (list (Z * Z)))) : bool :=
  match perms_of k ptab, rots_of k rtab, rots_of k ctab with
  | Some P, Some R, Some C =>
      let n := sys_order k in
      Nat.eqb (length P) n && Nat.eqb (length R) n
      && forallb unimodular P && is_group P
      && forallb proper_rot R && is_group R
      && forallb2 (fun r p => forallb (fun B => qmeqb (qmmul (qmmul r B) p) B) (b_basis k)) R P
      && forallb2 qmeqb C R
      && forallb (fun Gj => idx_ok (right_idx R Gj) n && idx_ok (left_idx R Gj) n) R
      && idx_ok (trans_idx R) n
  | _, _, _ => false
  end.

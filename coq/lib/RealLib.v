(* Real-number helper tactics and lemmas.  Hand-written library. *)
From Coq Require Import Reals Lra Lia Psatz List.
From Coq Require Export Nsatz.
Open Scope R_scope.

(* ---- hygiene for nsatz: only equalities over R, at the bottom, no x^n atoms ------------------- *)
Ltac expand_pow :=
  cbn [Rpow_def.pow] in *;
  repeat match goal with
         | H : _ |- _ => progress rewrite ?Rmult_1_r in H
         end;
  rewrite ?Rmult_1_r.

Ltac only_eqs :=
  repeat match goal with
         | H : ?T |- _ =>
             lazymatch T with
             | @eq R _ _ => fail
             | _ => clear H
             end
         end;
  repeat match goal with H : @eq R _ _ |- _ => revert H end; intros.

Ltac nsatz_R := expand_pow; only_eqs; solve [nsatz].

(* replace every cos t / sin t by variables tied by s^2 + c^2 = 1 *)
Ltac trig_abstract_one t :=
  let c := fresh "c" in
  let s := fresh "s" in
  let H := fresh "Hsc" in
  pose proof (sin2_cos2 t) as H; unfold Rsqr in H;
  set (c := cos t) in *; set (s := sin t) in *; clearbody c s.

Ltac trig_abstract :=
  repeat match goal with
         | |- context [cos ?t] => trig_abstract_one t
         | |- context [sin ?t] => trig_abstract_one t
         | _ : context [cos ?t] |- _ => trig_abstract_one t
         | _ : context [sin ?t] |- _ => trig_abstract_one t
         end.

Lemma deg_range x : 0 < x < 180 -> 0 < x * PI / 180 < PI.
Proof.
  intros [H1 H2]. pose proof PI_RGT_0 as P. split.
  - apply Rdiv_lt_0_compat; [apply Rmult_lt_0_compat; lra | lra].
  - apply (Rmult_lt_reg_r 180); [lra|]. unfold Rdiv. rewrite Rmult_assoc, Rinv_l, Rmult_1_r by lra. nra.
Qed.

Lemma sin_deg_pos x : 0 < x < 180 -> 0 < sin (x * PI / 180).
Proof. intros H. destruct (deg_range x H). apply sin_gt_0; assumption. Qed.

Lemma sqrt_sq x : 0 <= x -> sqrt (x * x) = x.
Proof. intros; apply sqrt_square; assumption. Qed.

Lemma sqrt_mul_self x : 0 <= x -> sqrt x * sqrt x = x.
Proof. intros; apply sqrt_sqrt; assumption. Qed.

Lemma sqrt_unique x y : 0 <= y -> y * y = x -> sqrt x = y.
Proof. intros Hy <-. apply sqrt_square; exact Hy. Qed.

Lemma acos_cos_deg x : 0 < x < 180 -> acos (cos (x * PI / 180)) * 180 / PI = x.
Proof.
  intros H. destruct (deg_range x H). rewrite acos_cos by lra.
  pose proof PI_RGT_0. field. lra.
Qed.

Lemma Rabs_lt_1_sq x : x * x < 1 -> -1 < x < 1.
Proof. intros; split; nra. Qed.

(* syntactic positivity (never unfolds PI) *)
Ltac pos :=
  lazymatch goal with
  | |- 0 < PI => exact PI_RGT_0
  | |- 0 < ?a * ?b => apply Rmult_lt_0_compat; pos
  | |- 0 < ?a / ?b => apply Rdiv_lt_0_compat; pos
  | |- 0 < / ?a => apply Rinv_0_lt_compat; pos
  | |- _ => first [assumption | lra | nra]
  end.

(* non-zero side conditions of field *)
Ltac nz1 :=
  first [ assumption
        | apply Rgt_not_eq; assumption
        | apply Rlt_not_eq; assumption
        | apply Rgt_not_eq; pos
        | exact PI_neq0
        | lra | nra ].
Ltac nz := repeat split; nz1.

(* equation over R with divisions: clear denominators, then ideal membership *)
Ltac field_nsatz :=
  first [ solve [ring]
        | solve [field; nz]
        | solve [field_simplify_eq; [nsatz_R | nz ..]]
        | solve [field_simplify_eq; nsatz_R]
        | solve [nsatz_R] ].

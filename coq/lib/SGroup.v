(* Space-group tables: data type, exact operations on (rotation, translation) pairs, the boolean
   group/metadata check of C04.  Hand-written; executable; no proofs here. *)
From Coq Require Import ZArith List Bool Ascii String MSetPositive Lia.
Import ListNotations.
Open Scope Z_scope.

Record sgrec := mkSg {
  sg_no : Z; sg_name : string; sg_csys : string; sg_laue : string; sg_choice : string;
  sg_nsymop : Z; sg_nuniq : Z; sg_syscond : list Z;
  sg_rot : list (list Z);      (* 9 integers, row major *)
  sg_trans : list (list Z) }.  (* 3 integers: the tabulated decimals in millionths *)

(* --- translations: snap millionths to twelfths, |v - k/12| < 1e-5 --------------------------------- *)
Definition snap12 (m : Z) : option Z :=
  let k := (m * 12 + 500000) / 1000000 in
  if Z.abs (m * 12 - k * 1000000) <? 120 then Some (k mod 12) else None.

Definition snap3 (t : list Z) : option (Z * Z * Z) :=
  match t with
  | [a; b; c] => match snap12 a, snap12 b, snap12 c with
                 | Some x, Some y, Some z => Some (x, y, z)
                 | _, _, _ => None
                 end
  | _ => None
  end.

(* --- 3x3 integer matrices as 9-tuples -------------------------------------------------------------- *)
Definition mat := (Z * Z * Z * Z * Z * Z * Z * Z * Z)%type.
Definition mat_of_list (l : list Z) : option mat :=
  match l with
  | [a; b; c; d; e; f; g; h; i] => Some (a, b, c, d, e, f, g, h, i)
  | _ => None
  end.
Definition mI9 : mat := (1, 0, 0, 0, 1, 0, 0, 0, 1).
Definition mmulZ (A B : mat) : mat :=
  let '(a, b, c, d, e, f, g, h, i) := A in
  let '(a', b', c', d', e', f', g', h', i') := B in
  (a * a' + b * d' + c * g', a * b' + b * e' + c * h', a * c' + b * f' + c * i',
   d * a' + e * d' + f * g', d * b' + e * e' + f * h', d * c' + e * f' + f * i',
   g * a' + h * d' + i * g', g * b' + h * e' + i * h', g * c' + h * f' + i * i').
Definition mtransZ (A : mat) : mat :=
  let '(a, b, c, d, e, f, g, h, i) := A in (a, d, g, b, e, h, c, f, i).
Definition mnegZ (A : mat) : mat :=
  let '(a, b, c, d, e, f, g, h, i) := A in (-a, -b, -c, -d, -e, -f, -g, -h, -i).
Definition mdetZ (A : mat) : Z :=
  let '(a, b, c, d, e, f, g, h, i) := A in
  a * (e * i - f * h) - b * (d * i - f * g) + c * (d * h - e * g).
Definition mvZ (A : mat) (v : Z * Z * Z) : Z * Z * Z :=
  let '(a, b, c, d, e, f, g, h, i) := A in let '(x, y, z) := v in
  (a * x + b * y + c * z, d * x + e * y + f * z, g * x + h * y + i * z).
(* row vector times matrix: h R *)
Definition vmZ (v : Z * Z * Z) (A : mat) : Z * Z * Z :=
  let '(a, b, c, d, e, f, g, h, i) := A in let '(x, y, z) := v in
  (x * a + y * d + z * g, x * b + y * e + z * h, x * c + y * f + z * i).
Definition mat_eqb (A B : mat) : bool :=
  let '(a, b, c, d, e, f, g, h, i) := A in
  let '(a', b', c', d', e', f', g', h', i') := B in
  (a =? a') && (b =? b') && (c =? c') && (d =? d') && (e =? e') && (f =? f') && (g =? g') && (h =? h') && (i =? i').
Definition small (x : Z) : bool := (-1 <=? x) && (x <=? 1).
Definition mat_small (A : mat) : bool :=
  let '(a, b, c, d, e, f, g, h, i) := A in
  small a && small b && small c && small d && small e && small f && small g && small h && small i.

(* an operation x -> R x + t, t in twelfths mod 12 *)
Definition op := (mat * (Z * Z * Z))%type.
Definition op_id : op := (mI9, (0, 0, 0)).
Definition mod12v (v : Z * Z * Z) : Z * Z * Z := let '(x, y, z) := v in (x mod 12, y mod 12, z mod 12).
Definition op_mul (p q : op) : op :=   (* apply q first, then p *)
  let '(R1, t1) := p in let '(R2, t2) := q in
  let '(x, y, z) := mvZ R1 t2 in let '(a, b, c) := t1 in
  (mmulZ R1 R2, mod12v (x + a, y + b, z + c)).

(* injective code of an operation with small entries and reduced translation *)
Definition mat_code (A : mat) : Z :=
  let '(a, b, c, d, e, f, g, h, i) := A in
  (a + 1) + 3 * ((b + 1) + 3 * ((c + 1) + 3 * ((d + 1) + 3 * ((e + 1) + 3 * ((f + 1) + 3 * ((g + 1) + 3 * ((h + 1) + 3 * (i + 1)))))))).
Definition op_code (p : op) : positive :=
  let '(R, (x, y, z)) := p in Z.to_pos (1 + mat_code R + 19683 * (x + 12 * (y + 12 * z))).

Fixpoint ops_of (rots trans : list (list Z)) : option (list op) :=
  match rots, trans with
  | [], [] => Some []
  | r :: rs, t :: ts =>
      match mat_of_list r, snap3 t, ops_of rs ts with
      | Some R, Some v, Some l => if mat_small R then Some ((R, v) :: l) else None
      | _, _, _ => None
      end
  | _, _ => None
  end.

Fixpoint all_mats (rots : list (list Z)) : option (list mat) :=
  match rots with
  | [] => Some []
  | r :: rs => match mat_of_list r, all_mats rs with Some R, Some l => Some (R :: l) | _, _ => None end
  end.

Definition set_of (l : list op) : PositiveSet.t :=
  fold_left (fun s p => PositiveSet.add (op_code p) s) l PositiveSet.empty.
Definition matset_of (l : list mat) : PositiveSet.t :=
  fold_left (fun s R => PositiveSet.add (Z.to_pos (1 + mat_code R)) s) l PositiveSet.empty.

Definition laue_order (l : string) : Z :=
  if String.eqb l "-1" then 2 else if String.eqb l "2/m" then 4 else if String.eqb l "mmm" then 8
  else if String.eqb l "4/m" then 8 else if String.eqb l "4/mmm" then 16 else if String.eqb l "-3" then 6
  else if String.eqb l "-3m" then 12 else if String.eqb l "-3m1" then 12 else if String.eqb l "-31m" then 12
  else if String.eqb l "6/m" then 12 else if String.eqb l "6/mmm" then 24 else if String.eqb l "m-3" then 24
  else if String.eqb l "m-3m" then 48 else 0.

(* basis of the linear space of metric tensors (x2 where halves occur) conforming to a crystal system/setting *)
Definition metric_basis (csys choice : string) : list mat :=
  if String.eqb csys "triclinic" then
    [(1,0,0,0,0,0,0,0,0); (0,0,0,0,1,0,0,0,0); (0,0,0,0,0,0,0,0,1);
     (0,1,0,1,0,0,0,0,0); (0,0,1,0,0,0,1,0,0); (0,0,0,0,0,1,0,1,0)]
  else if String.eqb csys "monoclinic" then    (* unique axis b *)
    [(1,0,0,0,0,0,0,0,0); (0,0,0,0,1,0,0,0,0); (0,0,0,0,0,0,0,0,1); (0,0,1,0,0,0,1,0,0)]
  else if String.eqb csys "orthorhombic" then
    [(1,0,0,0,0,0,0,0,0); (0,0,0,0,1,0,0,0,0); (0,0,0,0,0,0,0,0,1)]
  else if String.eqb csys "tetragonal" then
    [(1,0,0,0,1,0,0,0,0); (0,0,0,0,0,0,0,0,1)]
  else if String.eqb csys "cubic" then
    [(1,0,0,0,1,0,0,0,1)]
  else if String.eqb csys "hexagonal" then
    [(2,-1,0,-1,2,0,0,0,0); (0,0,0,0,0,0,0,0,1)]
  else if String.eqb csys "trigonal" then
    if String.eqb choice "rhombohedral" then [(1,0,0,0,1,0,0,0,1); (0,1,1,1,0,1,1,1,0)]
    else [(2,-1,0,-1,2,0,0,0,0); (0,0,0,0,0,0,0,0,1)]
  else [].

Definition preserves (R G : mat) : bool := mat_eqb (mmulZ (mtransZ R) (mmulZ G R)) G.

Definition known_csys (c : string) : bool :=
  existsb (String.eqb c) ["triclinic"; "monoclinic"; "orthorhombic"; "tetragonal"; "trigonal"; "hexagonal"; "cubic"]%string.

Definition group_ok_ops (s : sgrec) (ops : list op) : bool :=
  let n := Z.of_nat (List.length ops) in
  let S := set_of ops in
  let rots := map fst ops in
  let uniq := firstn (Z.to_nat (sg_nuniq s)) rots in
  let US := matset_of uniq in
  let idc := op_code op_id in
  (n =? sg_nsymop s) && (0 <? sg_nuniq s)
  && PositiveSet.mem idc S
  && (Z.of_nat (PositiveSet.cardinal S) =? n)                                       (* no duplicates *)
  && forallb (fun p => forallb (fun q => PositiveSet.mem (op_code (op_mul p q)) S) ops) ops   (* closed *)
  && forallb (fun p => existsb (fun q => Pos.eqb (op_code (op_mul p q)) idc) ops) ops        (* inverses *)
  && (Z.of_nat (PositiveSet.cardinal US) =? sg_nuniq s)                              (* first nuniq distinct *)
  && forallb (fun R => PositiveSet.mem (Z.to_pos (1 + mat_code R)) US) rots          (* and they are all of them *)
  && (sg_nsymop s =? sg_nuniq s * Z.of_nat (List.length (filter (fun p => mat_eqb (fst p) mI9) ops)))
  && forallb (fun R => Z.abs (mdetZ R) =? 1) rots
  && (Z.of_nat (PositiveSet.cardinal (matset_of (uniq ++ map mnegZ uniq))) =? laue_order (sg_laue s))
  && known_csys (sg_csys s)
  && forallb (fun G => forallb (fun R => preserves R G) uniq) (metric_basis (sg_csys s) (sg_choice s))
  && (Z.of_nat (List.length (sg_syscond s)) =? 26).

Definition group_ok (s : sgrec) : bool :=
  match ops_of (sg_rot s) (sg_trans s) with
  | Some ops => group_ok_ops s ops
  | None => false
  end.

(* --- names ------------------------------------------------------------------------------------------ *)
Definition is_ws (c : Ascii.ascii) : bool :=
  let n := Ascii.nat_of_ascii c in
  ((9 <=? Z.of_nat n) && (Z.of_nat n <=? 13)) || (Z.of_nat n =? 32) || ((28 <=? Z.of_nat n) && (Z.of_nat n <=? 31)).
Definition lower_ascii (c : Ascii.ascii) : Ascii.ascii :=
  let n := Ascii.nat_of_ascii c in
  if (Nat.leb 65 n && Nat.leb n 90)%bool then Ascii.ascii_of_nat (n + 32) else c.
(* re.sub("\s+", "", x).lower()  on ASCII *)
Fixpoint sg_normalise (s : string) : string :=
  match s with
  | EmptyString => EmptyString
  | String c r => if is_ws c then sg_normalise r else String (lower_ascii c) (sg_normalise r)
  end.
Fixpoint last_char (s : string) : option Ascii.ascii :=
  match s with
  | EmptyString => None
  | String c EmptyString => Some c
  | String _ r => last_char r
  end.
Definition first_char (s : string) : option Ascii.ascii :=
  match s with EmptyString => None | String c _ => Some c end.
Definition is_r (o : option Ascii.ascii) : bool :=
  match o with Some c => Ascii.eqb c "r"%char | None => false end.
(* the setting sg.__init__ selects when called by name with the default cell_choice *)
Definition name_choice (key : string) : string :=
  if is_r (first_char key) && is_r (last_char key) then "rhombohedral"%string else "standard"%string.

Fixpoint list_eqb {A} (eqb : A -> A -> bool) (l1 l2 : list A) : bool :=
  match l1, l2 with
  | [], [] => true
  | x :: xs, y :: ys => eqb x y && list_eqb eqb xs ys
  | _, _ => false
  end.

Definition sgrec_eqb (a b : sgrec) : bool :=
  (sg_no a =? sg_no b) && String.eqb (sg_name a) (sg_name b) && String.eqb (sg_csys a) (sg_csys b)
  && String.eqb (sg_laue a) (sg_laue b) && String.eqb (sg_choice a) (sg_choice b)
  && (sg_nsymop a =? sg_nsymop b) && (sg_nuniq a =? sg_nuniq b)
  && list_eqb Z.eqb (sg_syscond a) (sg_syscond b)
  && list_eqb (list_eqb Z.eqb) (sg_rot a) (sg_rot b) && list_eqb (list_eqb Z.eqb) (sg_trans a) (sg_trans b).

(* Left composition by a member permutes the operation list modulo lattice translations: executable check (used by C07/C08). *)
From Coq Require Import ZArith List Bool.
From XV Require Import SGroup.
Import ListNotations.
Open Scope Z_scope.

Definition v3_eqb (u v : Z * Z * Z) : bool :=
  let '(a, b, c) := u in let '(a', b', c') := v in (a =? a') && (b =? b') && (c =? c').
Definition op_eqb (p q : op) : bool := mat_eqb (fst p) (fst q) && v3_eqb (snd p) (snd q).
Fixpoint nodupb (l : list op) : bool :=
  match l with [] => true | a :: r => negb (existsb (op_eqb a) r) && nodupb r end.
Definition inclb (l1 l2 : list op) : bool := forallb (fun a => existsb (op_eqb a) l2) l1.

Definition left_ok_ops (ops : list op) : bool :=
  nodupb ops && forallb (fun k => inclb ops (map (op_mul k) ops)) ops
  && existsb (op_eqb op_id) ops && forallb (fun p => Z.abs (mdetZ (fst p)) =? 1) ops.
Definition left_ok (s : sgrec) : bool :=
  match ops_of (sg_rot s) (sg_trans s) with Some ops => left_ok_ops ops | None => false end.

(* Solving a cos w + b sin w = c, and the diffraction condition.  Hand-written library. *)
From Coq Require Import Reals Lra Psatz List.
From XV Require Import RealLib Mat3 Atan2.
Import ListNotations.
Open Scope R_scope.

Lemma trig_solve a b c sq s : s * s = 1 -> a * a + b * b <> 0 -> sq * sq = a * a + b * b - c * c ->
  let co := (a * c + s * (b * sq)) / (a * a + b * b) in
  let si := (b * c - s * (a * sq)) / (a * a + b * b) in
  si * si + co * co = 1 /\ a * co + b * si = c.
Proof.
  intros Hs Hn Hq. cbv zeta. split; field_simplify_eq; try assumption; nsatz_R.
Qed.

(* completeness: every solution on the unit circle is one of the two *)
Lemma trig_solve_complete a b c sq co si : a * a + b * b <> 0 -> 0 <= sq -> sq * sq = a * a + b * b - c * c ->
  si * si + co * co = 1 -> a * co + b * si = c ->
  (co = (a * c + b * sq) / (a * a + b * b) /\ si = (b * c - a * sq) / (a * a + b * b)) \/
  (co = (a * c - b * sq) / (a * a + b * b) /\ si = (b * c + a * sq) / (a * a + b * b)).
Proof.
  intros Hn Hs Hq H1 H2.
  (* (b co - a si)^2 = sq^2 *)
  assert (E : (b * co - a * si) * (b * co - a * si) = sq * sq) by nsatz_R.
  assert (D : b * co - a * si = sq \/ b * co - a * si = - sq).
  { assert (F : (b * co - a * si - sq) * (b * co - a * si + sq) = 0) by nsatz_R.
    apply Rmult_integral in F. destruct F; [left | right]; lra. }
  destruct D as [D|D]; [left | right]; split; (apply (Rmult_eq_reg_r (a * a + b * b)); [|exact Hn]);
    (field_simplify_eq; [nsatz_R | exact Hn]).
Qed.

Definition wrap (w : R) : R := if Rlt_dec PI w then w - 2 * PI else w.

Lemma wrap_atan2 y x : wrap (atan2 y x) = atan2 y x.
Proof. unfold wrap. destruct (Rlt_dec PI (atan2 y x)) as [L|L]; [|reflexivity]. pose proof (atan2_range y x). lra. Qed.

Lemma cos_wrap w : cos (wrap w) = cos w.
Proof. unfold wrap. destruct (Rlt_dec PI w); [|reflexivity]. rewrite cos_minus, cos_2PI, sin_2PI. ring. Qed.
Lemma sin_wrap w : sin (wrap w) = sin w.
Proof. unfold wrap. destruct (Rlt_dec PI w); [|reflexivity]. rewrite sin_minus, cos_2PI, sin_2PI. ring. Qed.

(* the diffraction condition for a rotation matrix Om, g scaled to length sin(theta) *)
Definition diffracts (Om : M3) (g : V3) (tth eta : R) : Prop :=
  mvmul Om g = mkV3 (- (sin (tth / 2) * sin (tth / 2))) (- sin tth * sin eta / 2) (sin tth * cos eta / 2).

Definition eta_of (Om : M3) (g : V3) (tth : R) : R :=
  atan2 (- 2 * vy (mvmul Om g) / sin tth) (2 * vz (mvmul Om g) / sin tth).

(* if the x-component is right and Om preserves lengths, eta_of completes the diffraction condition *)
Lemma eta_completes Om g tth : is_rot Om -> 0 < tth < PI ->
  vnorm2 g = sin (tth / 2) * sin (tth / 2) ->
  vx (mvmul Om g) = - (sin (tth / 2) * sin (tth / 2)) ->
  diffracts Om g tth (eta_of Om g tth).
Proof.
  intros HR Ht Hn Hx. unfold diffracts, eta_of.
  pose proof (rot_vnorm2 Om g HR) as N. rewrite Hn in N.
  set (gt := mvmul Om g) in *. destruct gt as [x y z]. cbn [vx vy vz] in *. unfold vnorm2, vdot in N; cbn in N.
  assert (S : sin tth = 2 * sin (tth / 2) * cos (tth / 2)) by (replace tth with (2 * (tth / 2)) at 1 by field; apply sin_2a).
  assert (P : 0 < sin tth) by (apply sin_gt_0; lra).
  pose proof (sc1 (tth / 2)) as SC.
  set (sh := sin (tth / 2)) in *. set (ch := cos (tth / 2)) in *. set (S2 := sin tth) in *.
  assert (U : (- 2 * y / S2) * (- 2 * y / S2) + (2 * z / S2) * (2 * z / S2) = 1).
  { field_simplify_eq; [|lra]. subst x. clearbody sh ch S2. nsatz_R. }
  rewrite (sin_atan2_unit _ _ U), (cos_atan2_unit _ _ U). subst x. f_equal; field; lra.
Qed.

(* ---- generic two-solution solver: Om w is a rotation whose first row applied to g is a cos w + b sin w + k ---------- *)
Definition solver_model (gn : V3) (tth : R) (Om : R -> M3) (a b c : R) : list R * list R :=
  let n := a * a + b * b in
  let d := n - c * c in
  if Rlt_dec d 0 then ([], [])
  else
    let sq := sqrt d in
    let w1 := wrap (atan2 ((b * c - a * sq) / n) ((a * c + b * sq) / n)) in
    let w2 := wrap (atan2 ((b * c + a * sq) / n) ((a * c - b * sq) / n)) in
    ([w1; w2], [eta_of (Om w1) gn tth; eta_of (Om w2) gn tth]).

Section Solver.
Variables (gn : V3) (tth : R) (Om : R -> M3) (a b c k : R).
Hypothesis Ht : 0 < tth < PI.
Hypothesis Hn : vx gn * vx gn + vy gn * vy gn + vz gn * vz gn = sin (tth / 2) * sin (tth / 2).
Hypothesis HOm : forall w, is_rot (Om w).
Hypothesis Hx : forall w, vx (mvmul (Om w) gn) = a * cos w + b * sin w + k.
Hypothesis Hc : c = - (vx gn * vx gn + vy gn * vy gn + vz gn * vz gn) - k.
Hypothesis Hab : a * a + b * b <> 0.

Lemma sol_sound s sq : s * s = 1 -> sq * sq = a * a + b * b - c * c ->
  let w := wrap (atan2 ((b * c - s * (a * sq)) / (a * a + b * b)) ((a * c + s * (b * sq)) / (a * a + b * b))) in
  diffracts (Om w) gn tth (eta_of (Om w) gn tth).
Proof.
  intros Hs Hq w. destruct (trig_solve a b c sq s Hs Hab Hq) as [U E]. cbv zeta in U, E.
  apply eta_completes; [apply HOm | exact Ht | unfold vnorm2, vdot; exact Hn |].
  rewrite Hx. subst w.
  rewrite cos_wrap, sin_wrap, (cos_atan2_unit _ _ U), (sin_atan2_unit _ _ U), E, Hc, Hn. ring.
Qed.

Lemma model_sound w e : In (w, e) (combine (fst (solver_model gn tth Om a b c)) (snd (solver_model gn tth Om a b c))) ->
  diffracts (Om w) gn tth e.
Proof.
  unfold solver_model; cbv zeta.
  destruct (Rlt_dec (a * a + b * b - c * c) 0) as [L|L]; cbn [fst snd combine In]; [tauto|].
  assert (Q : sqrt (a * a + b * b - c * c) * sqrt (a * a + b * b - c * c) = a * a + b * b - c * c) by (apply sqrt_sqrt; lra).
  intros [E|[E|[]]]; injection E as <- <-.
  - pose proof (sol_sound 1 _ ltac:(ring) Q) as S. cbv zeta in S.
    replace (b * c - 1 * (a * sqrt (a * a + b * b - c * c))) with (b * c - a * sqrt (a * a + b * b - c * c)) in S by ring.
    replace (a * c + 1 * (b * sqrt (a * a + b * b - c * c))) with (a * c + b * sqrt (a * a + b * b - c * c)) in S by ring.
    exact S.
  - pose proof (sol_sound (-1) _ ltac:(ring) Q) as S. cbv zeta in S.
    replace (b * c - -1 * (a * sqrt (a * a + b * b - c * c))) with (b * c + a * sqrt (a * a + b * b - c * c)) in S by ring.
    replace (a * c + -1 * (b * sqrt (a * a + b * b - c * c))) with (a * c - b * sqrt (a * a + b * b - c * c)) in S by ring.
    exact S.
Qed.

Lemma model_range w : In w (fst (solver_model gn tth Om a b c)) -> - PI < w <= PI.
Proof.
  unfold solver_model; cbv zeta.
  destruct (Rlt_dec (a * a + b * b - c * c) 0) as [L|L]; cbn [fst In]; [tauto|].
  intros [<-|[<-|[]]]; rewrite wrap_atan2; apply atan2_range.
Qed.

Lemma model_complete w : - PI < w <= PI ->
  vx (mvmul (Om w) gn) = - (sin (tth / 2) * sin (tth / 2)) ->
  In w (fst (solver_model gn tth Om a b c)).
Proof.
  intros Hw Hxw. rewrite Hx in Hxw.
  assert (E : a * cos w + b * sin w = c) by (rewrite Hc, Hn; lra).
  pose proof (sc1 w) as SC.
  assert (D : 0 <= a * a + b * b - c * c).
  { rewrite <- E. set (cw := cos w) in *. set (sw := sin w) in *.
    replace (a * a + b * b - (a * cw + b * sw) * (a * cw + b * sw)) with ((a * sw - b * cw) * (a * sw - b * cw))
      by (clearbody cw sw; clear - SC; nsatz_R). apply Rle_0_sqr. }
  unfold solver_model; cbv zeta.
  destruct (Rlt_dec (a * a + b * b - c * c) 0) as [L|L]; [lra|]. cbn [fst In].
  assert (Q : sqrt (a * a + b * b - c * c) * sqrt (a * a + b * b - c * c) = a * a + b * b - c * c) by (apply sqrt_sqrt; lra).
  destruct (trig_solve_complete a b c (sqrt (a * a + b * b - c * c)) (cos w) (sin w) Hab (sqrt_pos _) Q SC E) as [[C S]|[C S]].
  - left. rewrite wrap_atan2. rewrite <- C, <- S. apply atan2_cos_sin; exact Hw.
  - right; left. rewrite wrap_atan2. rewrite <- C, <- S. apply atan2_cos_sin; exact Hw.
Qed.

Lemma model_count :
  (a * a + b * b - c * c < 0 -> fst (solver_model gn tth Om a b c) = []) /\
  (0 < a * a + b * b - c * c -> exists w1 w2, fst (solver_model gn tth Om a b c) = [w1; w2] /\ w1 <> w2).
Proof.
  unfold solver_model; cbv zeta. split; intros H.
  - destruct (Rlt_dec (a * a + b * b - c * c) 0); [reflexivity | lra].
  - destruct (Rlt_dec (a * a + b * b - c * c) 0) as [L|L]; [lra|]. cbn [fst].
    eexists; eexists; split; [reflexivity|].
    rewrite !wrap_atan2. intro E.
    assert (Q : sqrt (a * a + b * b - c * c) * sqrt (a * a + b * b - c * c) = a * a + b * b - c * c) by (apply sqrt_sqrt; lra).
    assert (P : 0 < sqrt (a * a + b * b - c * c)) by (apply sqrt_lt_R0; exact H).
    set (sq := sqrt (a * a + b * b - c * c)) in *.
    destruct (trig_solve a b c sq 1 ltac:(ring) Hab Q) as [U1 _]. destruct (trig_solve a b c sq (-1) ltac:(ring) Hab Q) as [U2 _].
    cbv zeta in U1, U2.
    replace (b * c - 1 * (a * sq)) with (b * c - a * sq) in U1 by ring. replace (a * c + 1 * (b * sq)) with (a * c + b * sq) in U1 by ring.
    replace (b * c - -1 * (a * sq)) with (b * c + a * sq) in U2 by ring. replace (a * c + -1 * (b * sq)) with (a * c - b * sq) in U2 by ring.
    assert (EC := f_equal cos E). assert (ES := f_equal sin E).
    rewrite (cos_atan2_unit _ _ U1), (cos_atan2_unit _ _ U2) in EC.
    rewrite (sin_atan2_unit _ _ U1), (sin_atan2_unit _ _ U2) in ES.
    assert (NP : 0 < a * a + b * b) by (destruct (Rtotal_order (a * a + b * b) 0) as [X|[X|X]]; [nra|contradiction|exact X]).
    assert (B0 : b * sq = 0).
    { apply (Rmult_eq_reg_l (2 / (a * a + b * b))); [|apply Rgt_not_eq; apply Rdiv_lt_0_compat; lra].
      rewrite Rmult_0_r. transitivity ((a * c + b * sq) / (a * a + b * b) - (a * c - b * sq) / (a * a + b * b)); [field; exact Hab | lra]. }
    assert (A0 : a * sq = 0).
    { apply (Rmult_eq_reg_l (2 / (a * a + b * b))); [|apply Rgt_not_eq; apply Rdiv_lt_0_compat; lra].
      rewrite Rmult_0_r. transitivity ((b * c + a * sq) / (a * a + b * b) - (b * c - a * sq) / (a * a + b * b)); [field; exact Hab | lra]. }
    apply Hab. assert (a = 0) by (apply Rmult_integral in A0; destruct A0; lra).
    assert (b = 0) by (apply Rmult_integral in B0; destruct B0; lra). nra.
Qed.
End Solver.

(* Images as lists of rows; numpy's transpose / fliplr / flipud on 2-d arrays, with their algebraic laws on
   rectangular images.  Hand-written library. *)
From Coq Require Import List Arith Lia Bool.
Import ListNotations.

Lemma nth_error_ext {T} (l1 l2 : list T) : (forall i, nth_error l1 i = nth_error l2 i) -> l1 = l2.
Proof.
  revert l2; induction l1 as [|x l1 IH]; intros [|y l2] H.
  - reflexivity.
  - specialize (H 0). discriminate.
  - specialize (H 0). discriminate.
  - pose proof (H 0) as H0. cbn in H0. injection H0 as <-. f_equal. apply IH. intros i. exact (H (S i)).
Qed.

Lemma nth_error_rev {T} (l : list T) j : j < length l -> nth_error (rev l) j = nth_error l (length l - 1 - j).
Proof.
  intros H. destruct l as [|d l']; [cbn in H; lia|]. set (l := d :: l') in *.
  rewrite (nth_error_nth' (rev l) d) by (rewrite rev_length; exact H).
  rewrite (nth_error_nth' l d) by lia.
  rewrite rev_nth by exact H. f_equal. f_equal. lia.
Qed.

Section Img.
Context {A : Type}.

Definition img_fliplr (img : list (list A)) : list (list A) := map (@rev A) img.
Definition img_flipud (img : list (list A)) : list (list A) := rev img.
Definition width (img : list (list A)) : nat := match img with [] => 0 | r :: _ => length r end.
Definition opt_list (o : option A) : list A := match o with Some x => [x] | None => [] end.
Definition col (j : nat) (img : list (list A)) : list A := flat_map (fun r => opt_list (nth_error r j)) img.
Definition img_transpose (img : list (list A)) : list (list A) := map (fun j => col j img) (seq 0 (width img)).

Definition rect (m n : nat) (img : list (list A)) : Prop := length img = m /\ Forall (fun r => length r = n) img.
Definition get (img : list (list A)) (i j : nat) : option A :=
  match nth_error img i with Some r => nth_error r j | None => None end.

Lemma rect_row m n img i r : rect m n img -> nth_error img i = Some r -> length r = n.
Proof. intros [_ F] H. rewrite Forall_forall in F. apply F. eapply nth_error_In; eauto. Qed.

Lemma img_ext m n a b : rect m n a -> rect m n b -> (forall i j, i < m -> j < n -> get a i j = get b i j) -> a = b.
Proof.
  intros Ra Rb H. apply nth_error_ext. intros i.
  destruct (lt_dec i m) as [Hi|Hi].
  - destruct Ra as [La Fa], Rb as [Lb Fb].
    destruct (nth_error a i) as [ra|] eqn:Ea; [|apply nth_error_None in Ea; lia].
    destruct (nth_error b i) as [rb|] eqn:Eb; [|apply nth_error_None in Eb; lia].
    f_equal. apply nth_error_ext. intros j.
    assert (Lra : length ra = n) by (rewrite Forall_forall in Fa; apply Fa; eapply nth_error_In; eauto).
    assert (Lrb : length rb = n) by (rewrite Forall_forall in Fb; apply Fb; eapply nth_error_In; eauto).
    destruct (lt_dec j n) as [Hj|Hj].
    + specialize (H i j Hi Hj). unfold get in H. rewrite Ea, Eb in H. exact H.
    + rewrite (proj2 (nth_error_None ra j)) by lia. rewrite (proj2 (nth_error_None rb j)) by lia. reflexivity.
  - destruct Ra as [La _], Rb as [Lb _].
    rewrite (proj2 (nth_error_None a i)) by lia. rewrite (proj2 (nth_error_None b i)) by lia. reflexivity.
Qed.

(* fliplr / flipud *)
Lemma rect_fliplr m n img : rect m n img -> rect m n (img_fliplr img).
Proof.
  intros [L F]. split; [unfold img_fliplr; rewrite map_length; exact L|].
  unfold img_fliplr. rewrite Forall_map. eapply Forall_impl; [|exact F]. intros r Hr. cbn. rewrite rev_length. exact Hr.
Qed.
Lemma rect_flipud m n img : rect m n img -> rect m n (img_flipud img).
Proof.
  intros [L F]. split; [unfold img_flipud; rewrite rev_length; exact L|].
  unfold img_flipud. apply Forall_rev. exact F.
Qed.
Lemma get_fliplr m n img i j : rect m n img -> j < n -> get (img_fliplr img) i j = get img i (n - 1 - j).
Proof.
  intros R Hj. unfold get, img_fliplr. rewrite nth_error_map.
  destruct (nth_error img i) as [r|] eqn:E; cbn; [|reflexivity].
  pose proof (rect_row _ _ _ _ _ R E) as Lr. rewrite nth_error_rev by lia. rewrite Lr. reflexivity.
Qed.
Lemma get_flipud m n img i j : rect m n img -> i < m -> get (img_flipud img) i j = get img (m - 1 - i) j.
Proof.
  intros [L _] Hi. unfold get, img_flipud. rewrite nth_error_rev by lia. rewrite L. reflexivity.
Qed.

Lemma fliplr_invol img : img_fliplr (img_fliplr img) = img.
Proof. unfold img_fliplr. rewrite map_map. rewrite <- (map_id img) at 2. apply map_ext. intros r. apply rev_involutive. Qed.
Lemma flipud_invol img : img_flipud (img_flipud img) = img.
Proof. apply rev_involutive. Qed.
Lemma fliplr_flipud img : img_fliplr (img_flipud img) = img_flipud (img_fliplr img).
Proof. unfold img_fliplr, img_flipud. rewrite map_rev. reflexivity. Qed.

(* transpose *)
Lemma col_spec j img : Forall (fun r => j < length r) img ->
  length (col j img) = length img /\ forall i, nth_error (col j img) i = get img i j.
Proof.
  induction img as [|r img IH]; intros F.
  - split; [reflexivity|]. intros i. unfold get. destruct i; reflexivity.
  - inversion F as [|? ? Hr Fr]; subst. destruct (IH Fr) as [IL IG].
    destruct (nth_error r j) as [x|] eqn:E; [|apply nth_error_None in E; lia].
    unfold col in *. cbn [flat_map]. rewrite E. cbn [opt_list app]. split; [cbn; rewrite IL; reflexivity|].
    intros [|i]; cbn; [unfold get; cbn; symmetry; exact E | rewrite IG; reflexivity].
Qed.

Lemma rect_width m n img : rect m n img -> 1 <= m -> width img = n.
Proof. intros [L F] H. destruct img as [|r img]; [cbn in L; lia|]. cbn. inversion F as [|? ? Hr ?]. exact Hr. Qed.

Lemma rect_transpose m n img : rect m n img -> 1 <= m -> rect n m (img_transpose img).
Proof.
  intros R Hm. pose proof (rect_width _ _ _ R Hm) as W. destruct R as [L F].
  unfold img_transpose. rewrite W. split; [rewrite map_length, seq_length; reflexivity|].
  rewrite Forall_map, Forall_forall. intros j Hj. apply in_seq in Hj.
  assert (Fj : Forall (fun r => j < length r) img) by (eapply Forall_impl; [|exact F]; intros r Hr; cbn in Hr; lia).
  rewrite (proj1 (col_spec j img Fj)). exact L.
Qed.

Lemma get_transpose m n img i j : rect m n img -> 1 <= m -> i < n -> get (img_transpose img) i j = get img j i.
Proof.
  intros R Hm Hi. pose proof (rect_width _ _ _ R Hm) as W. destruct R as [L F].
  unfold get at 1, img_transpose. rewrite W, nth_error_map.
  rewrite (nth_error_nth' (seq 0 n) 0) by (rewrite seq_length; exact Hi). rewrite seq_nth by exact Hi. cbn.
  assert (Fi : Forall (fun r => i < length r) img) by (eapply Forall_impl; [|exact F]; intros r Hr; cbn in Hr; lia).
  apply (proj2 (col_spec i img Fi)).
Qed.

Lemma transpose_invol m n img : rect m n img -> 1 <= m -> 1 <= n -> img_transpose (img_transpose img) = img.
Proof.
  intros R Hm Hn. pose proof (rect_transpose _ _ _ R Hm) as Rt.
  apply (img_ext m n); [apply (rect_transpose n m); assumption | exact R |].
  intros i j Hi Hj. rewrite (get_transpose n m) by assumption. apply (get_transpose m n); assumption.
Qed.

Lemma transpose_fliplr m n img : rect m n img -> 1 <= m -> img_transpose (img_fliplr img) = img_flipud (img_transpose img).
Proof.
  intros R Hm. pose proof (rect_fliplr _ _ _ R) as Rf.
  apply (img_ext n m); [apply rect_transpose; assumption | apply rect_flipud; apply rect_transpose; assumption |].
  intros i j Hi Hj.
  rewrite (get_transpose m n) by assumption. rewrite (get_fliplr m n) by assumption.
  rewrite (get_flipud n m) by (try assumption; apply rect_transpose; assumption).
  rewrite (get_transpose m n) by (try assumption; lia). reflexivity.
Qed.

Lemma transpose_flipud m n img : rect m n img -> 1 <= m -> img_transpose (img_flipud img) = img_fliplr (img_transpose img).
Proof.
  intros R Hm. pose proof (rect_flipud _ _ _ R) as Rf.
  apply (img_ext n m); [apply rect_transpose; assumption | apply rect_fliplr; apply rect_transpose; assumption |].
  intros i j Hi Hj.
  rewrite (get_transpose m n) by assumption. rewrite (get_flipud m n) by assumption.
  rewrite (get_fliplr n m) by (try assumption; apply rect_transpose; assumption).
  rewrite (get_transpose m n) by (try assumption; lia). reflexivity.
Qed.

End Img.

#[global] Arguments img_fliplr : simpl never.
#[global] Arguments img_flipud : simpl never.
#[global] Arguments img_transpose : simpl never.

gen/Gen_detector.vo gen/Gen_detector.glob gen/Gen_detector.v.beautified gen/Gen_detector.required_vo: gen/Gen_detector.v lib/RealLib.vo lib/Mat3.vo lib/Atan2.vo
gen/Gen_detector.vio: gen/Gen_detector.v lib/RealLib.vio lib/Mat3.vio lib/Atan2.vio
gen/Gen_detector.vos gen/Gen_detector.vok gen/Gen_detector.required_vos: gen/Gen_detector.v lib/RealLib.vos lib/Mat3.vos lib/Atan2.vos
gen/Gen_laue.vo gen/Gen_laue.glob gen/Gen_laue.v.beautified gen/Gen_laue.required_vo: gen/Gen_laue.v lib/RealLib.vo lib/Mat3.vo lib/Atan2.vo
gen/Gen_laue.vio: gen/Gen_laue.v lib/RealLib.vio lib/Mat3.vio lib/Atan2.vio
gen/Gen_laue.vos gen/Gen_laue.vok gen/Gen_laue.required_vos: gen/Gen_laue.v lib/RealLib.vos lib/Mat3.vos lib/Atan2.vos
gen/Gen_tools.vo gen/Gen_tools.glob gen/Gen_tools.v.beautified gen/Gen_tools.required_vo: gen/Gen_tools.v lib/RealLib.vo lib/Mat3.vo lib/Atan2.vo
gen/Gen_tools.vio: gen/Gen_tools.v lib/RealLib.vio lib/Mat3.vio lib/Atan2.vio
gen/Gen_tools.vos gen/Gen_tools.vok gen/Gen_tools.required_vos: gen/Gen_tools.v lib/RealLib.vos lib/Mat3.vos lib/Atan2.vos
lib/Atan2.vo lib/Atan2.glob lib/Atan2.v.beautified lib/Atan2.required_vo: lib/Atan2.v lib/RealLib.vo
lib/Atan2.vio: lib/Atan2.v lib/RealLib.vio
lib/Atan2.vos lib/Atan2.vok lib/Atan2.required_vos: lib/Atan2.v lib/RealLib.vos
lib/Mat3.vo lib/Mat3.glob lib/Mat3.v.beautified lib/Mat3.required_vo: lib/Mat3.v 
lib/Mat3.vio: lib/Mat3.v 
lib/Mat3.vos lib/Mat3.vok lib/Mat3.required_vos: lib/Mat3.v 
lib/RealLib.vo lib/RealLib.glob lib/RealLib.v.beautified lib/RealLib.required_vo: lib/RealLib.v 
lib/RealLib.vio: lib/RealLib.v 
lib/RealLib.vos lib/RealLib.vok lib/RealLib.required_vos: lib/RealLib.v 
spec/Cell.vo spec/Cell.glob spec/Cell.v.beautified spec/Cell.required_vo: spec/Cell.v lib/Mat3.vo
spec/Cell.vio: spec/Cell.v lib/Mat3.vio
spec/Cell.vos spec/Cell.vok spec/Cell.required_vos: spec/Cell.v lib/Mat3.vos

(* Hand model of xfab.checks: the _checkState switch, the allclose-based rotation check (with the code's tolerances: rtol = 1e-5,
   atol = 1e-6 for U'U, atol = 1e-8 for the determinant), the Euler range check, the UBI handedness check, and guard sites. No proofs here. *)
From Coq Require Import Reals List Bool.
From XV Require Import RealLib Mat3.
Import ListNotations.
Open Scope R_scope.

(* values that user code may assign to CHECKS.activated *)
Inductive pyval := PyTrue | PyFalse | PyInt (z : nat) | PyNone | PyStr | PyOther.
Inductive outcome := Done | ValueError.

(* setter: only the two singletons True / False are accepted ("value is not True and value is not False") *)
Definition assign (state : bool) (v : pyval) : bool * outcome :=
  match v with
  | PyTrue => (true, Done)
  | PyFalse => (false, Done)
  | _ => (state, ValueError)
  end.
Definition run_assign (vs : list pyval) : bool := fold_left (fun s v => fst (assign s v)) vs true.

(* numpy.allclose(a, b, rtol, atol) entrywise: |a - b| <= atol + rtol |b| *)
Definition close (rtol atol a b : R) : Prop := Rabs (a - b) <= atol + rtol * Rabs b.
Definition allclose_I (rtol atol : R) (M : M3) : Prop :=
  close rtol atol (m00 M) 1 /\ close rtol atol (m01 M) 0 /\ close rtol atol (m02 M) 0 /\
  close rtol atol (m10 M) 0 /\ close rtol atol (m11 M) 1 /\ close rtol atol (m12 M) 0 /\
  close rtol atol (m20 M) 0 /\ close rtol atol (m21 M) 0 /\ close rtol atol (m22 M) 1.

Definition rtol : R := 1 / 100000.
Definition atol_unitary : R := 1 / 1000000.
Definition atol_det : R := 1 / 100000000.
Definition check_rotation (U : M3) : Prop :=
  allclose_I rtol atol_unitary (mmul (mtrans U) U) /\ close rtol atol_det (mdet U) 1.

Definition check_euler (p1 P p2 : R) : Prop := 0 <= p1 <= 2 * PI /\ 0 <= P <= 2 * PI /\ 0 <= p2 <= 2 * PI.
Definition check_ubi (A : M3) : Prop := 0 <= vdot (mrow2 A) (vcross (mrow0 A) (mrow1 A)).

(* a guard site: `if CHECKS.activated: check(x)` followed by the computation *)
Inductive result (Y : Type) := Value (y : Y) | Raised.
Arguments Value {Y}. Arguments Raised {Y}.
Definition guarded {X Y} (on : bool) (ok : X -> bool) (f : X -> Y) (x : X) : result Y :=
  if on && negb (ok x) then Raised else Value (f x).

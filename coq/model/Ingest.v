(* Hand models (ASCII strings) of the text handling in structure.build_atomlist: remove_esd, the PDB space-group symbol clean-up,
   fixed-column slicing and whitespace stripping.  Numbers are parsed by an oracle [pf] standing for Python's float().  No proofs here. *)
From Coq Require Import List Bool Ascii String Arith.
From XV Require Import SGroup.
Import ListNotations.
Open Scope string_scope.

(* a[:a.find('(')] when a contains '(' , else a *)
Fixpoint take_until_paren (s : string) : string :=
  match s with
  | EmptyString => EmptyString
  | String c r => if Ascii.eqb c "("%char then EmptyString else String c (take_until_paren r)
  end.
Definition remove_esd {X} (pf : string -> option X) (a : string) : option X := pf (take_until_paren a).

(* str.split(): maximal runs of non-whitespace characters *)
Fixpoint split_ws_aux (s : string) (cur : string) : list string :=
  match s with
  | EmptyString => if String.eqb cur "" then [] else [cur]
  | String c r => if is_ws c then (if String.eqb cur "" then split_ws_aux r "" else cur :: split_ws_aux r "")
                  else split_ws_aux r (cur ++ String c "")
  end.
Definition split_ws (s : string) : list string := split_ws_aux s "".

Fixpoint lower_str (s : string) : string :=
  match s with EmptyString => EmptyString | String c r => String (lower_ascii c) (lower_str r) end.

(* PDBread: sgtmp = sg.split(); keep the tokens != '1', lower-cased, concatenated *)
Definition pdb_sg (field : string) : string :=
  fold_right (fun t acc => lower_str t ++ acc) "" (filter (fun t => negb (String.eqb t "1")) (split_ws field)).

(* Python slice s[a:b] on a string (clamped) *)
Fixpoint drop (n : nat) (s : string) : string := match n, s with 0, _ => s | S k, String _ r => drop k r | _, EmptyString => EmptyString end.
Fixpoint take (n : nat) (s : string) : string := match n, s with 0, _ => EmptyString | S k, String c r => String c (take k r) | _, EmptyString => EmptyString end.
Definition slice (a b : nat) (s : string) : string := take (b - a) (drop a s).

(* re.sub("\s+", "", x) *)
Fixpoint strip_ws (s : string) : string :=
  match s with EmptyString => EmptyString | String c r => if is_ws c then strip_ws r else String c (strip_ws r) end.

Fixpoint upper_str (s : string) : string :=
  match s with EmptyString => EmptyString
  | String c r => let n := nat_of_ascii c in String (if (Nat.leb 97 n && Nat.leb n 122)%bool then ascii_of_nat (n - 32) else c) (upper_str r) end.

(* the symbol PDBread stores: the complete symbol when the name dictionary knows it, else with the '1' place-holders dropped *)
Definition pdb_sgname (keys : list string) (field : string) : string :=
  let full := lower_str (fold_right (fun t acc => t ++ acc) "" (split_ws field)) in
  if existsb (String.eqb full) keys then full else pdb_sg field.

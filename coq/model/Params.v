(* Hand model of xfab.parameters.parameters as a state machine over association lists (Python dict = insertion-ordered map),
   with the file format of saveparameters / loadparameters.  Python's float()/int()/str() on numbers are abstract functions
   (Section variables) constrained only by the hypotheses stated with the theorems.  No proofs in this file. *)
From Coq Require Import ZArith List Bool Ascii String.
From XV Require Import SGroup Ingest.
Import ListNotations.
Open Scope string_scope.

Section Params.
Variable F : Type.                               (* Python floats *)
Variable print_f : F -> string.                  (* str(float) *)
Variable print_i : Z -> string.                  (* str(int) *)
Variable parse_f : string -> option F.           (* float(s), None = ValueError *)
Variable parse_i : string -> option Z.           (* int(s), None = ValueError *)

Inductive value := VInt (z : Z) | VFloat (f : F) | VStr (s : string).

Definition dict := list (string * value).
Fixpoint lookup (d : dict) (k : string) : option value :=
  match d with [] => None | (k', v) :: r => if String.eqb k' k then Some v else lookup r k end.
Fixpoint upd (d : dict) (k : string) (v : value) : dict :=
  match d with
  | [] => [(k, v)]
  | (k', v') :: r => if String.eqb k' k then (k', v) :: r else (k', v') :: upd r k v
  end.
Definition has (l : list string) (k : string) : bool := existsb (String.eqb k) l.

Record st := mkSt { pars : dict; varylist : list string; variable_list : list string }.
Definition init : st := mkSt [] [] [].

(* str.lstrip().rstrip() *)
Fixpoint lstrip (s : string) : string := match s with String c r => if is_ws c then lstrip r else s | EmptyString => EmptyString end.
Fixpoint rev_str (s acc : string) : string := match s with EmptyString => acc | String c r => rev_str r (String c acc) end.
Definition strip (s : string) : string := rev_str (lstrip (rev_str (lstrip s) "")) "".

(* dumbtypecheck on one value *)
Definition coerce (v : value) : value :=
  match v with
  | VStr s => match parse_f s with
              | None => VStr (strip s)
              | Some f => match parse_i s with Some z => VInt z | None => VFloat f end
              end
  | _ => v
  end.

Inductive op :=
| Addpar (k : string) (v : value) (vary can_vary : bool)
| SetV (k : string) (v : value)
| SetParameters (l : list (string * value))
| SetVarylist (vl : list string)
| SetVariableValues (vals : list value)
| UpdateYourself (other : list (string * value)).

Inductive outcome := Ok | AssertionError.

Definition step (s : st) (o : op) : st * outcome :=
  match o with
  | Addpar k v vy cv =>
      (mkSt (upd (pars s) k v)
            (if vy && negb (has (varylist s) k) then varylist s ++ [k] else varylist s)
            (if cv && negb (has (variable_list s) k) then variable_list s ++ [k] else variable_list s), Ok)
  | SetV k v => (mkSt (upd (pars s) k v) (varylist s) (variable_list s), Ok)
  | SetParameters l =>
      let d := fold_left (fun d kv => upd d (fst kv) (snd kv)) l (pars s) in
      (mkSt (map (fun kv => (fst kv, coerce (snd kv))) d) (varylist s) (variable_list s), Ok)
  | SetVarylist vl =>
      if forallb (fun v => match lookup (pars s) v with Some _ => true | None => false end && has (variable_list s) v) vl
      then (mkSt (pars s) vl (variable_list s), Ok) else (s, AssertionError)
  | SetVariableValues vals =>
      if Nat.eqb (List.length vals) (List.length (varylist s))
      then (mkSt (fold_left (fun d kv => upd d (fst kv) (snd kv)) (combine (varylist s) vals) (pars s)) (varylist s) (variable_list s), Ok)
      else (s, AssertionError)
  | UpdateYourself other =>
      (mkSt (map (fun kv => match lookup other (fst kv) with Some v => (fst kv, v) | None => kv end) (pars s)) (varylist s) (variable_list s), Ok)
  end.

Definition run (ops : list op) : st := fold_left (fun s o => fst (step s o)) ops init.
Definition get (s : st) (k : string) : option value := lookup (pars s) k.
Definition get_variable_values (s : st) : list (option value) := map (lookup (pars s)) (varylist s).

(* ---- the file format ------------------------------------------------------------------------------------------------ *)
Definition print_v (v : value) : string := match v with VInt z => print_i z | VFloat f => print_f f | VStr s => s end.
Definition nl : string := String (ascii_of_nat 10) EmptyString.
(* "%s %s\n" % (key, str(value)) ; keys are written sorted, the order does not matter for loading *)
Definition save_lines (d : dict) : list string := map (fun kv => fst kv ++ " " ++ print_v (snd kv) ++ nl) d.

(* line.split(" ") *)
Fixpoint split_sp (s cur : string) : list string :=
  match s with
  | EmptyString => [cur]
  | String c r => if Ascii.eqb c " "%char then cur :: split_sp r "" else split_sp r (cur ++ String c "")
  end.
Fixpoint hyphen_to_underscore (s : string) : string :=
  match s with EmptyString => EmptyString | String c r => String (if Ascii.eqb c "-"%char then "_"%char else c) (hyphen_to_underscore r) end.

Definition load_line (d : dict) (line : string) : dict :=
  match split_sp line "" with
  | [name; v] => upd d (hyphen_to_underscore name) (VStr v)
  | _ => d                                          (* ValueError: logged, line skipped *)
  end.
Definition load (d : dict) (lines : list string) : dict :=
  map (fun kv => (fst kv, coerce (snd kv))) (fold_left load_line lines d).
End Params.

(* C05/C06: executable definitions relating the reflection conditions (sysabs, AST-translated), the operator tables and
   the traversal segments of genhkl_base.  Hand-written; no proofs in this file. *)
From Coq Require Import ZArith List Bool String.
From XV Require Import SGroup.
Import ListNotations.
Open Scope Z_scope.

Definition hkl := (Z * Z * Z)%type.
Definition dot3z (h : hkl) (t : Z * Z * Z) : Z := let '(a, b, c) := h in let '(x, y, z) := t in a * x + b * y + c * z.
Definition hkl_eqb (a b : hkl) : bool := let '(x, y, z) := a in let '(x', y', z') := b in (x =? x') && (y =? y') && (z =? z').

(* extinct by the group's own operations: some (R, t) with h R = h and h.t not an integer (t in twelfths) *)
Definition extinct (ops : list op) (h : hkl) : bool :=
  existsb (fun o => let '(R, t) := o in hkl_eqb (vmZ h R) h && negb ((dot3z h t) mod 12 =? 0)) ops.

(* segment tables: the entry selected by the sequence of `if` statements (the last matching one) *)
Definition seg_matches (laue choice : string) (e : string * option bool * list (list (list Z))) : bool :=
  let '(l, rh, _) := e in
  String.eqb l laue &&
  match rh with
  | None => true
  | Some true => String.eqb choice "rhombohedral"%string
  | Some false => negb (String.eqb choice "rhombohedral"%string)
  end.
Definition lookup_segm (tab : list (string * option bool * list (list (list Z)))) (laue choice : string) : option (list (list (list Z))) :=
  match filter (seg_matches laue choice) tab with
  | [] => None
  | l => Some (snd (last l (EmptyString, None, [])))
  end.

Definition vec3 (l : list Z) : hkl := (nth 0 l 0, nth 1 l 0, nth 2 l 0).
(* h = s0 + a d1 + b d2 + c d3 with integers a, b, c >= 0 (Cramer; the direction matrix must be unimodular) *)
Definition in_region (seg : list (list Z)) (h : hkl) : bool :=
  let '(sx, sy, sz) := vec3 (nth 0 seg []) in
  let '(a1, a2, a3) := vec3 (nth 1 seg []) in
  let '(b1, b2, b3) := vec3 (nth 2 seg []) in
  let '(c1, c2, c3) := vec3 (nth 3 seg []) in
  let '(x, y, z) := h in
  let '(vx, vy, vz) := (x - sx, y - sy, z - sz) in
  let det := a1 * (b2 * c3 - b3 * c2) - a2 * (b1 * c3 - b3 * c1) + a3 * (b1 * c2 - b2 * c1) in
  (* v = a A + b B + c C  ->  a = det[v;B;C]/det, ... *)
  let na := vx * (b2 * c3 - b3 * c2) - vy * (b1 * c3 - b3 * c1) + vz * (b1 * c2 - b2 * c1) in
  let nb := a1 * (vy * c3 - vz * c2) - a2 * (vx * c3 - vz * c1) + a3 * (vx * c2 - vy * c1) in
  let nc := a1 * (b2 * vz - b3 * vy) - a2 * (b1 * vz - b3 * vx) + a3 * (b1 * vy - b2 * vx) in
  ((det =? 1) || (det =? -1)) && (0 <=? na * det) && (0 <=? nb * det) && (0 <=? nc * det).

Definition box (H : Z) : list hkl :=
  let r := map (fun i => Z.of_nat i - H) (seq 0 (Z.to_nat (2 * H + 1))) in
  flat_map (fun x => flat_map (fun y => map (fun z => (x, y, z)) r) r) r.

Definition unimodular_segs (segs : list (list (list Z))) : bool :=
  forallb (fun seg => in_region seg (vec3 (nth 0 seg []))) segs.

Section WithSysabs.
Variable sysabs : list Z -> list Z -> string -> string -> Z.

(* on the traversal's asymmetric unit: sysabs says "allowed" exactly when no operation extinguishes the reflection *)
Definition sysabs_ok (tab : list (string * option bool * list (list (list Z)))) (H : Z) (s : sgrec) : bool :=
  match ops_of (sg_rot s) (sg_trans s), lookup_segm tab (sg_laue s) (sg_choice s) with
  | Some ops, Some segs =>
      unimodular_segs segs &&
      forallb (fun h => if existsb (fun seg => in_region seg h) segs && negb (hkl_eqb h (0, 0, 0))
                        then Bool.eqb (sysabs (let '(x, y, z) := h in [x; y; z]) (sg_syscond s) (sg_csys s) (sg_choice s) =? 0) (negb (extinct ops h))
                        else true) (box H)
  | _, _ => false
  end.
End WithSysabs.

(* extinction is a property of the Laue orbit: h extinct <-> h R extinct, -h extinct *)
Definition extinct_invariant (H : Z) (s : sgrec) : bool :=
  match ops_of (sg_rot s) (sg_trans s) with
  | Some ops =>
      let rots := firstn (Z.to_nat (sg_nuniq s)) (map fst ops) in
      forallb (fun h => forallb (fun R => Bool.eqb (extinct ops (vmZ h R)) (extinct ops h)) rots
                        && Bool.eqb (extinct ops (let '(x, y, z) := h in (- x, - y, - z))) (extinct ops h)) (box H)
  | None => false
  end.

(* Hand model of the Le Page & Gabe traversal in genhkl_base (one segment = three nested loops) over an exact integer
   reciprocal metric: q h = h' Gs h is a positive multiple of (sin(theta)/lambda)^2.  Explicit fuel; None = fuel exhausted.
   Assumes sintlmin >= 0 (then the bookkeeping that skips the very first visited point, hkl = 000, has no effect).
   No proofs in this file. *)
From Coq Require Import ZArith List Bool String.
From XV Require Import SGroup HklModel.
Import ListNotations.
Open Scope Z_scope.

Record metricZ := mkMet { g11 : Z; g22 : Z; g33 : Z; g12 : Z; g13 : Z; g23 : Z }.
Definition qform (G : metricZ) (h : hkl) : Z :=
  let '(x, y, z) := h in
  g11 G * x * x + g22 G * y * y + g33 G * z * z + 2 * (g12 G * x * y + g13 G * x * z + g23 G * y * z).
Definition hadd (a b : hkl) : hkl := let '(x, y, z) := a in let '(x', y', z') := b in (x + x', y + y', z + z').

Section Trav.
Variable G : metricZ.
Variables Tmin Tmax Tterm : Z.          (* Tmin < q <= Tmax is the shell; q <= Tterm keeps a loop going (Tterm = scale^2 Tmax) *)
Variable allowed : hkl -> bool.         (* sysabs(...) == 0 *)

Definition keep (h : hkl) : bool := allowed h && (Tmin <? qform G h) && (qform G h <=? Tmax).

Fixpoint hloop (fuel : nat) (d1 : hkl) (h : hkl) : option (list hkl) :=
  match fuel with
  | O => None
  | S f =>
      let here := if keep h then [h] else [] in
      let h' := hadd h d1 in
      if qform G h' <=? Tterm then option_map (app here) (hloop f d1 h') else Some here
  end.

Fixpoint kloop (fuel fh : nat) (d1 d2 : hkl) (b : hkl) : option (list hkl) :=
  match fuel with
  | O => None
  | S f =>
      match hloop fh d1 b with
      | None => None
      | Some row =>
          let b' := hadd b d2 in
          if Tterm <? qform G b' then Some row else option_map (app row) (kloop f fh d1 d2 b')
      end
  end.

Fixpoint lloop (fuel fk fh : nat) (d1 d2 d3 : hkl) (c : hkl) : option (list hkl) :=
  match fuel with
  | O => None
  | S f =>
      match kloop fk fh d1 d2 c with
      | None => None
      | Some rows =>
          let c' := hadd c d3 in
          if Tterm <? qform G c' then Some rows else option_map (app rows) (lloop f fk fh d1 d2 d3 c')
      end
  end.

Definition segment (fuel : nat) (seg : list (list Z)) : option (list hkl) :=
  lloop fuel fuel fuel (vec3 (nth 1 seg [])) (vec3 (nth 2 seg [])) (vec3 (nth 3 seg [])) (vec3 (nth 0 seg [])).

Fixpoint all_segments (fuel : nat) (segs : list (list (list Z))) : option (list hkl) :=
  match segs with
  | [] => Some []
  | s :: r => match segment fuel s, all_segments fuel r with
              | Some a, Some b => Some (a ++ b)
              | _, _ => None
              end
  end.
End Trav.

(* genhkl_unique / genhkl_base for a setting *)
Definition base_model (sysabs : list Z -> list Z -> string -> string -> Z) (tab : list (string * option bool * list (list (list Z))))
           (fuel : nat) (G : metricZ) (Tmin Tmax Tterm : Z) (s : sgrec) : option (list hkl) :=
  match lookup_segm tab (sg_laue s) (sg_choice s) with
  | Some segs => all_segments G Tmin Tmax Tterm
                   (fun h => sysabs (let '(x, y, z) := h in [x; y; z]) (sg_syscond s) (sg_csys s) (sg_choice s) =? 0) fuel segs
  | None => None
  end.

(* genhkl_all: every representative expanded by the point-group rotations and their negatives, duplicates removed *)
Fixpoint dedup_hkl (l seen : list hkl) : list hkl :=
  match l with
  | [] => seen
  | h :: r => if existsb (hkl_eqb h) seen then dedup_hkl r seen else dedup_hkl r (seen ++ [h])
  end.
Definition expand (rots : list mat) (h : hkl) : list hkl :=
  dedup_hkl (map (fun R => vmZ h R) rots ++ map (fun R => vmZ h (mnegZ R)) rots) [].
Definition all_model (sysabs : list Z -> list Z -> string -> string -> Z) tab fuel G Tmin Tmax Tterm (s : sgrec) : option (list hkl) :=
  match base_model sysabs tab fuel G Tmin Tmax Tterm s, all_mats (firstn (Z.to_nat (sg_nuniq s)) (sg_rot s)) with
  | Some reps, Some rots => Some (flat_map (expand rots) reps)
  | _, _ => None
  end.

(* Hand model of xfab.structure.multiplicity (executable, exact integer arithmetic), and the orbit-size specification.
   Positions are given in 24ths (a superset of the property's rational grid); translations are the tabulated millionths.
   Everything is scaled by 24*10^6 so that one lattice translation is UNIT.  No proofs in this file. *)
From Coq Require Import ZArith List Bool.
From XV Require Import SGroup.
Import ListNotations.
Open Scope Z_scope.

Definition UNIT : Z := 24000000.
Definition TOL : Z := 240.            (* 0.00001 in the same units *)
Definition pt := (Z * Z * Z)%type.

(* image of position p (in 24ths) under an operation of the table: R p + t, as the code computes it *)
Definition image (R : mat) (t : list Z) (p : pt) : pt :=
  let '(x, y, z) := mvZ R p in
  (x * 1000000 + nth 0 t 0 * 24, y * 1000000 + nth 1 t 0 * 24, z * 1000000 + nth 2 t 0 * 24).

(* n.minimum(mod(a-b,1), 1-mod(a-b,1)) per coordinate; n.sum(...) < 0.00001 *)
Definition dist1 (a b : Z) : Z := let d := (a - b) mod UNIT in Z.min d (UNIT - d).
Definition close (a b : pt) : bool :=
  let '(x, y, z) := a in let '(x', y', z') := b in dist1 x x' + dist1 y y' + dist1 z z' <? TOL.

(* the loop: an image is appended to the list of unique ones unless it is close to one already kept; the first image is kept *)
Fixpoint uniq_count (imgs kept : list pt) : nat :=
  match imgs with
  | [] => length kept
  | a :: r => if existsb (close a) kept then uniq_count r kept else uniq_count r (kept ++ [a])
  end.

Definition images (s : sgrec) (p : pt) : option (list pt) :=
  match all_mats (sg_rot s) with
  | Some Rs => if Nat.eqb (length Rs) (length (sg_trans s))
               then Some (map (fun Rt => image (fst Rt) (snd Rt) p) (combine Rs (sg_trans s))) else None
  | None => None
  end.
Definition model_mult (s : sgrec) (p : pt) : option nat :=
  match images s p with Some l => Some (uniq_count l []) | None => None end.

(* ---- specification: number of distinct points R p + t modulo the lattice, translations snapped to twelfths (exact) --- *)
Definition key := (Z * Z * Z)%type.
Definition key_eqb (a b : key) : bool :=
  let '(x, y, z) := a in let '(x', y', z') := b in (x =? x') && (y =? y') && (z =? z').
Fixpoint dedup (l seen : list key) : nat :=
  match l with
  | [] => length seen
  | k :: r => if existsb (key_eqb k) seen then dedup r seen else dedup r (seen ++ [k])
  end.
Definition orbit_point (o : op) (p : pt) : key :=
  let '(R, (a, b, c)) := o in let '(x, y, z) := mvZ R p in ((x + 2 * a) mod 24, (y + 2 * b) mod 24, (z + 2 * c) mod 24).
Definition orbit_size (ops : list op) (p : pt) : nat := dedup (map (fun o => orbit_point o p) ops) [].

(* tables: every tabulated translation is within 4e-7 of a twelfth (the 6-digit rounding of thirds and sixths) *)
Definition near12 (m : Z) : bool := let k := (m * 12 + 500000) / 1000000 in Z.abs (m * 12 - k * 1000000) <=? 4.
Definition trans_tight (s : sgrec) : bool :=
  forallb (fun t => match t with [a; b; c] => near12 a && near12 b && near12 c | _ => false end) (sg_trans s).

(* Hand model of the final step of genhkl_base / genhkl_all: `H = H[argsort(H, 0)[:, 3], :]` - the rows are put in the order of their fourth column, sin(theta)/lambda.
   On cells with an integer reciprocal metric sin(theta)/lambda = sqrt(q(h)/S)/2 with q the integer quadratic form, so the order is that of q.  (The relative order of
   rows with equal q is argsort's business and is not modelled: the correspondence compares the sequence of q values.)  No proofs here. *)
From Coq Require Import ZArith List Bool.
From XV Require Import SGroup HklModel Traverse.
Import ListNotations.
Open Scope Z_scope.

Fixpoint insq (G : metricZ) (a : hkl) (l : list hkl) : list hkl :=
  match l with
  | [] => [a]
  | b :: r => if qform G a <=? qform G b then a :: l else b :: insq G a r
  end.
Definition sortq (G : metricZ) (l : list hkl) : list hkl := fold_right (insq G) [] l.

(* the sequence of sort keys of the model's sorted output against the keys of the implementation's rows in the order it returned them *)
Definition keyseq_ok (G : metricZ) (m : option (list hkl)) (impl_rows : list hkl) : bool :=
  match m with
  | Some l => list_eqb Z.eqb (map (qform G) (sortq G l)) (map (qform G) impl_rows)
  | None => false
  end.

(* Specification side of C01: the metric tensor written directly from the six cell parameters. *)
From Coq Require Import Reals Lra.
From XV Require Import Mat3.
Open Scope R_scope.

Definition rad (d : R) : R := d * PI / 180.

Definition metric (c : V6) : M3 :=
  let a := c0 c in let b := c1 c in let cc := c2 c in
  let ca := cos (rad (c3 c)) in let cb := cos (rad (c4 c)) in let cg := cos (rad (c5 c)) in
  mkM3 (a * a) (a * b * cg) (a * cc * cb)
       (a * b * cg) (b * b) (b * cc * ca)
       (a * cc * cb) (b * cc * ca) (cc * cc).

Definition gram (c : V6) : R :=
  let ca := cos (rad (c3 c)) in let cb := cos (rad (c4 c)) in let cg := cos (rad (c5 c)) in
  1 - ca * ca - cb * cb - cg * cg + 2 * ca * cb * cg.

Definition valid_cell (c : V6) : Prop :=
  0 < c0 c /\ 0 < c1 c /\ 0 < c2 c /\
  0 < c3 c < 180 /\ 0 < c4 c < 180 /\ 0 < c5 c < 180 /\ 0 < gram c.

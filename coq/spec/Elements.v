(* Specification side of C16: the atomic number of each element symbol (upper case, as xfab spells them). *)
From Coq Require Import ZArith List String.
Import ListNotations.
Open Scope string_scope.

Definition elements : list string :=
  ["H"; "HE"; "LI"; "BE"; "B"; "C"; "N"; "O"; "F"; "NE"; "NA"; "MG"; "AL"; "SI"; "P"; "S"; "CL"; "AR"; "K"; "CA";
   "SC"; "TI"; "V"; "CR"; "MN"; "FE"; "CO"; "NI"; "CU"; "ZN"; "GA"; "GE"; "AS"; "SE"; "BR"; "KR"; "RB"; "SR"; "Y";
   "ZR"; "NB"; "MO"; "TC"; "RU"; "RH"; "PD"; "AG"; "CD"; "IN"; "SN"; "SB"; "TE"; "I"; "XE"; "CS"; "BA"; "LA"; "CE";
   "PR"; "ND"; "PM"; "SM"; "EU"; "GD"; "TB"; "DY"; "HO"; "ER"; "TM"; "YB"; "LU"; "HF"; "TA"; "W"; "RE"; "OS"; "IR";
   "PT"; "AU"; "HG"; "TL"; "PB"; "BI"; "PO"; "AT"; "RN"; "FR"; "RA"; "AC"; "TH"; "PA"; "U"; "NP"; "PU"].

Fixpoint index_of (s : string) (l : list string) (k : Z) : option Z :=
  match l with
  | [] => None
  | x :: r => if String.eqb x s then Some k else index_of s r (k + 1)%Z
  end.
Definition atomic_number (s : string) : option Z := index_of s elements 1%Z.

(* C08 - the structure factor equals the explicit sum over the unit-cell contents.
   SF is the double sum around the summand regenerated from structure.StructureFactor (see C07); SF_explicit sums, for each atom, over
   one operation per distinct site of the cell (cell_sites: positions compared by their fractional parts) the term
   occupancy x DW x (f + f' + i f'') x exp(2 pi i h.r).  The atom's multiplicity must be the number of its sites and an anisotropic
   tensor must have the symmetry of its site (adp_ok) - exactly the hypotheses under which the code's occ*symmulti/nsymop weighting is right.
   group_like: identity present, rotations integer unimodular, closed under left composition modulo the lattice (every table: finite check). *)
From Coq Require Import Reals ZArith List.
From XV Require Import RealLib Mat3 Cplx Cell SGroup SGLeft Orbit Tab_sg_all Gen_tools Gen_structure P07 P07_gen P07_tab P07_main P08_orbit P08 P08_main.
Import ListNotations.
Open Scope R_scope.

Theorem C08_classes_have_equal_size : forall x ops, group_like ops -> exists m, forall p, In p ops -> ccnt x (sitekey x p) ops = m.
Proof. exact uniform_classes. Qed.
Print Assumptions C08_classes_have_equal_size.
Theorem C08_sites_listed_once : forall x ops p, In p ops -> ccnt x (sitekey x p) (cell_sites x ops) = 1%nat.
Proof. exact cell_sites_distinct. Qed.
Print Assumptions C08_sites_listed_once.
Theorem C08_same_site_iff_lattice_translate : forall x p q, sitekey x p = sitekey x q <-> latt_eq (apply_op p x) (apply_op q x).
Proof. exact sitekey_iff. Qed.
Print Assumptions C08_same_site_iff_lattice_translate.
Theorem C08_equals_explicit_sum : forall c ops atoms h, int_vec h -> group_like ops ->
  (forall a, In a atoms -> adp_ok c ops a /\ a_multi a = INR (length (cell_sites (a_pos a) ops))) ->
  SF c ops atoms h = SF_explicit c ops atoms h.
Proof. exact SF_is_explicit_sum. Qed.
Print Assumptions C08_equals_explicit_sum.
Theorem C08_tables_explicit_sum : forall s ops c atoms h, In s all_settings -> ops_of (sg_rot s) (sg_trans s) = Some ops -> int_vec h ->
  (forall a, In a atoms -> adp_ok c (map opR ops) a /\ a_multi a = INR (length (cell_sites (a_pos a) (map opR ops)))) ->
  SF c (map opR ops) atoms h = SF_explicit c (map opR ops) atoms h.
Proof. exact table_explicit_sum. Qed.
Print Assumptions C08_tables_explicit_sum.
Theorem C08_tables_are_groups : forall s ops, In s all_settings -> ops_of (sg_rot s) (sg_trans s) = Some ops -> group_like (map opR ops).
Proof. exact table_group_like. Qed.
Print Assumptions C08_tables_are_groups.
Theorem C08_lattice_shift : forall c ops a L rest h, int_vec h -> int_vec L -> int_ops ops ->
  SF c ops (set_pos a (vadd (a_pos a) L) :: rest) h = SF c ops (a :: rest) h.
Proof. exact SF_lattice_shift. Qed.
Print Assumptions C08_lattice_shift.
Theorem C08_tables_lattice_shift : forall (ops : list op) c a L rest h, int_vec h -> int_vec L ->
  SF c (map opR ops) (set_pos a (vadd (a_pos a) L) :: rest) h = SF c (map opR ops) (a :: rest) h.
Proof. exact table_lattice_shift. Qed.
Print Assumptions C08_tables_lattice_shift.
Theorem C08_additive_over_atoms : forall c ops l1 l2 h, SF c ops (l1 ++ l2) h = cadd (SF c ops l1 h) (SF c ops l2 h).
Proof. exact SF_app. Qed.
Print Assumptions C08_additive_over_atoms.
Theorem C08_linear_in_occupancy : forall c ops a s h, SF c ops [set_occ a (s * a_occ a)] h = cscale s (SF c ops [a] h).
Proof. exact SF_occ_linear. Qed.
Print Assumptions C08_linear_in_occupancy.
Theorem C08_uiso_equals_equivalent_uani : forall c ops a U rest h, valid_cell c ->
  (forall o, In o ops -> mmul (fst o) (mmul (metric (tools_cell_invert c)) (mtrans (fst o))) = metric (tools_cell_invert c)) ->
  SF c ops (set_adp a (Uani (iso_as_ani c U)) :: rest) h = SF c ops (set_adp a (Uiso U) :: rest) h.
Proof. exact SF_iso_equals_ani. Qed.
Print Assumptions C08_uiso_equals_equivalent_uani.
Theorem C08_F000 : forall c ops atoms, valid_cell c -> ops <> [] -> (forall a, In a atoms -> zero_adp a) ->
  SF c ops atoms v0 = csum (map (fun a => cscale (a_occ a * a_multi a) (a_ff a 0 + a_fp a, a_fpp a)) atoms).
Proof. exact SF_000. Qed.
Print Assumptions C08_F000.
Theorem C08_loop_skeleton_two_atoms_partial_dispersion : forall h c Rm t x1 x2 U1 occ1 occ2 m1 m2 ff1 ff2 fp fpp,
  c_of (structure_sf_two_atoms h c Rm t x1 x2 U1 occ1 occ2 m1 m2 (INR 1) (ff1 (tools_sintl c h)) (ff2 (tools_sintl c h)) fp fpp)
  = SF c [(Rm, t)] [mkAtom x1 (Uiso U1) occ1 m1 ff1 fp fpp; mkAtom x2 NoAdp occ2 m2 ff2 0 0] h.
Proof. exact two_atoms_is_SF. Qed.
Print Assumptions C08_loop_skeleton_two_atoms_partial_dispersion.
Theorem C08_loop_skeleton_two_operations : forall h c R1 t1 R2 t2 x adp occ m ff fp fpp,
  c_of (structure_sf_two_ops h c R1 t1 R2 t2 x adp occ m (INR 2) (ff (tools_sintl c h)) fp fpp)
  = SF c [(R1, t1); (R2, t2)] [mkAtom x (Uani adp) occ m ff fp fpp] h.
Proof. exact two_ops_is_SF. Qed.
Print Assumptions C08_loop_skeleton_two_operations.
Theorem C08_nonvacuous : exists s ops, sg14 = Some s /\ ops_of (sg_rot s) (sg_trans s) = Some ops /\
  forall c x U occ ff fp fpp h, int_vec h ->
    let a := mkAtom x (Uiso U) occ (INR (length (cell_sites x (map opR ops)))) ff fp fpp in
    SF c (map opR ops) [a] h = SF_explicit c (map opR ops) [a] h.
Proof. exact explicit_hypotheses_satisfiable. Qed.
Print Assumptions C08_nonvacuous.

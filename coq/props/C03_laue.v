(* C03 (xfab.laue) - every orientation parametrisation yields a proper rotation equal to the documented composition;
   Rodrigues maps invert.  Definitions laue_* are regenerated from /repo/xfab/laue.py on every run. *)
From Coq Require Import Reals.
From XV Require Import RealLib Mat3 Atan2 Gen_laue P03_laue P03_euler P03_band P03_gimbal.
Open Scope R_scope.

Theorem C03_laue_euler_is_RzRxRz : forall p1 P p2, laue_euler_to_u p1 P p2 = mmul (Rz p1) (mmul (Rx P) (Rz p2)).
Proof. exact laue_euler_comp. Qed.
Print Assumptions C03_laue_euler_is_RzRxRz.
Theorem C03_laue_euler_rot : forall p1 P p2, is_rot (laue_euler_to_u p1 P p2).
Proof. exact laue_euler_rot. Qed.
Print Assumptions C03_laue_euler_rot.
Theorem C03_laue_omega_is_Rz : forall w, laue_form_omega_mat w = Rz w.
Proof. exact laue_omega_comp. Qed.
Print Assumptions C03_laue_omega_is_Rz.
Theorem C03_laue_omega_general_is_RxRyRz : forall w chi wedge,
  laue_form_omega_mat_general w chi wedge = mmul (Rx chi) (mmul (Ry wedge) (Rz w)).
Proof. exact laue_omega_general_comp. Qed.
Print Assumptions C03_laue_omega_general_is_RxRyRz.
Theorem C03_laue_omega_general_rot : forall w chi wedge, is_rot (laue_form_omega_mat_general w chi wedge).
Proof. exact laue_omega_general_rot. Qed.
Print Assumptions C03_laue_omega_general_rot.
Theorem C03_laue_tilt_is_RxRyRz : forall tx ty tz, laue_detect_tilt tx ty tz = mmul (Rx tx) (mmul (Ry ty) (Rz tz)).
Proof. exact laue_tilt_comp. Qed.
Print Assumptions C03_laue_tilt_is_RxRyRz.
Theorem C03_laue_tilt_rot : forall tx ty tz, is_rot (laue_detect_tilt tx ty tz).
Proof. exact laue_tilt_rot. Qed.
Print Assumptions C03_laue_tilt_rot.
Theorem C03_laue_quart_is_PRzPt : forall w wx wy,
  laue_quart_to_omega w wx wy = mmul (mmul (Rx wx) (Ry wy)) (mmul (Rz (w * PI / 180)) (mtrans (mmul (Rx wx) (Ry wy)))).
Proof. exact laue_quart_comp. Qed.
Print Assumptions C03_laue_quart_is_PRzPt.
Theorem C03_laue_quart_rot : forall w wx wy, is_rot (laue_quart_to_omega w wx wy).
Proof. exact laue_quart_rot. Qed.
Print Assumptions C03_laue_quart_rot.
Theorem C03_laue_rod_rot : forall r, is_rot (laue_rod_to_u r).
Proof. exact laue_rod_rot. Qed.
Print Assumptions C03_laue_rod_rot.
Theorem C03_laue_rod_axis : forall r, mvmul (laue_rod_to_u r) r = r.
Proof. exact laue_rod_axis. Qed.
Print Assumptions C03_laue_rod_axis.
Theorem C03_laue_rod_angle : forall r, mtrace (laue_rod_to_u r) = 1 + 2 * cos (2 * atan (vnorm r)).
Proof. exact laue_rod_angle. Qed.
Print Assumptions C03_laue_rod_angle.
Theorem C03_laue_rod_passive : forall t, laue_rod_to_u (mkV3 0 0 t) = mtrans (Rz (2 * atan t)).
Proof. exact laue_rod_passive. Qed.
Print Assumptions C03_laue_rod_passive.
Theorem C03_laue_u_to_rod_inverts : forall r, vnorm2 r < 1000000000000000 -> laue_u_to_rod (laue_rod_to_u r) = Some r.
Proof. exact laue_u_to_rod_inv. Qed.
Print Assumptions C03_laue_u_to_rod_inverts.
Theorem C03_laue_rod_to_u_inverts : forall U r, is_rot U -> laue_u_to_rod U = Some r -> laue_rod_to_u r = U.
Proof. exact laue_rod_to_u_inv. Qed.
Print Assumptions C03_laue_rod_to_u_inverts.

(* u_to_euler: range of the returned angles; exact inverse of euler_to_u outside the code's own tolerance bands
   (not_gimbal: PHI and pi - PHI at least 1e-8; generic: neither argument of _arctan2 below 1e-8 of the other);
   inside the bands the behaviour is decided by the search on the implementation only. *)
Theorem C03_laue_euler_range : forall U e, laue_u_to_euler U = Some e -> 0 <= vx e <= 2 * PI /\ 0 <= vy e <= PI /\ 0 <= vz e <= 2 * PI.
Proof. exact euler_range. Qed.
Print Assumptions C03_laue_euler_range.
Theorem C03_laue_euler_inverts : forall U, is_rot U -> not_gimbal U -> generic (m02 U) (- m12 U) -> generic (m20 U) (m21 U) ->
  exists e, laue_u_to_euler U = Some e /\ laue_euler_to_u (vx e) (vy e) (vz e) = U.
Proof. exact euler_exact. Qed.
Print Assumptions C03_laue_euler_inverts.
Theorem C03_laue_euler_angles_recovered : forall p1 P p2, 0 <= p1 < 2 * PI -> 0 <= p2 < 2 * PI -> 0 < P < PI ->
  let U := laue_euler_to_u p1 P p2 in
  not_gimbal U -> generic (m02 U) (- m12 U) -> generic (m20 U) (m21 U) -> laue_u_to_euler U = Some (mkV3 p1 P p2).
Proof. exact euler_of_angles. Qed.
Print Assumptions C03_laue_euler_angles_recovered.
Theorem C03_euler_nonvacuous : let U := laue_euler_to_u 1 1 1 in is_rot U /\ not_gimbal U /\ generic (m02 U) (- m12 U) /\ generic (m20 U) (m21 U).
Proof. exact euler_111_generic. Qed.
Print Assumptions C03_euler_nonvacuous.

(* u_to_euler on EVERY rotation, whatever branch the code takes (gimbal bands, snapped _arctan2 arguments, generic): it never raises and
   every entry of euler_to_u(u_to_euler U) is within 1e-6 of U (mclose e A B: all nine |a_ij - b_ij| <= e) *)
Theorem C03_laue_euler_never_raises_on_rotations : forall U, is_rot U -> exists e, laue_u_to_euler U = Some e.
Proof. exact euler_total. Qed.
Print Assumptions C03_laue_euler_never_raises_on_rotations.
Theorem C03_laue_euler_roundtrip_every_rotation : forall U e, is_rot U -> laue_u_to_euler U = Some e ->
  mclose (1 / 1000000) (laue_euler_to_u (vx e) (vy e) (vz e)) U.
Proof. exact euler_roundtrip_all. Qed.
Print Assumptions C03_laue_euler_roundtrip_every_rotation.

(* C07 - structure factors transform correctly under the space-group operations.
   SF c ops atoms h is the double sum over atoms and operations of the summand regenerated from structure.StructureFactor
   (traced with one symbolic operation; uiso / uani / no-ADP variants), as a complex number (Freal, Fimg).
   ops ranges over arbitrary lists closed under left composition modulo lattice translations (general theorems) and over the
   tables regenerated from sglib (table theorems; closure is a finite kernel computation per setting). *)
From Coq Require Import Reals ZArith List.
From XV Require Import RealLib Mat3 Cplx Cell SGroup SGLeft Tab_sg_all Gen_tools Gen_structure P07 P07_gen P07_tab P07_main.
Open Scope R_scope.

Theorem C07_phase_shift : forall c ops atoms k h, int_vec h -> left_closed k ops ->
  tools_sintl c (rowmul h (fst k)) = tools_sintl c h ->
  SF c ops atoms (rowmul h (fst k)) = cmul (cis (- (2 * PI * vdot h (snd k)))) (SF c ops atoms h).
Proof. exact SF_phase_shift. Qed.
Print Assumptions C07_phase_shift.
Theorem C07_equivalent_reflections_same_modulus : forall c ops atoms k h, int_vec h -> left_closed k ops ->
  tools_sintl c (rowmul h (fst k)) = tools_sintl c h ->
  cnorm2 (SF c ops atoms (rowmul h (fst k))) = cnorm2 (SF c ops atoms h).
Proof. exact SF_equiv_modulus. Qed.
Print Assumptions C07_equivalent_reflections_same_modulus.
Theorem C07_extinct_reflections_vanish : forall c ops atoms k h, int_vec h -> left_closed k ops ->
  rowmul h (fst k) = h -> cis (- (2 * PI * vdot h (snd k))) <> c1 -> SF c ops atoms h = c0.
Proof. exact SF_extinct. Qed.
Print Assumptions C07_extinct_reflections_vanish.
Theorem C07_noninteger_phase_is_not_one : forall z r, 0 < r < 1 -> cis (- (2 * PI * (IZR z + r))) <> c1.
Proof. exact cis_not_one. Qed.
Print Assumptions C07_noninteger_phase_is_not_one.
Theorem C07_friedel_without_dispersion : forall c ops atoms h, valid_cell c ->
  (forall a, In a atoms -> a_fp a = 0 /\ a_fpp a = 0) -> SF c ops atoms (vneg h) = cconj (SF c ops atoms h).
Proof. exact SF_friedel. Qed.
Print Assumptions C07_friedel_without_dispersion.
Theorem C07_nodispersion_path_is_zero_dispersion : forall h c Rm t x U occ multi nsym f,
  structure_sf_term_nodisp h c Rm t x U occ multi nsym f = structure_sf_term_uiso h c Rm t x U occ multi nsym f 0 0.
Proof. exact sf_nodisp_is_uiso. Qed.
Print Assumptions C07_nodispersion_path_is_zero_dispersion.
Theorem C07_sintl_invariant_under_metric_preserving_op : forall c h Rk, valid_cell c -> mdet Rk <> 0 ->
  mmul (mtrans Rk) (mmul (metric c) Rk) = metric c -> tools_sintl c (rowmul h Rk) = tools_sintl c h.
Proof. exact sintl_metric_invariant. Qed.
Print Assumptions C07_sintl_invariant_under_metric_preserving_op.
Theorem C07_tables_closed_under_left_composition : forall s ops k, In s all_settings ->
  ops_of (sg_rot s) (sg_trans s) = Some ops -> In k ops -> left_closed (opR k) (map opR ops).
Proof. exact table_left_closed. Qed.
Print Assumptions C07_tables_closed_under_left_composition.
Theorem C07_tables_phase_shift : forall s ops k c atoms h, In s all_settings -> ops_of (sg_rot s) (sg_trans s) = Some ops -> In k ops ->
  int_vec h -> tools_sintl c (rowmul h (matR (fst k))) = tools_sintl c h ->
  SF c (map opR ops) atoms (rowmul h (matR (fst k)))
  = cmul (cis (- (2 * PI * vdot h (vecR12 (snd k))))) (SF c (map opR ops) atoms h).
Proof. exact table_phase_shift. Qed.
Print Assumptions C07_tables_phase_shift.
Theorem C07_tables_equivalent_modulus : forall s ops k c atoms h, In s all_settings -> ops_of (sg_rot s) (sg_trans s) = Some ops -> In k ops ->
  int_vec h -> valid_cell c -> mdet (matR (fst k)) <> 0 ->
  mmul (mtrans (matR (fst k))) (mmul (metric c) (matR (fst k))) = metric c ->
  cnorm2 (SF c (map opR ops) atoms (rowmul h (matR (fst k)))) = cnorm2 (SF c (map opR ops) atoms h).
Proof. exact table_equiv_modulus_metric. Qed.
Print Assumptions C07_tables_equivalent_modulus.
Theorem C07_tables_extinct : forall s ops k c atoms h, In s all_settings -> ops_of (sg_rot s) (sg_trans s) = Some ops -> In k ops ->
  int_vec h -> rowmul h (matR (fst k)) = h -> cis (- (2 * PI * vdot h (vecR12 (snd k)))) <> c1 ->
  SF c (map opR ops) atoms h = c0.
Proof. exact table_extinct. Qed.
Print Assumptions C07_tables_extinct.
Theorem C07_nonvacuous_P21c_010 : exists s ops, sg14 = Some s /\ ops_of (sg_rot s) (sg_trans s) = Some ops /\
  forall c atoms, SF c (map opR ops) atoms (mkV3 0 1 0) = c0.
Proof. exact p21c_010_extinct. Qed.
Print Assumptions C07_nonvacuous_P21c_010.

(* C09 (xfab.laue) - returned (omega, eta) satisfy the diffraction condition; none is missed.
   [diffracts Om g tth eta]: Om.g = (-sin^2(theta), -sin(2theta) sin(eta)/2, sin(2theta) cos(eta)/2) (lib/OmegaSolve.v).
   find_omega_wedge: rotation matrix Ry(-wedge).Rz(omega) (GrainSpotter sign), see the wedge theorems below. *)
From Coq Require Import Reals List.
From XV Require Import RealLib Mat3 OmegaSolve Cell Gen_laue P09_laue P09_plain P09_quart P09_wedge P09_agree.
Import ListNotations.
Open Scope R_scope.

Theorem C09_laue_general : forall g tth wx wy oms etas,
  0 < tth < PI -> vx g * vx g + vy g * vy g + vz g * vz g <> 0 ->
  let gn := normalise_to tth g in
  gen_a gn wy * gen_a gn wy + gen_b gn wy * gen_b gn wy <> 0 ->
  laue_find_omega_general g tth wx wy = Some (oms, etas) ->
  (forall w e, In (w, e) (combine oms etas) -> diffracts (laue_form_omega_mat_general w wx wy) gn tth e) /\
  (forall w, In w oms -> - PI < w <= PI) /\
  (forall w, - PI < w <= PI -> vx (mvmul (laue_form_omega_mat_general w wx wy) gn) = - (sin (tth / 2) * sin (tth / 2)) -> In w oms) /\
  (gen_a gn wy * gen_a gn wy + gen_b gn wy * gen_b gn wy - gen_c gn wy * gen_c gn wy < 0 -> oms = []) /\
  (0 < gen_a gn wy * gen_a gn wy + gen_b gn wy * gen_b gn wy - gen_c gn wy * gen_c gn wy -> exists w1 w2, oms = [w1; w2] /\ w1 <> w2).
Proof. exact laue_find_omega_general_sound. Qed.
Print Assumptions C09_laue_general.

Theorem C09_laue_general_total : forall g tth wx wy,
  vx g * vx g + vy g * vy g + vz g * vz g <> 0 -> laue_find_omega_general g tth wx wy <> None.
Proof. exact laue_find_omega_general_never_asserts. Qed.
Print Assumptions C09_laue_general_total.

Theorem C09_laue_quart : forall g tth wx wy oms etas,
  0 < tth < PI -> vx g * vx g + vy g * vy g + vz g * vz g <> 0 ->
  let gn := normalise_to tth g in
  quart_a gn wx wy * quart_a gn wx wy + quart_b gn wx wy * quart_b gn wx wy <> 0 ->
  laue_find_omega_quart g tth wx wy = Some (oms, etas) ->
  (forall w e, In (w, e) (combine oms etas) -> diffracts (laue_quart_to_omega (w * 180 / PI) wx wy) gn tth e) /\
  (forall w, In w oms -> - PI < w <= PI) /\
  (forall w, - PI < w <= PI -> vx (mvmul (laue_quart_to_omega (w * 180 / PI) wx wy) gn) = - (sin (tth / 2) * sin (tth / 2)) -> In w oms).
Proof. exact laue_find_omega_quart_sound. Qed.
Print Assumptions C09_laue_quart.

Theorem C09_laue_plain : forall g tth w, 0 < tth < PI -> vx g * vx g + vy g * vy g <> 0 ->
  In w (laue_find_omega g tth) ->
  vx (mvmul (laue_form_omega_mat w) (normalise_to tth g)) = - (sin (tth / 2) * sin (tth / 2)) /\ - PI < w <= PI.
Proof. exact laue_find_omega_sound. Qed.
Print Assumptions C09_laue_plain.

Theorem C09_laue_tth : forall c h wl, laue_tth c h wl = 2 * asin (wl * laue_sintl c h).
Proof. exact laue_tth_def. Qed.
Print Assumptions C09_laue_tth.
Theorem C09_laue_tth_eq_tth2 : forall U c h wl, is_rot U -> valid_cell c -> 0 < vnorm2 (mvmul (laue_form_b_mat c) h) ->
  laue_tth2 (mvmul (mmul U (laue_form_b_mat c)) h) wl = laue_tth c h wl.
Proof. exact laue_tth_eq_tth2. Qed.
Print Assumptions C09_laue_tth_eq_tth2.

(* find_omega_wedge: wedge_mat wedge w = Ry(-wedge).Rz(w); wedge_coseta is the code's own coseta.  No hypothesis on the code's quantity a: since the repair of F11 (division by a replaced by the equivalent division by a^2 + b^2) the solution is exact also where a = 0, i.e. tan(theta) = tan(wedge) cos(eta) *)
Theorem C09_laue_wedge : forall g tth wedge oms etas,
  0 < tth < PI -> vx g * vx g + vy g * vy g <> 0 -> cos wedge <> 0 ->
  laue_find_omega_wedge g tth wedge = (oms, etas) ->
  let gn := normalise_to tth g in let ce := wedge_coseta g tth wedge in
  (1 < Rabs ce -> oms = [] /\ etas = []) /\
  (Rabs ce <= 1 ->
     exists w1 w2, oms = [w1; w2] /\ etas = [acos ce; - acos ce] /\
       diffracts (wedge_mat wedge w1) gn tth (acos ce) /\ diffracts (wedge_mat wedge w2) gn tth (- acos ce) /\
       - PI < w1 <= PI /\ - PI < w2 <= PI).
Proof. exact laue_find_omega_wedge_sound. Qed.
Print Assumptions C09_laue_wedge.
Theorem C09_laue_wedge_complete : forall g tth wedge w,
  0 < tth < PI -> vx g * vx g + vy g * vy g <> 0 -> cos wedge <> 0 ->
  let gn := normalise_to tth g in
  - PI < w <= PI -> vx (mvmul (wedge_mat wedge w) gn) = - (sin (tth / 2) * sin (tth / 2)) ->
  Rabs (wedge_coseta g tth wedge) <= 1 /\ In w (fst (laue_find_omega_wedge g tth wedge)).
Proof. exact laue_find_omega_wedge_complete. Qed.
Print Assumptions C09_laue_wedge_complete.
Theorem C09_wedge_matrix_is_rotation : forall wedge w, is_rot (wedge_mat wedge w).
Proof. exact wedge_mat_rot. Qed.
Print Assumptions C09_wedge_matrix_is_rotation.

(* the solvers agree where their tilts coincide (zero tilt): the same set of omega from find_omega_general, find_omega_quart and
   find_omega_wedge, and every omega of find_omega is among them *)
Theorem C09_laue_zero_tilt_agreement : forall g tth, 0 < tth < PI -> vx g * vx g + vy g * vy g <> 0 -> forall oms1 etas1 oms2 etas2,
  laue_find_omega_general g tth 0 0 = Some (oms1, etas1) -> laue_find_omega_quart g tth 0 0 = Some (oms2, etas2) ->
  forall w, (In w oms1 <-> In w oms2) /\ (In w oms1 <-> In w (fst (laue_find_omega_wedge g tth 0))) /\ (In w (laue_find_omega g tth) -> In w oms1).
Proof. exact zero_tilt_agreement. Qed.
Print Assumptions C09_laue_zero_tilt_agreement.

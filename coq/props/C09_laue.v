(* C09 (xfab.laue) - returned (omega, eta) satisfy the diffraction condition; none is missed.
   [diffracts Om g tth eta]: Om.g = (-sin^2(theta), -sin(2theta) sin(eta)/2, sin(2theta) cos(eta)/2) (lib/OmegaSolve.v).
   find_omega_wedge is decided numerically on the implementation only (no theorem). *)
From Coq Require Import Reals List.
From XV Require Import RealLib Mat3 OmegaSolve Cell Gen_laue P09_laue P09_plain P09_quart.
Import ListNotations.
Open Scope R_scope.

Theorem C09_laue_general : forall g tth wx wy oms etas,
  0 < tth < PI -> vx g * vx g + vy g * vy g + vz g * vz g <> 0 ->
  let gn := normalise_to tth g in
  gen_a gn wy * gen_a gn wy + gen_b gn wy * gen_b gn wy <> 0 ->
  laue_find_omega_general g tth wx wy = Some (oms, etas) ->
  (forall w e, In (w, e) (combine oms etas) -> diffracts (laue_form_omega_mat_general w wx wy) gn tth e) /\
  (forall w, In w oms -> - PI < w <= PI) /\
  (forall w, - PI < w <= PI -> vx (mvmul (laue_form_omega_mat_general w wx wy) gn) = - (sin (tth / 2) * sin (tth / 2)) -> In w oms) /\
  (gen_a gn wy * gen_a gn wy + gen_b gn wy * gen_b gn wy - gen_c gn wy * gen_c gn wy < 0 -> oms = []) /\
  (0 < gen_a gn wy * gen_a gn wy + gen_b gn wy * gen_b gn wy - gen_c gn wy * gen_c gn wy -> exists w1 w2, oms = [w1; w2] /\ w1 <> w2).
Proof. exact laue_find_omega_general_sound. Qed.
Print Assumptions C09_laue_general.

Theorem C09_laue_general_total : forall g tth wx wy,
  vx g * vx g + vy g * vy g + vz g * vz g <> 0 -> laue_find_omega_general g tth wx wy <> None.
Proof. exact laue_find_omega_general_never_asserts. Qed.
Print Assumptions C09_laue_general_total.

Theorem C09_laue_quart : forall g tth wx wy oms etas,
  0 < tth < PI -> vx g * vx g + vy g * vy g + vz g * vz g <> 0 ->
  let gn := normalise_to tth g in
  quart_a gn wx wy * quart_a gn wx wy + quart_b gn wx wy * quart_b gn wx wy <> 0 ->
  laue_find_omega_quart g tth wx wy = Some (oms, etas) ->
  (forall w e, In (w, e) (combine oms etas) -> diffracts (laue_quart_to_omega (w * 180 / PI) wx wy) gn tth e) /\
  (forall w, In w oms -> - PI < w <= PI) /\
  (forall w, - PI < w <= PI -> vx (mvmul (laue_quart_to_omega (w * 180 / PI) wx wy) gn) = - (sin (tth / 2) * sin (tth / 2)) -> In w oms).
Proof. exact laue_find_omega_quart_sound. Qed.
Print Assumptions C09_laue_quart.

Theorem C09_laue_plain : forall g tth w, 0 < tth < PI -> vx g * vx g + vy g * vy g <> 0 ->
  In w (laue_find_omega g tth) ->
  vx (mvmul (laue_form_omega_mat w) (normalise_to tth g)) = - (sin (tth / 2) * sin (tth / 2)) /\ - PI < w <= PI.
Proof. exact laue_find_omega_sound. Qed.
Print Assumptions C09_laue_plain.

Theorem C09_laue_tth : forall c h wl, laue_tth c h wl = 2 * asin (wl * laue_sintl c h).
Proof. exact laue_tth_def. Qed.
Print Assumptions C09_laue_tth.
Theorem C09_laue_tth_eq_tth2 : forall U c h wl, is_rot U -> valid_cell c -> 0 < vnorm2 (mvmul (laue_form_b_mat c) h) ->
  laue_tth2 (mvmul (mmul U (laue_form_b_mat c)) h) wl = laue_tth c h wl.
Proof. exact laue_tth_eq_tth2. Qed.
Print Assumptions C09_laue_tth_eq_tth2.

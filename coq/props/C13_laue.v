(* C13 (xfab.laue) - strain and strained B matrix are exact inverses; UBI yields back U and strain *)
From Coq Require Import Reals.
From XV Require Import RealLib Mat3 Cell Gen_laue P13_laue P13_cellof P13_ubi P13_old.
Open Scope R_scope.

Theorem C13_laue_eps_roundtrip : forall eps c, valid_cell c -> strain_ok eps -> laue_b_to_epsilon (laue_epsilon_to_b eps c) c = eps.
Proof. exact laue_eps_roundtrip. Qed.
Print Assumptions C13_laue_eps_roundtrip.
Theorem C13_laue_b_roundtrip : forall B c, valid_cell c -> upper B -> mdet B <> 0 -> laue_epsilon_to_b (laue_b_to_epsilon B c) c = B.
Proof. exact laue_b_roundtrip. Qed.
Print Assumptions C13_laue_b_roundtrip.
Theorem C13_laue_zero_strain : forall c, valid_cell c -> laue_epsilon_to_b (mkV6 0 0 0 0 0 0) c = laue_form_b_mat c.
Proof. exact laue_zero_strain. Qed.
Print Assumptions C13_laue_zero_strain.
Theorem C13_laue_strain_definition : forall B c, laue_b_to_epsilon B c = sym_minus_I (mmul (laue_form_b_mat c) (minv B)).
Proof. exact laue_b_to_epsilon_def. Qed.
Print Assumptions C13_laue_strain_definition.
Theorem C13_laue_old_roundtrip : forall eps c, valid_cell c -> strain_small eps -> laue_b_to_epsilon_old (laue_epsilon_to_b_old eps c) c = eps.
Proof. exact laue_eps_roundtrip_old. Qed.
Print Assumptions C13_laue_old_roundtrip.
Theorem C13_laue_old_zero_strain : forall c, valid_cell c -> laue_epsilon_to_b_old (mkV6 0 0 0 0 0 0) c = laue_form_b_mat c.
Proof. exact laue_zero_strain_old. Qed.
Print Assumptions C13_laue_old_zero_strain.
Theorem C13_laue_cell_of_any_matrix : forall A, mdet A <> 0 -> valid_cell (laue_a_to_cell A) /\ metric (laue_a_to_cell A) = mmul (mtrans A) A.
Proof. exact laue_a_to_cell_valid. Qed.
Print Assumptions C13_laue_cell_of_any_matrix.
Theorem C13_laue_form_a_of_cell : forall A, upper_posdiag A -> laue_form_a_mat (laue_a_to_cell A) = A.
Proof. exact laue_form_a_of_cell. Qed.
Print Assumptions C13_laue_form_a_of_cell.
Theorem C13_laue_ubi_gives_back_U_and_strain : forall U eps c, is_rot U -> valid_cell c -> strain_small eps ->
  laue_ubi_to_u_and_eps (minv (mmul U (laue_epsilon_to_b eps c))) c = (U, eps).
Proof. exact laue_ubi_u_eps. Qed.
Print Assumptions C13_laue_ubi_gives_back_U_and_strain.

(* C16 - atomic form factors are physical.  ff_table is regenerated from /repo/xfab/atomlib.py and
   structure_FormFactor_coeffs from /repo/xfab/structure.py (FormFactor) on every run.
   ff_R row s = the generated FormFactor applied to a table row (coefficients in exact millionths). *)
From Coq Require Import Reals ZArith List String.
From XV Require Import RealLib Mat3 Gen_structure Elements FormFac Tab_ff P16.
Open Scope R_scope.

Theorem C16_table_is_the_94_elements : map fst ff_table = elements.
Proof. exact table_keys. Qed.
Print Assumptions C16_table_is_the_94_elements.

Theorem C16_formfactor_is_4_gaussians_plus_c : forall row s,
  ff_R row s = nthZ row 0 * exp (- (nthZ row 4 * (s * s))) + nthZ row 1 * exp (- (nthZ row 5 * (s * s)))
             + nthZ row 2 * exp (- (nthZ row 6 * (s * s))) + nthZ row 3 * exp (- (nthZ row 7 * (s * s))) + nthZ row 8.
Proof. exact ff_is_sum. Qed.
Print Assumptions C16_formfactor_is_4_gaussians_plus_c.

Theorem C16_f0_is_Z : forall e, In e ff_table ->
  exists z, atomic_number (fst e) = Some z /\ Rabs (ff_R (snd e) 0 - IZR z) <= 1 / 10.
Proof. exact ff_f0_all. Qed.
Print Assumptions C16_f0_is_Z.

Theorem C16_decreasing : forall e s1 s2, In e ff_table -> 0 <= s1 < s2 -> ff_R (snd e) s2 < ff_R (snd e) s1.
Proof. exact ff_decreasing_all. Qed.
Print Assumptions C16_decreasing.

Theorem C16_positive : forall e s, In e ff_table -> 0 <= s <= 2 -> 0 < ff_R (snd e) s.
Proof. exact ff_positive_all. Qed.
Print Assumptions C16_positive.

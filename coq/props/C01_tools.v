(* C01 - Cell parameters, A/B matrices, volume and sin(theta)/lambda share one metric.
   Only property theorems here; each is closed by [exact lemma] and followed by Print Assumptions.
   the tools_ and laue_ definitions are regenerated from /repo/xfab/{tools,laue}.py on every run. *)
From Coq Require Import Reals.
From XV Require Import RealLib Mat3 Cell Gen_laue Gen_tools P01_laue P01_laue_b P01_laue_c P01_laue_d P01_laue_e P01_tools NonVac.
Open Scope R_scope.

Theorem C01_tools_A_upper_posdiag : forall c, valid_cell c -> upper_posdiag (tools_form_a_mat c).
Proof. exact tools_A_upper_posdiag. Qed.
Print Assumptions C01_tools_A_upper_posdiag.
Theorem C01_tools_A_metric : forall c, valid_cell c -> mmul (mtrans (tools_form_a_mat c)) (tools_form_a_mat c) = metric c.
Proof. exact tools_A_metric. Qed.
Print Assumptions C01_tools_A_metric.
Theorem C01_tools_B_upper_posdiag : forall c, valid_cell c -> upper_posdiag (tools_form_b_mat c).
Proof. exact tools_B_upper_posdiag. Qed.
Print Assumptions C01_tools_B_upper_posdiag.
Theorem C01_tools_B_recip_metric : forall c, valid_cell c ->
  mmul (mmul (mtrans (tools_form_b_mat c)) (tools_form_b_mat c)) (metric c) = mscale ((2 * PI) * (2 * PI)) mI.
Proof. exact tools_B_recip_metric. Qed.
Print Assumptions C01_tools_B_recip_metric.
Theorem C01_tools_detA_volume : forall c, valid_cell c -> mdet (tools_form_a_mat c) = tools_cell_volume c.
Proof. exact tools_detA_volume. Qed.
Print Assumptions C01_tools_detA_volume.
Theorem C01_tools_volume_sq : forall c, valid_cell c -> tools_cell_volume c * tools_cell_volume c = mdet (metric c).
Proof. exact tools_volume_sq. Qed.
Print Assumptions C01_tools_volume_sq.
Theorem C01_tools_sintl_norm : forall c h, valid_cell c ->
  tools_sintl c h = vnorm (mvmul (tools_form_b_mat c) h) / (4 * PI).
Proof. exact tools_sintl_norm. Qed.
Print Assumptions C01_tools_sintl_norm.
Theorem C01_tools_a_to_cell_inv : forall c, valid_cell c -> tools_a_to_cell (tools_form_a_mat c) = c.
Proof. exact tools_a_to_cell_inv. Qed.
Print Assumptions C01_tools_a_to_cell_inv.
Theorem C01_tools_b_to_cell_inv : forall c, valid_cell c -> tools_b_to_cell (tools_form_b_mat c) = c.
Proof. exact tools_b_to_cell_inv. Qed.
Print Assumptions C01_tools_b_to_cell_inv.
Theorem C01_tools_cell_invert_valid : forall c, valid_cell c -> valid_cell (tools_cell_invert c).
Proof. exact tools_cell_invert_valid. Qed.
Print Assumptions C01_tools_cell_invert_valid.
Theorem C01_tools_cell_invert_metric : forall c, valid_cell c -> mmul (metric (tools_cell_invert c)) (metric c) = mI.
Proof. exact tools_cell_invert_metric. Qed.
Print Assumptions C01_tools_cell_invert_metric.
Theorem C01_tools_cell_invert_involutive : forall c, valid_cell c -> tools_cell_invert (tools_cell_invert c) = c.
Proof. exact tools_cell_invert_involutive. Qed.
Print Assumptions C01_tools_cell_invert_involutive.
Theorem C01_tools_a_mat_inv : forall c, valid_cell c ->
  mmul (tools_form_a_mat_inv c) (tools_form_a_mat c) = mI /\ mmul (tools_form_a_mat c) (tools_form_a_mat_inv c) = mI.
Proof. exact tools_a_mat_inv. Qed.
Print Assumptions C01_tools_a_mat_inv.

(* non-vacuity: the hypothesis is met by a strongly oblique cell *)
Theorem C01_nonvacuous : valid_cell (mkV6 3 4 5 80 95 100) /\ valid_cell (mkV6 5 6 7 50 60 70).
Proof. exact valid_cell_examples. Qed.
Print Assumptions C01_nonvacuous.

(* C13 (xfab.tools).  ubi_to_u_and_eps in tools omits the 2 pi of tools' own UBI convention (known finding F7): the property's
   statement "gives back U and strain" is false for tools.  What is returned instead is stated in props/C13_findings.v (obligations
   only while the finding is open); the search harness replays the finding on the implementation. *)
From Coq Require Import Reals.
From XV Require Import RealLib Mat3 Cell Gen_tools P13_laue P13_tools P13_ubi P13_tools_old.
Open Scope R_scope.

Theorem C13_tools_eps_roundtrip : forall eps c, valid_cell c -> strain_ok eps -> tools_b_to_epsilon (tools_epsilon_to_b eps c) c = eps.
Proof. exact tools_eps_roundtrip. Qed.
Print Assumptions C13_tools_eps_roundtrip.
Theorem C13_tools_b_roundtrip : forall B c, valid_cell c -> upper B -> mdet B <> 0 -> tools_epsilon_to_b (tools_b_to_epsilon B c) c = B.
Proof. exact tools_b_roundtrip. Qed.
Print Assumptions C13_tools_b_roundtrip.
Theorem C13_tools_zero_strain : forall c, valid_cell c -> tools_epsilon_to_b (mkV6 0 0 0 0 0 0) c = tools_form_b_mat c.
Proof. exact tools_zero_strain. Qed.
Print Assumptions C13_tools_zero_strain.
Theorem C13_tools_strain_definition : forall B c, tools_b_to_epsilon B c = sym_minus_I (mmul (tools_form_b_mat c) (minv B)).
Proof. exact tools_b_to_epsilon_def. Qed.
Print Assumptions C13_tools_strain_definition.

Theorem C13_tools_old_roundtrip : forall eps c, valid_cell c -> strain_small eps -> tools_b_to_epsilon_old (tools_epsilon_to_b_old eps c) c = eps.
Proof. exact tools_eps_roundtrip_old. Qed.
Print Assumptions C13_tools_old_roundtrip.
Theorem C13_tools_old_zero_strain : forall c, valid_cell c -> tools_epsilon_to_b_old (mkV6 0 0 0 0 0 0) c = tools_form_b_mat c.
Proof. exact tools_zero_strain_old. Qed.
Print Assumptions C13_tools_old_zero_strain.

(* C13, known finding F7 (open): what tools.ubi_to_u_and_eps returns on a UBI in tools' own convention.  These theorems describe the
   DEFECTIVE behaviour; they are proof obligations only while the finding is listed as open in known_findings.json.  If the code is
   repaired they stop compiling, which the check reports as "known finding no longer reproduces", not as a violation. *)
From Coq Require Import Reals.
From XV Require Import RealLib Mat3 Cell Gen_tools P13_laue P13_tools P13_ubi P13_tools_old P13_tools_f7.
Open Scope R_scope.

Theorem C13_tools_ubi_eps_actual : forall U eps c, is_rot U -> valid_cell c -> strain_small eps ->
  tools_ubi_to_u_and_eps (mscale (2 * PI) (minv (mmul U (tools_epsilon_to_b eps c)))) c = (U, eps_scaled (2 * PI) eps).
Proof. exact tools_ubi_u_eps_actual. Qed.
Print Assumptions C13_tools_ubi_eps_actual.
Theorem C13_tools_ubi_eps_refuted : forall eps, strain_small eps -> eps_scaled (2 * PI) eps <> eps.
Proof. exact eps_scaled_differs. Qed.
Print Assumptions C13_tools_ubi_eps_refuted.

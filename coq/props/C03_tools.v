(* C03 (xfab.tools) - every orientation parametrisation yields a proper rotation equal to the documented composition;
   Rodrigues maps invert.  Definitions tools_* are regenerated from /repo/xfab/tools.py on every run. *)
From Coq Require Import Reals.
From XV Require Import RealLib Mat3 Atan2 Gen_laue Gen_tools P03_laue P03_tools P03_euler P03_band P03_gimbal.
Open Scope R_scope.

Theorem C03_tools_euler_is_RzRxRz : forall p1 P p2, tools_euler_to_u p1 P p2 = mmul (Rz p1) (mmul (Rx P) (Rz p2)).
Proof. exact tools_euler_comp. Qed.
Print Assumptions C03_tools_euler_is_RzRxRz.
Theorem C03_tools_euler_rot : forall p1 P p2, is_rot (tools_euler_to_u p1 P p2).
Proof. exact tools_euler_rot. Qed.
Print Assumptions C03_tools_euler_rot.
Theorem C03_tools_omega_is_Rz : forall w, tools_form_omega_mat w = Rz w.
Proof. exact tools_omega_comp. Qed.
Print Assumptions C03_tools_omega_is_Rz.
Theorem C03_tools_omega_general_is_RxRyRz : forall w chi wedge,
  tools_form_omega_mat_general w chi wedge = mmul (Rx chi) (mmul (Ry wedge) (Rz w)).
Proof. exact tools_omega_general_comp. Qed.
Print Assumptions C03_tools_omega_general_is_RxRyRz.
Theorem C03_tools_omega_general_rot : forall w chi wedge, is_rot (tools_form_omega_mat_general w chi wedge).
Proof. exact tools_omega_general_rot. Qed.
Print Assumptions C03_tools_omega_general_rot.
Theorem C03_tools_tilt_is_RxRyRz : forall tx ty tz, tools_detect_tilt tx ty tz = mmul (Rx tx) (mmul (Ry ty) (Rz tz)).
Proof. exact tools_tilt_comp. Qed.
Print Assumptions C03_tools_tilt_is_RxRyRz.
Theorem C03_tools_tilt_rot : forall tx ty tz, is_rot (tools_detect_tilt tx ty tz).
Proof. exact tools_tilt_rot. Qed.
Print Assumptions C03_tools_tilt_rot.
Theorem C03_tools_quart_is_PRzPt : forall w wx wy,
  tools_quart_to_omega w wx wy = mmul (mmul (Rx wx) (Ry wy)) (mmul (Rz (w * PI / 180)) (mtrans (mmul (Rx wx) (Ry wy)))).
Proof. exact tools_quart_comp. Qed.
Print Assumptions C03_tools_quart_is_PRzPt.
Theorem C03_tools_quart_rot : forall w wx wy, is_rot (tools_quart_to_omega w wx wy).
Proof. exact tools_quart_rot. Qed.
Print Assumptions C03_tools_quart_rot.
Theorem C03_tools_rod_rot : forall r, is_rot (tools_rod_to_u r).
Proof. exact tools_rod_rot. Qed.
Print Assumptions C03_tools_rod_rot.
Theorem C03_tools_rod_axis : forall r, mvmul (tools_rod_to_u r) r = r.
Proof. exact tools_rod_axis. Qed.
Print Assumptions C03_tools_rod_axis.
Theorem C03_tools_rod_angle : forall r, mtrace (tools_rod_to_u r) = 1 + 2 * cos (2 * atan (vnorm r)).
Proof. exact tools_rod_angle. Qed.
Print Assumptions C03_tools_rod_angle.
Theorem C03_tools_rod_passive : forall t, tools_rod_to_u (mkV3 0 0 t) = mtrans (Rz (2 * atan t)).
Proof. exact tools_rod_passive. Qed.
Print Assumptions C03_tools_rod_passive.
Theorem C03_tools_u_to_rod_inverts : forall r, vnorm2 r < 1000000000000000 -> tools_u_to_rod (tools_rod_to_u r) = Some r.
Proof. exact tools_u_to_rod_inv. Qed.
Print Assumptions C03_tools_u_to_rod_inverts.
Theorem C03_tools_rod_to_u_inverts : forall U r, is_rot U -> tools_u_to_rod U = Some r -> tools_rod_to_u r = U.
Proof. exact tools_rod_to_u_inv. Qed.
Print Assumptions C03_tools_rod_to_u_inverts.

(* u_to_euler: range of the returned angles; exact inverse of euler_to_u outside the code's own tolerance bands
   (not_gimbal: PHI and pi - PHI at least 1e-8; generic: neither argument of _arctan2 below 1e-8 of the other);
   inside the bands the behaviour is decided by the search on the implementation only. *)
Theorem C03_tools_euler_range : forall U e, tools_u_to_euler U = Some e -> 0 <= vx e <= 2 * PI /\ 0 <= vy e <= PI /\ 0 <= vz e <= 2 * PI.
Proof. exact tools_euler_range. Qed.
Print Assumptions C03_tools_euler_range.
Theorem C03_tools_euler_inverts : forall U, is_rot U -> not_gimbal U -> generic (m02 U) (- m12 U) -> generic (m20 U) (m21 U) ->
  exists e, tools_u_to_euler U = Some e /\ tools_euler_to_u (vx e) (vy e) (vz e) = U.
Proof. exact tools_euler_exact. Qed.
Print Assumptions C03_tools_euler_inverts.
Theorem C03_tools_euler_angles_recovered : forall p1 P p2, 0 <= p1 < 2 * PI -> 0 <= p2 < 2 * PI -> 0 < P < PI ->
  let U := tools_euler_to_u p1 P p2 in
  not_gimbal U -> generic (m02 U) (- m12 U) -> generic (m20 U) (m21 U) -> tools_u_to_euler U = Some (mkV3 p1 P p2).
Proof. exact tools_euler_of_angles. Qed.
Print Assumptions C03_tools_euler_angles_recovered.

(* u_to_euler on EVERY rotation, whatever branch the code takes (gimbal bands, snapped _arctan2 arguments, generic): it never raises and
   every entry of euler_to_u(u_to_euler U) is within 1e-6 of U (mclose e A B: all nine |a_ij - b_ij| <= e) *)
Theorem C03_tools_euler_never_raises_on_rotations : forall U, is_rot U -> exists e, tools_u_to_euler U = Some e.
Proof. exact tools_euler_total. Qed.
Print Assumptions C03_tools_euler_never_raises_on_rotations.
Theorem C03_tools_euler_roundtrip_every_rotation : forall U e, is_rot U -> tools_u_to_euler U = Some e ->
  mclose (1 / 1000000) (tools_euler_to_u (vx e) (vy e) (vz e)) U.
Proof. exact tools_euler_roundtrip_all. Qed.
Print Assumptions C03_tools_euler_roundtrip_every_rotation.

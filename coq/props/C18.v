(* C18 - reduce_cell returns a primitive cell of the same lattice (partial; known finding F10: the code returns the metric M'M of the selected
   vectors taken as columns although it stored them as rows, which is another lattice for non-orthogonal cells).
   Theorems here are the algebraic facts about the generated a_to_cell that the finding rests on; the search loop of reduce_cell has no Coq model. *)
From Coq Require Import Reals.
From XV Require Import RealLib Mat3 Cell Gen_laue P18.
Open Scope R_scope.

Theorem C18_returned_metric_is_MtM : forall A N, mdet (rows_of A N) <> 0 ->
  valid_cell (laue_a_to_cell (rows_of A N)) /\ metric (laue_a_to_cell (rows_of A N)) = mmul (mtrans (rows_of A N)) (rows_of A N).
Proof. exact reduce_metric_actual. Qed.
Print Assumptions C18_returned_metric_is_MtM.
Theorem C18_selected_basis_metric_is_NtGN : forall A N,
  mmul (rows_of A N) (mtrans (rows_of A N)) = mmul (mtrans N) (mmul (mmul (mtrans A) A) N).
Proof. exact selected_basis_metric. Qed.
Print Assumptions C18_selected_basis_metric_is_NtGN.
Theorem C18_volume_scales_by_detN : forall A N,
  mdet (mmul (mtrans (rows_of A N)) (rows_of A N)) = (mdet N * mdet N) * mdet (mmul (mtrans A) A).
Proof. exact reduce_volume. Qed.
Print Assumptions C18_volume_scales_by_detN.
Theorem C18_rows_vs_columns_differ : mmul (mtrans Mw) Mw <> mmul Mw (mtrans Mw).
Proof. exact rows_vs_columns_differ. Qed.
Print Assumptions C18_rows_vs_columns_differ.

(* C14 - xfab.tools and xfab.laue agree on everything except the documented factor 2 pi.
   Every theorem relates the definition regenerated from tools.py with the one regenerated from laue.py.
   genhkl*, sysabs*, reduce_cell (not real-valued closed forms) are compared on the implementation and, for sysabs*, by the AST-level
   comparison in the correspondence; tools.ubi_to_u_and_eps is the listed exception (known finding F7). *)
From Coq Require Import Reals List.
From XV Require Import Ast_tools Ast_laue P14_ast.
From XV Require Import RealLib Mat3 Atan2 Cell Gen_laue Gen_tools P14_cell P01_tools P02_laue P14_ubi P14_rot P09_laue P13_laue P13_ubi P14_rest.
Open Scope R_scope.

Theorem C14_cell_volume : forall c, tools_cell_volume c = laue_cell_volume c. Proof. exact tl_cell_volume. Qed.
Print Assumptions C14_cell_volume.
Theorem C14_cell_invert : forall c, tools_cell_invert c = laue_cell_invert c. Proof. exact tl_cell_invert. Qed.
Print Assumptions C14_cell_invert.
Theorem C14_form_a_mat : forall c, tools_form_a_mat c = laue_form_a_mat c. Proof. exact tl_form_a_mat. Qed.
Print Assumptions C14_form_a_mat.
Theorem C14_form_a_mat_inv : forall c, tools_form_a_mat_inv c = laue_form_a_mat_inv c. Proof. exact tl_form_a_mat_inv. Qed.
Print Assumptions C14_form_a_mat_inv.
Theorem C14_a_to_cell : forall A, tools_a_to_cell A = laue_a_to_cell A. Proof. exact tl_a_to_cell. Qed.
Print Assumptions C14_a_to_cell.
Theorem C14_sintl : forall c h, tools_sintl c h = laue_sintl c h. Proof. exact tl_sintl. Qed.
Print Assumptions C14_sintl.
Theorem C14_ubi_to_cell : forall A, tools_ubi_to_cell A = laue_ubi_to_cell A. Proof. exact tl_ubi_to_cell. Qed.
Print Assumptions C14_ubi_to_cell.
Theorem C14_form_b_mat : forall c, valid_cell c -> tools_form_b_mat c = mscale (2 * PI) (laue_form_b_mat c). Proof. exact tools_b_scaled. Qed.
Print Assumptions C14_form_b_mat.
Theorem C14_b_to_cell : forall B, tools_b_to_cell (mscale (2 * PI) B) = laue_b_to_cell B. Proof. exact tl_b_to_cell. Qed.
Print Assumptions C14_b_to_cell.
Theorem C14_tth : forall c h wl, tools_tth c h wl = laue_tth c h wl. Proof. exact tl_tth. Qed.
Print Assumptions C14_tth.
Theorem C14_tth2 : forall g wl, vx g * vx g + vy g * vy g + vz g * vz g <> 0 -> tools_tth2 (vscale (2 * PI) g) wl = laue_tth2 g wl.
Proof. exact tl_tth2. Qed.
Print Assumptions C14_tth2.
Theorem C14_u_to_ubi : forall U c, is_rot U -> valid_cell c -> tools_u_to_ubi U c = laue_u_to_ubi U c. Proof. exact tl_u_to_ubi. Qed.
Print Assumptions C14_u_to_ubi.
Theorem C14_ubi_to_u : forall A, valid_cell (laue_ubi_to_cell A) -> tools_ubi_to_u A = laue_ubi_to_u A. Proof. exact tl_ubi_to_u. Qed.
Print Assumptions C14_ubi_to_u.
Theorem C14_ubi_to_rod : forall A, valid_cell (laue_ubi_to_cell A) -> tools_ubi_to_rod A = laue_ubi_to_rod A. Proof. exact tl_ubi_to_rod. Qed.
Print Assumptions C14_ubi_to_rod.
Theorem C14_ub_to_u_b : forall qr UB, tools_ub_to_u_b qr UB = laue_ub_to_u_b qr UB. Proof. exact tl_ub_to_u_b. Qed.
Print Assumptions C14_ub_to_u_b.
Theorem C14_ubi_to_u_b : forall qr A, tools_ubi_to_u_b qr A = laue_ub_to_u_b qr (mscale (2 * PI) (minv A)). Proof. exact tl_ubi_to_u_b. Qed.
Print Assumptions C14_ubi_to_u_b.
Theorem C14_euler_to_u : forall a b c, tools_euler_to_u a b c = laue_euler_to_u a b c. Proof. exact tl_euler_to_u. Qed.
Print Assumptions C14_euler_to_u.
Theorem C14_arctan2 : forall y x, tools_arctan2 y x = laue_arctan2 y x. Proof. exact tl_arctan2. Qed.
Print Assumptions C14_arctan2.
Theorem C14_u_to_euler : forall U, tools_u_to_euler U = laue_u_to_euler U. Proof. exact tl_u_to_euler. Qed.
Print Assumptions C14_u_to_euler.
Theorem C14_u_to_rod : forall U, tools_u_to_rod U = laue_u_to_rod U. Proof. exact tl_u_to_rod. Qed.
Print Assumptions C14_u_to_rod.
Theorem C14_rod_to_u : forall r, tools_rod_to_u r = laue_rod_to_u r. Proof. exact tl_rod_to_u. Qed.
Print Assumptions C14_rod_to_u.
Theorem C14_form_omega_mat : forall w, tools_form_omega_mat w = laue_form_omega_mat w. Proof. exact tl_form_omega_mat. Qed.
Print Assumptions C14_form_omega_mat.
Theorem C14_form_omega_mat_general : forall w c d, tools_form_omega_mat_general w c d = laue_form_omega_mat_general w c d.
Proof. exact tl_form_omega_mat_general. Qed.
Print Assumptions C14_form_omega_mat_general.
Theorem C14_quart_to_omega : forall w c d, tools_quart_to_omega w c d = laue_quart_to_omega w c d. Proof. exact tl_quart_to_omega. Qed.
Print Assumptions C14_quart_to_omega.
Theorem C14_detect_tilt : forall a b c, tools_detect_tilt a b c = laue_detect_tilt a b c. Proof. exact tl_detect_tilt. Qed.
Print Assumptions C14_detect_tilt.
Theorem C14_b_to_epsilon : forall B c, valid_cell c -> mdet B <> 0 -> tools_b_to_epsilon (mscale (2 * PI) B) c = laue_b_to_epsilon B c.
Proof. exact tl_b_to_epsilon. Qed.
Print Assumptions C14_b_to_epsilon.
Theorem C14_epsilon_to_b : forall eps c, valid_cell c -> strain_ok eps -> tools_epsilon_to_b eps c = mscale (2 * PI) (laue_epsilon_to_b eps c).
Proof. exact tl_epsilon_to_b. Qed.
Print Assumptions C14_epsilon_to_b.
Theorem C14_epsilon_to_b_old : forall eps c, valid_cell c -> strain_small eps ->
  tools_epsilon_to_b_old eps c = mscale (2 * PI) (laue_epsilon_to_b_old eps c).
Proof. exact tl_epsilon_to_b_old. Qed.
Print Assumptions C14_epsilon_to_b_old.
Theorem C14_find_omega_general : forall g tth wx wy, vx g * vx g + vy g * vy g + vz g * vz g <> 0 ->
  tools_find_omega_general (normalise_to tth g) tth wx wy = laue_find_omega_general g tth wx wy.
Proof. exact tl_find_omega_general. Qed.
Print Assumptions C14_find_omega_general.
Theorem C14_find_omega_quart : forall g tth wx wy, tools_find_omega_quart (normalise_to tth g) tth wx wy = laue_find_omega_quart g tth wx wy.
Proof. exact tl_find_omega_quart. Qed.
Print Assumptions C14_find_omega_quart.
Theorem C14_find_omega : forall g tth, tools_find_omega (normalise_to tth g) tth = laue_find_omega g tth.
Proof. exact tl_find_omega. Qed.
Print Assumptions C14_find_omega.
Theorem C14_find_omega_wedge : forall g tth w, tools_find_omega_wedge g tth w = laue_find_omega_wedge g tth w.
Proof. exact tl_find_omega_wedge. Qed.
Print Assumptions C14_find_omega_wedge.

Theorem C14_sysabs_unique : forall hkl sc, ast_tools_sysabs_unique hkl sc = ast_laue_sysabs_unique hkl sc.
Proof. exact tl_sysabs_unique. Qed.
Print Assumptions C14_sysabs_unique.
Theorem C14_sysabs : forall hkl sc cs ch, ast_tools_sysabs hkl sc cs ch = ast_laue_sysabs hkl sc cs ch.
Proof. exact tl_sysabs. Qed.
Print Assumptions C14_sysabs.

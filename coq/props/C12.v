(* C12 - lattice symmetry operators form the right groups; misorientation respects them.
   perm_tab / rot_tab / rot_cached_tab are regenerated from xfab.symmetry (permutations(k), rotations(k), ROTATIONS[k], k = 1..7,
   entries recognised exactly in Q(sqrt 3)); symmetry_Umis_one is traced from Umis with a symbolic one-element operator list.
   sym_ok k (lib/SymGroup.v): orders 1,2,4,8,6,12,24; permutations integer unimodular and a group; rotations satisfy R'R = I, det = 1 exactly and
   are a group; rot[i].B.perm[i] = B on a spanning set of the conforming B matrices; ROTATIONS = rotations(); right/left multiplication
   and transposition permute each operator list. *)
From Coq Require Import Reals List Permutation.
From XV Require Import RealLib Mat3 QS3 SymGroup Tab_sym Gen_symmetry P12_umis P12 Cell Gen_laue P12_span.
Import ListNotations.

Theorem C12_tables_ok : forallb (fun k => sym_ok k perm_tab rot_tab rot_cached_tab) [1; 2; 3; 4; 5; 6; 7]%nat = true.
Proof. exact sym_all. Qed.
Print Assumptions C12_tables_ok.

Theorem C12_orders :
  map (fun k => option_map (@length qm) (perms_of k perm_tab)) [1; 2; 3; 4; 5; 6; 7]%nat = map Some [1; 2; 4; 8; 6; 12; 24]%nat
  /\ map (fun k => option_map (@length qm) (rots_of k rot_tab)) [1; 2; 3; 4; 5; 6; 7]%nat = map Some [1; 2; 4; 8; 6; 12; 24]%nat.
Proof. exact sym_orders. Qed.
Print Assumptions C12_orders.

Theorem C12_umis_formula : forall U1 U2 Rm,
  symmetry_Umis_one U1 U2 Rm = (acos (clip1 ((mtrace (mmul (mmul (mtrans U1) U2) (mtrans Rm)) - 1) / 2)) * 180 / PI)%R.
Proof. exact Umis_one_eq. Qed.
Print Assumptions C12_umis_formula.

Theorem C12_umis_is_rotation_angle : forall U1 U2 Rm, (-1 <= mis_len U1 U2 Rm <= 1)%R ->
  (cos (symmetry_Umis_one U1 U2 Rm * PI / 180) = (mtrace (mmul (mmul (mtrans U1) U2) (mtrans Rm)) - 1) / 2)%R.
Proof. exact Umis_is_rotation_angle. Qed.
Print Assumptions C12_umis_is_rotation_angle.

(* for every crystal system: the operators are proper rotations containing the identity, and the multiset of Umis angles is invariant under
   U2 -> U2.G_j, U1 -> U1.G_j, swapping, a common rotation; Umis(U,U) contains 0; all angles lie in [0,180] *)
Theorem C12_umis_invariances : forall k Rq, In k [1; 2; 3; 4; 5; 6; 7]%nat -> rots_of k rot_tab = Some Rq ->
  umis_invariances (toRl Rq) /\ length (toRl Rq) = sys_order k.
Proof. exact umis_all_systems. Qed.
Print Assumptions C12_umis_invariances.

Theorem C12_tables_present : forall k, In k [1; 2; 3; 4; 5; 6; 7]%nat -> exists Rq, rots_of k rot_tab = Some Rq.
Proof. exact tables_present. Qed.
Print Assumptions C12_tables_present.

(* rot[i].B.perm[i] = B for the B matrix (regenerated laue.form_b_mat) of every cell conforming to the crystal system:
   conforming k c fixes the equal lengths and the 90 / 120 degree angles of system k (1 triclinic ... 7 cubic; 2 = b-unique monoclinic) *)
Theorem C12_rot_B_perm_is_B : forall k c P Rq, In k [1; 2; 3; 4; 5; 6; 7]%nat -> valid_cell c -> conforming k c ->
  perms_of k perm_tab = Some P -> rots_of k rot_tab = Some Rq ->
  forall i, (i < List.length Rq)%nat ->
  mmul (mmul (toRm (List.nth i Rq qmI)) (laue_form_b_mat c)) (toRm (List.nth i P qmI)) = laue_form_b_mat c.
Proof. exact rot_B_perm. Qed.
Print Assumptions C12_rot_B_perm_is_B.
Theorem C12_conforming_B_in_span : forall k c, In k [1; 2; 3; 4; 5; 6; 7]%nat -> valid_cell c -> conforming k c ->
  exists cs, laue_form_b_mat c = lincomb cs (map toRm (b_basis k)).
Proof. exact conforming_in_span. Qed.
Print Assumptions C12_conforming_B_in_span.
Theorem C12_conforming_nonvacuous : valid_cell (mkV6 3 3 5 90 90 120) /\ conforming 6 (mkV6 3 3 5 90 90 120).
Proof. exact conforming_example. Qed.
Print Assumptions C12_conforming_nonvacuous.

(* C17 - CIF and PDB ingestion reproduces what the file states (partial: PyCifRW's lexer and float() are outside the model; the file-level
   round trip is decided on the implementation).  model/Ingest.v: hand models of the text handling, tied by evaluation in Coq on random strings. *)
From Coq Require Import List Bool Ascii String.
From XV Require Import SGroup Ingest Tab_sgnames P17.
Import ListNotations.
Open Scope string_scope.

Theorem C17_esd_ignored : forall (X : Type) (pf : string -> option X) d u, no_paren d = true ->
  remove_esd pf (d ++ "(" ++ u) = pf d /\ remove_esd pf d = pf d.
Proof. exact (@esd_ignored). Qed.
Print Assumptions C17_esd_ignored.

Theorem C17_symbol_whitespace_removed : forall s, has_ws (strip_ws s) = false.
Proof. exact strip_no_ws. Qed.
Print Assumptions C17_symbol_whitespace_removed.
Theorem C17_symbol_kept_otherwise : forall s, has_ws s = false -> strip_ws s = s.
Proof. exact strip_id. Qed.
Print Assumptions C17_symbol_kept_otherwise.
Theorem C17_symbol_strip_app : forall a b, strip_ws (a ++ b) = strip_ws a ++ strip_ws b.
Proof. exact strip_app. Qed.
Print Assumptions C17_symbol_strip_app.

Theorem C17_pdb_symbol_drops_ones : forall l, forallb tok_ok l = true ->
  pdb_sg (join_sp l) = fold_right (fun t acc => lower_str t ++ acc) "" (filter (fun t => negb (String.eqb t "1")) l).
Proof. exact pdb_symbol. Qed.
Print Assumptions C17_pdb_symbol_drops_ones.

Theorem C17_pdb_symbol_examples :
  pdb_sg "P 21 21 21 " = "p212121" /\ pdb_sg "P 1 21 1" = "p21" /\ pdb_sg " C 1 2 1   " = "c2" /\ pdb_sg "P -1" = "p-1".
Proof. exact pdb_symbol_examples. Qed.
Print Assumptions C17_pdb_symbol_examples.

(* PDBread keeps the complete CRYST1 symbol when the regenerated name dictionary knows it, and drops the place-holders otherwise *)
Theorem C17_pdb_sgname_known : forall field, let full := lower_str (fold_right (fun t acc => t ++ acc) "" (split_ws field)) in
  In full sg_keys -> pdb_sgname sg_keys field = full.
Proof. exact pdb_sgname_known. Qed.
Print Assumptions C17_pdb_sgname_known.
Theorem C17_pdb_sgname_unknown : forall field,
  existsb (String.eqb (lower_str (fold_right (fun t acc => t ++ acc) "" (split_ws field)))) sg_keys = false ->
  pdb_sgname sg_keys field = pdb_sg field.
Proof. exact pdb_sgname_unknown. Qed.
Print Assumptions C17_pdb_sgname_unknown.
Theorem C17_pdb_sgname_examples :
  pdb_sgname sg_keys "P 1" = "p1" /\ pdb_sgname sg_keys "P 3 m 1" = "p3m1" /\ pdb_sgname sg_keys "P 3 1 2" = "p312" /\
  pdb_sgname sg_keys "P 1 21/c 1" = "p21/c" /\ pdb_sgname sg_keys "C 1 2 1" = "c2" /\ pdb_sgname sg_keys "P 21 21 21" = "p212121".
Proof. exact pdb_sgname_examples. Qed.
Print Assumptions C17_pdb_sgname_examples.

(* C20 - input checks reject exactly the invalid inputs, and only while switched on.
   model/Checks.v: hand model of checks._checkState and of the numpy.allclose predicates with the code's tolerances; tied to the package by
   assignment/call histories (search harness). *)
From Coq Require Import Reals List Bool.
From XV Require Import RealLib Mat3 Checks P20 P20_near.
Import ListNotations.
Open Scope R_scope.

Theorem C20_switch_is_last_valid_value : forall vs, run_assign vs = last_valid vs true.
Proof. exact switch_last_valid. Qed.
Print Assumptions C20_switch_is_last_valid_value.
Theorem C20_invalid_assignment_raises_and_keeps : forall s v, is_valid v = false -> assign s v = (s, ValueError).
Proof. exact invalid_assignment_raises_and_keeps. Qed.
Print Assumptions C20_invalid_assignment_raises_and_keeps.
Theorem C20_valid_assignment_sets : forall s v, is_valid v = true -> assign s v = (as_bool v, Done).
Proof. exact valid_assignment_sets. Qed.
Print Assumptions C20_valid_assignment_sets.
Theorem C20_guard_on_invalid : forall (X Y : Type) ok (f : X -> Y) x, ok x = false -> guarded true ok f x = Raised.
Proof. exact (@guarded_on_invalid). Qed.
Print Assumptions C20_guard_on_invalid.
Theorem C20_guard_on_valid : forall (X Y : Type) ok (f : X -> Y) x, ok x = true -> guarded true ok f x = Value (f x).
Proof. exact (@guarded_on_valid). Qed.
Print Assumptions C20_guard_on_valid.
Theorem C20_guard_off : forall (X Y : Type) ok (f : X -> Y) x, guarded false ok f x = Value (f x).
Proof. exact (@guarded_off). Qed.
Print Assumptions C20_guard_off.
Theorem C20_accepts_rotations : forall U, is_rot U -> check_rotation U.
Proof. exact accepts_rotations. Qed.
Print Assumptions C20_accepts_rotations.
(* never rejects a clearly valid input: any proper rotation perturbed entrywise by at most 1e-7 (single precision and better) *)
Theorem C20_accepts_near_rotations : forall U E, is_rot U -> small E (1 / 10000000) -> check_rotation (madd U E).
Proof. exact accepts_near. Qed.
Print Assumptions C20_accepts_near_rotations.
Theorem C20_rejects_far_det : forall U, Rabs (mdet U - 1) > 11 / 1000000 -> ~ check_rotation U.
Proof. exact rejects_far_det. Qed.
Print Assumptions C20_rejects_far_det.
Theorem C20_rejects_far_diag : forall U, Rabs (m00 (mmul (mtrans U) U) - 1) > 11 / 1000000 -> ~ check_rotation U.
Proof. exact rejects_far_diag. Qed.
Print Assumptions C20_rejects_far_diag.
Theorem C20_rejects_far_offdiag : forall U, Rabs (m01 (mmul (mtrans U) U)) > 1 / 1000000 -> ~ check_rotation U.
Proof. exact rejects_far_offdiag. Qed.
Print Assumptions C20_rejects_far_offdiag.

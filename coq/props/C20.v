(* C20 - input checks reject exactly the invalid inputs, and only while switched on.
   model/Checks.v: hand model of checks._checkState and of the numpy.allclose predicates with the code's tolerances.  Tie: gen/Gen_checks.v is regenerated on every
   run from the AST of xfab/checks.py (predicates, tolerances, setter) and of the guard sites in tools.py / laue.py / symmetry.py (vlib/checksgen.py, fail closed);
   the C20_source_* theorems state that the generated definitions are the model's; the call histories of the search harness exercise the same sixteen sites. *)
From Coq Require Import Reals List Bool.
From XV Require Import RealLib Mat3 Checks Gen_checks P20 P20_near P20_tie.
Import ListNotations.
Open Scope R_scope.

Theorem C20_switch_is_last_valid_value : forall vs, run_assign vs = last_valid vs true.
Proof. exact switch_last_valid. Qed.
Print Assumptions C20_switch_is_last_valid_value.
Theorem C20_invalid_assignment_raises_and_keeps : forall s v, is_valid v = false -> assign s v = (s, ValueError).
Proof. exact invalid_assignment_raises_and_keeps. Qed.
Print Assumptions C20_invalid_assignment_raises_and_keeps.
Theorem C20_valid_assignment_sets : forall s v, is_valid v = true -> assign s v = (as_bool v, Done).
Proof. exact valid_assignment_sets. Qed.
Print Assumptions C20_valid_assignment_sets.
Theorem C20_guard_on_invalid : forall (X Y : Type) ok (f : X -> Y) x, ok x = false -> guarded true ok f x = Raised.
Proof. exact (@guarded_on_invalid). Qed.
Print Assumptions C20_guard_on_invalid.
Theorem C20_guard_on_valid : forall (X Y : Type) ok (f : X -> Y) x, ok x = true -> guarded true ok f x = Value (f x).
Proof. exact (@guarded_on_valid). Qed.
Print Assumptions C20_guard_on_valid.
Theorem C20_guard_off : forall (X Y : Type) ok (f : X -> Y) x, guarded false ok f x = Value (f x).
Proof. exact (@guarded_off). Qed.
Print Assumptions C20_guard_off.
Theorem C20_accepts_rotations : forall U, is_rot U -> check_rotation U.
Proof. exact accepts_rotations. Qed.
Print Assumptions C20_accepts_rotations.
(* never rejects a clearly valid input: any proper rotation perturbed entrywise by at most 1e-7 (single precision and better) *)
Theorem C20_accepts_near_rotations : forall U E, is_rot U -> small E (1 / 10000000) -> check_rotation (madd U E).
Proof. exact accepts_near. Qed.
Print Assumptions C20_accepts_near_rotations.
Theorem C20_rejects_far_det : forall U, Rabs (mdet U - 1) > 11 / 1000000 -> ~ check_rotation U.
Proof. exact rejects_far_det. Qed.
Print Assumptions C20_rejects_far_det.
Theorem C20_rejects_far_diag : forall U, Rabs (m00 (mmul (mtrans U) U) - 1) > 11 / 1000000 -> ~ check_rotation U.
Proof. exact rejects_far_diag. Qed.
Print Assumptions C20_rejects_far_diag.
Theorem C20_rejects_far_offdiag : forall U, Rabs (m01 (mmul (mtrans U) U)) > 1 / 1000000 -> ~ check_rotation U.
Proof. exact rejects_far_offdiag. Qed.
Print Assumptions C20_rejects_far_offdiag.

(* the model is what the source says on this run *)
Theorem C20_source_rotation_check : forall U, gen_check_rotation U <-> check_rotation U.
Proof. exact gen_check_rotation_iff. Qed.
Print Assumptions C20_source_rotation_check.
Theorem C20_source_euler_check : forall p1 P p2, gen_check_euler p1 P p2 <-> check_euler p1 P p2.
Proof. exact gen_check_euler_iff. Qed.
Print Assumptions C20_source_euler_check.
Theorem C20_source_ubi_check : forall A, gen_check_ubi A <-> check_ubi A.
Proof. exact gen_check_ubi_iff. Qed.
Print Assumptions C20_source_ubi_check.
Theorem C20_source_switch : forall vs, fold_left (fun s v => fst (gen_assign s v)) vs gen_initial_state = last_valid vs true.
Proof. exact gen_switch_last_valid. Qed.
Print Assumptions C20_source_switch.
Theorem C20_source_guard_sites : gen_guard_sites = expected_guard_sites.
Proof. exact guard_sites_as_expected. Qed.
Print Assumptions C20_source_guard_sites.
Theorem C20_source_accepts_near_rotations : forall U E, is_rot U -> small E (1 / 10000000) -> gen_check_rotation (madd U E).
Proof. exact gen_accepts_near. Qed.
Print Assumptions C20_source_accepts_near_rotations.
Theorem C20_source_rejects_far_offdiag : forall U, Rabs (m01 (mmul (mtrans U) U)) > 1 / 1000000 -> ~ gen_check_rotation U.
Proof. exact gen_rejects_far_offdiag. Qed.
Print Assumptions C20_source_rejects_far_offdiag.

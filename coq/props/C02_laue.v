(* C02 (xfab.laue) - U, B, UBI convert into each other without loss.  numpy.linalg.qr enters as an oracle [qr]
   constrained only by [qr_spec] (Q orthogonal, R upper triangular, QR = UB), checked on samples by the correspondence. *)
From Coq Require Import Reals.
From XV Require Import RealLib Mat3 Cell Gen_laue P02_laue NonVac.
Open Scope R_scope.

Theorem C02_laue_ubi_rows_are_lattice_vectors : forall U c h, is_rot U -> valid_cell c ->
  mvmul (laue_u_to_ubi U c) (mvmul (mmul U (laue_form_b_mat c)) h) = h.
Proof. exact laue_ubi_lattice. Qed.
Print Assumptions C02_laue_ubi_rows_are_lattice_vectors.
Theorem C02_laue_ubi_to_cell_inverts : forall U c, is_rot U -> valid_cell c -> laue_ubi_to_cell (laue_u_to_ubi U c) = c.
Proof. exact laue_ubi_to_cell_inv. Qed.
Print Assumptions C02_laue_ubi_to_cell_inverts.
Theorem C02_laue_ubi_to_u_inverts : forall U c, is_rot U -> valid_cell c -> laue_ubi_to_u (laue_u_to_ubi U c) = U.
Proof. exact laue_ubi_to_u_inv. Qed.
Print Assumptions C02_laue_ubi_to_u_inverts.
Theorem C02_laue_ub_split : forall qr UB, qr_spec UB (fst (qr UB)) (snd (qr UB)) -> 0 < mdet UB ->
  let UBs := laue_ub_to_u_b qr UB in
  mmul (fst UBs) (snd UBs) = UB /\ is_rot (fst UBs) /\ upper_posdiag (snd UBs).
Proof. exact laue_ub_split. Qed.
Print Assumptions C02_laue_ub_split.
Theorem C02_laue_ub_split_unique : forall qr UB U B, qr_spec UB (fst (qr UB)) (snd (qr UB)) -> 0 < mdet UB ->
  is_rot U -> upper_posdiag B -> mmul U B = UB -> laue_ub_to_u_b qr UB = (U, B).
Proof. exact laue_ub_split_unique. Qed.
Print Assumptions C02_laue_ub_split_unique.
Theorem C02_laue_ubi_to_u_b_inverts : forall qr U c, is_rot U -> valid_cell c ->
  let UB := mmul U (laue_form_b_mat c) in
  qr_spec UB (fst (qr UB)) (snd (qr UB)) ->
  laue_ubi_to_u_b qr (laue_u_to_ubi U c) = (U, laue_form_b_mat c).
Proof. exact laue_ubi_to_u_b_inv. Qed.
Print Assumptions C02_laue_ubi_to_u_b_inverts.
Theorem C02_laue_ubi_to_rod : forall U c, is_rot U -> valid_cell c -> laue_ubi_to_rod (laue_u_to_ubi U c) = laue_u_to_rod U.
Proof. exact laue_ubi_to_rod_def. Qed.
Print Assumptions C02_laue_ubi_to_rod.
Theorem C02_nonvacuous : valid_cell (mkV6 3 4 5 80 95 100) /\ is_rot (Rz 1).
Proof. exact (conj (proj1 valid_cell_examples) (rot_Rz 1)). Qed.
Print Assumptions C02_nonvacuous.

(* C05 - genhkl_all returns exactly the reflections the space group allows in the shell (partial: see DESIGN.md).
   ast_laue_sysabs: AST-translated from laue.py (equal to the tools version, C14); segm_laue / segm_tools: literals of genhkl_base;
   all_settings: the 237 tables; model/Traverse.v: hand model of the traversal, tied by in-Coq evaluation against the implementation. *)
From Coq Require Import ZArith List Bool String.
From XV Require Import SGroup HklModel Traverse Tab_segm Ast_laue Tab_sg_all P05 P05_complete P06_fd P05_cov_all P06_fd_main P05_all P05_nodup P05_qinv P05_final P05_extinv P05_box.
Open Scope Z_scope.

(* on the traversal's asymmetric unit (box [-7,7]^3, all 237 settings): sysabs = 0  <->  no operation (R,t) has hR = h with h.t non-integer *)
Theorem C05_sysabs_is_operator_extinction : forallb (sysabs_ok ast_laue_sysabs segm_laue 7) all_settings = true.
Proof. exact sysabs_all. Qed.
Print Assumptions C05_sysabs_is_operator_extinction.

Theorem C05_segment_tables_agree : segm_tools = segm_laue.
Proof. exact segm_same. Qed.
Print Assumptions C05_segment_tables_agree.

Theorem C05_segment_tables_unimodular :
  forallb (fun s => match lookup_segm segm_laue (sg_laue s) (sg_choice s) with Some segs => unimodular_segs segs | None => false end) all_settings = true.
Proof. exact segm_all_found. Qed.
Print Assumptions C05_segment_tables_unimodular.

(* none extra: every row of the traversal model is allowed, inside the shell, and in the cone of one segment (any metric, shell, fuel) *)
Theorem C05_traversal_sound : forall G Tmin Tmax Tterm allowed fuel segs l,
  all_segments G Tmin Tmax Tterm allowed fuel segs = Some l ->
  forall x, In x l -> (allowed x = true /\ Tmin < qform G x <= Tmax) /\ exists seg, In seg segs /\ in_cone seg x.
Proof. exact all_segments_sound. Qed.
Print Assumptions C05_traversal_sound.

(* the expansion of one representative: each rotated / negated image exactly once *)
Theorem C05_expand_is_orbit : forall rots h, NoDup (expand rots h) /\
  forall x, In x (expand rots h) <-> exists R, In R rots /\ (x = vmZ h R \/ x = vmZ h (mnegZ R)).
Proof. exact expand_is_orbit. Qed.
Print Assumptions C05_expand_is_orbit.

(* none missed (model): when sin(theta)/lambda does not decrease along the three loop directions inside every segment's cone
   (gram_ok: the Gram products of the directions, and of the start with each direction, are non-negative), every allowed point of a
   cone inside the shell is a row of the traversal.  Where gram_ok fails the implementation does miss reflections (known finding F6). *)
Theorem C05_traversal_complete_if_monotone : forall G Tmin Tmax Tterm allowed, Tmax <= Tterm -> forall fuel segs l,
  all_segments G Tmin Tmax Tterm allowed fuel segs = Some l -> (forall seg, In seg segs -> gram_ok G seg = true) ->
  forall x seg, In seg segs -> in_cone seg x -> keep G Tmin Tmax allowed x = true -> In x l.
Proof. exact all_segments_complete. Qed.
Print Assumptions C05_traversal_complete_if_monotone.
(* the condition holds for every conforming reciprocal metric of the orthorhombic, tetragonal, cubic and hexagonal-axes systems
   (and for monoclinic / triclinic tables when the reciprocal metric happens to be orthogonal) *)
Theorem C05_monotone_systems : forall laue choice G, (choice = "standard" \/ choice = "hexagonal")%string -> monotone_system laue choice G ->
  forall seg, In seg (segs_of laue choice) -> gram_ok G seg = true.
Proof. exact monotone_system_ok. Qed.
Print Assumptions C05_monotone_systems.
Theorem C05_traversal_complete_in_those_systems : forall laue choice G Tmin Tmax Tterm allowed fuel l,
  (choice = "standard" \/ choice = "hexagonal")%string -> monotone_system laue choice G -> Tmax <= Tterm ->
  all_segments G Tmin Tmax Tterm allowed fuel (segs_of laue choice) = Some l ->
  forall x seg, In seg (segs_of laue choice) -> in_cone seg x -> allowed x = true -> Tmin < qform G x <= Tmax -> In x l.
Proof. exact traversal_complete_systems. Qed.
Print Assumptions C05_traversal_complete_in_those_systems.
Theorem C05_monotone_fails_for_oblique_monoclinic : exists G seg, In seg (segs_of "2/m" "standard") /\ gram_ok G seg = false.
Proof. exact mono_fails_oblique. Qed.
Print Assumptions C05_monotone_fails_for_oblique_monoclinic.
Theorem C05_boolean_cone_test_is_cone_membership : forall seg x, in_region seg x = true -> in_cone seg x.
Proof. exact in_region_cone. Qed.
Print Assumptions C05_boolean_cone_test_is_cone_membership.

(* every non-zero hkl has a member of its Laue orbit in one of the cones (all of Z^3, every segment table; the group of a table entry is the
   Laue group of every setting that selects it - checked by computation in fd_settings_ok) *)
Theorem C05_cones_cover_every_family : forall e, In e fd_table -> forall x y z, (x <> 0 \/ y <> 0 \/ z <> 0) ->
  exists R seg, In R (snd (fst e)) /\ In seg (snd e) /\ in_cone seg (vmZ (x, y, z) R).
Proof. exact fd_table_cover. Qed.
Print Assumptions C05_cones_cover_every_family.
Theorem C05_settings_match_their_table_entry : forallb fd_setting_ok all_settings = true.
Proof. exact fd_settings_ok. Qed.
Print Assumptions C05_settings_match_their_table_entry.
(* none missed, end to end, for the model of genhkl_all (representatives from the traversal, expanded by the point-group rotations and their
   negatives): every allowed non-zero reflection inside the shell is listed, for every setting, whenever the metric passes gram_ok for the
   setting's segments (C05_monotone_systems) and the metric and the reflection conditions are invariant under the Laue group. *)
Theorem C05_none_missed_where_monotone : forall s, In s all_settings -> forall L segs rots,
  all_mats (firstn (Z.to_nat (sg_nuniq s)) (sg_rot s)) = Some rots -> L = (rots ++ map mnegZ rots)%list ->
  lookup_segm segm_laue (sg_laue s) (sg_choice s) = Some segs ->
  forall G Tmin Tmax Tterm allowed, Tmax <= Tterm ->
  (forall seg, In seg segs -> gram_ok G seg = true) ->
  (forall R h, In R L -> qform G (vmZ h R) = qform G h) ->
  (forall R h, In R L -> qform G h <= Tmax -> allowed (vmZ h R) = allowed h) ->
  forall fuel reps, all_segments G Tmin Tmax Tterm allowed fuel segs = Some reps ->
  forall h, h <> (0, 0, 0) -> allowed h = true -> Tmin < qform G h <= Tmax -> In h (flat_map (expand rots) reps).
Proof. exact all_rows_complete. Qed.
Print Assumptions C05_none_missed_where_monotone.

(* none repeated: the rows of the traversal and the list produced by the model of genhkl_all are duplicate-free, for every setting, metric and shell *)
Theorem C05_representatives_listed_once : forall s, In s all_settings -> forall L segs rots,
  all_mats (firstn (Z.to_nat (sg_nuniq s)) (sg_rot s)) = Some rots -> L = (rots ++ map mnegZ rots)%list ->
  lookup_segm segm_laue (sg_laue s) (sg_choice s) = Some segs ->
  forall G Tmin Tmax Tterm allowed fuel reps, all_segments G Tmin Tmax Tterm allowed fuel segs = Some reps -> NoDup reps.
Proof. exact reps_nodup. Qed.
Print Assumptions C05_representatives_listed_once.
Theorem C05_reflections_listed_once : forall s, In s all_settings -> forall L segs rots,
  all_mats (firstn (Z.to_nat (sg_nuniq s)) (sg_rot s)) = Some rots -> L = (rots ++ map mnegZ rots)%list ->
  lookup_segm segm_laue (sg_laue s) (sg_choice s) = Some segs ->
  forall G Tmin Tmax Tterm allowed fuel reps, all_segments G Tmin Tmax Tterm allowed fuel segs = Some reps -> NoDup (flat_map (expand rots) reps).
Proof. exact all_rows_nodup. Qed.
Print Assumptions C05_reflections_listed_once.
(* exactly the allowed reflections of the shell, each once - where the traversal is monotone *)
Theorem C05_exactly_the_allowed_reflections_where_monotone : forall s L segs rots G Tmin Tmax Tterm allowed fuel reps,
  In s all_settings -> all_mats (firstn (Z.to_nat (sg_nuniq s)) (sg_rot s)) = Some rots -> L = (rots ++ map mnegZ rots)%list ->
  lookup_segm segm_laue (sg_laue s) (sg_choice s) = Some segs ->
  0 <= Tmin -> Tmax <= Tterm -> (forall seg, In seg segs -> gram_ok G seg = true) ->
  (forall R h, In R L -> qform G (vmZ h R) = qform G h) -> (forall R h, In R L -> qform G h <= Tmax -> allowed (vmZ h R) = allowed h) ->
  all_segments G Tmin Tmax Tterm allowed fuel segs = Some reps ->
  NoDup (flat_map (expand rots) reps) /\
  forall h, In h (flat_map (expand rots) reps) <-> (allowed h = true /\ Tmin < qform G h <= Tmax).
Proof. exact all_rows_exact. Qed.
Print Assumptions C05_exactly_the_allowed_reflections_where_monotone.

(* the same with the metric hypotheses discharged: every setting of the orthorhombic, tetragonal, cubic and hexagonal-axes systems (and
   orthogonal monoclinic / triclinic metrics), every conforming reciprocal metric (monotone_system), any shell *)
Theorem C05_exactly_the_allowed_reflections_in_monotone_systems : forall s L segs rots G Tmin Tmax Tterm allowed fuel reps,
  In s all_settings -> all_mats (firstn (Z.to_nat (sg_nuniq s)) (sg_rot s)) = Some rots -> L = (rots ++ map mnegZ rots)%list ->
  lookup_segm segm_laue (sg_laue s) (sg_choice s) = Some segs ->
  (sg_choice s = "standard" \/ sg_choice s = "hexagonal")%string -> monotone_system (sg_laue s) (sg_choice s) G ->
  0 <= Tmin -> Tmax <= Tterm -> (forall R h, In R L -> qform G h <= Tmax -> allowed (vmZ h R) = allowed h) ->
  all_segments G Tmin Tmax Tterm allowed fuel segs = Some reps ->
  NoDup (flat_map (expand rots) reps) /\
  forall h, In h (flat_map (expand rots) reps) <-> (allowed h = true /\ Tmin < qform G h <= Tmax).
Proof. exact exact_in_monotone_systems. Qed.
Print Assumptions C05_exactly_the_allowed_reflections_in_monotone_systems.
Theorem C05_monotone_setting_exists : exists s, In s all_settings /\ sg_no s = 62 /\ (sg_choice s = "standard")%string /\
  monotone_system (sg_laue s) (sg_choice s) (mkMet 7 11 13 0 0 0).
Proof. exact monotone_setting_exists. Qed.
Print Assumptions C05_monotone_setting_exists.

(* with the real reflection conditions: the traversal is run with sysabs (AST-translated from the source) and the result is characterised by
   operator extinction.  For every setting of the monotone systems, every conforming metric and every shell that fits in the box [-7,7]^3
   (Hbox), the model of genhkl_all lists exactly the reflections that no operation of the group extinguishes, each once.  The two finite facts
   used (sysabs = not extinct on the asymmetric unit, extinction constant on Laue orbits of representatives) are kernel computations over the box. *)
Theorem C05_extinction_constant_on_orbits_box : forallb (ext_inv_ok 7) all_settings = true.
Proof. exact ext_inv_all. Qed.
Print Assumptions C05_extinction_constant_on_orbits_box.
Theorem C05_exact_with_real_sysabs_in_box : forall s, In s all_settings -> forall ops L segs rots,
  ops_of (sg_rot s) (sg_trans s) = Some ops ->
  all_mats (firstn (Z.to_nat (sg_nuniq s)) (sg_rot s)) = Some rots -> L = (rots ++ map mnegZ rots)%list ->
  lookup_segm segm_laue (sg_laue s) (sg_choice s) = Some segs ->
  forall G Tmin Tmax Tterm, (sg_choice s = "standard" \/ sg_choice s = "hexagonal")%string -> monotone_system (sg_laue s) (sg_choice s) G ->
  0 <= Tmin -> Tmax <= Tterm ->
  (forall x y z, qform G (x, y, z) <= Tmax -> (-7 <= x <= 7) /\ (-7 <= y <= 7) /\ (-7 <= z <= 7)) ->
  forall fuel reps, all_segments G Tmin Tmax Tterm (allowedS s) fuel segs = Some reps ->
  NoDup (flat_map (expand rots) reps) /\
  forall h, In h (flat_map (expand rots) reps) <-> (extinct ops h = false /\ Tmin < qform G h <= Tmax).
Proof. exact exact_with_real_sysabs. Qed.
Print Assumptions C05_exact_with_real_sysabs_in_box.
Theorem C05_box_hypothesis_satisfiable : forall x y z, qform (mkMet 7 11 13 0 0 0) (x, y, z) <= 300 -> (-7 <= x <= 7) /\ (-7 <= y <= 7) /\ (-7 <= z <= 7).
Proof. exact box_hypothesis_satisfiable. Qed.
Print Assumptions C05_box_hypothesis_satisfiable.

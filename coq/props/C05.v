(* C05 - genhkl_all returns exactly the reflections the space group allows in the shell (partial: see DESIGN.md).
   ast_laue_sysabs: AST-translated from laue.py (equal to the tools version, C14); segm_laue / segm_tools: literals of genhkl_base;
   all_settings: the 237 tables; model/Traverse.v: hand model of the traversal, tied by in-Coq evaluation against the implementation. *)
From Coq Require Import ZArith List Bool String.
From XV Require Import SGroup HklModel Traverse Tab_segm Ast_laue Tab_sg_all P05.
Open Scope Z_scope.

(* on the traversal's asymmetric unit (box [-7,7]^3, all 237 settings): sysabs = 0  <->  no operation (R,t) has hR = h with h.t non-integer *)
Theorem C05_sysabs_is_operator_extinction : forallb (sysabs_ok ast_laue_sysabs segm_laue 7) all_settings = true.
Proof. exact sysabs_all. Qed.
Print Assumptions C05_sysabs_is_operator_extinction.

Theorem C05_segment_tables_agree : segm_tools = segm_laue.
Proof. exact segm_same. Qed.
Print Assumptions C05_segment_tables_agree.

Theorem C05_segment_tables_unimodular :
  forallb (fun s => match lookup_segm segm_laue (sg_laue s) (sg_choice s) with Some segs => unimodular_segs segs | None => false end) all_settings = true.
Proof. exact segm_all_found. Qed.
Print Assumptions C05_segment_tables_unimodular.

(* none extra: every row of the traversal model is allowed, inside the shell, and in the cone of one segment (any metric, shell, fuel) *)
Theorem C05_traversal_sound : forall G Tmin Tmax Tterm allowed fuel segs l,
  all_segments G Tmin Tmax Tterm allowed fuel segs = Some l ->
  forall x, In x l -> (allowed x = true /\ Tmin < qform G x <= Tmax) /\ exists seg, In seg segs /\ in_cone seg x.
Proof. exact all_segments_sound. Qed.
Print Assumptions C05_traversal_sound.

(* the expansion of one representative: each rotated / negated image exactly once *)
Theorem C05_expand_is_orbit : forall rots h, NoDup (expand rots h) /\
  forall x, In x (expand rots h) <-> exists R, In R rots /\ (x = vmZ h R \/ x = vmZ h (mnegZ R)).
Proof. exact expand_is_orbit. Qed.
Print Assumptions C05_expand_is_orbit.

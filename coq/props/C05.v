(* C05 - genhkl_all returns exactly the reflections the space group allows in the shell (partial: see DESIGN.md).
   ast_laue_sysabs: AST-translated from laue.py (equal to the tools version, C14); segm_laue / segm_tools: literals of genhkl_base;
   all_settings: the 237 tables; model/Traverse.v: hand model of the traversal, tied by in-Coq evaluation against the implementation. *)
From Coq Require Import ZArith List Bool String.
From XV Require Import SGroup HklModel Traverse Tab_segm Ast_laue Tab_sg_all P05 P05_complete P06_fd P05_cov_all P06_fd_main P05_all.
Open Scope Z_scope.

(* on the traversal's asymmetric unit (box [-7,7]^3, all 237 settings): sysabs = 0  <->  no operation (R,t) has hR = h with h.t non-integer *)
Theorem C05_sysabs_is_operator_extinction : forallb (sysabs_ok ast_laue_sysabs segm_laue 7) all_settings = true.
Proof. exact sysabs_all. Qed.
Print Assumptions C05_sysabs_is_operator_extinction.

Theorem C05_segment_tables_agree : segm_tools = segm_laue.
Proof. exact segm_same. Qed.
Print Assumptions C05_segment_tables_agree.

Theorem C05_segment_tables_unimodular :
  forallb (fun s => match lookup_segm segm_laue (sg_laue s) (sg_choice s) with Some segs => unimodular_segs segs | None => false end) all_settings = true.
Proof. exact segm_all_found. Qed.
Print Assumptions C05_segment_tables_unimodular.

(* none extra: every row of the traversal model is allowed, inside the shell, and in the cone of one segment (any metric, shell, fuel) *)
Theorem C05_traversal_sound : forall G Tmin Tmax Tterm allowed fuel segs l,
  all_segments G Tmin Tmax Tterm allowed fuel segs = Some l ->
  forall x, In x l -> (allowed x = true /\ Tmin < qform G x <= Tmax) /\ exists seg, In seg segs /\ in_cone seg x.
Proof. exact all_segments_sound. Qed.
Print Assumptions C05_traversal_sound.

(* the expansion of one representative: each rotated / negated image exactly once *)
Theorem C05_expand_is_orbit : forall rots h, NoDup (expand rots h) /\
  forall x, In x (expand rots h) <-> exists R, In R rots /\ (x = vmZ h R \/ x = vmZ h (mnegZ R)).
Proof. exact expand_is_orbit. Qed.
Print Assumptions C05_expand_is_orbit.

(* none missed (model): when sin(theta)/lambda does not decrease along the three loop directions inside every segment's cone
   (gram_ok: the Gram products of the directions, and of the start with each direction, are non-negative), every allowed point of a
   cone inside the shell is a row of the traversal.  Where gram_ok fails the implementation does miss reflections (known finding F6). *)
Theorem C05_traversal_complete_if_monotone : forall G Tmin Tmax Tterm allowed, Tmax <= Tterm -> forall fuel segs l,
  all_segments G Tmin Tmax Tterm allowed fuel segs = Some l -> (forall seg, In seg segs -> gram_ok G seg = true) ->
  forall x seg, In seg segs -> in_cone seg x -> keep G Tmin Tmax allowed x = true -> In x l.
Proof. exact all_segments_complete. Qed.
Print Assumptions C05_traversal_complete_if_monotone.
(* the condition holds for every conforming reciprocal metric of the orthorhombic, tetragonal, cubic and hexagonal-axes systems
   (and for monoclinic / triclinic tables when the reciprocal metric happens to be orthogonal) *)
Theorem C05_monotone_systems : forall laue choice G, (choice = "standard" \/ choice = "hexagonal")%string -> monotone_system laue choice G ->
  forall seg, In seg (segs_of laue choice) -> gram_ok G seg = true.
Proof. exact monotone_system_ok. Qed.
Print Assumptions C05_monotone_systems.
Theorem C05_traversal_complete_in_those_systems : forall laue choice G Tmin Tmax Tterm allowed fuel l,
  (choice = "standard" \/ choice = "hexagonal")%string -> monotone_system laue choice G -> Tmax <= Tterm ->
  all_segments G Tmin Tmax Tterm allowed fuel (segs_of laue choice) = Some l ->
  forall x seg, In seg (segs_of laue choice) -> in_cone seg x -> allowed x = true -> Tmin < qform G x <= Tmax -> In x l.
Proof. exact traversal_complete_systems. Qed.
Print Assumptions C05_traversal_complete_in_those_systems.
Theorem C05_monotone_fails_for_oblique_monoclinic : exists G seg, In seg (segs_of "2/m" "standard") /\ gram_ok G seg = false.
Proof. exact mono_fails_oblique. Qed.
Print Assumptions C05_monotone_fails_for_oblique_monoclinic.
Theorem C05_boolean_cone_test_is_cone_membership : forall seg x, in_region seg x = true -> in_cone seg x.
Proof. exact in_region_cone. Qed.
Print Assumptions C05_boolean_cone_test_is_cone_membership.

(* every non-zero hkl has a member of its Laue orbit in one of the cones (all of Z^3, every segment table; the group of a table entry is the
   Laue group of every setting that selects it - checked by computation in fd_settings_ok) *)
Theorem C05_cones_cover_every_family : forall e, In e fd_table -> forall x y z, (x <> 0 \/ y <> 0 \/ z <> 0) ->
  exists R seg, In R (snd (fst e)) /\ In seg (snd e) /\ in_cone seg (vmZ (x, y, z) R).
Proof. exact fd_table_cover. Qed.
Print Assumptions C05_cones_cover_every_family.
Theorem C05_settings_match_their_table_entry : forallb fd_setting_ok all_settings = true.
Proof. exact fd_settings_ok. Qed.
Print Assumptions C05_settings_match_their_table_entry.
(* none missed, end to end, for the model of genhkl_all (representatives from the traversal, expanded by the point-group rotations and their
   negatives): every allowed non-zero reflection inside the shell is listed, for every setting, whenever the metric passes gram_ok for the
   setting's segments (C05_monotone_systems) and the metric and the reflection conditions are invariant under the Laue group. *)
Theorem C05_none_missed_where_monotone : forall s, In s all_settings -> forall L segs rots,
  all_mats (firstn (Z.to_nat (sg_nuniq s)) (sg_rot s)) = Some rots -> L = (rots ++ map mnegZ rots)%list ->
  lookup_segm segm_laue (sg_laue s) (sg_choice s) = Some segs ->
  forall G Tmin Tmax Tterm allowed, Tmax <= Tterm ->
  (forall seg, In seg segs -> gram_ok G seg = true) ->
  (forall R h, In R L -> qform G (vmZ h R) = qform G h) ->
  (forall R h, In R L -> allowed (vmZ h R) = allowed h) ->
  forall fuel reps, all_segments G Tmin Tmax Tterm allowed fuel segs = Some reps ->
  forall h, h <> (0, 0, 0) -> allowed h = true -> Tmin < qform G h <= Tmax -> In h (flat_map (expand rots) reps).
Proof. exact all_rows_complete. Qed.
Print Assumptions C05_none_missed_where_monotone.

(* C10 - detector pixel of a reflection lies on its scattered ray on the tilted detector.
   detector_* definitions are regenerated from /repo/xfab/detector.py, tools_detect_tilt from tools.py. *)
From Coq Require Import Reals.
From XV Require Import RealLib Mat3 Gen_tools Gen_detector P03_laue P14_rot P03_tools P10.
Open Scope R_scope.

Theorem C10_det_coor_eq_det_coor2 : forall Gt costth wl tth eta L py pz y0 z0 Rt tx ty tz,
  costth = cos tth -> wl / (2 * PI) * vy Gt = - sin tth * sin eta -> wl / (2 * PI) * vz Gt = sin tth * cos eta ->
  detector_det_coor Gt costth wl L py pz y0 z0 Rt tx ty tz = detector_det_coor2 tth eta L py pz y0 z0 Rt tx ty tz.
Proof. exact coor_eq_coor2. Qed.
Print Assumptions C10_det_coor_eq_det_coor2.

Theorem C10_pixel_on_ray : forall tth eta L py pz y0 z0 Rt tx ty tz,
  is_rot Rt -> py <> 0 -> pz <> 0 ->
  let v := ray_dir tth eta in
  m00 Rt * vx v + m10 Rt * vy v + m20 Rt * vz v <> 0 ->
  let p := detector_det_coor2 tth eta L py pz y0 z0 Rt tx ty tz in
  detector_detector_to_lab (p0 p) (p1 p) L py pz y0 z0 Rt
  = vadd (mkV3 tx ty tz) (vscale (ray_t Rt L tx ty tz v) v).
Proof. exact on_ray. Qed.
Print Assumptions C10_pixel_on_ray.

Theorem C10_forward : forall Rt L tx ty tz v,
  0 < m00 Rt * L - (m00 Rt * tx + m10 Rt * ty + m20 Rt * tz) ->
  0 < m00 Rt * vx v + m10 Rt * vy v + m20 Rt * vz v -> 0 < ray_t Rt L tx ty tz v.
Proof. exact forward. Qed.
Print Assumptions C10_forward.

Theorem C10_tilt_matrix_is_rotation : forall a b c, is_rot (tools_detect_tilt a b c).
Proof. exact tools_tilt_rot. Qed.
Print Assumptions C10_tilt_matrix_is_rotation.

Theorem C10_untilted : forall tth eta L py pz y0 z0, cos tth <> 0 -> py <> 0 -> pz <> 0 ->
  detector_det_coor2 tth eta L py pz y0 z0 mI 0 0 0 =
  mkV2 (L * (- sin tth * sin eta) / cos tth / py + y0) (L * (sin tth * cos eta) / cos tth / pz + z0).
Proof. exact untilted. Qed.
Print Assumptions C10_untilted.

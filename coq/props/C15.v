(* C15 - site multiplicity equals the number of symmetry-equivalent positions in the cell.
   model_mult (model/Mult.v): hand model of the loop in structure.multiplicity, with the literal tabulated translations and the 1e-5 test,
   positions in 24ths; tied to the code by the correspondence (evaluated in Coq on sampled inputs).
   orbit_size: number of distinct points R p + t modulo lattice translations (translations snapped to twelfths, exact arithmetic). *)
From Coq Require Import ZArith List.
From XV Require Import SGroup Mult Tab_sg_all P15 P15_tab.

Theorem C15_multiplicity_is_orbit_size : forall s p, In s all_settings ->
  exists ops, ops_of (sg_rot s) (sg_trans s) = Some ops /\ model_mult s p = Some (orbit_size ops p).
Proof. exact multiplicity_all. Qed.
Print Assumptions C15_multiplicity_is_orbit_size.

Theorem C15_general : forall s ops p, ops_of (sg_rot s) (sg_trans s) = Some ops -> trans_tight s = true ->
  model_mult s p = Some (orbit_size ops p).
Proof. exact mult_is_orbit_size. Qed.
Print Assumptions C15_general.

Theorem C15_orbit_size_counts_distinct_points : forall ops p, exists u, NoDup u /\ length u = orbit_size ops p /\
  (forall k, In k u <-> exists o, In o ops /\ orbit_point o p = k).
Proof. exact orbit_size_counts. Qed.
Print Assumptions C15_orbit_size_counts_distinct_points.

Theorem C15_lattice_shift : forall ops p v,
  orbit_size ops (let '(x, y, z) := p in let '(a, b, c) := v in (x + 24 * a, y + 24 * b, z + 24 * c)%Z) = orbit_size ops p.
Proof. exact orbit_size_shift. Qed.
Print Assumptions C15_lattice_shift.

Theorem C15_tables_tight : forallb trans_tight all_settings = true.
Proof. exact all_tight. Qed.
Print Assumptions C15_tables_tight.

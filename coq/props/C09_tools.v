(* C09 (xfab.tools): g is used as given and must have length sin(theta) *)
From Coq Require Import Reals List.
From XV Require Import RealLib Mat3 OmegaSolve Cell Gen_tools P09_laue P09_quart P09_tools.
Import ListNotations.
Open Scope R_scope.

Theorem C09_tools_general : forall g tth wx wy oms etas,
  0 < tth < PI -> vx g * vx g + vy g * vy g + vz g * vz g = sin (tth / 2) * sin (tth / 2) ->
  gen_a g wy * gen_a g wy + gen_b g wy * gen_b g wy <> 0 ->
  tools_find_omega_general g tth wx wy = Some (oms, etas) ->
  (forall w e, In (w, e) (combine oms etas) -> diffracts (tools_form_omega_mat_general w wx wy) g tth e) /\
  (forall w, In w oms -> - PI < w <= PI) /\
  (forall w, - PI < w <= PI -> vx (mvmul (tools_form_omega_mat_general w wx wy) g) = - (sin (tth / 2) * sin (tth / 2)) -> In w oms).
Proof. exact tools_find_omega_general_sound. Qed.
Print Assumptions C09_tools_general.

Theorem C09_tools_quart : forall g tth wx wy oms etas,
  0 < tth < PI -> vx g * vx g + vy g * vy g + vz g * vz g = sin (tth / 2) * sin (tth / 2) ->
  quart_a g wx wy * quart_a g wx wy + quart_b g wx wy * quart_b g wx wy <> 0 ->
  tools_find_omega_quart g tth wx wy = Some (oms, etas) ->
  (forall w e, In (w, e) (combine oms etas) -> diffracts (tools_quart_to_omega (w * 180 / PI) wx wy) g tth e) /\
  (forall w, In w oms -> - PI < w <= PI) /\
  (forall w, - PI < w <= PI -> vx (mvmul (tools_quart_to_omega (w * 180 / PI) wx wy) g) = - (sin (tth / 2) * sin (tth / 2)) -> In w oms).
Proof. exact tools_find_omega_quart_sound. Qed.
Print Assumptions C09_tools_quart.

Theorem C09_tools_plain : forall g tth w, 0 < tth < PI ->
  vx g * vx g + vy g * vy g + vz g * vz g = sin (tth / 2) * sin (tth / 2) -> vx g * vx g + vy g * vy g <> 0 ->
  In w (tools_find_omega g tth) ->
  vx (mvmul (tools_form_omega_mat w) g) = - (sin (tth / 2) * sin (tth / 2)) /\ - PI < w <= PI.
Proof. exact tools_find_omega_sound. Qed.
Print Assumptions C09_tools_plain.

Theorem C09_tools_tth : forall c h wl, tools_tth c h wl = 2 * asin (wl * tools_sintl c h).
Proof. exact tools_tth_def. Qed.
Print Assumptions C09_tools_tth.
Theorem C09_tools_tth_eq_tth2 : forall U c h wl, is_rot U -> valid_cell c ->
  tools_tth2 (mvmul (mmul U (tools_form_b_mat c)) h) wl = tools_tth c h wl.
Proof. exact tools_tth_eq_tth2. Qed.
Print Assumptions C09_tools_tth_eq_tth2.

(* C09 (xfab.tools): g is used as given and must have length sin(theta) *)
From Coq Require Import Reals List.
From XV Require Import RealLib Mat3 OmegaSolve Cell Gen_tools P09_laue P09_quart P09_tools P09_wedge.
Import ListNotations.
Open Scope R_scope.

Theorem C09_tools_general : forall g tth wx wy oms etas,
  0 < tth < PI -> vx g * vx g + vy g * vy g + vz g * vz g = sin (tth / 2) * sin (tth / 2) ->
  gen_a g wy * gen_a g wy + gen_b g wy * gen_b g wy <> 0 ->
  tools_find_omega_general g tth wx wy = Some (oms, etas) ->
  (forall w e, In (w, e) (combine oms etas) -> diffracts (tools_form_omega_mat_general w wx wy) g tth e) /\
  (forall w, In w oms -> - PI < w <= PI) /\
  (forall w, - PI < w <= PI -> vx (mvmul (tools_form_omega_mat_general w wx wy) g) = - (sin (tth / 2) * sin (tth / 2)) -> In w oms).
Proof. exact tools_find_omega_general_sound. Qed.
Print Assumptions C09_tools_general.

Theorem C09_tools_quart : forall g tth wx wy oms etas,
  0 < tth < PI -> vx g * vx g + vy g * vy g + vz g * vz g = sin (tth / 2) * sin (tth / 2) ->
  quart_a g wx wy * quart_a g wx wy + quart_b g wx wy * quart_b g wx wy <> 0 ->
  tools_find_omega_quart g tth wx wy = Some (oms, etas) ->
  (forall w e, In (w, e) (combine oms etas) -> diffracts (tools_quart_to_omega (w * 180 / PI) wx wy) g tth e) /\
  (forall w, In w oms -> - PI < w <= PI) /\
  (forall w, - PI < w <= PI -> vx (mvmul (tools_quart_to_omega (w * 180 / PI) wx wy) g) = - (sin (tth / 2) * sin (tth / 2)) -> In w oms).
Proof. exact tools_find_omega_quart_sound. Qed.
Print Assumptions C09_tools_quart.

Theorem C09_tools_plain : forall g tth w, 0 < tth < PI ->
  vx g * vx g + vy g * vy g + vz g * vz g = sin (tth / 2) * sin (tth / 2) -> vx g * vx g + vy g * vy g <> 0 ->
  In w (tools_find_omega g tth) ->
  vx (mvmul (tools_form_omega_mat w) g) = - (sin (tth / 2) * sin (tth / 2)) /\ - PI < w <= PI.
Proof. exact tools_find_omega_sound. Qed.
Print Assumptions C09_tools_plain.

Theorem C09_tools_tth : forall c h wl, tools_tth c h wl = 2 * asin (wl * tools_sintl c h).
Proof. exact tools_tth_def. Qed.
Print Assumptions C09_tools_tth.
Theorem C09_tools_tth_eq_tth2 : forall U c h wl, is_rot U -> valid_cell c ->
  tools_tth2 (mvmul (mmul U (tools_form_b_mat c)) h) wl = tools_tth c h wl.
Proof. exact tools_tth_eq_tth2. Qed.
Print Assumptions C09_tools_tth_eq_tth2.

(* find_omega_wedge: wedge_mat wedge w = Ry(-wedge).Rz(w); wedge_coseta is the code's own coseta.  No hypothesis on the code's quantity a: since the repair of F11 (division by a replaced by the equivalent division by a^2 + b^2) the solution is exact also where a = 0, i.e. tan(theta) = tan(wedge) cos(eta) *)
Theorem C09_tools_wedge : forall g tth wedge oms etas,
  0 < tth < PI -> vx g * vx g + vy g * vy g <> 0 -> cos wedge <> 0 ->
  tools_find_omega_wedge g tth wedge = (oms, etas) ->
  let gn := normalise_to tth g in let ce := wedge_coseta g tth wedge in
  (1 < Rabs ce -> oms = [] /\ etas = []) /\
  (Rabs ce <= 1 ->
     exists w1 w2, oms = [w1; w2] /\ etas = [acos ce; - acos ce] /\
       diffracts (wedge_mat wedge w1) gn tth (acos ce) /\ diffracts (wedge_mat wedge w2) gn tth (- acos ce) /\
       - PI < w1 <= PI /\ - PI < w2 <= PI).
Proof. exact tools_find_omega_wedge_sound. Qed.
Print Assumptions C09_tools_wedge.
Theorem C09_tools_wedge_complete : forall g tth wedge w,
  0 < tth < PI -> vx g * vx g + vy g * vy g <> 0 -> cos wedge <> 0 ->
  let gn := normalise_to tth g in
  - PI < w <= PI -> vx (mvmul (wedge_mat wedge w) gn) = - (sin (tth / 2) * sin (tth / 2)) ->
  Rabs (wedge_coseta g tth wedge) <= 1 /\ In w (fst (tools_find_omega_wedge g tth wedge)).
Proof. exact tools_find_omega_wedge_complete. Qed.
Print Assumptions C09_tools_wedge_complete.

(* C06 - genhkl_unique lists one reflection per Laue family, sorted by true sintl (partial: see DESIGN.md).
   ast_laue_sysabs: AST-translated from laue.py (equal to the tools version, C14); segm_laue / segm_tools: literals of genhkl_base;
   all_settings: the 237 tables; model/Traverse.v: hand model of the traversal, tied by in-Coq evaluation against the implementation. *)
From Coq Require Import ZArith List Bool String Sorted Permutation.
From XV Require Import SGroup HklModel Traverse HklSort Tab_segm Ast_laue Tab_sg_all P05 P05_complete P06_fd P06_fd_main P05_all P05_nodup P06_sort.
Open Scope Z_scope.

(* on the traversal's asymmetric unit (box [-7,7]^3, all 237 settings): sysabs = 0  <->  no operation (R,t) has hR = h with h.t non-integer *)
Theorem C06_sysabs_is_operator_extinction : forallb (sysabs_ok ast_laue_sysabs segm_laue 7) all_settings = true.
Proof. exact sysabs_all. Qed.
Print Assumptions C06_sysabs_is_operator_extinction.

Theorem C06_segment_tables_agree : segm_tools = segm_laue.
Proof. exact segm_same. Qed.
Print Assumptions C06_segment_tables_agree.

Theorem C06_segment_tables_unimodular :
  forallb (fun s => match lookup_segm segm_laue (sg_laue s) (sg_choice s) with Some segs => unimodular_segs segs | None => false end) all_settings = true.
Proof. exact segm_all_found. Qed.
Print Assumptions C06_segment_tables_unimodular.

(* none extra: every row of the traversal model is allowed, inside the shell, and in the cone of one segment (any metric, shell, fuel) *)
Theorem C06_traversal_sound : forall G Tmin Tmax Tterm allowed fuel segs l,
  all_segments G Tmin Tmax Tterm allowed fuel segs = Some l ->
  forall x, In x l -> (allowed x = true /\ Tmin < qform G x <= Tmax) /\ exists seg, In seg segs /\ in_cone seg x.
Proof. exact all_segments_sound. Qed.
Print Assumptions C06_traversal_sound.

(* the expansion of one representative: each rotated / negated image exactly once *)
Theorem C06_expand_is_orbit : forall rots h, NoDup (expand rots h) /\
  forall x, In x (expand rots h) <-> exists R, In R rots /\ (x = vmZ h R \/ x = vmZ h (mnegZ R)).
Proof. exact expand_is_orbit. Qed.
Print Assumptions C06_expand_is_orbit.

(* none missed (model): when sin(theta)/lambda does not decrease along the three loop directions inside every segment's cone
   (gram_ok: the Gram products of the directions, and of the start with each direction, are non-negative), every allowed point of a
   cone inside the shell is a row of the traversal.  Where gram_ok fails the implementation does miss reflections (known finding F6). *)
Theorem C06_traversal_complete_if_monotone : forall G Tmin Tmax Tterm allowed, Tmax <= Tterm -> forall fuel segs l,
  all_segments G Tmin Tmax Tterm allowed fuel segs = Some l -> (forall seg, In seg segs -> gram_ok G seg = true) ->
  forall x seg, In seg segs -> in_cone seg x -> keep G Tmin Tmax allowed x = true -> In x l.
Proof. exact all_segments_complete. Qed.
Print Assumptions C06_traversal_complete_if_monotone.
(* the condition holds for every conforming reciprocal metric of the orthorhombic, tetragonal, cubic and hexagonal-axes systems
   (and for monoclinic / triclinic tables when the reciprocal metric happens to be orthogonal) *)
Theorem C06_monotone_systems : forall laue choice G, (choice = "standard" \/ choice = "hexagonal")%string -> monotone_system laue choice G ->
  forall seg, In seg (segs_of laue choice) -> gram_ok G seg = true.
Proof. exact monotone_system_ok. Qed.
Print Assumptions C06_monotone_systems.
Theorem C06_traversal_complete_in_those_systems : forall laue choice G Tmin Tmax Tterm allowed fuel l,
  (choice = "standard" \/ choice = "hexagonal")%string -> monotone_system laue choice G -> Tmax <= Tterm ->
  all_segments G Tmin Tmax Tterm allowed fuel (segs_of laue choice) = Some l ->
  forall x seg, In seg (segs_of laue choice) -> in_cone seg x -> allowed x = true -> Tmin < qform G x <= Tmax -> In x l.
Proof. exact traversal_complete_systems. Qed.
Print Assumptions C06_traversal_complete_in_those_systems.
Theorem C06_monotone_fails_for_oblique_monoclinic : exists G seg, In seg (segs_of "2/m" "standard") /\ gram_ok G seg = false.
Proof. exact mono_fails_oblique. Qed.
Print Assumptions C06_monotone_fails_for_oblique_monoclinic.
Theorem C06_boolean_cone_test_is_cone_membership : forall seg x, in_region seg x = true -> in_cone seg x.
Proof. exact in_region_cone. Qed.
Print Assumptions C06_boolean_cone_test_is_cone_membership.

(* one per Laue family, for all of Z^3 and every setting: if x lies in a cone of the traversal and so does x R for an element R of the
   setting's Laue group (rotation parts and their negatives), then x R = x (and it is the same cone).  laue_mats s is defined for
   every setting (C06_laue_groups_defined). *)
Theorem C06_asymmetric_unit_holds_one_member_per_family : forall s L segs, In s all_settings -> laue_mats s = Some L ->
  lookup_segm segm_laue (sg_laue s) (sg_choice s) = Some segs ->
  forall R seg1 seg2 x, In R L -> In seg1 segs -> In seg2 segs -> in_cone seg1 x -> in_cone seg2 (vmZ x R) -> vmZ x R = x /\ seg1 = seg2.
Proof. exact one_per_family. Qed.
Print Assumptions C06_asymmetric_unit_holds_one_member_per_family.
Theorem C06_rows_one_per_family : forall s L segs G Tmin Tmax Tterm allowed fuel l,
  In s all_settings -> laue_mats s = Some L -> lookup_segm segm_laue (sg_laue s) (sg_choice s) = Some segs ->
  all_segments G Tmin Tmax Tterm allowed fuel segs = Some l ->
  forall x y R, In x l -> In y l -> In R L -> y = vmZ x R -> y = x.
Proof. exact rows_one_per_family. Qed.
Print Assumptions C06_rows_one_per_family.
Theorem C06_laue_groups_defined : forallb (fun s => match laue_mats s with Some L => negb (Nat.eqb (List.length L) 0) | None => false end) all_settings = true.
Proof. exact laue_mats_defined. Qed.
Print Assumptions C06_laue_groups_defined.

Theorem C06_representatives_listed_once : forall s, In s all_settings -> forall L segs rots,
  all_mats (firstn (Z.to_nat (sg_nuniq s)) (sg_rot s)) = Some rots -> L = (rots ++ map mnegZ rots)%list ->
  lookup_segm segm_laue (sg_laue s) (sg_choice s) = Some segs ->
  forall G Tmin Tmax Tterm allowed fuel reps, all_segments G Tmin Tmax Tterm allowed fuel segs = Some reps -> NoDup reps.
Proof. exact reps_nodup. Qed.
Print Assumptions C06_representatives_listed_once.

(* ordering: model/HklSort.v sorts the rows on the integer sort key q(h) (sin(theta)/lambda = sqrt(q/S)/2 is increasing in q).  Every earlier row has a key <= every
   later row, nothing is lost, added or repeated by the sorting step, and the correspondence (keyseq_ok, evaluated in Coq on every run against the order in which the
   implementation returned its rows) implies that the implementation's rows are in non-decreasing order of q. *)
Theorem C06_rows_sorted_by_sintl : forall G l, StronglySorted (qle G) (sortq G l).
Proof. exact sortq_strongly. Qed.
Print Assumptions C06_rows_sorted_by_sintl.
Theorem C06_sorting_is_a_permutation : forall G l, Permutation (sortq G l) l.
Proof. exact sortq_perm. Qed.
Print Assumptions C06_sorting_is_a_permutation.
Theorem C06_sorting_keeps_rows_distinct : forall G l, NoDup l -> NoDup (sortq G l).
Proof. exact sortq_nodup. Qed.
Print Assumptions C06_sorting_keeps_rows_distinct.
Theorem C06_same_key_sequence_means_sorted : forall G m e, keyseq_ok G m e = true -> Sorted Z.le (map (qform G) e).
Proof. exact keyseq_sorted. Qed.
Print Assumptions C06_same_key_sequence_means_sorted.

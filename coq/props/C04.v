(* C04 - each tabulated space group is a group consistent with its metadata and names.
   all_settings / sg_byname are regenerated from /repo/xfab/sglib.py + sg.py on every run (through xfab.sg.sg).
   group_ok (lib/SGroup.v) is the executable statement: lengths, translations on the 1/12 grid, identity, closure,
   inverses, no duplicates, nuniq/centring bookkeeping, det = +-1, Laue order, metric preservation on a basis of the
   conforming metric tensors, 26 syscond slots.  The domain is finite, so evaluation in the kernel is a proof. *)
From Coq Require Import ZArith List Bool String.
From XV Require Import SGroup Tab_sg_all Tab_sgnames P04_all P04.
Import ListNotations.

Theorem C04_all_groups : forallb group_ok all_settings = true.
Proof. exact all_settings_ok. Qed.
Print Assumptions C04_all_groups.

Theorem C04_every_setting : forall s, In s all_settings -> group_ok s = true.
Proof. exact every_setting_ok. Qed.
Print Assumptions C04_every_setting.

Theorem C04_coverage :
  forallb (fun n => existsb (fun r => Z.eqb (sg_no r) n) all_settings) (map Z.of_nat (seq 1 230)) = true
  /\ forallb (fun r => (Z.leb 1 (sg_no r)) && (Z.leb (sg_no r) 230)) all_settings = true
  /\ List.length all_settings = 237%nat /\ List.length sg_byname = 244%nat.
Proof. exact all_numbers. Qed.
Print Assumptions C04_coverage.

(* lookup by every key of the name dictionary = lookup by the number and the setting the key implies,
   and the key is the normalised name of the group it resolves to *)
Theorem C04_names : forall e, In e sg_byname -> name_ok e = true.
Proof. exact every_name_ok. Qed.
Print Assumptions C04_names.

Theorem C04_all_reachable : forallb reachable all_settings = true.
Proof. exact all_reachable. Qed.
Print Assumptions C04_all_reachable.

(* whitespace / case variants (unbounded): the normal form used for the dictionary lookup ignores them *)
Theorem C04_variants_ws : forall a w b, all_ws w = true -> sg_normalise (a ++ w ++ b) = sg_normalise (a ++ b).
Proof. exact normalise_insert_ws. Qed.
Print Assumptions C04_variants_ws.
Theorem C04_variants_case : forall mask s, sg_normalise (recase mask s) = sg_normalise s.
Proof. exact normalise_recase. Qed.
Print Assumptions C04_variants_case.

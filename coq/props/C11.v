(* C11 - detector orientation flips are exact bijections, same for pixels and images.
   ast_detector_* : Gallina regenerated from detector.py by the AST translator (T3); detector_* : traced (T1), one definition per valid
   orientation for the coordinate maps.  Images are lists of rows of any element type; [rect m n img] = m rows of n entries.
   Size convention of the pixel map: detz_size = extent along x (rows), dety_size = extent along y (columns). *)
From Coq Require Import Reals ZArith List String.
From XV Require Import RealLib Mat3 ImgLib Gen_detector Ast_detector P11 P11_coor P11_pix.
Import ListNotations.

Theorem C11_trans_orientation_inverse : forall (A : Type) (m n : nat) (img : list (list A)), rect m n img -> (1 <= m)%nat -> (1 <= n)%nat ->
  forall o, In o valid_orientations ->
  let '(a, b, c, d) := o in
  exists X, ast_detector_trans_orientation img a b c d "forward" = Some X /\ ast_detector_trans_orientation X a b c d "inverse" = Some img.
Proof. exact (@trans_inverse). Qed.
Print Assumptions C11_trans_orientation_inverse.

Theorem C11_image_flipping_inverse : forall (A : Type) (m n : nat) (img : list (list A)), rect m n img -> (1 <= m)%nat -> (1 <= n)%nat ->
  forall o, In o valid_orientations ->
  let '(a, b, c, d) := o in
  exists X, ast_detector_image_flipping img a b c d "forward" = Some X /\ ast_detector_image_flipping X a b c d "inverse" = Some img.
Proof. exact (@flipping_inverse). Qed.
Print Assumptions C11_image_flipping_inverse.

Theorem C11_rejects_the_other_73 : forall (A : Type) (img : list (list A)) dir,
  forallb (fun o => let '(a, b, c, d) := o in
     match ast_detector_trans_orientation img a b c d dir, ast_detector_image_flipping img a b c d dir with
     | None, None => true | _, _ => false end) invalid73 = true.
Proof. exact (@rejects_73). Qed.
Print Assumptions C11_rejects_the_other_73.

Theorem C11_counts : List.length invalid73 = 73%nat /\ List.length all81 = 81%nat.
Proof. exact invalid_count. Qed.
Print Assumptions C11_counts.

Theorem C11_accepts_the_8 : forall (A : Type) (img : list (list A)) dir,
  forallb (fun o => let '(a, b, c, d) := o in
     match ast_detector_trans_orientation img a b c d dir, ast_detector_image_flipping img a b c d dir with
     | Some _, Some _ => true | _, _ => false end) valid_orientations = true.
Proof. exact (@accepts_8). Qed.
Print Assumptions C11_accepts_the_8.

Open Scope R_scope.
Theorem C11_xy_detyz_inverse :
  (forall c Ny Nz, 1 <= Ny -> 1 <= Nz -> detector_detyz_to_xy_o0 (detector_xy_to_detyz_o0 c Ny Nz) Ny Nz = c) /\
  (forall c Ny Nz, 1 <= Ny -> 1 <= Nz -> detector_detyz_to_xy_o1 (detector_xy_to_detyz_o1 c Ny Nz) Ny Nz = c) /\
  (forall c Ny Nz, 1 <= Ny -> 1 <= Nz -> detector_detyz_to_xy_o2 (detector_xy_to_detyz_o2 c Ny Nz) Ny Nz = c) /\
  (forall c Ny Nz, 1 <= Ny -> 1 <= Nz -> detector_detyz_to_xy_o3 (detector_xy_to_detyz_o3 c Ny Nz) Ny Nz = c) /\
  (forall c Ny Nz, 1 <= Ny -> 1 <= Nz -> detector_detyz_to_xy_o4 (detector_xy_to_detyz_o4 c Ny Nz) Ny Nz = c) /\
  (forall c Ny Nz, 1 <= Ny -> 1 <= Nz -> detector_detyz_to_xy_o5 (detector_xy_to_detyz_o5 c Ny Nz) Ny Nz = c) /\
  (forall c Ny Nz, 1 <= Ny -> 1 <= Nz -> detector_detyz_to_xy_o6 (detector_xy_to_detyz_o6 c Ny Nz) Ny Nz = c) /\
  (forall c Ny Nz, 1 <= Ny -> 1 <= Nz -> detector_detyz_to_xy_o7 (detector_xy_to_detyz_o7 c Ny Nz) Ny Nz = c).
Proof. exact (conj inv_o0 (conj inv_o1 (conj inv_o2 (conj inv_o3 (conj inv_o4 (conj inv_o5 (conj inv_o6 inv_o7))))))). Qed.
Print Assumptions C11_xy_detyz_inverse.

Theorem C11_detyz_xy_inverse :
  (forall c Ny Nz, 1 <= Ny -> 1 <= Nz -> detector_xy_to_detyz_o0 (detector_detyz_to_xy_o0 c Ny Nz) Ny Nz = c) /\
  (forall c Ny Nz, 1 <= Ny -> 1 <= Nz -> detector_xy_to_detyz_o1 (detector_detyz_to_xy_o1 c Ny Nz) Ny Nz = c) /\
  (forall c Ny Nz, 1 <= Ny -> 1 <= Nz -> detector_xy_to_detyz_o2 (detector_detyz_to_xy_o2 c Ny Nz) Ny Nz = c) /\
  (forall c Ny Nz, 1 <= Ny -> 1 <= Nz -> detector_xy_to_detyz_o3 (detector_detyz_to_xy_o3 c Ny Nz) Ny Nz = c) /\
  (forall c Ny Nz, 1 <= Ny -> 1 <= Nz -> detector_xy_to_detyz_o4 (detector_detyz_to_xy_o4 c Ny Nz) Ny Nz = c) /\
  (forall c Ny Nz, 1 <= Ny -> 1 <= Nz -> detector_xy_to_detyz_o5 (detector_detyz_to_xy_o5 c Ny Nz) Ny Nz = c) /\
  (forall c Ny Nz, 1 <= Ny -> 1 <= Nz -> detector_xy_to_detyz_o6 (detector_detyz_to_xy_o6 c Ny Nz) Ny Nz = c) /\
  (forall c Ny Nz, 1 <= Ny -> 1 <= Nz -> detector_xy_to_detyz_o7 (detector_detyz_to_xy_o7 c Ny Nz) Ny Nz = c).
Proof. exact (conj inv2_o0 (conj inv2_o1 (conj inv2_o2 (conj inv2_o3 (conj inv2_o4 (conj inv2_o5 (conj inv2_o6 inv2_o7))))))). Qed.
Print Assumptions C11_detyz_xy_inverse.

(* xy_to_detyz sends raw pixel (x, y) to the index at which trans_orientation stores that pixel's value (all shapes, all 8 orientations) *)
Theorem C11_pixel_map : forall (A : Type) (m n : nat) (img : list (list A)), rect m n img -> forall x y, (x < m)%nat -> (y < n)%nat ->
  pixel_ok m n img x y 0 (1, 0, 0, 1)%Z detector_xy_to_detyz_o0 y x /\
  pixel_ok m n img x y 1 (-1, 0, 0, 1)%Z detector_xy_to_detyz_o1 y (m - 1 - x) /\
  pixel_ok m n img x y 2 (1, 0, 0, -1)%Z detector_xy_to_detyz_o2 (n - 1 - y) x /\
  pixel_ok m n img x y 3 (-1, 0, 0, -1)%Z detector_xy_to_detyz_o3 (n - 1 - y) (m - 1 - x) /\
  pixel_ok m n img x y 4 (0, 1, 1, 0)%Z detector_xy_to_detyz_o4 x y /\
  pixel_ok m n img x y 5 (0, -1, -1, 0)%Z detector_xy_to_detyz_o5 (m - 1 - x) (n - 1 - y) /\
  pixel_ok m n img x y 6 (0, -1, 1, 0)%Z detector_xy_to_detyz_o6 x (n - 1 - y) /\
  pixel_ok m n img x y 7 (0, 1, -1, 0)%Z detector_xy_to_detyz_o7 (m - 1 - x) y.
Proof.
  exact (fun A m n img HR x y Hx Hy =>
    conj (pix0 m n img HR x y Hx Hy) (conj (pix1 m n img HR x y Hx Hy) (conj (pix2 m n img HR x y Hx Hy) (conj (pix3 m n img HR x y Hx Hy)
    (conj (pix4 m n img HR x y Hx Hy) (conj (pix5 m n img HR x y Hx Hy) (conj (pix6 m n img HR x y Hx Hy) (pix7 m n img HR x y Hx Hy)))))))).
Qed.
Print Assumptions C11_pixel_map.

Theorem C11_eta_radius_inverse : forall eta rad cy cz, 1 <= rad -> 0 <= eta < 360 ->
  detector_detyz_to_eta_and_radpix (detector_eta_and_radpix_to_detyz eta rad cy cz) cy cz = mkV2 eta rad.
Proof. exact eta_rad_inverse. Qed.
Print Assumptions C11_eta_radius_inverse.

(* C01 - Cell parameters, A/B matrices, volume and sin(theta)/lambda share one metric.
   Only property theorems here; each is closed by [exact lemma] and followed by Print Assumptions.
   the tools_ and laue_ definitions are regenerated from /repo/xfab/{tools,laue}.py on every run. *)
From Coq Require Import Reals.
From XV Require Import RealLib Mat3 Cell Gen_laue Gen_tools P01_laue P01_laue_b P01_laue_c P01_laue_d P01_laue_e P01_tools NonVac.
Open Scope R_scope.

Theorem C01_laue_A_upper_posdiag : forall c, valid_cell c -> upper_posdiag (laue_form_a_mat c).
Proof. exact laue_A_upper_posdiag. Qed.
Print Assumptions C01_laue_A_upper_posdiag.
Theorem C01_laue_A_metric : forall c, valid_cell c -> mmul (mtrans (laue_form_a_mat c)) (laue_form_a_mat c) = metric c.
Proof. exact laue_A_metric. Qed.
Print Assumptions C01_laue_A_metric.
Theorem C01_laue_B_upper_posdiag : forall c, valid_cell c -> upper_posdiag (laue_form_b_mat c).
Proof. exact laue_B_upper_posdiag. Qed.
Print Assumptions C01_laue_B_upper_posdiag.
Theorem C01_laue_B_recip_metric : forall c, valid_cell c ->
  mmul (mmul (mtrans (laue_form_b_mat c)) (laue_form_b_mat c)) (metric c) = mI.
Proof. exact laue_B_recip_metric. Qed.
Print Assumptions C01_laue_B_recip_metric.
Theorem C01_laue_detA_volume : forall c, valid_cell c -> mdet (laue_form_a_mat c) = laue_cell_volume c.
Proof. exact laue_detA_volume. Qed.
Print Assumptions C01_laue_detA_volume.
Theorem C01_laue_volume_sq : forall c, valid_cell c -> laue_cell_volume c * laue_cell_volume c = mdet (metric c).
Proof. exact laue_volume_sq. Qed.
Print Assumptions C01_laue_volume_sq.
Theorem C01_laue_volume_pos : forall c, valid_cell c -> 0 < laue_cell_volume c.
Proof. exact laue_volume_pos. Qed.
Print Assumptions C01_laue_volume_pos.
Theorem C01_laue_sintl_norm : forall c h, valid_cell c -> laue_sintl c h = vnorm (mvmul (laue_form_b_mat c) h) / 2.
Proof. exact laue_sintl_norm. Qed.
Print Assumptions C01_laue_sintl_norm.
Theorem C01_laue_a_to_cell_inv : forall c, valid_cell c -> laue_a_to_cell (laue_form_a_mat c) = c.
Proof. exact laue_a_to_cell_inv. Qed.
Print Assumptions C01_laue_a_to_cell_inv.
Theorem C01_laue_b_to_cell_inv : forall c, valid_cell c -> laue_b_to_cell (laue_form_b_mat c) = c.
Proof. exact laue_b_to_cell_inv. Qed.
Print Assumptions C01_laue_b_to_cell_inv.
Theorem C01_laue_cell_invert_valid : forall c, valid_cell c -> valid_cell (laue_cell_invert c).
Proof. exact laue_cell_invert_valid. Qed.
Print Assumptions C01_laue_cell_invert_valid.
Theorem C01_laue_cell_invert_metric : forall c, valid_cell c -> mmul (metric (laue_cell_invert c)) (metric c) = mI.
Proof. exact laue_cell_invert_metric. Qed.
Print Assumptions C01_laue_cell_invert_metric.
Theorem C01_laue_cell_invert_involutive : forall c, valid_cell c -> laue_cell_invert (laue_cell_invert c) = c.
Proof. exact laue_cell_invert_involutive. Qed.
Print Assumptions C01_laue_cell_invert_involutive.
Theorem C01_laue_a_mat_inv : forall c, valid_cell c ->
  mmul (laue_form_a_mat_inv c) (laue_form_a_mat c) = mI /\ mmul (laue_form_a_mat c) (laue_form_a_mat_inv c) = mI.
Proof. exact laue_a_mat_inv. Qed.
Print Assumptions C01_laue_a_mat_inv.


(* C02 (xfab.tools): same statements with the 2 pi convention of tools *)
From Coq Require Import Reals.
From XV Require Import RealLib Mat3 Cell Gen_laue Gen_tools P02_laue P14_ubi.
Open Scope R_scope.

Theorem C02_tools_ubi_rows_are_lattice_vectors : forall U c h, is_rot U -> valid_cell c ->
  mvmul (tools_u_to_ubi U c) (mvmul (mmul U (tools_form_b_mat c)) h) = vscale (2 * PI) h.
Proof. exact tools_ubi_lattice. Qed.
Print Assumptions C02_tools_ubi_rows_are_lattice_vectors.
Theorem C02_tools_ubi_to_cell_inverts : forall U c, is_rot U -> valid_cell c -> tools_ubi_to_cell (tools_u_to_ubi U c) = c.
Proof. exact tools_ubi_to_cell_inv. Qed.
Print Assumptions C02_tools_ubi_to_cell_inverts.
Theorem C02_tools_ubi_to_u_inverts : forall U c, is_rot U -> valid_cell c -> tools_ubi_to_u (tools_u_to_ubi U c) = U.
Proof. exact tools_ubi_to_u_inv. Qed.
Print Assumptions C02_tools_ubi_to_u_inverts.
Theorem C02_tools_ub_split : forall qr UB, qr_spec UB (fst (qr UB)) (snd (qr UB)) -> 0 < mdet UB ->
  let UBs := tools_ub_to_u_b qr UB in
  mmul (fst UBs) (snd UBs) = UB /\ is_rot (fst UBs) /\ upper_posdiag (snd UBs).
Proof. exact tools_ub_split. Qed.
Print Assumptions C02_tools_ub_split.
Theorem C02_tools_ub_split_unique : forall qr UB U B, qr_spec UB (fst (qr UB)) (snd (qr UB)) -> 0 < mdet UB ->
  is_rot U -> upper_posdiag B -> mmul U B = UB -> tools_ub_to_u_b qr UB = (U, B).
Proof. exact tools_ub_split_unique. Qed.
Print Assumptions C02_tools_ub_split_unique.
Theorem C02_tools_ubi_to_u_b_inverts : forall qr U c, is_rot U -> valid_cell c ->
  let UB := mmul U (tools_form_b_mat c) in
  qr_spec UB (fst (qr UB)) (snd (qr UB)) ->
  tools_ubi_to_u_b qr (tools_u_to_ubi U c) = (U, tools_form_b_mat c).
Proof. exact tools_ubi_to_u_b_inv. Qed.
Print Assumptions C02_tools_ubi_to_u_b_inverts.
Theorem C02_tools_ubi_to_rod : forall U c, is_rot U -> valid_cell c -> tools_ubi_to_rod (tools_u_to_ubi U c) = tools_u_to_rod U.
Proof. exact tools_ubi_to_rod_def. Qed.
Print Assumptions C02_tools_ubi_to_rod.

(* C19 - parameter sets survive save/load and stay consistent under any call sequence.
   model/Params.v: hand state-machine model of xfab.parameters.parameters (association lists = Python dicts), tied to the class by evaluating the model in
   Coq on random call histories (gen/Corr_C19.v).  F, print_f, print_i, parse_f, parse_i stand for Python floats and str()/float()/int(). *)
From Coq Require Import ZArith List Bool String.
From XV Require Import SGroup Ingest Params P19 P19_file.
Import ListNotations.

(* after ANY finite sequence of calls the object agrees with the plain dictionary specification (srun): *)
Theorem C19_refines_dictionary : forall F parse_f parse_i (ops : list (op F)),
  agrees F (run F parse_f parse_i ops) (srun F parse_f parse_i ops).
Proof. exact run_refines. Qed.
Print Assumptions C19_refines_dictionary.
Theorem C19_get_returns_last_written : forall F parse_f parse_i (ops : list (op F)) k,
  get F (run F parse_f parse_i ops) k = sd F (srun F parse_f parse_i ops) k.
Proof. exact get_is_last_written. Qed.
Print Assumptions C19_get_returns_last_written.
Theorem C19_variable_values_follow_varylist : forall F parse_f parse_i (ops : list (op F)),
  get_variable_values F (run F parse_f parse_i ops) = map (sd F (srun F parse_f parse_i ops)) (svary F (srun F parse_f parse_i ops)).
Proof. exact variable_values_follow_varylist. Qed.
Print Assumptions C19_variable_values_follow_varylist.
Theorem C19_set_then_get : forall F parse_f parse_i (ops : list (op F)) k v x,
  sd F (srun F parse_f parse_i (ops ++ [SetV F k v])) x = if String.eqb k x then Some v else sd F (srun F parse_f parse_i ops) x.
Proof. exact spec_set. Qed.
Print Assumptions C19_set_then_get.
Theorem C19_failed_assertion_keeps_state : forall F parse_f parse_i (s : st F) (o : op F),
  snd (step F parse_f parse_i s o) = AssertionError -> fst (step F parse_f parse_i s o) = s.
Proof. exact failed_assert_keeps_state. Qed.
Print Assumptions C19_failed_assertion_keeps_state.

(* save then load: ints, floats and space-free non-numeric strings come back; hyphens in names become underscores *)
Theorem C19_save_load : forall F print_f print_i parse_f parse_i,
  (forall z, parse_i (print_i z ++ nl) = Some z /\ parse_f (print_i z ++ nl) <> None /\ no_sp (print_i z) = true) ->
  (forall f : F, parse_f (print_f f ++ nl) = Some f /\ parse_i (print_f f ++ nl) = None /\ no_sp (print_f f) = true) ->
  forall d : dict F, Forall (fun kv => no_sp (fst kv) = true /\ good_value F parse_f (snd kv)) d -> NoDup (map (hk F) d) ->
  forall k v, In (k, v) d -> lookup F (load F parse_f parse_i [] (save_lines F print_f print_i d)) (hyphen_to_underscore k) = Some v.
Proof. exact save_load. Qed.
Print Assumptions C19_save_load.
Theorem C19_load_invents_nothing : forall F print_f print_i parse_f parse_i,
  (forall z, parse_i (print_i z ++ nl) = Some z /\ parse_f (print_i z ++ nl) <> None /\ no_sp (print_i z) = true) ->
  (forall f : F, parse_f (print_f f ++ nl) = Some f /\ parse_i (print_f f ++ nl) = None /\ no_sp (print_f f) = true) ->
  forall (d : dict F) x, Forall (fun kv => no_sp (fst kv) = true /\ good_value F parse_f (snd kv)) d -> ~ In x (map (hk F) d) ->
  lookup F (load F parse_f parse_i [] (save_lines F print_f print_i d)) x = None.
Proof. exact load_nothing_else. Qed.
Print Assumptions C19_load_invents_nothing.

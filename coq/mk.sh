#!/bin/sh
# (re)generate _CoqProject + Makefile from the files present
cd "$(dirname "$0")"
{
  echo "-Q . XV"
  echo "-arg -w -arg -notation-overridden,-deprecated-hint-without-locality,-deprecated-syntactic-definition,-ambiguous-paths,-unused-intro-pattern"
  find lib spec gen model proofs props -name '*.v' 2>/dev/null | sort
} > _CoqProject.new
if ! cmp -s _CoqProject.new _CoqProject || [ ! -f Makefile ]; then
  mv _CoqProject.new _CoqProject
  coq_makefile -f _CoqProject -o Makefile >/dev/null
else
  rm -f _CoqProject.new
fi

(* C20: the hand model model/Checks.v coincides with what vlib/checksgen.py reads from xfab/checks.py on this run (gen/Gen_checks.v):
   same predicates with the same tolerances, same setter, and the guard sites are exactly the sixteen the search harness exercises. *)
From Coq Require Import Reals Lra List String.
From XV Require Import RealLib Mat3 Checks Gen_checks P20 P20_near.
Import ListNotations.
Open Scope R_scope.

Lemma gen_check_rotation_iff U : gen_check_rotation U <-> check_rotation U.
Proof. unfold gen_check_rotation, check_rotation, rtol, atol_unitary, atol_det. tauto. Qed.

Lemma gen_check_euler_iff p1 P p2 : gen_check_euler p1 P p2 <-> check_euler p1 P p2.
Proof. unfold gen_check_euler, check_euler. split; intros (A & B & C); repeat split; lra. Qed.

Lemma gen_check_ubi_iff A : gen_check_ubi A <-> check_ubi A.
Proof. unfold gen_check_ubi, check_ubi. split; intros H; lra. Qed.

Lemma gen_assign_eq s v : gen_assign s v = assign s v.
Proof. destruct v; reflexivity. Qed.

Lemma gen_initial_state_eq : gen_initial_state = true.
Proof. reflexivity. Qed.

Lemma gen_run_assign vs : fold_left (fun s v => fst (gen_assign s v)) vs gen_initial_state = run_assign vs.
Proof.
  unfold run_assign, gen_initial_state. generalize true. induction vs as [|v vs IH]; intros s; cbn [fold_left]; [reflexivity|].
  rewrite gen_assign_eq. apply IH.
Qed.

Lemma gen_switch_last_valid vs : fold_left (fun s v => fst (gen_assign s v)) vs gen_initial_state = last_valid vs true.
Proof. rewrite gen_run_assign. apply switch_last_valid. Qed.
Lemma gen_accepts_near U E : is_rot U -> small E (1 / 10000000) -> gen_check_rotation (madd U E).
Proof. intros HU HE. apply gen_check_rotation_iff. apply accepts_near; assumption. Qed.
Lemma gen_rejects_far_offdiag U : Rabs (m01 (mmul (mtrans U) U)) > 1 / 1000000 -> ~ gen_check_rotation U.
Proof. intros H G. apply (rejects_far_offdiag U H). apply gen_check_rotation_iff. exact G. Qed.

Open Scope string_scope.
Definition expected_guard_sites : list string :=
  ["laue.euler_to_u:_check_euler_angles(phi1, PHI, phi2)";
   "laue.u_to_euler:_check_rotation_matrix(U)";
   "laue.u_to_rod:_check_rotation_matrix(U)";
   "laue.u_to_ubi:_check_rotation_matrix(U)";
   "laue.ub_to_u_b:_check_rotation_matrix(U)";
   "laue.ubi_to_u:_check_ubi_matrix(ubi)";
   "laue.ubi_to_u_and_eps:_check_rotation_matrix(U)";
   "symmetry.Umis:_check_rotation_matrix(umat_1)";
   "symmetry.Umis:_check_rotation_matrix(umat_2)";
   "tools.euler_to_u:_check_euler_angles(phi1, PHI, phi2)";
   "tools.u_to_euler:_check_rotation_matrix(U)";
   "tools.u_to_rod:_check_rotation_matrix(U)";
   "tools.u_to_ubi:_check_rotation_matrix(U)";
   "tools.ub_to_u_b:_check_rotation_matrix(U)";
   "tools.ubi_to_u:_check_ubi_matrix(ubi)";
   "tools.ubi_to_u_and_eps:_check_rotation_matrix(U)"].
Lemma guard_sites_as_expected : gen_guard_sites = expected_guard_sites.
Proof. reflexivity. Qed.

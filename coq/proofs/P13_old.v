(* C13: the _old strain pair (via A matrices) *)
From Coq Require Import Reals Lra Psatz.
From XV Require Import RealLib Mat3 Atan2 Cell Gen_laue P01_laue P01_laue_b P01_laue_c P01_laue_d P01_laue_e P02_laue P13_laue P13_cellof P13_ubi.
Open Scope R_scope.

Definition Amat (Ai : M3) (eps : V6) : M3 :=
  let a00 := (c0 eps + 1) / m00 Ai in
  let a11 := (c3 eps + 1) / m11 Ai in
  let a01 := (2 * c1 eps - a00 * m01 Ai) / m11 Ai in
  mkM3 a00 a01 ((2 * c2 eps - a00 * m02 Ai - a01 * m12 Ai) / m22 Ai)
       0 a11 ((2 * c4 eps - a11 * m12 Ai) / m22 Ai)
       0 0 ((c5 eps + 1) / m22 Ai).

Lemma laue_epsilon_to_b_old_def eps c :
  laue_epsilon_to_b_old eps c = laue_form_b_mat (laue_a_to_cell (Amat (laue_form_a_mat_inv c) eps)).
Proof. reflexivity. Qed.

Lemma laue_b_to_epsilon_old_def B c :
  laue_b_to_epsilon_old B c = sym_minus_I (mmul (laue_form_a_mat (laue_b_to_cell B)) (laue_form_a_mat_inv c)).
Proof.
  unfold laue_b_to_epsilon_old, sym_minus_I; cbv zeta.
  set (X := laue_form_a_mat (laue_b_to_cell B)). set (Y := laue_form_a_mat_inv c).
  destruct X as [a b cc d e f g h i], Y as [a' b' c' d' e' f' g' h' i']. unfold mmul; cbn. f_equal; field.
Qed.

Lemma upper_posdiag_minv A : upper_posdiag A -> upper_posdiag (minv A).
Proof.
  intros [[U1 [U2 U3]] [P0 [P1 P2]]]. destruct A as [a b c d e f g h i]. cbn in *. subst.
  unfold minv, mscale, madj, mdet, upper_posdiag, upper; cbn.
  repeat split; try ring.
  - replace (_ * _) with (/ a) by (field; repeat split; lra). apply Rinv_0_lt_compat; assumption.
  - replace (_ * _) with (/ e) by (field; repeat split; lra). apply Rinv_0_lt_compat; assumption.
  - replace (_ * _) with (/ i) by (field; repeat split; lra). apply Rinv_0_lt_compat; assumption.
Qed.

Lemma Amat_posdiag Ai eps : upper_posdiag Ai -> strain_small eps -> upper_posdiag (Amat Ai eps).
Proof.
  intros [[U1 [U2 U3]] [P0 [P1 P2]]] (S0 & S1 & S2).
  destruct Ai as [a b c d e f g h i], eps as [e11 e12 e13 e22 e23 e33]. cbn in *. subst.
  unfold Amat, upper_posdiag, upper; cbn. repeat split; try reflexivity; apply Rdiv_lt_0_compat; lra.
Qed.

Lemma sym_Amat Ai eps : upper_posdiag Ai -> sym_minus_I (mmul (Amat Ai eps) Ai) = eps.
Proof.
  intros [[U1 [U2 U3]] [P0 [P1 P2]]].
  destruct Ai as [a b c d e f g h i], eps as [e11 e12 e13 e22 e23 e33]. cbn in *. subst.
  unfold Amat, sym_minus_I, mmul; cbn. f_equal; field; repeat split; lra.
Qed.

Lemma laue_a_inv_posdiag c : valid_cell c -> upper_posdiag (laue_form_a_mat_inv c).
Proof. intros H. unfold laue_form_a_mat_inv; cbv zeta. apply upper_posdiag_minv. apply laue_A_upper_posdiag; exact H. Qed.

Lemma laue_eps_roundtrip_old eps c : valid_cell c -> strain_small eps ->
  laue_b_to_epsilon_old (laue_epsilon_to_b_old eps c) c = eps.
Proof.
  intros Hc Hs. pose proof (laue_a_inv_posdiag c Hc) as HAi.
  pose proof (Amat_posdiag _ _ HAi Hs) as HA.
  assert (D : mdet (Amat (laue_form_a_mat_inv c) eps) <> 0) by (pose proof (upper_posdiag_det _ HA); lra).
  destruct (laue_a_to_cell_valid _ D) as [V _].
  rewrite laue_b_to_epsilon_old_def, laue_epsilon_to_b_old_def.
  rewrite laue_b_to_cell_inv by exact V. rewrite laue_form_a_of_cell by exact HA.
  apply sym_Amat; exact HAi.
Qed.

Lemma laue_zero_strain_old c : valid_cell c -> laue_epsilon_to_b_old (mkV6 0 0 0 0 0 0) c = laue_form_b_mat c.
Proof.
  intros Hc. rewrite laue_epsilon_to_b_old_def.
  replace (Amat (laue_form_a_mat_inv c) (mkV6 0 0 0 0 0 0)) with (laue_form_a_mat c).
  - rewrite laue_a_to_cell_inv by exact Hc. reflexivity.
  - pose proof (laue_a_inv_posdiag c Hc) as HAi. pose proof (laue_a_mat_inv c Hc) as [I1 I2].
    pose proof (laue_A_upper_posdiag c Hc) as HA.
    rewrite (minv_unique_r _ _ I1). 
    set (Ai := laue_form_a_mat_inv c) in *. destruct HAi as [[U1 [U2 U3]] [P0 [P1 P2]]].
    destruct Ai as [a b cc d e f g h i]. cbn in *. subst.
    unfold Amat, minv, mscale, madj, mdet; cbn. f_equal; field; repeat split; lra.
Qed.

(* C11: xy_to_detyz sends the raw pixel (x, y) to the index at which trans_orientation stores its value *)
From Coq Require Import Reals Lra Lia ZArith List String Arith.
From XV Require Import RealLib Mat3 Atan2 ImgLib Gen_tools Gen_detector Ast_detector P11 P11_coor.
Import ListNotations.
Open Scope R_scope.

Lemma INR_flip k i : (i < k)%nat -> INR (k - 1 - i) = INR k - 1 - INR i.
Proof. intros H. rewrite !minus_INR by lia. simpl. ring. Qed.
Lemma INR_bounds k i : (i < k)%nat -> 0 <= INR i /\ INR i <= INR k - 1 /\ 1 <= INR k.
Proof.
  intros H. split; [apply pos_INR|]. assert (E : (S i <= k)%nat) by lia. apply le_INR in E. rewrite S_INR in E.
  pose proof (pos_INR i). split; lra.
Qed.

Ltac pix f :=
  unfold f; cbv zeta; cbn [p0 p1]; branches; try (exfalso; lra); f_equal; lra.

Section Pix.
Context {A : Type}.
Variables (m n : nat) (img : list (list A)).
Hypothesis HR : rect m n img.
Variables (x y : nat).
Hypothesis Hx : (x < m)%nat.
Hypothesis Hy : (y < n)%nat.


Definition pixel_ok (k : nat) (o : Z * Z * Z * Z) (f : V2 -> R -> R -> V2) (dy dz : nat) : Prop :=
  f (mkV2 (INR x) (INR y)) (INR n) (INR m) = mkV2 (INR dy) (INR dz) /\
  let '(a, b, c, d) := o in
  exists X, ast_detector_trans_orientation img a b c d "forward" = Some X /\ get X dy dz = get img x y.

Ltac setup := assert (Hm : (1 <= m)%nat) by lia; assert (Hn : (1 <= n)%nat) by lia;
  pose proof (rect_transpose m n img HR Hm) as Rt.

Ltac facts :=
  destruct (INR_bounds m x Hx) as (Bx0 & Bx1 & Bm); destruct (INR_bounds n y Hy) as (By0 & By1 & Bn);
  rewrite ?(INR_flip m x Hx), ?(INR_flip n y Hy).

Lemma pix0 : pixel_ok 0 (1, 0, 0, 1)%Z detector_xy_to_detyz_o0 y x.
Proof.
  setup. split; [facts; pix detector_xy_to_detyz_o0|]. eexists; split; [cbn; reflexivity|].
  apply (get_transpose m n); assumption.
Qed.
Lemma pix1 : pixel_ok 1 (-1, 0, 0, 1)%Z detector_xy_to_detyz_o1 y (m - 1 - x).
Proof.
  setup. split; [facts; pix detector_xy_to_detyz_o1|]. eexists; split; [cbn; reflexivity|].
  rewrite (get_fliplr n m) by (try exact Rt; lia). replace (m - 1 - (m - 1 - x))%nat with x by lia.
  apply (get_transpose m n); assumption.
Qed.
Lemma pix2 : pixel_ok 2 (1, 0, 0, -1)%Z detector_xy_to_detyz_o2 (n - 1 - y) x.
Proof.
  setup. split; [facts; pix detector_xy_to_detyz_o2|]. eexists; split; [cbn; reflexivity|].
  rewrite (get_flipud n m) by (try exact Rt; lia). replace (n - 1 - (n - 1 - y))%nat with y by lia.
  apply (get_transpose m n); assumption.
Qed.
Lemma pix3 : pixel_ok 3 (-1, 0, 0, -1)%Z detector_xy_to_detyz_o3 (n - 1 - y) (m - 1 - x).
Proof.
  setup. split; [facts; pix detector_xy_to_detyz_o3|]. eexists; split; [cbn; reflexivity|].
  rewrite (get_flipud n m) by (try (apply rect_fliplr; exact Rt); lia). replace (n - 1 - (n - 1 - y))%nat with y by lia.
  rewrite (get_fliplr n m) by (try exact Rt; lia). replace (m - 1 - (m - 1 - x))%nat with x by lia.
  apply (get_transpose m n); assumption.
Qed.
Lemma pix4 : pixel_ok 4 (0, 1, 1, 0)%Z detector_xy_to_detyz_o4 x y.
Proof. setup. split; [facts; pix detector_xy_to_detyz_o4|]. eexists; split; [cbn; reflexivity|]. reflexivity. Qed.
Lemma pix5 : pixel_ok 5 (0, -1, -1, 0)%Z detector_xy_to_detyz_o5 (m - 1 - x) (n - 1 - y).
Proof.
  setup. split; [facts; pix detector_xy_to_detyz_o5|]. eexists; split; [cbn; reflexivity|].
  rewrite (get_flipud m n) by (try (apply rect_fliplr; exact HR); lia). replace (m - 1 - (m - 1 - x))%nat with x by lia.
  rewrite (get_fliplr m n) by (try exact HR; lia). replace (n - 1 - (n - 1 - y))%nat with y by lia. reflexivity.
Qed.
Lemma pix6 : pixel_ok 6 (0, -1, 1, 0)%Z detector_xy_to_detyz_o6 x (n - 1 - y).
Proof.
  setup. split; [facts; pix detector_xy_to_detyz_o6|]. eexists; split; [cbn; reflexivity|].
  rewrite (get_fliplr m n) by (try exact HR; lia). replace (n - 1 - (n - 1 - y))%nat with y by lia. reflexivity.
Qed.
Lemma pix7 : pixel_ok 7 (0, 1, -1, 0)%Z detector_xy_to_detyz_o7 (m - 1 - x) y.
Proof.
  setup. split; [facts; pix detector_xy_to_detyz_o7|]. eexists; split; [cbn; reflexivity|].
  rewrite (get_flipud m n) by (try exact HR; lia). replace (m - 1 - (m - 1 - x))%nat with x by lia. reflexivity.
Qed.
End Pix.

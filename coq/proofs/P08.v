(* C08: the structure factor equals the explicit sum over the unit-cell contents, and its consequences *)
From Coq Require Import Reals ZArith List Bool Permutation Lia Lra.
From XV Require Import RealLib Mat3 Cplx Cell SGroup Orbit Gen_laue Gen_tools Gen_structure P01_laue P01_laue_b P14_cell P01_tools P07 P07_gen P07_tab P08_orbit.
Import ListNotations.
Open Scope R_scope.

(* Debye-Waller factor of an atom for reflection h, with the operation's rotation applied to an anisotropic tensor *)
Definition DW_of (c : V6) (a : atom) (h : V3) (Rm : M3) : R :=
  match a_adp a with
  | Uiso U => exp (-8 * PI ^ 2 * U * tools_sintl c h ^ 2)
  | Uani adp => exp (- quad h (mmul Rm (mmul (structure_Uij2betaij adp c) (mtrans Rm))))
  | NoAdp => 1
  end.
Lemma W_of_DW c nsym a h Rm : W_of c nsym a h Rm = DW_of c a h Rm * pop (a_occ a) (a_multi a) nsym.
Proof. unfold W_of, DW_of. destruct (a_adp a); unfold W_iso, W_ani, W_none; ring. Qed.

(* one atom of the cell: occupancy x (f + f' + i f'') x DW x exp(2 pi i h.r),  r = R x + t *)
Definition site_term (c : V6) (a : atom) (h : V3) (o : sop) : C :=
  cscale (a_occ a * DW_of c a h (fst o)) (cmul (phase h o (a_pos a)) (FF_of c a h)).
Definition SF_explicit (c : V6) (ops : list sop) (atoms : list atom) (h : V3) : C :=
  csum (map (fun a => csum (map (site_term c a h) (cell_sites (a_pos a) ops))) atoms).

(* an anisotropic tensor must have the symmetry of the site it sits on (two operations reaching the same site rotate it alike) *)
Definition adp_ok (c : V6) (ops : list sop) (a : atom) : Prop :=
  match a_adp a with
  | Uani adp => forall p q, In p ops -> In q ops -> sitekey (a_pos a) p = sitekey (a_pos a) q ->
                 mmul (fst p) (mmul (structure_Uij2betaij adp c) (mtrans (fst p))) = mmul (fst q) (mmul (structure_Uij2betaij adp c) (mtrans (fst q)))
  | _ => True
  end.

Lemma phase_latt2 h p q x y : int_vec h -> latt_eq (apply_op p x) (apply_op q y) -> phase h p x = phase h q y.
Proof.
  intros Hh (L & HL & E). unfold phase. rewrite E, vdot_vadd. destruct (int_dot h L Hh HL) as [z ->].
  rewrite Rmult_plus_distr_l, cis_add, cis_2PI_Z. apply C_ext; unfold cmul, c1; cbn [fst snd]; ring.
Qed.
Lemma phase_latt h p q x : int_vec h -> latt_eq (apply_op p x) (apply_op q x) -> phase h p x = phase h q x.
Proof. apply phase_latt2. Qed.

Lemma term_site_invariant c nsym a h ops p q : int_vec h -> adp_ok c ops a -> In p ops -> In q ops ->
  sitekey (a_pos a) p = sitekey (a_pos a) q ->
  term (a_pos a) (W_of c nsym a) (FF_of c a) h p = term (a_pos a) (W_of c nsym a) (FF_of c a) h q.
Proof.
  intros Hh Hadp Hp Hq Hk. unfold term. rewrite (phase_latt h p q (a_pos a) Hh) by (apply sitekey_iff; exact Hk).
  f_equal. rewrite !W_of_DW. f_equal. unfold DW_of, adp_ok in *. destruct (a_adp a) as [U|adp|]; try reflexivity.
  rewrite (Hadp p q Hp Hq Hk). reflexivity.
Qed.

Lemma INR_len_pos {A} (l : list A) : l <> [] -> 0 < INR (length l).
Proof. destruct l; [congruence|]. intros _. apply lt_0_INR. cbn. lia. Qed.

Theorem atom_explicit c ops a h : int_vec h -> group_like ops -> adp_ok c ops a ->
  a_multi a = INR (length (cell_sites (a_pos a) ops)) ->
  csum (map (gen_term c (INR (length ops)) a h) ops) = csum (map (site_term c a h) (cell_sites (a_pos a) ops)).
Proof.
  intros Hh HG Hadp Hm. rewrite atom_sum_is_SFatom. unfold SFatom.
  destruct (uniform_classes (a_pos a) ops HG) as [m Hcl].
  assert (Hne : ops <> []) by (destruct HG as [(e & He & _) _]; intro Z; rewrite Z in He; exact He).
  set (T := term (a_pos a) (W_of c (INR (length ops)) a) (FF_of c a) h).
  assert (HT : forall p q, In p ops -> In q ops -> sitekey (a_pos a) p = sitekey (a_pos a) q -> T p = T q)
    by (intros; apply (term_site_invariant c _ a h ops); assumption).
  rewrite (csum_uniform sop V3 (sitekey (a_pos a)) V3eqb V3eqb_spec T ops m HT Hcl).
  pose proof (length_uniform sop V3 (sitekey (a_pos a)) V3eqb V3eqb_spec ops m Hcl) as HL.
  fold (cell_sites (a_pos a) ops) in *. rewrite <- csum_map_cscale. f_equal. apply map_ext. intros o.
  unfold T, term, site_term. rewrite W_of_DW. unfold pop. rewrite Hm, HL.
  pose proof (INR_len_pos ops Hne) as Hpos. rewrite HL in Hpos.
  assert (INR m <> 0 /\ INR (length (cell_sites (a_pos a) ops)) <> 0) as [N1 N2].
  { split; intro Z; rewrite Z in Hpos; lra. }
  apply C_ext; unfold cscale; cbn [fst snd]; field; split; assumption.
Qed.

Theorem SF_is_explicit_sum c ops atoms h : int_vec h -> group_like ops ->
  (forall a, In a atoms -> adp_ok c ops a /\ a_multi a = INR (length (cell_sites (a_pos a) ops))) ->
  SF c ops atoms h = SF_explicit c ops atoms h.
Proof.
  intros Hh HG Hat. unfold SF, SF_explicit. f_equal. apply map_ext_in. intros a Ha.
  destruct (Hat a Ha) as [H1 H2]. apply atom_explicit; assumption.
Qed.

(* the sites listed by cell_sites are pairwise distinct modulo the lattice, and every image of x is one of them *)
Lemma cell_sites_distinct x ops p : In p ops -> ccnt x (sitekey x p) (cell_sites x ops) = 1%nat.
Proof. intros Hp. apply cnt_dd; [exact V3eqb_spec|]. apply In_inb; [exact V3eqb_spec | exact Hp]. Qed.

(* --- consequences ------------------------------------------------------------------------------------------------- *)
Definition set_pos (a : atom) (x : V3) : atom := mkAtom x (a_adp a) (a_occ a) (a_multi a) (a_ff a) (a_fp a) (a_fpp a).
Definition set_occ (a : atom) (o : R) : atom := mkAtom (a_pos a) (a_adp a) o (a_multi a) (a_ff a) (a_fp a) (a_fpp a).
Definition set_adp (a : atom) (k : adp_kind) : atom := mkAtom (a_pos a) k (a_occ a) (a_multi a) (a_ff a) (a_fp a) (a_fpp a).

Definition int_ops (ops : list sop) : Prop := forall o, In o ops -> exists A, fst o = matR A.

(* 1. shifting an atom by a lattice vector changes nothing *)
Theorem SF_lattice_shift c ops a L rest h : int_vec h -> int_vec L -> int_ops ops ->
  SF c ops (set_pos a (vadd (a_pos a) L) :: rest) h = SF c ops (a :: rest) h.
Proof.
  intros Hh HL Hops. unfold SF. cbn [map]. rewrite !csum_cons. f_equal.
  rewrite !atom_sum_is_SFatom. unfold SFatom. f_equal. apply map_ext_in. intros o Ho.
  assert (P : phase h o (vadd (a_pos a) L) = phase h o (a_pos a)).
  { apply phase_latt2; [exact Hh|].
    destruct (Hops o Ho) as [A HA]. exists (mvmul (fst o) L). split; [rewrite HA; apply int_mat_vec; exact HL|].
    unfold apply_op. destruct (fst o), (a_pos a), L, (snd o); unfold vadd, mvmul; cbn. f_equal; ring. }
  unfold term. cbn [set_pos a_pos]. rewrite P. reflexivity.
Qed.

(* 2. linear in the occupancy (and additive over atoms) *)
Theorem SF_app c ops l1 l2 h : SF c ops (l1 ++ l2) h = cadd (SF c ops l1 h) (SF c ops l2 h).
Proof. unfold SF. rewrite map_app, csum_app. reflexivity. Qed.
Theorem SF_occ_linear c ops a s h : SF c ops [set_occ a (s * a_occ a)] h = cscale s (SF c ops [a] h).
Proof.
  unfold SF. cbn [map]. rewrite !csum_cons, csum_nil, !cadd_0_r. rewrite !atom_sum_is_SFatom. unfold SFatom.
  rewrite <- csum_map_cscale. f_equal. apply map_ext. intros o. unfold term.
  rewrite !W_of_DW. unfold DW_of, FF_of, pop; cbn [set_occ a_pos a_adp a_occ a_multi a_ff a_fp a_fpp].
  apply C_ext; unfold cscale; cbn [fst snd]; unfold Rdiv; ring.
Qed.

(* 3. an isotropic U and the anisotropic tensor that represents the same isotropic motion: U_ij = U cos(angle*_ij) *)
Definition iso_as_ani (c : V6) (U : R) : V6 :=
  let cs := tools_cell_invert c in
  mkV6 U U U (U * cos (rad (c3 cs))) (U * cos (rad (c4 cs))) (U * cos (rad (c5 cs))).

Lemma beta_iso c U : structure_Uij2betaij (iso_as_ani c U) c = mscale (2 * PI ^ 2 * U) (metric (tools_cell_invert c)).
Proof.
  unfold structure_Uij2betaij, iso_as_ani, metric; cbv zeta. set (cs := tools_cell_invert c).
  unfold mscale; cbn [Mat3.c0 Mat3.c1 c2 c3 c4 c5 m00 m01 m02 m10 m11 m12 m20 m21 m22]. f_equal; ring.
Qed.

Lemma recip_metric_BtB c : valid_cell c ->
  mmul (mtrans (tools_form_b_mat c)) (tools_form_b_mat c) = mscale (2 * PI * (2 * PI)) (metric (tools_cell_invert c)).
Proof.
  intros Hc. pose proof (tools_B_recip_metric c Hc) as HB. pose proof (tools_cell_invert_metric c Hc) as HI.
  set (Gs := mmul _ (tools_form_b_mat c)) in *. set (G := metric c) in *. set (Gi := metric (tools_cell_invert c)) in *.
  (* Gs G = k I and Gi G = I  ->  Gs = Gs (G Gi)... use associativity: Gs = Gs G Gi' with Gi G = I on the other side *)
  assert (DG : mdet G <> 0).
  { intro Z. assert (Q : mdet (mmul Gi G) = mdet mI) by (rewrite HI; reflexivity). rewrite mdet_mmul, Z in Q.
    unfold mI, mdet in Q; cbn in Q. lra. }
  assert (E1 : Gi = minv G) by (apply minv_unique_l; exact HI).
  transitivity (mmul (mmul Gs G) (minv G)).
  - rewrite mmul_assoc, minv_r by exact DG. destruct Gs; unfold mmul, mI; cbn; f_equal; ring.
  - rewrite HB, <- E1. destruct Gi; unfold mmul, mscale, mI; cbn; f_equal; ring.
Qed.

Theorem DW_iso_equals_ani c U h Rm a : valid_cell c ->
  mmul Rm (mmul (metric (tools_cell_invert c)) (mtrans Rm)) = metric (tools_cell_invert c) ->
  DW_of c (set_adp a (Uani (iso_as_ani c U))) h Rm = DW_of c (set_adp a (Uiso U)) h Rm.
Proof.
  intros Hc HR. unfold DW_of; cbn [set_adp a_adp]. f_equal. rewrite beta_iso.
  set (Gi := metric (tools_cell_invert c)) in *.
  assert (E : mmul Rm (mmul (mscale (2 * PI ^ 2 * U) Gi) (mtrans Rm)) = mscale (2 * PI ^ 2 * U) Gi).
  { rewrite <- HR at 2. destruct Rm, Gi; unfold mmul, mscale, mtrans; cbn; f_equal; ring. }
  rewrite E. rewrite tools_sintl_norm by exact Hc.
  assert (N : vnorm (mvmul (tools_form_b_mat c) h) ^ 2 = (2 * PI * (2 * PI)) * quad h Gi).
  { unfold vnorm. rewrite <- Rsqr_pow2, Rsqr_sqrt by apply vnorm2_nonneg.
    pose proof (recip_metric_BtB c Hc) as HB. fold Gi in HB.
    transitivity (quad h (mmul (mtrans (tools_form_b_mat c)) (tools_form_b_mat c))).
    - destruct (tools_form_b_mat c), h; unfold vnorm2, quad, vdot, mvmul, mmul, mtrans; cbn; ring.
    - rewrite HB. destruct Gi, h; unfold quad, vdot, mvmul, mscale; cbn; ring. }
  replace ((vnorm (mvmul (tools_form_b_mat c) h) / (4 * PI)) ^ 2) with (vnorm (mvmul (tools_form_b_mat c) h) ^ 2 / (16 * PI ^ 2))
    by (field; pose proof PI_RGT_0; lra).
  rewrite N. replace (quad h (mscale (2 * PI ^ 2 * U) Gi)) with (2 * PI ^ 2 * U * quad h Gi)
    by (destruct Gi, h; unfold quad, vdot, mvmul, mscale; cbn; ring).
  field. pose proof PI_RGT_0; lra.
Qed.

Theorem SF_iso_equals_ani c ops a U rest h : valid_cell c ->
  (forall o, In o ops -> mmul (fst o) (mmul (metric (tools_cell_invert c)) (mtrans (fst o))) = metric (tools_cell_invert c)) ->
  SF c ops (set_adp a (Uani (iso_as_ani c U)) :: rest) h = SF c ops (set_adp a (Uiso U) :: rest) h.
Proof.
  intros Hc Hops. unfold SF. cbn [map]. rewrite !csum_cons. f_equal. rewrite !atom_sum_is_SFatom. unfold SFatom.
  f_equal. apply map_ext_in. intros o Ho. unfold term. rewrite !W_of_DW.
  rewrite (DW_iso_equals_ani c U h (fst o) a Hc (Hops o Ho)). reflexivity.
Qed.

(* 4. F(000) with zero displacement is the occupancy-weighted sum of f(0) + f' + i f'' over the cell *)
Definition zero_adp (a : atom) : Prop :=
  match a_adp a with Uiso U => U = 0 | Uani adp => adp = mkV6 0 0 0 0 0 0 | NoAdp => True end.
Definition v0 : V3 := mkV3 0 0 0.

Lemma sintl_zero c : valid_cell c -> tools_sintl c v0 = 0.
Proof.
  intros Hc. rewrite tools_sintl_norm by exact Hc. unfold vnorm.
  replace (vnorm2 (mvmul (tools_form_b_mat c) v0)) with 0 by (destruct (tools_form_b_mat c); unfold vnorm2, vdot, mvmul, v0; cbn; ring).
  rewrite sqrt_0. unfold Rdiv. ring.
Qed.

Theorem SF_000 c ops atoms : valid_cell c -> ops <> [] -> (forall a, In a atoms -> zero_adp a) ->
  SF c ops atoms v0 = csum (map (fun a => cscale (a_occ a * a_multi a) (a_ff a 0 + a_fp a, a_fpp a)) atoms).
Proof.
  intros Hc Hne Hz. unfold SF. f_equal. apply map_ext_in. intros a Ha. rewrite atom_sum_is_SFatom. unfold SFatom.
  set (n := INR (length ops)). assert (Hn : 0 < n) by (apply INR_len_pos; exact Hne).
  assert (ET : forall o, term (a_pos a) (W_of c n a) (FF_of c a) v0 o = cscale (a_occ a * a_multi a / n) (a_ff a 0 + a_fp a, a_fpp a)).
  { intros o. unfold term, phase, FF_of. rewrite sintl_zero by exact Hc.
    replace (2 * PI * vdot v0 (apply_op o (a_pos a))) with 0 by (destruct (apply_op o (a_pos a)); unfold vdot, v0; cbn; ring).
    fold (cis 0). rewrite cis_0, cmul_1_l. rewrite W_of_DW.
    assert (D : DW_of c a v0 (fst o) = 1).
    { specialize (Hz a Ha). unfold zero_adp, DW_of in *. destruct (a_adp a) as [U|adp|]; [| |reflexivity].
      - subst U. rewrite <- exp_0. f_equal. ring.
      - rewrite <- exp_0. f_equal. destruct (mmul _ _); unfold quad, vdot, mvmul, v0; cbn; ring. }
    rewrite D. unfold pop. f_equal. ring. }
  rewrite (map_ext _ _ ET).
  assert (S : forall (l : list sop) z, csum (map (fun _ => z) l) = cscale (INR (length l)) z).
  { induction l as [|o l IH]; intros z; [cbn; apply C_ext; unfold cscale, c0; cbn; ring|].
    cbn [map length]. rewrite csum_cons, IH, S_INR. apply C_ext; unfold cscale, cadd; cbn [fst snd]; ring. }
  rewrite S. fold n. apply C_ext; unfold cscale; cbn [fst snd]; field; lra.
Qed.

(* C12: Umis.  The generated one-operator misorientation (symmetry_Umis_one, traced from xfab.symmetry.Umis with a symbolic
   one-element rotation list) and its invariances; list-level statements for any operator list with index-permutation structure. *)
From Coq Require Import Reals Lra Psatz List Permutation Arith.
From XV Require Import RealLib Mat3 Atan2 Gen_tools Gen_symmetry.
Import ListNotations.
Open Scope R_scope.

Definition clip1 (x : R) : R := if Rle_dec (-1) x then (if Rle_dec x 1 then x else 1) else -1.
Definition mis_len (U1 U2 Rm : M3) : R := (mtrace (mmul (mmul (mtrans U1) U2) (mtrans Rm)) - 1) / 2.

Lemma Umis_one_eq U1 U2 Rm : symmetry_Umis_one U1 U2 Rm = acos (clip1 (mis_len U1 U2 Rm)) * 180 / PI.
Proof.
  unfold symmetry_Umis_one; cbv zeta.
  match goal with |- context [Rle_dec (- 1) ?t] => replace t with (mis_len U1 U2 Rm) by (destruct U1, U2, Rm; unfold mis_len; mcbv; field) end.
  unfold clip1. destruct (Rle_dec (-1) _); [destruct (Rle_dec _ 1)|]; reflexivity.
Qed.

Lemma clip1_range x : -1 <= clip1 x <= 1.
Proof. unfold clip1. destruct (Rle_dec (-1) x); [destruct (Rle_dec x 1)|]; lra. Qed.

(* the returned angle is in [0, 180] degrees *)
Lemma Umis_range U1 U2 Rm : 0 <= symmetry_Umis_one U1 U2 Rm <= 180.
Proof.
  rewrite Umis_one_eq. pose proof (acos_bound (clip1 (mis_len U1 U2 Rm))) as [A B]. pose proof PI_RGT_0 as P.
  split.
  - apply Rmult_le_pos; [nra | left; apply Rinv_0_lt_compat; lra].
  - apply (Rmult_le_reg_r PI); [lra|]. unfold Rdiv. rewrite Rmult_assoc, Rinv_l, Rmult_1_r by lra. nra.
Qed.

(* it is the rotation angle of U1' U2 R' : cos(angle) = (trace - 1)/2, when that lies in [-1, 1] *)
Lemma Umis_is_rotation_angle U1 U2 Rm : -1 <= mis_len U1 U2 Rm <= 1 ->
  cos (symmetry_Umis_one U1 U2 Rm * PI / 180) = (mtrace (mmul (mmul (mtrans U1) U2) (mtrans Rm)) - 1) / 2.
Proof.
  intros H. rewrite Umis_one_eq. pose proof PI_RGT_0.
  replace (acos (clip1 (mis_len U1 U2 Rm)) * 180 / PI * PI / 180) with (acos (clip1 (mis_len U1 U2 Rm))) by (field; lra).
  unfold clip1. destruct (Rle_dec (-1) _); [|lra]. destruct (Rle_dec _ 1); [|lra]. rewrite cos_acos by lra. reflexivity.
Qed.

Lemma mtrace_mtrans A : mtrace (mtrans A) = mtrace A.
Proof. destruct A; reflexivity. Qed.
Lemma mtrace_cyc A B : mtrace (mmul A B) = mtrace (mmul B A).
Proof. destruct A, B; unfold mtrace, mmul; cbn. ring. Qed.

(* algebraic moves on the argument *)
Lemma len_common Q U1 U2 Rm : is_rot Q -> mis_len (mmul Q U1) (mmul Q U2) Rm = mis_len U1 U2 Rm.
Proof.
  intros [HO _]. unfold mis_len. rewrite mtrans_mmul.
  replace (mmul (mmul (mtrans U1) (mtrans Q)) (mmul Q U2)) with (mmul (mtrans U1) U2); [reflexivity|].
  rewrite mmul_assoc, <- (mmul_assoc (mtrans Q)), HO, mmul_I_l. reflexivity.
Qed.
Lemma len_right U1 U2 Gj Rm : mis_len U1 (mmul U2 Gj) Rm = mis_len U1 U2 (mmul Rm (mtrans Gj)).
Proof. unfold mis_len. rewrite (mtrans_mmul Rm), mtrans_invol, <- !mmul_assoc. reflexivity. Qed.
Lemma len_left U1 U2 Gj Rm : mis_len (mmul U1 Gj) U2 Rm = mis_len U1 U2 (mmul Gj Rm).
Proof.
  unfold mis_len. rewrite (mtrans_mmul U1), (mtrans_mmul Gj). f_equal. f_equal.
  rewrite !mmul_assoc, mtrace_cyc, !mmul_assoc. reflexivity.
Qed.
Lemma len_swap U1 U2 Rm : mis_len U2 U1 Rm = mis_len U1 U2 (mtrans Rm).
Proof.
  unfold mis_len. f_equal. f_equal. rewrite mtrans_invol.
  rewrite <- mtrace_mtrans, !mtrans_mmul, !mtrans_invol, mtrace_cyc, mmul_assoc. reflexivity.
Qed.

Lemma Umis_common Q U1 U2 Rm : is_rot Q -> symmetry_Umis_one (mmul Q U1) (mmul Q U2) Rm = symmetry_Umis_one U1 U2 Rm.
Proof. intros H. rewrite !Umis_one_eq, len_common by exact H. reflexivity. Qed.
Lemma Umis_right U1 U2 Gj Rm : symmetry_Umis_one U1 (mmul U2 Gj) Rm = symmetry_Umis_one U1 U2 (mmul Rm (mtrans Gj)).
Proof. rewrite !Umis_one_eq, len_right. reflexivity. Qed.
Lemma Umis_left U1 U2 Gj Rm : symmetry_Umis_one (mmul U1 Gj) U2 Rm = symmetry_Umis_one U1 U2 (mmul Gj Rm).
Proof. rewrite !Umis_one_eq, len_left. reflexivity. Qed.
Lemma Umis_swap U1 U2 Rm : symmetry_Umis_one U2 U1 Rm = symmetry_Umis_one U1 U2 (mtrans Rm).
Proof. rewrite !Umis_one_eq, len_swap. reflexivity. Qed.
Lemma Umis_self U : is_rot U -> symmetry_Umis_one U U mI = 0.
Proof.
  intros [HO _]. rewrite Umis_one_eq. unfold mis_len. rewrite HO, mtrans_I, mmul_I_l.
  replace ((mtrace mI - 1) / 2) with 1 by (unfold mtrace, mI; cbn; field).
  unfold clip1. destruct (Rle_dec (-1) 1); [|lra]. destruct (Rle_dec 1 1); [|lra]. rewrite acos_1. field. apply PI_neq0.
Qed.

(* ---- list level: the array returned by Umis is, column 1, [Umis_one U1 U2 R | R in G] ------------------------- *)
Definition umis_angles (G : list M3) (U1 U2 : M3) : list R := map (symmetry_Umis_one U1 U2) G.

Lemma is_perm_Permutation l n : length l = n -> (forall i, (i < n)%nat -> In i l) -> Permutation l (seq 0 n).
Proof.
  intros HL HI. apply Permutation_sym. apply NoDup_Permutation_bis.
  - apply seq_NoDup.
  - rewrite seq_length. rewrite HL. apply Nat.le_refl.
  - intros i Hi. apply in_seq in Hi. apply HI. destruct Hi. simpl in *. assumption.
Qed.

Lemma map_nth_seq {A} (G : list A) d : map (fun i => List.nth i G d) (seq 0 (length G)) = G.
Proof.
  induction G as [|x G IH]; [reflexivity|]. cbn [length seq map List.nth]. f_equal.
  rewrite <- seq_shift, map_map. exact IH.
Qed.

Lemma reindex_perm {A B} (f : A -> B) (G : list A) d sigma :
  Permutation sigma (seq 0 (length G)) -> Permutation (map f (map (fun i => List.nth i G d) sigma)) (map f G).
Proof.
  intros HP. apply Permutation_map.
  apply Permutation_trans with (l' := map (fun i => List.nth i G d) (seq 0 (length G))).
  - apply Permutation_map. exact HP.
  - rewrite map_nth_seq. apply Permutation_refl.
Qed.

Section Lists.
Variable G : list M3.
Variable U1 U2 : M3.

(* replacing U2 by the symmetry-equivalent U2.Gj permutes the angles *)
Lemma umis_right_perm Gj sigma : Permutation sigma (seq 0 (length G)) ->
  map (fun Rm => mmul Rm (mtrans Gj)) G = map (fun i => List.nth i G mI) sigma ->
  Permutation (umis_angles G U1 (mmul U2 Gj)) (umis_angles G U1 U2).
Proof.
  intros HP HE. unfold umis_angles.
  replace (map (symmetry_Umis_one U1 (mmul U2 Gj)) G) with (map (symmetry_Umis_one U1 U2) (map (fun Rm => mmul Rm (mtrans Gj)) G)).
  - rewrite HE. apply reindex_perm; exact HP.
  - rewrite map_map. apply map_ext. intros Rm. symmetry. apply Umis_right.
Qed.
Lemma umis_left_perm Gj sigma : Permutation sigma (seq 0 (length G)) ->
  map (fun Rm => mmul Gj Rm) G = map (fun i => List.nth i G mI) sigma ->
  Permutation (umis_angles G (mmul U1 Gj) U2) (umis_angles G U1 U2).
Proof.
  intros HP HE. unfold umis_angles.
  replace (map (symmetry_Umis_one (mmul U1 Gj) U2) G) with (map (symmetry_Umis_one U1 U2) (map (fun Rm => mmul Gj Rm) G)).
  - rewrite HE. apply reindex_perm; exact HP.
  - rewrite map_map. apply map_ext. intros Rm. symmetry. apply Umis_left.
Qed.
Lemma umis_swap_perm sigma : Permutation sigma (seq 0 (length G)) ->
  map mtrans G = map (fun i => List.nth i G mI) sigma ->
  Permutation (umis_angles G U2 U1) (umis_angles G U1 U2).
Proof.
  intros HP HE. unfold umis_angles.
  replace (map (symmetry_Umis_one U2 U1) G) with (map (symmetry_Umis_one U1 U2) (map mtrans G)).
  - rewrite HE. apply reindex_perm; exact HP.
  - rewrite map_map. apply map_ext. intros Rm. symmetry. apply Umis_swap.
Qed.
Lemma umis_common_eq Q : is_rot Q -> umis_angles G (mmul Q U1) (mmul Q U2) = umis_angles G U1 U2.
Proof. intros H. unfold umis_angles. apply map_ext. intros Rm. apply Umis_common; exact H. Qed.
End Lists.

Lemma umis_self_zero G U : is_rot U -> In mI G -> In 0 (umis_angles G U U).
Proof. intros HU HI. unfold umis_angles. rewrite <- (Umis_self U HU). apply in_map. exact HI. Qed.

(* C05: with the real reflection conditions (sysabs, AST-translated) and operator extinction as the meaning of "allowed":
   for shells that fit in the box [-7,7]^3 the model of genhkl_all lists exactly the reflections no operation extinguishes, each once
   (monotone systems). *)
From Coq Require Import ZArith List Bool String Lia.
From XV Require Import SGroup HklModel Traverse Tab_segm Ast_laue Tab_sg_all P05 P05_complete P06_fd P06_fd_main P05_cov_all P05_all P05_nodup P05_qinv P05_final P05_extinv.
Import ListNotations.
Open Scope Z_scope.

(* ---- helper facts ---------------------------------------------------------------------------------------------------------------- *)
Lemma box_spec H x y z : 0 <= H -> - H <= x <= H -> - H <= y <= H -> - H <= z <= H -> In (x, y, z) (box H).
Proof.
  intros H0 Hx Hy Hz. unfold box. set (r := map (fun i => Z.of_nat i - H) (seq 0 (Z.to_nat (2 * H + 1)))).
  assert (Hr : forall v, - H <= v <= H -> In v r).
  { intros v Hv. unfold r. apply in_map_iff. exists (Z.to_nat (v + H)). split; [rewrite Z2Nat.id; lia|]. apply in_seq. lia. }
  apply in_flat_map. exists x. split; [apply Hr; exact Hx|]. apply in_flat_map. exists y. split; [apply Hr; exact Hy|].
  apply in_map_iff. exists z. split; [reflexivity | apply Hr; exact Hz].
Qed.

(* cone membership implies the boolean test, for unimodular directions *)
Lemma cone_region seg x : in_region seg (vec3 (nth 0 seg [])) = true -> in_cone seg x -> in_region seg x = true.
Proof.
  unfold in_region, in_cone.
  destruct (vec3 (nth 0 seg [])) as [[sx sy] sz], (vec3 (nth 1 seg [])) as [[a1 a2] a3],
           (vec3 (nth 2 seg [])) as [[b1 b2] b3], (vec3 (nth 3 seg [])) as [[c1 c2] c3], x as [[x y] z].
  cbv zeta. set (det := a1 * (b2 * c3 - b3 * c2) - a2 * (b1 * c3 - b3 * c1) + a3 * (b1 * c2 - b2 * c1)).
  intros HU (a & k & m & Ha & Hk & Hm & E).
  apply andb_prop in HU. destruct HU as [HU _]. apply andb_prop in HU. destruct HU as [HU _]. apply andb_prop in HU. destruct HU as [Hd _].
  assert (D2 : det * det = 1).
  { apply orb_prop in Hd. destruct Hd as [Q|Q]; apply Z.eqb_eq in Q; rewrite Q; reflexivity. }
  rewrite Hd. cbn [andb]. unfold hadd, hscale in E.
  assert (Ex : x - sx = m * c1 + k * b1 + a * a1) by (apply (f_equal (fun t => fst (fst t))) in E; cbn [fst snd] in E; lia).
  assert (Ey : y - sy = m * c2 + k * b2 + a * a2) by (apply (f_equal (fun t => snd (fst t))) in E; cbn [fst snd] in E; lia).
  assert (Ez : z - sz = m * c3 + k * b3 + a * a3) by (apply (f_equal (fun t => snd t)) in E; cbn [fst snd] in E; lia).
  rewrite Ex, Ey, Ez.
  repeat (apply andb_true_intro; split); apply Z.leb_le.
  - replace ((m * c1 + k * b1 + a * a1) * (b2 * c3 - b3 * c2) - (m * c2 + k * b2 + a * a2) * (b1 * c3 - b3 * c1) + (m * c3 + k * b3 + a * a3) * (b1 * c2 - b2 * c1)) with (a * det) by (unfold det; ring).
    rewrite <- Z.mul_assoc, D2. lia.
  - replace (a1 * ((m * c2 + k * b2 + a * a2) * c3 - (m * c3 + k * b3 + a * a3) * c2) - a2 * ((m * c1 + k * b1 + a * a1) * c3 - (m * c3 + k * b3 + a * a3) * c1) + a3 * ((m * c1 + k * b1 + a * a1) * c2 - (m * c2 + k * b2 + a * a2) * c1)) with (k * det) by (unfold det; ring).
    rewrite <- Z.mul_assoc, D2. lia.
  - replace (a1 * (b2 * (m * c3 + k * b3 + a * a3) - b3 * (m * c2 + k * b2 + a * a2)) - a2 * (b1 * (m * c3 + k * b3 + a * a3) - b3 * (m * c1 + k * b1 + a * a1)) + a3 * (b1 * (m * c2 + k * b2 + a * a2) - b2 * (m * c1 + k * b1 + a * a1))) with (m * det) by (unfold det; ring).
    rewrite <- Z.mul_assoc, D2. lia.
Qed.

(* the traversal only looks at `allowed` on cone points inside the shell *)
Section Ext.
Variable G : metricZ.
Variables Tmin Tmax Tterm : Z.
Variables al1 al2 : hkl -> bool.

Lemma keep_ext x : (Tmin < qform G x <= Tmax -> al1 x = al2 x) -> keep G Tmin Tmax al1 x = keep G Tmin Tmax al2 x.
Proof.
  intros H. unfold keep. destruct (Tmin <? qform G x) eqn:E1; [|rewrite !andb_false_r; reflexivity].
  destruct (qform G x <=? Tmax) eqn:E2; [|rewrite !andb_false_r; reflexivity].
  apply Z.ltb_lt in E1. apply Z.leb_le in E2. rewrite (H (conj E1 E2)). reflexivity.
Qed.
Lemma hloop_ext fuel d1 : forall h, (forall a, 0 <= a -> let x := hadd h (hscale a d1) in Tmin < qform G x <= Tmax -> al1 x = al2 x) ->
  hloop G Tmin Tmax Tterm al1 fuel d1 h = hloop G Tmin Tmax Tterm al2 fuel d1 h.
Proof.
  induction fuel as [|f IH]; intros h H; cbn; [reflexivity|].
  rewrite keep_ext by (specialize (H 0 ltac:(lia)); cbv zeta in H; rewrite hadd_0_r in H; exact H).
  rewrite IH; [reflexivity|]. intros a Ha. cbv zeta. rewrite hscale_succ. apply (H (a + 1)). lia.
Qed.
Lemma kloop_ext fuel fh d1 d2 : forall b, (forall k a, 0 <= k -> 0 <= a -> let x := hadd (hadd b (hscale k d2)) (hscale a d1) in Tmin < qform G x <= Tmax -> al1 x = al2 x) ->
  kloop G Tmin Tmax Tterm al1 fuel fh d1 d2 b = kloop G Tmin Tmax Tterm al2 fuel fh d1 d2 b.
Proof.
  induction fuel as [|f IH]; intros b H; cbn; [reflexivity|].
  rewrite hloop_ext by (intros a Ha; specialize (H 0 a ltac:(lia) Ha); cbv zeta in H |- *; rewrite hadd_0_r in H; exact H).
  rewrite IH; [reflexivity|]. intros k a Hk Ha. cbv zeta. rewrite hscale_succ. apply (H (k + 1) a); lia.
Qed.
Lemma lloop_ext fuel fk fh d1 d2 d3 : forall c, (forall m k a, 0 <= m -> 0 <= k -> 0 <= a ->
    let x := hadd (hadd (hadd c (hscale m d3)) (hscale k d2)) (hscale a d1) in Tmin < qform G x <= Tmax -> al1 x = al2 x) ->
  lloop G Tmin Tmax Tterm al1 fuel fk fh d1 d2 d3 c = lloop G Tmin Tmax Tterm al2 fuel fk fh d1 d2 d3 c.
Proof.
  induction fuel as [|f IH]; intros c H; cbn; [reflexivity|].
  rewrite kloop_ext by (intros k a Hk Ha; specialize (H 0 k a ltac:(lia) Hk Ha); cbv zeta in H |- *; rewrite hadd_0_r in H; exact H).
  rewrite IH; [reflexivity|]. intros m k a Hm Hk Ha. cbv zeta. rewrite hscale_succ. apply (H (m + 1) k a); lia.
Qed.
Lemma all_segments_ext fuel segs : (forall seg x, In seg segs -> in_cone seg x -> Tmin < qform G x <= Tmax -> al1 x = al2 x) ->
  all_segments G Tmin Tmax Tterm al1 fuel segs = all_segments G Tmin Tmax Tterm al2 fuel segs.
Proof.
  induction segs as [|s r IH]; intros H; cbn; [reflexivity|]. unfold segment.
  rewrite lloop_ext, IH; [reflexivity | intros seg x Hs; apply H; right; exact Hs |].
  intros m k a Hm Hk Ha. cbv zeta. intros Hsh. apply (H s); [left; reflexivity | | exact Hsh].
  exists a, k, m. repeat split; try assumption.
Qed.
End Ext.

Lemma vmZ_0 R : vmZ (0, 0, 0) R = (0, 0, 0).
Proof. destruct R as [[[[[[[[a b] c] d] e] f] g] h] i]. unfold vmZ. repeat f_equal; ring. Qed.

Section Box.
Variable s : sgrec.
Hypothesis Hs : In s all_settings.
Variables (ops : list op) (L : list mat) (segs : list (list (list Z))) (rots : list mat).
Hypothesis Hops : ops_of (sg_rot s) (sg_trans s) = Some ops.
Hypothesis Hrots : all_mats (firstn (Z.to_nat (sg_nuniq s)) (sg_rot s)) = Some rots.
Hypothesis HL : L = rots ++ map mnegZ rots.
Hypothesis Hsegs : lookup_segm segm_laue (sg_laue s) (sg_choice s) = Some segs.
Variable G : metricZ.
Variables Tmin Tmax Tterm : Z.
Hypothesis Hc : (sg_choice s = "standard" \/ sg_choice s = "hexagonal")%string.
Hypothesis HM : monotone_system (sg_laue s) (sg_choice s) G.
Hypothesis H0 : 0 <= Tmin.
Hypothesis HT : Tmax <= Tterm.
Hypothesis Hbox : forall x y z, qform G (x, y, z) <= Tmax -> (-7 <= x <= 7) /\ (-7 <= y <= 7) /\ (-7 <= z <= 7).

Definition allowedS (h : hkl) : bool := ast_laue_sysabs (let '(x, y, z) := h in [x; y; z]) (sg_syscond s) (sg_csys s) (sg_choice s) =? 0.
Definition allowedE (h : hkl) : bool := negb (extinct ops h).

Let HLm : laue_mats s = Some L := laue_mats_L s L rots Hrots HL.

Lemma in_box h : qform G h <= Tmax -> In h (box 7).
Proof. destruct h as [[x y] z]. intros Hq. destruct (Hbox x y z Hq) as (Hx & Hy & Hz). apply box_spec; lia. Qed.

Lemma region_of_cone seg x : In seg segs -> in_cone seg x -> existsb (fun sg => in_region sg x) segs = true.
Proof.
  intros Hseg Hcone. pose proof (proj1 (forallb_forall _ _) sysabs_all s Hs) as Hok. unfold sysabs_ok in Hok. rewrite Hops, Hsegs in Hok.
  apply andb_prop in Hok. destruct Hok as [HU _]. unfold unimodular_segs in HU. rewrite forallb_forall in HU.
  apply existsb_exists. exists seg. split; [exact Hseg|]. apply cone_region; [apply HU; exact Hseg | exact Hcone].
Qed.

(* F1: on cone points of the box, sysabs is operator extinction *)
Lemma sysabs_is_extinction seg x : In seg segs -> in_cone seg x -> x <> (0, 0, 0) -> qform G x <= Tmax -> allowedS x = allowedE x.
Proof.
  intros Hseg Hcone Hnz Hq. pose proof (proj1 (forallb_forall _ _) sysabs_all s Hs) as Hok. unfold sysabs_ok in Hok. rewrite Hops, Hsegs in Hok.
  apply andb_prop in Hok. destruct Hok as [_ HF]. rewrite forallb_forall in HF. specialize (HF x (in_box x Hq)).
  rewrite (region_of_cone seg x Hseg Hcone) in HF.
  assert (N : hkl_eqb x (0, 0, 0) = false) by (destruct (hkl_eqb x (0, 0, 0)) eqn:E; [apply hkl_eqb_spec in E; contradiction | reflexivity]).
  rewrite N in HF. cbn [negb andb] in HF. apply eqb_prop in HF. exact HF.
Qed.

(* F2: a representative and its Laue images are extinct together *)
Lemma extinct_rep seg x R : In seg segs -> in_cone seg x -> qform G x <= Tmax -> In R L -> extinct ops (vmZ x R) = extinct ops x.
Proof.
  intros Hseg Hcone Hq HR. pose proof (proj1 (forallb_forall _ _) ext_inv_all s Hs) as Hok. unfold ext_inv_ok in Hok. rewrite Hops, HLm, Hsegs in Hok.
  rewrite forallb_forall in Hok. specialize (Hok x (in_box x Hq)). rewrite (region_of_cone seg x Hseg Hcone) in Hok.
  rewrite forallb_forall in Hok. specialize (Hok R HR). apply eqb_prop in Hok. exact Hok.
Qed.

Lemma Hq_all R h : In R L -> qform G (vmZ h R) = qform G h.
Proof. apply (qinv_setting s L G Hs HLm Hc HM). Qed.

(* every non-zero hkl has a Laue image in a cone, through an element of this setting's group *)
Lemma rep_exists h : h <> (0, 0, 0) -> exists S seg, In S L /\ In seg segs /\ in_cone seg (vmZ h S).
Proof.
  destruct h as [[x y] z]. intros Hnz.
  pose proof (proj1 (forallb_forall _ _) fd_settings_ok s Hs) as Hok. unfold fd_setting_ok in Hok. rewrite HLm, Hsegs in Hok.
  destruct (fd_lookup (sg_laue s) (sg_choice s)) as [e|] eqn:El; [|discriminate].
  assert (He : In e fd_table).
  { unfold fd_lookup in El. destruct (filter _ fd_table) as [|a l] eqn:F; [discriminate|].
    assert (E0 : last (a :: l) (EmptyString, None, [], []) = e) by (injection El; intros Q; exact Q).
    assert (Hin : In (last (a :: l) (EmptyString, None, [], [])) (a :: l)) by (apply last_in; discriminate).
    rewrite E0, <- F in Hin. apply filter_In in Hin. exact (proj1 Hin). }
  apply andb_prop in Hok. destruct Hok as [Hok _]. apply andb_prop in Hok. destruct Hok as [Hok Hsup]. apply andb_prop in Hok. destruct Hok as [_ HS].
  apply (list_eqb_eq _ (list_eqb_eq _ (list_eqb_eq _ (fun a b => proj1 (Z.eqb_eq a b))))) in HS.
  assert (Hne : x <> 0 \/ y <> 0 \/ z <> 0).
  { destruct (Z.eq_dec x 0) as [->|]; [|tauto]. destruct (Z.eq_dec y 0) as [->|]; [|tauto]. destruct (Z.eq_dec z 0) as [->|]; [|tauto]. exfalso; apply Hnz; reflexivity. }
  destruct (fd_table_cover e He x y z Hne) as (R & seg & HR & Hseg & Hcn).
  rewrite forallb_forall in Hsup. specialize (Hsup R HR). apply existsb_exists in Hsup. destruct Hsup as (R0 & HR0 & E0). apply mat_eqb_eq' in E0. subst R0.
  exists R, seg. rewrite HS. auto.
Qed.

(* F3: operator extinction is invariant under the Laue group, for everything inside the shell bound *)
Lemma extinction_invariant R h : In R L -> qform G h <= Tmax -> allowedE (vmZ h R) = allowedE h.
Proof.
  intros HR Hq. unfold allowedE. f_equal.
  destruct (hkl_eqb h (0, 0, 0)) eqn:E0; [apply hkl_eqb_spec in E0; subst h; rewrite vmZ_0; reflexivity|].
  assert (Hnz : h <> (0, 0, 0)) by (intro Z; subst h; cbn in E0; discriminate).
  destruct (rep_exists h Hnz) as (S & seg & HS & Hseg & Hcone).
  destruct (setting_facts s Hs L segs rots Hrots HL Hsegs) as (_ & _ & _ & Hcl & Hinv).
  destruct (Hinv S HS) as (S' & HS' & EI).
  set (x := vmZ h S) in *.
  assert (Qx : qform G x <= Tmax) by (unfold x; rewrite (Hq_all S h HS); exact Hq).
  assert (Eh : h = vmZ x S') by (unfold x; rewrite vmZ_mmulZ, EI, vmZ_I; reflexivity).
  rewrite Eh at 2. rewrite (extinct_rep seg x S' Hseg Hcone Qx HS').
  rewrite Eh, vmZ_mmulZ. apply (extinct_rep seg x (mmulZ S' R) Hseg Hcone Qx). apply Hcl; assumption.
Qed.

(* the traversal run with sysabs is the traversal run with operator extinction *)
Lemma rows_same fuel : all_segments G Tmin Tmax Tterm allowedS fuel segs = all_segments G Tmin Tmax Tterm allowedE fuel segs.
Proof.
  apply all_segments_ext. intros seg x Hseg Hcone [Hlo Hhi]. apply (sysabs_is_extinction seg x Hseg Hcone); [|exact Hhi].
  intros ->. assert (Q0 : qform G (0, 0, 0) = 0) by (unfold qform; ring). rewrite Q0 in Hlo. lia.
Qed.

Theorem exact_with_real_sysabs fuel reps : all_segments G Tmin Tmax Tterm allowedS fuel segs = Some reps ->
  NoDup (flat_map (expand rots) reps) /\
  forall h, In h (flat_map (expand rots) reps) <-> (extinct ops h = false /\ Tmin < qform G h <= Tmax).
Proof.
  intros H. rewrite rows_same in H.
  destruct (exact_in_monotone_systems s L segs rots G Tmin Tmax Tterm allowedE fuel reps Hs Hrots HL Hsegs Hc HM H0 HT extinction_invariant H) as [ND Hiff].
  split; [exact ND|]. intros h. rewrite Hiff. unfold allowedE. rewrite negb_true_iff. tauto.
Qed.
End Box.

Example box_hypothesis_satisfiable : forall x y z, qform (mkMet 7 11 13 0 0 0) (x, y, z) <= 300 -> (-7 <= x <= 7) /\ (-7 <= y <= 7) /\ (-7 <= z <= 7).
Proof. intros x y z. unfold qform; cbn [g11 g22 g33 g12 g13 g23]. intros H. repeat split; nia. Qed.

(* C14 (cell algebra part): generated tools definitions vs generated laue definitions *)
From Coq Require Import Reals Lra Psatz.
From XV Require Import RealLib Mat3 Atan2 Cell Gen_laue Gen_tools.
Open Scope R_scope.

Ltac both_unfold f g := unfold f, g; cbv zeta.

Lemma tl_cell_volume c : tools_cell_volume c = laue_cell_volume c.
Proof. reflexivity. Qed.
Lemma tl_cell_invert c : tools_cell_invert c = laue_cell_invert c.
Proof. reflexivity. Qed.
Lemma tl_form_a_mat c : tools_form_a_mat c = laue_form_a_mat c.
Proof. reflexivity. Qed.
Lemma tl_form_a_mat_inv c : tools_form_a_mat_inv c = laue_form_a_mat_inv c.
Proof. reflexivity. Qed.
Lemma tl_a_to_cell A : tools_a_to_cell A = laue_a_to_cell A.
Proof. reflexivity. Qed.
Lemma tl_sintl c h : tools_sintl c h = laue_sintl c h.
Proof. reflexivity. Qed.
Lemma tl_ubi_to_cell A : tools_ubi_to_cell A = laue_ubi_to_cell A.
Proof. reflexivity. Qed.

Lemma tl_form_b_mat c : laue_cell_volume c <> 0 ->
  sin (c3 c * PI / 180) <> 0 -> sin (c4 c * PI / 180) <> 0 -> sin (c5 c * PI / 180) <> 0 ->
  c0 c <> 0 -> c1 c <> 0 -> c2 c <> 0 ->
  tools_form_b_mat c = mscale (2 * PI) (laue_form_b_mat c).
Proof.
  intros HV H3 H4 H5 H0 H1 H2. unfold tools_form_b_mat, laue_form_b_mat; cbv zeta.
  rewrite tl_cell_volume. set (V := laue_cell_volume c) in *. clearbody V.
  unfold mscale; cbn [m00 m01 m02 m10 m11 m12 m20 m21 m22].
  f_equal; field; repeat split; assumption.
Qed.

Lemma tl_b_to_cell B : tools_b_to_cell (mscale (2 * PI) B) = laue_b_to_cell B.
Proof.
  unfold tools_b_to_cell, laue_b_to_cell; cbv zeta. destruct B as [b00 b01 b02 b10 b11 b12 b20 b21 b22]; unfold mscale; cbn [m00 m01 m02 m10 m11 m12 m20 m21 m22].
  pose proof PI_RGT_0.
  repeat match goal with |- context [2 * PI * ?x / (2 * PI)] => replace (2 * PI * x / (2 * PI)) with x by (field; lra) end.
  reflexivity.
Qed.

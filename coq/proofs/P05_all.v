(* C05: none missed, end to end, for the model of genhkl_all in the crystal systems where the traversal is monotone:
   covering of Z^3 \ 0 by the Laue images of the cones (gen/P05_cov_*.v, all of Z^3) + completeness of the traversal (P05_complete)
   + the orbit expansion.  Hypotheses on the metric and on the reflection conditions: both invariant under the setting's Laue group. *)
From Coq Require Import ZArith List Bool String Lia.
From XV Require Import SGroup HklModel Traverse Tab_segm Tab_sg_all P05 P05_complete P06_fd P05_cov_all P06_fd_main.
Import ListNotations.
Open Scope Z_scope.

Lemma vmZ_mmulZ h A B : vmZ (vmZ h A) B = vmZ h (mmulZ A B).
Proof.
  destruct h as [[x y] z], A as [[[[[[[[a b] c] d] e] f] g] hh] i], B as [[[[[[[[a' b'] c'] d'] e'] f'] g'] h'] i'].
  unfold vmZ, mmulZ. f_equal; [f_equal|]; ring.
Qed.
Lemma vmZ_I h : vmZ h mI9 = h.
Proof. destruct h as [[x y] z]. unfold vmZ, mI9. f_equal; [f_equal|]; ring. Qed.
Lemma vmZ_zero R x y z : vmZ (x, y, z) R = (0, 0, 0) -> forall R', mmulZ R R' = mI9 -> (x, y, z) = (0, 0, 0).
Proof. intros E R' HI. rewrite <- (vmZ_I (x, y, z)), <- HI, <- vmZ_mmulZ, E. destruct R' as [[[[[[[[a b] c] d] e] f] g] hh] i]. reflexivity. Qed.

Section AllComplete.
Variable s : sgrec.
Hypothesis Hs : In s all_settings.
Variables (L : list mat) (segs : list (list (list Z))) (rots : list mat).
Hypothesis Hrots : all_mats (firstn (Z.to_nat (sg_nuniq s)) (sg_rot s)) = Some rots.
Hypothesis HL : L = rots ++ map mnegZ rots.
Hypothesis Hsegs : lookup_segm segm_laue (sg_laue s) (sg_choice s) = Some segs.
Variable G : metricZ.
Variables Tmin Tmax Tterm : Z.
Variable allowed : hkl -> bool.
Hypothesis HT : Tmax <= Tterm.
Hypothesis Hmono : forall seg, In seg segs -> gram_ok G seg = true.
Hypothesis Hq : forall R h, In R L -> qform G (vmZ h R) = qform G h.          (* the Laue group preserves the reciprocal metric *)
Hypothesis Ha : forall R h, In R L -> qform G h <= Tmax -> allowed (vmZ h R) = allowed h.   (* and the reflection conditions, inside the shell *)

Lemma laue_mats_L : laue_mats s = Some L.
Proof. unfold laue_mats. rewrite Hrots, HL. reflexivity. Qed.

Theorem all_rows_complete fuel reps : all_segments G Tmin Tmax Tterm allowed fuel segs = Some reps ->
  forall h, h <> (0, 0, 0) -> allowed h = true -> Tmin < qform G h <= Tmax -> In h (flat_map (expand rots) reps).
Proof.
  intros Hrep [[x y] z] Hnz Hal Hsh.
  pose proof (proj1 (forallb_forall _ _) fd_settings_ok s Hs) as Hok. unfold fd_setting_ok in Hok. rewrite laue_mats_L, Hsegs in Hok.
  destruct (fd_lookup (sg_laue s) (sg_choice s)) as [e|] eqn:El; [|discriminate].
  assert (He : In e fd_table).
  { unfold fd_lookup in El. destruct (filter _ fd_table) as [|a l] eqn:F; [discriminate|].
    assert (E0 : last (a :: l) (EmptyString, None, [], []) = e) by (injection El; intros Q; exact Q).
    assert (Hin : In (last (a :: l) (EmptyString, None, [], [])) (a :: l)) by (apply last_in; discriminate).
    rewrite E0, <- F in Hin. apply filter_In in Hin. exact (proj1 Hin). }
  apply andb_prop in Hok. destruct Hok as [Hok Hinv]. apply andb_prop in Hok. destruct Hok as [Hok Hsup].
  apply andb_prop in Hok. destruct Hok as [_ HS].
  apply (list_eqb_eq _ (list_eqb_eq _ (list_eqb_eq _ (fun a b => proj1 (Z.eqb_eq a b))))) in HS.
  assert (Hne : x <> 0 \/ y <> 0 \/ z <> 0).
  { destruct (Z.eq_dec x 0) as [->|]; [|tauto]. destruct (Z.eq_dec y 0) as [->|]; [|tauto]. destruct (Z.eq_dec z 0) as [->|]; [|tauto]. exfalso; apply Hnz; reflexivity. }
  destruct (fd_table_cover e He x y z Hne) as (R & seg & HR & Hseg & Hc).
  (* R belongs to this setting's group *)
  rewrite forallb_forall in Hsup. specialize (Hsup R HR). apply existsb_exists in Hsup. destruct Hsup as (R0 & HR0 & E0). apply mat_eqb_eq' in E0. subst R0.
  rewrite <- HS in Hseg.
  (* the representative is a row of the traversal *)
  assert (Krep : In (vmZ (x, y, z) R) reps).
  { apply (all_segments_complete G Tmin Tmax Tterm allowed HT fuel segs reps Hrep Hmono _ seg Hseg Hc).
    unfold keep. rewrite (Ha R _ HR0 (proj2 Hsh)), Hal, (Hq R _ HR0). destruct Hsh as [S1 S2]. apply Z.ltb_lt in S1. apply Z.leb_le in S2. rewrite S1, S2. reflexivity. }
  (* and h is in its expansion, through the inverse of R *)
  rewrite forallb_forall in Hinv. specialize (Hinv R HR0). apply existsb_exists in Hinv. destruct Hinv as (R' & HR' & EI). apply mat_eqb_eq' in EI.
  apply in_flat_map. exists (vmZ (x, y, z) R). split; [exact Krep|].
  apply (proj2 (expand_is_orbit rots (vmZ (x, y, z) R))).
  rewrite HL in HR'. apply in_app_or in HR'. destruct HR' as [HR'|HR'].
  - exists R'. split; [exact HR'|]. left. rewrite vmZ_mmulZ, EI, vmZ_I. reflexivity.
  - apply in_map_iff in HR'. destruct HR' as (R'' & <- & HR''). exists R''. split; [exact HR''|]. right. rewrite vmZ_mmulZ, EI, vmZ_I. reflexivity.
Qed.
End AllComplete.

(* C05 / C06: completeness of the traversal model when sin(theta)/lambda does not decrease along the three loop directions
   inside the segment's cone, and a decidable sufficient condition on the metric (all the Gram products of the directions
   non-negative).  The unchanged code is incomplete exactly where this fails (known finding F6). *)
From Coq Require Import ZArith List Bool String Lia.
From XV Require Import SGroup HklModel Traverse Tab_segm P05.
Import ListNotations.
Open Scope Z_scope.

Section Complete.
Variable G : metricZ.
Variables Tmin Tmax Tterm : Z.
Variable allowed : hkl -> bool.
Notation keep := (keep G Tmin Tmax allowed).
Notation q := (qform G).

Lemma hscale_step h d n : hadd h (hscale (Z.of_nat (S n)) d) = hadd (hadd h d) (hscale (Z.of_nat n) d).
Proof. rewrite hscale_succ. f_equal. f_equal. lia. Qed.

Lemma hloop_complete n : forall fuel d1 h l, hloop G Tmin Tmax Tterm allowed fuel d1 h = Some l ->
  (forall a, 0 <= a < Z.of_nat n -> q (hadd h (hscale (a + 1) d1)) <= Tterm) ->
  keep (hadd h (hscale (Z.of_nat n) d1)) = true -> In (hadd h (hscale (Z.of_nat n) d1)) l.
Proof.
  induction n as [|n IH]; intros fuel d1 h l H Hq K; destruct fuel as [|f]; cbn in H; try discriminate.
  - change (Z.of_nat 0) with 0 in *. rewrite hadd_0_r in *. rewrite K in H.
    destruct (q (hadd h d1) <=? Tterm).
    + destruct (hloop G Tmin Tmax Tterm allowed f d1 (hadd h d1)) as [r|]; [|discriminate]. cbn in H. injection H as <-. left; reflexivity.
    + injection H as <-. left; reflexivity.
  - assert (Q1 : q (hadd h d1) <= Tterm).
    { specialize (Hq 0 ltac:(lia)). rewrite <- hscale_succ, hadd_0_r in Hq. exact Hq. }
    apply Z.leb_le in Q1. rewrite Q1 in H.
    destruct (hloop G Tmin Tmax Tterm allowed f d1 (hadd h d1)) as [r|] eqn:E; [|discriminate]. cbn in H. injection H as <-.
    apply in_or_app. right. rewrite hscale_step in *. apply (IH f d1 (hadd h d1) r E); [|exact K].
    intros a Ha. specialize (Hq (a + 1) ltac:(lia)). rewrite <- hscale_succ in Hq. exact Hq.
Qed.

Lemma kloop_complete m : forall fuel fh d1 d2 b l n, kloop G Tmin Tmax Tterm allowed fuel fh d1 d2 b = Some l ->
  (forall k, 0 <= k < Z.of_nat m -> q (hadd b (hscale (k + 1) d2)) <= Tterm) ->
  (forall a, 0 <= a < Z.of_nat n -> q (hadd (hadd b (hscale (Z.of_nat m) d2)) (hscale (a + 1) d1)) <= Tterm) ->
  keep (hadd (hadd b (hscale (Z.of_nat m) d2)) (hscale (Z.of_nat n) d1)) = true ->
  In (hadd (hadd b (hscale (Z.of_nat m) d2)) (hscale (Z.of_nat n) d1)) l.
Proof.
  induction m as [|m IH]; intros fuel fh d1 d2 b l n H Hk Ha K; destruct fuel as [|f]; cbn in H; try discriminate.
  - change (Z.of_nat 0) with 0 in *. rewrite hadd_0_r in *.
    destruct (hloop G Tmin Tmax Tterm allowed fh d1 b) as [row|] eqn:ER; [|discriminate].
    pose proof (hloop_complete n fh d1 b row ER Ha K) as Hin.
    destruct (Tterm <? q (hadd b d2)).
    + injection H as <-. exact Hin.
    + destruct (kloop G Tmin Tmax Tterm allowed f fh d1 d2 (hadd b d2)) as [r|]; [|discriminate]. cbn in H. injection H as <-.
      apply in_or_app. left. exact Hin.
  - destruct (hloop G Tmin Tmax Tterm allowed fh d1 b) as [row|] eqn:ER; [|discriminate].
    assert (Q1 : q (hadd b d2) <= Tterm).
    { specialize (Hk 0 ltac:(lia)). rewrite <- hscale_succ, hadd_0_r in Hk. exact Hk. }
    assert (Q2 : (Tterm <? q (hadd b d2)) = false) by (apply Z.ltb_ge; exact Q1). rewrite Q2 in H.
    destruct (kloop G Tmin Tmax Tterm allowed f fh d1 d2 (hadd b d2)) as [r|] eqn:E; [|discriminate]. cbn in H. injection H as <-.
    apply in_or_app. right. rewrite hscale_step in *. apply (IH f fh d1 d2 (hadd b d2) r n E); [|exact Ha|exact K].
    intros k Hk'. specialize (Hk (k + 1) ltac:(lia)). rewrite <- hscale_succ in Hk. exact Hk.
Qed.

Lemma lloop_complete p : forall fuel fk fh d1 d2 d3 c l m n, lloop G Tmin Tmax Tterm allowed fuel fk fh d1 d2 d3 c = Some l ->
  (forall i, 0 <= i < Z.of_nat p -> q (hadd c (hscale (i + 1) d3)) <= Tterm) ->
  (forall k, 0 <= k < Z.of_nat m -> q (hadd (hadd c (hscale (Z.of_nat p) d3)) (hscale (k + 1) d2)) <= Tterm) ->
  (forall a, 0 <= a < Z.of_nat n -> q (hadd (hadd (hadd c (hscale (Z.of_nat p) d3)) (hscale (Z.of_nat m) d2)) (hscale (a + 1) d1)) <= Tterm) ->
  keep (hadd (hadd (hadd c (hscale (Z.of_nat p) d3)) (hscale (Z.of_nat m) d2)) (hscale (Z.of_nat n) d1)) = true ->
  In (hadd (hadd (hadd c (hscale (Z.of_nat p) d3)) (hscale (Z.of_nat m) d2)) (hscale (Z.of_nat n) d1)) l.
Proof.
  induction p as [|p IH]; intros fuel fk fh d1 d2 d3 c l m n H Hi Hk Ha K; destruct fuel as [|f]; cbn in H; try discriminate.
  - change (Z.of_nat 0) with 0 in *. rewrite hadd_0_r in *.
    destruct (kloop G Tmin Tmax Tterm allowed fk fh d1 d2 c) as [rows|] eqn:ER; [|discriminate].
    pose proof (kloop_complete m fk fh d1 d2 c rows n ER Hk Ha K) as Hin.
    destruct (Tterm <? q (hadd c d3)).
    + injection H as <-. exact Hin.
    + destruct (lloop G Tmin Tmax Tterm allowed f fk fh d1 d2 d3 (hadd c d3)) as [r|]; [|discriminate]. cbn in H. injection H as <-.
      apply in_or_app. left. exact Hin.
  - destruct (kloop G Tmin Tmax Tterm allowed fk fh d1 d2 c) as [rows|] eqn:ER; [|discriminate].
    assert (Q1 : q (hadd c d3) <= Tterm).
    { specialize (Hi 0 ltac:(lia)). rewrite <- hscale_succ, hadd_0_r in Hi. exact Hi. }
    assert (Q2 : (Tterm <? q (hadd c d3)) = false) by (apply Z.ltb_ge; exact Q1). rewrite Q2 in H.
    destruct (lloop G Tmin Tmax Tterm allowed f fk fh d1 d2 d3 (hadd c d3)) as [r|] eqn:E; [|discriminate]. cbn in H. injection H as <-.
    apply in_or_app. right. rewrite hscale_step in *. apply (IH f fk fh d1 d2 d3 (hadd c d3) r m n E); [|exact Hk|exact Ha|exact K].
    intros i Hi'. specialize (Hi (i + 1) ltac:(lia)). rewrite <- hscale_succ in Hi. exact Hi.
Qed.
End Complete.

(* ---- when does sin(theta)/lambda not decrease along the loops?  A sufficient, decidable condition on the metric ------------- *)
Definition bil (G : metricZ) (u v : hkl) : Z :=
  let '(x, y, z) := u in let '(x', y', z') := v in
  g11 G * x * x' + g22 G * y * y' + g33 G * z * z' + g12 G * (x * y' + y * x') + g13 G * (x * z' + z * x') + g23 G * (y * z' + z * y').

Lemma q_line G y d k : qform G (hadd y (hscale k d)) = qform G y + 2 * k * bil G y d + k * k * qform G d.
Proof. destruct y as [[? ?] ?], d as [[? ?] ?]. unfold qform, bil, hadd, hscale. ring. Qed.
Lemma bil_hadd G u v d : bil G (hadd u v) d = bil G u d + bil G v d.
Proof. destruct u as [[? ?] ?], v as [[? ?] ?], d as [[? ?] ?]. unfold bil, hadd. ring. Qed.
Lemma bil_hscale G k u d : bil G (hscale k u) d = k * bil G u d.
Proof. destruct u as [[? ?] ?], d as [[? ?] ?]. unfold bil, hscale. ring. Qed.

Lemma line_mono G y d k k' : 0 <= k <= k' -> 0 <= 2 * bil G y d + qform G d -> 0 <= qform G d ->
  qform G (hadd y (hscale k d)) <= qform G (hadd y (hscale k' d)).
Proof.
  intros Hk HA Hq. rewrite !q_line. set (b := bil G y d) in *. set (qd := qform G d) in *.
  assert (E : 2 * k' * b + k' * k' * qd - (2 * k * b + k * k * qd) = (k' - k) * (2 * b + qd) + (k' - k) * (k' + k - 1) * qd) by ring.
  destruct (Z.eq_dec k k') as [->|N]; [lia|].
  assert (0 <= (k' - k) * (2 * b + qd)) by (apply Z.mul_nonneg_nonneg; lia).
  assert (0 <= (k' - k) * (k' + k - 1) * qd) by (apply Z.mul_nonneg_nonneg; [apply Z.mul_nonneg_nonneg; lia | exact Hq]).
  lia.
Qed.

Definition gram_ok (G : metricZ) (seg : list (list Z)) : bool :=
  let c := vec3 (nth 0 seg []) in let d1 := vec3 (nth 1 seg []) in let d2 := vec3 (nth 2 seg []) in let d3 := vec3 (nth 3 seg []) in
  (0 <=? 2 * bil G c d3 + qform G d3) && (0 <=? 2 * bil G c d2 + qform G d2) && (0 <=? 2 * bil G c d1 + qform G d1)
  && (0 <=? bil G d3 d2) && (0 <=? bil G d3 d1) && (0 <=? bil G d2 d1)
  && (0 <=? qform G d1) && (0 <=? qform G d2) && (0 <=? qform G d3).

Section Final.
Variable G : metricZ.
Variables Tmin Tmax Tterm : Z.
Variable allowed : hkl -> bool.
Hypothesis HT : Tmax <= Tterm.

Theorem segment_complete fuel seg l : segment G Tmin Tmax Tterm allowed fuel seg = Some l -> gram_ok G seg = true ->
  forall x, in_cone seg x -> keep G Tmin Tmax allowed x = true -> In x l.
Proof.
  intros H HG x (a & k & m & Ha & Hk & Hm & ->) K. unfold segment in H. unfold gram_ok in HG; cbv zeta in HG.
  set (c := vec3 (nth 0 seg [])) in *. set (d1 := vec3 (nth 1 seg [])) in *. set (d2 := vec3 (nth 2 seg [])) in *. set (d3 := vec3 (nth 3 seg [])) in *.
  repeat (apply andb_prop in HG; let X := fresh "G" in destruct HG as [HG X]; apply Z.leb_le in X). apply Z.leb_le in HG.
  (* the point has q <= Tmax *)
  assert (Kq : qform G (hadd (hadd (hadd c (hscale m d3)) (hscale k d2)) (hscale a d1)) <= Tmax).
  { unfold keep in K. apply andb_prop in K. destruct K as [_ K]. apply Z.leb_le in K. exact K. }
  set (y1 := hadd c (hscale m d3)) in *. set (y2 := hadd y1 (hscale k d2)) in *.
  (* base values of 2 bil + q along each chain *)
  assert (A2 : 0 <= 2 * bil G y1 d2 + qform G d2).
  { unfold y1. rewrite bil_hadd, bil_hscale. assert (0 <= m * bil G d3 d2) by (apply Z.mul_nonneg_nonneg; lia). lia. }
  assert (A1 : 0 <= 2 * bil G y2 d1 + qform G d1).
  { unfold y2, y1. rewrite !bil_hadd, !bil_hscale.
    assert (0 <= m * bil G d3 d1) by (apply Z.mul_nonneg_nonneg; lia). assert (0 <= k * bil G d2 d1) by (apply Z.mul_nonneg_nonneg; lia). lia. }
  (* chain of inequalities  q(c + i d3) <= q(y1) <= q(y1 + j d2) <= q(y2) <= q(y2 + a' d1) <= q(x) *)
  assert (L1 : forall a', 0 <= a' <= a -> qform G (hadd y2 (hscale a' d1)) <= Tterm).
  { intros a' Ha'. pose proof (line_mono G y2 d1 a' a ltac:(lia) A1 ltac:(lia)). lia. }
  assert (Q2 : qform G y2 <= Tterm) by (specialize (L1 0 ltac:(lia)); rewrite hadd_0_r in L1; exact L1).
  assert (L2 : forall k', 0 <= k' <= k -> qform G (hadd y1 (hscale k' d2)) <= Tterm).
  { intros k' Hk'. pose proof (line_mono G y1 d2 k' k ltac:(lia) A2 ltac:(lia)). fold y2 in H0. lia. }
  assert (Q1 : qform G y1 <= Tterm) by (specialize (L2 0 ltac:(lia)); rewrite hadd_0_r in L2; exact L2).
  assert (L3 : forall i, 0 <= i <= m -> qform G (hadd c (hscale i d3)) <= Tterm).
  { intros i Hi. pose proof (line_mono G c d3 i m ltac:(lia) ltac:(lia) ltac:(lia)). fold y1 in H0. lia. }
  clear Kq A2 A1 Q2 Q1. unfold y2, y1 in *. clear y2 y1.
  rewrite <- (Z2Nat.id a Ha), <- (Z2Nat.id k Hk), <- (Z2Nat.id m Hm) in K |- *.
  apply (lloop_complete G Tmin Tmax Tterm allowed (Z.to_nat m) fuel fuel fuel d1 d2 d3 c l (Z.to_nat k) (Z.to_nat a) H).
  - intros i Hi. apply L3. lia.
  - intros k' Hk'. rewrite (Z2Nat.id m Hm). apply L2. lia.
  - intros a' Ha'. rewrite (Z2Nat.id m Hm), (Z2Nat.id k Hk). apply L1. lia.
  - exact K.
Qed.

Theorem all_segments_complete fuel segs l : all_segments G Tmin Tmax Tterm allowed fuel segs = Some l ->
  (forall seg, In seg segs -> gram_ok G seg = true) ->
  forall x seg, In seg segs -> in_cone seg x -> keep G Tmin Tmax allowed x = true -> In x l.
Proof.
  revert l; induction segs as [|s r IH]; intros l H HG x seg Hs Hc K; [destruct Hs|]. cbn in H.
  destruct (segment G Tmin Tmax Tterm allowed fuel s) as [a|] eqn:ES; [|discriminate].
  destruct (all_segments G Tmin Tmax Tterm allowed fuel r) as [b|] eqn:ER; [|discriminate]. injection H as <-.
  apply in_or_app. destruct Hs as [<-|Hs].
  - left. apply (segment_complete fuel s a ES (HG s (or_introl eq_refl)) x Hc K).
  - right. apply (IH b eq_refl (fun sg Hsg => HG sg (or_intror Hsg)) x seg Hs Hc K).
Qed.
End Final.

(* ---- the crystal systems whose reciprocal metric makes every loop direction non-decreasing ----------------------------- *)
Definition orthogonal (G : metricZ) : Prop := 0 < g11 G /\ 0 < g22 G /\ 0 < g33 G /\ g12 G = 0 /\ g13 G = 0 /\ g23 G = 0.
Definition tetragonal (G : metricZ) : Prop := orthogonal G /\ g22 G = g11 G.
Definition cubic (G : metricZ) : Prop := orthogonal G /\ g22 G = g11 G /\ g33 G = g11 G.
(* hexagonal axes: a* = b*, gamma* = 60 degrees, so a*.b* = a*^2 / 2 *)
Definition hexagonal (G : metricZ) : Prop := 0 < g11 G /\ g22 G = g11 G /\ 0 < g33 G /\ 2 * g12 G = g11 G /\ g13 G = 0 /\ g23 G = 0.

Definition segs_of (laue choice : string) : list (list (list Z)) :=
  match lookup_segm segm_laue laue choice with Some l => l | None => [] end.

Ltac gram_tac :=
  match goal with |- gram_ok ?G ?seg = true =>
    unfold gram_ok; cbv zeta; unfold bil, qform, vec3; cbn [nth];
    unfold cubic, tetragonal, orthogonal, hexagonal in *;
    destruct G as [a11 a22 a33 a12 a13 a23]; cbn [g11 g22 g33 g12 g13 g23] in *;
    repeat (apply andb_true_intro; split); apply Z.leb_le; lia
  end.
Ltac segs_tac :=
  intros G HG seg Hin; vm_compute in Hin;
  repeat match type of Hin with _ \/ _ => destruct Hin as [<-|Hin] end; try contradiction; try (subst seg);
  gram_tac.

Lemma mono_mmm G : orthogonal G -> forall seg, In seg (segs_of "mmm" "standard") -> gram_ok G seg = true.
Proof. revert G. segs_tac. Qed.
Lemma mono_4mmm G : tetragonal G -> forall seg, In seg (segs_of "4/mmm" "standard") -> gram_ok G seg = true.
Proof. revert G. segs_tac. Qed.
Lemma mono_4m G : tetragonal G -> forall seg, In seg (segs_of "4/m" "standard") -> gram_ok G seg = true.
Proof. revert G. segs_tac. Qed.
Lemma mono_m3m G : cubic G -> forall seg, In seg (segs_of "m-3m" "standard") -> gram_ok G seg = true.
Proof. revert G. segs_tac. Qed.
Lemma mono_m3 G : cubic G -> forall seg, In seg (segs_of "m-3" "standard") -> gram_ok G seg = true.
Proof. revert G. segs_tac. Qed.
Lemma mono_6mmm G : hexagonal G -> forall seg, In seg (segs_of "6/mmm" "standard") -> gram_ok G seg = true.
Proof. revert G. segs_tac. Qed.
Lemma mono_6m G : hexagonal G -> forall seg, In seg (segs_of "6/m" "standard") -> gram_ok G seg = true.
Proof. revert G. segs_tac. Qed.
Lemma mono_3m1 G : hexagonal G -> forall seg, In seg (segs_of "-3m1" "standard") -> gram_ok G seg = true.
Proof. revert G. segs_tac. Qed.
Lemma mono_31m G : hexagonal G -> forall seg, In seg (segs_of "-31m" "standard") -> gram_ok G seg = true.
Proof. revert G. segs_tac. Qed.
Lemma mono_3hex G : hexagonal G -> forall seg, In seg (segs_of "-3" "hexagonal") -> gram_ok G seg = true.
Proof. revert G. segs_tac. Qed.
Lemma mono_2m_orth G : orthogonal G -> forall seg, In seg (segs_of "2/m" "standard") -> gram_ok G seg = true.
Proof. revert G. segs_tac. Qed.
Lemma mono_1bar_orth G : orthogonal G -> forall seg, In seg (segs_of "-1" "standard") -> gram_ok G seg = true.
Proof. revert G. segs_tac. Qed.

(* and where it fails: an oblique monoclinic reciprocal metric (beta* <> 90) *)
Example mono_fails_oblique : exists G seg, In seg (segs_of "2/m" "standard") /\ gram_ok G seg = false.
Proof. exists (mkMet 7 11 13 0 3 0), [[-1; 0; 1]; [-1; 0; 0]; [0; 1; 0]; [0; 0; 1]]. split; vm_compute; [right; left; reflexivity | reflexivity]. Qed.

Local Open Scope string_scope.
Example segs_present : forallb (fun p => negb (Nat.eqb (List.length (segs_of (fst p) (snd p))) 0))
  [("mmm", "standard"); ("4/mmm", "standard"); ("4/m", "standard"); ("m-3m", "standard"); ("m-3", "standard"); ("6/mmm", "standard");
   ("6/m", "standard"); ("-3m1", "standard"); ("-31m", "standard"); ("-3", "hexagonal"); ("2/m", "standard"); ("-1", "standard")]%string = true.
Proof. vm_compute. reflexivity. Qed.

Definition monotone_system (laue choice : string) (G : metricZ) : Prop :=
  (laue = "mmm" /\ orthogonal G) \/ ((laue = "4/mmm" \/ laue = "4/m") /\ tetragonal G) \/ ((laue = "m-3m" \/ laue = "m-3") /\ cubic G)
  \/ ((laue = "6/mmm" \/ laue = "6/m" \/ laue = "-3m1" \/ laue = "-31m") /\ hexagonal G)
  \/ (laue = "-3" /\ choice = "hexagonal" /\ hexagonal G) \/ ((laue = "2/m" \/ laue = "-1") /\ orthogonal G).

Lemma monotone_system_ok laue choice G : (choice = "standard" \/ choice = "hexagonal")%string -> monotone_system laue choice G ->
  forall seg, In seg (segs_of laue choice) -> gram_ok G seg = true.
Proof.
  intros Hc H seg Hin.
  assert (Std : forall l, In l ["mmm"; "4/mmm"; "4/m"; "m-3m"; "m-3"; "6/mmm"; "6/m"; "-3m1"; "-31m"; "2/m"; "-1"] -> segs_of l choice = segs_of l "standard").
  { intros l Hl. destruct Hc as [->| ->]; [reflexivity|]. cbn [In] in Hl.
    repeat (destruct Hl as [<-|Hl]; [vm_compute; reflexivity|]). destruct Hl. }
  destruct H as [[-> HG]|[[[-> | ->] HG]|[[[-> | ->] HG]|[[[-> |[-> |[-> | ->]]] HG]|[[-> [-> HG]]|[[-> | ->] HG]]]]]];
    try (rewrite Std in Hin by (cbn; tauto)).
  - eapply mono_mmm; eassumption.
  - eapply mono_4mmm; eassumption.
  - eapply mono_4m; eassumption.
  - eapply mono_m3m; eassumption.
  - eapply mono_m3; eassumption.
  - eapply mono_6mmm; eassumption.
  - eapply mono_6m; eassumption.
  - eapply mono_3m1; eassumption.
  - eapply mono_31m; eassumption.
  - eapply mono_3hex; eassumption.
  - eapply mono_2m_orth; eassumption.
  - eapply mono_1bar_orth; eassumption.
Qed.

(* none missed, for the crystal systems above: every allowed point of a segment's cone inside the shell is a row of the model *)
Theorem traversal_complete_systems laue choice G Tmin Tmax Tterm allowed fuel l :
  (choice = "standard" \/ choice = "hexagonal")%string -> monotone_system laue choice G -> Tmax <= Tterm ->
  all_segments G Tmin Tmax Tterm allowed fuel (segs_of laue choice) = Some l ->
  forall x seg, In seg (segs_of laue choice) -> in_cone seg x -> allowed x = true -> Tmin < qform G x <= Tmax -> In x l.
Proof.
  intros Hc HS HT H x seg Hin Hcone Ha [Hlo Hhi].
  apply (all_segments_complete G Tmin Tmax Tterm allowed HT fuel _ l H (monotone_system_ok laue choice G Hc HS) x seg Hin Hcone).
  unfold keep. rewrite Ha. apply Z.ltb_lt in Hlo. apply Z.leb_le in Hhi. rewrite Hlo, Hhi. reflexivity.
Qed.

(* the boolean cone test used for the reflection-condition theorem implies membership of the cone *)
Local Open Scope Z_scope.
Lemma in_region_cone seg x : in_region seg x = true -> in_cone seg x.
Proof.
  unfold in_region, in_cone.
  destruct (vec3 (nth 0 seg [])) as [[sx sy] sz], (vec3 (nth 1 seg [])) as [[a1 a2] a3],
           (vec3 (nth 2 seg [])) as [[b1 b2] b3], (vec3 (nth 3 seg [])) as [[c1 c2] c3], x as [[x y] z].
  cbv zeta. set (det := a1 * (b2 * c3 - b3 * c2) - a2 * (b1 * c3 - b3 * c1) + a3 * (b1 * c2 - b2 * c1)).
  set (na := (x - sx) * (b2 * c3 - b3 * c2) - (y - sy) * (b1 * c3 - b3 * c1) + (z - sz) * (b1 * c2 - b2 * c1)).
  set (nb := a1 * ((y - sy) * c3 - (z - sz) * c2) - a2 * ((x - sx) * c3 - (z - sz) * c1) + a3 * ((x - sx) * c2 - (y - sy) * c1)).
  set (nc := a1 * (b2 * (z - sz) - b3 * (y - sy)) - a2 * (b1 * (z - sz) - b3 * (x - sx)) + a3 * (b1 * (y - sy) - b2 * (x - sx))).
  intros H. apply andb_prop in H. destruct H as [H Hc]. apply andb_prop in H. destruct H as [H Hb]. apply andb_prop in H. destruct H as [Hd Ha].
  apply Z.leb_le in Ha, Hb, Hc.
  assert (D2 : det * det = 1).
  { apply orb_prop in Hd. destruct Hd as [E|E]; apply Z.eqb_eq in E; rewrite E; reflexivity. }
  exists (na * det), (nb * det), (nc * det). repeat split; try assumption.
  unfold hadd, hscale.
  (* Cramer: det (v) = na A + nb B + nc C *)
  assert (Cx : det * (x - sx) = na * a1 + nb * b1 + nc * c1) by (unfold det, na, nb, nc; ring).
  assert (Cy : det * (y - sy) = na * a2 + nb * b2 + nc * c2) by (unfold det, na, nb, nc; ring).
  assert (Cz : det * (z - sz) = na * a3 + nb * b3 + nc * c3) by (unfold det, na, nb, nc; ring).
  clearbody det na nb nc.
  assert (Ex : x - sx = det * (det * (x - sx))) by (rewrite Z.mul_assoc, D2; ring).
  assert (Ey : y - sy = det * (det * (y - sy))) by (rewrite Z.mul_assoc, D2; ring).
  assert (Ez : z - sz = det * (det * (z - sz))) by (rewrite Z.mul_assoc, D2; ring).
  rewrite Cx in Ex. rewrite Cy in Ey. rewrite Cz in Ez.
  f_equal; [f_equal|]; lia.
Qed.

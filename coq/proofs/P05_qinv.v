(* C05 / C06: in the monotone systems the reciprocal metric is invariant under the Laue group of the segment table, so the
   hypothesis  q (h R) = q h  of the end-to-end theorems holds for every conforming metric. *)
From Coq Require Import ZArith List Bool String Lia.
From XV Require Import SGroup HklModel Traverse Tab_segm Tab_sg_all P05 P05_complete P06_fd P06_fd_main.
Import ListNotations.
Open Scope Z_scope.

Ltac q_case :=
  match goal with |- forall h, qform ?G (vmZ h ?R) = qform ?G h =>
    intros [[x y] z]; unfold qform, vmZ, cubic, tetragonal, hexagonal, orthogonal in *; cbv beta iota;
    destruct G as [a11 a22 a33 a12 a13 a23]; cbn [g11 g22 g33 g12 g13 g23] in *;
    repeat match goal with H : _ /\ _ |- _ => destruct H end;
    repeat match goal with
           | H : ?v = 0 |- _ => is_var v; subst v
           | H : ?v = ?w |- _ => is_var v; is_var w; subst v
           | H : 2 * ?v = ?w |- _ => is_var w; assert (w = 2 * v) by lia; subst w
           end; ring
  end.

Ltac grp_tac :=
  intros G HG e He R HR; vm_compute in He; injection He as <-; cbn [fst snd] in HR;
  cbn [In] in HR;
  repeat (destruct HR as [<-|HR]; [q_case|]); destruct HR.

Lemma qinv_mmm G : orthogonal G -> forall e, fd_lookup "mmm" "standard" = Some e -> forall R, In R (snd (fst e)) -> forall h, qform G (vmZ h R) = qform G h.
Proof. revert G. grp_tac. Qed.
Lemma qinv_4mmm G : tetragonal G -> forall e, fd_lookup "4/mmm" "standard" = Some e -> forall R, In R (snd (fst e)) -> forall h, qform G (vmZ h R) = qform G h.
Proof. revert G. grp_tac. Qed.
Lemma qinv_4m G : tetragonal G -> forall e, fd_lookup "4/m" "standard" = Some e -> forall R, In R (snd (fst e)) -> forall h, qform G (vmZ h R) = qform G h.
Proof. revert G. grp_tac. Qed.
Lemma qinv_m3m G : cubic G -> forall e, fd_lookup "m-3m" "standard" = Some e -> forall R, In R (snd (fst e)) -> forall h, qform G (vmZ h R) = qform G h.
Proof. revert G. grp_tac. Qed.
Lemma qinv_m3 G : cubic G -> forall e, fd_lookup "m-3" "standard" = Some e -> forall R, In R (snd (fst e)) -> forall h, qform G (vmZ h R) = qform G h.
Proof. revert G. grp_tac. Qed.
Lemma qinv_6mmm G : hexagonal G -> forall e, fd_lookup "6/mmm" "standard" = Some e -> forall R, In R (snd (fst e)) -> forall h, qform G (vmZ h R) = qform G h.
Proof. revert G. grp_tac. Qed.
Lemma qinv_6m G : hexagonal G -> forall e, fd_lookup "6/m" "standard" = Some e -> forall R, In R (snd (fst e)) -> forall h, qform G (vmZ h R) = qform G h.
Proof. revert G. grp_tac. Qed.
Lemma qinv_3m1 G : hexagonal G -> forall e, fd_lookup "-3m1" "standard" = Some e -> forall R, In R (snd (fst e)) -> forall h, qform G (vmZ h R) = qform G h.
Proof. revert G. grp_tac. Qed.
Lemma qinv_31m G : hexagonal G -> forall e, fd_lookup "-31m" "standard" = Some e -> forall R, In R (snd (fst e)) -> forall h, qform G (vmZ h R) = qform G h.
Proof. revert G. grp_tac. Qed.
Lemma qinv_3hex G : hexagonal G -> forall e, fd_lookup "-3" "hexagonal" = Some e -> forall R, In R (snd (fst e)) -> forall h, qform G (vmZ h R) = qform G h.
Proof. revert G. grp_tac. Qed.
Lemma qinv_2m G : orthogonal G -> forall e, fd_lookup "2/m" "standard" = Some e -> forall R, In R (snd (fst e)) -> forall h, qform G (vmZ h R) = qform G h.
Proof. revert G. grp_tac. Qed.
Lemma qinv_1bar G : orthogonal G -> forall e, fd_lookup "-1" "standard" = Some e -> forall R, In R (snd (fst e)) -> forall h, qform G (vmZ h R) = qform G h.
Proof. revert G. grp_tac. Qed.

Local Open Scope string_scope.
Lemma qinv_system laue choice G e : (choice = "standard" \/ choice = "hexagonal") -> monotone_system laue choice G ->
  fd_lookup laue choice = Some e -> forall R, In R (snd (fst e)) -> forall h, qform G (vmZ h R) = qform G h.
Proof.
  intros Hc H He.
  assert (Std : forall l, In l ["mmm"; "4/mmm"; "4/m"; "m-3m"; "m-3"; "6/mmm"; "6/m"; "-3m1"; "-31m"; "2/m"; "-1"] -> fd_lookup l choice = fd_lookup l "standard").
  { intros l Hl. destruct Hc as [->| ->]; [reflexivity|]. cbn [In] in Hl.
    repeat (destruct Hl as [<-|Hl]; [vm_compute; reflexivity|]). destruct Hl. }
  destruct H as [[-> HG]|[[[-> | ->] HG]|[[[-> | ->] HG]|[[[-> |[-> |[-> | ->]]] HG]|[[-> [-> HG]]|[[-> | ->] HG]]]]]];
    try (rewrite Std in He by (cbn; tauto)).
  - eapply qinv_mmm; eassumption.
  - eapply qinv_4mmm; eassumption.
  - eapply qinv_4m; eassumption.
  - eapply qinv_m3m; eassumption.
  - eapply qinv_m3; eassumption.
  - eapply qinv_6mmm; eassumption.
  - eapply qinv_6m; eassumption.
  - eapply qinv_3m1; eassumption.
  - eapply qinv_31m; eassumption.
  - eapply qinv_3hex; eassumption.
  - eapply qinv_2m; eassumption.
  - eapply qinv_1bar; eassumption.
Qed.
Local Close Scope string_scope.

(* for a setting: its Laue group is contained in the group of its table entry *)
Lemma qinv_setting s L G : In s all_settings -> laue_mats s = Some L ->
  (sg_choice s = "standard" \/ sg_choice s = "hexagonal")%string -> monotone_system (sg_laue s) (sg_choice s) G ->
  forall R h, In R L -> qform G (vmZ h R) = qform G h.
Proof.
  intros Hs HL Hc HM R h HR.
  pose proof (proj1 (forallb_forall _ _) fd_settings_ok s Hs) as Hok. unfold fd_setting_ok in Hok. rewrite HL in Hok.
  destruct (fd_lookup (sg_laue s) (sg_choice s)) as [e|] eqn:El; [|discriminate].
  destruct (lookup_segm segm_laue (sg_laue s) (sg_choice s)) as [segs|]; [|discriminate].
  apply andb_prop in Hok. destruct Hok as [Hok _]. apply andb_prop in Hok. destruct Hok as [Hok _]. apply andb_prop in Hok. destruct Hok as [HG _].
  rewrite forallb_forall in HG. specialize (HG R HR). apply existsb_exists in HG. destruct HG as (R' & HR' & E). apply mat_eqb_eq' in E. subst R'.
  exact (qinv_system _ _ G e Hc HM El R HR' h).
Qed.

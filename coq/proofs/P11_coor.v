(* C11: pixel coordinate maps (traced per orientation from detector.xy_to_detyz / detyz_to_xy) are mutual inverses *)
From Coq Require Import Reals Lra.
From XV Require Import RealLib Mat3 Atan2 Gen_tools Gen_detector.
Open Scope R_scope.

Ltac branches :=
  repeat match goal with
         | |- context [Rlt_dec ?a ?b] => destruct (Rlt_dec a b)
         | |- context [Rle_dec ?a ?b] => destruct (Rle_dec a b)
         end.

Ltac coor_inv f g :=
  intros [x y] Ny Nz Hy Hz; unfold f; cbv zeta; cbn [p0 p1];
  branches; try (exfalso; lra);
  unfold g; cbv zeta; cbn [p0 p1]; branches; try (exfalso; lra); f_equal; lra.

Lemma inv_o0 : forall c Ny Nz, 1 <= Ny -> 1 <= Nz -> detector_detyz_to_xy_o0 (detector_xy_to_detyz_o0 c Ny Nz) Ny Nz = c.
Proof. coor_inv detector_xy_to_detyz_o0 detector_detyz_to_xy_o0. Qed.
Lemma inv2_o0 : forall c Ny Nz, 1 <= Ny -> 1 <= Nz -> detector_xy_to_detyz_o0 (detector_detyz_to_xy_o0 c Ny Nz) Ny Nz = c.
Proof. coor_inv detector_detyz_to_xy_o0 detector_xy_to_detyz_o0. Qed.
Lemma inv_o1 : forall c Ny Nz, 1 <= Ny -> 1 <= Nz -> detector_detyz_to_xy_o1 (detector_xy_to_detyz_o1 c Ny Nz) Ny Nz = c.
Proof. coor_inv detector_xy_to_detyz_o1 detector_detyz_to_xy_o1. Qed.
Lemma inv2_o1 : forall c Ny Nz, 1 <= Ny -> 1 <= Nz -> detector_xy_to_detyz_o1 (detector_detyz_to_xy_o1 c Ny Nz) Ny Nz = c.
Proof. coor_inv detector_detyz_to_xy_o1 detector_xy_to_detyz_o1. Qed.
Lemma inv_o2 : forall c Ny Nz, 1 <= Ny -> 1 <= Nz -> detector_detyz_to_xy_o2 (detector_xy_to_detyz_o2 c Ny Nz) Ny Nz = c.
Proof. coor_inv detector_xy_to_detyz_o2 detector_detyz_to_xy_o2. Qed.
Lemma inv2_o2 : forall c Ny Nz, 1 <= Ny -> 1 <= Nz -> detector_xy_to_detyz_o2 (detector_detyz_to_xy_o2 c Ny Nz) Ny Nz = c.
Proof. coor_inv detector_detyz_to_xy_o2 detector_xy_to_detyz_o2. Qed.
Lemma inv_o3 : forall c Ny Nz, 1 <= Ny -> 1 <= Nz -> detector_detyz_to_xy_o3 (detector_xy_to_detyz_o3 c Ny Nz) Ny Nz = c.
Proof. coor_inv detector_xy_to_detyz_o3 detector_detyz_to_xy_o3. Qed.
Lemma inv2_o3 : forall c Ny Nz, 1 <= Ny -> 1 <= Nz -> detector_xy_to_detyz_o3 (detector_detyz_to_xy_o3 c Ny Nz) Ny Nz = c.
Proof. coor_inv detector_detyz_to_xy_o3 detector_xy_to_detyz_o3. Qed.
Lemma inv_o4 : forall c Ny Nz, 1 <= Ny -> 1 <= Nz -> detector_detyz_to_xy_o4 (detector_xy_to_detyz_o4 c Ny Nz) Ny Nz = c.
Proof. coor_inv detector_xy_to_detyz_o4 detector_detyz_to_xy_o4. Qed.
Lemma inv2_o4 : forall c Ny Nz, 1 <= Ny -> 1 <= Nz -> detector_xy_to_detyz_o4 (detector_detyz_to_xy_o4 c Ny Nz) Ny Nz = c.
Proof. coor_inv detector_detyz_to_xy_o4 detector_xy_to_detyz_o4. Qed.
Lemma inv_o5 : forall c Ny Nz, 1 <= Ny -> 1 <= Nz -> detector_detyz_to_xy_o5 (detector_xy_to_detyz_o5 c Ny Nz) Ny Nz = c.
Proof. coor_inv detector_xy_to_detyz_o5 detector_detyz_to_xy_o5. Qed.
Lemma inv2_o5 : forall c Ny Nz, 1 <= Ny -> 1 <= Nz -> detector_xy_to_detyz_o5 (detector_detyz_to_xy_o5 c Ny Nz) Ny Nz = c.
Proof. coor_inv detector_detyz_to_xy_o5 detector_xy_to_detyz_o5. Qed.
Lemma inv_o6 : forall c Ny Nz, 1 <= Ny -> 1 <= Nz -> detector_detyz_to_xy_o6 (detector_xy_to_detyz_o6 c Ny Nz) Ny Nz = c.
Proof. coor_inv detector_xy_to_detyz_o6 detector_detyz_to_xy_o6. Qed.
Lemma inv2_o6 : forall c Ny Nz, 1 <= Ny -> 1 <= Nz -> detector_xy_to_detyz_o6 (detector_detyz_to_xy_o6 c Ny Nz) Ny Nz = c.
Proof. coor_inv detector_detyz_to_xy_o6 detector_xy_to_detyz_o6. Qed.
Lemma inv_o7 : forall c Ny Nz, 1 <= Ny -> 1 <= Nz -> detector_detyz_to_xy_o7 (detector_xy_to_detyz_o7 c Ny Nz) Ny Nz = c.
Proof. coor_inv detector_xy_to_detyz_o7 detector_detyz_to_xy_o7. Qed.
Lemma inv2_o7 : forall c Ny Nz, 1 <= Ny -> 1 <= Nz -> detector_xy_to_detyz_o7 (detector_detyz_to_xy_o7 c Ny Nz) Ny Nz = c.
Proof. coor_inv detector_detyz_to_xy_o7 detector_xy_to_detyz_o7. Qed.

(* explicit affine form for two orientations (pixel map): identity orientation swaps the axes, (0,-1,1,0) flips x *)
Lemma xy_to_detyz_o0_eq : forall x y Ny Nz, 1 <= Ny -> 1 <= Nz -> detector_xy_to_detyz_o0 (mkV2 x y) Ny Nz = mkV2 y x.
Proof. intros x y Ny Nz Hy Hz. unfold detector_xy_to_detyz_o0; cbv zeta; cbn [p0 p1]. branches; try (exfalso; lra); f_equal; lra. Qed.

(* (dety, detz) <-> (eta, radius) *)
Lemma eta_rad_inverse eta rad cy cz : 1 <= rad -> 0 <= eta < 360 ->
  detector_detyz_to_eta_and_radpix (detector_eta_and_radpix_to_detyz eta rad cy cz) cy cz = mkV2 eta rad.
Proof.
  intros Hr He. pose proof PI_RGT_0 as P.
  unfold detector_eta_and_radpix_to_detyz, detector_detyz_to_eta_and_radpix; cbv zeta; cbn [p0 p1].
  set (e := eta * PI / 180).
  assert (E0 : 0 <= e < 2 * PI).
  { unfold e. split; [apply Rmult_le_pos; [apply Rmult_le_pos; lra | lra] |].
    apply (Rmult_lt_reg_r (180 / PI)); [apply Rdiv_lt_0_compat; lra|].
    replace (eta * PI / 180 * (180 / PI)) with eta by (field; lra). replace (2 * PI * (180 / PI)) with 360 by (field; lra). lra. }
  replace (rad * - sin e + cy - cy) with (- (rad * sin e)) by ring.
  replace (rad * cos e + cz - cz) with (rad * cos e) by ring.
  assert (S : sqrt ((- (rad * sin e)) ^ 2 + (rad * cos e) ^ 2) = rad).
  { replace ((- (rad * sin e)) ^ 2 + (rad * cos e) ^ 2) with (rad * rad * (sin e * sin e + cos e * cos e)) by ring.
    rewrite sc1, Rmult_1_r. apply sqrt_square. lra. }
  rewrite S. destruct (Rlt_dec rad 1) as [L|L]; [lra|].
  replace (rad * cos e / rad) with (cos e) by (field; lra).
  destruct (Rle_dec (- (rad * sin e)) 0) as [Q|Q].
  - (* sin e >= 0: e in [0, pi] *)
    assert (He' : e <= PI).
    { destruct (Rle_dec e PI) as [X|X]; [exact X|]. exfalso.
      assert (sin e < 0) by (apply sin_lt_0; lra). nra. }
    rewrite acos_cos by lra. f_equal. unfold e. field. lra.
  - assert (He' : PI < e).
    { destruct (Rlt_dec PI e) as [X|X]; [exact X|]. exfalso. assert (0 <= sin e) by (apply sin_ge_0; lra). nra. }
    replace (cos e) with (cos (2 * PI - e)) by (rewrite cos_minus, cos_2PI, sin_2PI; ring).
    rewrite acos_cos by lra. f_equal. unfold e. field. lra.
Qed.

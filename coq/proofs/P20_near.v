(* C20: rotations perturbed entrywise by at most 1e-7 (float32-precision and better) pass the rotation check.
   The proof script of the determinant bound is generated mechanically (one interval fact per monomial). *)
From Coq Require Import Reals Lra Psatz.
From XV Require Import RealLib Mat3 Checks P20.
Open Scope R_scope.

Lemma prod2 a b A B : Rabs a <= A -> Rabs b <= B -> - (A * B) <= a * b <= A * B.
Proof.
  intros Ha Hb. pose proof (Rabs_pos a) as Pa. pose proof (Rabs_pos b) as Pb.
  assert (HH : Rabs (a * b) <= A * B) by (rewrite Rabs_mult; apply Rmult_le_compat; assumption).
  unfold Rabs in HH. destruct (Rcase_abs (a * b)); lra.
Qed.
Lemma prod3 a b c A B C : Rabs a <= A -> Rabs b <= B -> Rabs c <= C -> - (A * B * C) <= a * b * c <= A * B * C.
Proof.
  intros Ha Hb Hc. pose proof (Rabs_pos a) as Pa. pose proof (Rabs_pos b) as Pb. pose proof (Rabs_pos c) as Pc.
  assert (HH : Rabs (a * b * c) <= A * B * C).
  { rewrite !Rabs_mult. apply Rmult_le_compat; try assumption; [apply Rmult_le_pos; assumption | apply Rmult_le_compat; assumption]. }
  unfold Rabs in HH. destruct (Rcase_abs (a * b * c)); lra.
Qed.

Lemma entry_bound u1 u2 u3 v1 v2 v3 e1 e2 e3 f1 f2 f3 d :
  Rabs u1 <= 1 -> Rabs u2 <= 1 -> Rabs u3 <= 1 -> Rabs v1 <= 1 -> Rabs v2 <= 1 -> Rabs v3 <= 1 ->
  Rabs e1 <= d -> Rabs e2 <= d -> Rabs e3 <= d -> Rabs f1 <= d -> Rabs f2 <= d -> Rabs f3 <= d ->
  Rabs ((u1 + e1) * (v1 + f1) + (u2 + e2) * (v2 + f2) + (u3 + e3) * (v3 + f3) - (u1 * v1 + u2 * v2 + u3 * v3)) <= 6 * d + 3 * (d * d).
Proof.
  intros U1 U2 U3 V1 V2 V3 E1 E2 E3 F1 F2 F3.
  pose proof (prod2 _ _ _ _ U1 F1). pose proof (prod2 _ _ _ _ U2 F2). pose proof (prod2 _ _ _ _ U3 F3).
  pose proof (prod2 _ _ _ _ E1 V1). pose proof (prod2 _ _ _ _ E2 V2). pose proof (prod2 _ _ _ _ E3 V3).
  pose proof (prod2 _ _ _ _ E1 F1). pose proof (prod2 _ _ _ _ E2 F2). pose proof (prod2 _ _ _ _ E3 F3).
  apply Rabs_le. split; lra.
Qed.

Lemma det_perturb u00 u01 u02 u10 u11 u12 u20 u21 u22 e00 e01 e02 e10 e11 e12 e20 e21 e22 d : 0 <= d ->
  Rabs u00 <= 1 ->
  Rabs u01 <= 1 ->
  Rabs u02 <= 1 ->
  Rabs u10 <= 1 ->
  Rabs u11 <= 1 ->
  Rabs u12 <= 1 ->
  Rabs u20 <= 1 ->
  Rabs u21 <= 1 ->
  Rabs u22 <= 1 ->
  Rabs e00 <= d ->
  Rabs e01 <= d ->
  Rabs e02 <= d ->
  Rabs e10 <= d ->
  Rabs e11 <= d ->
  Rabs e12 <= d ->
  Rabs e20 <= d ->
  Rabs e21 <= d ->
  Rabs e22 <= d ->
  Rabs (((u00 + e00) * ((u11 + e11) * (u22 + e22) - (u12 + e12) * (u21 + e21)) - (u01 + e01) * ((u10 + e10) * (u22 + e22) - (u12 + e12) * (u20 + e20)) + (u02 + e02) * ((u10 + e10) * (u21 + e21) - (u11 + e11) * (u20 + e20))) - (u00 * (u11 * u22 - u12 * u21) - u01 * (u10 * u22 - u12 * u20) + u02 * (u10 * u21 - u11 * u20))) <= 18 * d + 18 * (d * d) + 6 * (d * d * d).
Proof.
  intros Hd U00 U01 U02 U10 U11 U12 U20 U21 U22 E00 E01 E02 E10 E11 E12 E20 E21 E22.

  pose proof (prod3 u00 u11 e22 _ _ _ U00 U11 E22).
  pose proof (prod3 u00 e11 u22 _ _ _ U00 E11 U22).
  pose proof (prod3 u00 e11 e22 _ _ _ U00 E11 E22).
  pose proof (prod3 e00 u11 u22 _ _ _ E00 U11 U22).
  pose proof (prod3 e00 u11 e22 _ _ _ E00 U11 E22).
  pose proof (prod3 e00 e11 u22 _ _ _ E00 E11 U22).
  pose proof (prod3 e00 e11 e22 _ _ _ E00 E11 E22).
  pose proof (prod3 u00 u12 e21 _ _ _ U00 U12 E21).
  pose proof (prod3 u00 e12 u21 _ _ _ U00 E12 U21).
  pose proof (prod3 u00 e12 e21 _ _ _ U00 E12 E21).
  pose proof (prod3 e00 u12 u21 _ _ _ E00 U12 U21).
  pose proof (prod3 e00 u12 e21 _ _ _ E00 U12 E21).
  pose proof (prod3 e00 e12 u21 _ _ _ E00 E12 U21).
  pose proof (prod3 e00 e12 e21 _ _ _ E00 E12 E21).
  pose proof (prod3 u01 u10 e22 _ _ _ U01 U10 E22).
  pose proof (prod3 u01 e10 u22 _ _ _ U01 E10 U22).
  pose proof (prod3 u01 e10 e22 _ _ _ U01 E10 E22).
  pose proof (prod3 e01 u10 u22 _ _ _ E01 U10 U22).
  pose proof (prod3 e01 u10 e22 _ _ _ E01 U10 E22).
  pose proof (prod3 e01 e10 u22 _ _ _ E01 E10 U22).
  pose proof (prod3 e01 e10 e22 _ _ _ E01 E10 E22).
  pose proof (prod3 u01 u12 e20 _ _ _ U01 U12 E20).
  pose proof (prod3 u01 e12 u20 _ _ _ U01 E12 U20).
  pose proof (prod3 u01 e12 e20 _ _ _ U01 E12 E20).
  pose proof (prod3 e01 u12 u20 _ _ _ E01 U12 U20).
  pose proof (prod3 e01 u12 e20 _ _ _ E01 U12 E20).
  pose proof (prod3 e01 e12 u20 _ _ _ E01 E12 U20).
  pose proof (prod3 e01 e12 e20 _ _ _ E01 E12 E20).
  pose proof (prod3 u02 u10 e21 _ _ _ U02 U10 E21).
  pose proof (prod3 u02 e10 u21 _ _ _ U02 E10 U21).
  pose proof (prod3 u02 e10 e21 _ _ _ U02 E10 E21).
  pose proof (prod3 e02 u10 u21 _ _ _ E02 U10 U21).
  pose proof (prod3 e02 u10 e21 _ _ _ E02 U10 E21).
  pose proof (prod3 e02 e10 u21 _ _ _ E02 E10 U21).
  pose proof (prod3 e02 e10 e21 _ _ _ E02 E10 E21).
  pose proof (prod3 u02 u11 e20 _ _ _ U02 U11 E20).
  pose proof (prod3 u02 e11 u20 _ _ _ U02 E11 U20).
  pose proof (prod3 u02 e11 e20 _ _ _ U02 E11 E20).
  pose proof (prod3 e02 u11 u20 _ _ _ E02 U11 U20).
  pose proof (prod3 e02 u11 e20 _ _ _ E02 U11 E20).
  pose proof (prod3 e02 e11 u20 _ _ _ E02 E11 U20).
  pose proof (prod3 e02 e11 e20 _ _ _ E02 E11 E20).
  assert (D2 : 0 <= d * d) by nra. assert (D3 : 0 <= d * d * d) by nra.
  apply Rabs_le. split; nra.
Qed.

Lemma sq_le_1 a b c : a * a + b * b + c * c = 1 -> Rabs a <= 1 /\ Rabs b <= 1 /\ Rabs c <= 1.
Proof. intros H. repeat split; apply Rabs_le; split; nra. Qed.

Definition small (E : M3) (d : R) : Prop :=
  Rabs (m00 E) <= d /\ Rabs (m01 E) <= d /\ Rabs (m02 E) <= d /\ Rabs (m10 E) <= d /\ Rabs (m11 E) <= d /\ Rabs (m12 E) <= d /\
  Rabs (m20 E) <= d /\ Rabs (m21 E) <= d /\ Rabs (m22 E) <= d.

Theorem accepts_near U E : is_rot U -> small E (1 / 10000000) -> check_rotation (madd U E).
Proof.
  intros [HO HD] (E00 & E01 & E02 & E10 & E11 & E12 & E20 & E21 & E22).
  destruct U as [u00 u01 u02 u10 u11 u12 u20 u21 u22], E as [e00 e01 e02 e10 e11 e12 e20 e21 e22].
  cbn [m00 m01 m02 m10 m11 m12 m20 m21 m22] in *.
  unfold mmul, mtrans, mI in HO; cbn in HO. injection HO as H00 H01 H02 H10 H11 H12 H20 H21 H22.
  destruct (sq_le_1 _ _ _ H00) as (A00 & A10 & A20). destruct (sq_le_1 _ _ _ H11) as (A01 & A11 & A21). destruct (sq_le_1 _ _ _ H22) as (A02 & A12 & A22).
  set (d := 1 / 10000000) in *.
  assert (Bd : 6 * d + 3 * (d * d) <= 1 / 1000000) by (unfold d; lra).
  unfold check_rotation, allclose_I, close, rtol, atol_unitary, atol_det, madd, mmul, mtrans. cbn [m00 m01 m02 m10 m11 m12 m20 m21 m22].
  rewrite Rabs_R0, Rabs_R1.
  repeat split.
  - pose proof (entry_bound u00 u10 u20 u00 u10 u20 e00 e10 e20 e00 e10 e20 d A00 A10 A20 A00 A10 A20 E00 E10 E20 E00 E10 E20) as B. rewrite H00 in B. lra.
  - pose proof (entry_bound u00 u10 u20 u01 u11 u21 e00 e10 e20 e01 e11 e21 d A00 A10 A20 A01 A11 A21 E00 E10 E20 E01 E11 E21) as B. rewrite H01 in B. lra.
  - pose proof (entry_bound u00 u10 u20 u02 u12 u22 e00 e10 e20 e02 e12 e22 d A00 A10 A20 A02 A12 A22 E00 E10 E20 E02 E12 E22) as B. rewrite H02 in B. lra.
  - pose proof (entry_bound u01 u11 u21 u00 u10 u20 e01 e11 e21 e00 e10 e20 d A01 A11 A21 A00 A10 A20 E01 E11 E21 E00 E10 E20) as B. rewrite H10 in B. lra.
  - pose proof (entry_bound u01 u11 u21 u01 u11 u21 e01 e11 e21 e01 e11 e21 d A01 A11 A21 A01 A11 A21 E01 E11 E21 E01 E11 E21) as B. rewrite H11 in B. lra.
  - pose proof (entry_bound u01 u11 u21 u02 u12 u22 e01 e11 e21 e02 e12 e22 d A01 A11 A21 A02 A12 A22 E01 E11 E21 E02 E12 E22) as B. rewrite H12 in B. lra.
  - pose proof (entry_bound u02 u12 u22 u00 u10 u20 e02 e12 e22 e00 e10 e20 d A02 A12 A22 A00 A10 A20 E02 E12 E22 E00 E10 E20) as B. rewrite H20 in B. lra.
  - pose proof (entry_bound u02 u12 u22 u01 u11 u21 e02 e12 e22 e01 e11 e21 d A02 A12 A22 A01 A11 A21 E02 E12 E22 E01 E11 E21) as B. rewrite H21 in B. lra.
  - pose proof (entry_bound u02 u12 u22 u02 u12 u22 e02 e12 e22 e02 e12 e22 d A02 A12 A22 A02 A12 A22 E02 E12 E22 E02 E12 E22) as B. rewrite H22 in B. lra.
  - unfold mdet in *; cbn [m00 m01 m02 m10 m11 m12 m20 m21 m22] in *.
    pose proof (det_perturb u00 u01 u02 u10 u11 u12 u20 u21 u22 e00 e01 e02 e10 e11 e12 e20 e21 e22 d ltac:(unfold d; lra)
                  A00 A01 A02 A10 A11 A12 A20 A21 A22 E00 E01 E02 E10 E11 E12 E20 E21 E22) as B.
    rewrite HD in B. assert (Bd' : 18 * d + 18 * (d * d) + 6 * (d * d * d) <= 1 / 100000) by (unfold d; lra). lra.
Qed.

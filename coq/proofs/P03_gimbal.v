(* C03: u_to_euler inside the gimbal bands (PHI within 1e-8 of 0 or of pi): the code returns (phi1, PHI, 0) with
   phi1 = arctan2(-/+U01, U00); the reconstructed matrix differs from U by at most tol + 6 sin(PHI) <= 7e-8 in every entry. *)
From Coq Require Import Reals Lra Psatz.
From XV Require Import RealLib Mat3 Atan2 Gen_laue P03_laue P03_euler P03_band.
Open Scope R_scope.

Lemma abs_iff x e : Rabs x <= e <-> - e <= x <= e.
Proof. split; [unfold Rabs; destruct (Rcase_abs x); lra | apply Rabs_le]. Qed.

(* the algebra: entries a..i of a rotation, s = +1 (PHI near 0) or -1 (PHI near pi), j = s i >= 0, dl = sin PHI >= 0,
   (cr, sr) the direction cosines of the returned phi1 within t of (a, -s b)/rho *)
Section Core.
Variables a b c d e f g h i s dl rho cr sr t : R.
Hypothesis R0 : a * a + b * b + c * c = 1.
Hypothesis C2 : c * c + f * f + i * i = 1.
Hypothesis R2 : g * g + h * h + i * i = 1.
Hypothesis A1 : c * h - b * i = d.
Hypothesis A4 : a * i - c * g = e.
Hypothesis Hs : s * s = 1.
Hypothesis Hj : 0 <= s * i.
Hypothesis Hd : 0 <= dl.
Hypothesis Hd2 : dl * dl = 1 - i * i.
Hypothesis Hd1 : dl <= 1.
Hypothesis Hrho : 0 < rho.
Hypothesis Hrho2 : rho * rho = a * a + b * b.
Hypothesis Hcs : cr * cr + sr * sr = 1.
Hypothesis Ht : 0 <= t.
Hypothesis Hc : Rabs (cr - a / rho) <= t.
Hypothesis Hsn : Rabs (sr - (- s * b) / rho) <= t.

Let u := a / rho.
Let v := (- s * b) / rho.

Lemma core_facts : a = u * rho /\ b = - s * v * rho /\ u * u + v * v = 1 /\ rho <= 1 /\ 1 - rho <= dl * dl /\ 1 - s * i <= dl * dl /\
  c * c <= dl * dl /\ f * f <= dl * dl /\ g * g <= dl * dl /\ h * h <= dl * dl.
Proof.
  assert (Hr : rho <> 0) by lra.
  assert (Ea : a = u * rho) by (unfold u; field; exact Hr).
  assert (Eb : b = - s * v * rho).
  { unfold v. transitivity ((s * s) * b); [rewrite Hs; ring | field; exact Hr]. }
  assert (Euv : u * u + v * v = 1).
  { unfold u, v. transitivity ((a * a + (s * s) * (b * b)) / (rho * rho)); [field; exact Hr|]. rewrite Hs, Hrho2. field. nra. }
  assert (Hc2 : c * c <= dl * dl) by nra.
  assert (Hr1 : rho <= 1) by nra.
  assert (H1r : 1 - rho <= dl * dl) by nra.
  assert (Hj1 : s * i <= 1) by nra.
  assert (H1j : 1 - s * i <= dl * dl).
  { assert ((s * i) * (s * i) = i * i) by (transitivity ((s * s) * (i * i)); [ring | rewrite Hs; ring]). nra. }
  repeat split; try assumption; nra.
Qed.

Lemma sq_le_abs x y : 0 <= y -> x * x <= y * y -> - y <= x <= y.
Proof. intros Hy H. split; nra. Qed.

Lemma core_bounds :
  Rabs (cr - a) <= t + 6 * dl /\ Rabs (- sr * i - b) <= t + 6 * dl /\ Rabs (sr * dl - c) <= t + 6 * dl /\
  Rabs (sr - d) <= t + 6 * dl /\ Rabs (cr * i - e) <= t + 6 * dl /\ Rabs (- cr * dl - f) <= t + 6 * dl /\
  Rabs (0 - g) <= t + 6 * dl /\ Rabs (dl - h) <= t + 6 * dl /\ Rabs (i - i) <= t + 6 * dl.
Proof.
  destruct core_facts as (Ea & Eb & Euv & Hr1 & H1r & H1j & Hc2 & Hf2 & Hg2 & Hh2). fold u v in Hc, Hsn.
  apply abs_iff in Hc. apply abs_iff in Hsn.
  set (j := s * i) in *. assert (Ei : i = s * j) by (unfold j; transitivity ((s * s) * i); [rewrite Hs; ring | ring]).
  assert (Hj1 : j <= 1) by nra.
  pose proof (sq_le_abs c dl Hd Hc2) as Bc. pose proof (sq_le_abs f dl Hd Hf2) as Bf.
  pose proof (sq_le_abs g dl Hd Hg2) as Bg. pose proof (sq_le_abs h dl Hd Hh2) as Bh.
  assert (Bu : -1 <= u <= 1) by (split; nra). assert (Bv : -1 <= v <= 1) by (split; nra).
  assert (Bcr : -1 <= cr <= 1) by (split; nra). assert (Bsr : -1 <= sr <= 1) by (split; nra).
  assert (Bs : s = 1 \/ s = -1) by (assert ((s - 1) * (s + 1) = 0) by nra; apply Rmult_integral in H; destruct H; [left | right]; lra).
  assert (Dd : dl * dl <= dl) by nra.
  assert (Q1 : 0 <= 1 - rho <= dl) by lra. assert (Q2 : 0 <= 1 - j <= dl) by lra.
  set (p := 1 - rho) in *. set (q := 1 - j) in *.
  assert (Er : rho = 1 - p) by (unfold p; ring). assert (Ej : j = 1 - q) by (unfold q; ring).
  assert (Bp : forall w, -1 <= w <= 1 -> - dl <= w * p <= dl) by (intros w Hw; split; nra).
  assert (Bq : forall w, -1 <= w <= 1 -> - dl <= w * q <= dl) by (intros w Hw; split; nra).
  assert (Bpq : forall w, -1 <= w <= 1 -> - dl <= w * (p * q) <= dl).
  { intros w Hw. assert (0 <= p * q <= dl) by (split; nra). split; nra. }
  assert (Bdl : forall w, -1 <= w <= 1 -> - dl <= w * dl <= dl) by (intros w Hw; split; nra).
  assert (Bch : - dl <= c * h <= dl) by (split; nra).
  assert (Bcg : - dl <= c * g <= dl) by (split; nra).
  pose proof (Bp u Bu) as Pu. pose proof (Bp v Bv) as Pv. pose proof (Bq u Bu) as Qu. pose proof (Bq v Bv) as Qv.
  pose proof (Bq sr Bsr) as Qs. pose proof (Bq cr Bcr) as Qc. pose proof (Bpq u Bu) as PQu. pose proof (Bpq v Bv) as PQv.
  pose proof (Bdl sr Bsr) as Ds. pose proof (Bdl cr Bcr) as Dc.
  repeat split; apply abs_iff.
  - rewrite Ea, Er. replace (cr - u * (1 - p)) with ((cr - u) + u * p) by ring. lra.
  - rewrite Eb, Ei, Er, Ej.
    replace (- sr * (s * (1 - q)) - - s * v * (1 - p)) with (s * (- (sr - v) + sr * q - v * p)) by ring.
    destruct Bs as [-> | ->]; lra.
  - lra.
  - rewrite <- A1, Eb, Ei.
    replace (c * h - - s * v * rho * (s * j)) with (c * h + (s * s) * (v * rho * j)) by ring. rewrite Hs, Er, Ej.
    replace (sr - (c * h + 1 * (v * (1 - p) * (1 - q)))) with ((sr - v) - c * h + v * p + v * q - v * (p * q)) by ring. lra.
  - rewrite <- A4, Ea, Ei, Er, Ej.
    replace (cr * (s * (1 - q)) - (u * (1 - p) * (s * (1 - q)) - c * g)) with (s * ((cr - u) - cr * q + u * q + u * p - u * (p * q)) + c * g) by ring.
    destruct Bs as [-> | ->]; lra.
  - lra.
  - lra.
  - lra.
  - lra.
Qed.
End Core.

Lemma Rz_0 : Rz 0 = mI.
Proof. unfold Rz, mI. rewrite cos_0, sin_0. f_equal; ring. Qed.

Lemma sin_le_x x : 0 <= x -> sin x <= x.
Proof. intros [H|<-]; [left; apply sin_lt_x; exact H | rewrite sin_0; lra]. Qed.

(* facts about a rotation used below *)
Lemma rot_facts U : is_rot U ->
  m00 U * m00 U + m01 U * m01 U + m02 U * m02 U = 1 /\ m02 U * m02 U + m12 U * m12 U + m22 U * m22 U = 1 /\
  m20 U * m20 U + m21 U * m21 U + m22 U * m22 U = 1 /\ m02 U * m21 U - m01 U * m22 U = m10 U /\ m00 U * m22 U - m02 U * m20 U = m11 U.
Proof.
  intros HR. pose proof (rot_UUt U HR) as HT. pose proof (rot_minv U HR) as HA. destruct HR as [HO HD].
  unfold minv in HA. rewrite HD, Rinv_1 in HA.
  destruct U as [a b c d e f g h i]. cbn [m00 m01 m02 m10 m11 m12 m20 m21 m22] in *.
  unfold mmul, mtrans, mI in HO, HT; cbn in HO, HT. unfold mscale, madj, mtrans in HA; cbn in HA. rewrite !Rmult_1_l in HA.
  injection HO as O0 O1 O2 O3 O4 O5 O6 O7 O8. injection HT as T0 T1 T2 T3 T4 T5 T6 T7 T8. injection HA as A0 A1 A2 A3 A4 A5 A6 A7 A8.
  repeat split; lra.
Qed.

Section Gimbal.
Variable U : M3.
Hypothesis HR : is_rot U.
Let P := acos (m22 U).

(* common part: s = 1 with r = arctan2(-U01, U00), or s = -1 with r = arctan2(U01, U00) *)
Lemma gimbal_core s r : (s = 1 \/ s = -1) -> laue_arctan2 (- s * m01 U) (m00 U) = Some r ->
  0 <= s * m22 U -> sin P <= tol -> mclose (7 * tol) (mmul (Rz r) (Rx P)) U.
Proof.
  intros Hs Hr Hj Hsin. destruct (rot_facts U HR) as (R0 & C2 & R2 & A1 & A4).
  assert (Bi : -1 <= m22 U <= 1) by (split; nra).
  assert (CP : cos P = m22 U) by (apply cos_acos; exact Bi).
  assert (SP : sin P = sqrt (1 - m22 U * m22 U)) by (unfold P; rewrite sin_acos by exact Bi; f_equal; unfold Rsqr; ring).
  set (dl := sqrt (1 - m22 U * m22 U)) in *.
  assert (Hd2 : dl * dl = 1 - m22 U * m22 U) by (apply sqrt_sqrt; nra).
  assert (Hd : 0 <= dl) by apply sqrt_pos.
  assert (Ht : 0 <= tol) by (unfold tol; lra). assert (Ht1 : tol <= 1) by (unfold tol; lra).
  destruct (arctan2_cs _ _ _ Hr) as (Prho & Cc & Cs). cbv zeta in *.
  set (rho := sqrt (m00 U * m00 U + - s * m01 U * (- s * m01 U))) in *.
  assert (Hss : s * s = 1) by (destruct Hs as [-> | ->]; ring).
  assert (Hrho2 : rho * rho = m00 U * m00 U + m01 U * m01 U).
  { unfold rho. rewrite sqrt_sqrt; [|nra]. transitivity (m00 U * m00 U + (s * s) * (m01 U * m01 U)); [ring | rewrite Hss; ring]. }
  pose proof (sc1 r) as SC.
  pose proof (core_bounds (m00 U) (m01 U) (m02 U) (m10 U) (m11 U) (m12 U) (m20 U) (m21 U) (m22 U) s dl rho (cos r) (sin r) tol
                R0 C2 R2 A1 A4 Hss Hj Hd Hd2 ltac:(lra) Prho Hrho2 ltac:(lra) Ht Cc Cs) as (B0 & B1 & B2 & B3 & B4 & B5 & B6 & B7 & B8).
  destruct U as [a b c d e f g h i]. cbn [m00 m01 m02 m10 m11 m12 m20 m21 m22] in *.
  unfold mclose, Rz, Rx, mmul; cbn [m00 m01 m02 m10 m11 m12 m20 m21 m22]. rewrite CP, SP.
  repeat split.
  - replace (cos r * 1 + - sin r * 0 + 0 * 0 - a) with (cos r - a) by ring. lra.
  - replace (cos r * 0 + - sin r * i + 0 * dl - b) with (- sin r * i - b) by ring. lra.
  - replace (cos r * 0 + - sin r * - dl + 0 * i - c) with (sin r * dl - c) by ring. lra.
  - replace (sin r * 1 + cos r * 0 + 0 * 0 - d) with (sin r - d) by ring. lra.
  - replace (sin r * 0 + cos r * i + 0 * dl - e) with (cos r * i - e) by ring. lra.
  - replace (sin r * 0 + cos r * - dl + 0 * i - f) with (- cos r * dl - f) by ring. lra.
  - replace (0 * 1 + 0 * 0 + 1 * 0 - g) with (0 - g) by ring. lra.
  - replace (0 * 0 + 0 * i + 1 * dl - h) with (dl - h) by ring. lra.
  - replace (0 * 0 + 0 * - dl + 1 * i - i) with (i - i) by ring. lra.
Qed.
End Gimbal.

Theorem euler_gimbal U e : is_rot U -> ~ not_gimbal U -> laue_u_to_euler U = Some e ->
  mclose (7 * tol) (laue_euler_to_u (vx e) (vy e) (vz e)) U.
Proof.
  intros HR HG H. pose proof PI_RGT_0 as Pi. assert (P4 : PI <= 4) by (pose proof PI_4; lra). pose proof PI2_3_2 as P32. unfold PI2 in P32.
  destruct (rot_facts U HR) as (_ & C2 & _).
  assert (Bi : -1 <= m22 U <= 1) by (split; nra).
  pose proof (acos_bound (m22 U)) as AB. set (P := acos (m22 U)) in *.
  assert (Tl : tol < 1) by (unfold tol; lra). assert (T0 : 0 < tol) by (unfold tol; lra).
  unfold laue_u_to_euler in H. fold P in H. fold tol in H.
  destruct (Rlt_dec (Rabs P) tol) as [L|NL].
  - (* PHI near 0 *)
    rewrite Rabs_right in L by lra.
    destruct (laue_arctan2 (- m01 U) (m00 U)) as [r|] eqn:Er; [|discriminate].
    assert (Er' : laue_arctan2 (- 1 * m01 U) (m00 U) = Some r) by (replace (- 1 * m01 U) with (- m01 U) by ring; exact Er).
    assert (Hj : 0 <= 1 * m22 U).
    { rewrite Rmult_1_l. rewrite <- (cos_acos (m22 U) Bi). fold P. left. apply cos_gt_0; lra. }
    assert (Hsin : sin P <= tol) by (pose proof (sin_le_x P ltac:(lra)); lra).
    pose proof (gimbal_core U HR 1 r (or_introl eq_refl) Er' Hj Hsin) as Close. fold P in Close.
    destruct (Rlt_dec r 0); injection H as <-; cbn [vx vy vz]; rewrite laue_euler_comp, ?Rz_2PI, Rz_0, mmul_I_r; exact Close.
  - destruct (Rlt_dec (Rabs (P - PI)) tol) as [L|NL2].
    + (* PHI near pi *)
      rewrite Rabs_left1 in L by lra.
      destruct (laue_arctan2 (m01 U) (m00 U)) as [r|] eqn:Er; [|discriminate].
      assert (Er' : laue_arctan2 (- -1 * m01 U) (m00 U) = Some r) by (replace (- -1 * m01 U) with (m01 U) by ring; exact Er).
      assert (Hj : 0 <= -1 * m22 U).
      { rewrite <- (cos_acos (m22 U) Bi). fold P. replace (-1 * cos P) with (cos (PI - P)) by (rewrite cos_minus, cos_PI, sin_PI; ring).
        left. apply cos_gt_0; lra. }
      assert (Hsin : sin P <= tol).
      { replace (sin P) with (sin (PI - P)) by (rewrite sin_minus, cos_PI, sin_PI; ring). pose proof (sin_le_x (PI - P) ltac:(lra)). lra. }
      pose proof (gimbal_core U HR (-1) r (or_intror eq_refl) Er' Hj Hsin) as Close. fold P in Close.
      destruct (Rlt_dec r 0); injection H as <-; cbn [vx vy vz]; rewrite laue_euler_comp, ?Rz_2PI, Rz_0, mmul_I_r; exact Close.
    + exfalso. apply HG. unfold not_gimbal. fold P. fold tol. split; lra.
Qed.

(* every rotation, whatever branch the code takes: the round trip is accurate to 1e-6 (in fact 1.2e-7) in every entry *)
Theorem euler_roundtrip_all U e : is_rot U -> laue_u_to_euler U = Some e ->
  mclose (1 / 1000000) (laue_euler_to_u (vx e) (vy e) (vz e)) U.
Proof.
  intros HR H.
  assert (D : not_gimbal U \/ ~ not_gimbal U).
  { unfold not_gimbal. destruct (Rle_dec (1 / 100000000) (Rabs (acos (m22 U)))), (Rle_dec (1 / 100000000) (Rabs (acos (m22 U) - PI))); tauto. }
  destruct D as [G|G].
  - apply euler_band_1e6; assumption.
  - pose proof (euler_gimbal U e HR G H) as (H0 & H1 & H2 & H3 & H4 & H5 & H6 & H7 & H8). unfold tol in *. unfold mclose. repeat split; lra.
Qed.

(* the code never raises on a rotation *)
Lemma arctan2_some y x : x <> 0 \/ y <> 0 -> exists r, laue_arctan2 y x = Some r.
Proof.
  intros H. unfold laue_arctan2; cbv zeta. unfold Rabs. destruct (Rcase_abs x), (Rcase_abs y);
  repeat match goal with |- context [if ?c then _ else _] => destruct c end; try (eexists; reflexivity); exfalso; lra.
Qed.

Theorem euler_total U : is_rot U -> exists e, laue_u_to_euler U = Some e.
Proof.
  intros HR. destruct (rot_facts U HR) as (R0 & C2 & R2 & _).
  assert (Bi : -1 <= m22 U <= 1) by (split; nra).
  pose proof (acos_bound (m22 U)) as AB. pose proof PI_RGT_0 as Pi. pose proof PI2_3_2 as P32. unfold PI2 in P32.
  assert (CP : cos (acos (m22 U)) = m22 U) by (apply cos_acos; exact Bi).
  assert (Small : forall t, 0 <= t < 1 -> sin t * sin t < 1).
  { intros t Ht. pose proof (sin_le_x t ltac:(lra)). assert (0 <= sin t) by (destruct (Req_dec t 0) as [->|N]; [rewrite sin_0; lra | left; apply sin_gt_0; lra]). nra. }
  unfold laue_u_to_euler. set (P := acos (m22 U)) in *. pose proof (sc1 P) as SC.
  destruct (Rlt_dec (Rabs P) (1 / 100000000)) as [L|NL].
  - rewrite Rabs_right in L by lra.
    assert (Hnz : m00 U <> 0 \/ - m01 U <> 0).
    { pose proof (Small P ltac:(lra)). destruct (Req_dec (m00 U) 0) as [Z|Z]; [|left; exact Z]. right. intro Z2. assert (m01 U = 0) by lra. nra. }
    destruct (arctan2_some _ _ Hnz) as [r ->]. destruct (Rlt_dec r 0); eexists; reflexivity.
  - destruct (Rlt_dec (Rabs (P - PI)) (1 / 100000000)) as [L|NL2].
    + rewrite Rabs_left1 in L by lra.
      assert (SPi : sin P = sin (PI - P)) by (rewrite sin_minus, cos_PI, sin_PI; ring).
      assert (Hnz : m00 U <> 0 \/ m01 U <> 0).
      { pose proof (Small (PI - P) ltac:(lra)). destruct (Req_dec (m00 U) 0) as [Z|Z]; [|left; exact Z]. right. intro Z2. rewrite <- SPi in H. nra. }
      destruct (arctan2_some _ _ Hnz) as [r ->]. destruct (Rlt_dec r 0); eexists; reflexivity.
    + (* sin PHI <> 0 outside the bands *)
      assert (SPnz : sin P <> 0).
      { intro Z. assert (0 < P < PI).
        { split.
          - destruct (Req_dec P 0) as [E|E]; [rewrite E, Rabs_R0 in NL; lra | lra].
          - destruct (Req_dec P PI) as [E|E]; [rewrite E in NL2; replace (PI - PI) with 0 in NL2 by ring; rewrite Rabs_R0 in NL2; lra | lra]. }
        pose proof (sin_gt_0 P ltac:(lra) ltac:(lra)). lra. }
      assert (S2 : sin P * sin P = 1 - m22 U * m22 U) by nra.
      assert (Hnz3 : - m12 U <> 0 \/ m02 U <> 0).
      { destruct (Req_dec (m12 U) 0) as [Z|Z]; [|left; lra]. right. intro Z2. apply SPnz. assert (sin P * sin P = 0) by nra. apply Rmult_integral in H. tauto. }
      assert (Hnz4 : m21 U <> 0 \/ m20 U <> 0).
      { destruct (Req_dec (m21 U) 0) as [Z|Z]; [|left; exact Z]. right. intro Z2. apply SPnz. assert (sin P * sin P = 0) by nra. apply Rmult_integral in H. tauto. }
      destruct (arctan2_some _ _ Hnz3) as [r3 ->]. destruct (arctan2_some _ _ Hnz4) as [r4 ->].
      destruct (Rlt_dec r3 0), (Rlt_dec r4 0); eexists; reflexivity.
Qed.

(* tools: the same functions (C14) *)
From XV Require Import Gen_tools P14_rot.
Lemma tools_euler_total U : is_rot U -> exists e, tools_u_to_euler U = Some e.
Proof. rewrite tl_u_to_euler. apply euler_total. Qed.
Lemma tools_euler_roundtrip_all U e : is_rot U -> tools_u_to_euler U = Some e ->
  mclose (1 / 1000000) (tools_euler_to_u (vx e) (vy e) (vz e)) U.
Proof. rewrite tl_u_to_euler, tl_euler_to_u. apply euler_roundtrip_all. Qed.

(* C16 on the generated table *)
From Coq Require Import Reals ZArith List Bool String Lra.
From XV Require Import RealLib Mat3 Gen_structure Elements FormFac Tab_ff P16_pos.
Import ListNotations.
Open Scope R_scope.

Lemma table_keys : map fst ff_table = elements.
Proof. vm_compute. reflexivity. Qed.
Lemma ab_all : forallb (fun e => ab_ok (snd e)) ff_table = true.
Proof. vm_compute. reflexivity. Qed.
Lemma f0_all : forallb f0_ok ff_table = true.
Proof. vm_compute. reflexivity. Qed.

Lemma ff_f0_all e : In e ff_table -> exists z, atomic_number (fst e) = Some z /\ Rabs (ff_R (snd e) 0 - IZR z) <= 1 / 10.
Proof.
  intros H. pose proof (proj1 (forallb_forall _ _) f0_all e H) as F.
  destruct (atomic_number (fst e)) as [z|] eqn:E.
  - exists z. split; [reflexivity|]. apply ff_f0; assumption.
  - unfold f0_ok in F. rewrite E in F. discriminate.
Qed.

Lemma ff_decreasing_all e s1 s2 : In e ff_table -> 0 <= s1 < s2 -> ff_R (snd e) s2 < ff_R (snd e) s1.
Proof.
  intros H Hs. apply ff_decreasing; [|exact Hs].
  exact (proj1 (forallb_forall _ _) ab_all e H).
Qed.

Lemma ff_positive_all e s : In e ff_table -> 0 <= s <= 2 -> 0 < ff_R (snd e) s.
Proof.
  intros H Hs. apply ff_positive; [exact (proj1 (forallb_forall _ _) ab_all e H) | | exact Hs].
  exact (proj1 (Forall_forall _ _) all_pos2 e H).
Qed.

Lemma ff_is_sum row s :
  ff_R row s = nthZ row 0 * exp (- (nthZ row 4 * (s * s))) + nthZ row 1 * exp (- (nthZ row 5 * (s * s)))
             + nthZ row 2 * exp (- (nthZ row 6 * (s * s))) + nthZ row 3 * exp (- (nthZ row 7 * (s * s))) + nthZ row 8.
Proof. exact (ff_formula row s). Qed.

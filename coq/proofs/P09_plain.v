(* C09: find_omega (rotation about z, no tilt) *)
From Coq Require Import Reals Lra Psatz List.
From XV Require Import RealLib Mat3 Atan2 OmegaSolve Gen_laue P03_laue P09_laue.
Import ListNotations.
Open Scope R_scope.

(* choose the sign of acos by the sign of the sine *)
Definition acos_signed (co si : R) : R := if Rlt_dec si 0 then - acos co else acos co.

Lemma acos_signed_spec co si : si * si + co * co = 1 ->
  cos (acos_signed co si) = co /\ sin (acos_signed co si) = si /\ - PI < acos_signed co si <= PI.
Proof.
  intros U. assert (B : -1 <= co <= 1) by (split; nra).
  pose proof (acos_bound co) as AB. pose proof PI_RGT_0 as P.
  assert (C : cos (acos co) = co) by (apply cos_acos; exact B).
  assert (S : sin (acos co) = sqrt (si * si)).
  { rewrite sin_acos by exact B. f_equal. unfold Rsqr. lra. }
  unfold acos_signed. destruct (Rlt_dec si 0) as [L|L].
  - rewrite cos_neg, sin_neg, C, S. replace (si * si) with ((- si) * (- si)) by ring. rewrite sqrt_square by lra.
    repeat split; try lra. 
    destruct (Req_dec (acos co) PI) as [E|N]; [|lra]. exfalso. rewrite E, cos_PI in C. subst co. nra.
  - rewrite C, S, sqrt_square by lra. repeat split; lra.
Qed.

Definition omega_plain_model (gn : V3) (tth : R) : list R :=
  let gg := sqrt (vx gn * vx gn + vy gn * vy gn + vz gn * vz gn) in
  let a := vx gn / gg in let b := - vy gn / gg in
  let c := (cos tth - 1) / sqrt (2 * (1 - cos tth)) in
  let n := a ^ 2 + b ^ 2 in
  let d := n - c ^ 2 in
  if Rlt_dec 0 d then
    let sq := sqrt d in
    [acos_signed ((a * c + b * sq) / n) ((b * c - a * sq) / n);
     acos_signed ((a * c + b * sq) / n - 2 * b * sq / n) ((b * c - a * sq) / n + 2 * a * sq / n)]
  else [].

Lemma laue_plain_refines g tth : laue_find_omega g tth = omega_plain_model (normalise_to tth g) tth.
Proof.
  unfold laue_find_omega, omega_plain_model, normalise_to, acos_signed; cbv zeta; cbn [vx vy vz].
  destruct (Rlt_dec 0 _); [|reflexivity].
  destruct (Rlt_dec _ 0); destruct (Rlt_dec _ 0); reflexivity.
Qed.

Section Plain.
Variables (gn : V3) (tth : R).
Hypothesis Ht : 0 < tth < PI.
Hypothesis Hn : vx gn * vx gn + vy gn * vy gn + vz gn * vz gn = sin (tth / 2) * sin (tth / 2).

Lemma half_pos : 0 < sin (tth / 2).
Proof. apply sin_gt_0; lra. Qed.

Lemma plain_c : (cos tth - 1) / sqrt (2 * (1 - cos tth)) = - sin (tth / 2).
Proof.
  pose proof half_pos as P.
  assert (E : cos tth = 1 - 2 * sin (tth / 2) * sin (tth / 2)) by (replace tth with (2 * (tth / 2)) at 1 by field; apply cos_2a_sin).
  rewrite E. replace (2 * (1 - (1 - 2 * sin (tth / 2) * sin (tth / 2)))) with ((2 * sin (tth / 2)) * (2 * sin (tth / 2))) by ring.
  rewrite sqrt_square by lra. field. lra.
Qed.

Lemma plain_x w : vx (mvmul (Rz w) gn) = vx gn * cos w - vy gn * sin w.
Proof. destruct gn as [x y z]. mcbv. ring. Qed.

Lemma plain_sound w : vx gn * vx gn + vy gn * vy gn <> 0 -> In w (omega_plain_model gn tth) ->
  vx (mvmul (Rz w) gn) = - (sin (tth / 2) * sin (tth / 2)) /\ - PI < w <= PI.
Proof.
  intros Hxy. pose proof half_pos as P.
  unfold omega_plain_model; cbv zeta. rewrite Hn, plain_c. rewrite sqrt_square by lra.
  set (s := sin (tth / 2)) in *. set (a := vx gn / s). set (b := - vy gn / s). cbn [Rpow_def.pow]. rewrite !Rmult_1_r.
  assert (Hab : a * a + b * b <> 0).
  { unfold a, b. intro Z. apply Hxy. assert (Q : (vx gn * vx gn + vy gn * vy gn) / (s * s) = 0) by (rewrite <- Z; field; lra).
    apply (Rmult_eq_reg_r (/ (s * s))); [| apply Rinv_neq_0_compat; nra]. rewrite Rmult_0_l. exact Q. }
  destruct (Rlt_dec 0 (a * a + b * b - - s * - s)) as [L|L]; [|intros []].
  assert (Q : sqrt (a * a + b * b - - s * - s) * sqrt (a * a + b * b - - s * - s) = a * a + b * b - - s * - s) by (apply sqrt_sqrt; lra).
  set (sq := sqrt (a * a + b * b - - s * - s)) in *.
  rewrite plain_x.
  assert (K : forall co si, a * co + b * si = - s -> vx gn * co - vy gn * si = - (s * s)).
  { intros co si E. transitivity (s * (a * co + b * si)); [unfold a, b; field; lra | rewrite E; ring]. }
  intros [<-|[<-|[]]].
  - destruct (trig_solve a b (- s) sq 1 ltac:(ring) Hab Q) as [U E]. cbv zeta in U, E.
    replace (b * - s - 1 * (a * sq)) with (b * - s - a * sq) in * by ring. replace (a * - s + 1 * (b * sq)) with (a * - s + b * sq) in * by ring.
    destruct (acos_signed_spec _ _ U) as (C & S & Rg). rewrite C, S. split; [|exact Rg]. apply K; exact E.
  - destruct (trig_solve a b (- s) sq (-1) ltac:(ring) Hab Q) as [U E]. cbv zeta in U, E.
    replace ((a * - s + b * sq) / (a * a + b * b) - 2 * b * sq / (a * a + b * b)) with ((a * - s + -1 * (b * sq)) / (a * a + b * b)) by (field; exact Hab).
    replace ((b * - s - a * sq) / (a * a + b * b) + 2 * a * sq / (a * a + b * b)) with ((b * - s - -1 * (a * sq)) / (a * a + b * b)) by (field; exact Hab).
    destruct (acos_signed_spec _ _ U) as (C & S & Rg). rewrite C, S. split; [|exact Rg]. apply K; exact E.
Qed.
End Plain.

Theorem laue_find_omega_sound g tth w : 0 < tth < PI -> vx g * vx g + vy g * vy g <> 0 ->
  In w (laue_find_omega g tth) ->
  vx (mvmul (laue_form_omega_mat w) (normalise_to tth g)) = - (sin (tth / 2) * sin (tth / 2)) /\ - PI < w <= PI.
Proof.
  intros Ht Hxy Hin. rewrite laue_plain_refines in Hin.
  assert (Hg : vx g * vx g + vy g * vy g + vz g * vz g <> 0) by nra.
  pose proof (normalise_length tth g Hg) as Hn. cbv zeta in Hn.
  rewrite laue_omega_comp. apply (plain_sound _ _ Ht Hn); [|exact Hin].
  unfold normalise_to; cbn [vx vy]. pose proof (half_pos tth Ht) as P.
  set (q := vx g * vx g + vy g * vy g + vz g * vz g) in *.
  assert (Pq : 0 < q) by (assert (0 <= q) by (unfold q; nra); lra).
  pose proof (sqrt_lt_R0 q Pq) as S. set (r := sqrt q) in *.
  intro Z. apply Hxy.
  assert (Q : (sin (tth / 2) / r) * (sin (tth / 2) / r) * (vx g * vx g + vy g * vy g) = 0) by (rewrite <- Z; field; lra).
  apply Rmult_integral in Q. destruct Q as [Q|Q]; [|exact Q]. exfalso.
  assert (0 < sin (tth / 2) / r) by (apply Rdiv_lt_0_compat; assumption). nra.
Qed.

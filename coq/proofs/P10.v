(* C10: detector pixel lies on the scattered ray (generated definitions of xfab.detector) *)
From Coq Require Import Reals Lra Psatz.
From XV Require Import RealLib Mat3 Atan2 Gen_tools Gen_detector.
Open Scope R_scope.

Definition ray_dir (tth eta : R) : V3 := mkV3 (cos tth) (- sin tth * sin eta) (sin tth * cos eta).

(* the code's ray parameter t *)
Definition ray_t (Rt : M3) (L tx ty tz : R) (v : V3) : R :=
  (m00 Rt * L - (m00 Rt * tx + m10 Rt * ty + m20 Rt * tz)) / (m00 Rt * vx v + m10 Rt * vy v + m20 Rt * vz v).

Lemma coor_eq_coor2 Gt costth wl tth eta L py pz y0 z0 Rt tx ty tz :
  costth = cos tth -> wl / (2 * PI) * vy Gt = - sin tth * sin eta -> wl / (2 * PI) * vz Gt = sin tth * cos eta ->
  detector_det_coor Gt costth wl L py pz y0 z0 Rt tx ty tz = detector_det_coor2 tth eta L py pz y0 z0 Rt tx ty tz.
Proof.
  intros E0 E1 E2. unfold detector_det_coor, detector_det_coor2; cbv zeta.
  rewrite E0, E1, E2. reflexivity.
Qed.

Lemma on_ray tth eta L py pz y0 z0 Rt tx ty tz :
  is_rot Rt -> py <> 0 -> pz <> 0 ->
  let v := ray_dir tth eta in
  m00 Rt * vx v + m10 Rt * vy v + m20 Rt * vz v <> 0 ->
  let p := detector_det_coor2 tth eta L py pz y0 z0 Rt tx ty tz in
  detector_detector_to_lab (p0 p) (p1 p) L py pz y0 z0 Rt
  = vadd (mkV3 tx ty tz) (vscale (ray_t Rt L tx ty tz v) v).
Proof.
  intros HR Hy Hz v Hd p. subst p v.
  pose proof (rot_UUt Rt HR) as HO.
  unfold detector_detector_to_lab, detector_det_coor2, ray_t, ray_dir in *; cbv zeta.
  cbn [p0 p1 vx vy vz] in *.
  set (cT := cos tth) in *. set (sT := sin tth) in *. set (sE := sin eta) in *. set (cE := cos eta) in *.
  clearbody cT sT sE cE.
  destruct Rt as [a b c d e f g h i]. cbn [m00 m01 m02 m10 m11 m12 m20 m21 m22] in *.
  unfold mmul, mtrans, mI in HO; cbn in HO. injection HO as E0 E1 E2 E3 E4 E5 E6 E7 E8.
  unfold vadd, vscale; cbn [vx vy vz].
  f_equal; (field_simplify_eq; [nsatz_R | repeat split; assumption]).
Qed.

Lemma forward Rt L tx ty tz v :
  0 < m00 Rt * L - (m00 Rt * tx + m10 Rt * ty + m20 Rt * tz) ->
  0 < m00 Rt * vx v + m10 Rt * vy v + m20 Rt * vz v -> 0 < ray_t Rt L tx ty tz v.
Proof. intros H1 H2. unfold ray_t. apply Rdiv_lt_0_compat; assumption. Qed.

(* with zero tilt and the grain at the origin the familiar L tan(2 theta) geometry comes out *)
Lemma untilted tth eta L py pz y0 z0 : cos tth <> 0 -> py <> 0 -> pz <> 0 ->
  detector_det_coor2 tth eta L py pz y0 z0 mI 0 0 0 =
  mkV2 (L * (- sin tth * sin eta) / cos tth / py + y0) (L * (sin tth * cos eta) / cos tth / pz + z0).
Proof.
  intros H Hy Hz. unfold detector_det_coor2, mI; cbv zeta; cbn [m00 m01 m02 m10 m11 m12 m20 m21 m22].
  f_equal; field; repeat split; assumption.
Qed.

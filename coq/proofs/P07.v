(* C07: structure factors transform correctly under the space-group operations.
   Part 1 (this file): the general re-indexing argument for a sum over an operation list.
   A term is  w(h, R) . cis(2 pi h.(R x + t)) . ff(h)  with a real weight w (Debye-Waller factor x site population) and a complex
   scattering factor ff = (f + f', f''). *)
From Coq Require Import Reals Lra List Permutation ZArith.
From XV Require Import RealLib Mat3 Cplx.
Import ListNotations.
Open Scope R_scope.

Definition sop := (M3 * V3)%type.       (* x -> R x + t *)
Definition apply_op (o : sop) (x : V3) : V3 := vadd (mvmul (fst o) x) (snd o).
Definition phase (h : V3) (o : sop) (x : V3) : C := cis (2 * PI * vdot h (apply_op o x)).

(* left composition by (Rk, tk) permutes the list modulo lattice translations *)
Definition left_closed (k : sop) (ops : list sop) : Prop :=
  exists ops', Permutation ops' ops /\
    Forall2 (fun p p' => mmul (fst k) (fst p) = fst p' /\
                         exists L, int_vec L /\ vadd (mvmul (fst k) (snd p)) (snd k) = vadd (snd p') L) ops ops'.

Lemma vdot_vadd h u v : vdot h (vadd u v) = vdot h u + vdot h v.
Proof. destruct h, u, v; unfold vdot, vadd; cbn; ring. Qed.

Lemma phase_shift_term h k p p' x : int_vec h ->
  mmul (fst k) (fst p) = fst p' ->
  (exists L, int_vec L /\ vadd (mvmul (fst k) (snd p)) (snd k) = vadd (snd p') L) ->
  phase (rowmul h (fst k)) p x = cmul (cis (- (2 * PI * vdot h (snd k)))) (phase h p' x).
Proof.
  intros Hh HR (L & HL & Ht). unfold phase, apply_op. rewrite dot_rowmul.
  destruct (int_dot h L Hh HL) as [z Hz].
  (* Rk (R x + t) = R' x + (Rk t) and Rk t = t' + L - tk *)
  assert (E : vdot h (mvmul (fst k) (vadd (mvmul (fst p) x) (snd p)))
              = vdot h (vadd (mvmul (fst p') x) (snd p')) + IZR z - vdot h (snd k)).
  { rewrite <- HR, <- Hz.
    assert (D : mvmul (fst k) (vadd (mvmul (fst p) x) (snd p)) = vadd (mvmul (mmul (fst k) (fst p)) x) (mvmul (fst k) (snd p))).
    { rewrite mvmul_mmul. destruct (fst k), (mvmul (fst p) x), (snd p). unfold mvmul, vadd; cbn. f_equal; ring. }
    rewrite D, !vdot_vadd.
    assert (T : vdot h (mvmul (fst k) (snd p)) + vdot h (snd k) = vdot h (snd p') + vdot h L) by (rewrite <- !vdot_vadd, Ht; reflexivity).
    lra. }
  rewrite E.
  replace (2 * PI * (vdot h (vadd (mvmul (fst p') x) (snd p')) + IZR z - vdot h (snd k)))
    with ((- (2 * PI * vdot h (snd k))) + (2 * PI * vdot h (vadd (mvmul (fst p') x) (snd p')) + 2 * PI * IZR z)) by ring.
  rewrite !cis_add, cis_2PI_Z. f_equal. apply C_ext; unfold cmul, c1; cbn [fst snd]; ring.
Qed.

Section Sum.
Variable x : V3.                       (* fractional position of the atom *)
Variable W : V3 -> M3 -> R.            (* weight: Debye-Waller factor times site population, may depend on h and on the rotation *)
Variable FF : V3 -> C.                 (* (f + f', f'') , depends on h through sin(theta)/lambda *)

Definition term (h : V3) (o : sop) : C := cscale (W h (fst o)) (cmul (phase h o x) (FF h)).
Definition SFatom (ops : list sop) (h : V3) : C := csum (map (term h) ops).

Theorem phase_shift ops k h : int_vec h -> left_closed k ops ->
  (forall Rm, W (rowmul h (fst k)) Rm = W h (mmul (fst k) Rm)) -> FF (rowmul h (fst k)) = FF h ->
  SFatom ops (rowmul h (fst k)) = cmul (cis (- (2 * PI * vdot h (snd k)))) (SFatom ops h).
Proof.
  intros Hh (ops' & HP & HF) HW HFF. unfold SFatom.
  rewrite <- (csum_perm _ _ (Permutation_map (term h) HP)).
  rewrite <- csum_map_cmul.
  f_equal. clear HP. induction HF as [|p p' l l' [HR HL] HF' IH]; [reflexivity|].
  cbn [map]. f_equal; [|exact IH].
  unfold term. rewrite HW, HFF, HR. rewrite (phase_shift_term h k p p' x Hh HR HL).
  apply C_ext; unfold cscale, cmul; cbn [fst snd]; ring.
Qed.

(* equivalent reflections have the same modulus *)
Lemma cnorm2_cmul a b : cnorm2 (cmul a b) = cnorm2 a * cnorm2 b.
Proof. unfold cnorm2, cmul; cbn [fst snd]. ring. Qed.

Corollary equiv_modulus ops k h : int_vec h -> left_closed k ops ->
  (forall Rm, W (rowmul h (fst k)) Rm = W h (mmul (fst k) Rm)) -> FF (rowmul h (fst k)) = FF h ->
  cnorm2 (SFatom ops (rowmul h (fst k))) = cnorm2 (SFatom ops h).
Proof. intros. rewrite phase_shift by assumption. rewrite cnorm2_cmul, cis_norm. ring. Qed.

(* a reflection with h R = h and h.t not an integer is extinct *)
Corollary extinct_zero ops k h : int_vec h -> left_closed k ops ->
  (forall Rm, W (rowmul h (fst k)) Rm = W h (mmul (fst k) Rm)) -> FF (rowmul h (fst k)) = FF h ->
  rowmul h (fst k) = h -> cis (- (2 * PI * vdot h (snd k))) <> c1 -> SFatom ops h = c0.
Proof.
  intros Hh Hc HW HF Hfix Hne. pose proof (phase_shift ops k h Hh Hc HW HF) as E. rewrite Hfix in E.
  set (F := SFatom ops h) in *. set (c := cis (- (2 * PI * vdot h (snd k)))) in *.
  (* (1 - c) F = 0 with c <> 1 on the unit circle *)
  assert (N : cnorm2 c = 1) by apply cis_norm.
  destruct F as [fr fi], c as [cr ci]. unfold cmul, cnorm2, c1, c0 in *; cbn [fst snd] in *.
  injection E as E1 E2.
  assert (cr <> 1).
  { intro Q. subst cr. assert (Z : ci * ci = 0) by lra. apply Rmult_integral in Z. assert (ci = 0) by (destruct Z; assumption). subst ci. apply Hne. reflexivity. }
  assert (D0 : 0 < (1 - cr) * (1 - cr)) by (destruct (Rtotal_order cr 1) as [Q|[Q|Q]]; [nra | contradiction | nra]).
  assert (D : 0 < (1 - cr) * (1 - cr) + ci * ci) by (pose proof (Rle_0_sqr ci) as Sq; unfold Rsqr in Sq; lra).
  (* fr = cr fr - ci fi, fi = cr fi + ci fr  ->  ((1-cr)^2 + ci^2) fr = 0 *)
  assert (A : ((1 - cr) * (1 - cr) + ci * ci) * fr = 0) by (clear - E1 E2; nsatz).
  assert (B : ((1 - cr) * (1 - cr) + ci * ci) * fi = 0) by (clear - E1 E2; nsatz).
  apply Rmult_integral in A. apply Rmult_integral in B.
  assert (fr = 0) by (destruct A; [lra | assumption]). assert (fi = 0) by (destruct B; [lra | assumption]). subst. reflexivity.
Qed.
End Sum.

(* Friedel: without dispersion (f'' = 0, real ff) and a weight even in h, F(-h) is the conjugate of F(h) *)
Definition vneg (h : V3) : V3 := mkV3 (- vx h) (- vy h) (- vz h).
Theorem friedel x W (f : V3 -> R) ops h : (forall Rm, W (vneg h) Rm = W h Rm) -> f (vneg h) = f h ->
  SFatom x W (fun h => (f h, 0)) ops (vneg h) = cconj (SFatom x W (fun h => (f h, 0)) ops h).
Proof.
  intros HW Hf. unfold SFatom. rewrite <- csum_map_conj. f_equal. apply map_ext. intros o.
  unfold term, phase. rewrite HW, Hf.
  replace (2 * PI * vdot (vneg h) (apply_op o x)) with (- (2 * PI * vdot h (apply_op o x))) by (destruct h, (apply_op o x); unfold vdot, vneg; cbn; ring).
  rewrite cis_neg. apply C_ext; unfold cscale, cmul, cconj; cbn [fst snd]; ring.
Qed.

(* C14 (UBI part): tools vs laue generated definitions; the 2 pi convention *)
From Coq Require Import Reals Lra Psatz.
From XV Require Import RealLib Mat3 Atan2 Cell Gen_laue Gen_tools P01_laue P01_laue_b P01_laue_c P01_laue_d P01_laue_e P14_cell P01_tools P02_laue.
Open Scope R_scope.

Lemma mk_scale_r A k :
  mkM3 (m00 A * k) (m01 A * k) (m02 A * k) (m10 A * k) (m11 A * k) (m12 A * k) (m20 A * k) (m21 A * k) (m22 A * k) = mscale k A.
Proof. destruct A as [a b c d e f g h i]; unfold mscale; cbn. f_equal; ring. Qed.
Lemma mk_div_r A k : k <> 0 ->
  mkM3 (m00 A / k) (m01 A / k) (m02 A / k) (m10 A / k) (m11 A / k) (m12 A / k) (m20 A / k) (m21 A / k) (m22 A / k) = mscale (/ k) A.
Proof. intros H. destruct A as [a b c d e f g h i]; unfold mscale; cbn. f_equal; field; exact H. Qed.

Lemma two_pi_nz : 2 * PI <> 0.
Proof. pose proof PI_RGT_0; lra. Qed.

Lemma tl_ub_to_u_b qr UB : tools_ub_to_u_b qr UB = laue_ub_to_u_b qr UB.
Proof. reflexivity. Qed.

Lemma tools_u_to_ubi_eq U c : tools_u_to_ubi U c = mscale (2 * PI) (minv (mmul U (tools_form_b_mat c))).
Proof. unfold tools_u_to_ubi; cbv zeta. rewrite mk_scale_r. reflexivity. Qed.

Lemma tl_u_to_ubi U c : is_rot U -> valid_cell c -> tools_u_to_ubi U c = laue_u_to_ubi U c.
Proof.
  intros HU Hc. rewrite tools_u_to_ubi_eq, laue_u_to_ubi_eq, tools_b_scaled by exact Hc.
  rewrite mmul_mscale_r. rewrite minv_mscale; [|apply two_pi_nz | apply UB_det; assumption].
  rewrite mscale_mscale. replace (2 * PI * / (2 * PI)) with 1 by (field; pose proof PI_RGT_0; lra). apply mscale_1.
Qed.

Lemma tools_ubi_to_u_eq A :
  tools_ubi_to_u A = mscale (/ (2 * PI)) (mtrans (mmul (tools_form_b_mat (tools_ubi_to_cell A)) A)).
Proof.
  unfold tools_ubi_to_u; cbv zeta. rewrite <- mk_div_r by apply two_pi_nz. reflexivity.
Qed.

Lemma tl_ubi_to_u A : valid_cell (laue_ubi_to_cell A) -> tools_ubi_to_u A = laue_ubi_to_u A.
Proof.
  intros H. rewrite tools_ubi_to_u_eq, laue_ubi_to_u_eq, tl_ubi_to_cell, tools_b_scaled by exact H.
  rewrite mmul_mscale_l, mtrans_mscale, mscale_mscale.
  replace (/ (2 * PI) * (2 * PI)) with 1 by (field; pose proof PI_RGT_0; lra). apply mscale_1.
Qed.

Lemma tools_ubi_to_u_b_eq qr A : tools_ubi_to_u_b qr A = tools_ub_to_u_b qr (mscale (2 * PI) (minv A)).
Proof. unfold tools_ubi_to_u_b; cbv zeta. rewrite mk_scale_r. destruct (tools_ub_to_u_b qr _); reflexivity. Qed.

(* tools statements of C02 *)
Lemma tools_ubi_lattice U c h : is_rot U -> valid_cell c ->
  mvmul (tools_u_to_ubi U c) (mvmul (mmul U (tools_form_b_mat c)) h) = vscale (2 * PI) h.
Proof.
  intros HU Hc. rewrite tl_u_to_ubi, tools_b_scaled by assumption.
  rewrite mmul_mscale_r, mvmul_mscale.
  assert (E : forall A k v, mvmul A (vscale k v) = vscale k (mvmul A v))
    by (intros [] k []; unfold mvmul, vscale; cbn; f_equal; ring).
  rewrite E, laue_ubi_lattice by assumption. reflexivity.
Qed.
Lemma tools_ubi_to_cell_inv U c : is_rot U -> valid_cell c -> tools_ubi_to_cell (tools_u_to_ubi U c) = c.
Proof. intros HU Hc. rewrite tl_ubi_to_cell, tl_u_to_ubi by assumption. apply laue_ubi_to_cell_inv; assumption. Qed.
Lemma tools_ubi_to_u_inv U c : is_rot U -> valid_cell c -> tools_ubi_to_u (tools_u_to_ubi U c) = U.
Proof.
  intros HU Hc. rewrite tl_u_to_ubi by assumption. rewrite tl_ubi_to_u.
  - apply laue_ubi_to_u_inv; assumption.
  - rewrite laue_ubi_to_cell_inv; assumption.
Qed.
Lemma tools_ub_split qr UB : qr_spec UB (fst (qr UB)) (snd (qr UB)) -> 0 < mdet UB ->
  let UBs := tools_ub_to_u_b qr UB in
  mmul (fst UBs) (snd UBs) = UB /\ is_rot (fst UBs) /\ upper_posdiag (snd UBs).
Proof. rewrite tl_ub_to_u_b. apply laue_ub_split. Qed.
Lemma tools_ub_split_unique qr UB U B : qr_spec UB (fst (qr UB)) (snd (qr UB)) -> 0 < mdet UB ->
  is_rot U -> upper_posdiag B -> mmul U B = UB -> tools_ub_to_u_b qr UB = (U, B).
Proof. rewrite tl_ub_to_u_b. apply laue_ub_split_unique. Qed.

Lemma tools_ubi_to_u_b_inv qr U c : is_rot U -> valid_cell c ->
  let UB := mmul U (tools_form_b_mat c) in
  qr_spec UB (fst (qr UB)) (snd (qr UB)) ->
  tools_ubi_to_u_b qr (tools_u_to_ubi U c) = (U, tools_form_b_mat c).
Proof.
  intros HU Hc UB HQ. rewrite tools_ubi_to_u_b_eq, tools_u_to_ubi_eq. fold UB.
  assert (DUB : mdet UB <> 0).
  { unfold UB. rewrite mdet_mmul. destruct HU as [_ ->]. pose proof (upper_posdiag_det _ (tools_B_upper_posdiag c Hc)). lra. }
  assert (DI : mdet (minv UB) <> 0) by (rewrite mdet_minv by exact DUB; apply Rinv_neq_0_compat; exact DUB).
  rewrite minv_mscale by (first [apply two_pi_nz | exact DI]).
  rewrite mscale_mscale, minv_invol by exact DUB.
  replace (2 * PI * / (2 * PI)) with 1 by (field; pose proof PI_RGT_0; lra). rewrite mscale_1.
  apply tools_ub_split_unique; try assumption.
  - unfold UB. rewrite mdet_mmul. destruct HU as [_ ->]. pose proof (upper_posdiag_det _ (tools_B_upper_posdiag c Hc)). lra.
  - apply tools_B_upper_posdiag; exact Hc.
  - reflexivity.
Qed.
Lemma tools_ubi_to_rod_def U c : is_rot U -> valid_cell c -> tools_ubi_to_rod (tools_u_to_ubi U c) = tools_u_to_rod U.
Proof.
  intros HU Hc. unfold tools_ubi_to_rod; cbv zeta. rewrite tools_ubi_to_u_inv by assumption.
  destruct (tools_u_to_rod U); reflexivity.
Qed.

(* Any invertible matrix is the A matrix of a valid cell: a_to_cell A is valid and has metric A'A.
   Consequence: form_b_mat / form_a_mat after the cell extraction reproduce upper triangular positive-diagonal input. *)
From Coq Require Import Reals Lra Psatz.
From XV Require Import RealLib Mat3 Atan2 Cell Gen_laue P01_laue P01_laue_b P01_laue_c P01_laue_d P01_laue_e.
Open Scope R_scope.

Lemma sqrt_pos_of x : 0 < x -> 0 < sqrt x.
Proof. apply sqrt_lt_R0. Qed.

Lemma cs_strict n s t g : 0 < s -> 0 < t -> 0 < g -> s * s * (t * t) - n * n = g -> -1 < n / s / t < 1.
Proof.
  intros Hs Ht Hg E. replace (n / s / t) with (n / (s * t)) by (field; split; lra).
  apply ratio_lt_1 with (g := g); assumption.
Qed.

Lemma sq3_nonneg a b c : 0 <= a * a + b * b + c * c.
Proof. nra. Qed.
Lemma sq3_zero a b c : a * a + b * b + c * c = 0 -> a = 0 /\ b = 0 /\ c = 0.
Proof. intros H. repeat split; nra. Qed.

Lemma laue_a_to_cell_valid A : mdet A <> 0 ->
  valid_cell (laue_a_to_cell A) /\ metric (laue_a_to_cell A) = mmul (mtrans A) A.
Proof.
  intros D. destruct A as [a00 a01 a02 a10 a11 a12 a20 a21 a22].
  unfold mdet in D; cbn in D.
  set (n0 := a00 * a00 + a10 * a10 + a20 * a20).
  set (n1 := a01 * a01 + a11 * a11 + a21 * a21).
  set (n2 := a02 * a02 + a12 * a12 + a22 * a22).
  set (d12 := a01 * a02 + a11 * a12 + a21 * a22).
  set (d02 := a00 * a02 + a10 * a12 + a20 * a22).
  set (d01 := a00 * a01 + a10 * a11 + a20 * a21).
  assert (P0 : 0 < n0).
  { assert (0 <= n0) by (unfold n0; apply sq3_nonneg). destruct (Req_dec n0 0) as [Z|N]; [|lra]. exfalso. apply D.
    unfold n0 in Z. apply sq3_zero in Z. destruct Z as (Z1 & Z2 & Z3). subst. ring. }
  assert (P1 : 0 < n1).
  { assert (0 <= n1) by (unfold n1; apply sq3_nonneg). destruct (Req_dec n1 0) as [Z|N]; [|lra]. exfalso. apply D.
    unfold n1 in Z. apply sq3_zero in Z. destruct Z as (Z1 & Z2 & Z3). subst. ring. }
  assert (P2 : 0 < n2).
  { assert (0 <= n2) by (unfold n2; apply sq3_nonneg). destruct (Req_dec n2 0) as [Z|N]; [|lra]. exfalso. apply D.
    unfold n2 in Z. apply sq3_zero in Z. destruct Z as (Z1 & Z2 & Z3). subst. ring. }
  (* cross products: |ci x cj|^2 = ni nj - dij^2 > 0 *)
  set (x12 := (a11 * a22 - a21 * a12) * (a11 * a22 - a21 * a12) + (a21 * a02 - a01 * a22) * (a21 * a02 - a01 * a22)
              + (a01 * a12 - a11 * a02) * (a01 * a12 - a11 * a02)).
  set (x02 := (a10 * a22 - a20 * a12) * (a10 * a22 - a20 * a12) + (a20 * a02 - a00 * a22) * (a20 * a02 - a00 * a22)
              + (a00 * a12 - a10 * a02) * (a00 * a12 - a10 * a02)).
  set (x01 := (a10 * a21 - a20 * a11) * (a10 * a21 - a20 * a11) + (a20 * a01 - a00 * a21) * (a20 * a01 - a00 * a21)
              + (a00 * a11 - a10 * a01) * (a00 * a11 - a10 * a01)).
  assert (X12 : 0 < x12).
  { assert (0 <= x12) by (unfold x12; apply sq3_nonneg). destruct (Req_dec x12 0) as [Z|N]; [|lra]. exfalso. apply D.
    unfold x12 in Z. apply sq3_zero in Z. destruct Z as (Z1 & Z2 & Z3). nsatz_R. }
  assert (X02 : 0 < x02).
  { assert (0 <= x02) by (unfold x02; apply sq3_nonneg). destruct (Req_dec x02 0) as [Z|N]; [|lra]. exfalso. apply D.
    unfold x02 in Z. apply sq3_zero in Z. destruct Z as (Z1 & Z2 & Z3). nsatz_R. }
  assert (X01 : 0 < x01).
  { assert (0 <= x01) by (unfold x01; apply sq3_nonneg). destruct (Req_dec x01 0) as [Z|N]; [|lra]. exfalso. apply D.
    unfold x01 in Z. apply sq3_zero in Z. destruct Z as (Z1 & Z2 & Z3). nsatz_R. }
  assert (L12 : n1 * n2 - d12 * d12 = x12) by (unfold n1, n2, d12, x12; ring).
  assert (L02 : n0 * n2 - d02 * d02 = x02) by (unfold n0, n2, d02, x02; ring).
  assert (L01 : n0 * n1 - d01 * d01 = x01) by (unfold n0, n1, d01, x01; ring).
  pose proof (sqrt_pos_of _ P0) as S0. pose proof (sqrt_pos_of _ P1) as S1. pose proof (sqrt_pos_of _ P2) as S2.
  pose proof (sqrt_sqrt n0 (Rlt_le _ _ P0)) as Q0. pose proof (sqrt_sqrt n1 (Rlt_le _ _ P1)) as Q1.
  pose proof (sqrt_sqrt n2 (Rlt_le _ _ P2)) as Q2.
  unfold laue_a_to_cell; cbv zeta; cbn [m00 m01 m02 m10 m11 m12 m20 m21 m22].
  fold n0 n1 n2 d12 d02 d01.
  set (s0 := sqrt n0) in *. set (s1 := sqrt n1) in *. set (s2 := sqrt n2) in *.
  assert (B12 : -1 < d12 / s1 / s2 < 1) by (apply cs_strict with (g := x12); try assumption; rewrite Q1, Q2; exact L12).
  assert (B02 : -1 < d02 / s0 / s2 < 1) by (apply cs_strict with (g := x02); try assumption; rewrite Q0, Q2; exact L02).
  assert (B01 : -1 < d01 / s0 / s1 < 1) by (apply cs_strict with (g := x01); try assumption; rewrite Q0, Q1; exact L01).
  destruct (acos_deg _ B12) as [R12 C12]. destruct (acos_deg _ B02) as [R02 C02]. destruct (acos_deg _ B01) as [R01 C01].
  assert (M : metric (mkV6 s0 s1 s2 (acos (d12 / s1 / s2) * 180 / PI) (acos (d02 / s0 / s2) * 180 / PI) (acos (d01 / s0 / s1) * 180 / PI))
              = mmul (mtrans (mkM3 a00 a01 a02 a10 a11 a12 a20 a21 a22)) (mkM3 a00 a01 a02 a10 a11 a12 a20 a21 a22)).
  { unfold metric, rad, mmul, mtrans; cbn [c0 c1 c2 c3 c4 c5 m00 m01 m02 m10 m11 m12 m20 m21 m22]. rewrite C12, C02, C01.
    f_equal; first [ exact Q0 | exact Q1 | exact Q2
                   | unfold d12, d02, d01; field; split; apply Rgt_not_eq; assumption ]. }
  split; [|exact M].
  unfold valid_cell, gram, rad; cbn [c0 c1 c2 c3 c4 c5]. rewrite C12, C02, C01.
  repeat split; try assumption; try apply R12; try apply R02; try apply R01.
  (* gram = det^2 / (n0 n1 n2) *)
  set (dt := a00 * (a11 * a22 - a12 * a21) - a01 * (a10 * a22 - a12 * a20) + a02 * (a10 * a21 - a11 * a20)) in *.
  assert (DD : 0 < dt * dt) by (destruct (Rtotal_order dt 0) as [Q|[Q|Q]]; [nra | contradiction | nra]).
  match goal with |- 0 < ?e => replace e with (dt * dt / (n0 * n1 * n2)) end.
  - apply Rdiv_lt_0_compat; [exact DD|]. apply Rmult_lt_0_compat; [apply Rmult_lt_0_compat|]; assumption.
  - unfold dt, d12, d02, d01. field_simplify_eq; [| repeat split; lra].
    rewrite <- Q0, <- Q1, <- Q2. unfold n0, n1, n2 in *. clearbody s0 s1 s2. nsatz_R.
Qed.

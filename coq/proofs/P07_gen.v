(* C07 part 2: the summand regenerated from structure.StructureFactor is a term of the general theory; the full double sum *)
From Coq Require Import Reals Lra List Permutation ZArith.
From XV Require Import RealLib Mat3 Cplx Cell Gen_laue Gen_tools Gen_structure P01_laue P01_laue_b P14_cell P01_tools P07.
Import ListNotations.
Open Scope R_scope.

Definition c_of (v : V2) : C := (p0 v, p1 v).
Definition pop (occ multi nsym : R) : R := occ * multi / nsym.

(* weights *)
Definition W_iso (c : V6) (U occ multi nsym : R) (h : V3) (Rm : M3) : R :=
  exp (-8 * PI ^ 2 * U * tools_sintl c h ^ 2) * pop occ multi nsym.
Definition quad (h : V3) (M : M3) : R := vdot h (mvmul M h).
Definition W_ani (c : V6) (adp : V6) (occ multi nsym : R) (h : V3) (Rm : M3) : R :=
  exp (- quad h (mmul Rm (mmul (structure_Uij2betaij adp c) (mtrans Rm)))) * pop occ multi nsym.
Definition W_none (occ multi nsym : R) (h : V3) (Rm : M3) : R := pop occ multi nsym.

Lemma term_eq (w : R) (ph : R) (a b : R) :
  (w * (cos ph * a - sin ph * b), w * (sin ph * a + cos ph * b)) = cscale w (cmul (cis ph) (a, b)).
Proof. apply C_ext; unfold cscale, cmul, cis; cbn [fst snd]; ring. Qed.

Lemma phase_arg h Rm t x :
  2 * PI * (vx h * (m00 Rm * vx x + m01 Rm * vy x + m02 Rm * vz x + vx t) + vy h * (m10 Rm * vx x + m11 Rm * vy x + m12 Rm * vz x + vy t)
            + vz h * (m20 Rm * vx x + m21 Rm * vy x + m22 Rm * vz x + vz t)) = 2 * PI * vdot h (apply_op (Rm, t) x).
Proof. destruct h, Rm, t, x. unfold apply_op, vdot, vadd, mvmul; cbn. ring. Qed.

Lemma sf_uiso_is_term h c Rm t x U occ multi nsym f fp fpp :
  c_of (structure_sf_term_uiso h c Rm t x U occ multi nsym f fp fpp)
  = term x (W_iso c U occ multi nsym) (fun _ => (f + fp, fpp)) h (Rm, t).
Proof.
  unfold structure_sf_term_uiso, c_of, term, phase, W_iso, pop; cbv zeta; cbn [p0 p1 fst snd].
  rewrite phase_arg. rewrite <- term_eq. apply C_ext; cbn [fst snd]; ring.
Qed.

Lemma sf_noadp_is_term h c Rm t x occ multi nsym f fp fpp :
  c_of (structure_sf_term_noadp h c Rm t x occ multi nsym f fp fpp)
  = term x (W_none occ multi nsym) (fun _ => (f + fp, fpp)) h (Rm, t).
Proof.
  unfold structure_sf_term_noadp, c_of, term, phase, W_none, pop; cbv zeta; cbn [p0 p1 fst snd].
  rewrite phase_arg. rewrite <- term_eq. apply C_ext; cbn [fst snd]; ring.
Qed.

Lemma sf_uani_is_term h c Rm t x adp occ multi nsym f fp fpp :
  c_of (structure_sf_term_uani h c Rm t x adp occ multi nsym f fp fpp)
  = term x (W_ani c adp occ multi nsym) (fun _ => (f + fp, fpp)) h (Rm, t).
Proof.
  unfold structure_sf_term_uani, c_of; cbv zeta; cbn [p0 p1].
  set (B := structure_Uij2betaij adp c).
  match goal with |- context [exp (- ?e)] =>
    replace e with (quad h (mmul Rm (mmul B (mtrans Rm))))
      by (destruct h, Rm, B; unfold quad; mcbv; ring) end.
  unfold term, phase, W_ani, pop; cbn [fst snd]. fold B.
  rewrite phase_arg. rewrite <- term_eq. apply C_ext; cbn [fst snd]; ring.
Qed.

(* weight invariance *)
Lemma W_ani_invariant c adp occ multi nsym h Rk Rm :
  W_ani c adp occ multi nsym (rowmul h Rk) Rm = W_ani c adp occ multi nsym h (mmul Rk Rm).
Proof.
  unfold W_ani, quad. f_equal. f_equal. f_equal.
  generalize (structure_Uij2betaij adp c). intros B. destruct h, Rk, Rm, B. unfold rowmul; mcbv. ring.
Qed.
Lemma W_none_invariant occ multi nsym h Rk Rm : W_none occ multi nsym (rowmul h Rk) Rm = W_none occ multi nsym h (mmul Rk Rm).
Proof. reflexivity. Qed.
Lemma W_iso_invariant c U occ multi nsym h Rk Rm : tools_sintl c (rowmul h Rk) = tools_sintl c h ->
  W_iso c U occ multi nsym (rowmul h Rk) Rm = W_iso c U occ multi nsym h (mmul Rk Rm).
Proof. intros H. unfold W_iso. rewrite H. reflexivity. Qed.

(* sin(theta)/lambda is invariant under an operation that preserves the reciprocal metric B'B *)
Lemma sintl_invariant c h Rk : valid_cell c ->
  let Gs := mmul (mtrans (tools_form_b_mat c)) (tools_form_b_mat c) in
  mmul Rk (mmul Gs (mtrans Rk)) = Gs -> tools_sintl c (rowmul h Rk) = tools_sintl c h.
Proof.
  intros Hc Gs HG. rewrite !tools_sintl_norm by exact Hc. f_equal. unfold vnorm. f_equal.
  set (B := tools_form_b_mat c) in *.
  assert (E : forall v, vnorm2 (mvmul B v) = vdot v (mvmul Gs v)).
  { intros v. unfold Gs. destruct B, v. unfold vnorm2, vdot, mvmul, mmul, mtrans; cbn. ring. }
  rewrite !E. rewrite <- HG at 2.
  destruct h, Rk, Gs. unfold rowmul, vdot, mvmul, mmul, mtrans; cbn. ring.
Qed.

(* the same from preservation of the direct metric, R' G R = G (what C04 checks on the tables for the metric basis) *)
Lemma recip_from_direct c Rk : valid_cell c -> mdet Rk <> 0 ->
  mmul (mtrans Rk) (mmul (metric c) Rk) = metric c ->
  let Gs := mmul (mtrans (tools_form_b_mat c)) (tools_form_b_mat c) in
  mmul Rk (mmul Gs (mtrans Rk)) = Gs.
Proof.
  intros Hc HD HG Gs. pose proof (tools_B_recip_metric c Hc) as HB. fold Gs in HB.
  set (G := metric c) in *. set (k := 2 * PI * (2 * PI)) in *.
  assert (Hk : k <> 0) by (unfold k; pose proof PI_RGT_0; nra).
  set (X := mmul Rk (mmul Gs (mtrans Rk))).
  (* (X G) Rk = k Rk *)
  assert (E1 : mmul (mmul X G) Rk = mscale k Rk).
  { unfold X. rewrite !mmul_assoc, HG.
    rewrite HB. destruct Rk; unfold mmul, mscale, mI; cbn; f_equal; ring. }
  assert (E2 : mmul X G = mscale k mI).
  { transitivity (mmul (mmul (mmul X G) Rk) (minv Rk)).
    - rewrite mmul_assoc, minv_r by exact HD. destruct (mmul X G); unfold mmul, mI; cbn; f_equal; ring.
    - rewrite E1. transitivity (mscale k (mmul Rk (minv Rk))).
      + destruct Rk, (minv _); unfold mmul, mscale; cbn; f_equal; ring.
      + rewrite minv_r by exact HD. reflexivity. }
  (* G is invertible: Gs G = k I *)
  assert (DG : mdet G <> 0).
  { intro Z. assert (Q : mdet (mmul Gs G) = mdet (mscale k mI)) by (rewrite HB; reflexivity).
    rewrite mdet_mmul, Z in Q. unfold mscale, mI, mdet in Q; cbn in Q. ring_simplify in Q.
    assert (P3 : k ^ 3 <> 0) by (apply pow_nonzero; exact Hk). lra. }
  transitivity (mmul (mmul X G) (minv G)).
  - rewrite mmul_assoc, minv_r by exact DG. destruct X; unfold mmul, mI; cbn; f_equal; ring.
  - rewrite E2, <- HB. rewrite mmul_assoc, minv_r by exact DG. destruct Gs; unfold mmul, mI; cbn; f_equal; ring.
Qed.

Lemma sintl_metric_invariant c h Rk : valid_cell c -> mdet Rk <> 0 ->
  mmul (mtrans Rk) (mmul (metric c) Rk) = metric c -> tools_sintl c (rowmul h Rk) = tools_sintl c h.
Proof. intros Hc HD HG. apply sintl_invariant; [exact Hc|]. apply recip_from_direct; assumption. Qed.

Lemma sintl_neg c h : valid_cell c -> tools_sintl c (vneg h) = tools_sintl c h.
Proof.
  intros Hc. rewrite !tools_sintl_norm by exact Hc. unfold vnorm.
  assert (E : vnorm2 (mvmul (tools_form_b_mat c) (vneg h)) = vnorm2 (mvmul (tools_form_b_mat c) h))
    by (destruct (tools_form_b_mat c), h; unfold vnorm2, vdot, mvmul, vneg; cbn; ring).
  rewrite E. reflexivity.
Qed.

(* ---- the full structure factor: sum over atoms of the sum over operations (skeleton of the two loops) ----------------- *)
Inductive adp_kind := Uiso (U : R) | Uani (adp : V6) | NoAdp.
(* a_ff: the form factor as a function of sin(theta)/lambda (structure.FormFactor(atomtype, stl)) *)
Record atom := mkAtom { a_pos : V3; a_adp : adp_kind; a_occ : R; a_multi : R; a_ff : R -> R; a_fp : R; a_fpp : R }.

Definition gen_term (c : V6) (nsym : R) (a : atom) (h : V3) (o : sop) : C :=
  let f := a_ff a (tools_sintl c h) in
  match a_adp a with
  | Uiso U => c_of (structure_sf_term_uiso h c (fst o) (snd o) (a_pos a) U (a_occ a) (a_multi a) nsym f (a_fp a) (a_fpp a))
  | Uani adp => c_of (structure_sf_term_uani h c (fst o) (snd o) (a_pos a) adp (a_occ a) (a_multi a) nsym f (a_fp a) (a_fpp a))
  | NoAdp => c_of (structure_sf_term_noadp h c (fst o) (snd o) (a_pos a) (a_occ a) (a_multi a) nsym f (a_fp a) (a_fpp a))
  end.
Definition SF (c : V6) (ops : list sop) (atoms : list atom) (h : V3) : C :=
  csum (map (fun a => csum (map (gen_term c (INR (length ops)) a h) ops)) atoms).

Definition W_of (c : V6) (nsym : R) (a : atom) : V3 -> M3 -> R :=
  match a_adp a with
  | Uiso U => W_iso c U (a_occ a) (a_multi a) nsym
  | Uani adp => W_ani c adp (a_occ a) (a_multi a) nsym
  | NoAdp => W_none (a_occ a) (a_multi a) nsym
  end.
Definition FF_of (c : V6) (a : atom) (h : V3) : C := (a_ff a (tools_sintl c h) + a_fp a, a_fpp a).

Lemma atom_sum_is_SFatom c ops a h :
  csum (map (gen_term c (INR (length ops)) a h) ops) = SFatom (a_pos a) (W_of c (INR (length ops)) a) (FF_of c a) ops h.
Proof.
  unfold SFatom. f_equal. apply map_ext. intros [Rm t]. unfold gen_term, W_of, FF_of. cbv zeta. cbn [fst snd].
  destruct (a_adp a) as [U|adp|].
  - rewrite sf_uiso_is_term. reflexivity.
  - rewrite sf_uani_is_term. reflexivity.
  - rewrite sf_noadp_is_term. reflexivity.
Qed.

Lemma W_of_invariant c nsym a h Rk Rm : tools_sintl c (rowmul h Rk) = tools_sintl c h ->
  W_of c nsym a (rowmul h Rk) Rm = W_of c nsym a h (mmul Rk Rm).
Proof.
  intros Hs. unfold W_of. destruct (a_adp a) as [U|adp|].
  - apply W_iso_invariant; exact Hs.
  - apply W_ani_invariant.
  - apply W_none_invariant.
Qed.

Theorem SF_phase_shift c ops atoms k h : int_vec h -> left_closed k ops ->
  tools_sintl c (rowmul h (fst k)) = tools_sintl c h ->
  SF c ops atoms (rowmul h (fst k)) = cmul (cis (- (2 * PI * vdot h (snd k)))) (SF c ops atoms h).
Proof.
  intros Hh Hk Hs. unfold SF. rewrite <- csum_map_cmul. f_equal.
  apply map_ext. intros a. rewrite !atom_sum_is_SFatom.
  apply phase_shift; try assumption.
  - intros Rm. apply W_of_invariant; exact Hs.
  - unfold FF_of. rewrite Hs. reflexivity.
Qed.

Corollary SF_equiv_modulus c ops atoms k h : int_vec h -> left_closed k ops ->
  tools_sintl c (rowmul h (fst k)) = tools_sintl c h ->
  cnorm2 (SF c ops atoms (rowmul h (fst k))) = cnorm2 (SF c ops atoms h).
Proof. intros. rewrite SF_phase_shift by assumption. rewrite cnorm2_cmul, cis_norm. ring. Qed.

Lemma unit_fix_zero (cc F : C) : cnorm2 cc = 1 -> cc <> c1 -> F = cmul cc F -> F = c0.
Proof.
  intros N Hne E. destruct F as [fr fi], cc as [cr ci]. unfold cmul, cnorm2, c1, c0 in *; cbn [fst snd] in *.
  injection E as E1 E2.
  assert (cr <> 1).
  { intro Q. subst cr. assert (Z : ci * ci = 0) by lra. apply Rmult_integral in Z. assert (ci = 0) by (destruct Z; assumption). subst ci. apply Hne. reflexivity. }
  assert (D0 : 0 < (1 - cr) * (1 - cr)) by (destruct (Rtotal_order cr 1) as [Q|[Q|Q]]; [nra | contradiction | nra]).
  assert (D : 0 < (1 - cr) * (1 - cr) + ci * ci) by (pose proof (Rle_0_sqr ci) as Sq; unfold Rsqr in Sq; lra).
  assert (A : ((1 - cr) * (1 - cr) + ci * ci) * fr = 0) by (clear - E1 E2; nsatz).
  assert (B : ((1 - cr) * (1 - cr) + ci * ci) * fi = 0) by (clear - E1 E2; nsatz).
  apply Rmult_integral in A. apply Rmult_integral in B.
  assert (fr = 0) by (destruct A; [lra | assumption]). assert (fi = 0) by (destruct B; [lra | assumption]). subst. reflexivity.
Qed.

Corollary SF_extinct c ops atoms k h : int_vec h -> left_closed k ops ->
  rowmul h (fst k) = h -> cis (- (2 * PI * vdot h (snd k))) <> c1 -> SF c ops atoms h = c0.
Proof.
  intros Hh Hk Hfix Hne. apply (unit_fix_zero (cis (- (2 * PI * vdot h (snd k))))); [apply cis_norm | exact Hne |].
  rewrite <- Hfix at 1. apply SF_phase_shift; try assumption. rewrite Hfix; reflexivity.
Qed.

(* the condition "h.t not an integer" in the usual form: h.t = z + r with 0 < r < 1 *)
Lemma cis_not_one z r : 0 < r < 1 -> cis (- (2 * PI * (IZR z + r))) <> c1.
Proof.
  intros Hr E. assert (E' : cis (2 * PI * r) = c1).
  { replace (2 * PI * r) with (- (- (2 * PI * (IZR z + r))) + - (2 * PI * IZR z)) by ring.
    rewrite cis_add, (cis_neg (- (2 * PI * (IZR z + r)))), E, cis_neg, cis_2PI_Z. apply C_ext; unfold cmul, cconj, c1; cbn [fst snd]; ring. }
  unfold cis, c1 in E'. injection E' as Ec Es. pose proof PI_RGT_0 as P.
  assert (Hc : cos (2 * PI * r) < 1).
  { destruct (Rlt_le_dec (2 * PI * r) PI) as [L|L].
    - rewrite <- cos_0. apply cos_decreasing_1; nra.
    - assert (cos (2 * PI * r) < cos (2 * PI)) by (apply cos_increasing_1; nra). rewrite cos_2PI in H. exact H. }
  lra.
Qed.

(* Friedel's law: without dispersion (f' = f'' = 0 for every atom) F(-h) is the complex conjugate of F(h) *)
Lemma quad_neg h M : quad (vneg h) M = quad h M.
Proof. destruct h, M; unfold quad, vdot, mvmul, vneg; cbn; ring. Qed.

Theorem SF_friedel c ops atoms h : valid_cell c -> (forall a, In a atoms -> a_fp a = 0 /\ a_fpp a = 0) ->
  SF c ops atoms (vneg h) = cconj (SF c ops atoms h).
Proof.
  intros Hc H0. unfold SF. rewrite <- csum_map_conj. f_equal. apply map_ext_in. intros a Ha.
  destruct (H0 a Ha) as [Hp Hpp]. rewrite !atom_sum_is_SFatom.
  assert (EF : forall g, FF_of c a g = (a_ff a (tools_sintl c g), 0)).
  { intros g. unfold FF_of. rewrite Hp, Hpp. f_equal. ring. }
  unfold SFatom. rewrite <- csum_map_conj. f_equal. apply map_ext. intros o. unfold term, phase.
  rewrite !EF, sintl_neg by exact Hc.
  assert (EW : W_of c (INR (length ops)) a (vneg h) (fst o) = W_of c (INR (length ops)) a h (fst o)).
  { unfold W_of. destruct (a_adp a) as [U|adp|]; unfold W_iso, W_ani, W_none.
    - rewrite sintl_neg by exact Hc. reflexivity.
    - rewrite quad_neg. reflexivity.
    - reflexivity. }
  rewrite EW.
  replace (2 * PI * vdot (vneg h) (apply_op o (a_pos a))) with (- (2 * PI * vdot h (apply_op o (a_pos a))))
    by (destruct h, (apply_op o (a_pos a)); unfold vdot, vneg; cbn; ring).
  rewrite cis_neg. apply C_ext; unfold cscale, cmul, cconj; cbn [fst snd]; ring.
Qed.

(* the dispersion-free path of the code (disper = None) is the general summand with f' = f'' = 0 *)
Lemma sf_nodisp_is_uiso h c Rm t x U occ multi nsym f :
  structure_sf_term_nodisp h c Rm t x U occ multi nsym f = structure_sf_term_uiso h c Rm t x U occ multi nsym f 0 0.
Proof. unfold structure_sf_term_nodisp, structure_sf_term_uiso; cbv zeta. f_equal; ring. Qed.

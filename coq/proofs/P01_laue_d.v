From Coq Require Import Reals Lra Psatz.
From XV Require Import RealLib Mat3 Atan2 Cell Gen_laue P01_laue P01_laue_c.
Open Scope R_scope.

Lemma acos_deg x : -1 < x < 1 ->
  0 < acos x * 180 / PI < 180 /\ cos (acos x * 180 / PI * PI / 180) = x.
Proof.
  intros Hx. pose proof PI_RGT_0 as P. pose proof (acos_bound x) as B.
  assert (E : acos x * 180 / PI * PI / 180 = acos x) by (field; lra).
  rewrite E. split; [|apply cos_acos; lra].
  assert (N0 : acos x <> 0).
  { intro Z. pose proof (cos_acos x ltac:(lra)) as C. rewrite Z, cos_0 in C. lra. }
  assert (N1 : acos x <> PI).
  { intro Z. pose proof (cos_acos x ltac:(lra)) as C. rewrite Z, cos_PI in C. lra. }
  split.
  - apply Rdiv_lt_0_compat; [|lra]. nra.
  - apply (Rmult_lt_reg_r PI); [lra|]. unfold Rdiv. rewrite Rmult_assoc, Rinv_l, Rmult_1_r by lra. nra.
Qed.

(* |x| < 1 from 1 - x^2 = g / d^2 with g, d > 0 *)
Lemma ratio_lt_1 n s t g : 0 < s -> 0 < t -> 0 < g -> s * s * (t * t) - n * n = g ->
  -1 < n / (s * t) < 1.
Proof.
  intros Hs Ht Hg E. assert (Hst : 0 < s * t) by nra.
  split.
  - apply (Rmult_lt_reg_r (s * t)); [exact Hst|]. unfold Rdiv. rewrite Rmult_assoc, Rinv_l, Rmult_1_r by lra. nra.
  - apply (Rmult_lt_reg_r (s * t)); [exact Hst|]. unfold Rdiv. rewrite Rmult_assoc, Rinv_l, Rmult_1_r by lra. nra.
Qed.

Section Recip.
Variable c : V6.
Hypothesis H : valid_cell c.

Let a := c0 c. Let b := c1 c. Let cc := c2 c.
Let ca := cos (rad (c3 c)). Let cb := cos (rad (c4 c)). Let cg := cos (rad (c5 c)).
Let sa := sin (rad (c3 c)). Let sb := sin (rad (c4 c)). Let sg := sin (rad (c5 c)).

Lemma recip_facts :
  let r := laue_cell_invert c in
  let V := laue_cell_volume c in
  c0 r = b * cc * sa / V /\ c1 r = a * cc * sb / V /\ c2 r = a * b * sg / V /\
  (0 < c3 r < 180 /\ cos (rad (c3 r)) = (cb * cg - ca) / (sb * sg)) /\
  (0 < c4 r < 180 /\ cos (rad (c4 r)) = (ca * cg - cb) / (sa * sg)) /\
  (0 < c5 r < 180 /\ cos (rad (c5 r)) = (ca * cb - cg) / (sa * sb)).
Proof.
  subst a b cc ca cb cg sa sb sg. destruct H as (Ha & Hb & Hc & Hal & Hbe & Hga & Hg).
  pose proof (sin_deg_pos _ Hal) as Hsal. pose proof (sin_deg_pos _ Hbe) as Hsbe.
  pose proof (sin_deg_pos _ Hga) as Hsga.
  unfold gram, rad in *. unfold laue_cell_invert; cbv zeta; cbn [c0 c1 c2 c3 c4 c5].
  pose proof (sc1 (c3 c * PI / 180)) as T1. pose proof (sc1 (c4 c * PI / 180)) as T2.
  pose proof (sc1 (c5 c * PI / 180)) as T3.
  repeat split; try reflexivity.
  all: try (apply acos_deg; apply ratio_lt_1 with (g := (1 - cos (c3 c * PI / 180) * cos (c3 c * PI / 180) - cos (c4 c * PI / 180) * cos (c4 c * PI / 180) - cos (c5 c * PI / 180) * cos (c5 c * PI / 180) + 2 * cos (c3 c * PI / 180) * cos (c4 c * PI / 180) * cos (c5 c * PI / 180))); try assumption; nsatz_R).
Qed.
End Recip.

(* C15 on the regenerated tables *)
From Coq Require Import ZArith List Bool.
From XV Require Import SGroup Mult Tab_sg_all P04_all P15.
Import ListNotations.

Lemma all_tight : forallb trans_tight all_settings = true.
Proof. vm_compute. reflexivity. Qed.

Lemma all_have_ops : forallb (fun s => match ops_of (sg_rot s) (sg_trans s) with Some _ => true | None => false end) all_settings = true.
Proof. vm_compute. reflexivity. Qed.

Theorem multiplicity_all s p : In s all_settings ->
  exists ops, ops_of (sg_rot s) (sg_trans s) = Some ops /\ model_mult s p = Some (orbit_size ops p).
Proof.
  intros H. pose proof (proj1 (forallb_forall _ _) all_have_ops s H) as HO. pose proof (proj1 (forallb_forall _ _) all_tight s H) as HT.
  cbv beta in HO, HT. destruct (ops_of (sg_rot s) (sg_trans s)) as [ops|] eqn:E; [|discriminate HO].
  exists ops. split; [reflexivity|]. apply mult_is_orbit_size; assumption.
Qed.

(* C13, known finding F7 (open): the closure of the theorems in props/C13_findings.v.  Nothing outside that file depends on this one, so a
   repair of tools.ubi_to_u_and_eps breaks only obligations that exist because of the finding. *)
From Coq Require Import Reals Lra.
From XV Require Import RealLib Mat3 Atan2 Cell Gen_laue Gen_tools P01_laue P01_laue_b P01_laue_c P01_laue_d P01_laue_e P02_laue P14_cell P01_tools
  P13_laue P13_cellof P13_ubi P13_old P13_tools P14_rest P13_tools_old.
Open Scope R_scope.

Lemma tools_ubi_to_u_and_eps_eq A c :
  tools_ubi_to_u_and_eps A c =
  (tools_ubi_to_u A, tools_b_to_epsilon (minv (mmul A (tools_ubi_to_u A))) c).
Proof.
  unfold tools_ubi_to_u_and_eps, tools_ubi_to_u; cbv zeta. reflexivity.
Qed.

(* F7, formally: what tools.ubi_to_u_and_eps returns on a UBI built in tools' own convention, 2 pi (U B_eps)^-1 with B_eps = tools.epsilon_to_b.
   U is recovered; the strain comes back as 2 pi (eps + I) - I, never eps. *)
From XV Require Import P14_ubi.
Definition eps_scaled (k : R) (e : V6) : V6 :=
  mkV6 (k * (c0 e + 1) - 1) (k * c1 e) (k * c2 e) (k * (c3 e + 1) - 1) (k * c4 e) (k * (c5 e + 1) - 1).
Lemma sym_minus_I_scale k M : sym_minus_I (mscale k M) = eps_scaled k (sym_minus_I M).
Proof. destruct M. unfold sym_minus_I, eps_scaled, mscale; cbn. f_equal; field. Qed.

Lemma tools_ubi_u_eps_actual U eps c : is_rot U -> valid_cell c -> strain_small eps ->
  tools_ubi_to_u_and_eps (mscale (2 * PI) (minv (mmul U (tools_epsilon_to_b eps c)))) c = (U, eps_scaled (2 * PI) eps).
Proof.
  intros HU Hc Hs. pose proof (laue_strained_b_posdiag eps c Hc Hs) as HB.
  assert (Hok : strain_ok eps) by (destruct Hs as (S0 & S1 & S2); repeat split; lra).
  rewrite tl_epsilon_to_b by assumption.
  set (B := laue_epsilon_to_b eps c) in *.
  assert (DB : mdet B <> 0) by (pose proof (upper_posdiag_det B HB); lra).
  assert (DU : mdet U <> 0) by (apply rot_det_nz; exact HU).
  assert (DUB : mdet (mmul U B) <> 0) by (rewrite mdet_mmul; apply Rmult_integral_contrapositive_currified; assumption).
  (* the tools-convention UBI is the laue UBI *)
  assert (EA : mscale (2 * PI) (minv (mmul U (mscale (2 * PI) B))) = minv (mmul U B)).
  { rewrite mmul_mscale_r, minv_mscale by (first [apply two_pi_nz | exact DUB]).
    rewrite mscale_mscale. replace (2 * PI * / (2 * PI)) with 1 by (field; pose proof PI_RGT_0; lra). apply mscale_1. }
  rewrite EA. set (A := minv (mmul U B)).
  assert (VA : valid_cell (laue_ubi_to_cell A)).
  { rewrite laue_ubi_to_cell_eq. apply laue_a_to_cell_valid. rewrite mdet_mtrans. unfold A. rewrite mdet_minv by exact DUB. apply Rinv_neq_0_compat; exact DUB. }
  assert (EU : laue_ubi_to_u A = U) by (unfold A; apply laue_ubi_to_u_general; assumption).
  assert (EM : minv (mmul A U) = B).
  { unfold A. rewrite (minv_mmul U B) by assumption. rewrite mmul_assoc, minv_l, mmul_I_r by exact DU. apply minv_invol; exact DB. }
  rewrite tools_ubi_to_u_and_eps_eq, (tl_ubi_to_u A VA), EU, EM. f_equal.
  rewrite tools_b_to_epsilon_def, tools_b_scaled by exact Hc. rewrite mmul_mscale_l, sym_minus_I_scale.
  rewrite <- laue_b_to_epsilon_def. unfold B. rewrite laue_eps_roundtrip by assumption. reflexivity.
Qed.

Lemma eps_scaled_differs eps : strain_small eps -> eps_scaled (2 * PI) eps <> eps.
Proof.
  intros (S0 & _ & _) E. destruct eps as [e11 e12 e13 e22 e23 e33]. unfold eps_scaled in E; cbn in *. injection E as E0 _ _ _ _ _.
  pose proof PI_RGT_0 as P. assert (3 < PI) by (pose proof PI2_3_2; unfold PI2 in *; lra). nra.
Qed.

From Coq Require Import Reals Lra Psatz.
From XV Require Import RealLib Mat3 Atan2 Cell Gen_laue P01_laue.
Open Scope R_scope.

Lemma sqrt_scale_sq w N Q : 0 < w -> 0 <= N -> Q = w * w * N -> sqrt Q / (2 * w) = sqrt N / 2.
Proof.
  intros Hw HN ->. rewrite sqrt_mult by nra. rewrite sqrt_square by lra. field. lra.
Qed.

Lemma laue_sintl_norm c h : valid_cell c ->
  laue_sintl c h = vnorm (mvmul (laue_form_b_mat c) h) / 2.
Proof.
  intros H. destruct h as [hh kk ll]. cell_setup c H. gen_unfold. unfold vnorm.
  match goal with |- _ / (2 * sqrt ?g) = _ =>
    match type of Hg with 0 < ?g' => replace g with g' by ring end end.
  gram_setup.
  repeat match goal with
         | |- context [cos ?t] => trig_abstract_one t
         | |- context [sin ?t] => trig_abstract_one t
         end.
  apply sqrt_scale_sq; [assumption | apply vnorm2_nonneg |].
  munfold. field_nsatz.
Qed.

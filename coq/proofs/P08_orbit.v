(* C08 part 1: sites of the unit cell.  The images of a position under an operation list that is a group modulo lattice
   translations fall into classes (one per distinct site of the cell) of one common size (orbit-stabiliser). *)
From Coq Require Import Reals ZArith List Bool Permutation Lia Lra.
From XV Require Import RealLib Mat3 Cplx SGroup Orbit P07 P07_tab.
Import ListNotations.
Open Scope R_scope.

(* --- fractional parts ---------------------------------------------------------------------------------------------- *)
Lemma up_shift r z : up (r + IZR z) = (up r + z)%Z.
Proof.
  symmetry. apply tech_up; destruct (archimed r) as [A1 A2]; rewrite plus_IZR; lra.
Qed.
Lemma frac_shift r z : frac_part (r + IZR z) = frac_part r.
Proof.
  unfold frac_part, Int_part. rewrite up_shift. rewrite !minus_IZR, plus_IZR. ring.
Qed.
Lemma frac_eq_iff a b : frac_part a = frac_part b <-> exists z : Z, a = b + IZR z.
Proof.
  split.
  - unfold frac_part. intros H. exists (Int_part a - Int_part b)%Z. rewrite minus_IZR. lra.
  - intros [z ->]. apply frac_shift.
Qed.

Definition fr3 (v : V3) : V3 := mkV3 (frac_part (vx v)) (frac_part (vy v)) (frac_part (vz v)).
Definition latt_eq (u v : V3) : Prop := exists L, int_vec L /\ u = vadd v L.

Lemma fr3_eq_iff u v : fr3 u = fr3 v <-> latt_eq u v.
Proof.
  destruct u as [a b c], v as [a' b' c']. unfold fr3, latt_eq; cbn [vx vy vz]. split.
  - intros H. injection H as H1 H2 H3. apply frac_eq_iff in H1, H2, H3.
    destruct H1 as [z1 ->], H2 as [z2 ->], H3 as [z3 ->].
    exists (mkV3 (IZR z1) (IZR z2) (IZR z3)). split; [eexists _, _, _; reflexivity | reflexivity].
  - intros (L & (z1 & z2 & z3 & ->) & E). unfold vadd in E; cbn in E. injection E as -> -> ->.
    rewrite !frac_shift. reflexivity.
Qed.

Lemma latt_refl u : latt_eq u u.
Proof. exists (mkV3 (IZR 0) (IZR 0) (IZR 0)). split; [eexists _, _, _; reflexivity|]. destruct u; unfold vadd; cbn. f_equal; ring. Qed.
Lemma latt_sym u v : latt_eq u v -> latt_eq v u.
Proof. intros H. apply fr3_eq_iff. symmetry. apply fr3_eq_iff. exact H. Qed.
Lemma latt_trans u v w : latt_eq u v -> latt_eq v w -> latt_eq u w.
Proof. intros H1 H2. apply fr3_eq_iff. transitivity (fr3 v); apply fr3_eq_iff; assumption. Qed.

(* decidable equality of keys (classical reals) *)
Definition Reqb (a b : R) : bool := if Req_EM_T a b then true else false.
Definition V3eqb (u v : V3) : bool := Reqb (vx u) (vx v) && Reqb (vy u) (vy v) && Reqb (vz u) (vz v).
Lemma V3eqb_spec u v : V3eqb u v = true <-> u = v.
Proof.
  destruct u as [a b c], v as [a' b' c']. unfold V3eqb, Reqb; cbn [vx vy vz].
  destruct (Req_EM_T a a'), (Req_EM_T b b'), (Req_EM_T c c'); cbn; split; intros H; try discriminate; try (subst; reflexivity);
    injection H as -> -> ->; contradiction.
Qed.

(* --- integer unimodular matrices ------------------------------------------------------------------------------------ *)
Definition unimod (Rm : M3) : Prop := exists A : mat, Rm = matR A /\ (mdetZ A = 1 \/ mdetZ A = -1)%Z.

Lemma int_mat_vec A L : int_vec L -> int_vec (mvmul (matR A) L).
Proof.
  intros (x & y & z & ->). destruct A as [[[[[[[[a b] c] d] e] f] g] h] i].
  exists (a * x + b * y + c * z)%Z, (d * x + e * y + f * z)%Z, (g * x + h * y + i * z)%Z.
  unfold mvmul, matR; cbn. rewrite !plus_IZR, !mult_IZR. reflexivity.
Qed.

Lemma unimod_det Rm : unimod Rm -> mdet Rm = 1 \/ mdet Rm = -1.
Proof. intros (A & -> & [H|H]); rewrite matR_mdet, H; [left|right]; reflexivity. Qed.

Lemma unimod_inv Rm v : unimod Rm -> int_vec (mvmul Rm v) -> int_vec v.
Proof.
  intros HU Hw. pose proof (unimod_det Rm HU) as HD. destruct HU as (A & -> & _).
  assert (Dnz : mdet (matR A) <> 0) by (destruct HD; lra).
  assert (E : v = mvmul (minv (matR A)) (mvmul (matR A) v)).
  { rewrite <- mvmul_mmul, minv_l by exact Dnz. destruct v; unfold mvmul, mI; cbn. f_equal; ring. }
  destruct Hw as (x & y & z & Hw). rewrite Hw in E. rewrite E. clear E Hw.
  destruct A as [[[[[[[[a b] c] d] e] f] g] h] i]. unfold minv.
  set (D := mdet _) in *. clearbody D.
  destruct HD as [-> | ->].
  - exists ((e * i - f * h) * x + (c * h - b * i) * y + (b * f - c * e) * z)%Z,
           ((f * g - d * i) * x + (a * i - c * g) * y + (c * d - a * f) * z)%Z,
           ((d * h - e * g) * x + (b * g - a * h) * y + (a * e - b * d) * z)%Z.
    unfold mscale, madj, mvmul, matR; cbn. rewrite !plus_IZR, !mult_IZR, !minus_IZR, !mult_IZR. f_equal; field.
  - exists (- ((e * i - f * h) * x + (c * h - b * i) * y + (b * f - c * e) * z))%Z,
           (- ((f * g - d * i) * x + (a * i - c * g) * y + (c * d - a * f) * z))%Z,
           (- ((d * h - e * g) * x + (b * g - a * h) * y + (a * e - b * d) * z))%Z.
    unfold mscale, madj, mvmul, matR; cbn. rewrite !opp_IZR, !plus_IZR, !mult_IZR, !minus_IZR, !mult_IZR. f_equal; field.
Qed.

(* --- the classes ------------------------------------------------------------------------------------------------------ *)
Section Orbit.
Variable x : V3.
Definition sitekey (o : sop) : V3 := fr3 (apply_op o x).
Definition ccnt (k : V3) (ops : list sop) : nat := cnt sop V3 sitekey V3eqb k ops.
Definition cell_sites (ops : list sop) : list sop := dd sop V3 sitekey V3eqb ops.    (* one operation per distinct site *)

Lemma sitekey_iff p q : sitekey p = sitekey q <-> latt_eq (apply_op p x) (apply_op q x).
Proof. apply fr3_eq_iff. Qed.

Lemma apply_latt k u v : unimod (fst k) -> latt_eq u v -> latt_eq (apply_op k u) (apply_op k v).
Proof.
  intros (A & HA & _) (L & HL & ->). exists (mvmul (fst k) L). split; [rewrite HA; apply int_mat_vec; exact HL|].
  unfold apply_op. destruct (fst k), v, L, (snd k). unfold vadd, mvmul; cbn. f_equal; ring.
Qed.
Lemma apply_latt_inv k u v : unimod (fst k) -> latt_eq (apply_op k u) (apply_op k v) -> latt_eq u v.
Proof.
  intros HU (L & HL & E).
  assert (HW : int_vec (mvmul (fst k) (vsub u v))).
  { replace (mvmul (fst k) (vsub u v)) with L; [exact HL|].
    unfold apply_op in E. destruct (fst k), u, v, L, (snd k). unfold vadd, vsub, mvmul in *; cbn in *. injection E as E1 E2 E3. f_equal; lra. }
  apply unimod_inv in HW; [|exact HU]. exists (vsub u v). split; [exact HW|]. destruct u, v; unfold vadd, vsub; cbn. f_equal; ring.
Qed.

Lemma rel_image k p p' : mmul (fst k) (fst p) = fst p' ->
  (exists L, int_vec L /\ vadd (mvmul (fst k) (snd p)) (snd k) = vadd (snd p') L) ->
  latt_eq (apply_op k (apply_op p x)) (apply_op p' x).
Proof.
  intros HR (L & HL & Ht). exists L. split; [exact HL|]. unfold apply_op. rewrite <- HR.
  destruct (fst k), (fst p), (snd p), (snd k), (snd p'), L, x. unfold vadd, mvmul, mmul in *; cbn in *. injection Ht as T1 T2 T3. f_equal; lra.
Qed.

Lemma forall2_cnt (a b : V3) l l' : Forall2 (fun p p' => sitekey p = a <-> sitekey p' = b) l l' -> ccnt a l = ccnt b l'.
Proof.
  induction 1 as [|p p' l l' Hp _ IH]; [reflexivity|]. unfold ccnt in *. rewrite !cnt_cons, IH. f_equal.
  destruct (V3eqb (sitekey p) a) eqn:E1, (V3eqb (sitekey p') b) eqn:E2; try reflexivity.
  - apply V3eqb_spec in E1. apply Hp in E1. apply V3eqb_spec in E1. congruence.
  - apply V3eqb_spec in E2. apply Hp in E2. apply V3eqb_spec in E2. congruence.
Qed.

(* identity modulo a lattice translation *)
Definition is_ident (e : sop) : Prop := fst e = mI /\ int_vec (snd e).
Lemma ident_site e : is_ident e -> latt_eq (apply_op e x) x.
Proof.
  intros [HI HL]. exists (snd e). split; [exact HL|]. unfold apply_op. rewrite HI. destruct x, (snd e); unfold vadd, mvmul, mI; cbn. f_equal; ring.
Qed.

Theorem class_size ops e k : In e ops -> is_ident e -> In k ops -> unimod (fst k) -> left_closed k ops ->
  ccnt (sitekey k) ops = ccnt (sitekey e) ops.
Proof.
  intros He Hid Hk HU (ops' & HP & HF).
  symmetry. unfold ccnt. rewrite <- (cnt_perm sop V3 sitekey V3eqb (sitekey k) _ _ HP). apply forall2_cnt.
  clear HP He Hk. induction HF as [|p p' l l' [HR HL] _ IH]; constructor; [|exact IH].
  pose proof (rel_image k p p' HR HL) as Him. pose proof (ident_site e Hid) as Hex.
  rewrite !sitekey_iff. split; intros H.
  - (* p maps x to the site of x: p' maps it to the site of k x *)
    apply latt_trans with (apply_op k (apply_op p x)); [apply latt_sym; exact Him|].
    apply apply_latt; [exact HU|]. apply latt_trans with (apply_op e x); [exact H | exact Hex].
  - apply latt_trans with x; [|apply latt_sym; exact Hex].
    apply (apply_latt_inv k); [exact HU|]. apply latt_trans with (apply_op p' x); assumption.
Qed.

(* all classes have the size of the stabiliser class *)
Definition group_like (ops : list sop) : Prop :=
  (exists e, In e ops /\ is_ident e) /\ forall k, In k ops -> unimod (fst k) /\ left_closed k ops.

Corollary uniform_classes ops : group_like ops -> exists m, forall p, In p ops -> ccnt (sitekey p) ops = m.
Proof.
  intros [(e & He & Hid) Hall]. exists (ccnt (sitekey e) ops). intros p Hp. destruct (Hall p Hp) as [HU HC].
  apply (class_size ops e p); assumption.
Qed.
End Orbit.

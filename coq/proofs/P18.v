(* C18: what reduce_cell returns, algebraically.  reduce_cell stores three lattice vectors v_i = A n_i (n_i integer) as the ROWS of a matrix M
   and returns a_to_cell(M), which takes the COLUMNS of its argument as basis vectors. *)
From Coq Require Import Reals Lra Psatz.
From XV Require Import RealLib Mat3 Atan2 Cell Gen_laue Gen_tools P01_laue P01_laue_b P01_laue_c P01_laue_d P01_laue_e P14_cell P13_cellof.
Open Scope R_scope.

(* rows of M are A n_i : M = (A N)' where the columns of N are the integer index triples *)
Definition rows_of (A N : M3) : M3 := mtrans (mmul A N).

(* the metric of the returned cell is M'M (basis = columns of M) ... *)
Theorem reduce_metric_actual A N : mdet (rows_of A N) <> 0 ->
  valid_cell (laue_a_to_cell (rows_of A N)) /\
  metric (laue_a_to_cell (rows_of A N)) = mmul (mtrans (rows_of A N)) (rows_of A N).
Proof. intros H. apply laue_a_to_cell_valid; exact H. Qed.

(* ... whereas the lattice spanned by the selected vectors has metric M M' = N' (A'A) N : the input metric changed by the integer matrix N *)
Theorem selected_basis_metric A N : mmul (rows_of A N) (mtrans (rows_of A N)) = mmul (mtrans N) (mmul (mmul (mtrans A) A) N).
Proof. unfold rows_of. rewrite mtrans_invol, mtrans_mmul, !mmul_assoc. reflexivity. Qed.

(* both have the same determinant: the returned cell has volume |det N| times the input volume (same volume iff N is unimodular) *)
Theorem reduce_volume A N :
  mdet (mmul (mtrans (rows_of A N)) (rows_of A N)) = (mdet N * mdet N) * mdet (mmul (mtrans A) A).
Proof. unfold rows_of. rewrite !mdet_mmul, !mdet_mtrans, !mdet_mmul. ring. Qed.

(* the two metrics coincide when M is symmetric or, more generally, normal; in general they differ: a rational witness *)
Definition Mw : M3 := mkM3 1 1 0 0 1 0 0 0 1.
Theorem rows_vs_columns_differ : mmul (mtrans Mw) Mw <> mmul Mw (mtrans Mw).
Proof. unfold Mw, mmul, mtrans; cbn. intro H. injection H as H0 _. lra. Qed.

Lemma tl_reduce_a_to_cell M : tools_a_to_cell M = laue_a_to_cell M.
Proof. reflexivity. Qed.

(* C13 for xfab.tools: same proofs as P13_laue on the generated tools definitions (B0 = tools_form_b_mat) *)
From Coq Require Import Reals Lra Psatz.
From XV Require Import RealLib Mat3 Atan2 Cell Gen_laue Gen_tools P01_laue P01_laue_b P01_laue_c P01_laue_d P01_laue_e P14_cell P01_tools P02_laue P13_laue.
Open Scope R_scope.

Lemma tools_b_to_epsilon_def B c : tools_b_to_epsilon B c = sym_minus_I (mmul (tools_form_b_mat c) (minv B)).
Proof.
  unfold tools_b_to_epsilon, sym_minus_I; cbv zeta.
  set (B0 := tools_form_b_mat c). set (Bi := minv B).
  destruct B0 as [a b cc d e f g h i], Bi as [a' b' c' d' e' f' g' h' i']. unfold mmul; cbn. f_equal; field.
Qed.

Lemma tools_epsilon_to_b_def eps c : tools_epsilon_to_b eps c = minv (Tmat (tools_form_b_mat c) eps).
Proof. reflexivity. Qed.

Lemma tools_eps_roundtrip eps c : valid_cell c -> strain_ok eps ->
  tools_b_to_epsilon (tools_epsilon_to_b eps c) c = eps.
Proof.
  intros Hc Hs. pose proof (tools_B_upper_posdiag c Hc) as HB.
  rewrite tools_b_to_epsilon_def, tools_epsilon_to_b_def, minv_invol by (apply Tmat_det; assumption).
  apply sym_B0_T; exact HB.
Qed.

Lemma tools_zero_strain c : valid_cell c -> tools_epsilon_to_b (mkV6 0 0 0 0 0 0) c = tools_form_b_mat c.
Proof.
  intros Hc. pose proof (tools_B_upper_posdiag c Hc) as HB. rewrite tools_epsilon_to_b_def.
  symmetry. apply minv_unique_l.
  set (B0 := tools_form_b_mat c) in *. destruct HB as [[U1 [U2 U3]] [P0 [P1 P2]]].
  destruct B0 as [a b cc d e f g h i]. unfold Tmat, mmul, mI; cbn in *. subst. f_equal; field; repeat split; lra.
Qed.

Lemma tools_b_roundtrip B c : valid_cell c -> upper B -> mdet B <> 0 ->
  tools_epsilon_to_b (tools_b_to_epsilon B c) c = B.
Proof.
  intros Hc HU HD. pose proof (tools_B_upper_posdiag c Hc) as HB.
  rewrite tools_epsilon_to_b_def, tools_b_to_epsilon_def, Tmat_of_strain by (try assumption; apply upper_minv; assumption).
  apply minv_invol; exact HD.
Qed.

(* C05 / C06: the traversal model never lists a point twice (unimodular directions, pairwise disjoint cones), and neither does the
   model of genhkl_all (families of different representatives are disjoint). *)
From Coq Require Import ZArith List Bool String Lia.
From XV Require Import SGroup HklModel Traverse Tab_segm Tab_sg_all P05 P05_complete P06_fd P06_fd_main P05_all.
Import ListNotations.
Open Scope Z_scope.

Definition det3 (d1 d2 d3 : hkl) : Z :=
  let '(a1, a2, a3) := d1 in let '(b1, b2, b3) := d2 in let '(c1, c2, c3) := d3 in
  a1 * (b2 * c3 - b3 * c2) - a2 * (b1 * c3 - b3 * c1) + a3 * (b1 * c2 - b2 * c1).

Definition pt (c d1 d2 d3 : hkl) (t : nat * nat * nat) : hkl :=
  let '(m, k, a) := t in hadd (hadd (hadd c (hscale (Z.of_nat m) d3)) (hscale (Z.of_nat k) d2)) (hscale (Z.of_nat a) d1).

Lemma pt_inj c d1 d2 d3 t t' : det3 d1 d2 d3 <> 0 -> pt c d1 d2 d3 t = pt c d1 d2 d3 t' -> t = t'.
Proof.
  destruct t as [[m k] a], t' as [[m' k'] a'], c as [[sx sy] sz], d1 as [[a1 a2] a3], d2 as [[b1 b2] b3], d3 as [[c1 c2] c3].
  unfold pt, hadd, hscale, det3. intros HD E.
  set (u := Z.of_nat a - Z.of_nat a'). set (v := Z.of_nat k - Z.of_nat k'). set (w := Z.of_nat m - Z.of_nat m').
  assert (E1 : u * a1 + v * b1 + w * c1 = 0) by (apply (f_equal (fun t => fst (fst t))) in E; cbn [fst snd] in E; unfold u, v, w; lia).
  assert (E2 : u * a2 + v * b2 + w * c2 = 0) by (apply (f_equal (fun t => snd (fst t))) in E; cbn [fst snd] in E; unfold u, v, w; lia).
  assert (E3 : u * a3 + v * b3 + w * c3 = 0) by (apply (f_equal (fun t => snd t)) in E; cbn [fst snd] in E; unfold u, v, w; lia).
  set (det := a1 * (b2 * c3 - b3 * c2) - a2 * (b1 * c3 - b3 * c1) + a3 * (b1 * c2 - b2 * c1)) in *.
  assert (Du : det * u = 0).
  { replace (det * u) with ((b2 * c3 - b3 * c2) * (u * a1 + v * b1 + w * c1) - (b1 * c3 - b3 * c1) * (u * a2 + v * b2 + w * c2) + (b1 * c2 - b2 * c1) * (u * a3 + v * b3 + w * c3)) by (unfold det; ring).
    rewrite E1, E2, E3. ring. }
  assert (Dv : det * v = 0).
  { replace (det * v) with (- (a2 * c3 - a3 * c2) * (u * a1 + v * b1 + w * c1) + (a1 * c3 - a3 * c1) * (u * a2 + v * b2 + w * c2) - (a1 * c2 - a2 * c1) * (u * a3 + v * b3 + w * c3)) by (unfold det; ring).
    rewrite E1, E2, E3. ring. }
  assert (Dw : det * w = 0).
  { replace (det * w) with ((a2 * b3 - a3 * b2) * (u * a1 + v * b1 + w * c1) - (a1 * b3 - a3 * b1) * (u * a2 + v * b2 + w * c2) + (a1 * b2 - a2 * b1) * (u * a3 + v * b3 + w * c3)) by (unfold det; ring).
    rewrite E1, E2, E3. ring. }
  apply Z.mul_eq_0 in Du, Dv, Dw. destruct Du as [?|Du]; [contradiction|]. destruct Dv as [?|Dv]; [contradiction|]. destruct Dw as [?|Dw]; [contradiction|].
  unfold u, v, w in *. f_equal; [f_equal|]; lia.
Qed.

Lemma nodup_app {A} (l1 l2 : list A) : NoDup l1 -> NoDup l2 -> (forall x, In x l1 -> In x l2 -> False) -> NoDup (l1 ++ l2).
Proof.
  induction l1 as [|a l1 IH]; intros N1 N2 D; [exact N2|]. inversion N1 as [|? ? Ha N1']; subst. cbn. constructor.
  - rewrite in_app_iff. intros [H|H]; [exact (Ha H) | exact (D a (or_introl eq_refl) H)].
  - apply IH; [exact N1' | exact N2 | intros x H1 H2; exact (D x (or_intror H1) H2)].
Qed.
Lemma nodup_map_on {A B} (f : A -> B) l : (forall x y, In x l -> In y l -> f x = f y -> x = y) -> NoDup l -> NoDup (map f l).
Proof.
  induction l as [|a l IH]; intros Inj N; [constructor|]. inversion N as [|? ? Ha N']; subst. cbn. constructor.
  - intros H. apply in_map_iff in H. destruct H as (y & E & Hy). assert (y = a) by (apply Inj; [right; exact Hy | left; reflexivity | exact E]). subst. exact (Ha Hy).
  - apply IH; [intros x y Hx Hy; apply Inj; right; assumption | exact N'].
Qed.

Section NoDup.
Variable G : metricZ.
Variables Tmin Tmax Tterm : Z.
Variable allowed : hkl -> bool.

(* each loop lists the images of a duplicate-free list of coordinates *)
Lemma hloop_shape fuel d1 h l : hloop G Tmin Tmax Tterm allowed fuel d1 h = Some l ->
  exists As : list nat, NoDup As /\ l = map (fun a => hadd h (hscale (Z.of_nat a) d1)) As.
Proof.
  revert h l; induction fuel as [|f IH]; intros h l H; cbn in H; [discriminate|].
  set (here := if keep G Tmin Tmax allowed h then [h] else []) in *.
  assert (Hh : exists A0, NoDup A0 /\ (forall a, In a A0 -> a = 0%nat) /\ here = map (fun a => hadd h (hscale (Z.of_nat a) d1)) A0).
  { unfold here. destruct (keep G Tmin Tmax allowed h).
    - exists [0%nat]. repeat split; [constructor; [intros []|constructor] | intros a [<-|[]]; reflexivity | cbn; rewrite hadd_0_r; reflexivity].
    - exists []. repeat split; [constructor | intros a []]. }
  destruct Hh as (A0 & N0 & Z0 & E0).
  destruct (qform G (hadd h d1) <=? Tterm).
  - destruct (hloop G Tmin Tmax Tterm allowed f d1 (hadd h d1)) as [r|] eqn:E; [|discriminate]. cbn in H. injection H as <-.
    destruct (IH _ _ E) as (As & NA & ->). exists (A0 ++ map S As). split.
    + apply nodup_app; [exact N0 | apply nodup_map_on; [intros x y _ _ Q; lia | exact NA] |].
      intros a Ha Hb. apply Z0 in Ha. subst a. apply in_map_iff in Hb. destruct Hb as (x & Q & _). discriminate.
    + rewrite map_app, E0, map_map. f_equal. apply map_ext. intros a. rewrite Nat2Z.inj_succ, <- Z.add_1_r. apply hscale_succ.
  - injection H as <-. exists A0. split; [exact N0 | exact E0].
Qed.

Lemma kloop_shape fuel fh d1 d2 b l : kloop G Tmin Tmax Tterm allowed fuel fh d1 d2 b = Some l ->
  exists KA : list (nat * nat), NoDup KA /\ l = map (fun ka => hadd (hadd b (hscale (Z.of_nat (fst ka)) d2)) (hscale (Z.of_nat (snd ka)) d1)) KA.
Proof.
  revert b l; induction fuel as [|f IH]; intros b l H; cbn in H; [discriminate|].
  destruct (hloop G Tmin Tmax Tterm allowed fh d1 b) as [row|] eqn:ER; [|discriminate].
  destruct (hloop_shape _ _ _ _ ER) as (As & NA & ->).
  assert (Row : map (fun a => hadd b (hscale (Z.of_nat a) d1)) As
              = map (fun ka => hadd (hadd b (hscale (Z.of_nat (fst ka)) d2)) (hscale (Z.of_nat (snd ka)) d1)) (map (fun a => (0%nat, a)) As)).
  { rewrite map_map. apply map_ext. intros a. cbn [fst snd]. change (Z.of_nat 0) with 0. rewrite hadd_0_r. reflexivity. }
  assert (NR : NoDup (map (fun a => (0%nat, a)) As)) by (apply nodup_map_on; [intros x y _ _ Q; injection Q; auto | exact NA]).
  destruct (Tterm <? qform G (hadd b d2)).
  - injection H as <-. eexists. split; [exact NR | exact Row].
  - destruct (kloop G Tmin Tmax Tterm allowed f fh d1 d2 (hadd b d2)) as [r|] eqn:E; [|discriminate]. cbn in H. injection H as <-.
    destruct (IH _ _ E) as (KA & NK & ->). exists (map (fun a => (0%nat, a)) As ++ map (fun ka => (S (fst ka), snd ka)) KA). split.
    + apply nodup_app; [exact NR | apply nodup_map_on; [intros [x1 x2] [y1 y2] _ _ Q; cbn in Q; injection Q; intros; assert (x1 = y1) by lia; subst; reflexivity | exact NK] |].
      intros x H1 H2. apply in_map_iff in H1. destruct H1 as (a & <- & _). apply in_map_iff in H2. destruct H2 as (ka & Q & _). discriminate.
    + rewrite map_app, Row. f_equal. rewrite map_map. apply map_ext. intros [k a]. cbn [fst snd].
      rewrite Nat2Z.inj_succ, <- Z.add_1_r, <- hscale_succ. reflexivity.
Qed.

Lemma lloop_shape fuel fk fh d1 d2 d3 c l : lloop G Tmin Tmax Tterm allowed fuel fk fh d1 d2 d3 c = Some l ->
  exists T : list (nat * nat * nat), NoDup T /\ l = map (pt c d1 d2 d3) T.
Proof.
  revert c l; induction fuel as [|f IH]; intros c l H; cbn in H; [discriminate|].
  destruct (kloop G Tmin Tmax Tterm allowed fk fh d1 d2 c) as [rows|] eqn:ER; [|discriminate].
  destruct (kloop_shape _ _ _ _ _ _ ER) as (KA & NK & ->).
  assert (Rows : map (fun ka => hadd (hadd c (hscale (Z.of_nat (fst ka)) d2)) (hscale (Z.of_nat (snd ka)) d1)) KA
               = map (pt c d1 d2 d3) (map (fun ka => (0%nat, fst ka, snd ka)) KA)).
  { rewrite map_map. apply map_ext. intros [k a]. unfold pt. cbn [fst snd]. change (Z.of_nat 0) with 0. rewrite hadd_0_r. reflexivity. }
  assert (NR : NoDup (map (fun ka : nat * nat => (0%nat, fst ka, snd ka)) KA)).
  { apply nodup_map_on; [|exact NK]. intros [x1 x2] [y1 y2] _ _ Q. cbn in Q. injection Q; intros; subst; reflexivity. }
  destruct (Tterm <? qform G (hadd c d3)).
  - injection H as <-. eexists. split; [exact NR | exact Rows].
  - destruct (lloop G Tmin Tmax Tterm allowed f fk fh d1 d2 d3 (hadd c d3)) as [r|] eqn:E; [|discriminate]. cbn in H. injection H as <-.
    destruct (IH _ _ E) as (T & NT & ->).
    exists (map (fun ka : nat * nat => (0%nat, fst ka, snd ka)) KA ++ map (fun t : nat * nat * nat => (S (fst (fst t)), snd (fst t), snd t)) T). split.
    + apply nodup_app; [exact NR | apply nodup_map_on; [intros [[x1 x2] x3] [[y1 y2] y3] _ _ Q; cbn in Q; injection Q; intros; assert (x1 = y1) by lia; subst; reflexivity | exact NT] |].
      intros x H1 H2. apply in_map_iff in H1. destruct H1 as (ka & <- & _). apply in_map_iff in H2. destruct H2 as (t & Q & _). discriminate.
    + rewrite map_app, Rows. f_equal. rewrite map_map. apply map_ext. intros [[m k] a]. unfold pt. cbn [fst snd].
      rewrite Nat2Z.inj_succ, <- Z.add_1_r, <- hscale_succ. reflexivity.
Qed.

Theorem segment_nodup fuel seg l : segment G Tmin Tmax Tterm allowed fuel seg = Some l ->
  det3 (vec3 (nth 1 seg [])) (vec3 (nth 2 seg [])) (vec3 (nth 3 seg [])) <> 0 -> NoDup l.
Proof.
  intros H HD. unfold segment in H. destruct (lloop_shape _ _ _ _ _ _ _ _ H) as (T & NT & ->).
  apply nodup_map_on; [|exact NT]. intros x y _ _ Q. exact (pt_inj _ _ _ _ x y HD Q).
Qed.

Theorem all_segments_nodup fuel segs l : all_segments G Tmin Tmax Tterm allowed fuel segs = Some l ->
  NoDup segs -> (forall seg, In seg segs -> det3 (vec3 (nth 1 seg [])) (vec3 (nth 2 seg [])) (vec3 (nth 3 seg [])) <> 0) ->
  (forall s1 s2 x, In s1 segs -> In s2 segs -> in_cone s1 x -> in_cone s2 x -> s1 = s2) -> NoDup l.
Proof.
  revert l; induction segs as [|s r IH]; intros l H NS HD Hdis; cbn in H; [injection H as <-; constructor|].
  destruct (segment G Tmin Tmax Tterm allowed fuel s) as [a|] eqn:ES; [|discriminate].
  destruct (all_segments G Tmin Tmax Tterm allowed fuel r) as [b|] eqn:ER; [|discriminate]. injection H as <-.
  inversion NS as [|? ? Hs NS']; subst.
  apply nodup_app.
  - apply (segment_nodup fuel s a ES). apply HD. left; reflexivity.
  - apply (IH b eq_refl NS'); [intros seg Hseg; apply HD; right; exact Hseg | intros s1 s2 x H1 H2; apply Hdis; right; assumption].
  - intros x Ha Hb. unfold segment in ES. destruct (lloop_sound G Tmin Tmax Tterm allowed _ _ _ _ _ _ _ _ ES x Ha) as [_ C1].
    destruct (all_segments_sound G Tmin Tmax Tterm allowed fuel r b ER x Hb) as [_ (seg2 & S2 & C2)].
    assert (s = seg2) by (apply (Hdis s seg2 x); [left; reflexivity | right; exact S2 | exact C1 | exact C2]). subst. exact (Hs S2).
Qed.
End NoDup.

(* ---- every setting meets the hypotheses ----------------------------------------------------------------------------------- *)
Definition seg_eqb : list (list Z) -> list (list Z) -> bool := list_eqb (list_eqb Z.eqb).
Fixpoint nodupb_seg (l : list (list (list Z))) : bool :=
  match l with [] => true | a :: r => negb (existsb (seg_eqb a) r) && nodupb_seg r end.
Definition det_seg (seg : list (list Z)) : Z := det3 (vec3 (nth 1 seg [])) (vec3 (nth 2 seg [])) (vec3 (nth 3 seg [])).
Definition closedb (L : list mat) : bool := forallb (fun A => forallb (fun B => existsb (mat_eqb (mmulZ A B)) L) L) L.
Definition nodup_setting_ok (s : sgrec) : bool :=
  match laue_mats s, lookup_segm segm_laue (sg_laue s) (sg_choice s) with
  | Some L, Some segs => existsb (mat_eqb mI9) L && nodupb_seg segs && forallb (fun seg => negb (det_seg seg =? 0)) segs && closedb L
  | _, _ => false
  end.
Lemma nodup_settings_ok : forallb nodup_setting_ok all_settings = true.
Proof. vm_compute. reflexivity. Qed.

Lemma list_eqb_refl {A} (eqb : A -> A -> bool) : (forall a, eqb a a = true) -> forall l, list_eqb eqb l l = true.
Proof. intros H. induction l as [|a l IH]; cbn; [reflexivity|]. rewrite H, IH. reflexivity. Qed.
Lemma nodupb_seg_NoDup l : nodupb_seg l = true -> NoDup l.
Proof.
  induction l as [|a r IH]; cbn [nodupb_seg]; intros H; [constructor|]. apply andb_prop in H. destruct H as [H1 H2].
  constructor; [|apply IH; exact H2]. intros Hin. apply negb_true_iff in H1.
  assert (E : existsb (seg_eqb a) r = true).
  { apply existsb_exists. exists a. split; [exact Hin|]. apply list_eqb_refl. intros x. apply list_eqb_refl. intros z. apply Z.eqb_refl. }
  congruence.
Qed.

Section Setting.
Variable s : sgrec.
Hypothesis Hs : In s all_settings.
Variables (L : list mat) (segs : list (list (list Z))) (rots : list mat).
Hypothesis Hrots : all_mats (firstn (Z.to_nat (sg_nuniq s)) (sg_rot s)) = Some rots.
Hypothesis HL : L = rots ++ map mnegZ rots.
Hypothesis Hsegs : lookup_segm segm_laue (sg_laue s) (sg_choice s) = Some segs.

Lemma setting_facts : In mI9 L /\ NoDup segs /\ (forall seg, In seg segs -> det_seg seg <> 0) /\
  (forall A B, In A L -> In B L -> In (mmulZ A B) L) /\ (forall R, In R L -> exists R', In R' L /\ mmulZ R R' = mI9).
Proof.
  pose proof (proj1 (forallb_forall _ _) nodup_settings_ok s Hs) as H. unfold nodup_setting_ok in H.
  rewrite (laue_mats_L s L rots Hrots HL), Hsegs in H.
  apply andb_prop in H. destruct H as [H Hcl]. apply andb_prop in H. destruct H as [H Hdet]. apply andb_prop in H. destruct H as [HI Hnd].
  split; [|split; [|split; [|split]]].
  - apply existsb_exists in HI. destruct HI as (R & HR & E). apply mat_eqb_eq' in E. subst. exact HR.
  - apply nodupb_seg_NoDup; exact Hnd.
  - intros seg Hseg. rewrite forallb_forall in Hdet. specialize (Hdet seg Hseg). apply negb_true_iff in Hdet. apply Z.eqb_neq in Hdet. exact Hdet.
  - intros A B HA HB. unfold closedb in Hcl. rewrite forallb_forall in Hcl. specialize (Hcl A HA). rewrite forallb_forall in Hcl. specialize (Hcl B HB).
    apply existsb_exists in Hcl. destruct Hcl as (C & HC & E). apply mat_eqb_eq' in E. subst. exact HC.
  - intros R HR. pose proof (proj1 (forallb_forall _ _) fd_settings_ok s Hs) as Hok. unfold fd_setting_ok in Hok.
    rewrite (laue_mats_L s L rots Hrots HL), Hsegs in Hok. destruct (fd_lookup _ _); [|discriminate].
    apply andb_prop in Hok. destruct Hok as [_ Hinv]. rewrite forallb_forall in Hinv. specialize (Hinv R HR).
    apply existsb_exists in Hinv. destruct Hinv as (R' & HR' & E). apply mat_eqb_eq' in E. exists R'. split; assumption.
Qed.

Variable G : metricZ.
Variables Tmin Tmax Tterm : Z.
Variable allowed : hkl -> bool.

(* none repeated among the representatives *)
Theorem reps_nodup fuel reps : all_segments G Tmin Tmax Tterm allowed fuel segs = Some reps -> NoDup reps.
Proof.
  intros H. destruct setting_facts as (HI & NS & HD & _ & _).
  apply (all_segments_nodup G Tmin Tmax Tterm allowed fuel segs reps H NS HD).
  intros s1 s2 x H1 H2 C1 C2.
  assert (C2' : in_cone s2 (vmZ x mI9)) by (rewrite vmZ_I; exact C2).
  exact (proj2 (one_per_family s L segs Hs (laue_mats_L s L rots Hrots HL) Hsegs mI9 s1 s2 x HI H1 H2 C1 C2')).
Qed.

Lemma flat_map_nodup {A B} (f : A -> list B) l : NoDup l -> (forall x, In x l -> NoDup (f x)) ->
  (forall x x' y, In x l -> In x' l -> In y (f x) -> In y (f x') -> x = x') -> NoDup (flat_map f l).
Proof.
  induction l as [|a l IH]; intros N Hf Hd; [constructor|]. inversion N as [|? ? Ha N']; subst. cbn.
  apply nodup_app.
  - apply Hf. left; reflexivity.
  - apply IH; [exact N' | intros x Hx; apply Hf; right; exact Hx | intros x x' y Hx Hx'; apply Hd; right; assumption].
  - intros y H1 H2. apply in_flat_map in H2. destruct H2 as (x' & Hx' & Hy).
    assert (a = x') by (apply (Hd a x' y); [left; reflexivity | right; exact Hx' | exact H1 | exact Hy]). subst. exact (Ha Hx').
Qed.

(* none repeated in the model of genhkl_all *)
Theorem all_rows_nodup fuel reps : all_segments G Tmin Tmax Tterm allowed fuel segs = Some reps -> NoDup (flat_map (expand rots) reps).
Proof.
  intros H. destruct setting_facts as (HI & NS & HD & Hcl & Hinv).
  apply flat_map_nodup; [exact (reps_nodup fuel reps H) | intros x _; exact (proj1 (expand_is_orbit rots x)) |].
  intros x x' y Hx Hx' Hy Hy'.
  assert (InL : forall z w, In w (expand rots z) -> exists R, In R L /\ w = vmZ z R).
  { intros z w Hw. apply (proj1 (proj2 (expand_is_orbit rots z) w)) in Hw. destruct Hw as (R & HR & [E|E]).
    - exists R. split; [rewrite HL; apply in_or_app; left; exact HR | exact E].
    - exists (mnegZ R). split; [rewrite HL; apply in_or_app; right; apply in_map; exact HR | exact E]. }
  destruct (InL x y Hy) as (R1 & HR1 & E1). destruct (InL x' y Hy') as (R2 & HR2 & E2).
  destruct (Hinv R2 HR2) as (R2' & HR2' & EI).
  (* x' = y R2' = x (R1 R2') *)
  assert (Ex' : x' = vmZ x (mmulZ R1 R2')).
  { rewrite <- vmZ_mmulZ, <- E1, E2, vmZ_mmulZ, EI, vmZ_I. reflexivity. }
  symmetry. apply (rows_one_per_family s L segs G Tmin Tmax Tterm allowed fuel reps Hs (laue_mats_L s L rots Hrots HL) Hsegs H x x' (mmulZ R1 R2') Hx Hx' (Hcl R1 R2' HR1 HR2') Ex').
Qed.
End Setting.

(* ---- exactly the allowed reflections of the shell, each once (model of genhkl_all, monotone systems) ------------------------------- *)
Theorem all_rows_exact s L segs rots G Tmin Tmax Tterm allowed fuel reps :
  In s all_settings -> all_mats (firstn (Z.to_nat (sg_nuniq s)) (sg_rot s)) = Some rots -> L = rots ++ map mnegZ rots ->
  lookup_segm segm_laue (sg_laue s) (sg_choice s) = Some segs ->
  0 <= Tmin -> Tmax <= Tterm -> (forall seg, In seg segs -> gram_ok G seg = true) ->
  (forall R h, In R L -> qform G (vmZ h R) = qform G h) -> (forall R h, In R L -> qform G h <= Tmax -> allowed (vmZ h R) = allowed h) ->
  all_segments G Tmin Tmax Tterm allowed fuel segs = Some reps ->
  NoDup (flat_map (expand rots) reps) /\
  forall h, In h (flat_map (expand rots) reps) <-> (allowed h = true /\ Tmin < qform G h <= Tmax).
Proof.
  intros Hs Hrots HL Hsegs H0 HT Hmono Hq Ha H. split.
  - exact (all_rows_nodup s Hs L segs rots Hrots HL Hsegs G Tmin Tmax Tterm allowed fuel reps H).
  - intros h. split.
    + intros Hin. apply in_flat_map in Hin. destruct Hin as (x & Hx & Hh).
      destruct (all_segments_sound G Tmin Tmax Tterm allowed fuel segs reps H x Hx) as [[Kx Sx] _].
      apply (proj1 (proj2 (expand_is_orbit rots x) h)) in Hh. destruct Hh as (R & HR & [E|E]); subst h.
      * assert (HRL : In R L) by (rewrite HL; apply in_or_app; left; exact HR). rewrite (Ha R x HRL (proj2 Sx)), (Hq R x HRL). split; assumption.
      * assert (HRL : In (mnegZ R) L) by (rewrite HL; apply in_or_app; right; apply in_map; exact HR). rewrite (Ha _ x HRL (proj2 Sx)), (Hq _ x HRL). split; assumption.
    + intros [Hal Hsh]. apply (all_rows_complete s Hs L segs rots Hrots HL Hsegs G Tmin Tmax Tterm allowed HT Hmono Hq Ha fuel reps H h); try assumption.
      intros ->. assert (Q0 : qform G (0, 0, 0) = 0) by (unfold qform; ring). rewrite Q0 in Hsh. lia.
Qed.

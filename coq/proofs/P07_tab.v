(* C07: every tabulated operation list is closed under left composition by each of its members, modulo lattice translations
   (reflection of the executable check SGLeft.left_ok into the hypothesis [left_closed] of P07) *)
From Coq Require Import Reals ZArith List Bool Permutation Lia Lra.
From XV Require Import RealLib Mat3 Cplx SGroup SGLeft P07.
Import ListNotations.

Lemma v3_eqb_eq u v : v3_eqb u v = true -> u = v.
Proof.
  destruct u as [[a b] c], v as [[a' b'] c']. unfold v3_eqb. intros H.
  apply andb_prop in H. destruct H as [H H3]. apply andb_prop in H. destruct H as [H1 H2].
  apply Z.eqb_eq in H1, H2, H3. subst. reflexivity.
Qed.
Lemma mat_eqb_eq A B : mat_eqb A B = true -> A = B.
Proof.
  destruct A as [[[[[[[[a b] c] d] e] f] g] h] i], B as [[[[[[[[a' b'] c'] d'] e'] f'] g'] h'] i']. unfold mat_eqb. intros H.
  do 8 (apply andb_prop in H; let X := fresh "X" in destruct H as [H X]; apply Z.eqb_eq in X).
  apply Z.eqb_eq in H. subst. reflexivity.
Qed.
Lemma op_eqb_eq p q : op_eqb p q = true -> p = q.
Proof.
  destruct p as [A u], q as [B v]. unfold op_eqb; cbn [fst snd]. intros H. apply andb_prop in H. destruct H as [H1 H2].
  apply mat_eqb_eq in H1. apply v3_eqb_eq in H2. subst. reflexivity.
Qed.
Lemma op_eqb_refl p : op_eqb p p = true.
Proof.
  destruct p as [[[[[[[[[a b] c] d] e] f] g] h] i] [[x y] z]]. unfold op_eqb, mat_eqb, v3_eqb; cbn [fst snd].
  rewrite !Z.eqb_refl. reflexivity.
Qed.

Lemma nodupb_NoDup l : nodupb l = true -> NoDup l.
Proof.
  induction l as [|a r IH]; cbn [nodupb]; intros H; [constructor|].
  apply andb_prop in H. destruct H as [H1 H2]. constructor; [|apply IH; exact H2].
  intros Hin. apply negb_true_iff in H1.
  assert (E : existsb (op_eqb a) r = true) by (apply existsb_exists; exists a; split; [exact Hin | apply op_eqb_refl]).
  congruence.
Qed.
Lemma inclb_incl l1 l2 : inclb l1 l2 = true -> incl l1 l2.
Proof.
  unfold inclb. intros H a Ha. rewrite forallb_forall in H. specialize (H a Ha).
  apply existsb_exists in H. destruct H as (b & Hb & E). apply op_eqb_eq in E. subst. exact Hb.
Qed.

Lemma left_ok_perm ops k : left_ok_ops ops = true -> In k ops -> Permutation (map (op_mul k) ops) ops.
Proof.
  unfold left_ok_ops. intros H Hk. apply andb_prop in H. destruct H as [H _]. apply andb_prop in H. destruct H as [H _].
  apply andb_prop in H. destruct H as [Hn Hf].
  rewrite forallb_forall in Hf. specialize (Hf k Hk).
  apply Permutation_sym. apply NoDup_Permutation_bis.
  - apply nodupb_NoDup; exact Hn.
  - rewrite map_length. apply Nat.le_refl.
  - apply inclb_incl; exact Hf.
Qed.

(* embedding into the reals *)
Open Scope R_scope.
Definition matR (A : mat) : M3 :=
  let '(a, b, c, d, e, f, g, h, i) := A in mkM3 (IZR a) (IZR b) (IZR c) (IZR d) (IZR e) (IZR f) (IZR g) (IZR h) (IZR i).
Definition vecR12 (v : Z * Z * Z) : V3 := let '(x, y, z) := v in mkV3 (IZR x / 12) (IZR y / 12) (IZR z / 12).
Definition opR (p : op) : sop := (matR (fst p), vecR12 (snd p)).

Lemma mod12_split (x : Z) : IZR x / 12 = IZR (x mod 12) / 12 + IZR (x / 12).
Proof.
  pose proof (Z.div_mod x 12 ltac:(lia)) as E. rewrite E at 1. rewrite plus_IZR, mult_IZR. field.
Qed.

Lemma op_mul_R k p :
  mmul (fst (opR k)) (fst (opR p)) = fst (opR (op_mul k p)) /\
  exists L, int_vec L /\ vadd (mvmul (fst (opR k)) (snd (opR p))) (snd (opR k)) = vadd (snd (opR (op_mul k p))) L.
Proof.
  destruct k as [[[[[[[[[a b] c] d] e] f] g] h] i] [[x y] z]], p as [[[[[[[[[a' b'] c'] d'] e'] f'] g'] h'] i'] [[x' y'] z']].
  unfold opR, op_mul, mmulZ, mvZ, mod12v, matR, vecR12; cbn [fst snd]. split.
  - unfold mmul; cbn. rewrite !plus_IZR, !mult_IZR. reflexivity.
  - exists (mkV3 (IZR ((a * x' + b * y' + c * z' + x) / 12)) (IZR ((d * x' + e * y' + f * z' + y) / 12)) (IZR ((g * x' + h * y' + i * z' + z) / 12))).
    split; [eexists _, _, _; reflexivity|].
    unfold vadd, mvmul; cbn. f_equal.
    + rewrite <- mod12_split. rewrite !plus_IZR, !mult_IZR. field.
    + rewrite <- mod12_split. rewrite !plus_IZR, !mult_IZR. field.
    + rewrite <- mod12_split. rewrite !plus_IZR, !mult_IZR. field.
Qed.

Theorem left_ok_closed ops k : left_ok_ops ops = true -> In k ops -> left_closed (opR k) (map opR ops).
Proof.
  intros H Hk. exists (map opR (map (op_mul k) ops)). split.
  - apply Permutation_map. apply left_ok_perm; assumption.
  - clear H Hk. induction ops as [|p r IH]; cbn [map]; constructor; [|exact IH].
    apply op_mul_R.
Qed.

(* the rotation part of every operation in a list accepted by the C04 check has determinant +-1 and preserves the metric basis;
   the corresponding real statement used for sin(theta)/lambda invariance *)
Lemma matR_mmul A B : matR (mmulZ A B) = mmul (matR A) (matR B).
Proof.
  destruct A as [[[[[[[[a b] c] d] e] f] g] h] i], B as [[[[[[[[a' b'] c'] d'] e'] f'] g'] h'] i'].
  unfold matR, mmulZ, mmul; cbn. rewrite !plus_IZR, !mult_IZR. reflexivity.
Qed.
Lemma matR_mtrans A : matR (mtransZ A) = mtrans (matR A).
Proof. destruct A as [[[[[[[[a b] c] d] e] f] g] h] i]. reflexivity. Qed.
Lemma matR_mdet A : mdet (matR A) = IZR (mdetZ A).
Proof.
  destruct A as [[[[[[[[a b] c] d] e] f] g] h] i]. unfold matR, mdetZ, mdet; cbn.
  rewrite !plus_IZR, !minus_IZR, !mult_IZR, !minus_IZR, !mult_IZR. ring.
Qed.

(* identity and unimodularity, from the same executable check *)
Lemma left_ok_ident ops : left_ok_ops ops = true -> In op_id ops.
Proof.
  unfold left_ok_ops. intros H. apply andb_prop in H. destruct H as [H _]. apply andb_prop in H. destruct H as [_ H].
  apply existsb_exists in H. destruct H as (p & Hp & E). apply op_eqb_eq in E. subst. exact Hp.
Qed.
Lemma left_ok_det ops k : left_ok_ops ops = true -> In k ops -> (mdetZ (fst k) = 1 \/ mdetZ (fst k) = -1)%Z.
Proof.
  unfold left_ok_ops. intros H Hk. apply andb_prop in H. destruct H as [_ H]. rewrite forallb_forall in H. specialize (H k Hk).
  apply Z.eqb_eq in H. lia.
Qed.

(* C14: the remaining traced functions, tools vs laue *)
From Coq Require Import Reals Lra Psatz List.
From XV Require Import RealLib Mat3 Atan2 OmegaSolve Cell Gen_laue Gen_tools P01_laue P01_laue_b P01_laue_c P01_laue_d P01_laue_e
  P14_cell P01_tools P02_laue P14_ubi P03_laue P14_rot P09_laue P09_plain P09_quart P09_tools P13_laue P13_cellof P13_ubi P13_old P13_tools.
Import ListNotations.
Open Scope R_scope.

Lemma tl_tth c h wl : tools_tth c h wl = laue_tth c h wl.
Proof. reflexivity. Qed.

Lemma tl_tth2 g wl : vx g * vx g + vy g * vy g + vz g * vz g <> 0 ->
  tools_tth2 (vscale (2 * PI) g) wl = laue_tth2 g wl.
Proof.
  intros H. unfold tools_tth2, laue_tth2, vscale; cbv zeta; cbn [vx vy vz].
  pose proof PI_RGT_0 as P.
  set (q := vx g * vx g + vy g * vy g + vz g * vz g) in *.
  assert (Pq : 0 < q) by (assert (0 <= q) by (unfold q; nra); lra).
  replace (2 * PI * vx g * (2 * PI * vx g) + 2 * PI * vy g * (2 * PI * vy g) + 2 * PI * vz g * (2 * PI * vz g))
    with ((2 * PI) * (2 * PI) * q) by (unfold q; ring).
  rewrite sqrt_mult by nra. rewrite sqrt_square by lra. pose proof (sqrt_lt_R0 q Pq).
  f_equal. f_equal. field. split; lra.
Qed.

Lemma tl_ubi_to_rod A : valid_cell (laue_ubi_to_cell A) -> tools_ubi_to_rod A = laue_ubi_to_rod A.
Proof.
  intros H. unfold tools_ubi_to_rod, laue_ubi_to_rod; cbv zeta. rewrite tl_ubi_to_u by exact H. rewrite tl_u_to_rod. reflexivity.
Qed.

(* B matrices of tools are 2 pi times those of laue *)
Lemma tl_ubi_to_u_b qr A : tools_ubi_to_u_b qr A = laue_ub_to_u_b qr (mscale (2 * PI) (minv A)).
Proof. rewrite tools_ubi_to_u_b_eq, tl_ub_to_u_b. reflexivity. Qed.

Lemma tl_b_to_epsilon B c : valid_cell c -> mdet B <> 0 ->
  tools_b_to_epsilon (mscale (2 * PI) B) c = laue_b_to_epsilon B c.
Proof.
  intros Hc HD. rewrite tools_b_to_epsilon_def, laue_b_to_epsilon_def, tools_b_scaled by exact Hc.
  rewrite minv_mscale by (first [apply two_pi_nz | exact HD]).
  rewrite mmul_mscale_l, mmul_mscale_r, mscale_mscale.
  replace (2 * PI * / (2 * PI)) with 1 by (field; pose proof PI_RGT_0; lra). rewrite mscale_1. reflexivity.
Qed.

Lemma Tmat_scale B0 eps k : k <> 0 -> m00 B0 <> 0 -> m11 B0 <> 0 -> m22 B0 <> 0 ->
  Tmat (mscale k B0) eps = mscale (/ k) (Tmat B0 eps).
Proof.
  intros Hk H0 H1 H2. destruct B0 as [a b c d e f g h i], eps as [e11 e12 e13 e22 e23 e33]. cbn in *.
  unfold Tmat, mscale; cbn. f_equal; field; repeat split; assumption.
Qed.

Lemma tl_epsilon_to_b eps c : valid_cell c -> strain_ok eps ->
  tools_epsilon_to_b eps c = mscale (2 * PI) (laue_epsilon_to_b eps c).
Proof.
  intros Hc Hs. pose proof (laue_B_upper_posdiag c Hc) as HB.
  rewrite tools_epsilon_to_b_def, laue_epsilon_to_b_def, tools_b_scaled by exact Hc.
  destruct HB as [HU (P0 & P1 & P2)].
  rewrite Tmat_scale by (first [apply two_pi_nz | apply Rgt_not_eq; assumption]).
  rewrite minv_mscale.
  - f_equal. apply Rinv_inv.
  - apply Rinv_neq_0_compat; apply two_pi_nz.
  - apply Tmat_det; [split; [exact HU | repeat split; assumption] | exact Hs].
Qed.

(* omega solvers: tools applied to the rescaled g equals laue applied to g *)
Lemma tl_find_omega_general g tth wx wy : vx g * vx g + vy g * vy g + vz g * vz g <> 0 ->
  tools_find_omega_general (normalise_to tth g) tth wx wy = laue_find_omega_general g tth wx wy.
Proof. intros Hg. rewrite tools_general_refines, laue_general_refines. reflexivity. Qed.
Lemma tl_find_omega_quart g tth wx wy :
  tools_find_omega_quart (normalise_to tth g) tth wx wy = laue_find_omega_quart g tth wx wy.
Proof. rewrite tools_quart_refines, laue_quart_refines. reflexivity. Qed.
Lemma tl_find_omega g tth : tools_find_omega (normalise_to tth g) tth = laue_find_omega g tth.
Proof. rewrite tools_plain_refines, laue_plain_refines. reflexivity. Qed.
Lemma tl_find_omega_wedge g tth w : tools_find_omega_wedge g tth w = laue_find_omega_wedge g tth w.
Proof. reflexivity. Qed.

(* the _old pair *)
Lemma tl_epsilon_to_b_old eps c : valid_cell c -> strain_small eps ->
  tools_epsilon_to_b_old eps c = mscale (2 * PI) (laue_epsilon_to_b_old eps c).
Proof.
  intros Hc Hs.
  assert (V : valid_cell (laue_a_to_cell (Amat (laue_form_a_mat_inv c) eps))).
  { pose proof (laue_a_inv_posdiag c Hc) as HAi. pose proof (Amat_posdiag _ _ HAi Hs) as HA.
    apply laue_a_to_cell_valid. pose proof (upper_posdiag_det _ HA). lra. }
  pose proof (tools_b_scaled _ V) as E.
  exact E.
Qed.

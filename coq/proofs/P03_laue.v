(* C03 for xfab.laue: rotation constructors (generated) equal the documented compositions, are proper rotations,
   Rodrigues round trips *)
From Coq Require Import Reals Lra Psatz.
From XV Require Import RealLib Mat3 Atan2 Gen_laue.
Open Scope R_scope.

Ltac mat_trig := munfold; f_equal; ring.

Lemma laue_euler_comp p1 P p2 : laue_euler_to_u p1 P p2 = mmul (Rz p1) (mmul (Rx P) (Rz p2)).
Proof. unfold laue_euler_to_u, Rz, Rx; cbv zeta. mat_trig. Qed.
Lemma laue_euler_rot p1 P p2 : is_rot (laue_euler_to_u p1 P p2).
Proof. rewrite laue_euler_comp. repeat apply rot_mmul; auto using rot_Rx, rot_Rz. Qed.

Lemma laue_omega_comp w : laue_form_omega_mat w = Rz w.
Proof. reflexivity. Qed.
Lemma laue_omega_rot w : is_rot (laue_form_omega_mat w).
Proof. rewrite laue_omega_comp. apply rot_Rz. Qed.

Lemma laue_omega_general_comp w chi wedge :
  laue_form_omega_mat_general w chi wedge = mmul (Rx chi) (mmul (Ry wedge) (Rz w)).
Proof. unfold laue_form_omega_mat_general, laue_form_omega_mat, Rz, Rx, Ry; cbv zeta. mat_trig. Qed.
Lemma laue_omega_general_rot w chi wedge : is_rot (laue_form_omega_mat_general w chi wedge).
Proof. rewrite laue_omega_general_comp. repeat apply rot_mmul; auto using rot_Rx, rot_Ry, rot_Rz. Qed.

Lemma laue_tilt_comp tx ty tz : laue_detect_tilt tx ty tz = mmul (Rx tx) (mmul (Ry ty) (Rz tz)).
Proof. unfold laue_detect_tilt, Rz, Rx, Ry; cbv zeta. mat_trig. Qed.
Lemma laue_tilt_rot tx ty tz : is_rot (laue_detect_tilt tx ty tz).
Proof. rewrite laue_tilt_comp. repeat apply rot_mmul; auto using rot_Rx, rot_Ry, rot_Rz. Qed.

(* quaternion omega: P Rz(w) P' with P = Rx(wx) Ry(wy); w in degrees *)
Lemma laue_quart_comp w wx wy :
  laue_quart_to_omega w wx wy =
  mmul (mmul (Rx wx) (Ry wy)) (mmul (Rz (w * PI / 180)) (mtrans (mmul (Rx wx) (Ry wy)))).
Proof.
  replace (w * PI / 180) with (2 * (w * PI / 360)) by field.
  unfold laue_quart_to_omega, Rz, Rx, Ry; cbv zeta.
  rewrite cos_2a_sin, sin_2a.
  set (h := w * PI / 360).
  assert (Hh : sin h * sin h = 1 - cos h * cos h) by (pose proof (sc1 h); lra).
  assert (Hx : sin wx * sin wx = 1 - cos wx * cos wx) by (pose proof (sc1 wx); lra).
  assert (Hy : sin wy * sin wy = 1 - cos wy * cos wy) by (pose proof (sc1 wy); lra).
  set (sh := sin h) in *; set (ch := cos h) in *; set (sx := sin wx) in *; set (cx := cos wx) in *;
  set (sy := sin wy) in *; set (cy := cos wy) in *. clearbody sh ch sx cx sy cy.
  mcbv. cbn [Rpow_def.pow]. f_equal; ring [Hh Hx Hy].
Qed.
Lemma laue_quart_rot w wx wy : is_rot (laue_quart_to_omega w wx wy).
Proof.
  rewrite laue_quart_comp. assert (P : is_rot (mmul (Rx wx) (Ry wy))) by (apply rot_mmul; auto using rot_Rx, rot_Ry).
  apply rot_mmul; [exact P|]. apply rot_mmul; [apply rot_Rz | apply rot_mtrans; exact P].
Qed.

(* Rodrigues *)
Definition rod_spec (r : V3) : M3 :=
  let n := vnorm2 r in
  let x := vx r in let y := vy r in let z := vz r in
  mscale (/ (1 + n))
    (mkM3 (1 - n + 2 * x * x) (2 * x * y + 2 * z) (2 * x * z - 2 * y)
          (2 * x * y - 2 * z) (1 - n + 2 * y * y) (2 * y * z + 2 * x)
          (2 * x * z + 2 * y) (2 * y * z - 2 * x) (1 - n + 2 * z * z)).

Lemma norm_pos r : 0 < 1 + vnorm2 r.
Proof. pose proof (vnorm2_nonneg r). lra. Qed.

Lemma laue_rod_spec r : laue_rod_to_u r = rod_spec r.
Proof.
  pose proof (norm_pos r) as N. destruct r as [x y z]. unfold laue_rod_to_u, rod_spec; cbv zeta. munfold.
  f_equal; field; lra.
Qed.

Lemma laue_rod_rot r : is_rot (laue_rod_to_u r).
Proof.
  rewrite laue_rod_spec. pose proof (norm_pos r) as N. destruct r as [x y z]. unfold rod_spec; cbv zeta. munfold.
  split; [f_equal|]; field; lra.
Qed.

Lemma laue_rod_axis r : mvmul (laue_rod_to_u r) r = r.
Proof.
  rewrite laue_rod_spec. pose proof (norm_pos r) as N. destruct r as [x y z]. unfold rod_spec; cbv zeta. munfold.
  f_equal; field; lra.
Qed.

Lemma laue_rod_trace r : mtrace (laue_rod_to_u r) = (3 - vnorm2 r) / (1 + vnorm2 r).
Proof.
  rewrite laue_rod_spec. pose proof (norm_pos r) as N. destruct r as [x y z]. unfold rod_spec; cbv zeta. munfold.
  field; lra.
Qed.

Lemma cos_2atan t : cos (2 * atan t) = (1 - t * t) / (1 + t * t).
Proof.
  rewrite cos_2a, cos_atan, sin_atan. unfold Rsqr.
  assert (P : 0 < 1 + t * t) by nra. assert (S := sqrt_sqrt (1 + t * t) (Rlt_le _ _ P)).
  assert (Q : 0 < sqrt (1 + t * t)) by (apply sqrt_lt_R0; exact P).
  set (q := sqrt (1 + t * t)) in *. clearbody q.
  field_simplify_eq; [nsatz_R | split; lra].
Qed.
Lemma sin_2atan t : sin (2 * atan t) = 2 * t / (1 + t * t).
Proof.
  rewrite sin_2a, cos_atan, sin_atan. unfold Rsqr.
  assert (P : 0 < 1 + t * t) by nra. assert (S := sqrt_sqrt (1 + t * t) (Rlt_le _ _ P)).
  assert (Q : 0 < sqrt (1 + t * t)) by (apply sqrt_lt_R0; exact P).
  set (q := sqrt (1 + t * t)) in *. clearbody q.
  field_simplify_eq; [nsatz_R | split; lra].
Qed.

(* the rotation angle is 2 atan |r| : trace = 1 + 2 cos(angle) *)
Lemma laue_rod_angle r : mtrace (laue_rod_to_u r) = 1 + 2 * cos (2 * atan (vnorm r)).
Proof.
  rewrite laue_rod_trace, cos_2atan. unfold vnorm. rewrite sqrt_sqrt by apply vnorm2_nonneg.
  pose proof (norm_pos r). field. lra.
Qed.

(* passive sense: for r along z the matrix is the transpose of the active rotation by 2 atan t *)
Lemma laue_rod_passive t : laue_rod_to_u (mkV3 0 0 t) = mtrans (Rz (2 * atan t)).
Proof.
  rewrite laue_rod_spec. unfold rod_spec, Rz; cbv zeta. rewrite cos_2atan, sin_2atan. munfold.
  assert (0 < 1 + t * t) by nra. f_equal; field; lra.
Qed.

(* inverses *)
Lemma laue_u_to_rod_inv r : vnorm2 r < 1000000000000000 -> laue_u_to_rod (laue_rod_to_u r) = Some r.
Proof.
  intros B. pose proof (norm_pos r) as N. pose proof (vnorm2_nonneg r) as NN.
  unfold laue_u_to_rod; cbv zeta.
  assert (T : 1 + m00 (laue_rod_to_u r) + m11 (laue_rod_to_u r) + m22 (laue_rod_to_u r) = 4 / (1 + vnorm2 r)).
  { pose proof (laue_rod_trace r) as Tr. unfold mtrace in Tr.
    replace (1 + m00 (laue_rod_to_u r) + m11 (laue_rod_to_u r) + m22 (laue_rod_to_u r))
      with (1 + (m00 (laue_rod_to_u r) + m11 (laue_rod_to_u r) + m22 (laue_rod_to_u r))) by ring.
    rewrite Tr. field. lra. }
  rewrite T.
  destruct (Rlt_dec _ _) as [L|L].
  - exfalso. rewrite Rabs_right in L by (apply Rle_ge; apply Rlt_le; apply Rdiv_lt_0_compat; lra).
    assert (4 / (1 + vnorm2 r) * (1 + vnorm2 r) = 4) by (field; lra). nra.
  - f_equal. rewrite laue_rod_spec. destruct r as [x y z]. unfold rod_spec in *; cbv zeta. munfold.
    f_equal; field; lra.
Qed.

Lemma laue_rod_to_u_inv U r : is_rot U -> laue_u_to_rod U = Some r -> laue_rod_to_u r = U.
Proof.
  intros [HO HD] E. unfold laue_u_to_rod in E; cbv zeta in E.
  destruct (Rlt_dec _ _) as [L|L]; [discriminate|]. injection E as <-.
  assert (T : 1 + m00 U + m11 U + m22 U <> 0).
  { intro Z. rewrite Z, Rabs_R0 in L. lra. }
  rewrite laue_rod_spec. destruct U as [a b c d e f g h i]. unfold rod_spec; cbv zeta. munfold.
  injection HO as E0 E1 E2 E3 E4 E5 E6 E7 E8.
  set (t := 1 + a + e + i) in *.
  assert (D : (1 + ((f - h) * (1 / t) * ((f - h) * (1 / t)) + (g - c) * (1 / t) * ((g - c) * (1 / t)) + (b - d) * (1 / t) * ((b - d) * (1 / t)))) <> 0).
  { generalize ((f - h) * (1 / t)) ((g - c) * (1 / t)) ((b - d) * (1 / t)). intros u v w. nra. }
  assert (TT : 0 < t * t) by (destruct (Rtotal_order t 0) as [Q|[Q|Q]]; [nra | contradiction | nra]).
  f_equal; (field_simplify_eq; [subst t; nsatz_R | split; [exact T | apply Rgt_not_eq; pose proof (Rle_0_sqr (f - h)); pose proof (Rle_0_sqr (g - c)); pose proof (Rle_0_sqr (b - d)); unfold Rsqr in *; lra]]).
Qed.

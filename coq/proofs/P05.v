(* C05 / C06: sysabs vs operator extinction on the box, segment tables, soundness of the traversal model, orbit expansion *)
From Coq Require Import ZArith List Bool String Lia.
From XV Require Import SGroup HklModel Traverse Tab_segm Ast_laue Ast_tools Tab_sg_all.
Import ListNotations.
Open Scope Z_scope.

Lemma sysabs_all : forallb (sysabs_ok ast_laue_sysabs segm_laue 7) all_settings = true.
Proof. vm_compute. reflexivity. Qed.

Lemma segm_same : segm_tools = segm_laue.
Proof. vm_compute. reflexivity. Qed.

Lemma segm_all_found : forallb (fun s => match lookup_segm segm_laue (sg_laue s) (sg_choice s) with Some segs => unimodular_segs segs | None => false end) all_settings = true.
Proof. vm_compute. reflexivity. Qed.

(* ---- soundness of the traversal model ------------------------------------------------------------------------------ *)
Definition hscale (k : Z) (d : hkl) : hkl := let '(x, y, z) := d in (k * x, k * y, k * z).
Lemma hadd_assoc a b c : hadd (hadd a b) c = hadd a (hadd b c).
Proof. destruct a as [[? ?] ?], b as [[? ?] ?], c as [[? ?] ?]. cbn. f_equal; [f_equal|]; ring. Qed.
Lemma hscale_0 d : hadd (0, 0, 0) (hscale 0 d) = (0, 0, 0).
Proof. destruct d as [[? ?] ?]. cbn. reflexivity. Qed.
Lemma hadd_0_r a d : hadd a (hscale 0 d) = a.
Proof. destruct a as [[? ?] ?], d as [[? ?] ?]. cbn. f_equal; [f_equal|]; ring. Qed.
Lemma hscale_succ a d k : hadd (hadd a d) (hscale k d) = hadd a (hscale (k + 1) d).
Proof. destruct a as [[? ?] ?], d as [[? ?] ?]. cbn. f_equal; [f_equal|]; ring. Qed.

Section Sound.
Variable G : metricZ.
Variables Tmin Tmax Tterm : Z.
Variable allowed : hkl -> bool.
Notation keep := (keep G Tmin Tmax allowed).

Lemma hloop_sound fuel d1 h l : hloop G Tmin Tmax Tterm allowed fuel d1 h = Some l ->
  forall x, In x l -> keep x = true /\ exists a, 0 <= a /\ x = hadd h (hscale a d1).
Proof.
  revert h l; induction fuel as [|f IH]; intros h l H x Hx; cbn in H; [discriminate|].
  destruct (qform G (hadd h d1) <=? Tterm).
  - destruct (hloop G Tmin Tmax Tterm allowed f d1 (hadd h d1)) as [r|] eqn:E; [|discriminate]. cbn in H. injection H as <-.
    apply in_app_or in Hx. destruct Hx as [Hx|Hx].
    + destruct (keep h) eqn:K; [|destruct Hx]. destruct Hx as [<-|[]]. split; [exact K|]. exists 0. split; [lia | symmetry; apply hadd_0_r].
    + destruct (IH _ _ E x Hx) as [K [a [Ha ->]]]. split; [exact K|]. exists (a + 1). split; [lia | apply hscale_succ].
  - injection H as <-. destruct (keep h) eqn:K; [|destruct Hx]. destruct Hx as [<-|[]]. split; [exact K|]. exists 0. split; [lia | symmetry; apply hadd_0_r].
Qed.

Lemma kloop_sound fuel fh d1 d2 b l : kloop G Tmin Tmax Tterm allowed fuel fh d1 d2 b = Some l ->
  forall x, In x l -> keep x = true /\ exists a k, 0 <= a /\ 0 <= k /\ x = hadd (hadd b (hscale k d2)) (hscale a d1).
Proof.
  revert b l; induction fuel as [|f IH]; intros b l H x Hx; cbn in H; [discriminate|].
  destruct (hloop G Tmin Tmax Tterm allowed fh d1 b) as [row|] eqn:ER; [|discriminate].
  assert (Row : forall y, In y row -> keep y = true /\ exists a k, 0 <= a /\ 0 <= k /\ y = hadd (hadd b (hscale k d2)) (hscale a d1)).
  { intros y Hy. destruct (hloop_sound _ _ _ _ ER y Hy) as [K [a [Ha ->]]]. split; [exact K|]. exists a, 0. rewrite hadd_0_r. repeat split; lia. }
  destruct (Tterm <? qform G (hadd b d2)).
  - injection H as <-. apply Row; exact Hx.
  - destruct (kloop G Tmin Tmax Tterm allowed f fh d1 d2 (hadd b d2)) as [r|] eqn:E; [|discriminate]. cbn in H. injection H as <-.
    apply in_app_or in Hx. destruct Hx as [Hx|Hx]; [apply Row; exact Hx|].
    destruct (IH _ _ E x Hx) as [K [a [k [Ha [Hk ->]]]]]. split; [exact K|]. exists a, (k + 1). rewrite hscale_succ. repeat split; lia.
Qed.

Lemma lloop_sound fuel fk fh d1 d2 d3 c l : lloop G Tmin Tmax Tterm allowed fuel fk fh d1 d2 d3 c = Some l ->
  forall x, In x l -> keep x = true /\
    exists a k m, 0 <= a /\ 0 <= k /\ 0 <= m /\ x = hadd (hadd (hadd c (hscale m d3)) (hscale k d2)) (hscale a d1).
Proof.
  revert c l; induction fuel as [|f IH]; intros c l H x Hx; cbn in H; [discriminate|].
  destruct (kloop G Tmin Tmax Tterm allowed fk fh d1 d2 c) as [rows|] eqn:ER; [|discriminate].
  assert (Rows : forall y, In y rows -> keep y = true /\
            exists a k m, 0 <= a /\ 0 <= k /\ 0 <= m /\ y = hadd (hadd (hadd c (hscale m d3)) (hscale k d2)) (hscale a d1)).
  { intros y Hy. destruct (kloop_sound _ _ _ _ _ _ ER y Hy) as [K [a [k [Ha [Hk ->]]]]]. split; [exact K|]. exists a, k, 0. rewrite hadd_0_r. repeat split; lia. }
  destruct (Tterm <? qform G (hadd c d3)).
  - injection H as <-. apply Rows; exact Hx.
  - destruct (lloop G Tmin Tmax Tterm allowed f fk fh d1 d2 d3 (hadd c d3)) as [r|] eqn:E; [|discriminate]. cbn in H. injection H as <-.
    apply in_app_or in Hx. destruct Hx as [Hx|Hx]; [apply Rows; exact Hx|].
    destruct (IH _ _ E x Hx) as [K [a [k [m [Ha [Hk [Hm ->]]]]]]]. split; [exact K|]. exists a, k, (m + 1). rewrite hscale_succ. repeat split; lia.
Qed.

(* a row of the model: allowed by the reflection conditions, strictly above sintlmin, at most sintlmax, and inside one segment's cone *)
Definition in_cone (seg : list (list Z)) (x : hkl) : Prop :=
  exists a k m, 0 <= a /\ 0 <= k /\ 0 <= m /\
    x = hadd (hadd (hadd (vec3 (nth 0 seg [])) (hscale m (vec3 (nth 3 seg [])))) (hscale k (vec3 (nth 2 seg [])))) (hscale a (vec3 (nth 1 seg []))).

Theorem all_segments_sound fuel segs l : all_segments G Tmin Tmax Tterm allowed fuel segs = Some l ->
  forall x, In x l -> (allowed x = true /\ Tmin < qform G x <= Tmax) /\ exists seg, In seg segs /\ in_cone seg x.
Proof.
  revert l; induction segs as [|s r IH]; intros l H x Hx; cbn in H.
  - injection H as <-. destruct Hx.
  - destruct (segment G Tmin Tmax Tterm allowed fuel s) as [a|] eqn:ES; [|discriminate].
    destruct (all_segments G Tmin Tmax Tterm allowed fuel r) as [b|] eqn:ER; [|discriminate]. injection H as <-.
    apply in_app_or in Hx. destruct Hx as [Hx|Hx].
    + unfold segment in ES. destruct (lloop_sound _ _ _ _ _ _ _ _ ES x Hx) as [K C]. split.
      * unfold Traverse.keep in K. apply andb_prop in K. destruct K as [K K3]. apply andb_prop in K. destruct K as [K1 K2].
        apply Z.ltb_lt in K2. apply Z.leb_le in K3. repeat split; assumption.
      * exists s. split; [left; reflexivity | exact C].
    + destruct (IH _ eq_refl x Hx) as [K [seg [Hs C]]]. split; [exact K|]. exists seg. split; [right; exact Hs | exact C].
Qed.
End Sound.

(* ---- orbit expansion of genhkl_all ------------------------------------------------------------------------------------ *)
Lemma hkl_eqb_spec a b : hkl_eqb a b = true <-> a = b.
Proof.
  destruct a as [[x y] z], b as [[x' y'] z']. cbn. rewrite !andb_true_iff, !Z.eqb_eq. split.
  - intros [[-> ->] ->]. reflexivity.
  - intros E. injection E as -> -> ->. tauto.
Qed.

Lemma dedup_hkl_spec l seen : NoDup seen -> NoDup (dedup_hkl l seen) /\ forall x, In x (dedup_hkl l seen) <-> In x l \/ In x seen.
Proof.
  revert seen; induction l as [|h r IH]; intros seen ND; cbn [dedup_hkl].
  - split; [exact ND|]. intros x; cbn; tauto.
  - destruct (existsb (hkl_eqb h) seen) eqn:E.
    + destruct (IH seen ND) as [N I]. split; [exact N|]. intros x. rewrite I. cbn.
      apply existsb_exists in E. destruct E as [w [Hw Ew]]. apply hkl_eqb_spec in Ew. subst w. split; [tauto|]. intros [[<-|H]|H]; tauto.
    + assert (NI : ~ In h seen).
      { intro H. assert (existsb (hkl_eqb h) seen = true) by (apply existsb_exists; exists h; split; [exact H | apply hkl_eqb_spec; reflexivity]). congruence. }
      assert (ND' : NoDup (seen ++ [h])).
      { clear - ND NI. induction seen as [|y s IHs]; cbn; [constructor; [intros []|constructor]|].
        inversion ND as [|? ? Hy Hs]; subst. constructor.
        - rewrite in_app_iff. cbn. intros [H|[H|[]]]; [exact (Hy H) | subst; apply NI; left; reflexivity].
        - apply IHs; [exact Hs | intro H; apply NI; right; exact H]. }
      destruct (IH _ ND') as [N I]. split; [exact N|]. intros x. rewrite I, in_app_iff. cbn. tauto.
Qed.

Theorem expand_is_orbit rots h : NoDup (expand rots h) /\
  forall x, In x (expand rots h) <-> exists R, In R rots /\ (x = vmZ h R \/ x = vmZ h (mnegZ R)).
Proof.
  unfold expand. destruct (dedup_hkl_spec (map (fun R => vmZ h R) rots ++ map (fun R => vmZ h (mnegZ R)) rots) [] (NoDup_nil _)) as [N I].
  split; [exact N|]. intros x. rewrite I, in_app_iff, !in_map_iff. cbn. split.
  - intros [[[R [E H]]|[R [E H]]]|[]]; exists R; split; auto.
  - intros [R [H [E|E]]]; left; [left | right]; exists R; auto.
Qed.

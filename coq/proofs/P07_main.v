(* C07: the theorems instantiated on the space-group tables regenerated from sglib *)
From Coq Require Import Reals ZArith List Bool Permutation Lia Lra.
From XV Require Import RealLib Mat3 Cplx Cell SGroup SGLeft Tab_sg_all P07_all Gen_tools Gen_structure P07 P07_gen P07_tab.
Import ListNotations.
Open Scope R_scope.

(* the operation list of a tabulated setting, as real operations x -> R x + t (translations snapped to twelfths) *)
Definition table_ops (s : sgrec) : option (list sop) :=
  match ops_of (sg_rot s) (sg_trans s) with Some ops => Some (map opR ops) | None => None end.

Lemma table_left_closed s ops k : In s all_settings -> ops_of (sg_rot s) (sg_trans s) = Some ops -> In k ops ->
  left_closed (opR k) (map opR ops).
Proof.
  intros Hs Ho Hk. pose proof (proj1 (forallb_forall _ _) all_settings_left_ok s Hs) as H.
  unfold left_ok in H. rewrite Ho in H. apply left_ok_closed; assumption.
Qed.

Theorem table_phase_shift s ops k c atoms h : In s all_settings -> ops_of (sg_rot s) (sg_trans s) = Some ops -> In k ops ->
  int_vec h -> tools_sintl c (rowmul h (matR (fst k))) = tools_sintl c h ->
  SF c (map opR ops) atoms (rowmul h (matR (fst k)))
  = cmul (cis (- (2 * PI * vdot h (vecR12 (snd k))))) (SF c (map opR ops) atoms h).
Proof.
  intros Hs Ho Hk Hh Hstl. apply (SF_phase_shift c (map opR ops) atoms (opR k) h Hh); [|exact Hstl].
  eapply table_left_closed; eassumption.
Qed.

Theorem table_equiv_modulus s ops k c atoms h : In s all_settings -> ops_of (sg_rot s) (sg_trans s) = Some ops -> In k ops ->
  int_vec h -> tools_sintl c (rowmul h (matR (fst k))) = tools_sintl c h ->
  cnorm2 (SF c (map opR ops) atoms (rowmul h (matR (fst k)))) = cnorm2 (SF c (map opR ops) atoms h).
Proof.
  intros Hs Ho Hk Hh Hstl. apply (SF_equiv_modulus c (map opR ops) atoms (opR k) h Hh); [|exact Hstl].
  eapply table_left_closed; eassumption.
Qed.

(* with the metric hypothesis in the form the tables are checked for (C04: R' G R = G on the metric basis of the crystal system) *)
Theorem table_equiv_modulus_metric s ops k c atoms h : In s all_settings -> ops_of (sg_rot s) (sg_trans s) = Some ops -> In k ops ->
  int_vec h -> valid_cell c -> mdet (matR (fst k)) <> 0 ->
  mmul (mtrans (matR (fst k))) (mmul (metric c) (matR (fst k))) = metric c ->
  cnorm2 (SF c (map opR ops) atoms (rowmul h (matR (fst k)))) = cnorm2 (SF c (map opR ops) atoms h).
Proof.
  intros Hs Ho Hk Hh Hc HD HG. eapply table_equiv_modulus; try eassumption.
  apply sintl_metric_invariant; assumption.
Qed.

Theorem table_extinct s ops k c atoms h : In s all_settings -> ops_of (sg_rot s) (sg_trans s) = Some ops -> In k ops ->
  int_vec h -> rowmul h (matR (fst k)) = h -> cis (- (2 * PI * vdot h (vecR12 (snd k)))) <> c1 ->
  SF c (map opR ops) atoms h = c0.
Proof.
  intros Hs Ho Hk Hh Hfix Hne. apply (SF_extinct c (map opR ops) atoms (opR k) h Hh); [|exact Hfix|exact Hne].
  eapply table_left_closed; eassumption.
Qed.

(* non-vacuity: P 21/c, the 0k0 reflection with k = 1 is extinct for every cell and every atom list *)
Definition sg14 : option sgrec := find (fun r => (sg_no r =? 14)%Z) all_settings.
Example p21c_010_extinct : exists s ops, sg14 = Some s /\ ops_of (sg_rot s) (sg_trans s) = Some ops /\
  forall c atoms, SF c (map opR ops) atoms (mkV3 0 1 0) = c0.
Proof.
  destruct sg14 as [s|] eqn:E; [|vm_compute in E; discriminate].
  pose proof (find_some _ _ E) as [Hin _].
  assert (E' := E). vm_compute in E'. injection E' as <-.
  eexists _, _. split; [reflexivity|]. split; [vm_compute; reflexivity|].
  intros c atoms.
  match goal with |- SF c (map opR ?l) _ _ = _ => set (ops := l) end.
  set (k := ((-1, 0, 0, 0, 1, 0, 0, 0, -1), (0, 6, 6))%Z : op).
  assert (Hk : In k ops) by (vm_compute; tauto).
  refine (table_extinct _ ops k c atoms (mkV3 0 1 0) Hin _ Hk _ _ _).
  - vm_compute. reflexivity.
  - exists 0%Z, 1%Z, 0%Z. reflexivity.
  - unfold rowmul, mvmul, mtrans, matR, k; cbn. f_equal; ring.
  - unfold k, vecR12, vdot; cbn [fst snd vx vy vz].
    replace (0 * (0 / 12) + 1 * (6 / 12) + 0 * (6 / 12)) with (IZR 0 + 1 / 2) by (simpl; field).
    apply cis_not_one. lra.
Qed.

(* C17: the text handling of CIF / PDB ingestion *)
From Coq Require Import List Bool Ascii String Arith Lia.
From XV Require Import SGroup Ingest.
Import ListNotations.
Open Scope string_scope.

Fixpoint no_paren (s : string) : bool :=
  match s with EmptyString => true | String c r => negb (Ascii.eqb c "("%char) && no_paren r end.

Lemma take_no_paren d : no_paren d = true -> take_until_paren d = d.
Proof. induction d as [|c d IH]; cbn; [reflexivity|]. intros H. apply andb_prop in H. destruct H as [H1 H2].
  destruct (Ascii.eqb c "("); [discriminate|]. rewrite IH by exact H2. reflexivity. Qed.

Lemma take_esd d u : no_paren d = true -> take_until_paren (d ++ String "("%char u) = d.
Proof. induction d as [|c d IH]; cbn; [reflexivity|]. intros H. apply andb_prop in H. destruct H as [H1 H2].
  destruct (Ascii.eqb c "("); [discriminate|]. rewrite IH by exact H2. reflexivity. Qed.

(* standard uncertainties in parentheses are ignored, whatever follows the opening parenthesis *)
Theorem esd_ignored {X} (pf : string -> option X) d u : no_paren d = true ->
  remove_esd pf (d ++ "(" ++ u) = pf d /\ remove_esd pf d = pf d.
Proof. intros H. unfold remove_esd. change ("(" ++ u) with (String "("%char u). rewrite take_esd, take_no_paren by exact H. split; reflexivity. Qed.

(* whitespace stripping: the result has no whitespace and is the subsequence of the other characters; idempotent; ignores inserted whitespace *)
Fixpoint has_ws (s : string) : bool := match s with EmptyString => false | String c r => is_ws c || has_ws r end.
Lemma strip_no_ws s : has_ws (strip_ws s) = false.
Proof. induction s as [|c s IH]; cbn; [reflexivity|]. destruct (is_ws c) eqn:E; [exact IH|]. cbn. rewrite E, IH. reflexivity. Qed.
Lemma strip_id s : has_ws s = false -> strip_ws s = s.
Proof. induction s as [|c s IH]; cbn; [reflexivity|]. intros H. apply orb_false_elim in H. destruct H as [H1 H2]. rewrite H1, IH by exact H2. reflexivity. Qed.
Lemma strip_app a b : strip_ws (a ++ b) = strip_ws a ++ strip_ws b.
Proof. induction a as [|c a IH]; cbn; [reflexivity|]. destruct (is_ws c); cbn; rewrite IH; reflexivity. Qed.

(* PDB symbol: split / join round trip for well-formed tokens, then the '1' tokens are dropped *)
Definition tok_ok (t : string) : bool := negb (String.eqb t "") && negb (has_ws t).
Fixpoint join_sp (l : list string) : string :=
  match l with [] => "" | [t] => t | t :: r => t ++ " " ++ join_sp r end.

Lemma app_empty_r s : s ++ "" = s.
Proof. induction s as [|c s IH]; cbn; [reflexivity | rewrite IH; reflexivity]. Qed.
Lemma app_assoc' a b c : (a ++ b) ++ c = a ++ b ++ c.
Proof. induction a as [|x a IH]; cbn; [reflexivity | rewrite IH; reflexivity]. Qed.

Lemma split_aux_tok t cur rest : has_ws t = false ->
  split_ws_aux (t ++ rest) cur = split_ws_aux rest (cur ++ t).
Proof.
  revert cur; induction t as [|c t IH]; intros cur H; cbn.
  - rewrite app_empty_r. reflexivity.
  - apply orb_false_elim in H. destruct H as [H1 H2]. rewrite H1. rewrite IH by exact H2. rewrite app_assoc'. reflexivity.
Qed.

Lemma eqb_app_nonempty cur t : String.eqb t "" = false -> String.eqb (cur ++ t) "" = false.
Proof. destruct cur; cbn; [auto | reflexivity]. Qed.

Lemma split_join l : forallb tok_ok l = true -> split_ws (join_sp l) = l.
Proof.
  unfold split_ws. induction l as [|t r IH]; intros H; [reflexivity|].
  cbn in H. apply andb_prop in H. destruct H as [Ht Hr]. unfold tok_ok in Ht. apply andb_prop in Ht. destruct Ht as [Hne Hw].
  apply negb_true_iff in Hne. apply negb_true_iff in Hw.
  destruct r as [|t2 r'].
  - cbn [join_sp]. rewrite <- (app_empty_r t) at 1. rewrite split_aux_tok by exact Hw. cbn. rewrite Hne. reflexivity.
  - change (join_sp (t :: t2 :: r')) with (t ++ " " ++ join_sp (t2 :: r')).
    rewrite split_aux_tok by exact Hw. cbn [append split_ws_aux]. replace (is_ws " "%char) with true by reflexivity.
    cbn [append]. rewrite Hne. f_equal. apply IH. exact Hr.
Qed.

Theorem pdb_symbol l : forallb tok_ok l = true ->
  pdb_sg (join_sp l) = fold_right (fun t acc => lower_str t ++ acc) "" (filter (fun t => negb (String.eqb t "1")) l).
Proof. intros H. unfold pdb_sg. rewrite split_join by exact H. reflexivity. Qed.

(* the '1' place-holders are dropped: no token "1" survives, the other tokens appear lower-cased in order *)
Example pdb_symbol_examples :
  pdb_sg "P 21 21 21 " = "p212121" /\ pdb_sg "P 1 21 1" = "p21" /\ pdb_sg " C 1 2 1   " = "c2" /\ pdb_sg "P -1" = "p-1".
Proof. vm_compute. repeat split; reflexivity. Qed.

Lemma slice_spec a b s : length (slice a b s) <= b - a.
Proof.
  unfold slice. generalize (b - a) as k. intros k. revert s a. induction k as [|k IH]; intros s a'; cbn.
  - destruct (drop a' s); cbn; lia.
  - destruct (drop a' s) as [|c r] eqn:E; cbn; [lia|]. specialize (IH r 0). cbn in IH. lia.
Qed.

From XV Require Import Tab_sgnames.
Definition sg_keys : list string := map (fun e => fst (fst e)) sg_byname.

Lemma pdb_sgname_known field : let full := lower_str (fold_right (fun t acc => t ++ acc) "" (split_ws field)) in
  In full sg_keys -> pdb_sgname sg_keys field = full.
Proof.
  cbv zeta. intros H. unfold pdb_sgname.
  assert (E : existsb (String.eqb (lower_str (fold_right (fun t acc => t ++ acc) "" (split_ws field)))) sg_keys = true).
  { apply existsb_exists. eexists. split; [exact H | apply String.eqb_refl]. }
  rewrite E. reflexivity.
Qed.
Lemma pdb_sgname_unknown field :
  existsb (String.eqb (lower_str (fold_right (fun t acc => t ++ acc) "" (split_ws field)))) sg_keys = false ->
  pdb_sgname sg_keys field = pdb_sg field.
Proof. intros H. unfold pdb_sgname. rewrite H. reflexivity. Qed.

Example pdb_sgname_examples :
  pdb_sgname sg_keys "P 1" = "p1" /\ pdb_sgname sg_keys "P 3 m 1" = "p3m1" /\ pdb_sgname sg_keys "P 3 1 2" = "p312" /\
  pdb_sgname sg_keys "P 1 21/c 1" = "p21/c" /\ pdb_sgname sg_keys "C 1 2 1" = "c2" /\ pdb_sgname sg_keys "P 21 21 21" = "p212121".
Proof. vm_compute. repeat split; reflexivity. Qed.

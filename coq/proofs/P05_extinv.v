(* C05: with the real reflection conditions (sysabs, AST-translated) and operator extinction as the meaning of "allowed":
   for shells that fit in the box [-7,7]^3 the model of genhkl_all lists exactly the reflections no operation extinguishes, each once
   (monotone systems).  Two finite facts per setting, by computation: sysabs = not extinct on the asymmetric unit inside the box
   (C05_sysabs_is_operator_extinction) and extinction is the same for a representative and all its Laue images (ext_inv_ok). *)
From Coq Require Import ZArith List Bool String Lia.
From XV Require Import SGroup HklModel Traverse Tab_segm Ast_laue Tab_sg_all P05 P05_complete P06_fd P06_fd_main P05_all P05_nodup P05_qinv P05_final.
Import ListNotations.
Open Scope Z_scope.

Definition ext_inv_ok (H : Z) (s : sgrec) : bool :=
  match ops_of (sg_rot s) (sg_trans s), laue_mats s, lookup_segm segm_laue (sg_laue s) (sg_choice s) with
  | Some ops, Some L, Some segs =>
      forallb (fun h => if existsb (fun seg => in_region seg h) segs
                        then forallb (fun R => Bool.eqb (extinct ops (vmZ h R)) (extinct ops h)) L else true) (box H)
  | _, _, _ => false
  end.
Time Lemma ext_inv_all : forallb (ext_inv_ok 7) all_settings = true.
Proof. vm_cast_no_check (@eq_refl bool true). Qed.


From Coq Require Import Reals Lra Psatz.
From XV Require Import RealLib Mat3 Atan2 Cell Gen_laue P01_laue P01_laue_c P01_laue_d.
Open Scope R_scope.

Lemma laue_cell_invert_valid c : valid_cell c -> valid_cell (laue_cell_invert c).
Proof.
  intros H. pose proof (recip_facts c H) as F. cbv zeta in F.
  destruct F as (F0 & F1 & F2 & (R3 & C3) & (R4 & C4) & (R5 & C5)).
  pose proof (laue_volume_pos c H) as VP.
  set (r := laue_cell_invert c) in *. clearbody r.
  unfold valid_cell. rewrite F0, F1, F2. unfold gram. rewrite C3, C4, C5.
  cell_setup c H. cbn [c0 c1 c2 c3 c4 c5] in *. unfold rad in *.
  repeat split; try assumption; try pos.
  gram_setup.
  repeat match goal with
         | |- context [cos ?t] => trig_abstract_one t
         | |- context [sin ?t] => trig_abstract_one t
         end.
  match goal with |- 0 < ?e => replace e with ((w * w) * (w * w) / ((s * s) * (s0 * s0) * (s1 * s1))) end.
  - pos.
  - field_nsatz.
Qed.

Lemma laue_cell_invert_metric c : valid_cell c ->
  mmul (metric (laue_cell_invert c)) (metric c) = mI.
Proof.
  intros H. pose proof (recip_facts c H) as F. cbv zeta in F.
  destruct F as (F0 & F1 & F2 & (R3 & C3) & (R4 & C4) & (R5 & C5)).
  set (r := laue_cell_invert c) in *. clearbody r.
  unfold metric at 1. rewrite F0, F1, F2, C3, C4, C5. clear F0 F1 F2 C3 C4 C5 R3 R4 R5 r.
  cell_algebra c H. munfold.
  f_equal; field_nsatz.
Qed.

(* a valid cell is determined by its metric tensor *)
Lemma cos_inj_deg x y : 0 < x < 180 -> 0 < y < 180 -> cos (rad x) = cos (rad y) -> x = y.
Proof.
  intros Hx Hy E. destruct (deg_range x Hx), (deg_range y Hy). unfold rad in E.
  assert (x * PI / 180 = y * PI / 180).
  { destruct (Rtotal_order (x * PI / 180) (y * PI / 180)) as [L|[Q|G]]; [|exact Q|].
    - assert (cos (y * PI / 180) < cos (x * PI / 180)) by (apply cos_decreasing_1; lra). lra.
    - assert (cos (x * PI / 180) < cos (y * PI / 180)) by (apply cos_decreasing_1; lra). lra. }
  pose proof PI_RGT_0. apply (Rmult_eq_reg_r (PI / 180)); [lra | ]. apply Rgt_not_eq. lra.
Qed.

Lemma metric_inj c d : valid_cell c -> valid_cell d -> metric c = metric d -> c = d.
Proof.
  intros Hc Hd E. destruct c as [a b cc al be ga], d as [a' b' cc' al' be' ga'].
  unfold valid_cell, metric in *. cbn [c0 c1 c2 c3 c4 c5] in *.
  destruct Hc as (A1 & A2 & A3 & A4 & A5 & A6 & _), Hd as (B1 & B2 & B3 & B4 & B5 & B6 & _).
  injection E as E00 E01 E02 _ E11 E12 _ _ E22.
  assert (a = a') by nra. assert (b = b') by nra. assert (cc = cc') by nra. subst a' b' cc'.
  assert (cos (rad ga) = cos (rad ga')) by (apply (Rmult_eq_reg_l (a * b)); [lra | apply Rgt_not_eq; nra]).
  assert (cos (rad be) = cos (rad be')) by (apply (Rmult_eq_reg_l (a * cc)); [lra | apply Rgt_not_eq; nra]).
  assert (cos (rad al) = cos (rad al')) by (apply (Rmult_eq_reg_l (b * cc)); [lra | apply Rgt_not_eq; nra]).
  f_equal; apply cos_inj_deg; assumption.
Qed.

Lemma laue_cell_invert_involutive c : valid_cell c -> laue_cell_invert (laue_cell_invert c) = c.
Proof.
  intros H. pose proof (laue_cell_invert_valid c H) as H1. pose proof (laue_cell_invert_valid _ H1) as H2.
  apply metric_inj; try assumption.
  pose proof (laue_cell_invert_metric c H) as M1. pose proof (laue_cell_invert_metric _ H1) as M2.
  (* metric c** . metric c* = I and metric c* . metric c = I *)
  rewrite (minv_unique_l _ _ M2). apply mmul_I_comm in M1. rewrite <- (minv_unique_l _ _ M1). reflexivity.
Qed.

Lemma laue_BtB_recip c : valid_cell c ->
  mmul (mtrans (laue_form_b_mat c)) (laue_form_b_mat c) = metric (laue_cell_invert c).
Proof.
  intros H. rewrite (minv_unique_l _ _ (laue_B_recip_metric c H)).
  rewrite (minv_unique_l _ _ (laue_cell_invert_metric c H)). reflexivity.
Qed.

Lemma laue_b_to_cell_inv c : valid_cell c -> laue_b_to_cell (laue_form_b_mat c) = c.
Proof.
  intros H. unfold laue_b_to_cell; cbv zeta.
  change (laue_cell_invert (laue_a_to_cell (laue_form_b_mat c)) = c) || idtac.
  match goal with |- laue_cell_invert ?x = _ => replace x with (laue_cell_invert c) end.
  - apply laue_cell_invert_involutive; exact H.
  - symmetry. 
    transitivity (laue_a_to_cell (laue_form_b_mat c)).
    + unfold laue_a_to_cell; cbv zeta. destruct (laue_form_b_mat c); cbn. reflexivity.
    + apply laue_a_to_cell_of_metric; [apply laue_cell_invert_valid; exact H | apply laue_BtB_recip; exact H].
Qed.

(* C06: rows are ordered by non-decreasing sin(theta)/lambda - the sorting step of the model *)
From Coq Require Import ZArith List Bool Lia Sorted Permutation.
From XV Require Import SGroup HklModel Traverse HklSort.
Import ListNotations.
Open Scope Z_scope.

Definition qle (G : metricZ) (a b : hkl) : Prop := qform G a <= qform G b.

Lemma insq_perm G a l : Permutation (insq G a l) (a :: l).
Proof.
  induction l as [|b r IH]; cbn [insq]; [reflexivity|].
  destruct (qform G a <=? qform G b); [reflexivity|].
  rewrite IH. apply perm_swap.
Qed.

Lemma sortq_perm G l : Permutation (sortq G l) l.
Proof.
  induction l as [|a l IH]; cbn [sortq fold_right]; [reflexivity|].
  fold (sortq G l). rewrite insq_perm. constructor. exact IH.
Qed.

Lemma insq_sorted G a l : Sorted (qle G) l -> Sorted (qle G) (insq G a l).
Proof.
  induction l as [|b r IH]; intros S; cbn [insq].
  - repeat constructor.
  - destruct (qform G a <=? qform G b) eqn:E.
    + constructor; [exact S|]. constructor. unfold qle. lia.
    + inversion S as [|? ? Sr Hr]; subst. constructor; [apply IH; exact Sr|].
      destruct r as [|c r']; cbn [insq].
      * constructor. unfold qle. lia.
      * destruct (qform G a <=? qform G c); constructor; unfold qle.
        -- lia.
        -- inversion Hr; subst. assumption.
Qed.

Lemma sortq_sorted G l : Sorted (qle G) (sortq G l).
Proof.
  induction l as [|a l IH]; cbn [sortq fold_right]; [constructor|].
  fold (sortq G l). apply insq_sorted. exact IH.
Qed.

(* with a transitive order Sorted is StronglySorted: every earlier row has a key <= every later row *)
Lemma sortq_strongly G l : StronglySorted (qle G) (sortq G l).
Proof.
  apply Sorted_StronglySorted; [|apply sortq_sorted]. intros x y z; unfold qle; lia.
Qed.

(* the sorted list contains exactly the rows of the unsorted one, each as often *)
Lemma sortq_in G l h : In h (sortq G l) <-> In h l.
Proof. split; apply Permutation_in; [apply sortq_perm | symmetry; apply sortq_perm]. Qed.
Lemma sortq_nodup G l : NoDup l -> NoDup (sortq G l).
Proof. intros N. eapply Permutation_NoDup; [symmetry; apply sortq_perm | exact N]. Qed.
Lemma sortq_length G l : length (sortq G l) = length l.
Proof. apply Permutation_length, sortq_perm. Qed.

(* key sequences: the implementation's rows carry the same keys in the same order as the model's sorted rows -> they are sorted by key *)
Lemma map_sorted G l : Sorted (qle G) l -> Sorted Z.le (map (qform G) l).
Proof.
  induction 1 as [|a r Sr IH Hd]; cbn [map]; constructor; [exact IH|].
  destruct Hd; cbn [map]; constructor. assumption.
Qed.
Lemma list_eqb_Z_eq (l1 l2 : list Z) : list_eqb Z.eqb l1 l2 = true -> l1 = l2.
Proof.
  revert l2. induction l1 as [|x xs IH]; intros [|y ys]; cbn; try discriminate; [reflexivity|].
  intros H. apply andb_prop in H as [H1 H2]. apply Z.eqb_eq in H1. subst. f_equal. apply IH. exact H2.
Qed.
Lemma keyseq_sorted G m e : keyseq_ok G m e = true -> Sorted Z.le (map (qform G) e).
Proof.
  unfold keyseq_ok. destruct m as [l|]; [|discriminate]. intros H. apply list_eqb_Z_eq in H. rewrite <- H. apply map_sorted, sortq_sorted.
Qed.
Lemma keyseq_length G l e : keyseq_ok G (Some l) e = true -> length e = length l.
Proof.
  unfold keyseq_ok. intros H. apply list_eqb_Z_eq in H. apply (f_equal (@length Z)) in H. rewrite !map_length, sortq_length in H. symmetry. exact H.
Qed.

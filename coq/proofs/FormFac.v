(* C16: form factors.  General (analytic) lemmas about f(s) = sum a_i exp(-b_i s^2) + c as generated from
   structure.FormFactor, with coefficients given in millionths. *)
From Coq Require Import Reals ZArith List Bool String Lra Lia Psatz.
From XV Require Import RealLib Mat3 Gen_structure Elements.
Import ListNotations.
Open Scope R_scope.

Definition nthZ (l : list Z) (i : nat) : R := IZR (List.nth i l 0%Z) / 1000000.

(* the generated FormFactor applied to a table row *)
Definition ff_R (row : list Z) (s : R) : R :=
  structure_FormFactor_coeffs (nthZ row 0) (nthZ row 1) (nthZ row 2) (nthZ row 3)
                              (nthZ row 4) (nthZ row 5) (nthZ row 6) (nthZ row 7) (nthZ row 8) s.

Lemma ff_formula row s :
  ff_R row s = nthZ row 0 * exp (- (nthZ row 4 * (s * s))) + nthZ row 1 * exp (- (nthZ row 5 * (s * s)))
             + nthZ row 2 * exp (- (nthZ row 6 * (s * s))) + nthZ row 3 * exp (- (nthZ row 7 * (s * s))) + nthZ row 8.
Proof.
  unfold ff_R, structure_FormFactor_coeffs.
  repeat match goal with |- context [exp ?e] =>
    match e with
    | - (_ * (s * s)) => fail 1
    | - ?b * s * s => replace (- b * s * s) with (- (b * (s * s))) by ring
    end end.
  ring.
Qed.

(* one Gaussian term a exp(-b x), x = s^2: non-increasing in x when a b >= 0, strictly when a b > 0 *)
Lemma term_mono a b x y : 0 <= a * b -> x <= y -> a * exp (- (b * y)) <= a * exp (- (b * x)).
Proof.
  intros Hab Hxy. destruct (Rle_lt_dec 0 b) as [Hb|Hb].
  - destruct (Rle_lt_dec 0 a) as [Ha|Ha].
    + apply Rmult_le_compat_l; [exact Ha|].
      assert (L : b * x <= b * y) by (apply Rmult_le_compat_l; assumption).
      destruct L as [L|E]; [left; apply exp_increasing; lra | rewrite E; lra].
    + destruct Hb as [Hb|Hb].
      * exfalso. assert (a * b < 0) by (replace (a * b) with (- ((- a) * b)) by ring; apply Ropp_lt_gt_0_contravar; apply Rmult_lt_0_compat; lra). lra.
      * subst b. rewrite !Rmult_0_l. lra.
  - assert (Ha : a <= 0).
    { destruct (Rle_lt_dec a 0) as [L|L]; [exact L|]. exfalso.
      assert (a * b < 0) by (replace (a * b) with (- (a * (- b))) by ring; apply Ropp_lt_gt_0_contravar; apply Rmult_lt_0_compat; lra). lra. }
    replace (a * exp (- (b * y))) with (- ((- a) * exp (- (b * y)))) by ring.
    replace (a * exp (- (b * x))) with (- ((- a) * exp (- (b * x)))) by ring.
    apply Ropp_le_contravar. apply Rmult_le_compat_l; [lra|].
    assert (L : (- b) * x <= (- b) * y) by (apply Rmult_le_compat_l; lra).
    replace (- (b * x)) with (- b * x) by ring. replace (- (b * y)) with (- b * y) by ring.
    destruct L as [L|E]; [left; apply exp_increasing; exact L | rewrite E; lra].
Qed.

Lemma term_strict a b x y : 0 < a * b -> x < y -> a * exp (- (b * y)) < a * exp (- (b * x)).
Proof.
  intros Hab Hxy. destruct (Rlt_le_dec 0 b) as [Hb|Hb].
  - assert (Ha : 0 < a) by nra. apply Rmult_lt_compat_l; [exact Ha|]. apply exp_increasing. nra.
  - assert (Hb' : b < 0) by (destruct Hb as [Hb|Hb]; [exact Hb | subst b; rewrite Rmult_0_r in Hab; lra]).
    assert (Ha : a < 0) by nra.
    replace (a * exp (- (b * y))) with (- ((- a) * exp (- (b * y)))) by ring.
    replace (a * exp (- (b * x))) with (- ((- a) * exp (- (b * x)))) by ring.
    apply Ropp_lt_contravar. apply Rmult_lt_compat_l; [lra|]. apply exp_increasing. nra.
Qed.

(* boolean conditions on a row (integers, decided by computation) *)
Definition nz (l : list Z) (i : nat) : Z := List.nth i l 0%Z.
Definition ab_ok (row : list Z) : bool :=
  (0 <=? nz row 0 * nz row 4)%Z && (0 <=? nz row 1 * nz row 5)%Z && (0 <=? nz row 2 * nz row 6)%Z
  && (0 <=? nz row 3 * nz row 7)%Z && (0 <? nz row 0 * nz row 4)%Z && (Nat.eqb (List.length row) 9).
Definition f0_ok (e : string * list Z) : bool :=
  match atomic_number (fst e) with
  | Some z => (Z.abs (nz (snd e) 0 + nz (snd e) 1 + nz (snd e) 2 + nz (snd e) 3 + nz (snd e) 8 - z * 1000000) <=? 100000)%Z
  | None => false
  end.

Lemma prod_sign (a b : Z) : (0 <= a * b)%Z -> 0 <= (IZR a / 1000000) * (IZR b / 1000000).
Proof.
  intros H. apply IZR_le in H. rewrite mult_IZR in H.
  replace (IZR a / 1000000 * (IZR b / 1000000)) with (IZR a * IZR b / 1000000000000) by (field).
  apply Rmult_le_pos; [exact H | lra].
Qed.
Lemma prod_sign_strict (a b : Z) : (0 < a * b)%Z -> 0 < (IZR a / 1000000) * (IZR b / 1000000).
Proof.
  intros H. apply IZR_lt in H. rewrite mult_IZR in H.
  replace (IZR a / 1000000 * (IZR b / 1000000)) with (IZR a * IZR b / 1000000000000) by (field).
  apply Rmult_lt_0_compat; [exact H | lra].
Qed.

Lemma ff_decreasing row s1 s2 : ab_ok row = true -> 0 <= s1 < s2 -> ff_R row s2 < ff_R row s1.
Proof.
  intros H Hs. unfold ab_ok in H. repeat (apply andb_prop in H; destruct H as [H ?]).
  repeat match goal with X : (_ <=? _)%Z = true |- _ => apply Z.leb_le in X end.
  repeat match goal with X : (_ <? _)%Z = true |- _ => apply Z.ltb_lt in X end.
  rewrite !ff_formula. unfold nthZ, nz in *.
  assert (Hx : s1 * s1 < s2 * s2) by nra.
  match goal with X : (0 < List.nth 0 row 0 * _)%Z |- _ =>
    pose proof (term_strict _ _ _ _ (prod_sign_strict _ _ X) Hx) as T0 end.
  match goal with X : (0 <= List.nth 1 row 0 * _)%Z |- _ =>
    pose proof (term_mono _ _ _ _ (prod_sign _ _ X) (Rlt_le _ _ Hx)) as T1 end.
  match goal with X : (0 <= List.nth 2 row 0 * _)%Z |- _ =>
    pose proof (term_mono _ _ _ _ (prod_sign _ _ X) (Rlt_le _ _ Hx)) as T2 end.
  match goal with X : (0 <= List.nth 3 row 0 * _)%Z |- _ =>
    pose proof (term_mono _ _ _ _ (prod_sign _ _ X) (Rlt_le _ _ Hx)) as T3 end.
  lra.
Qed.

Lemma ff_at_zero row : ff_R row 0 = nthZ row 0 + nthZ row 1 + nthZ row 2 + nthZ row 3 + nthZ row 8.
Proof. rewrite ff_formula. rewrite !Rmult_0_r, Ropp_0, exp_0. ring. Qed.

Lemma ff_f0 e z : atomic_number (fst e) = Some z -> f0_ok e = true -> Rabs (ff_R (snd e) 0 - IZR z) <= 1 / 10.
Proof.
  intros Hz H. unfold f0_ok in H. rewrite Hz in H. apply Z.leb_le in H.
  rewrite ff_at_zero. unfold nthZ, nz in *.
  match type of H with (Z.abs ?u <= _)%Z => set (t := u) in * end.
  match goal with |- Rabs ?x <= _ => replace x with (IZR t / 1000000) end.
  - apply Rabs_le. apply Z.abs_le in H. destruct H as [H1 H2]. apply IZR_le in H1, H2.
    rewrite opp_IZR in H1. split; lra.
  - subst t. rewrite !minus_IZR, !plus_IZR, mult_IZR. field.
Qed.

Lemma ff_positive row s : ab_ok row = true -> 0 < ff_R row 2 -> 0 <= s <= 2 -> 0 < ff_R row s.
Proof.
  intros H P [H0 H2]. destruct (Req_dec s 2) as [->|N]; [exact P|].
  pose proof (ff_decreasing row s 2 H ltac:(lra)). lra.
Qed.

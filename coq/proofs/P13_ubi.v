(* C13: form_b_mat / form_a_mat recover upper triangular positive-diagonal matrices; ubi_to_u_and_eps *)
From Coq Require Import Reals Lra Psatz.
From XV Require Import RealLib Mat3 Atan2 Cell Gen_laue P01_laue P01_laue_b P01_laue_c P01_laue_d P01_laue_e P02_laue P13_laue P13_cellof.
Open Scope R_scope.

(* A upper triangular with positive diagonal is the A matrix of its own cell *)
Lemma laue_form_a_of_cell A : upper_posdiag A -> laue_form_a_mat (laue_a_to_cell A) = A.
Proof.
  intros HA. assert (D : mdet A <> 0) by (pose proof (upper_posdiag_det A HA); lra).
  destruct (laue_a_to_cell_valid A D) as [V M].
  apply chol_unique; [apply laue_A_upper_posdiag; exact V | exact HA |].
  rewrite laue_A_metric by exact V. exact M.
Qed.

(* for the reciprocal side: the cell whose A'A is the inverse of B'B has B matrix B *)
Lemma laue_form_b_of_recip B A : upper_posdiag B -> mdet A <> 0 ->
  mmul (mmul (mtrans B) B) (mmul (mtrans A) A) = mI -> laue_form_b_mat (laue_a_to_cell A) = B.
Proof.
  intros HB D E. destruct (laue_a_to_cell_valid A D) as [V M].
  apply chol_unique; [apply laue_B_upper_posdiag; exact V | exact HB |].
  pose proof (laue_B_recip_metric _ V) as R. rewrite M in R.
  rewrite (minv_unique_l _ _ R), (minv_unique_l _ _ E). reflexivity.
Qed.

Lemma laue_form_b_of_ubi U B : is_rot U -> upper_posdiag B ->
  laue_form_b_mat (laue_ubi_to_cell (minv (mmul U B))) = B.
Proof.
  intros HU HB. rewrite laue_ubi_to_cell_eq.
  assert (DB : mdet B <> 0) by (pose proof (upper_posdiag_det B HB); lra).
  assert (DU : mdet U <> 0) by (apply rot_det_nz; exact HU).
  assert (DUB : mdet (mmul U B) <> 0) by (rewrite mdet_mmul; apply Rmult_integral_contrapositive_currified; assumption).
  apply laue_form_b_of_recip; [exact HB | |].
  - rewrite mdet_mtrans, mdet_minv by exact DUB. apply Rinv_neq_0_compat; exact DUB.
  - rewrite mtrans_invol. rewrite minv_mmul by assumption. rewrite (rot_minv U HU).
    rewrite mtrans_mmul, mtrans_invol.
    replace (mmul (mmul (minv B) (mtrans U)) (mmul U (mtrans (minv B)))) with (mmul (minv B) (mtrans (minv B))).
    + rewrite <- minv_mtrans. rewrite <- minv_mmul by (rewrite ?mdet_mtrans; exact DB).
      apply minv_r. rewrite mdet_mmul, mdet_mtrans. apply Rmult_integral_contrapositive_currified; exact DB.
    + rewrite mmul_assoc, <- (mmul_assoc (mtrans U)). destruct HU as [-> _]. rewrite mmul_I_l. reflexivity.
Qed.

Lemma laue_ubi_to_u_general U B : is_rot U -> upper_posdiag B -> laue_ubi_to_u (minv (mmul U B)) = U.
Proof.
  intros HU HB. rewrite laue_ubi_to_u_eq, laue_form_b_of_ubi by assumption.
  assert (DB : mdet B <> 0) by (pose proof (upper_posdiag_det B HB); lra).
  rewrite minv_mmul by (try exact DB; apply rot_det_nz; exact HU).
  rewrite <- mmul_assoc, minv_r, mmul_I_l by exact DB. rewrite (rot_minv U HU). apply mtrans_invol.
Qed.

Definition strain_small (eps : V6) : Prop := -1 < c0 eps /\ -1 < c3 eps /\ -1 < c5 eps.

Lemma laue_strained_b_posdiag eps c : valid_cell c -> strain_small eps -> upper_posdiag (laue_epsilon_to_b eps c).
Proof.
  intros Hc (S0 & S1 & S2). pose proof (laue_B_upper_posdiag c Hc) as [[U1 [U2 U3]] [P0 [P1 P2]]].
  rewrite laue_epsilon_to_b_def. set (B0 := laue_form_b_mat c) in *.
  destruct B0 as [a b cc d e f g h i], eps as [e11 e12 e13 e22 e23 e33]. cbn in *. subst.
  unfold Tmat, minv, mscale, madj, mdet, upper_posdiag, upper; cbn.
  assert (0 < (e11 + 1) / a) by (apply Rdiv_lt_0_compat; lra).
  assert (0 < (e22 + 1) / e) by (apply Rdiv_lt_0_compat; lra).
  assert (0 < (e33 + 1) / i) by (apply Rdiv_lt_0_compat; lra).
  set (x := (e11 + 1) / a) in *. set (y := (e22 + 1) / e) in *. set (z := (e33 + 1) / i) in *.
  repeat split; try ring.
  - replace (_ * _) with (/ x) by (field; repeat split; lra). apply Rinv_0_lt_compat; assumption.
  - replace (_ * _) with (/ y) by (field; repeat split; lra). apply Rinv_0_lt_compat; assumption.
  - replace (_ * _) with (/ z) by (field; repeat split; lra). apply Rinv_0_lt_compat; assumption.
Qed.

Lemma laue_ubi_u_eps U eps c : is_rot U -> valid_cell c -> strain_small eps ->
  laue_ubi_to_u_and_eps (minv (mmul U (laue_epsilon_to_b eps c))) c = (U, eps).
Proof.
  intros HU Hc Hs. pose proof (laue_strained_b_posdiag eps c Hc Hs) as HB.
  set (B := laue_epsilon_to_b eps c) in *.
  assert (DB : mdet B <> 0) by (pose proof (upper_posdiag_det B HB); lra).
  rewrite laue_ubi_to_u_and_eps_eq, laue_ubi_to_u_general by assumption. f_equal.
  rewrite (minv_mmul U B) by (try exact DB; apply rot_det_nz; exact HU).
  rewrite mmul_assoc. rewrite (rot_minv U HU). destruct HU as [HO _]. rewrite HO, mmul_I_r.
  rewrite minv_invol by exact DB. unfold B. apply laue_eps_roundtrip; [exact Hc|].
  destruct Hs as (S0 & S1 & S2). repeat split; lra.
Qed.

(* C05: the model of genhkl_all lists exactly the allowed reflections of the shell, each once, for every setting of the
   orthorhombic, tetragonal, cubic and hexagonal-axes systems (and orthogonal monoclinic / triclinic metrics) and every conforming
   reciprocal metric; the only hypothesis left about the reflection conditions is their invariance under the Laue group. *)
From Coq Require Import ZArith List Bool String Lia.
From XV Require Import SGroup HklModel Traverse Tab_segm Tab_sg_all P05 P05_complete P06_fd P06_fd_main P05_all P05_nodup P05_qinv.
Import ListNotations.
Open Scope Z_scope.

Theorem exact_in_monotone_systems s L segs rots G Tmin Tmax Tterm allowed fuel reps :
  In s all_settings -> all_mats (firstn (Z.to_nat (sg_nuniq s)) (sg_rot s)) = Some rots -> L = rots ++ map mnegZ rots ->
  lookup_segm segm_laue (sg_laue s) (sg_choice s) = Some segs ->
  (sg_choice s = "standard" \/ sg_choice s = "hexagonal")%string -> monotone_system (sg_laue s) (sg_choice s) G ->
  0 <= Tmin -> Tmax <= Tterm -> (forall R h, In R L -> qform G h <= Tmax -> allowed (vmZ h R) = allowed h) ->
  all_segments G Tmin Tmax Tterm allowed fuel segs = Some reps ->
  NoDup (flat_map (expand rots) reps) /\
  forall h, In h (flat_map (expand rots) reps) <-> (allowed h = true /\ Tmin < qform G h <= Tmax).
Proof.
  intros Hs Hrots HL Hsegs Hc HM H0 HT Ha H.
  apply (all_rows_exact s L segs rots G Tmin Tmax Tterm allowed fuel reps Hs Hrots HL Hsegs H0 HT); try assumption.
  - intros seg Hseg. apply (monotone_system_ok (sg_laue s) (sg_choice s) G Hc HM). unfold segs_of. rewrite Hsegs. exact Hseg.
  - apply (qinv_setting s L G Hs (laue_mats_L s L rots Hrots HL) Hc HM).
Qed.

(* non-vacuity: Pnma (62) with an orthorhombic metric is such a setting *)
Example monotone_setting_exists : exists s, In s all_settings /\ sg_no s = 62 /\ (sg_choice s = "standard")%string /\
  monotone_system (sg_laue s) (sg_choice s) (mkMet 7 11 13 0 0 0).
Proof.
  destruct (find (fun r => sg_no r =? 62) all_settings) as [s|] eqn:E; [|vm_compute in E; discriminate].
  pose proof (find_some _ _ E) as [Hin Hno]. exists s. split; [exact Hin|]. apply Z.eqb_eq in Hno. split; [exact Hno|].
  assert (E' := E). vm_compute in E'. injection E' as <-. split; [reflexivity|].
  left. split; [reflexivity|]. unfold orthogonal; cbn. lia.
Qed.

(* C13 for xfab.laue: strain <-> B *)
From Coq Require Import Reals Lra Psatz.
From XV Require Import RealLib Mat3 Atan2 Cell Gen_laue P01_laue P01_laue_b P01_laue_c P01_laue_d P01_laue_e P02_laue.
Open Scope R_scope.

(* the strain of a matrix M = B0 . B^-1 : symmetric part minus identity, as [e11 e12 e13 e22 e23 e33] *)
Definition sym_minus_I (M : M3) : V6 :=
  mkV6 (m00 M - 1) ((m01 M + m10 M) / 2) ((m02 M + m20 M) / 2) (m11 M - 1) ((m12 M + m21 M) / 2) (m22 M - 1).

Lemma laue_b_to_epsilon_def B c : laue_b_to_epsilon B c = sym_minus_I (mmul (laue_form_b_mat c) (minv B)).
Proof.
  unfold laue_b_to_epsilon, sym_minus_I; cbv zeta.
  set (B0 := laue_form_b_mat c). set (Bi := minv B).
  destruct B0 as [a b cc d e f g h i], Bi as [a' b' c' d' e' f' g' h' i']. unfold mmul; cbn. f_equal; field.
Qed.

(* the upper triangular matrix T with sym(B0 T) - I = eps, as the code builds it *)
Definition Tmat (B0 : M3) (eps : V6) : M3 :=
  let t11 := (c3 eps + 1) / m11 B0 in
  let t22 := (c5 eps + 1) / m22 B0 in
  let t12 := (2 * c4 eps - m12 B0 * t22) / m11 B0 in
  mkM3 ((c0 eps + 1) / m00 B0) ((2 * c1 eps - m01 B0 * t11) / m00 B0)
       ((2 * c2 eps - m01 B0 * t12 - m02 B0 * t22) / m00 B0)
       0 t11 t12 0 0 t22.

Lemma laue_epsilon_to_b_def eps c : laue_epsilon_to_b eps c = minv (Tmat (laue_form_b_mat c) eps).
Proof. reflexivity. Qed.

Definition strain_ok (eps : V6) : Prop := c0 eps <> -1 /\ c3 eps <> -1 /\ c5 eps <> -1.

Lemma Tmat_det B0 eps : upper_posdiag B0 -> strain_ok eps -> mdet (Tmat B0 eps) <> 0.
Proof.
  intros [[U1 [U2 U3]] [P0 [P1 P2]]] (S0 & S1 & S2).
  destruct B0 as [a b cc d e f g h i], eps as [e11 e12 e13 e22 e23 e33]. unfold Tmat, mdet; cbn in *.
  replace (_ - _ + _) with ((e11 + 1) / a * ((e22 + 1) / e * ((e33 + 1) / i))) by (field; repeat split; lra).
  repeat apply Rmult_integral_contrapositive_currified; try (apply Rinv_neq_0_compat; lra); lra.
Qed.

Lemma sym_B0_T B0 eps : upper_posdiag B0 -> sym_minus_I (mmul B0 (Tmat B0 eps)) = eps.
Proof.
  intros [[U1 [U2 U3]] [P0 [P1 P2]]].
  destruct B0 as [a b cc d e f g h i], eps as [e11 e12 e13 e22 e23 e33]. unfold Tmat, sym_minus_I, mmul; cbn in *. subst.
  f_equal; field; repeat split; lra.
Qed.

Lemma laue_eps_roundtrip eps c : valid_cell c -> strain_ok eps ->
  laue_b_to_epsilon (laue_epsilon_to_b eps c) c = eps.
Proof.
  intros Hc Hs. pose proof (laue_B_upper_posdiag c Hc) as HB.
  rewrite laue_b_to_epsilon_def, laue_epsilon_to_b_def, minv_invol by (apply Tmat_det; assumption).
  apply sym_B0_T; exact HB.
Qed.

Lemma laue_zero_strain c : valid_cell c -> laue_epsilon_to_b (mkV6 0 0 0 0 0 0) c = laue_form_b_mat c.
Proof.
  intros Hc. pose proof (laue_B_upper_posdiag c Hc) as HB. rewrite laue_epsilon_to_b_def.
  symmetry. apply minv_unique_l.
  set (B0 := laue_form_b_mat c) in *. destruct HB as [[U1 [U2 U3]] [P0 [P1 P2]]].
  destruct B0 as [a b cc d e f g h i]. unfold Tmat, mmul, mI; cbn in *. subst. f_equal; field; repeat split; lra.
Qed.

(* the other direction: for an upper triangular B with non-zero diagonal *)
Lemma Tmat_of_strain B0 T : upper_posdiag B0 -> upper T -> Tmat B0 (sym_minus_I (mmul B0 T)) = T.
Proof.
  intros [[U1 [U2 U3]] [P0 [P1 P2]]] (V1 & V2 & V3).
  destruct B0 as [a b cc d e f g h i], T as [a' b' c' d' e' f' g' h' i']. unfold Tmat, sym_minus_I, mmul; cbn in *. subst.
  f_equal; field; repeat split; lra.
Qed.

Lemma upper_minv B : upper B -> mdet B <> 0 -> upper (minv B).
Proof.
  intros (U1 & U2 & U3) D. destruct B as [a b c d e f g h i]. unfold minv, mscale, madj, upper; cbn in *. subst.
  repeat split; ring.
Qed.

Lemma laue_b_roundtrip B c : valid_cell c -> upper B -> mdet B <> 0 ->
  laue_epsilon_to_b (laue_b_to_epsilon B c) c = B.
Proof.
  intros Hc HU HD. pose proof (laue_B_upper_posdiag c Hc) as HB.
  rewrite laue_epsilon_to_b_def, laue_b_to_epsilon_def, Tmat_of_strain by (try assumption; apply upper_minv; assumption).
  apply minv_invol; exact HD.
Qed.

(* UBI built from U and a strained B gives back U and the strain *)
Lemma laue_ubi_to_u_and_eps_eq A c :
  laue_ubi_to_u_and_eps A c =
  (laue_ubi_to_u A, laue_b_to_epsilon (minv (mmul A (laue_ubi_to_u A))) c).
Proof. reflexivity. Qed.

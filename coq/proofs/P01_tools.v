(* C01 for xfab.tools, derived from the laue lemmas through the C14 bridge lemmas *)
From Coq Require Import Reals Lra Psatz.
From XV Require Import RealLib Mat3 Atan2 Cell Gen_laue Gen_tools P01_laue P01_laue_b P01_laue_c P01_laue_d P01_laue_e P14_cell.
Open Scope R_scope.

Lemma tools_b_scaled c : valid_cell c -> tools_form_b_mat c = mscale (2 * PI) (laue_form_b_mat c).
Proof.
  intros H. pose proof (laue_volume_pos c H) as VP.
  destruct H as (Ha & Hb & Hc & Hal & Hbe & Hga & Hg).
  pose proof (sin_deg_pos _ Hal). pose proof (sin_deg_pos _ Hbe). pose proof (sin_deg_pos _ Hga).
  apply tl_form_b_mat; apply Rgt_not_eq; assumption.
Qed.

Lemma tools_A_upper_posdiag c : valid_cell c -> upper_posdiag (tools_form_a_mat c).
Proof. rewrite tl_form_a_mat. apply laue_A_upper_posdiag. Qed.
Lemma tools_A_metric c : valid_cell c -> mmul (mtrans (tools_form_a_mat c)) (tools_form_a_mat c) = metric c.
Proof. rewrite tl_form_a_mat. apply laue_A_metric. Qed.

Lemma tools_B_upper_posdiag c : valid_cell c -> upper_posdiag (tools_form_b_mat c).
Proof.
  intros H. rewrite tools_b_scaled by exact H. destruct (laue_B_upper_posdiag c H) as [[U1 [U2 U3]] [P0 [P1 P2]]].
  pose proof PI_RGT_0. unfold upper_posdiag, upper, mscale; cbn [m00 m01 m02 m10 m11 m12 m20 m21 m22].
  rewrite U1, U2, U3. repeat split; try ring; pos.
Qed.

Lemma tools_B_recip_metric c : valid_cell c ->
  mmul (mmul (mtrans (tools_form_b_mat c)) (tools_form_b_mat c)) (metric c) = mscale ((2 * PI) * (2 * PI)) mI.
Proof.
  intros H. rewrite tools_b_scaled by exact H.
  rewrite mtrans_mscale, mmul_mscale_l, mmul_mscale_r, mscale_mscale, mmul_mscale_l, laue_B_recip_metric by exact H.
  reflexivity.
Qed.

Lemma tools_detA_volume c : valid_cell c -> mdet (tools_form_a_mat c) = tools_cell_volume c.
Proof. rewrite tl_form_a_mat, tl_cell_volume. apply laue_detA_volume. Qed.
Lemma tools_volume_sq c : valid_cell c -> tools_cell_volume c * tools_cell_volume c = mdet (metric c).
Proof. rewrite tl_cell_volume. apply laue_volume_sq. Qed.

Lemma tools_sintl_norm c h : valid_cell c ->
  tools_sintl c h = vnorm (mvmul (tools_form_b_mat c) h) / (4 * PI).
Proof.
  intros H. rewrite tl_sintl, tools_b_scaled, laue_sintl_norm by exact H.
  rewrite mvmul_mscale. unfold vnorm.
  pose proof PI_RGT_0.
  replace (vnorm2 (vscale (2 * PI) (mvmul (laue_form_b_mat c) h)))
    with ((2 * PI) * (2 * PI) * vnorm2 (mvmul (laue_form_b_mat c) h))
    by (destruct (mvmul (laue_form_b_mat c) h); munfold; ring).
  rewrite sqrt_mult by (try apply vnorm2_nonneg; nra). rewrite sqrt_square by lra. field. lra.
Qed.

Lemma tools_a_to_cell_inv c : valid_cell c -> tools_a_to_cell (tools_form_a_mat c) = c.
Proof. rewrite tl_a_to_cell, tl_form_a_mat. apply laue_a_to_cell_inv. Qed.
Lemma tools_b_to_cell_inv c : valid_cell c -> tools_b_to_cell (tools_form_b_mat c) = c.
Proof. intros H. rewrite tools_b_scaled, tl_b_to_cell by exact H. apply laue_b_to_cell_inv; exact H. Qed.
Lemma tools_cell_invert_valid c : valid_cell c -> valid_cell (tools_cell_invert c).
Proof. rewrite tl_cell_invert. apply laue_cell_invert_valid. Qed.
Lemma tools_cell_invert_metric c : valid_cell c -> mmul (metric (tools_cell_invert c)) (metric c) = mI.
Proof. rewrite tl_cell_invert. apply laue_cell_invert_metric. Qed.
Lemma tools_cell_invert_involutive c : valid_cell c -> tools_cell_invert (tools_cell_invert c) = c.
Proof. rewrite !tl_cell_invert. apply laue_cell_invert_involutive. Qed.
Lemma tools_a_mat_inv c : valid_cell c ->
  mmul (tools_form_a_mat_inv c) (tools_form_a_mat c) = mI /\ mmul (tools_form_a_mat c) (tools_form_a_mat_inv c) = mI.
Proof. rewrite tl_form_a_mat_inv, tl_form_a_mat. apply laue_a_mat_inv. Qed.

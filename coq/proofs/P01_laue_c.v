From Coq Require Import Reals Lra Psatz.
From XV Require Import RealLib Mat3 Atan2 Cell Gen_laue P01_laue.
Open Scope R_scope.

Lemma div2_cos d x y t : 0 < x -> 0 < y -> d = x * y * cos t -> d / x / y = cos t.
Proof. intros Hx Hy ->. field. split; lra. Qed.

(* any matrix whose Gram matrix is the metric of c has cell c *)
Lemma laue_a_to_cell_of_metric A c : valid_cell c ->
  mmul (mtrans A) A = metric c -> laue_a_to_cell A = c.
Proof.
  intros H E. destruct A as [a00 a01 a02 a10 a11 a12 a20 a21 a22]. cell_setup c H.
  unfold laue_a_to_cell, metric, rad in *; cbv zeta; munfold.
  injection E as E00 E01 E02 E10 E11 E12 E20 E21 E22.
  assert (N0 : sqrt (a00 * a00 + a10 * a10 + a20 * a20) = a) by (apply sqrt_unique; lra).
  assert (N1 : sqrt (a01 * a01 + a11 * a11 + a21 * a21) = b) by (apply sqrt_unique; lra).
  assert (N2 : sqrt (a02 * a02 + a12 * a12 + a22 * a22) = cc) by (apply sqrt_unique; lra).
  rewrite N0, N1, N2.
  f_equal.
  - rewrite (div2_cos _ b cc (al * PI / 180)) by lra. apply acos_cos_deg; assumption.
  - rewrite (div2_cos _ a cc (be * PI / 180)) by lra. apply acos_cos_deg; assumption.
  - rewrite (div2_cos _ a b (ga * PI / 180)) by lra. apply acos_cos_deg; assumption.
Qed.

Lemma laue_a_to_cell_inv c : valid_cell c -> laue_a_to_cell (laue_form_a_mat c) = c.
Proof. intros H. apply laue_a_to_cell_of_metric; [exact H | apply laue_A_metric; exact H]. Qed.

Lemma laue_a_mat_inv c : valid_cell c ->
  mmul (laue_form_a_mat_inv c) (laue_form_a_mat c) = mI /\ mmul (laue_form_a_mat c) (laue_form_a_mat_inv c) = mI.
Proof.
  intros H. unfold laue_form_a_mat_inv; cbv zeta.
  assert (D : mdet (laue_form_a_mat c) <> 0).
  { rewrite laue_detA_volume by exact H. apply Rgt_not_eq. apply laue_volume_pos; exact H. }
  split; [apply minv_l | apply minv_r]; exact D.
Qed.

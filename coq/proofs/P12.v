(* C12: the finite facts about the regenerated symmetry tables (by computation in Q(sqrt 3)) and their transport to
   real matrices, instantiating the list-level Umis theorems. *)
From Coq Require Import QArith Reals Lra List Bool Permutation Arith.
From XV Require Import RealLib Mat3 QS3 SymGroup Tab_sym Gen_tools Gen_symmetry P12_umis.
Import ListNotations.

Lemma sym_all : forallb (fun k => sym_ok k perm_tab rot_tab rot_cached_tab) [1; 2; 3; 4; 5; 6; 7]%nat = true.
Proof. vm_compute. reflexivity. Qed.

Lemma sym_orders : map (fun k => option_map (@length qm) (perms_of k perm_tab)) [1; 2; 3; 4; 5; 6; 7]%nat
                   = map Some [1; 2; 4; 8; 6; 12; 24]%nat
                /\ map (fun k => option_map (@length qm) (rots_of k rot_tab)) [1; 2; 3; 4; 5; 6; 7]%nat
                   = map Some [1; 2; 4; 8; 6; 12; 24]%nat.
Proof. vm_compute. split; reflexivity. Qed.

Definition toRl (G : list qm) : list M3 := map toRm G.

(* --- transport ------------------------------------------------------------------------------------------------- *)
Lemma index_of_spec x l i : index_of x l = Some i -> toRm x = List.nth i (toRl l) mI.
Proof.
  revert i; induction l as [|y l IH]; intros i H; cbn in H; [discriminate|].
  destruct (qmeqb x y) eqn:E.
  - injection H as <-. cbn. apply toRm_eqb; exact E.
  - destruct (index_of x l) as [j|] eqn:F; [|discriminate]. injection H as <-. cbn. apply IH. reflexivity.
Qed.

Lemma all_some_map_spec {A} (f : A -> option nat) (g : A -> M3) (h : nat -> M3) (l : list A) sigma :
  (forall a i, f a = Some i -> g a = h i) ->
  all_some (map f l) = Some sigma -> map g l = map h sigma.
Proof.
  intros Hf. revert sigma; induction l as [|a l IH]; intros sigma H; cbn in H.
  - injection H as <-. reflexivity.
  - destruct (f a) as [i|] eqn:E; [|discriminate].
    destruct (all_some (map f l)) as [s|] eqn:F; [|discriminate]. injection H as <-.
    cbn. f_equal; [apply Hf; exact E | apply IH; reflexivity].
Qed.

Lemma right_idx_spec G Gj sigma : right_idx G Gj = Some sigma ->
  map (fun Rm => mmul Rm (mtrans (toRm Gj))) (toRl G) = map (fun i => List.nth i (toRl G) mI) sigma.
Proof.
  intros H. unfold toRl at 1. rewrite map_map.
  apply (all_some_map_spec (fun Rq => index_of (qmmul Rq (qmtrans Gj)) G)); [|exact H].
  intros a i E. rewrite <- toRm_trans, <- toRm_mmul. apply index_of_spec; exact E.
Qed.
Lemma left_idx_spec G Gj sigma : left_idx G Gj = Some sigma ->
  map (fun Rm => mmul (toRm Gj) Rm) (toRl G) = map (fun i => List.nth i (toRl G) mI) sigma.
Proof.
  intros H. unfold toRl at 1. rewrite map_map.
  apply (all_some_map_spec (fun Rq => index_of (qmmul Gj Rq) G)); [|exact H].
  intros a i E. rewrite <- toRm_mmul. apply index_of_spec; exact E.
Qed.
Lemma trans_idx_spec G sigma : trans_idx G = Some sigma ->
  map mtrans (toRl G) = map (fun i => List.nth i (toRl G) mI) sigma.
Proof.
  intros H. unfold toRl at 1. rewrite map_map.
  apply (all_some_map_spec (fun Rq => index_of (qmtrans Rq) G)); [|exact H].
  intros a i E. rewrite <- toRm_trans. apply index_of_spec; exact E.
Qed.

Lemma is_perm_spec l n : is_perm l n = true -> Permutation l (seq 0 n).
Proof.
  unfold is_perm. intros H. apply andb_prop in H. destruct H as [HL HF]. apply Nat.eqb_eq in HL.
  apply is_perm_Permutation; [exact HL|].
  intros i Hi. rewrite forallb_forall in HF. specialize (HF i). rewrite in_seq in HF.
  assert (E : existsb (Nat.eqb i) l = true) by (apply HF; simpl; split; [apply Nat.le_0_l | exact Hi]).
  apply existsb_exists in E. destruct E as [x [Hx Hq]]. apply Nat.eqb_eq in Hq. subst. exact Hx.
Qed.

Lemma proper_rot_spec Rq : proper_rot Rq = true -> is_rot (toRm Rq).
Proof.
  unfold proper_rot. intros H. apply andb_prop in H. destruct H as [H1 H2]. split.
  - rewrite <- toRm_trans, <- toRm_mmul, <- toRm_I. apply toRm_eqb; exact H1.
  - rewrite <- toR_det. rewrite (toR_eqb _ _ H2). apply toR_1.
Qed.

(* --- the statement for one crystal system ------------------------------------------------------------------------ *)
Definition umis_invariances (G : list M3) : Prop :=
  (forall Rm, In Rm G -> is_rot Rm) /\ In mI G /\
  (forall Gj U1 U2, In Gj G -> Permutation (umis_angles G U1 (mmul U2 Gj)) (umis_angles G U1 U2)) /\
  (forall Gj U1 U2, In Gj G -> Permutation (umis_angles G (mmul U1 Gj) U2) (umis_angles G U1 U2)) /\
  (forall U1 U2, Permutation (umis_angles G U2 U1) (umis_angles G U1 U2)) /\
  (forall Q U1 U2, is_rot Q -> umis_angles G (mmul Q U1) (mmul Q U2) = umis_angles G U1 U2) /\
  (forall U, is_rot U -> In 0%R (umis_angles G U U)) /\
  (forall U1 U2 a, In a (umis_angles G U1 U2) -> (0 <= a <= 180)%R).

Lemma sym_ok_invariances k Rq : sym_ok k perm_tab rot_tab rot_cached_tab = true -> rots_of k rot_tab = Some Rq ->
  umis_invariances (toRl Rq) /\ length (toRl Rq) = sys_order k.
Proof.
  intros H HR. unfold sym_ok in H. rewrite HR in H.
  destruct (perms_of k perm_tab) as [P|]; [|discriminate].
  destruct (rots_of k rot_cached_tab) as [C|]; [|discriminate].
  repeat (apply andb_prop in H; destruct H as [H ?]).
  match goal with X : Nat.eqb (length Rq) _ = true |- _ => apply Nat.eqb_eq in X; rename X into HLen end.
  match goal with X : forallb proper_rot Rq = true |- _ => rename X into HProp end.
  match goal with X : is_group Rq = true |- _ => rename X into HGrp end.
  match goal with X : forallb (fun Gj => _ && _) Rq = true |- _ => rename X into HIdx end.
  match goal with X : idx_ok (trans_idx Rq) _ = true |- _ => rename X into HTr end.
  assert (LenR : length (toRl Rq) = sys_order k) by (unfold toRl; rewrite map_length; exact HLen).
  split; [|exact LenR].
  unfold umis_invariances.
  split; [|split; [|split; [|split; [|split; [|split; [|split]]]]]].
  - intros Rm HIn. unfold toRl in HIn. apply in_map_iff in HIn. destruct HIn as [q [<- Hq]].
    apply proper_rot_spec. rewrite forallb_forall in HProp. apply HProp; exact Hq.
  - unfold is_group in HGrp. repeat (apply andb_prop in HGrp; destruct HGrp as [HGrp ?]).
    apply existsb_exists in HGrp. destruct HGrp as [q [Hq E]]. rewrite <- toRm_I, (toRm_eqb _ _ E). unfold toRl. apply in_map; exact Hq.
  - intros Gj U1 U2 HIn. unfold toRl in HIn. apply in_map_iff in HIn. destruct HIn as [q [<- Hq]].
    rewrite forallb_forall in HIdx. specialize (HIdx q Hq). apply andb_prop in HIdx. destruct HIdx as [HRi _].
    unfold idx_ok in HRi. destruct (right_idx Rq q) as [sigma|] eqn:E; [|discriminate].
    apply (umis_right_perm (toRl Rq) U1 U2 (toRm q) sigma); [rewrite LenR; apply is_perm_spec; exact HRi | apply right_idx_spec; exact E].
  - intros Gj U1 U2 HIn. unfold toRl in HIn. apply in_map_iff in HIn. destruct HIn as [q [<- Hq]].
    rewrite forallb_forall in HIdx. specialize (HIdx q Hq). apply andb_prop in HIdx. destruct HIdx as [_ HLi].
    unfold idx_ok in HLi. destruct (left_idx Rq q) as [sigma|] eqn:E; [|discriminate].
    apply (umis_left_perm (toRl Rq) U1 U2 (toRm q) sigma); [rewrite LenR; apply is_perm_spec; exact HLi | apply left_idx_spec; exact E].
  - intros U1 U2. unfold idx_ok in HTr. destruct (trans_idx Rq) as [sigma|] eqn:E; [|discriminate].
    apply (umis_swap_perm (toRl Rq) U1 U2 sigma); [rewrite LenR; apply is_perm_spec; exact HTr | apply trans_idx_spec; exact E].
  - intros Q U1 U2 HQ. apply umis_common_eq; exact HQ.
  - intros U HU. apply umis_self_zero; [exact HU|].
    unfold is_group in HGrp. repeat (apply andb_prop in HGrp; destruct HGrp as [HGrp ?]).
    apply existsb_exists in HGrp. destruct HGrp as [q [Hq E]]. rewrite <- toRm_I, (toRm_eqb _ _ E). unfold toRl. apply in_map; exact Hq.
  - intros U1 U2 a Ha. unfold umis_angles in Ha. apply in_map_iff in Ha. destruct Ha as [Rm [<- _]]. apply Umis_range.
Qed.

Theorem umis_all_systems k Rq : In k [1; 2; 3; 4; 5; 6; 7]%nat -> rots_of k rot_tab = Some Rq ->
  umis_invariances (toRl Rq) /\ length (toRl Rq) = sys_order k.
Proof.
  intros Hk HR. apply sym_ok_invariances; [|exact HR].
  exact (proj1 (forallb_forall _ _) sym_all k Hk).
Qed.

Lemma tables_present : forall k, In k [1; 2; 3; 4; 5; 6; 7]%nat -> exists Rq, rots_of k rot_tab = Some Rq.
Proof.
  intros k Hk. repeat (destruct Hk as [<-|Hk]; [eexists; vm_compute; reflexivity|]). destruct Hk.
Qed.

(* C01 for xfab.laue: lemmas about the GENERATED definitions (Gen_laue) against spec/Cell. *)
From Coq Require Import Reals Lra Psatz.
From XV Require Import RealLib Mat3 Atan2 Cell Gen_laue.
Open Scope R_scope.

(* bring a valid cell into algebraic form: lengths a b c, cosines/sines with s>0, w = sqrt gram *)
Ltac cell_setup c H :=
  let a := fresh "a" in let b := fresh "b" in let cc := fresh "cc" in
  let al := fresh "al" in let be := fresh "be" in let ga := fresh "ga" in
  destruct c as [a b cc al be ga];
  unfold valid_cell, gram, rad in H; cbn [c0 c1 c2 c3 c4 c5] in H;
  let Ha := fresh "Ha" in let Hb := fresh "Hb" in let Hc := fresh "Hc" in
  let Hal := fresh "Hal" in let Hbe := fresh "Hbe" in let Hga := fresh "Hga" in let Hg := fresh "Hg" in
  destruct H as (Ha & Hb & Hc & Hal & Hbe & Hga & Hg);
  pose proof (sin_deg_pos _ Hal) as Hsal; pose proof (sin_deg_pos _ Hbe) as Hsbe;
  pose proof (sin_deg_pos _ Hga) as Hsga.

Ltac gram_setup :=
  match goal with
  | Hg : 0 < ?g |- _ =>
      match g with
      | context [cos] =>
          let w := fresh "w" in
          pose proof (sqrt_lt_R0 _ Hg) as Hw; pose proof (sqrt_sqrt g (Rlt_le _ _ Hg)) as Hww;
          set (w := sqrt g) in *; clearbody w
      end
  end.

Lemma laue_volume_eq c : valid_cell c ->
  laue_cell_volume c = c0 c * c1 c * c2 c * sqrt (gram c).
Proof. intros H. unfold laue_cell_volume, gram, rad. reflexivity. Qed.

Ltac gen_unfold :=
  unfold laue_form_a_mat, laue_form_b_mat, laue_cell_volume, laue_cell_invert, laue_sintl,
         laue_form_a_mat_inv, metric, gram, rad in *;
  cbv zeta; cbn [c0 c1 c2 c3 c4 c5 m00 m01 m02 m10 m11 m12 m20 m21 m22 vx vy vz] in *.

(* the workhorse: valid cell -> trig variables, w = sqrt(gram), then field + nsatz *)
Ltac cell_algebra c H :=
  cell_setup c H; gen_unfold; gram_setup;
  repeat match goal with
         | |- context [cos ?t] => trig_abstract_one t
         | |- context [sin ?t] => trig_abstract_one t
         end.

Lemma laue_A_upper_posdiag c : valid_cell c -> upper_posdiag (laue_form_a_mat c).
Proof.
  intros H. cell_algebra c H. unfold upper_posdiag, upper; cbn.
  repeat split; try reflexivity; try pos.
Qed.

Lemma laue_A_metric c : valid_cell c -> mmul (mtrans (laue_form_a_mat c)) (laue_form_a_mat c) = metric c.
Proof.
  intros H. cell_algebra c H. munfold.
  f_equal; field_nsatz.
Qed.

Lemma laue_B_upper_posdiag c : valid_cell c -> upper_posdiag (laue_form_b_mat c).
Proof.
  intros H. cell_algebra c H. unfold upper_posdiag, upper; cbn.
  repeat split; try reflexivity; try pos.
Qed.

(* B'B is the reciprocal metric: (B'B) . G = I *)
Lemma laue_B_recip_metric c : valid_cell c ->
  mmul (mmul (mtrans (laue_form_b_mat c)) (laue_form_b_mat c)) (metric c) = mI.
Proof.
  intros H. cell_algebra c H. munfold.
  f_equal; field_nsatz.
Qed.

Lemma laue_detA_volume c : valid_cell c -> mdet (laue_form_a_mat c) = laue_cell_volume c.
Proof. intros H. cell_algebra c H. munfold. field_nsatz. Qed.

Lemma laue_volume_sq c : valid_cell c -> laue_cell_volume c * laue_cell_volume c = mdet (metric c).
Proof. intros H. cell_algebra c H. munfold. field_nsatz. Qed.

Lemma laue_volume_pos c : valid_cell c -> 0 < laue_cell_volume c.
Proof. intros H. cell_algebra c H. pos. Qed.


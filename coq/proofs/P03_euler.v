(* C03: u_to_euler (laue; tools is the same function by C14).  Range of the returned angles, and the exact inverse
   euler_to_u (u_to_euler U) = U away from the two tolerance bands of the code (gimbal band |PHI| or |PHI - pi| < 1e-8; an
   argument of _arctan2 below 1e-8 relative to the other). *)
From Coq Require Import Reals Lra Psatz.
From XV Require Import RealLib Mat3 Atan2 Gen_laue P03_laue.
Open Scope R_scope.

Ltac brk := repeat match goal with |- context [if ?c then _ else _] => destruct c end.

(* _arctan2 either returns numpy's arctan2 or one of the four axis values *)
Lemma arctan2_range y x r : laue_arctan2 y x = Some r -> - PI < r <= PI.
Proof.
  unfold laue_arctan2; cbv zeta. pose proof PI_RGT_0 as P. pose proof (atan2_range y x) as A. unfold atan2 in A.
  intros H.
  repeat match type of H with context [if ?c then _ else _] => destruct c end; try discriminate; injection H as <-;
    try lra;
    repeat match type of A with context [if ?c then _ else _] => destruct c end; lra.
Qed.

Definition generic (y x : R) : Prop :=
  (x <> 0 \/ y <> 0) /\ 1 / 100000000 * Rmax (Rabs x) (Rabs y) <= Rabs x /\ 1 / 100000000 * Rmax (Rabs x) (Rabs y) <= Rabs y.

Lemma arctan2_generic y x : generic y x -> laue_arctan2 y x = Some (atan2 y x).
Proof.
  intros (Hnz & Hx & Hy). unfold laue_arctan2, atan2; cbv zeta.
  unfold Rmax in *. destruct (Rle_dec (Rabs x) (Rabs y)) as [L|L];
  unfold Rabs in *; destruct (Rcase_abs x), (Rcase_abs y); brk; try reflexivity; try (exfalso; lra); try (f_equal; lra).
Qed.

Theorem euler_range U e : laue_u_to_euler U = Some e ->
  0 <= vx e <= 2 * PI /\ 0 <= vy e <= PI /\ 0 <= vz e <= 2 * PI.
Proof.
  unfold laue_u_to_euler. pose proof PI_RGT_0 as P. pose proof (acos_bound (m22 U)) as A. intros H.
  repeat match type of H with
  | context [match laue_arctan2 ?y ?x with _ => _ end] =>
      let r := fresh "r" in let E := fresh "E" in
      destruct (laue_arctan2 y x) as [r|] eqn:E; [apply arctan2_range in E | discriminate]
  | context [if ?c then _ else _] => destruct c
  end; try discriminate; injection H as <-; cbn [vx vy vz]; lra.
Qed.

(* Rz is 2 pi periodic *)
Lemma Rz_2PI t : Rz (t + 2 * PI) = Rz t.
Proof. unfold Rz. rewrite cos_plus, sin_plus, cos_2PI, sin_2PI. f_equal; ring. Qed.

(* the generic case: PHI = acos U22 with sin PHI = s > 0; phi1 = atan2(U02, -U12), phi2 = atan2(U20, U21) *)
Lemma euler_main U : is_rot U -> (m12 U <> 0 \/ m02 U <> 0) ->
  mmul (Rz (atan2 (m02 U) (- m12 U))) (mmul (Rx (acos (m22 U))) (Rz (atan2 (m20 U) (m21 U)))) = U.
Proof.
  intros HR Hnz. pose proof (rot_UUt U HR) as HT. pose proof (rot_minv U HR) as HA. destruct HR as [HO HD].
  unfold minv in HA. rewrite HD, Rinv_1 in HA.
  destruct U as [a b c d e f g h i]. cbn [m00 m01 m02 m10 m11 m12 m20 m21 m22] in *.
  unfold mmul, mtrans, mI, mdet in HO, HT, HD; cbn in HO, HT, HD.
  unfold mscale, madj, mtrans in HA; cbn in HA. rewrite !Rmult_1_l in HA.
  injection HO as O0 O1 O2 O3 O4 O5 O6 O7 O8. injection HT as T0 T1 T2 T3 T4 T5 T6 T7 T8.
  injection HA as A0 A1 A2 A3 A4 A5 A6 A7 A8.
  assert (Hs2 : c * c + f * f = 1 - i * i) by nra.
  assert (Hs2' : g * g + h * h = 1 - i * i) by nra.
  assert (Hpos : 0 < 1 - i * i) by (destruct Hnz as [N|N]; [assert (0 < f * f) by nra | assert (0 < c * c) by nra]; nra).
  assert (Hi : -1 <= i <= 1) by nra.
  set (s := sqrt (1 - i * i)).
  assert (Hs : s * s = 1 - i * i) by (apply sqrt_sqrt; lra).
  assert (Hs0 : 0 < s) by (apply sqrt_lt_R0; exact Hpos).
  assert (C1 : cos (atan2 c (- f)) = - f / s).
  { rewrite cos_atan2 by (destruct Hnz; [left; lra | right; assumption]).
    replace (- f * - f + c * c) with (1 - i * i) by lra. reflexivity. }
  assert (S1 : sin (atan2 c (- f)) = c / s).
  { rewrite sin_atan2 by (destruct Hnz; [left; lra | right; assumption]).
    replace (- f * - f + c * c) with (1 - i * i) by lra. reflexivity. }
  assert (Hnz2 : h <> 0 \/ g <> 0) by (destruct (Req_dec h 0); [right; intro; subst; nra | left; assumption]).
  assert (C2 : cos (atan2 g h) = h / s).
  { rewrite cos_atan2 by exact Hnz2. replace (h * h + g * g) with (1 - i * i) by lra. reflexivity. }
  assert (S2 : sin (atan2 g h) = g / s).
  { rewrite sin_atan2 by exact Hnz2. replace (h * h + g * g) with (1 - i * i) by lra. reflexivity. }
  assert (CP : cos (acos i) = i) by (apply cos_acos; lra).
  assert (SP : sin (acos i) = s) by (unfold s; rewrite sin_acos by lra; f_equal; unfold Rsqr; ring).
  unfold Rz, Rx, mmul; cbn. rewrite C1, S1, C2, S2, CP, SP.
  assert (Hsn : s <> 0) by lra.
  f_equal; field_simplify_eq; try exact Hsn; clearbody s; clear - A0 A1 A2 A3 A4 A5 A6 A7 A8 T2 T5 T8 O8 Hs; try reflexivity; nsatz_R.
Qed.

Definition not_gimbal (U : M3) : Prop :=
  1 / 100000000 <= Rabs (acos (m22 U)) /\ 1 / 100000000 <= Rabs (acos (m22 U) - PI).

Theorem euler_exact U : is_rot U -> not_gimbal U -> generic (m02 U) (- m12 U) -> generic (m20 U) (m21 U) ->
  exists e, laue_u_to_euler U = Some e /\ laue_euler_to_u (vx e) (vy e) (vz e) = U.
Proof.
  intros HR [G1 G2] Ga Gb. unfold laue_u_to_euler.
  destruct (Rlt_dec _ _) as [L|_]; [lra|]. destruct (Rlt_dec _ _) as [L|_]; [lra|].
  rewrite (arctan2_generic _ _ Ga), (arctan2_generic _ _ Gb).
  assert (Hnz : m12 U <> 0 \/ m02 U <> 0) by (destruct Ga as [[N|N] _]; [left; lra | right; exact N]).
  pose proof (euler_main U HR Hnz) as M.
  destruct (Rlt_dec _ 0), (Rlt_dec _ 0); eexists; (split; [reflexivity|]); cbn [vx vy vz];
    rewrite laue_euler_comp, ?Rz_2PI; exact M.
Qed.

(* the other direction: angles in the open generic region are returned as given *)
Theorem euler_of_angles p1 P p2 : 0 <= p1 < 2 * PI -> 0 <= p2 < 2 * PI -> 0 < P < PI ->
  let U := laue_euler_to_u p1 P p2 in
  not_gimbal U -> generic (m02 U) (- m12 U) -> generic (m20 U) (m21 U) ->
  laue_u_to_euler U = Some (mkV3 p1 P p2).
Proof.
  intros H1 H2 HP U NG Ga Gb. pose proof PI_RGT_0 as Pi.
  assert (E22 : m22 U = cos P) by (unfold U, laue_euler_to_u; cbv zeta; cbn; ring).
  assert (E02 : m02 U = sin p1 * sin P) by (unfold U, laue_euler_to_u; cbv zeta; cbn; ring).
  assert (E12 : - m12 U = cos p1 * sin P) by (unfold U, laue_euler_to_u; cbv zeta; cbn; ring).
  assert (E20 : m20 U = sin p2 * sin P) by (unfold U, laue_euler_to_u; cbv zeta; cbn; ring).
  assert (E21 : m21 U = cos p2 * sin P) by (unfold U, laue_euler_to_u; cbv zeta; cbn; ring).
  assert (SP : 0 < sin P) by (apply sin_gt_0; lra).
  unfold laue_u_to_euler. destruct NG as [G1 G2].
  destruct (Rlt_dec _ _) as [L|_]; [lra|]. destruct (Rlt_dec _ _) as [L|_]; [lra|].
  rewrite (arctan2_generic _ _ Ga), (arctan2_generic _ _ Gb).
  rewrite E22, acos_cos by lra. rewrite E02, E12, E20, E21.
  (* atan2 (k sin t) (k cos t) = atan2 (sin t) (cos t) for k > 0, and the wrap into [0, 2 pi) *)
  assert (SC : forall t k, 0 < k -> atan2 (sin t * k) (cos t * k) = atan2 (sin t) (cos t)).
  { intros t k Hk. apply cos_sin_inj; try apply atan2_range.
    - assert (N : cos t <> 0 \/ sin t <> 0) by (destruct (Req_dec (cos t) 0) as [Z|Z]; [right; intro Z2; generalize (sin2_cos2 t); unfold Rsqr; rewrite Z, Z2; lra | left; exact Z]).
      rewrite !cos_atan2; [| exact N | destruct N; [left|right]; nra].
      replace (cos t * k * (cos t * k) + sin t * k * (sin t * k)) with ((cos t * cos t + sin t * sin t) * (k * k)) by ring.
      generalize (sin2_cos2 t); unfold Rsqr; intros Q. replace (cos t * cos t + sin t * sin t) with 1 by lra.
      rewrite Rmult_1_l, sqrt_square, sqrt_1 by lra. field; lra.
    - assert (N : cos t <> 0 \/ sin t <> 0) by (destruct (Req_dec (cos t) 0) as [Z|Z]; [right; intro Z2; generalize (sin2_cos2 t); unfold Rsqr; rewrite Z, Z2; lra | left; exact Z]).
      rewrite !sin_atan2; [| exact N | destruct N; [left|right]; nra].
      replace (cos t * k * (cos t * k) + sin t * k * (sin t * k)) with ((cos t * cos t + sin t * sin t) * (k * k)) by ring.
      generalize (sin2_cos2 t); unfold Rsqr; intros Q. replace (cos t * cos t + sin t * sin t) with 1 by lra.
      rewrite Rmult_1_l, sqrt_square, sqrt_1 by lra. field; lra. }
  rewrite !SC by exact SP.
  assert (W : forall t, 0 <= t < 2 * PI ->
            (if Rlt_dec (atan2 (sin t) (cos t)) 0 then atan2 (sin t) (cos t) + 2 * PI else atan2 (sin t) (cos t)) = t).
  { intros t Ht. destruct (Rle_dec t PI) as [Le|Gt].
    - rewrite atan2_cos_sin by lra. destruct (Rlt_dec t 0); lra.
    - replace (sin t) with (sin (t - 2 * PI)) by (rewrite sin_minus, cos_2PI, sin_2PI; ring).
      replace (cos t) with (cos (t - 2 * PI)) by (rewrite cos_minus, cos_2PI, sin_2PI; ring).
      rewrite atan2_cos_sin by lra. destruct (Rlt_dec (t - 2 * PI) 0); lra. }
  pose proof (W p1 H1) as W1. pose proof (W p2 H2) as W2.
  destruct (Rlt_dec (atan2 (sin p1) (cos p1)) 0), (Rlt_dec (atan2 (sin p2) (cos p2)) 0); rewrite W1, W2; reflexivity.
Qed.

(* non-vacuity: the rotation with Euler angles (1, 1, 1) is in the generic region *)
From Interval Require Import Tactic.
Example euler_111_generic : let U := laue_euler_to_u 1 1 1 in is_rot U /\ not_gimbal U /\ generic (m02 U) (- m12 U) /\ generic (m20 U) (m21 U).
Proof.
  intros U. split; [apply laue_euler_rot|].
  assert (E22 : m22 U = cos 1) by (unfold U, laue_euler_to_u; cbv zeta; cbn; ring).
  assert (E02 : m02 U = sin 1 * sin 1) by (unfold U, laue_euler_to_u; cbv zeta; cbn; ring).
  assert (E12 : - m12 U = cos 1 * sin 1) by (unfold U, laue_euler_to_u; cbv zeta; cbn; ring).
  assert (E20 : m20 U = sin 1 * sin 1) by (unfold U, laue_euler_to_u; cbv zeta; cbn; ring).
  assert (E21 : m21 U = cos 1 * sin 1) by (unfold U, laue_euler_to_u; cbv zeta; cbn; ring).
  assert (B1 : 0.7 < sin 1 * sin 1 < 0.71) by (split; interval).
  assert (B2 : 0.45 < cos 1 * sin 1 < 0.46) by (split; interval).
  assert (P3 : 3.14 < PI < 3.15) by (split; interval).
  split; [|split].
  - unfold not_gimbal. rewrite E22, acos_cos by lra. split; unfold Rabs; destruct (Rcase_abs _); lra.
  - unfold generic. rewrite E02, E12. unfold Rmax, Rabs. destruct (Rcase_abs _), (Rcase_abs _), (Rle_dec _ _); lra.
  - unfold generic. rewrite E20, E21. unfold Rmax, Rabs. destruct (Rcase_abs _), (Rcase_abs _), (Rle_dec _ _); lra.
Qed.

(* tools is the same function *)
From XV Require Import Gen_tools P14_rot.
Lemma tools_euler_range U e : tools_u_to_euler U = Some e -> 0 <= vx e <= 2 * PI /\ 0 <= vy e <= PI /\ 0 <= vz e <= 2 * PI.
Proof. rewrite tl_u_to_euler. apply euler_range. Qed.
Lemma tools_euler_exact U : is_rot U -> not_gimbal U -> generic (m02 U) (- m12 U) -> generic (m20 U) (m21 U) ->
  exists e, tools_u_to_euler U = Some e /\ tools_euler_to_u (vx e) (vy e) (vz e) = U.
Proof. intros. rewrite tl_u_to_euler. destruct (euler_exact U) as (e & E1 & E2); try assumption. exists e. rewrite tl_euler_to_u. auto. Qed.
Lemma tools_euler_of_angles p1 P p2 : 0 <= p1 < 2 * PI -> 0 <= p2 < 2 * PI -> 0 < P < PI ->
  let U := tools_euler_to_u p1 P p2 in
  not_gimbal U -> generic (m02 U) (- m12 U) -> generic (m20 U) (m21 U) -> tools_u_to_euler U = Some (mkV3 p1 P p2).
Proof. intros H1 H2 H3. cbv zeta. rewrite tl_euler_to_u, tl_u_to_euler. apply euler_of_angles; assumption. Qed.

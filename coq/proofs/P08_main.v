(* C08: instantiation on the regenerated tables, and the loop skeleton of StructureFactor traced on small symbolic structures *)
From Coq Require Import Reals ZArith List Bool Permutation Lia Lra.
From XV Require Import RealLib Mat3 Cplx Cell SGroup SGLeft Orbit Tab_sg_all P07_all Gen_tools Gen_structure P07 P07_gen P07_tab P07_main P08_orbit P08.
Import ListNotations.
Open Scope R_scope.

Lemma opR_id_ident : is_ident (opR op_id).
Proof.
  split; [reflexivity|]. exists 0%Z, 0%Z, 0%Z. unfold opR, op_id, vecR12; cbn [snd]. f_equal; unfold Rdiv; ring.
Qed.

Lemma table_group_like s ops : In s all_settings -> ops_of (sg_rot s) (sg_trans s) = Some ops -> group_like (map opR ops).
Proof.
  intros Hs Ho. pose proof (proj1 (forallb_forall _ _) all_settings_left_ok s Hs) as H. unfold left_ok in H. rewrite Ho in H.
  split.
  - exists (opR op_id). split; [apply in_map; apply left_ok_ident; exact H | apply opR_id_ident].
  - intros k Hk. apply in_map_iff in Hk. destruct Hk as (k0 & <- & Hk0). split.
    + exists (fst k0). split; [reflexivity | apply (left_ok_det ops); assumption].
    + apply left_ok_closed; assumption.
Qed.
Lemma table_int_ops ops : int_ops (map opR ops).
Proof. intros o Ho. apply in_map_iff in Ho. destruct Ho as (k0 & <- & _). exists (fst k0). reflexivity. Qed.

Theorem table_explicit_sum s ops c atoms h : In s all_settings -> ops_of (sg_rot s) (sg_trans s) = Some ops -> int_vec h ->
  (forall a, In a atoms -> adp_ok c (map opR ops) a /\ a_multi a = INR (length (cell_sites (a_pos a) (map opR ops)))) ->
  SF c (map opR ops) atoms h = SF_explicit c (map opR ops) atoms h.
Proof. intros Hs Ho Hh Hat. apply SF_is_explicit_sum; [exact Hh | eapply table_group_like; eassumption | exact Hat]. Qed.

Theorem table_lattice_shift (ops : list op) c a L rest h : int_vec h -> int_vec L ->
  SF c (map opR ops) (set_pos a (vadd (a_pos a) L) :: rest) h = SF c (map opR ops) (a :: rest) h.
Proof. intros Hh HL. apply SF_lattice_shift; [exact Hh | exact HL | apply table_int_ops]. Qed.

(* non-vacuity: an isotropic atom whose multiplicity is the number of its sites meets the hypotheses in P 21/c *)
Example explicit_hypotheses_satisfiable : exists s ops, sg14 = Some s /\ ops_of (sg_rot s) (sg_trans s) = Some ops /\
  forall c x U occ ff fp fpp h, int_vec h ->
    let a := mkAtom x (Uiso U) occ (INR (length (cell_sites x (map opR ops)))) ff fp fpp in
    SF c (map opR ops) [a] h = SF_explicit c (map opR ops) [a] h.
Proof.
  destruct sg14 as [s|] eqn:E; [|vm_compute in E; discriminate].
  pose proof (find_some _ _ E) as [Hin _].
  destruct (ops_of (sg_rot s) (sg_trans s)) as [ops|] eqn:Eo.
  - exists s, ops. split; [reflexivity|]. split; [exact Eo|]. intros c x U occ ff fp fpp h Hh a.
    apply (table_explicit_sum s ops c [a] h Hin Eo Hh). intros a' [<-|[]]. split; [exact I | reflexivity].
  - exfalso. pose proof (proj1 (forallb_forall _ _) all_settings_left_ok s Hin) as H. unfold left_ok in H. rewrite Eo in H. discriminate.
Qed.

(* --- the loop skeleton: StructureFactor traced on a two-atom structure (one operation; dispersion entry for the first type, None for
       the second) and on a one-atom structure with two operations is the sum of the per-term functions used in SF ----------------- *)
Lemma skeleton_two_atoms h c Rm t x1 x2 U1 occ1 occ2 m1 m2 nsym f1 f2 fp fpp :
  c_of (structure_sf_two_atoms h c Rm t x1 x2 U1 occ1 occ2 m1 m2 nsym f1 f2 fp fpp)
  = cadd (c_of (structure_sf_term_uiso h c Rm t x1 U1 occ1 m1 nsym f1 fp fpp))
         (c_of (structure_sf_term_noadp h c Rm t x2 occ2 m2 nsym f2 0 0)).
Proof.
  unfold structure_sf_two_atoms, structure_sf_term_uiso, structure_sf_term_noadp, c_of, cadd; cbv zeta; cbn [p0 p1 fst snd].
  apply C_ext; cbn [fst snd]; ring.
Qed.
Lemma skeleton_two_ops h c R1 t1 R2 t2 x adp occ m nsym f fp fpp :
  c_of (structure_sf_two_ops h c R1 t1 R2 t2 x adp occ m nsym f fp fpp)
  = cadd (c_of (structure_sf_term_uani h c R1 t1 x adp occ m nsym f fp fpp))
         (c_of (structure_sf_term_uani h c R2 t2 x adp occ m nsym f fp fpp)).
Proof.
  unfold structure_sf_two_ops, structure_sf_term_uani, c_of, cadd; cbv zeta; cbn [p0 p1 fst snd].
  apply C_ext; cbn [fst snd]; ring.
Qed.

(* hence the traced two-atom run is SF on that structure (INR 1 stands for the symbolic operation count) *)
Theorem two_atoms_is_SF h c Rm t x1 x2 U1 occ1 occ2 m1 m2 ff1 ff2 fp fpp :
  c_of (structure_sf_two_atoms h c Rm t x1 x2 U1 occ1 occ2 m1 m2 (INR 1) (ff1 (tools_sintl c h)) (ff2 (tools_sintl c h)) fp fpp)
  = SF c [(Rm, t)] [mkAtom x1 (Uiso U1) occ1 m1 ff1 fp fpp; mkAtom x2 NoAdp occ2 m2 ff2 0 0] h.
Proof.
  rewrite skeleton_two_atoms. unfold SF, gen_term; cbn [map length a_adp a_pos a_occ a_multi a_ff a_fp a_fpp fst snd].
  rewrite !csum_cons, csum_nil, !cadd_0_r. reflexivity.
Qed.
Theorem two_ops_is_SF h c R1 t1 R2 t2 x adp occ m ff fp fpp :
  c_of (structure_sf_two_ops h c R1 t1 R2 t2 x adp occ m (INR 2) (ff (tools_sintl c h)) fp fpp)
  = SF c [(R1, t1); (R2, t2)] [mkAtom x (Uani adp) occ m ff fp fpp] h.
Proof.
  rewrite skeleton_two_ops. unfold SF, gen_term; cbn [map length a_adp a_pos a_occ a_multi a_ff a_fp a_fpp fst snd].
  rewrite !csum_cons, csum_nil, !cadd_0_r. reflexivity.
Qed.

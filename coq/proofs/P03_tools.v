(* C03 for xfab.tools through the C14 bridge *)
From Coq Require Import Reals.
From XV Require Import RealLib Mat3 Atan2 Gen_laue Gen_tools P03_laue P14_rot.
Open Scope R_scope.

Lemma tools_euler_comp p1 P p2 : tools_euler_to_u p1 P p2 = mmul (Rz p1) (mmul (Rx P) (Rz p2)).
Proof. rewrite tl_euler_to_u. apply laue_euler_comp. Qed.
Lemma tools_euler_rot p1 P p2 : is_rot (tools_euler_to_u p1 P p2).
Proof. rewrite tl_euler_to_u. apply laue_euler_rot. Qed.
Lemma tools_omega_comp w : tools_form_omega_mat w = Rz w.
Proof. rewrite tl_form_omega_mat. apply laue_omega_comp. Qed.
Lemma tools_omega_general_comp w chi wedge : tools_form_omega_mat_general w chi wedge = mmul (Rx chi) (mmul (Ry wedge) (Rz w)).
Proof. rewrite tl_form_omega_mat_general. apply laue_omega_general_comp. Qed.
Lemma tools_tilt_comp tx ty tz : tools_detect_tilt tx ty tz = mmul (Rx tx) (mmul (Ry ty) (Rz tz)).
Proof. rewrite tl_detect_tilt. apply laue_tilt_comp. Qed.
Lemma tools_quart_comp w wx wy :
  tools_quart_to_omega w wx wy = mmul (mmul (Rx wx) (Ry wy)) (mmul (Rz (w * PI / 180)) (mtrans (mmul (Rx wx) (Ry wy)))).
Proof. rewrite tl_quart_to_omega. apply laue_quart_comp. Qed.
Lemma tools_omega_general_rot w chi wedge : is_rot (tools_form_omega_mat_general w chi wedge).
Proof. rewrite tl_form_omega_mat_general. apply laue_omega_general_rot. Qed.
Lemma tools_tilt_rot tx ty tz : is_rot (tools_detect_tilt tx ty tz).
Proof. rewrite tl_detect_tilt. apply laue_tilt_rot. Qed.
Lemma tools_quart_rot w wx wy : is_rot (tools_quart_to_omega w wx wy).
Proof. rewrite tl_quart_to_omega. apply laue_quart_rot. Qed.
Lemma tools_rod_rot r : is_rot (tools_rod_to_u r).
Proof. rewrite tl_rod_to_u. apply laue_rod_rot. Qed.
Lemma tools_rod_axis r : mvmul (tools_rod_to_u r) r = r.
Proof. rewrite tl_rod_to_u. apply laue_rod_axis. Qed.
Lemma tools_rod_angle r : mtrace (tools_rod_to_u r) = 1 + 2 * cos (2 * atan (vnorm r)).
Proof. rewrite tl_rod_to_u. apply laue_rod_angle. Qed.
Lemma tools_rod_passive t : tools_rod_to_u (mkV3 0 0 t) = mtrans (Rz (2 * atan t)).
Proof. rewrite tl_rod_to_u. apply laue_rod_passive. Qed.
Lemma tools_u_to_rod_inv r : vnorm2 r < 1000000000000000 -> tools_u_to_rod (tools_rod_to_u r) = Some r.
Proof. rewrite tl_rod_to_u, tl_u_to_rod. apply laue_u_to_rod_inv. Qed.
Lemma tools_rod_to_u_inv U r : is_rot U -> tools_u_to_rod U = Some r -> tools_rod_to_u r = U.
Proof. rewrite tl_rod_to_u, tl_u_to_rod. apply laue_rod_to_u_inv. Qed.

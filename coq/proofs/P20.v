(* C20: the switch, guard sites and the rotation check *)
From Coq Require Import Reals Lra Psatz List Bool.
From XV Require Import RealLib Mat3 Checks.
Import ListNotations.
Open Scope R_scope.

Definition is_valid (v : pyval) : bool := match v with PyTrue | PyFalse => true | _ => false end.
Definition as_bool (v : pyval) : bool := match v with PyTrue => true | _ => false end.

(* the last valid value assigned, or the default True *)
Fixpoint last_valid (vs : list pyval) (dflt : bool) : bool :=
  match vs with [] => dflt | v :: r => last_valid r (if is_valid v then as_bool v else dflt) end.

Lemma fold_assign vs s : fold_left (fun s v => fst (assign s v)) vs s = last_valid vs s.
Proof. revert s; induction vs as [|v r IH]; intros s; cbn; [reflexivity|]. rewrite IH. destruct v; reflexivity. Qed.

Theorem switch_last_valid vs : run_assign vs = last_valid vs true.
Proof. apply fold_assign. Qed.

Theorem invalid_assignment_raises_and_keeps s v : is_valid v = false -> assign s v = (s, ValueError).
Proof. destruct v; cbn; intros H; try discriminate; reflexivity. Qed.
Theorem valid_assignment_sets s v : is_valid v = true -> assign s v = (as_bool v, Done).
Proof. destruct v; cbn; intros H; try discriminate; reflexivity. Qed.

(* guard sites *)
Theorem guarded_on_invalid {X Y} ok (f : X -> Y) x : ok x = false -> guarded true ok f x = Raised.
Proof. intros H. unfold guarded. rewrite H. reflexivity. Qed.
Theorem guarded_on_valid {X Y} ok (f : X -> Y) x : ok x = true -> guarded true ok f x = Value (f x).
Proof. intros H. unfold guarded. rewrite H. reflexivity. Qed.
Theorem guarded_off {X Y} ok (f : X -> Y) x : guarded false ok f x = Value (f x).
Proof. reflexivity. Qed.

(* the rotation check accepts every exact proper rotation ... *)
Lemma close_refl r a x : 0 <= r -> 0 <= a -> close r a x x.
Proof. intros Hr Ha. unfold close. replace (x - x) with 0 by ring. rewrite Rabs_R0. pose proof (Rabs_pos x). nra. Qed.

Theorem accepts_rotations U : is_rot U -> check_rotation U.
Proof.
  intros [HO HD]. unfold check_rotation. rewrite HO, HD. unfold allclose_I, mI, rtol, atol_unitary, atol_det; cbn.
  repeat split; apply close_refl; lra.
Qed.

(* ... and rejects a matrix as soon as one entry of U'U is off by more than 1.1e-5 or the determinant by more than 1.1e-5 *)
Theorem rejects_far_det U : Rabs (mdet U - 1) > 11 / 1000000 -> ~ check_rotation U.
Proof.
  intros H [_ C]. unfold close, rtol, atol_det in C. rewrite Rabs_R1 in C. lra.
Qed.
Theorem rejects_far_diag U : Rabs (m00 (mmul (mtrans U) U) - 1) > 11 / 1000000 -> ~ check_rotation U.
Proof.
  intros H [[C _] _]. unfold close, rtol, atol_unitary in C. rewrite Rabs_R1 in C. lra.
Qed.
Theorem rejects_far_offdiag U : Rabs (m01 (mmul (mtrans U) U)) > 1 / 1000000 -> ~ check_rotation U.
Proof.
  intros H [[_ [C _]] _]. unfold close, rtol, atol_unitary in C. rewrite Rabs_R0, Rminus_0_r in C. lra.
Qed.

(* Euler angles produced by u_to_euler-style ranges pass the range check *)
Theorem euler_in_range_ok p1 P p2 : 0 <= p1 <= 2 * PI -> 0 <= P <= PI -> 0 <= p2 <= 2 * PI -> check_euler p1 P p2.
Proof. intros H1 H2 H3. pose proof PI_RGT_0. unfold check_euler. repeat split; lra. Qed.

(* C15: the multiplicity loop (model/Mult.v) counts the distinct orbit points, for every table with tight translations and every
   position in 24ths.  General proof: (1) the tolerance test coincides with equality of grid keys, (2) the greedy loop is a dedup. *)
From Coq Require Import ZArith List Bool Lia.
From XV Require Import SGroup Mult.
Import ListNotations.
Open Scope Z_scope.

(* ---- (2) the loop is a dedup by key ---------------------------------------------------------------------------- *)
Lemma existsb_ext_in {T} (f g : T -> bool) l : (forall x, In x l -> f x = g x) -> existsb f l = existsb g l.
Proof. induction l as [|x l IH]; intros H; cbn; [reflexivity|]. rewrite (H x (or_introl eq_refl)), IH; [reflexivity|]. intros y Hy. apply H. right; exact Hy. Qed.

Lemma existsb_map' {T U} (f : U -> bool) (g : T -> U) l : existsb f (map g l) = existsb (fun x => f (g x)) l.
Proof. induction l as [|x l IH]; cbn; [reflexivity|]. rewrite IH. reflexivity. Qed.

Lemma uniq_dedup (kf : pt -> key) imgs kept :
  (forall a b, In a (imgs ++ kept) -> In b (imgs ++ kept) -> close a b = key_eqb (kf a) (kf b)) ->
  uniq_count imgs kept = dedup (map kf imgs) (map kf kept).
Proof.
  revert kept; induction imgs as [|a r IH]; intros kept H; cbn [uniq_count dedup map].
  - rewrite map_length. reflexivity.
  - assert (E : existsb (close a) kept = existsb (key_eqb (kf a)) (map kf kept)).
    { rewrite existsb_map'. apply existsb_ext_in. intros x Hx. apply H; [left; reflexivity | apply in_or_app; right; exact Hx]. }
    rewrite E. destruct (existsb (key_eqb (kf a)) (map kf kept)).
    + apply IH. intros x y Hx Hy. apply H; apply in_app_or in Hx; apply in_app_or in Hy; apply in_or_app;
        (destruct Hx as [Hx|Hx]; [left; right; exact Hx | right; exact Hx]) || idtac;
        (destruct Hy as [Hy|Hy]; [left; right; exact Hy | right; exact Hy]).
    + replace (map kf kept ++ [kf a]) with (map kf (kept ++ [a])) by (rewrite map_app; reflexivity).
      apply IH. intros x y Hx Hy.
      assert (P : forall w, In w (r ++ kept ++ [a]) -> In w ((a :: r) ++ kept)).
      { intros w Hw. apply in_app_or in Hw. destruct Hw as [Hw|Hw]; [apply in_or_app; left; right; exact Hw|].
        apply in_app_or in Hw. destruct Hw as [Hw|[<-|[]]]; [apply in_or_app; right; exact Hw | left; reflexivity]. }
      apply H; apply P; assumption.
Qed.

(* ---- (1) tolerance test = equality of grid keys -------------------------------------------------------------------- *)
Definition near (c g : Z) : Prop := -8 <= c - g * 1000000 <= 8.

Lemma dist1_same c c' g g' : near c g -> near c' g' -> (g - g') mod 24 = 0 -> 0 <= dist1 c c' <= 16.
Proof.
  unfold near, dist1, UNIT. intros H1 H2 Hm.
  assert (E : exists k, g - g' = 24 * k) by (exists ((g - g') / 24); pose proof (Z.div_mod (g - g') 24 ltac:(lia)); lia).
  destruct E as [k E].
  set (e := c - g * 1000000) in *. set (e' := c' - g' * 1000000) in *.
  assert (D : c - c' = 24000000 * k + (e - e')) by (unfold e, e'; nia).
  rewrite D. replace (24000000 * k + (e - e')) with ((e - e') + k * 24000000) by ring. rewrite Z.mod_add by lia.
  destruct (Z_le_gt_dec 0 (e - e')) as [L|L].
  - rewrite Z.mod_small by lia. lia.
  - replace (e - e') with ((e - e' + 24000000) + (-1) * 24000000) by ring. rewrite Z.mod_add by lia. rewrite Z.mod_small by lia. lia.
Qed.

Lemma dist1_diff c c' g g' : near c g -> near c' g' -> (g - g') mod 24 <> 0 -> 999984 <= dist1 c c'.
Proof.
  unfold near, dist1, UNIT. intros H1 H2 Hm.
  pose proof (Z.div_mod (g - g') 24 ltac:(lia)) as DM. pose proof (Z.mod_pos_bound (g - g') 24 ltac:(lia)) as B.
  set (r := (g - g') mod 24) in *. set (k := (g - g') / 24) in *.
  set (e := c - g * 1000000) in *. set (e' := c' - g' * 1000000) in *.
  assert (D : c - c' = (r * 1000000 + (e - e')) + k * 24000000) by (unfold e, e'; nia).
  rewrite D. rewrite Z.mod_add by lia. rewrite Z.mod_small by lia. lia.
Qed.

Lemma dist1_nonneg a b : 0 <= dist1 a b.
Proof. unfold dist1, UNIT. pose proof (Z.mod_pos_bound (a - b) 24000000 ltac:(lia)). lia. Qed.

Definition gkey (g : pt) : key := let '(x, y, z) := g in (x mod 24, y mod 24, z mod 24).
Definition near3 (a g : pt) : Prop :=
  let '(x, y, z) := a in let '(gx, gy, gz) := g in near x gx /\ near y gy /\ near z gz.

Lemma mod_eq_iff x y : (x mod 24 =? y mod 24) = true <-> (x - y) mod 24 = 0.
Proof.
  rewrite Z.eqb_eq. split; intros H.
  - rewrite Zminus_mod, H, Z.sub_diag. reflexivity.
  - pose proof (Z.div_mod (x - y) 24 ltac:(lia)) as D. rewrite H in D.
    replace x with (y + ((x - y) / 24) * 24) by lia. rewrite Z.mod_add by lia. reflexivity.
Qed.

Lemma close_key a b ga gb : near3 a ga -> near3 b gb -> close a b = key_eqb (gkey ga) (gkey gb).
Proof.
  destruct a as [[x y] z], b as [[x' y'] z'], ga as [[gx gy] gz], gb as [[gx' gy'] gz'].
  cbn [near3 close gkey key_eqb]. intros (N1 & N2 & N3) (M1 & M2 & M3). unfold TOL.
  pose proof (dist1_nonneg x x'). pose proof (dist1_nonneg y y'). pose proof (dist1_nonneg z z').
  destruct (gx mod 24 =? gx' mod 24) eqn:E1; [apply mod_eq_iff in E1; pose proof (dist1_same _ _ _ _ N1 M1 E1)
    | assert (E1' : (gx - gx') mod 24 <> 0) by (intro Q; apply mod_eq_iff in Q; congruence); pose proof (dist1_diff _ _ _ _ N1 M1 E1')];
  (destruct (gy mod 24 =? gy' mod 24) eqn:E2; [apply mod_eq_iff in E2; pose proof (dist1_same _ _ _ _ N2 M2 E2)
    | assert (E2' : (gy - gy') mod 24 <> 0) by (intro Q; apply mod_eq_iff in Q; congruence); pose proof (dist1_diff _ _ _ _ N2 M2 E2')]);
  (destruct (gz mod 24 =? gz' mod 24) eqn:E3; [apply mod_eq_iff in E3; pose proof (dist1_same _ _ _ _ N3 M3 E3)
    | assert (E3' : (gz - gz') mod 24 <> 0) by (intro Q; apply mod_eq_iff in Q; congruence); pose proof (dist1_diff _ _ _ _ N3 M3 E3')]);
  cbn [andb]; [apply Z.ltb_lt | apply Z.ltb_ge ..]; lia.
Qed.

(* ---- images of the model lie near the exact orbit points ------------------------------------------------------------ *)
Definition rnd (c : Z) : Z := (c + 500000) / 1000000.
Definition rkey (a : pt) : key := let '(x, y, z) := a in (rnd x mod 24, rnd y mod 24, rnd z mod 24).

Lemma near_rnd c g : near c g -> rnd c = g.
Proof.
  unfold near, rnd. intros H. replace (c + 500000) with ((c - g * 1000000 + 500000) + g * 1000000) by ring.
  rewrite Z.div_add by lia. rewrite Z.div_small by lia. lia.
Qed.
Lemma near3_rkey a g : near3 a g -> rkey a = gkey g.
Proof.
  destruct a as [[x y] z], g as [[gx gy] gz]. cbn. intros (N1 & N2 & N3).
  rewrite (near_rnd _ _ N1), (near_rnd _ _ N2), (near_rnd _ _ N3). reflexivity.
Qed.

Definition kq (m : Z) : Z := (m * 12 + 500000) / 1000000.
Lemma near12_spec m : near12 m = true -> -8 <= m * 24 - 2 * kq m * 1000000 <= 8.
Proof. unfold near12, kq. intros H. apply Z.leb_le in H. lia. Qed.
Lemma snap12_kq m k : snap12 m = Some k -> k = kq m mod 12.
Proof. unfold snap12, kq. destruct (_ <? _); [intros E; injection E as <-; reflexivity | discriminate]. Qed.

Lemma two_mod x k : (x + 2 * (k mod 12)) mod 24 = (x + 2 * k) mod 24.
Proof.
  pose proof (Z.div_mod k 12 ltac:(lia)) as D.
  replace (x + 2 * k) with ((x + 2 * (k mod 12)) + (k / 12) * 24) by lia. rewrite Z.mod_add by lia. reflexivity.
Qed.

Definition gpoint (R : mat) (t : list Z) (p : pt) : pt :=
  let '(x, y, z) := mvZ R p in (x + 2 * kq (nth 0 t 0), y + 2 * kq (nth 1 t 0), z + 2 * kq (nth 2 t 0)).

Lemma image_near R a b c p : near12 a = true -> near12 b = true -> near12 c = true ->
  near3 (image R [a; b; c] p) (gpoint R [a; b; c] p).
Proof.
  intros Ha Hb Hc. unfold image, gpoint. destruct (mvZ R p) as [[x y] z]. cbn [nth near3]. unfold near.
  pose proof (near12_spec _ Ha). pose proof (near12_spec _ Hb). pose proof (near12_spec _ Hc). repeat split; lia.
Qed.

Lemma gpoint_orbit R a b c v p : snap3 [a; b; c] = Some v -> gkey (gpoint R [a; b; c] p) = orbit_point (R, v) p.
Proof.
  unfold snap3. destruct (snap12 a) as [ka|] eqn:Ea; [|discriminate]. destruct (snap12 b) as [kb|] eqn:Eb; [|discriminate].
  destruct (snap12 c) as [kc|] eqn:Ec; [|discriminate]. intros E; injection E as <-.
  unfold gpoint, orbit_point. destruct (mvZ R p) as [[x y] z]. cbn [nth gkey].
  rewrite (snap12_kq _ _ Ea), (snap12_kq _ _ Eb), (snap12_kq _ _ Ec), !two_mod. reflexivity.
Qed.

Lemma images_spec rots trans ops p :
  ops_of rots trans = Some ops -> forallb (fun t => match t with [a; b; c] => near12 a && near12 b && near12 c | _ => false end) trans = true ->
  exists Rs, all_mats rots = Some Rs /\ length Rs = length trans /\
    let imgs := map (fun Rt => image (fst Rt) (snd Rt) p) (combine Rs trans) in
    Forall (fun a => exists g, near3 a g) imgs /\ map rkey imgs = map (fun o => orbit_point o p) ops.
Proof.
  revert trans ops; induction rots as [|r rots IH]; intros [|t trans] ops H T; cbn in H; try discriminate.
  - injection H as <-. exists []. cbn. repeat split; constructor.
  - destruct (mat_of_list r) as [R|] eqn:ER; [|discriminate].
    destruct (snap3 t) as [v|] eqn:ES; [|discriminate].
    destruct (ops_of rots trans) as [ops'|] eqn:EO; [|discriminate].
    destruct (mat_small R); [|discriminate]. injection H as <-.
    cbn in T. apply andb_prop in T. destruct T as [T1 T2].
    destruct (IH trans ops' EO T2) as (Rs & EA & EL & IF & IM).
    exists (R :: Rs). cbn [all_mats]. rewrite ER, EA. split; [reflexivity|]. split; [cbn; rewrite EL; reflexivity|].
    destruct t as [|a [|b [|c [|]]]]; try discriminate.
    apply andb_prop in T1. destruct T1 as [T1 Tc]. apply andb_prop in T1. destruct T1 as [Ta Tb].
    cbn [combine map fst snd]. split.
    + constructor; [exists (gpoint R [a; b; c] p); apply image_near; assumption | exact IF].
    + f_equal; [|exact IM]. rewrite (near3_rkey _ _ (image_near R a b c p Ta Tb Tc)). apply gpoint_orbit; exact ES.
Qed.

Theorem mult_is_orbit_size s ops p : ops_of (sg_rot s) (sg_trans s) = Some ops -> trans_tight s = true ->
  model_mult s p = Some (orbit_size ops p).
Proof.
  intros HO HT. unfold trans_tight in HT.
  destruct (images_spec _ _ _ p HO HT) as (Rs & EA & EL & IF & IM). cbv zeta in IF, IM.
  unfold model_mult, images. rewrite EA. rewrite (proj2 (Nat.eqb_eq _ _) EL). f_equal.
  set (imgs := map (fun Rt => image (fst Rt) (snd Rt) p) (combine Rs (sg_trans s))) in *.
  unfold orbit_size. rewrite <- IM. change (@nil key) with (map rkey (@nil pt)).
  apply uniq_dedup. rewrite app_nil_r. intros a b Ha Hb.
  rewrite Forall_forall in IF. destruct (IF a Ha) as [ga Na]. destruct (IF b Hb) as [gb Nb].
  rewrite (close_key a b ga gb Na Nb), (near3_rkey _ _ Na), (near3_rkey _ _ Nb). reflexivity.
Qed.

(* lattice translations of the position do not change the orbit points *)
Lemma orbit_point_shift o p v : orbit_point o (let '(x, y, z) := p in let '(a, b, c) := v in (x + 24 * a, y + 24 * b, z + 24 * c)) = orbit_point o p.
Proof.
  destruct o as [R [[ta tb] tc]], p as [[x y] z], v as [[a b] c]. destruct R as [[[[[[[[r0 r1] r2] r3] r4] r5] r6] r7] r8].
  cbn [orbit_point mvZ]. f_equal; [f_equal|].
  - replace (r0 * (x + 24 * a) + r1 * (y + 24 * b) + r2 * (z + 24 * c) + 2 * ta) with ((r0 * x + r1 * y + r2 * z + 2 * ta) + (r0 * a + r1 * b + r2 * c) * 24) by ring.
    apply Z.mod_add; lia.
  - replace (r3 * (x + 24 * a) + r4 * (y + 24 * b) + r5 * (z + 24 * c) + 2 * tb) with ((r3 * x + r4 * y + r5 * z + 2 * tb) + (r3 * a + r4 * b + r5 * c) * 24) by ring.
    apply Z.mod_add; lia.
  - replace (r6 * (x + 24 * a) + r7 * (y + 24 * b) + r8 * (z + 24 * c) + 2 * tc) with ((r6 * x + r7 * y + r8 * z + 2 * tc) + (r6 * a + r7 * b + r8 * c) * 24) by ring.
    apply Z.mod_add; lia.
Qed.

Lemma orbit_size_shift ops p v : orbit_size ops (let '(x, y, z) := p in let '(a, b, c) := v in (x + 24 * a, y + 24 * b, z + 24 * c)) = orbit_size ops p.
Proof. unfold orbit_size. f_equal. apply map_ext. intros o. apply orbit_point_shift. Qed.

Lemma NoDup_app_comm_like {T} (l : list T) (k : T) : NoDup l -> ~ In k l -> NoDup (l ++ [k]).
Proof.
  intros ND NI. induction l as [|x l IH]; cbn; [constructor; [intros []|constructor]|].
  inversion ND as [|? ? Hx Hl]; subst. constructor.
  - rewrite in_app_iff. cbn. intros [H|[H|[]]]; [exact (Hx H) | subst; apply NI; left; reflexivity].
  - apply IH; [exact Hl | intro H; apply NI; right; exact H].
Qed.

(* the count is the number of distinct orbit points *)
Lemma dedup_seen_nodup l seen : NoDup seen -> (forall a b, key_eqb a b = true <-> a = b) ->
  exists u, NoDup u /\ length u = dedup l seen /\ (forall k, In k u <-> In k l \/ In k seen).
Proof.
  intros ND EQ. revert seen ND; induction l as [|k r IH]; intros seen ND; cbn [dedup].
  - exists seen. split; [exact ND|]. split; [reflexivity|]. intros k; cbn; tauto.
  - destruct (existsb (key_eqb k) seen) eqn:E.
    + destruct (IH seen ND) as (u & U1 & U2 & U3). exists u. split; [exact U1|]. split; [exact U2|].
      intros q. rewrite U3. cbn. apply existsb_exists in E. destruct E as [w [Hw Ew]]. apply EQ in Ew. subst w.
      split; [tauto|]. intros [[<-|H]|H]; tauto.
    + assert (NI : ~ In k seen).
      { intro H. assert (existsb (key_eqb k) seen = true) by (apply existsb_exists; exists k; split; [exact H | apply EQ; reflexivity]). congruence. }
      destruct (IH (seen ++ [k])) as (u & U1 & U2 & U3).
      { apply NoDup_app_comm_like; assumption. }
      exists u. split; [exact U1|]. split; [exact U2|]. intros q. rewrite U3, in_app_iff. cbn. tauto.
Qed.

Lemma key_eqb_spec a b : key_eqb a b = true <-> a = b.
Proof.
  destruct a as [[x y] z], b as [[x' y'] z']. cbn. rewrite !andb_true_iff, !Z.eqb_eq. split.
  - intros [[-> ->] ->]. reflexivity.
  - intros E. injection E as -> -> ->. tauto.
Qed.

Theorem orbit_size_counts ops p : exists u, NoDup u /\ length u = orbit_size ops p /\
  (forall k, In k u <-> exists o, In o ops /\ orbit_point o p = k).
Proof.
  destruct (dedup_seen_nodup (map (fun o => orbit_point o p) ops) [] (NoDup_nil _) key_eqb_spec) as (u & U1 & U2 & U3).
  exists u. split; [exact U1|]. split; [exact U2|]. intros k. rewrite U3, in_map_iff. cbn. split.
  - intros [[o [E H]]|[]]. exists o. tauto.
  - intros [o [H E]]. left. exists o. tauto.
Qed.

(* C14: sysabs / sysabs_unique, AST-translated from tools.py and laue.py, are the same function *)
From Coq Require Import ZArith List String.
From XV Require Import Ast_tools Ast_laue.
Lemma tl_sysabs_unique hkl sc : ast_tools_sysabs_unique hkl sc = ast_laue_sysabs_unique hkl sc.
Proof. reflexivity. Qed.
Lemma tl_sysabs hkl sc cs ch : ast_tools_sysabs hkl sc cs ch = ast_laue_sysabs hkl sc cs ch.
Proof. reflexivity. Qed.

(* C09 for xfab.laue: find_omega_general (generated, piecewise) refines a readable model; the model is sound,
   in range and complete.  tth / tth2. *)
From Coq Require Import Reals Lra Psatz List.
From XV Require Import RealLib Mat3 Atan2 OmegaSolve Cell Gen_laue P01_laue P01_laue_b P03_laue.
Import ListNotations.
Open Scope R_scope.

Definition normalise_to (tth : R) (g : V3) : V3 :=
  let n := sqrt (vx g * vx g + vy g * vy g + vz g * vz g) in
  mkV3 (sin (tth / 2) * vx g / n) (sin (tth / 2) * vy g / n) (sin (tth / 2) * vz g / n).

(* coefficients of  a cos w + b sin w = c  for the axis tilted by Rx(wx).Ry(wy) *)
Definition gen_a (gn : V3) (wy : R) := vx gn * cos wy.
Definition gen_b (gn : V3) (wy : R) := - (vy gn * cos wy).
Definition gen_c (gn : V3) (wy : R) := - (vx gn * vx gn + vy gn * vy gn + vz gn * vz gn) - vz gn * sin wy.

Definition omega_general_model (gn : V3) (tth wx wy : R) : list R * list R :=
  solver_model gn tth (fun w => laue_form_omega_mat_general w wx wy) (gen_a gn wy) (gen_b gn wy) (gen_c gn wy).

Lemma laue_general_refines g tth wx wy :
  laue_find_omega_general g tth wx wy =
  let gn := normalise_to tth g in
  if Rlt_dec (Rabs ((vx gn * vx gn + vy gn * vy gn + vz gn * vz gn) - sin (tth / 2) ^ 2)) (1 / 1000000000)
  then Some (omega_general_model gn tth wx wy) else None.
Proof.
  unfold laue_find_omega_general, omega_general_model, solver_model, normalise_to, gen_a, gen_b, gen_c, eta_of, wrap, mvmul; cbv zeta.
  cbn [vx vy vz].
  destruct (Rlt_dec (Rabs _) _); [|reflexivity].
  destruct (Rlt_dec _ 0); [reflexivity|].
  destruct (Rlt_dec PI _); destruct (Rlt_dec PI _); reflexivity.
Qed.

Lemma general_x_component w wx wy gn :
  vx (mvmul (laue_form_omega_mat_general w wx wy) gn) = gen_a gn wy * cos w + gen_b gn wy * sin w + vz gn * sin wy.
Proof.
  rewrite laue_omega_general_comp. destruct gn as [x y z]. unfold gen_a, gen_b. mcbv. ring.
Qed.

Lemma normalise_length tth g : vx g * vx g + vy g * vy g + vz g * vz g <> 0 ->
  let gn := normalise_to tth g in
  vx gn * vx gn + vy gn * vy gn + vz gn * vz gn = sin (tth / 2) * sin (tth / 2).
Proof.
  intros H. unfold normalise_to; cbv zeta; cbn [vx vy vz].
  set (q := vx g * vx g + vy g * vy g + vz g * vz g) in *.
  assert (P : 0 < q) by (assert (0 <= q) by (unfold q; nra); lra).
  pose proof (sqrt_sqrt q (Rlt_le _ _ P)) as Q. pose proof (sqrt_lt_R0 q P) as S.
  set (r := sqrt q) in *. field_simplify_eq; [|lra]. unfold q in Q. clearbody r. nsatz_R.
Qed.

Lemma assert_passes tth g : vx g * vx g + vy g * vy g + vz g * vz g <> 0 ->
  let gn := normalise_to tth g in
  Rabs ((vx gn * vx gn + vy gn * vy gn + vz gn * vz gn) - sin (tth / 2) ^ 2) < 1 / 1000000000.
Proof.
  intros Hg. pose proof (normalise_length tth g Hg) as Hn. cbv zeta in *. rewrite Hn.
  replace (sin (tth / 2) * sin (tth / 2) - sin (tth / 2) ^ 2) with 0 by (cbn [Rpow_def.pow]; ring).
  rewrite Rabs_R0. lra.
Qed.

Theorem laue_find_omega_general_sound g tth wx wy oms etas :
  0 < tth < PI -> vx g * vx g + vy g * vy g + vz g * vz g <> 0 ->
  let gn := normalise_to tth g in
  gen_a gn wy * gen_a gn wy + gen_b gn wy * gen_b gn wy <> 0 ->
  laue_find_omega_general g tth wx wy = Some (oms, etas) ->
  (forall w e, In (w, e) (combine oms etas) -> diffracts (laue_form_omega_mat_general w wx wy) gn tth e) /\
  (forall w, In w oms -> - PI < w <= PI) /\
  (forall w, - PI < w <= PI -> vx (mvmul (laue_form_omega_mat_general w wx wy) gn) = - (sin (tth / 2) * sin (tth / 2)) -> In w oms) /\
  (gen_a gn wy * gen_a gn wy + gen_b gn wy * gen_b gn wy - gen_c gn wy * gen_c gn wy < 0 -> oms = []) /\
  (0 < gen_a gn wy * gen_a gn wy + gen_b gn wy * gen_b gn wy - gen_c gn wy * gen_c gn wy -> exists w1 w2, oms = [w1; w2] /\ w1 <> w2).
Proof.
  intros Ht Hg gn Hab E. rewrite laue_general_refines in E. cbv zeta in E. fold gn in E.
  destruct (Rlt_dec _ _) as [L|L]; [|discriminate]. injection E as E.
  pose proof (normalise_length tth g Hg) as Hn. cbv zeta in Hn. fold gn in Hn.
  assert (O : oms = fst (omega_general_model gn tth wx wy)) by (rewrite E; reflexivity).
  assert (T : etas = snd (omega_general_model gn tth wx wy)) by (rewrite E; reflexivity).
  subst oms etas. unfold omega_general_model.
  assert (HOm : forall w, is_rot (laue_form_omega_mat_general w wx wy)) by (intro; apply laue_omega_general_rot).
  assert (Hx : forall w, vx (mvmul (laue_form_omega_mat_general w wx wy) gn) = gen_a gn wy * cos w + gen_b gn wy * sin w + vz gn * sin wy)
    by (intro; apply general_x_component).
  assert (Hc : gen_c gn wy = - (vx gn * vx gn + vy gn * vy gn + vz gn * vz gn) - vz gn * sin wy) by reflexivity.
  split; [|split; [|split]].
  - intros w e. eapply (model_sound gn tth (fun w => laue_form_omega_mat_general w wx wy)); eassumption.
  - intros w. eapply (model_range gn tth (fun w => laue_form_omega_mat_general w wx wy)); eassumption.
  - intros w. eapply (model_complete gn tth (fun w => laue_form_omega_mat_general w wx wy)); eassumption.
  - eapply (model_count gn tth (fun w => laue_form_omega_mat_general w wx wy)); eassumption.
Qed.

Theorem laue_find_omega_general_never_asserts g tth wx wy :
  vx g * vx g + vy g * vy g + vz g * vz g <> 0 -> laue_find_omega_general g tth wx wy <> None.
Proof.
  intros Hg. rewrite laue_general_refines. cbv zeta.
  destruct (Rlt_dec _ _) as [L|L]; [discriminate|]. exfalso. apply L. apply (assert_passes tth g Hg).
Qed.

(* two-theta *)
Lemma laue_tth_def c h wl : laue_tth c h wl = 2 * asin (wl * laue_sintl c h).
Proof. reflexivity. Qed.

Lemma laue_tth_eq_tth2 U c h wl : is_rot U -> valid_cell c -> 0 < vnorm2 (mvmul (laue_form_b_mat c) h) ->
  laue_tth2 (mvmul (mmul U (laue_form_b_mat c)) h) wl = laue_tth c h wl.
Proof.
  intros HU Hc Hp. rewrite laue_tth_def, laue_sintl_norm by exact Hc. unfold laue_tth2; cbv zeta.
  rewrite mvmul_mmul.
  set (v := mvmul (laue_form_b_mat c) h) in *.
  pose proof (rot_vnorm2 U v HU) as N. unfold vnorm2, vdot in N. unfold vnorm.
  unfold vnorm2, vdot in Hp |- *.
  rewrite N. pose proof (sqrt_lt_R0 _ Hp) as S. f_equal. f_equal. field. lra.
Qed.

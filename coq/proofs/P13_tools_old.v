(* C13 (tools): the _old strain pair, from the laue theorems and the tools/laue relations of C14 *)
From Coq Require Import Reals Lra.
From XV Require Import RealLib Mat3 Atan2 Cell Gen_laue Gen_tools P01_laue P01_laue_b P01_laue_c P01_laue_d P01_laue_e P02_laue P14_cell P01_tools
  P13_laue P13_cellof P13_ubi P13_old P13_tools P14_rest.
Open Scope R_scope.

Lemma tl_b_to_epsilon_old B c : tools_b_to_epsilon_old (mscale (2 * PI) B) c = laue_b_to_epsilon_old B c.
Proof.
  unfold tools_b_to_epsilon_old, laue_b_to_epsilon_old; cbv zeta.
  rewrite tl_b_to_cell, tl_form_a_mat, tl_form_a_mat_inv. reflexivity.
Qed.

Lemma tools_eps_roundtrip_old eps c : valid_cell c -> strain_small eps ->
  tools_b_to_epsilon_old (tools_epsilon_to_b_old eps c) c = eps.
Proof.
  intros Hc Hs. rewrite tl_epsilon_to_b_old by assumption. rewrite tl_b_to_epsilon_old.
  apply laue_eps_roundtrip_old; assumption.
Qed.

Lemma tools_zero_strain_old c : valid_cell c -> tools_epsilon_to_b_old (mkV6 0 0 0 0 0 0) c = tools_form_b_mat c.
Proof.
  intros Hc. rewrite tl_epsilon_to_b_old; [| exact Hc | unfold strain_small; cbn; lra].
  rewrite laue_zero_strain_old by exact Hc. symmetry. apply tools_b_scaled; exact Hc.
Qed.


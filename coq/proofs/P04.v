(* C04: names and lookup, on the generated tables *)
From Coq Require Import ZArith List Bool Ascii String Lia.
From XV Require Import SGroup Tab_sg_all Tab_sgnames P04_all.
Import ListNotations.
Open Scope Z_scope.

Definition is_rh (r : sgrec) : bool := String.eqb (sg_choice r) "rhombohedral".

(* what sg(sgno=no, cell_choice=req) returns, on the extracted table of distinct settings *)
Definition lookup (no : Z) (req : string) : option sgrec :=
  if String.eqb req "rhombohedral" then
    match find (fun r => (sg_no r =? no) && is_rh r) all_settings with
    | Some r => Some r
    | None => find (fun r => sg_no r =? no) all_settings
    end
  else find (fun r => (sg_no r =? no) && negb (is_rh r)) all_settings.

Definition key_matches (key : string) (r : sgrec) : bool :=
  let nm := sg_normalise (sg_name r) in
  String.eqb key nm || (String.eqb (sg_choice r) "hexagonal" && String.eqb key (nm ++ "h")).

Definition name_ok (e : string * string * sgrec) : bool :=
  let '(key, _, r) := e in
  key_matches key r &&
  match lookup (sg_no r) (name_choice key) with
  | Some r' => sgrec_eqb r r'
  | None => false
  end.

Lemma names_ok : forallb name_ok sg_byname = true.
Proof. vm_compute. reflexivity. Qed.

(* every setting is reachable by at least one name, and numbers 1..230 are all present *)
Definition reachable (r : sgrec) : bool := existsb (fun e => sgrec_eqb r (snd e)) sg_byname.
Lemma all_reachable : forallb reachable all_settings = true.
Proof. vm_compute. reflexivity. Qed.
Lemma all_numbers : forallb (fun n => existsb (fun r => sg_no r =? n) all_settings) (map Z.of_nat (seq 1 230)) = true
                    /\ forallb (fun r => (1 <=? sg_no r) && (sg_no r <=? 230)) all_settings = true
                    /\ List.length all_settings = 237%nat /\ List.length sg_byname = 244%nat.
Proof. vm_compute. repeat split; reflexivity. Qed.

(* lifting the finite checks to statements about members *)
Lemma every_setting_ok s : In s all_settings -> group_ok s = true.
Proof. intros H. exact (proj1 (forallb_forall _ _) all_settings_ok s H). Qed.
Lemma every_name_ok e : In e sg_byname -> name_ok e = true.
Proof. intros H. exact (proj1 (forallb_forall _ _) names_ok e H). Qed.

(* the normalisation done by sg.__init__ ignores whitespace and case: all variants of a key reach the same entry *)
Lemma normalise_app a b : sg_normalise (a ++ b) = (sg_normalise a ++ sg_normalise b)%string.
Proof. induction a as [|c a IH]; cbn; [reflexivity|]. destruct (is_ws c); cbn; rewrite IH; reflexivity. Qed.

Fixpoint all_ws (s : string) : bool :=
  match s with EmptyString => true | String c r => is_ws c && all_ws r end.
Lemma normalise_ws w : all_ws w = true -> sg_normalise w = EmptyString.
Proof. induction w as [|c w IH]; cbn; [reflexivity|]. intros H. apply andb_prop in H. destruct H as [H1 H2]. rewrite H1. auto. Qed.

Lemma normalise_insert_ws a w b : all_ws w = true -> sg_normalise (a ++ w ++ b) = sg_normalise (a ++ b).
Proof. intros H. rewrite !normalise_app, (normalise_ws w H). reflexivity. Qed.

Lemma lower_idem c : lower_ascii (lower_ascii c) = lower_ascii c.
Proof.
  destruct c as [[] [] [] [] [] [] [] []]; vm_compute; reflexivity.
Qed.
Lemma is_ws_lower c : is_ws (lower_ascii c) = is_ws c.
Proof. destruct c as [[] [] [] [] [] [] [] []]; vm_compute; reflexivity. Qed.

Fixpoint map_str (f : ascii -> ascii) (s : string) : string :=
  match s with EmptyString => EmptyString | String c r => String (f c) (map_str f r) end.
Definition upper_ascii (c : ascii) : ascii :=
  let n := nat_of_ascii c in if (Nat.leb 97 n && Nat.leb n 122)%bool then ascii_of_nat (n - 32) else c.
Lemma lower_upper c : lower_ascii (upper_ascii c) = lower_ascii c.
Proof. destruct c as [[] [] [] [] [] [] [] []]; vm_compute; reflexivity. Qed.
Lemma is_ws_upper c : is_ws (upper_ascii c) = is_ws c.
Proof. destruct c as [[] [] [] [] [] [] [] []]; vm_compute; reflexivity. Qed.

(* changing the case of any subset of characters does not change the normal form *)
Fixpoint recase (mask : list bool) (s : string) : string :=
  match s with
  | EmptyString => EmptyString
  | String c r => match mask with
                  | true :: m => String (upper_ascii c) (recase m r)
                  | false :: m => String (lower_ascii c) (recase m r)
                  | [] => String c (recase [] r)
                  end
  end.
Lemma normalise_recase mask s : sg_normalise (recase mask s) = sg_normalise s.
Proof.
  revert mask; induction s as [|c s IH]; intros mask; cbn; [reflexivity|].
  destruct mask as [|[] m]; cbn; rewrite ?is_ws_upper, ?is_ws_lower, ?lower_upper, ?lower_idem, IH; reflexivity.
Qed.
Lemma normalise_idem s : sg_normalise (sg_normalise s) = sg_normalise s.
Proof.
  induction s as [|c s IH]; cbn; [reflexivity|]. destruct (is_ws c) eqn:E; [exact IH|].
  cbn. rewrite is_ws_lower, E, lower_idem, IH. reflexivity.
Qed.

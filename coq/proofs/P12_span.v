(* C12: rot[i].B.perm[i] = B for the B matrix of every cell conforming to the crystal system.
   sym_ok checks the identity on a spanning set (b_basis k, exactly, in Q(sqrt 3)); here: (1) linearity lifts it to the real span,
   (2) the B matrix generated from laue.form_b_mat lies in that span for every conforming cell - B is identified through its
   characterisation (upper triangular, positive diagonal, B'B.metric = I: Cholesky uniqueness), not by unfolding the code. *)
From Coq Require Import Reals Lra List Bool ZArith QArith Qreals Lia.
From XV Require Import RealLib Mat3 Cell QS3 SymGroup Tab_sym Gen_laue P01_laue P12.
Import ListNotations.
Open Scope R_scope.

Fixpoint lincomb (cs : list R) (bs : list M3) : M3 :=
  match cs, bs with
  | c :: cr, b :: br => madd (mscale c b) (lincomb cr br)
  | _, _ => mZ
  end.

Lemma mmul_madd_l A B C : mmul (madd A B) C = madd (mmul A C) (mmul B C). Proof. mat_ring. Qed.
Lemma mmul_madd_r A B C : mmul A (madd B C) = madd (mmul A B) (mmul A C). Proof. mat_ring. Qed.
Lemma mmul_mZ_l A : mmul mZ A = mZ. Proof. mat_ring. Qed.
Lemma mmul_mZ_r A : mmul A mZ = mZ. Proof. mat_ring. Qed.

Lemma lincomb_fixed r p cs bs : (forall b, In b bs -> mmul (mmul r b) p = b) -> mmul (mmul r (lincomb cs bs)) p = lincomb cs bs.
Proof.
  revert cs; induction bs as [|b br IH]; intros cs H; destruct cs as [|c cr]; cbn [lincomb]; try (rewrite mmul_mZ_r, mmul_mZ_l; reflexivity).
  rewrite mmul_madd_r, mmul_madd_l, mmul_mscale_r, mmul_mscale_l, (H b (or_introl eq_refl)), IH; [reflexivity|].
  intros b' Hb'. apply H. right. exact Hb'.
Qed.

(* ---- from the table check ------------------------------------------------------------------------------------------ *)
Lemma forallb2_nth {A B} (f : A -> B -> bool) l1 l2 i da db : forallb2 f l1 l2 = true -> (i < List.length l1)%nat ->
  f (List.nth i l1 da) (List.nth i l2 db) = true.
Proof.
  revert l2 i; induction l1 as [|a l1 IH]; intros l2 i H Hi; [cbn in Hi; inversion Hi|].
  destruct l2 as [|b l2]; [discriminate|]. cbn in H. apply andb_prop in H. destruct H as [H1 H2].
  destruct i as [|i]; [exact H1|]. cbn. apply IH; [exact H2 | cbn in Hi; lia].
Qed.

Theorem rot_B_perm_span k P Rq : sym_ok k perm_tab rot_tab rot_cached_tab = true ->
  perms_of k perm_tab = Some P -> rots_of k rot_tab = Some Rq ->
  forall i cs, (i < List.length Rq)%nat ->
  let B := lincomb cs (map toRm (b_basis k)) in
  mmul (mmul (toRm (List.nth i Rq qmI)) B) (toRm (List.nth i P qmI)) = B.
Proof.
  intros Hok HP HR i cs Hi B. unfold sym_ok in Hok. rewrite HP, HR in Hok.
  destruct (rots_of k rot_cached_tab) as [C|]; [|discriminate].
  repeat (apply andb_prop in Hok; destruct Hok as [Hok ?]).
  match goal with X : forallb2 (fun r p => forallb _ (b_basis k)) Rq P = true |- _ =>
    pose proof (forallb2_nth _ Rq P i qmI qmI X Hi) as F end.
  cbv beta in F. rewrite forallb_forall in F.
  apply lincomb_fixed. intros b Hb. apply in_map_iff in Hb. destruct Hb as (bq & <- & Hbq).
  specialize (F bq Hbq). apply toRm_eqb in F. rewrite !toRm_mmul in F. exact F.
Qed.

(* ---- conforming cells ------------------------------------------------------------------------------------------------ *)
Lemma B_from_candidate c B' : valid_cell c -> upper_posdiag B' -> mmul (mmul (mtrans B') B') (metric c) = mI -> laue_form_b_mat c = B'.
Proof.
  intros Hc HB' HG. pose proof (laue_B_recip_metric c Hc) as HB. pose proof (laue_B_upper_posdiag c Hc) as HU.
  apply chol_unique; [exact HU | exact HB' |].
  set (X := mmul (mtrans (laue_form_b_mat c)) (laue_form_b_mat c)) in *. set (Y := mmul (mtrans B') B') in *. set (G := metric c) in *.
  assert (DG : mdet G <> 0).
  { intro Z. assert (Q : mdet (mmul X G) = mdet mI) by (rewrite HB; reflexivity). rewrite mdet_mmul, Z in Q. unfold mI, mdet in Q; cbn in Q. lra. }
  transitivity (mmul (mmul X G) (minv G)).
  - rewrite mmul_assoc, minv_r by exact DG. destruct X; unfold mmul, mI; cbn; f_equal; ring.
  - rewrite HB, <- HG, mmul_assoc, minv_r by exact DG. destruct Y; unfold mmul, mI; cbn; f_equal; ring.
Qed.

Lemma cos_rad_90 : cos (rad 90) = 0.
Proof. replace (rad 90) with (PI / 2) by (unfold rad; field). apply cos_PI2. Qed.
Lemma cos_rad_120 : cos (rad 120) = - (1 / 2).
Proof.
  replace (rad 120) with (PI - PI / 3) by (unfold rad; field). rewrite cos_minus, cos_PI, sin_PI, cos_PI3. lra.
Qed.

Definition conforming (k : nat) (c : V6) : Prop :=
  match k with
  | 1%nat => True
  | 2%nat => c3 c = 90 /\ c5 c = 90
  | 3%nat => c3 c = 90 /\ c4 c = 90 /\ c5 c = 90
  | 4%nat => c1 c = c0 c /\ c3 c = 90 /\ c4 c = 90 /\ c5 c = 90
  | 5%nat | 6%nat => c1 c = c0 c /\ c3 c = 90 /\ c4 c = 90 /\ c5 c = 120
  | 7%nat => c1 c = c0 c /\ c2 c = c0 c /\ c3 c = 90 /\ c4 c = 90 /\ c5 c = 90
  | _ => False
  end.

Lemma toRm_E i j : toRm (E i j) = mkM3 (if (Nat.eqb 0 i && Nat.eqb 0 j)%bool then 1 else 0) (if (Nat.eqb 0 i && Nat.eqb 1 j)%bool then 1 else 0) (if (Nat.eqb 0 i && Nat.eqb 2 j)%bool then 1 else 0)
  (if (Nat.eqb 1 i && Nat.eqb 0 j)%bool then 1 else 0) (if (Nat.eqb 1 i && Nat.eqb 1 j)%bool then 1 else 0) (if (Nat.eqb 1 i && Nat.eqb 2 j)%bool then 1 else 0)
  (if (Nat.eqb 2 i && Nat.eqb 0 j)%bool then 1 else 0) (if (Nat.eqb 2 i && Nat.eqb 1 j)%bool then 1 else 0) (if (Nat.eqb 2 i && Nat.eqb 2 j)%bool then 1 else 0).
Proof.
  unfold E, toRm; cbn [q00 q01 q02 q10 q11 q12 q20 q21 q22].
  f_equal; match goal with |- toR (if ?b then _ else _) = _ => destruct b; [apply toR_1 | apply toR_0] end.
Qed.

Lemma toR_half : toR half = 1 / 2.
Proof. unfold toR, half, Q2R; cbn. field. Qed.
Lemma toR_hsqrt3 : toR hsqrt3 = sqrt 3 / 2.
Proof. unfold toR, hsqrt3, Q2R; cbn. field. Qed.
Lemma toRm_M1hex : toRm M1hex = mkM3 1 (1 / 2) 0 0 (sqrt 3 / 2) 0 0 0 0.
Proof. unfold toRm, M1hex; cbn [q00 q01 q02 q10 q11 q12 q20 q21 q22]. rewrite toR_1, toR_0, toR_half, toR_hsqrt3. reflexivity. Qed.
Lemma toRm_qmadd A B : toRm (qmadd A B) = madd (toRm A) (toRm B).
Proof. unfold toRm, qmadd, madd; cbn [q00 q01 q02 q10 q11 q12 q20 q21 q22 m00 m01 m02 m10 m11 m12 m20 m21 m22]. rewrite !toR_add. reflexivity. Qed.

Lemma sqrt3_pos : 0 < sqrt 3. Proof. apply sqrt_lt_R0. lra. Qed.

Ltac posdiag := unfold upper_posdiag, upper; cbn [m00 m01 m02 m10 m11 m12 m20 m21 m22]; repeat split; try reflexivity.

Lemma upper_in_span (B : M3) : upper B -> exists cs, B = lincomb cs (map toRm (b_basis 1)).
Proof.
  intros [U1 [U2 U3]]. cbn [b_basis map]. rewrite !toRm_E; cbn [Nat.eqb andb].
  exists [m00 B; m01 B; m02 B; m11 B; m12 B; m22 B]. destruct B as [b00 b01 b02 b10 b11 b12 b20 b21 b22].
  cbn [m00 m01 m02 m10 m11 m12 m20 m21 m22] in *. subst.
  cbv beta iota delta [lincomb madd mscale mZ mI m00 m01 m02 m10 m11 m12 m20 m21 m22]. f_equal; ring.
Qed.
Lemma span_tric c : valid_cell c -> conforming 1 c -> exists cs, laue_form_b_mat c = lincomb cs (map toRm (b_basis 1)).
Proof. intros Hc _. apply upper_in_span. exact (proj1 (laue_B_upper_posdiag c Hc)). Qed.

Lemma span_mono c : valid_cell c -> conforming 2 c -> exists cs, laue_form_b_mat c = lincomb cs (map toRm (b_basis 2)).
Proof.
  intros Hc Hcf. pose proof Hc as (Ha & Hb & Hcc & Hal & Hbe & Hga & Hgr).
  destruct c as [a b cc al be ga]. cbn [c0 c1 c2 c3 c4 c5] in *.
  cbn [conforming b_basis map c0 c1 c2 c3 c4 c5] in *; rewrite ?toRm_E, ?toRm_M1hex, ?toRm_qmadd, ?toRm_E, ?toRm_I; cbn [Nat.eqb andb].
  (* monoclinic, b unique *)
    destruct Hcf as [E1 E2]. subst al ga.
    assert (Sb : 0 < sin (rad be)) by (pose proof PI_RGT_0; apply sin_gt_0; unfold rad; [apply Rdiv_lt_0_compat; nra | apply (Rmult_lt_reg_r 180); [lra|]; unfold Rdiv; rewrite Rmult_assoc, Rinv_l, Rmult_1_r by lra; nra]).
    pose proof (sin2_cos2 (rad be)) as SC. unfold Rsqr in SC. set (sb := sin (rad be)) in *. set (cb := cos (rad be)) in *.
    set (B' := mkM3 (1 / (a * sb)) 0 (- cb / (cc * sb)) 0 (1 / b) 0 0 0 (1 / cc)).
    assert (E : laue_form_b_mat (mkV6 a b cc 90 be 90) = B').
    { apply B_from_candidate; [exact Hc | |].
      - unfold B'. posdiag; apply Rdiv_lt_0_compat; try lra; nra.
      - unfold B', metric; cbv zeta; cbn [c0 c1 c2 c3 c4 c5]. rewrite cos_rad_90. fold cb. unfold mmul, mtrans, mI; cbn.
        clear - SC Ha Hb Hcc Sb. clearbody sb cb.
        f_equal; (field_simplify_eq; [try nsatz_R | repeat split; lra]). }
    rewrite E. exists [1 / (a * sb); - cb / (cc * sb); 1 / b; 1 / cc]. unfold B'; cbv beta iota delta [lincomb madd mscale mZ mI m00 m01 m02 m10 m11 m12 m20 m21 m22]; f_equal; ring.
Qed.

Lemma span_orth c : valid_cell c -> conforming 3 c -> exists cs, laue_form_b_mat c = lincomb cs (map toRm (b_basis 3)).
Proof.
  intros Hc Hcf. pose proof Hc as (Ha & Hb & Hcc & Hal & Hbe & Hga & Hgr).
  destruct c as [a b cc al be ga]. cbn [c0 c1 c2 c3 c4 c5] in *.
  cbn [conforming b_basis map c0 c1 c2 c3 c4 c5] in *; rewrite ?toRm_E, ?toRm_M1hex, ?toRm_qmadd, ?toRm_E, ?toRm_I; cbn [Nat.eqb andb].
  (* orthorhombic *)
    destruct Hcf as (E1 & E2 & E3). subst al be ga. set (B' := mkM3 (1 / a) 0 0 0 (1 / b) 0 0 0 (1 / cc)).
    assert (E : laue_form_b_mat (mkV6 a b cc 90 90 90) = B').
    { apply B_from_candidate; [exact Hc | unfold B'; posdiag; apply Rdiv_lt_0_compat; lra |].
      unfold B', metric; cbv zeta; cbn [c0 c1 c2 c3 c4 c5]. rewrite cos_rad_90. unfold mmul, mtrans, mI; cbn. f_equal; field; lra. }
    rewrite E. exists [1 / a; 1 / b; 1 / cc]. unfold B'; cbv beta iota delta [lincomb madd mscale mZ mI m00 m01 m02 m10 m11 m12 m20 m21 m22]; f_equal; ring.
Qed.

Lemma span_tetr c : valid_cell c -> conforming 4 c -> exists cs, laue_form_b_mat c = lincomb cs (map toRm (b_basis 4)).
Proof.
  intros Hc Hcf. pose proof Hc as (Ha & Hb & Hcc & Hal & Hbe & Hga & Hgr).
  destruct c as [a b cc al be ga]. cbn [c0 c1 c2 c3 c4 c5] in *.
  cbn [conforming b_basis map c0 c1 c2 c3 c4 c5] in *; rewrite ?toRm_E, ?toRm_M1hex, ?toRm_qmadd, ?toRm_E, ?toRm_I; cbn [Nat.eqb andb].
  (* tetragonal *)
    destruct Hcf as (E0 & E1 & E2 & E3). subst b al be ga. set (B' := mkM3 (1 / a) 0 0 0 (1 / a) 0 0 0 (1 / cc)).
    assert (E : laue_form_b_mat (mkV6 a a cc 90 90 90) = B').
    { apply B_from_candidate; [exact Hc | unfold B'; posdiag; apply Rdiv_lt_0_compat; lra |].
      unfold B', metric; cbv zeta; cbn [c0 c1 c2 c3 c4 c5]. rewrite cos_rad_90. unfold mmul, mtrans, mI; cbn. f_equal; field; lra. }
    rewrite E. exists [1 / a; 1 / cc]. unfold B'; cbv beta iota delta [lincomb madd mscale mZ mI m00 m01 m02 m10 m11 m12 m20 m21 m22]; f_equal; ring.
Qed.

Lemma span_trig c : valid_cell c -> conforming 5 c -> exists cs, laue_form_b_mat c = lincomb cs (map toRm (b_basis 5)).
Proof.
  intros Hc Hcf. pose proof Hc as (Ha & Hb & Hcc & Hal & Hbe & Hga & Hgr).
  destruct c as [a b cc al be ga]. cbn [c0 c1 c2 c3 c4 c5] in *.
  cbn [conforming b_basis map c0 c1 c2 c3 c4 c5] in *; rewrite ?toRm_E, ?toRm_M1hex, ?toRm_qmadd, ?toRm_E, ?toRm_I; cbn [Nat.eqb andb].
  (* trigonal, hexagonal axes *)
    destruct Hcf as (E0 & E1 & E2 & E3). subst b al be ga. pose proof sqrt3_pos as S3. pose proof sqrt3_sq as Q3.
    set (s := 2 / (a * sqrt 3)). set (B' := mkM3 s (s / 2) 0 0 (s * sqrt 3 / 2) 0 0 0 (1 / cc)).
    assert (E : laue_form_b_mat (mkV6 a a cc 90 90 120) = B').
    { apply B_from_candidate; [exact Hc | unfold B', s; posdiag; try (apply Rdiv_lt_0_compat; nra) |].
      - apply Rdiv_lt_0_compat; [|lra]. apply Rmult_lt_0_compat; [apply Rdiv_lt_0_compat; nra | exact S3].
      - unfold B', s, metric; cbv zeta; cbn [c0 c1 c2 c3 c4 c5]. rewrite cos_rad_90, cos_rad_120. unfold mmul, mtrans, mI; cbn.
        clear - Ha Hcc S3 Q3. set (r := sqrt 3) in *. clearbody r.
        f_equal; (field_simplify_eq; [try nsatz_R | repeat split; lra]). }
    rewrite E. exists [s; 1 / cc]. unfold B'; cbv beta iota delta [lincomb madd mscale mZ mI m00 m01 m02 m10 m11 m12 m20 m21 m22]; f_equal; field; lra.
Qed.

Lemma span_hexa c : valid_cell c -> conforming 6 c -> exists cs, laue_form_b_mat c = lincomb cs (map toRm (b_basis 6)).
Proof.
  intros Hc Hcf. pose proof Hc as (Ha & Hb & Hcc & Hal & Hbe & Hga & Hgr).
  destruct c as [a b cc al be ga]. cbn [c0 c1 c2 c3 c4 c5] in *.
  cbn [conforming b_basis map c0 c1 c2 c3 c4 c5] in *; rewrite ?toRm_E, ?toRm_M1hex, ?toRm_qmadd, ?toRm_E, ?toRm_I; cbn [Nat.eqb andb].
  (* hexagonal *)
    destruct Hcf as (E0 & E1 & E2 & E3). subst b al be ga. pose proof sqrt3_pos as S3. pose proof sqrt3_sq as Q3.
    set (s := 2 / (a * sqrt 3)). set (B' := mkM3 s (s / 2) 0 0 (s * sqrt 3 / 2) 0 0 0 (1 / cc)).
    assert (E : laue_form_b_mat (mkV6 a a cc 90 90 120) = B').
    { apply B_from_candidate; [exact Hc | unfold B', s; posdiag; try (apply Rdiv_lt_0_compat; nra) |].
      - apply Rdiv_lt_0_compat; [|lra]. apply Rmult_lt_0_compat; [apply Rdiv_lt_0_compat; nra | exact S3].
      - unfold B', s, metric; cbv zeta; cbn [c0 c1 c2 c3 c4 c5]. rewrite cos_rad_90, cos_rad_120. unfold mmul, mtrans, mI; cbn.
        clear - Ha Hcc S3 Q3. set (r := sqrt 3) in *. clearbody r.
        f_equal; (field_simplify_eq; [try nsatz_R | repeat split; lra]). }
    rewrite E. exists [s; 1 / cc]. unfold B'; cbv beta iota delta [lincomb madd mscale mZ mI m00 m01 m02 m10 m11 m12 m20 m21 m22]; f_equal; field; lra.
Qed.

Lemma span_cubi c : valid_cell c -> conforming 7 c -> exists cs, laue_form_b_mat c = lincomb cs (map toRm (b_basis 7)).
Proof.
  intros Hc Hcf. pose proof Hc as (Ha & Hb & Hcc & Hal & Hbe & Hga & Hgr).
  destruct c as [a b cc al be ga]. cbn [c0 c1 c2 c3 c4 c5] in *.
  cbn [conforming b_basis map c0 c1 c2 c3 c4 c5] in *; rewrite ?toRm_E, ?toRm_M1hex, ?toRm_qmadd, ?toRm_E, ?toRm_I; cbn [Nat.eqb andb].
  (* cubic *)
    destruct Hcf as (E0 & E00 & E1 & E2 & E3). subst b cc al be ga. set (B' := mkM3 (1 / a) 0 0 0 (1 / a) 0 0 0 (1 / a)).
    assert (E : laue_form_b_mat (mkV6 a a a 90 90 90) = B').
    { apply B_from_candidate; [exact Hc | unfold B'; posdiag; apply Rdiv_lt_0_compat; lra |].
      unfold B', metric; cbv zeta; cbn [c0 c1 c2 c3 c4 c5]. rewrite cos_rad_90. unfold mmul, mtrans, mI; cbn. f_equal; field; lra. }
    rewrite E. exists (1 / a :: nil). unfold B'; cbv beta iota delta [lincomb madd mscale mZ mI m00 m01 m02 m10 m11 m12 m20 m21 m22]; f_equal; ring.

Qed.

Theorem conforming_in_span k c : In k [1; 2; 3; 4; 5; 6; 7]%nat -> valid_cell c -> conforming k c ->
  exists cs, laue_form_b_mat c = lincomb cs (map toRm (b_basis k)).
Proof.
  intros Hk Hc Hcf. cbn [In] in Hk. destruct Hk as [<-|[<-|[<-|[<-|[<-|[<-|[<-|[]]]]]]]].
  - apply span_tric; assumption.
  - apply span_mono; assumption.
  - apply span_orth; assumption.
  - apply span_tetr; assumption.
  - apply span_trig; assumption.
  - apply span_hexa; assumption.
  - apply span_cubi; assumption.
Qed.

(* rot[i].B.perm[i] = B for the B matrix of every conforming cell, every crystal system, every operator *)
Theorem rot_B_perm k c P Rq : In k [1; 2; 3; 4; 5; 6; 7]%nat -> valid_cell c -> conforming k c ->
  perms_of k perm_tab = Some P -> rots_of k rot_tab = Some Rq ->
  forall i, (i < List.length Rq)%nat ->
  mmul (mmul (toRm (List.nth i Rq qmI)) (laue_form_b_mat c)) (toRm (List.nth i P qmI)) = laue_form_b_mat c.
Proof.
  intros Hk Hc Hcf HP HR i Hi. destruct (conforming_in_span k c Hk Hc Hcf) as [cs ->].
  apply rot_B_perm_span; try assumption.
  exact (proj1 (forallb_forall _ _) sym_all k Hk).
Qed.

Example conforming_example : valid_cell (mkV6 3 3 5 90 90 120) /\ conforming 6 (mkV6 3 3 5 90 90 120).
Proof.
  split; [|cbn; repeat split; reflexivity].
  unfold valid_cell, gram; cbn [c0 c1 c2 c3 c4 c5]. rewrite cos_rad_90, cos_rad_120. repeat split; lra.
Qed.

(* C06: at most one member of every Laue family lies in the union of the traversal's cones - for all of Z^3, every setting.
   gen/P06_fd.v proves it per segment table for the union of the Laue groups of the settings selecting that table (lia, one goal per
   group element and pair of segments); here every setting is shown (by computation) to select a table entry that contains its group. *)
From Coq Require Import ZArith List Bool String Lia.
From XV Require Import SGroup HklModel Traverse Tab_segm Tab_sg_all P05 P06_fd.
Import ListNotations.
Open Scope Z_scope.

Definition laue_mats (s : sgrec) : option (list mat) :=
  match all_mats (firstn (Z.to_nat (sg_nuniq s)) (sg_rot s)) with
  | Some rots => Some (rots ++ map mnegZ rots)
  | None => None
  end.

Definition fd_matches (laue choice : string) (e : string * option bool * list mat * list (list (list Z))) : bool :=
  let '(l, rh, _, _) := e in
  String.eqb l laue &&
  match rh with
  | None => true
  | Some true => String.eqb choice "rhombohedral"%string
  | Some false => negb (String.eqb choice "rhombohedral"%string)
  end.
Definition fd_lookup (laue choice : string) : option (string * option bool * list mat * list (list (list Z))) :=
  match filter (fd_matches laue choice) fd_table with
  | [] => None
  | l => Some (last l (EmptyString, None, [], []))
  end.

Definition segs_eqb : list (list (list Z)) -> list (list (list Z)) -> bool := list_eqb (list_eqb (list_eqb Z.eqb)).
Definition fd_setting_ok (s : sgrec) : bool :=
  match laue_mats s, fd_lookup (sg_laue s) (sg_choice s), lookup_segm segm_laue (sg_laue s) (sg_choice s) with
  | Some L, Some e, Some segs =>
      forallb (fun R => existsb (mat_eqb R) (snd (fst e))) L && segs_eqb segs (snd e)
      && forallb (fun R => existsb (mat_eqb R) L) (snd (fst e))                          (* the table's group is exactly this setting's *)
      && forallb (fun R => existsb (fun R' => mat_eqb (mmulZ R R') mI9) L) L             (* closed under inverse *)
  | _, _, _ => false
  end.
Lemma fd_settings_ok : forallb fd_setting_ok all_settings = true.
Proof. vm_compute. reflexivity. Qed.

Lemma list_eqb_eq {A} (eqb : A -> A -> bool) : (forall a b, eqb a b = true -> a = b) -> forall l1 l2, list_eqb eqb l1 l2 = true -> l1 = l2.
Proof.
  intros Hs. induction l1 as [|a l1 IH]; destruct l2 as [|b l2]; cbn; intros H; try discriminate; [reflexivity|].
  apply andb_prop in H. destruct H as [H1 H2]. f_equal; [apply Hs; exact H1 | apply IH; exact H2].
Qed.
Lemma mat_eqb_eq' A B : mat_eqb A B = true -> A = B.
Proof.
  destruct A as [[[[[[[[a b] c] d] e] f] g] h] i], B as [[[[[[[[a' b'] c'] d'] e'] f'] g'] h'] i']. unfold mat_eqb. intros H.
  do 8 (apply andb_prop in H; let X := fresh "X" in destruct H as [H X]; apply Z.eqb_eq in X).
  apply Z.eqb_eq in H. subst. reflexivity.
Qed.
Lemma last_in {A} (l : list A) d : l <> [] -> In (last l d) l.
Proof.
  induction l as [|a l IH]; [congruence|]. intros _. destruct l as [|b l]; [left; reflexivity|].
  right. apply IH. discriminate.
Qed.

Theorem one_per_family s L segs : In s all_settings -> laue_mats s = Some L -> lookup_segm segm_laue (sg_laue s) (sg_choice s) = Some segs ->
  forall R seg1 seg2 x, In R L -> In seg1 segs -> In seg2 segs -> in_cone seg1 x -> in_cone seg2 (vmZ x R) -> vmZ x R = x /\ seg1 = seg2.
Proof.
  intros Hs HL Hsg R seg1 seg2 [[x y] z] HR H1 H2 C1 C2.
  pose proof (proj1 (forallb_forall _ _) fd_settings_ok s Hs) as Hok. unfold fd_setting_ok in Hok. rewrite HL, Hsg in Hok.
  destruct (fd_lookup (sg_laue s) (sg_choice s)) as [e|] eqn:El; [|discriminate].
  assert (He : In e fd_table).
  { unfold fd_lookup in El. destruct (filter _ fd_table) as [|a l] eqn:F; [discriminate|].
    assert (E0 : last (a :: l) (EmptyString, None, [], []) = e) by (injection El; intros Q; exact Q).
    assert (Hin : In (last (a :: l) (EmptyString, None, [], [])) (a :: l)) by (apply last_in; discriminate).
    rewrite E0, <- F in Hin. apply filter_In in Hin. exact (proj1 Hin). }
  clear El.
  apply andb_prop in Hok. destruct Hok as [Hok _]. apply andb_prop in Hok. destruct Hok as [Hok _].
  apply andb_prop in Hok. destruct Hok as [HG HS].
  apply (list_eqb_eq _ (list_eqb_eq _ (list_eqb_eq _ (fun a b => proj1 (Z.eqb_eq a b))))) in HS. subst segs.
  rewrite forallb_forall in HG. specialize (HG R HR). apply existsb_exists in HG. destruct HG as (R' & HR' & E). apply mat_eqb_eq' in E. subst R'.
  exact (fd_table_unique e He R seg1 seg2 x y z HR' H1 H2 C1 C2).
Qed.

(* hence the rows of the traversal model never contain two different members of one Laue family *)
Corollary rows_one_per_family s L segs G Tmin Tmax Tterm allowed fuel l :
  In s all_settings -> laue_mats s = Some L -> lookup_segm segm_laue (sg_laue s) (sg_choice s) = Some segs ->
  all_segments G Tmin Tmax Tterm allowed fuel segs = Some l ->
  forall x y R, In x l -> In y l -> In R L -> y = vmZ x R -> y = x.
Proof.
  intros Hs HL Hsg H x y R Hx Hy HR ->.
  destruct (all_segments_sound G Tmin Tmax Tterm allowed fuel segs l H x Hx) as [_ (seg1 & S1 & C1)].
  destruct (all_segments_sound G Tmin Tmax Tterm allowed fuel segs l H _ Hy) as [_ (seg2 & S2 & C2)].
  exact (proj1 (one_per_family s L segs Hs HL Hsg R seg1 seg2 x HR S1 S2 C1 C2)).
Qed.

Example laue_mats_defined : forallb (fun s => match laue_mats s with Some L => negb (Nat.eqb (List.length L) 0) | None => false end) all_settings = true.
Proof. vm_compute. reflexivity. Qed.

(* C19: save then load gives back the same name -> value mapping *)
From Coq Require Import ZArith List Bool Ascii String Lia.
From XV Require Import SGroup Ingest Params P19.
Import ListNotations.
Open Scope string_scope.

Fixpoint no_sp (s : string) : bool := match s with EmptyString => true | String c r => negb (Ascii.eqb c " "%char) && no_sp r end.

Lemma app_assoc_s a b c : (a ++ b) ++ c = a ++ b ++ c.
Proof. induction a as [|x a IH]; cbn; [reflexivity | rewrite IH; reflexivity]. Qed.
Lemma app_nil_s s : s ++ "" = s.
Proof. induction s as [|c s IH]; cbn; [reflexivity | rewrite IH; reflexivity]. Qed.
Lemma no_sp_app a b : no_sp (a ++ b) = no_sp a && no_sp b.
Proof. induction a as [|c a IH]; cbn; [reflexivity|]. rewrite IH, andb_assoc. reflexivity. Qed.

Section File.
Variable F : Type.
Variable print_f : F -> string.
Variable print_i : Z -> string.
Variable parse_f : string -> option F.
Variable parse_i : string -> option Z.
Notation value := (value F).
Notation dict := (dict F).
Notation coerce := (coerce F parse_f parse_i).
Notation load := (load F parse_f parse_i).
Notation save_lines := (save_lines F print_f print_i).
Notation print_v := (print_v F print_f print_i).

(* what is assumed of Python's number formatting / parsing (validated on sampled values by the correspondence) *)
Hypothesis int_roundtrip : forall z, parse_i (print_i z ++ nl) = Some z /\ parse_f (print_i z ++ nl) <> None /\ no_sp (print_i z) = true.
Hypothesis float_roundtrip : forall f, parse_f (print_f f ++ nl) = Some f /\ parse_i (print_f f ++ nl) = None /\ no_sp (print_f f) = true.

Definition good_value (v : value) : Prop :=
  match v with
  | VStr _ s => parse_f (s ++ nl) = None /\ strip (s ++ nl) = s /\ no_sp s = true
  | _ => True
  end.

Lemma split_sp_tok a rest cur : no_sp a = true -> split_sp (a ++ rest) cur = split_sp rest (cur ++ a).
Proof.
  revert cur; induction a as [|c a IH]; intros cur H; cbn.
  - rewrite app_nil_s. reflexivity.
  - cbn in H. apply andb_prop in H. destruct H as [H1 H2]. apply negb_true_iff in H1. rewrite H1.
    rewrite IH by exact H2. rewrite app_assoc_s. reflexivity.
Qed.
Lemma split_sp_last a cur : no_sp a = true -> split_sp a cur = [cur ++ a].
Proof. intros H. rewrite <- (app_nil_s a) at 1. rewrite split_sp_tok by exact H. reflexivity. Qed.
Lemma split_line k v : no_sp k = true -> no_sp v = true -> split_sp (k ++ " " ++ v) "" = [k; v].
Proof.
  intros Hk Hv. rewrite split_sp_tok by exact Hk. cbn. rewrite split_sp_last by exact Hv. reflexivity.
Qed.

Lemma nl_no_sp : no_sp nl = true.
Proof. reflexivity. Qed.

Lemma print_no_sp v : good_value v -> no_sp (print_v v ++ nl) = true.
Proof.
  intros G. rewrite no_sp_app, nl_no_sp, andb_true_r. destruct v as [z|f|s]; cbn.
  - apply int_roundtrip. - apply float_roundtrip. - apply G.
Qed.

Lemma coerce_print v : good_value v -> coerce (VStr F (print_v v ++ nl)) = v.
Proof.
  intros G. destruct v as [z|f|s]; cbn [Params.coerce Params.print_v].
  - destruct (int_roundtrip z) as (HI & HF & _). destruct (parse_f (print_i z ++ nl)) as [g|]; [|congruence]. rewrite HI. reflexivity.
  - destruct (float_roundtrip f) as (HF & HI & _). rewrite HF, HI. reflexivity.
  - destruct G as (HF & HS & _). rewrite HF, HS. reflexivity.
Qed.

Definition hk (kv : string * value) : string := hyphen_to_underscore (fst kv).

Lemma load_line_save acc k v : no_sp k = true -> good_value v ->
  load_line F acc (k ++ " " ++ print_v v ++ nl) = upd F acc (hyphen_to_underscore k) (VStr F (print_v v ++ nl)).
Proof. intros Hk G. unfold load_line. rewrite split_line by (try exact Hk; apply print_no_sp; exact G). reflexivity. Qed.

Lemma save_lines_cons k v (r : dict) : save_lines ((k, v) :: r) = (k ++ " " ++ print_v v ++ nl) :: save_lines r.
Proof. reflexivity. Qed.

Lemma fold_notin (d : dict) : forall acc x, Forall (fun kv => no_sp (fst kv) = true /\ good_value (snd kv)) d -> ~ In x (map hk d) ->
  lookup F (fold_left (load_line F) (save_lines d) acc) x = lookup F acc x.
Proof.
  induction d as [|[k v] r IH]; intros acc x FA NI; [reflexivity|].
  inversion FA as [|? ? [Hk G] FR]; subst. cbn in Hk, G.
  rewrite save_lines_cons. cbn [fold_left]. rewrite load_line_save by assumption. rewrite IH; [|exact FR | intro H; apply NI; right; exact H].
  rewrite lookup_upd. destruct (String.eqb (hyphen_to_underscore k) x) eqn:E; [|reflexivity].
  apply String.eqb_eq in E. exfalso. apply NI. left. exact E.
Qed.

Theorem save_load (d : dict) : Forall (fun kv => no_sp (fst kv) = true /\ good_value (snd kv)) d -> NoDup (map hk d) ->
  forall k v, In (k, v) d -> lookup F (load [] (save_lines d)) (hyphen_to_underscore k) = Some v.
Proof.
  intros FA ND k v HI. unfold Params.load. rewrite lookup_map.
  assert (G : forall acc, lookup F (fold_left (load_line F) (save_lines d) acc) (hyphen_to_underscore k) = Some (VStr F (print_v v ++ nl))).
  { revert FA ND HI. induction d as [|[k0 v0] r IH]; intros FA ND HI acc; [destruct HI|].
    inversion FA as [|? ? [Hk G] FR]; subst. cbn in Hk, G. inversion ND as [|? ? NI NR]; subst.
    rewrite save_lines_cons. cbn [fold_left]. rewrite load_line_save by assumption.
    destruct HI as [E|HI].
    - injection E as -> ->. rewrite fold_notin by assumption. rewrite lookup_upd, String.eqb_refl. reflexivity.
    - apply IH; assumption. }
  rewrite G. cbn [option_map]. f_equal. apply coerce_print.
  rewrite Forall_forall in FA. apply (FA (k, v) HI).
Qed.

(* nothing is invented: a name that is not the image of a saved key is absent after loading into an empty object *)
Theorem load_nothing_else (d : dict) x : Forall (fun kv => no_sp (fst kv) = true /\ good_value (snd kv)) d -> ~ In x (map hk d) ->
  lookup F (load [] (save_lines d)) x = None.
Proof. intros FA NI. unfold Params.load. rewrite lookup_map, fold_notin by assumption. reflexivity. Qed.
End File.

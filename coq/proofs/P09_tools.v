(* C09 for xfab.tools: same models with gn := g (tools does not rescale g; it asserts |g|^2 = sin^2(theta)) *)
From Coq Require Import Reals Lra Psatz List.
From XV Require Import RealLib Mat3 Atan2 OmegaSolve Cell Gen_laue Gen_tools P01_laue P01_laue_b P14_cell P01_tools P03_laue P14_rot P09_laue P09_plain P09_quart.
Import ListNotations.
Open Scope R_scope.

Lemma tools_general_refines g tth wx wy :
  tools_find_omega_general g tth wx wy =
  if Rlt_dec (Rabs ((vx g * vx g + vy g * vy g + vz g * vz g) - sin (tth / 2) ^ 2)) (1 / 1000000000)
  then Some (omega_general_model g tth wx wy) else None.
Proof.
  unfold tools_find_omega_general, omega_general_model, solver_model, gen_a, gen_b, gen_c, eta_of, wrap, mvmul; cbv zeta.
  destruct (Rlt_dec (Rabs _) _); [|reflexivity].
  destruct (Rlt_dec _ 0); [reflexivity|].
  destruct (Rlt_dec PI _); destruct (Rlt_dec PI _); reflexivity.
Qed.

Lemma tools_quart_refines g tth wx wy :
  tools_find_omega_quart g tth wx wy =
  if Rlt_dec (Rabs ((vx g * vx g + vy g * vy g + vz g * vz g) - sin (tth / 2) ^ 2)) (1 / 1000000000)
  then Some (omega_quart_model g tth wx wy) else None.
Proof.
  unfold tools_find_omega_quart, omega_quart_model, solver_model, quart_a, quart_b, quart_c, q_n1, q_n2, eta_of, wrap, mvmul; cbv zeta.
  destruct (Rlt_dec (Rabs _) _); [|reflexivity].
  destruct (Rlt_dec _ 0); [reflexivity|].
  destruct (Rlt_dec PI _); destruct (Rlt_dec PI _); reflexivity.
Qed.

Lemma tools_plain_refines g tth : tools_find_omega g tth = omega_plain_model g tth.
Proof.
  unfold tools_find_omega, omega_plain_model, acos_signed; cbv zeta.
  destruct (Rlt_dec 0 _); [|reflexivity].
  destruct (Rlt_dec _ 0); destruct (Rlt_dec _ 0); reflexivity.
Qed.

Theorem tools_find_omega_general_sound g tth wx wy oms etas :
  0 < tth < PI -> vx g * vx g + vy g * vy g + vz g * vz g = sin (tth / 2) * sin (tth / 2) ->
  gen_a g wy * gen_a g wy + gen_b g wy * gen_b g wy <> 0 ->
  tools_find_omega_general g tth wx wy = Some (oms, etas) ->
  (forall w e, In (w, e) (combine oms etas) -> diffracts (tools_form_omega_mat_general w wx wy) g tth e) /\
  (forall w, In w oms -> - PI < w <= PI) /\
  (forall w, - PI < w <= PI -> vx (mvmul (tools_form_omega_mat_general w wx wy) g) = - (sin (tth / 2) * sin (tth / 2)) -> In w oms).
Proof.
  intros Ht Hn Hab E. rewrite tools_general_refines in E.
  destruct (Rlt_dec _ _) as [L|L]; [|discriminate]. injection E as E.
  assert (O : oms = fst (omega_general_model g tth wx wy)) by (rewrite E; reflexivity).
  assert (T : etas = snd (omega_general_model g tth wx wy)) by (rewrite E; reflexivity).
  subst oms etas. unfold omega_general_model.
  assert (HOm : forall w, is_rot (laue_form_omega_mat_general w wx wy)) by (intro; apply laue_omega_general_rot).
  pose proof (fun w => general_x_component w wx wy g) as Hx.
  assert (Hc : gen_c g wy = - (vx g * vx g + vy g * vy g + vz g * vz g) - vz g * sin wy) by reflexivity.
  split; [|split].
  - intros w e. rewrite tl_form_omega_mat_general. eapply (model_sound g tth (fun w => laue_form_omega_mat_general w wx wy)); eassumption.
  - intros w. eapply (model_range g tth (fun w => laue_form_omega_mat_general w wx wy)); eassumption.
  - intros w. rewrite tl_form_omega_mat_general. eapply (model_complete g tth (fun w => laue_form_omega_mat_general w wx wy)); eassumption.
Qed.

Theorem tools_find_omega_quart_sound g tth wx wy oms etas :
  0 < tth < PI -> vx g * vx g + vy g * vy g + vz g * vz g = sin (tth / 2) * sin (tth / 2) ->
  quart_a g wx wy * quart_a g wx wy + quart_b g wx wy * quart_b g wx wy <> 0 ->
  tools_find_omega_quart g tth wx wy = Some (oms, etas) ->
  (forall w e, In (w, e) (combine oms etas) -> diffracts (tools_quart_to_omega (w * 180 / PI) wx wy) g tth e) /\
  (forall w, In w oms -> - PI < w <= PI) /\
  (forall w, - PI < w <= PI -> vx (mvmul (tools_quart_to_omega (w * 180 / PI) wx wy) g) = - (sin (tth / 2) * sin (tth / 2)) -> In w oms).
Proof.
  intros Ht Hn Hab E. rewrite tools_quart_refines in E.
  destruct (Rlt_dec _ _) as [L|L]; [|discriminate]. injection E as E.
  assert (O : oms = fst (omega_quart_model g tth wx wy)) by (rewrite E; reflexivity).
  assert (T : etas = snd (omega_quart_model g tth wx wy)) by (rewrite E; reflexivity).
  subst oms etas. unfold omega_quart_model.
  assert (HOm : forall w, is_rot (laue_quart_to_omega (w * 180 / PI) wx wy)) by (intro; apply laue_quart_rot).
  pose proof (fun w => quart_x_component w wx wy g) as Hx.
  assert (Hc : quart_c g wx wy = - (vx g * vx g + vy g * vy g + vz g * vz g)
               - (vx g * sin wy ^ 2 + vy g * sin wy * q_n1 wx wy + vz g * sin wy * q_n2 wx wy)) by (unfold quart_c; ring).
  split; [|split].
  - intros w e. rewrite tl_quart_to_omega. eapply (model_sound g tth (fun w => laue_quart_to_omega (w * 180 / PI) wx wy)); eassumption.
  - intros w. eapply (model_range g tth (fun w => laue_quart_to_omega (w * 180 / PI) wx wy)); eassumption.
  - intros w. rewrite tl_quart_to_omega. eapply (model_complete g tth (fun w => laue_quart_to_omega (w * 180 / PI) wx wy)); eassumption.
Qed.

Theorem tools_find_omega_sound g tth w : 0 < tth < PI ->
  vx g * vx g + vy g * vy g + vz g * vz g = sin (tth / 2) * sin (tth / 2) -> vx g * vx g + vy g * vy g <> 0 ->
  In w (tools_find_omega g tth) ->
  vx (mvmul (tools_form_omega_mat w) g) = - (sin (tth / 2) * sin (tth / 2)) /\ - PI < w <= PI.
Proof.
  intros Ht Hn Hxy Hin. rewrite tools_plain_refines in Hin. rewrite tl_form_omega_mat, laue_omega_comp.
  eapply plain_sound; eassumption.
Qed.

(* two-theta *)
Lemma tools_tth_def c h wl : tools_tth c h wl = 2 * asin (wl * tools_sintl c h).
Proof. reflexivity. Qed.
Lemma tools_tth_eq_tth2 U c h wl : is_rot U -> valid_cell c ->
  tools_tth2 (mvmul (mmul U (tools_form_b_mat c)) h) wl = tools_tth c h wl.
Proof.
  intros HU Hc. rewrite tools_tth_def, tools_sintl_norm by exact Hc. unfold tools_tth2; cbv zeta.
  rewrite mvmul_mmul. set (v := mvmul (tools_form_b_mat c) h).
  pose proof (rot_vnorm2 U v HU) as N. unfold vnorm2, vdot in N. unfold vnorm, vnorm2, vdot.
  rewrite N. f_equal. f_equal. pose proof PI_RGT_0. field. lra.
Qed.

(* C19: the parameters state machine refines a plain dictionary; save then load gives back the mapping *)
From Coq Require Import ZArith List Bool Ascii String Lia.
From XV Require Import SGroup Ingest Params.
Import ListNotations.
Open Scope string_scope.

Section Proofs.
Variable F : Type.
Variable print_f : F -> string.
Variable print_i : Z -> string.
Variable parse_f : string -> option F.
Variable parse_i : string -> option Z.
Notation value := (value F).
Notation dict := (dict F).
Notation st := (st F).
Notation op := (op F).
Notation coerce := (coerce F parse_f parse_i).
Notation step := (step F parse_f parse_i).
Notation run := (run F parse_f parse_i).

(* ---- the plain dictionary specification: a total function from names to optional values ---------------------------- *)
Definition fdict := string -> option value.
Definition fupd (d : fdict) (k : string) (v : value) : fdict := fun x => if String.eqb k x then Some v else d x.
Record spec := mkSp { sd : fdict; svary : list string; svariable : list string }.

Definition sstep (s : spec) (o : op) : spec * outcome :=
  match o with
  | Addpar _ k v vy cv =>
      (mkSp (fupd (sd s) k v)
            (if vy && negb (has (svary s) k) then svary s ++ [k] else svary s)
            (if cv && negb (has (svariable s) k) then svariable s ++ [k] else svariable s), Ok)
  | SetV _ k v => (mkSp (fupd (sd s) k v) (svary s) (svariable s), Ok)
  | SetParameters _ l =>
      let d := fold_left (fun d kv => fupd d (fst kv) (snd kv)) l (sd s) in
      (mkSp (fun x => option_map coerce (d x)) (svary s) (svariable s), Ok)
  | SetVarylist _ vl =>
      if forallb (fun v => match sd s v with Some _ => true | None => false end && has (svariable s) v) vl
      then (mkSp (sd s) vl (svariable s), Ok) else (s, AssertionError)
  | SetVariableValues _ vals =>
      if Nat.eqb (List.length vals) (List.length (svary s))
      then (mkSp (fold_left (fun d kv => fupd d (fst kv) (snd kv)) (combine (svary s) vals) (sd s)) (svary s) (svariable s), Ok)
      else (s, AssertionError)
  | UpdateYourself _ other =>
      (mkSp (fun x => match sd s x with Some v => Some (match lookup F other x with Some w => w | None => v end) | None => None end)
            (svary s) (svariable s), Ok)
  end.

Definition srun (ops : list op) : spec := fold_left (fun s o => fst (sstep s o)) ops (mkSp (fun _ => None) [] []).

(* ---- lemmas about association lists ------------------------------------------------------------------------------------ *)
Lemma lookup_upd (d : dict) k v x : lookup F (upd F d k v) x = if String.eqb k x then Some v else lookup F d x.
Proof.
  induction d as [|[k' v'] r IH]; cbn.
  - reflexivity.
  - destruct (String.eqb k' k) eqn:E; cbn.
    + apply String.eqb_eq in E. subst k'. destruct (String.eqb k x); reflexivity.
    + destruct (String.eqb k' x) eqn:E2.
      * apply String.eqb_eq in E2. subst x. rewrite String.eqb_sym in E. rewrite E. reflexivity.
      * exact IH.
Qed.

Lemma lookup_map (f : value -> value) (d : dict) x :
  lookup F (map (fun kv => (fst kv, f (snd kv))) d) x = option_map f (lookup F d x).
Proof. induction d as [|[k v] r IH]; cbn; [reflexivity|]. destruct (String.eqb k x); [reflexivity | exact IH]. Qed.

Lemma lookup_fold (l : list (string * value)) : forall (d : dict) (g : fdict), (forall x, lookup F d x = g x) ->
  forall x, lookup F (fold_left (fun d kv => upd F d (fst kv) (snd kv)) l d) x = fold_left (fun d kv => fupd d (fst kv) (snd kv)) l g x.
Proof.
  induction l as [|[k v] r IH]; intros d g H x; cbn; [apply H|].
  apply IH. intros y. rewrite lookup_upd. unfold fupd. cbn. rewrite H. reflexivity.
Qed.

Lemma lookup_update_yourself (other d : dict) x :
  lookup F (map (fun kv => match lookup F other (fst kv) with Some v => (fst kv, v) | None => kv end) d) x =
  match lookup F d x with Some v => Some (match lookup F other x with Some w => w | None => v end) | None => None end.
Proof.
  induction d as [|[k v] r IH]; cbn; [reflexivity|].
  destruct (lookup F other k) as [w|] eqn:E; cbn; destruct (String.eqb k x) eqn:E2; try exact IH.
  - apply String.eqb_eq in E2. subst x. rewrite E. reflexivity.
  - apply String.eqb_eq in E2. subst x. rewrite E. reflexivity.
Qed.

(* ---- refinement -------------------------------------------------------------------------------------------------------- *)
Definition agrees (s : st) (p : spec) : Prop :=
  (forall x, lookup F (pars F s) x = sd p x) /\ varylist F s = svary p /\ variable_list F s = svariable p.

Lemma forallb_ext_eq {T} (f g : T -> bool) l : (forall x, f x = g x) -> forallb f l = forallb g l.
Proof. intros H. induction l as [|a l IH]; cbn; [reflexivity|]. rewrite H, IH. reflexivity. Qed.

Lemma step_refines s p o : agrees s p -> agrees (fst (step s o)) (fst (sstep p o)) /\ snd (step s o) = snd (sstep p o).
Proof.
  intros (HD & HV & HL). unfold agrees.
  destruct o as [k v vy cv | k v | l | vl | vals | other]; cbn [Params.step sstep].
  - rewrite HV, HL. cbn [fst snd pars varylist variable_list sd svary svariable].
    split; [|reflexivity]. split; [|split; reflexivity]. intros x. rewrite lookup_upd. unfold fupd. rewrite HD. reflexivity.
  - cbn [fst snd pars varylist variable_list sd svary svariable].
    split; [|reflexivity]. split; [|split; assumption]. intros x. rewrite lookup_upd. unfold fupd. rewrite HD. reflexivity.
  - cbn [fst snd pars varylist variable_list sd svary svariable].
    split; [|reflexivity]. split; [|split; assumption]. intros x. rewrite lookup_map. f_equal. apply lookup_fold. exact HD.
  - rewrite HL. rewrite (forallb_ext_eq _ (fun v => match sd p v with Some _ => true | None => false end && has (svariable p) v)) by (intros x; rewrite HD; reflexivity).
    destruct (forallb _ vl); cbn [fst snd pars varylist variable_list sd svary svariable]; (split; [|reflexivity]).
    + split; [exact HD | split; first [assumption | reflexivity]].
    + split; [exact HD | split; first [assumption | reflexivity]].
  - rewrite HV. destruct (Nat.eqb _ _); cbn [fst snd pars varylist variable_list sd svary svariable]; (split; [|reflexivity]).
    + split; [|split; first [assumption | reflexivity]]. intros x. apply lookup_fold. exact HD.
    + split; [exact HD | split; first [assumption | reflexivity]].
  - cbn [fst snd pars varylist variable_list sd svary svariable].
    split; [|reflexivity]. split; [|split; assumption]. intros x. rewrite lookup_update_yourself, HD. reflexivity.
Qed.

Theorem run_refines ops : agrees (run ops) (srun ops).
Proof.
  unfold Params.run, srun.
  assert (G : forall s p, agrees s p -> agrees (fold_left (fun s o => fst (step s o)) ops s) (fold_left (fun s o => fst (sstep s o)) ops p)).
  { induction ops as [|o r IH]; intros s p H; cbn; [exact H|]. apply IH. apply step_refines; exact H. }
  apply G. split; [intros x; reflexivity | split; reflexivity].
Qed.

(* get / get_variable_values of the class = the dictionary specification *)
Corollary get_is_last_written ops k : get F (run ops) k = sd (srun ops) k.
Proof. apply (proj1 (run_refines ops)). Qed.
Corollary variable_values_follow_varylist ops :
  get_variable_values F (run ops) = map (sd (srun ops)) (svary (srun ops)).
Proof.
  destruct (run_refines ops) as (HD & HV & _). unfold get_variable_values. rewrite HV. apply map_ext. exact HD.
Qed.

(* the specification really is "last value written": characterising lemmas *)
Lemma spec_set ops k v x : sd (srun (ops ++ [SetV F k v])) x = if String.eqb k x then Some v else sd (srun ops) x.
Proof. unfold srun. rewrite fold_left_app. reflexivity. Qed.
Lemma spec_addpar ops k v a b x : sd (srun (ops ++ [Addpar F k v a b])) x = if String.eqb k x then Some v else sd (srun ops) x.
Proof. unfold srun. rewrite fold_left_app. reflexivity. Qed.
Lemma failed_assert_keeps_state s o : snd (step s o) = AssertionError -> fst (step s o) = s.
Proof.
  destruct o; cbn; try discriminate.
  - destruct (forallb _ _); [discriminate | reflexivity].
  - destruct (Nat.eqb _ _); [discriminate | reflexivity].
Qed.
End Proofs.

(* C09: the solvers agree where their tilts coincide (zero tilt): find_omega_general, find_omega_quart and find_omega_wedge return
   the same set of omega, and every omega of find_omega is among them. *)
From Coq Require Import Reals Lra Psatz List.
From XV Require Import RealLib Mat3 Atan2 OmegaSolve Gen_laue P03_laue P09_laue P09_plain P09_quart P09_wedge.
Import ListNotations.
Open Scope R_scope.

Lemma Rx_0 : Rx 0 = mI. Proof. unfold Rx, mI. rewrite cos_0, sin_0. f_equal; ring. Qed.
Lemma Ry_0 : Ry 0 = mI. Proof. unfold Ry, mI. rewrite cos_0, sin_0. f_equal; ring. Qed.

Lemma general_zero_tilt w : laue_form_omega_mat_general w 0 0 = Rz w.
Proof. rewrite laue_omega_general_comp, Rx_0, Ry_0, !mmul_I_l. reflexivity. Qed.
Lemma wedge_zero w : wedge_mat 0 w = Rz w.
Proof. unfold wedge_mat. replace (- 0) with 0 by ring. rewrite Ry_0, mmul_I_l. reflexivity. Qed.

(* every member of the generic solver's list meets the x-condition *)
Lemma model_member_x gn tth Om a b c k w : 0 < tth < PI ->
  vx gn * vx gn + vy gn * vy gn + vz gn * vz gn = sin (tth / 2) * sin (tth / 2) ->
  (forall w, is_rot (Om w)) -> (forall w, vx (mvmul (Om w) gn) = a * cos w + b * sin w + k) ->
  c = - (vx gn * vx gn + vy gn * vy gn + vz gn * vz gn) - k -> a * a + b * b <> 0 ->
  In w (fst (solver_model gn tth Om a b c)) -> vx (mvmul (Om w) gn) = - (sin (tth / 2) * sin (tth / 2)).
Proof.
  intros Ht Hn HOm Hx Hc Hab Hin.
  assert (E : exists e, In (w, e) (combine (fst (solver_model gn tth Om a b c)) (snd (solver_model gn tth Om a b c)))).
  { unfold solver_model in *; cbv zeta in *. destruct (Rlt_dec _ 0); cbn [fst snd combine In] in *; [destruct Hin|].
    destruct Hin as [<-|[<-|[]]]; eexists; [left; reflexivity | right; left; reflexivity]. }
  destruct E as [e He]. pose proof (model_sound gn tth Om a b c k Ht Hn HOm Hx Hc Hab w e He) as D.
  unfold diffracts in D. rewrite D. reflexivity.
Qed.

Lemma quart_zero_tilt w : laue_quart_to_omega (w * 180 / PI) 0 0 = Rz w.
Proof.
  rewrite laue_quart_comp, Rx_0, Ry_0, !mmul_I_l. replace (w * 180 / PI * PI / 180) with w by (field; pose proof PI_RGT_0; lra).
  replace (mtrans mI) with mI by (unfold mtrans, mI; reflexivity). apply mmul_I_r.
Qed.

Section ZeroTilt.
Variables (g : V3) (tth : R).
Hypothesis Ht : 0 < tth < PI.
Hypothesis Hg : vx g * vx g + vy g * vy g <> 0.
Let gn := normalise_to tth g.

Lemma g3_nz : vx g * vx g + vy g * vy g + vz g * vz g <> 0.
Proof. pose proof (Rle_0_sqr (vz g)) as Q. unfold Rsqr in Q. assert (0 <= vx g * vx g) by nra. assert (0 <= vy g * vy g) by nra. intro Z. apply Hg. lra. Qed.

Lemma gnxy_nz : vx gn * vx gn + vy gn * vy gn <> 0.
Proof.
  pose proof (n_pos g Hg) as Np. set (n := sqrt (vx g * vx g + vy g * vy g + vz g * vz g)) in *.
  assert (Hs : 0 < sin (tth / 2)) by (apply sin_gt_0; lra).
  unfold gn, normalise_to; cbv zeta; cbn [vx vy]. fold n. set (sh := sin (tth / 2)) in *.
  replace (sh * vx g / n * (sh * vx g / n) + sh * vy g / n * (sh * vy g / n)) with ((sh * sh / (n * n)) * (vx g * vx g + vy g * vy g)) by (field; lra).
  apply Rmult_integral_contrapositive_currified; [|exact Hg]. apply Rgt_not_eq. apply Rdiv_lt_0_compat; nra.
Qed.

(* the omega list of each solver at zero tilt: exactly the omega in (-pi, pi] with the right x-component under Rz *)
Definition good (w : R) : Prop := - PI < w <= PI /\ vx (mvmul (Rz w) gn) = - (sin (tth / 2) * sin (tth / 2)).

Lemma general_members oms etas : laue_find_omega_general g tth 0 0 = Some (oms, etas) -> forall w, In w oms <-> good w.
Proof.
  intros E w. pose proof g3_nz as Hg3. pose proof gnxy_nz as Hxy.
  assert (Hab : gen_a gn 0 * gen_a gn 0 + gen_b gn 0 * gen_b gn 0 <> 0).
  { unfold gen_a, gen_b. rewrite cos_0. intro Z. apply Hxy. lra. }
  destruct (laue_find_omega_general_sound g tth 0 0 oms etas Ht Hg3 Hab E) as (_ & Hr & Hc & _).
  unfold good. rewrite <- general_zero_tilt. split.
  - intros Hin. split; [apply Hr; exact Hin|].
    rewrite laue_general_refines in E. cbv zeta in E. fold gn in E. destruct (Rlt_dec _ _); [|discriminate]. injection E as E.
    assert (O : oms = fst (omega_general_model gn tth 0 0)) by (rewrite E; reflexivity). subst oms. unfold omega_general_model in Hin.
    pose proof (normalise_length tth g Hg3) as Hn. cbv zeta in Hn. fold gn in Hn.
    apply (model_member_x gn tth (fun w => laue_form_omega_mat_general w 0 0) (gen_a gn 0) (gen_b gn 0) (gen_c gn 0) (vz gn * sin 0) w Ht Hn);
      [intro; apply laue_omega_general_rot | intro; apply general_x_component | reflexivity | exact Hab | exact Hin].
  - intros [H1 H2]. apply Hc; assumption.
Qed.

Lemma quart_members oms etas : laue_find_omega_quart g tth 0 0 = Some (oms, etas) -> forall w, In w oms <-> good w.
Proof.
  intros E w. pose proof g3_nz as Hg3. pose proof gnxy_nz as Hxy.
  assert (Hab : quart_a gn 0 0 * quart_a gn 0 0 + quart_b gn 0 0 * quart_b gn 0 0 <> 0).
  { unfold quart_a, quart_b, q_n1, q_n2. rewrite sin_0, cos_0. intro Z. apply Hxy. nra. }
  destruct (laue_find_omega_quart_sound g tth 0 0 oms etas Ht Hg3 Hab E) as (_ & Hr & Hc).
  unfold good. rewrite <- quart_zero_tilt. split.
  - intros Hin. split; [apply Hr; exact Hin|].
    rewrite laue_quart_refines in E. cbv zeta in E. fold gn in E. destruct (Rlt_dec _ _); [|discriminate]. injection E as E.
    assert (O : oms = fst (omega_quart_model gn tth 0 0)) by (rewrite E; reflexivity). subst oms. unfold omega_quart_model in Hin.
    pose proof (normalise_length tth g Hg3) as Hn. cbv zeta in Hn. fold gn in Hn.
    apply (model_member_x gn tth (fun w => laue_quart_to_omega (w * 180 / PI) 0 0) (quart_a gn 0 0) (quart_b gn 0 0) (quart_c gn 0 0)
             (vx gn * sin 0 ^ 2 + vy gn * sin 0 * q_n1 0 0 + vz gn * sin 0 * q_n2 0 0) w Ht Hn);
      [intro; apply laue_quart_rot | intro; apply quart_x_component | unfold quart_c; ring | exact Hab | exact Hin].
  - intros [H1 H2]. apply Hc; assumption.
Qed.

Lemma wedge_members : forall w, In w (fst (laue_find_omega_wedge g tth 0)) <-> good w.
Proof.
  intros w. assert (Hcw : cos 0 <> 0) by (rewrite cos_0; lra).
  unfold good. rewrite <- wedge_zero. split.
  - intros Hin. destruct (laue_find_omega_wedge g tth 0) as [oms etas] eqn:E. cbn [fst] in Hin.
    destruct (laue_find_omega_wedge_sound g tth 0 oms etas Ht Hg Hcw E) as [Hempty Htwo]. cbv zeta in Hempty, Htwo.
    destruct (Rlt_dec 1 (Rabs (wedge_coseta g tth 0))) as [L|L].
    + destruct (Hempty L) as [-> _]. destruct Hin.
    + destruct (Htwo ltac:(lra)) as (w1 & w2 & -> & _ & D1 & D2 & R1 & R2).
      destruct Hin as [<-|[<-|[]]]; (split; [assumption|]); [unfold diffracts in D1; fold gn in D1; rewrite D1 | unfold diffracts in D2; fold gn in D2; rewrite D2]; reflexivity.
  - intros [H1 H2]. exact (proj2 (laue_find_omega_wedge_complete g tth 0 w Ht Hg Hcw H1 H2)).
Qed.

Theorem zero_tilt_agreement oms1 etas1 oms2 etas2 :
  laue_find_omega_general g tth 0 0 = Some (oms1, etas1) -> laue_find_omega_quart g tth 0 0 = Some (oms2, etas2) ->
  forall w, (In w oms1 <-> In w oms2) /\ (In w oms1 <-> In w (fst (laue_find_omega_wedge g tth 0))) /\ (In w (laue_find_omega g tth) -> In w oms1).
Proof.
  intros E1 E2 w. rewrite (general_members oms1 etas1 E1 w), (quart_members oms2 etas2 E2 w), (wedge_members w).
  split; [tauto|]. split; [tauto|].
  intros Hin. destruct (laue_find_omega_sound g tth w Ht Hg Hin) as [Hx Hr]. unfold good. rewrite <- laue_omega_comp. split; assumption.
Qed.
End ZeroTilt.
